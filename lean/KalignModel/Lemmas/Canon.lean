import KalignModel.Model.Canon
import KalignModel.Lemmas.Sort
import KalignModel.Lemmas.Strncmp
/-! # Lemmas on the canonical order (`msa_sort_len_name`, `kalign_essential_input_check`, `msa_sort_rank`) -/
namespace Kalign
open List

theorem cmpLenName_le_iff (la : Nat) (na : Name) (lb : Nat) (nb : Name) :
    cmpLenName la na lb nb ≤ 0 ↔ la > lb ∨ (la = lb ∧ strcmp na nb < 0) := by
  unfold cmpLenName
  by_cases h1 : la > lb
  · simp [h1]
  · by_cases h2 : la = lb
    · by_cases h3 : strcmp na nb < 0
      · simp [h2, h3]
      · simp [h2, h3]
    · simp [h1, h2]

/-- the sort key of `msa_sort_len_name` -/
def lenNameKey (len : Nat) (name : Name) : Nat × Name := (len, name)

variable {α : Type}

/-- block P for `msa_sort_len_name`: with pairwise distinct keys the result does not depend on
the order of the input -/
theorem sortLenNameBy_perm (len : α → Nat) (name : α → Name) {l₁ l₂ : List α} (hp : l₁.Perm l₂)
    (hnul : ∀ x ∈ l₁, NulFree (name x))
    (hkeys : l₁.Pairwise fun a b => lenNameKey (len a) (name a) ≠ lenNameKey (len b) (name b)) :
    sortLenNameBy len name l₁ = sortLenNameBy len name l₂ := by
  unfold sortLenNameBy
  apply mergeSort_eq_of_perm (fun x => NulFree (name x)) _ _ hp hnul
  · -- comparability
    refine Pairwise.imp_of_mem ?_ hkeys
    intro a b ha hb hk
    simp only [Bool.or_eq_true, decide_eq_true_eq, cmpLenName_le_iff]
    by_cases hl : len a = len b
    · have hne : name a ≠ name b := by
        intro h; apply hk; simp [lenNameKey, hl, h]
      rcases strcmp_total _ _ (hnul a ha) (hnul b hb) hne with h | h
      · exact Or.inl (Or.inr ⟨hl, h⟩)
      · exact Or.inr (Or.inr ⟨hl.symm, h⟩)
    · rcases Nat.lt_or_gt_of_ne hl with h | h
      · exact Or.inr (Or.inl h)
      · exact Or.inl (Or.inl h)
  · -- transitivity
    intro a b c _ _ _ h1 h2
    simp only [decide_eq_true_eq, cmpLenName_le_iff] at h1 h2 ⊢
    rcases h1 with h1 | ⟨e1, s1⟩ <;> rcases h2 with h2 | ⟨e2, s2⟩
    · exact Or.inl (by omega)
    · exact Or.inl (by omega)
    · exact Or.inl (by omega)
    · exact Or.inr ⟨by omega, strcmp_trans_lt _ _ _ s1 s2⟩
  · -- antisymmetry (the comparator is strict: both directions never hold)
    intro a b _ _ h1 h2
    simp only [decide_eq_true_eq, cmpLenName_le_iff] at h1 h2
    exfalso
    rcases h1 with h1 | ⟨e1, s1⟩ <;> rcases h2 with h2 | ⟨e2, s2⟩
    · omega
    · omega
    · omega
    · have := strcmp_swap (name a) (name b); omega

/-! ## essential input check -/

/-- the (name, residues) pairs of the non-empty input sequences, in input order -/
def keptView (inp : List InSeq) : List (Name × List Char) :=
  (inp.filter fun x => x.seq.length ≠ 0).map fun x => (x.name, x.seq)

theorem filter_zipIdx_map_fst (p : α → Bool) (l : List α) (k : Nat) :
    ((l.zipIdx k).filter fun x => p x.1).map (·.1) = l.filter p := by
  induction l generalizing k with
  | nil => simp
  | cons a l ih =>
    simp only [zipIdx_cons, filter_cons]
    by_cases h : p a
    · simp [h, ih]
    · simp [h, ih]

theorem all_filter_eq (p : α → Bool) (l : List α) (h : l.all p) : l.filter p = l := by
  rw [filter_eq_self]; simpa using h

/-- the `if(problem_len0)` shortcut of the C code is not a separate behaviour -/
theorem essentialCheck_eq (len : α → Nat) (l : List α) :
    essentialCheck len l = if l.length ≤ 1 then none else
      some { ok := decide (1 < (l.zipIdx.filter fun x => decide (len x.1 ≠ 0)).length),
             kept := l.zipIdx.filter fun x => decide (len x.1 ≠ 0),
             tail := (l.zipIdx.filter fun x => decide (len x.1 = 0)).reverse } := by
  unfold essentialCheck
  by_cases h1 : l.length ≤ 1
  · simp [h1]
  · simp only [h1, if_false]
    by_cases h2 : (l.zipIdx.all fun x => decide (len x.1 ≠ 0))
    · simp only [h2, if_true]
      have hk := all_filter_eq _ _ h2
      have ht : (l.zipIdx.filter fun x => decide (len x.1 = 0)) = [] := by
        rw [filter_eq_nil_iff]
        intro x hx
        have := (all_eq_true.mp h2) x hx
        simpa using this
      rw [hk, ht]
      simp; omega
    · rw [if_neg h2]

/-- what `kalign_essential_input_check` hands on, forgetting ranks -/
theorem essentialInputCheck_view (inp : List InSeq) (l : List RSeq)
    (h : essentialInputCheck inp = some l) : view l = keptView inp := by
  unfold essentialInputCheck at h
  rw [essentialCheck_eq] at h
  by_cases h1 : inp.length ≤ 1
  · simp [h1] at h
  · simp only [h1, if_false] at h
    split at h
    · cases h
      unfold view keptView
      rw [← filter_zipIdx_map_fst (fun x : InSeq => decide (x.seq.length ≠ 0)) inp 0]
      simp [Function.comp_def]
    · cases h

theorem essentialInputCheck_isSome (inp : List InSeq) :
    (essentialInputCheck inp).isSome = (decide (1 < inp.length) && decide (1 < (keptView inp).length)) := by
  unfold essentialInputCheck
  rw [essentialCheck_eq]
  have hk : (keptView inp).length = ((inp.zipIdx.filter fun x => decide (x.1.seq.length ≠ 0))).length := by
    unfold keptView
    rw [← filter_zipIdx_map_fst (fun x : InSeq => decide (x.seq.length ≠ 0)) inp 0]
    simp
  by_cases h1 : inp.length ≤ 1
  · have : ¬ 1 < inp.length := by omega
    simp [h1, this]
  · have h1' : 1 < inp.length := by omega
    simp only [h1, if_false, h1', decide_true, Bool.true_and, hk]
    generalize (inp.zipIdx.filter fun x => decide (x.1.seq.length ≠ 0)) = F
    by_cases h3 : 1 < F.length
    · simp [h3]
    · simp [h3]

theorem keptView_perm {inp inp' : List InSeq} (hp : inp'.Perm inp) : (keptView inp').Perm (keptView inp) :=
  (hp.filter _).map _

/-! ## lookup by name -/

theorem find?_perm_of_nodup_fst {β γ : Type} [DecidableEq β] {l l' : List (β × γ)} (hp : l.Perm l')
    (hnd : (l.map (·.1)).Nodup) (n : β) :
    l.find? (fun x => x.1 = n) = l'.find? (fun x => x.1 = n) := by
  induction hp with
  | nil => rfl
  | cons x _ ih =>
    simp only [map_cons, nodup_cons] at hnd
    simp only [find?_cons]
    split
    · rfl
    · exact ih hnd.2
  | swap x y l =>
    simp only [map_cons, nodup_cons, mem_cons, not_or] at hnd
    simp only [find?_cons]
    by_cases hx : x.1 = n <;> by_cases hy : y.1 = n
    · exact absurd (hy.trans hx.symm) hnd.1.1
    · simp [hx, hy]
    · simp [hx, hy]
    · simp [hx, hy]
  | trans h₁ _ ih₁ ih₂ =>
    rw [ih₁ hnd]
    exact ih₂ ((h₁.map _).nodup_iff.mp hnd)

/-! ## ranks -/

theorem pairwise_zipIdx_snd {β : Type} (l : List β) (k : Nat) :
    (l.zipIdx k).Pairwise fun a b => a.2 < b.2 := by
  induction l generalizing k with
  | nil => simp
  | cons a l ih =>
    rw [zipIdx_cons, pairwise_cons]
    refine ⟨?_, ih (k + 1)⟩
    intro b hb
    have := le_snd_of_mem_zipIdx hb
    simp only at this ⊢
    omega

/-- the essential check hands on its sequences in strictly increasing rank order -/
theorem essentialInputCheck_ranks (inp : List InSeq) (l : List RSeq)
    (h : essentialInputCheck inp = some l) : l.Pairwise fun a b => a.rank < b.rank := by
  unfold essentialInputCheck at h
  rw [essentialCheck_eq] at h
  by_cases h1 : inp.length ≤ 1
  · simp [h1] at h
  · simp only [h1, if_false] at h
    split at h
    · cases h
      rw [pairwise_map]
      exact (pairwise_zipIdx_snd inp 0).sublist filter_sublist
    · cases h

theorem sortRankBy_eq_of_perm {l E : List RSeq} (hp : l.Perm E)
    (hE : E.Pairwise fun a b => a.rank < b.rank) : sortRankBy (·.rank) l = E := by
  unfold sortRankBy
  have hEle : E.Pairwise fun a b => decide (a.rank ≤ b.rank) = true :=
    hE.imp (fun h => by simp only [decide_eq_true_eq]; omega)
  rw [← mergeSort_of_pairwise hEle]
  apply mergeSort_eq_of_perm (fun x => x ∈ E) _ _ hp (fun a ha => hp.mem_iff.mp ha)
  · exact pairwise_of_forall (fun a b => by simp only [Bool.or_eq_true, decide_eq_true_eq]; omega)
  · intro a b c _ _ _ h1 h2
    simp only [decide_eq_true_eq] at h1 h2 ⊢
    omega
  · intro a b ha hb h1 h2
    simp only [decide_eq_true_eq] at h1 h2
    have hr : a.rank = b.rank := by omega
    have hnd : (E.map (·.rank)).Nodup := by
      rw [Nodup, pairwise_map]
      exact hE.imp (fun h => by omega)
    exact eq_of_nodup_map hnd ha hb hr

end Kalign
