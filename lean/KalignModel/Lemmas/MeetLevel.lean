import KalignModel.Lemmas.MeetSpec
import KalignModel.Lemmas.Walk
/-!
# S2 — the meetup of one Hirschberg level in terms of readings

`absMeet` is the meetup over the tables of two abstract kernels (forward `cF` with `m1` rows, backward `cB` with `m2`
rows, both with cells `0..n`).  `ssMeet_eq`: forward + backward + meetup of the real sequence–sequence kernels is
`absMeet`.  `absMeet_sound`: the returned score dominates the value of every admissible cut `(k, t)` of every pair
of walks.  `absMeet_attained`: a finite returned score is the value of the returned cut for some pair of walks.
-/
namespace Kalign

/-- admissible candidates: all six transitions in cells `k < n`, transitions 3 and 6 in cell `n` -/
def Adm (n k : Nat) (t : Int) : Prop :=
  (k < n ∧ (t = 1 ∨ t = 2 ∨ t = 3 ∨ t = 5 ∨ t = 6 ∨ t = 7)) ∨ (k = n ∧ (t = 3 ∨ t = 6))

def absF (cF : KCfg) (startF : States ExactScore) (m1 : Nat) : Nat → States ExactScore :=
  fun k => absTab cF startF m1 k
def absB (cB : KCfg) (startB : States ExactScore) (m2 : Nat) : Nat → States ExactScore :=
  fun k => absTab cB startB m2 (cB.n - k)

def absMeet (cF cB : KCfg) (m1 m2 : Nat) (startF startB : States ExactScore) (sb eb : Nat) : MeetResult ExactScore :=
  let r := tryAll ⟨none, -1, -1⟩ (candList cF sb eb (absF cF startF m1) (absB cB startB m2) 0 cF.n)
  ⟨r.c, r.transition, r.max⟩

theorem map_range_reverse {β : Type} (f : Nat → β) (n : Nat) :
    ((List.range (n + 1)).map f).reverse = (List.range (n + 1)).map fun k => f (n - k) := by
  apply List.ext_getElem
  · simp
  · intro i h1 h2
    simp only [List.length_reverse, List.length_map, List.length_range] at h1
    simp only [List.getElem_reverse, List.getElem_map, List.getElem_range, List.length_map, List.length_range]
    simp only [Nat.add_sub_cancel]

/-- forward + backward + meetup of the real kernels on one rectangle -/
theorem ssMeet_eq (ap : AlnParam ExactScore) (gpo gpe tgpe : Int) (s : Nat → Nat → Int)
    (h : ApOK ap gpo gpe tgpe s) (seq1 seq2 : Array Nat) (sa mid ea sb eb lenB : Nat)
    (hb : sb < eb) (ha : mid ≤ ea) (startF startB : States ExactScore) :
    let rF : Rect := ⟨sa, mid, sb, eb, lenB⟩
    let rB : Rect := ⟨mid, ea, sb, eb, lenB⟩
    meetupRun (ssMeetOps ap rF) sb eb (ssForward ap seq1 seq2 rF startF) (ssBackward ap seq1 seq2 rB startB) =
      absMeet (cfgF gpo gpe tgpe s seq1 seq2 rF) (cfgB gpo gpe tgpe s seq1 seq2 rB) (mid - sa) (ea - mid)
        startF startB sb eb := by
  intro rF rB
  rw [ssForward_eq_absTab ap gpo gpe tgpe s h seq1 seq2 rF hb startF,
    ssBackward_eq_absTab ap gpo gpe tgpe s h seq1 seq2 rB hb ha startB, map_range_reverse]
  have := meetupRun_eq (ssMeetOps ap rF) sb eb (eb - sb)
    (absTab (cfgF gpo gpe tgpe s seq1 seq2 rF) startF (mid - sa))
    (fun k => absTab (cfgB gpo gpe tgpe s seq1 seq2 rB) startB (ea - mid) (eb - sb - k))
  rw [this]
  have hc := ssCands_eq ap gpo gpe tgpe s h seq1 seq2 rF
    (absTab (cfgF gpo gpe tgpe s seq1 seq2 rF) startF (mid - sa))
    (fun k => absTab (cfgB gpo gpe tgpe s seq1 seq2 rB) startB (ea - mid) (eb - sb - k)) (eb - sb) 0 (by simp [rF])
  simp only [rF] at hc ⊢
  rw [hc]
  rfl

theorem meetVal_mono (cF : KCfg) (sb eb : Nat) (t : Int) (k : Nat) {x x' y y' : Option Int}
    (h1 : ole x x') (h2 : ole y y') : ole (meetVal cF sb eb t k x y) (meetVal cF sb eb t k x' y') :=
  osub_mono _ (osub_mono _ (oplus_mono h1 h2))

theorem mem_candList_adm (cF : KCfg) (sb eb : Nat) (F B : Nat → States ExactScore) (n k : Nat) (t : Int)
    (h : Adm n k t) : mkCand cF sb eb F B k t ∈ candList cF sb eb F B 0 n := by
  rw [mem_candList]
  refine ⟨k, t, Nat.zero_le _, ?_, ?_, rfl⟩
  · rcases h with h | h <;> omega
  · rcases h with h | h
    · exact Or.inl ⟨by omega, h.2⟩
    · exact Or.inr ⟨by omega, h.2⟩

/-- **S2 (soundness)**: the meetup score dominates every admissible cut of every pair of walks -/
theorem absMeet_sound (cF cB : KCfg) (hn : 1 ≤ cF.n) (hnn : cB.n = cF.n) (m1 m2 : Nat)
    (startF startB : States ExactScore) (sb eb : Nat) (k : Nat) (t : Int) (hadm : Adm cF.n k t)
    (k0F k0B : Kind) (X1 X2r : List Col) (v1 v2 : Option Int)
    (h1 : runF cF (initP startF k0F) X1 = ⟨m1, k, fkOf t, v1⟩)
    (h2 : runF cB (initP startB k0B) X2r = ⟨m2, cF.n - k, bkOf t, v2⟩) :
    ole (meetVal cF sb eb t k v1 v2) (absMeet cF cB m1 m2 startF startB sb eb).score := by
  have hF : ole v1 ((absF cF startF m1 k).get (fkOf t)) := by
    have := abs_sound cF hn startF k0F X1
    rw [readAbs, h1] at this
    exact this
  have hB : ole v2 ((absB cB startB m2 k).get (bkOf t)) := by
    have := abs_sound cB (by omega) startB k0B X2r
    rw [readAbs, h2] at this
    simpa [absB, hnn] using this
  have hmem := mem_candList_adm cF sb eb (absF cF startF m1) (absB cB startB m2) cF.n k t hadm
  have hge := tryAll_ge _ ⟨none, -1, -1⟩ _ hmem
  exact ole_trans (meetVal_mono cF sb eb t k hF hB) hge

theorem meetVal_some {cF : KCfg} {sb eb : Nat} {t : Int} {k : Nat} {x y : Option Int}
    (h : meetVal cF sb eb t k x y ≠ none) : x ≠ none ∧ y ≠ none := by
  cases x <;> cases y <;> simp_all [meetVal]

/-- **S2 (attainment)**: a finite meetup score is the value of the returned cut `(meet, transition)` for some pair of
walks ending at the middle row in the kinds of that transition -/
theorem absMeet_attained (cF cB : KCfg) (hn : 1 ≤ cF.n) (hnn : cB.n = cF.n) (m1 m2 : Nat)
    (startF startB : States ExactScore) (sb eb : Nat)
    (hfin : (absMeet cF cB m1 m2 startF startB sb eb).score ≠ none) :
    ∃ k t, Adm cF.n k t ∧ (absMeet cF cB m1 m2 startF startB sb eb).meet = ((sb + k : Nat) : Int) ∧
      (absMeet cF cB m1 m2 startF startB sb eb).transition = t ∧
      ∃ k0F k0B X1 X2r v1 v2,
        runF cF (initP startF k0F) X1 = ⟨m1, k, fkOf t, some v1⟩ ∧
        runF cB (initP startB k0B) X2r = ⟨m2, cF.n - k, bkOf t, some v2⟩ ∧
        (absMeet cF cB m1 m2 startF startB sb eb).score = meetVal cF sb eb t k (some v1) (some v2) := by
  unfold absMeet at hfin ⊢
  simp only at hfin ⊢
  rcases tryAll_from_negInf (candList cF sb eb (absF cF startF m1) (absB cB startB m2) 0 cF.n)
    with ⟨h1, _⟩ | ⟨pre, c, post, h1, h2, h3, _, _⟩
  · rw [h1] at hfin; exact absurd rfl hfin
  · have hmem : c ∈ candList cF sb eb (absF cF startF m1) (absB cB startB m2) 0 cF.n := by
      rw [h1]; simp
    rw [mem_candList] at hmem
    obtain ⟨k, t, _, hk2, hadm, hc⟩ := hmem
    simp only [Nat.zero_add] at hk2 hadm
    rw [h2]
    subst hc
    simp only [candAcc, mkCand] at h3 ⊢
    obtain ⟨hx, hy⟩ := meetVal_some h3
    have hk : k ≤ cF.n := hk2
    refine ⟨k, t, ?_, rfl, rfl, ?_⟩
    · rcases hadm with h | h
      · exact Or.inl h
      · exact Or.inr h
    · rcases abs_attained cF hn startF m1 k hk (fkOf t) with hF | ⟨k0F, X1, hF⟩
      · exact absurd hF hx
      · rcases abs_attained cB (by omega) startB m2 (cB.n - k) (by omega) (bkOf t) with hB | ⟨k0B, X2r, hB⟩
        · exact absurd hB hy
        · cases hv1 : (absF cF startF m1 k).get (fkOf t) with
          | none => exact absurd hv1 hx
          | some v1 =>
            cases hv2 : (absB cB startB m2 k).get (bkOf t) with
            | none => exact absurd hv2 hy
            | some v2 =>
              refine ⟨k0F, k0B, X1, X2r, v1, v2, ?_, ?_, rfl⟩
              · rw [hF]; congr 1
              · rw [hB, hnn]; congr 1
                rw [← hv2, absB, hnn]

/-- when every candidate is −∞ the meetup reports transition −1 at column −1 -/
theorem absMeet_none (cF cB : KCfg) (m1 m2 : Nat) (startF startB : States ExactScore) (sb eb : Nat)
    (h : (absMeet cF cB m1 m2 startF startB sb eb).score = none) :
    (absMeet cF cB m1 m2 startF startB sb eb).transition = -1 ∧
      (absMeet cF cB m1 m2 startF startB sb eb).meet = -1 := by
  unfold absMeet at h ⊢
  simp only at h ⊢
  rcases tryAll_from_negInf (candList cF sb eb (absF cF startF m1) (absB cB startB m2) 0 cF.n)
    with ⟨h1, _⟩ | ⟨pre, c, post, _, h2, h3, _, _⟩
  · rw [h1]; exact ⟨rfl, rfl⟩
  · rw [h2] at h; exact absurd h h3

end Kalign

/-! ## the returned cut is the *first* maximum in the scan order of the code -/
namespace Kalign

/-- scan order: by column, then by transition code -/
def candLt (a b : ExactScore × Int × Nat) : Prop := a.2.2 < b.2.2 ∨ (a.2.2 = b.2.2 ∧ a.2.1 < b.2.1)

theorem candList_pairwise (cF : KCfg) (sb eb : Nat) (F B : Nat → States ExactScore) :
    ∀ d k, (candList cF sb eb F B k d).Pairwise candLt := by
  intro d
  induction d with
  | zero =>
    intro k
    simp only [candList, List.map_cons, List.map_nil, List.pairwise_cons, List.mem_cons, List.not_mem_nil, or_false,
      forall_eq, List.Pairwise.nil, and_true, false_imp_iff, implies_true]
    right; exact ⟨rfl, by simp [mkCand]⟩
  | succ d ih =>
    intro k
    rw [candList, List.pairwise_append]
    refine ⟨?_, ih (k + 1), ?_⟩
    · simp only [List.map_cons, List.map_nil, List.pairwise_cons, List.mem_cons, List.not_mem_nil, or_false,
        List.Pairwise.nil, and_true, forall_eq_or_imp, forall_eq, false_imp_iff, implies_true]
      simp [candLt, mkCand]
    · intro a ha b hb
      rw [mem_candList] at hb
      obtain ⟨k', t', hk1, _, _, hb'⟩ := hb
      simp only [List.map_cons, List.map_nil, List.mem_cons, List.not_mem_nil, or_false] at ha
      left
      rw [hb']
      rcases ha with h | h | h | h | h | h <;> rw [h] <;> simp only [mkCand] <;> omega

theorem not_candLt_self (a : ExactScore × Int × Nat) : ¬ candLt a a := by
  unfold candLt; omega

theorem candLt_asymm {a b : ExactScore × Int × Nat} (h : candLt a b) : ¬ candLt b a := by
  unfold candLt at *; omega

/-- **S2 (first maximum)**: every admissible candidate that the code scans before the returned `(meet, transition)` has
a strictly smaller value; every candidate has a value at most the returned score -/
theorem absMeet_first (cF cB : KCfg) (m1 m2 : Nat) (startF startB : States ExactScore) (sb eb : Nat)
    (hfin : (absMeet cF cB m1 m2 startF startB sb eb).score ≠ none) :
    ∃ k t, Adm cF.n k t ∧ (absMeet cF cB m1 m2 startF startB sb eb).meet = ((sb + k : Nat) : Int) ∧
      (absMeet cF cB m1 m2 startF startB sb eb).transition = t ∧
      (absMeet cF cB m1 m2 startF startB sb eb).score =
        (mkCand cF sb eb (absF cF startF m1) (absB cB startB m2) k t).1 ∧
      (∀ k' t', Adm cF.n k' t' → (k' < k ∨ (k' = k ∧ t' < t)) →
        ¬ ole (absMeet cF cB m1 m2 startF startB sb eb).score
          (mkCand cF sb eb (absF cF startF m1) (absB cB startB m2) k' t').1) ∧
      (∀ k' t', Adm cF.n k' t' →
        ole (mkCand cF sb eb (absF cF startF m1) (absB cB startB m2) k' t').1
          (absMeet cF cB m1 m2 startF startB sb eb).score) := by
  unfold absMeet at hfin ⊢
  simp only at hfin ⊢
  rcases tryAll_from_negInf (candList cF sb eb (absF cF startF m1) (absB cB startB m2) 0 cF.n)
    with ⟨h1, _⟩ | ⟨pre, c, post, h1, h2, h3, h4, h5⟩
  · rw [h1] at hfin; exact absurd rfl hfin
  · have hmem : c ∈ candList cF sb eb (absF cF startF m1) (absB cB startB m2) 0 cF.n := by rw [h1]; simp
    have hmem' := hmem
    rw [mem_candList] at hmem'
    obtain ⟨k, t, _, hk2, hadm, hc⟩ := hmem'
    simp only [Nat.zero_add] at hk2 hadm
    have hpw := candList_pairwise cF sb eb (absF cF startF m1) (absB cB startB m2) cF.n 0
    rw [h1, List.pairwise_append] at hpw
    obtain ⟨_, hpw2, _⟩ := hpw
    rw [List.pairwise_cons] at hpw2
    rw [h2]
    refine ⟨k, t, hadm, by rw [hc]; rfl, by rw [hc]; rfl, by rw [hc]; rfl, ?_, ?_⟩
    · intro k' t' hadm' hlt
      have hmem2 := mem_candList_adm cF sb eb (absF cF startF m1) (absB cB startB m2) cF.n k' t' hadm'
      have hltc : candLt (mkCand cF sb eb (absF cF startF m1) (absB cB startB m2) k' t') c := by
        rw [hc]; unfold candLt; simp only [mkCand]; omega
      rw [h1] at hmem2
      rcases List.mem_append.mp hmem2 with h | h
      · exact h4 _ h
      · rcases List.mem_cons.mp h with h | h
        · rw [h] at hltc; exact absurd hltc (not_candLt_self c)
        · exact absurd (hpw2.1 _ h) (candLt_asymm hltc)
    · intro k' t' hadm'
      have hmem2 := mem_candList_adm cF sb eb (absF cF startF m1) (absB cB startB m2) cF.n k' t' hadm'
      have := tryAll_ge _ ⟨none, -1, -1⟩ _ hmem2
      rw [h2] at this
      exact this

end Kalign
