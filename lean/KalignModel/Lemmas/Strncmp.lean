import KalignModel.Model.Cmp
/-! # `strncmp` is (the sign of) the lexicographic order of the `n`-byte prefixes -/
namespace Kalign

theorem byte_ne_iff (x y : UInt8) : x ≠ y ↔ x.toNat ≠ y.toNat := by
  rw [Ne, Ne, UInt8.toNat_inj]

theorem strncmp_swap (n : Nat) (a b : Name) : strncmp n b a = - strncmp n a b := by
  induction n generalizing a b with
  | zero => simp [strncmp]
  | succ n ih =>
    cases a with
    | nil => cases b <;> simp [strncmp]
    | cons x xs =>
      cases b with
      | nil => simp [strncmp]
      | cons y ys =>
        simp only [strncmp]
        by_cases h : x = y
        · subst h
          simp only [ne_eq, not_true_eq_false, if_false]
          exact ih _ _
        · have h' : ¬ y = x := fun e => h e.symm
          simp only [h, h', ne_eq, not_false_eq_true, if_true]; omega

theorem strncmp_self (n : Nat) (a : Name) : strncmp n a a = 0 := by
  have := strncmp_swap n a a; omega

theorem strncmp_trans_lt (n : Nat) (a b c : Name)
    (h1 : strncmp n a b < 0) (h2 : strncmp n b c < 0) : strncmp n a c < 0 := by
  induction n generalizing a b c with
  | zero => simp [strncmp] at h1
  | succ n ih =>
    cases a with
    | nil =>
      cases b with
      | nil => simp [strncmp] at h1
      | cons y ys =>
        cases c with
        | nil => simp only [strncmp] at h2; omega
        | cons z zs =>
          simp only [strncmp] at h1 h2 ⊢
          by_cases hyz : y = z
          · subst hyz; omega
          · simp only [hyz, ne_eq, not_false_eq_true, if_true] at h2; omega
    | cons x xs =>
      cases b with
      | nil => simp only [strncmp] at h1; omega
      | cons y ys =>
        cases c with
        | nil => simp only [strncmp] at h2; omega
        | cons z zs =>
          simp only [strncmp] at h1 h2 ⊢
          by_cases hxy : x = y
          · subst hxy
            simp only [ne_eq, not_true_eq_false, if_false] at h1
            by_cases hxz : x = z
            · subst hxz
              simp only [ne_eq, not_true_eq_false, if_false] at h2 ⊢
              exact ih _ _ _ h1 h2
            · simp only [hxz, ne_eq, not_false_eq_true, if_true] at h2 ⊢; exact h2
          · simp only [hxy, ne_eq, not_false_eq_true, if_true] at h1
            by_cases hyz : y = z
            · subst hyz
              simp only [hxy, ne_eq, not_false_eq_true, if_true]; exact h1
            · simp only [hyz, ne_eq, not_false_eq_true, if_true] at h2
              have hxz : x ≠ z := by
                rw [byte_ne_iff]; omega
              simp only [hxz, ne_eq, not_false_eq_true, if_true]; omega

theorem strncmp_eq_zero_iff (n : Nat) (a b : Name) (ha : NulFree a) (hb : NulFree b) :
    strncmp n a b = 0 ↔ a.take n = b.take n := by
  induction n generalizing a b with
  | zero => simp [strncmp]
  | succ n ih =>
    cases a with
    | nil =>
      cases b with
      | nil => simp [strncmp]
      | cons y ys =>
        have hy : y ≠ 0 := hb y List.mem_cons_self
        have : y.toNat ≠ 0 := by
          have := (byte_ne_iff y 0).mp hy; simpa using this
        simp only [strncmp, List.take_nil, List.take_succ_cons]
        constructor
        · intro h; omega
        · intro h; cases h
    | cons x xs =>
      cases b with
      | nil =>
        have hx : x ≠ 0 := ha x List.mem_cons_self
        have : x.toNat ≠ 0 := by
          have := (byte_ne_iff x 0).mp hx; simpa using this
        simp only [strncmp, List.take_nil, List.take_succ_cons]
        constructor
        · intro h; omega
        · intro h; cases h
      | cons y ys =>
        simp only [strncmp, List.take_succ_cons, List.cons.injEq]
        have ha' : NulFree xs := fun b hb' => ha b (List.mem_cons_of_mem _ hb')
        have hb' : NulFree ys := fun b hb'' => hb b (List.mem_cons_of_mem _ hb'')
        by_cases hxy : x = y
        · subst hxy
          simp only [ne_eq, not_true_eq_false, if_false, true_and]
          exact ih xs ys ha' hb'
        · simp only [hxy, ne_eq, not_false_eq_true, if_true, false_and, iff_false]
          have := (byte_ne_iff x y).mp hxy
          omega

/-- two names are comparable under `strncmp(·,·,n) < 0` unless their `n`-byte prefixes agree -/
theorem strncmp_total (n : Nat) (a b : Name) (ha : NulFree a) (hb : NulFree b)
    (hne : a.take n ≠ b.take n) : strncmp n a b < 0 ∨ strncmp n b a < 0 := by
  have h0 : strncmp n a b ≠ 0 := fun h => hne ((strncmp_eq_zero_iff n a b ha hb).mp h)
  have := strncmp_swap n a b
  omega

/-- equal prefixes compare equal (no NUL-freeness needed) -/
theorem strncmp_append_eq_zero (p x y : Name) : strncmp p.length (p ++ x) (p ++ y) = 0 := by
  induction p with
  | nil => simp [strncmp]
  | cons c p ih => simp [strncmp, ih]

end Kalign
