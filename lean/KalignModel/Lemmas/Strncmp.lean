import KalignModel.Model.Cmp
/-! # `strcmp` is (the sign of) the lexicographic order of NUL-free byte strings

(The file keeps its historical name: until commits 15117bc / 0022995 of the C sources the
comparators used `strncmp(·,·,256)`.) -/
namespace Kalign

theorem byte_ne_iff (x y : UInt8) : x ≠ y ↔ x.toNat ≠ y.toNat := by
  rw [Ne, Ne, UInt8.toNat_inj]

theorem strcmp_swap (a b : Name) : strcmp b a = - strcmp a b := by
  induction a generalizing b with
  | nil => cases b <;> simp [strcmp]
  | cons x xs ih =>
    cases b with
    | nil => simp [strcmp]
    | cons y ys =>
      simp only [strcmp]
      by_cases h : x = y
      · subst h
        simp only [ne_eq, not_true_eq_false, if_false]
        exact ih _
      · have h' : ¬ y = x := fun e => h e.symm
        simp only [h, h', ne_eq, not_false_eq_true, if_true]; omega

theorem strcmp_self (a : Name) : strcmp a a = 0 := by
  have := strcmp_swap a a; omega

theorem strcmp_trans_lt (a b c : Name)
    (h1 : strcmp a b < 0) (h2 : strcmp b c < 0) : strcmp a c < 0 := by
  induction a generalizing b c with
  | nil =>
    cases b with
    | nil => simp [strcmp] at h1
    | cons y ys =>
      cases c with
      | nil => simp only [strcmp] at h2; omega
      | cons z zs =>
        simp only [strcmp] at h1 h2 ⊢
        by_cases hyz : y = z
        · subst hyz; omega
        · simp only [hyz, ne_eq, not_false_eq_true, if_true] at h2; omega
  | cons x xs ih =>
    cases b with
    | nil => simp only [strcmp] at h1; omega
    | cons y ys =>
      cases c with
      | nil => simp only [strcmp] at h2; omega
      | cons z zs =>
        simp only [strcmp] at h1 h2 ⊢
        by_cases hxy : x = y
        · subst hxy
          simp only [ne_eq, not_true_eq_false, if_false] at h1
          by_cases hxz : x = z
          · subst hxz
            simp only [ne_eq, not_true_eq_false, if_false] at h2 ⊢
            exact ih _ _ h1 h2
          · simp only [hxz, ne_eq, not_false_eq_true, if_true] at h2 ⊢; exact h2
        · simp only [hxy, ne_eq, not_false_eq_true, if_true] at h1
          by_cases hyz : y = z
          · subst hyz
            simp only [hxy, ne_eq, not_false_eq_true, if_true]; exact h1
          · simp only [hyz, ne_eq, not_false_eq_true, if_true] at h2
            have hxz : x ≠ z := by
              rw [byte_ne_iff]; omega
            simp only [hxz, ne_eq, not_false_eq_true, if_true]; omega

theorem strcmp_eq_zero_iff (a b : Name) (ha : NulFree a) (hb : NulFree b) :
    strcmp a b = 0 ↔ a = b := by
  induction a generalizing b with
  | nil =>
    cases b with
    | nil => simp [strcmp]
    | cons y ys =>
      have hy : y ≠ 0 := hb y List.mem_cons_self
      have : y.toNat ≠ 0 := by
        have := (byte_ne_iff y 0).mp hy; simpa using this
      simp only [strcmp]
      constructor
      · intro h; omega
      · intro h; cases h
  | cons x xs ih =>
    cases b with
    | nil =>
      have hx : x ≠ 0 := ha x List.mem_cons_self
      have : x.toNat ≠ 0 := by
        have := (byte_ne_iff x 0).mp hx; simpa using this
      simp only [strcmp]
      constructor
      · intro h; omega
      · intro h; cases h
    | cons y ys =>
      simp only [strcmp, List.cons.injEq]
      have ha' : NulFree xs := fun b hb' => ha b (List.mem_cons_of_mem _ hb')
      have hb' : NulFree ys := fun b hb'' => hb b (List.mem_cons_of_mem _ hb'')
      by_cases hxy : x = y
      · subst hxy
        simp only [ne_eq, not_true_eq_false, if_false, true_and]
        exact ih ys ha' hb'
      · simp only [hxy, ne_eq, not_false_eq_true, if_true, false_and, iff_false]
        have := (byte_ne_iff x y).mp hxy
        omega

/-- two distinct names are comparable under `strcmp(·,·) < 0` -/
theorem strcmp_total (a b : Name) (ha : NulFree a) (hb : NulFree b)
    (hne : a ≠ b) : strcmp a b < 0 ∨ strcmp b a < 0 := by
  have h0 : strcmp a b ≠ 0 := fun h => hne ((strcmp_eq_zero_iff a b ha hb).mp h)
  have := strcmp_swap a b
  omega

/-- a common prefix does not hide what follows it: `strcmp (p ++ x) (p ++ y) = strcmp x y` -/
theorem strcmp_append_left (p x y : Name) : strcmp (p ++ x) (p ++ y) = strcmp x y := by
  induction p with
  | nil => rfl
  | cons c p ih => simp [strcmp, ih]

end Kalign
