import KalignModel.Lemmas.IndexAlign
import KalignModel.Lemmas.IndexTree
import KalignModel.Lemmas.IndexKmeans
import KalignModel.Lemmas.IndexBpm
import KalignModel.Lemmas.Kmeans
/-!
# The checked pipeline agrees with the totalised one (slice AD, items 1–6 composed up to `core`)
-/
namespace Kalign.Pipeline
open Kalign Kalign.Kmeans

/-! ## `mirror_path_n` -/

theorem mirrorPathC_eq (lenA : Nat) (apath : List Int) (h : ∀ p ∈ apath, p ≤ lenA) :
    mirrorPathC lenA apath = some (mirrorPath lenA apath) := by
  unfold mirrorPathC mirrorPath
  refine (foldlC_eq_inv (fun o : List Int => o.length = lenA) _ _ _ _ (by simp) ?_).1
  intro o ip hip ho
  obtain ⟨q, hq, rfl⟩ := List.mem_map.1 hip
  have hp : q.1 ≤ lenA := h q.1 (by
    have := List.mem_zipIdx hq
    obtain ⟨p, i⟩ := q
    obtain ⟨_, _, e⟩ := this
    simp only at e ⊢
    rw [e]; exact List.getElem_mem _)
  dsimp only
  split
  · exact ⟨rfl, ho⟩
  · rw [lsetC_eq _ _ _ (by omega)]
    exact ⟨rfl, by simpa using ho⟩

theorem pathOKAux_le (lenB : Nat) (last : Int) (pg : Bool) (ps : List Int) (h : pathOKAux lenB last pg ps = true) :
    ∀ p ∈ ps, p ≤ lenB := by
  induction ps generalizing last pg with
  | nil => intro p hp; cases hp
  | cons q qs ih =>
    intro p hp
    rw [pathOKAux] at h
    split at h
    · rename_i hq
      rcases List.mem_cons.1 hp with e | e
      · subst e
        have : p = -1 := by simpa using hq
        omega
      · exact ih _ _ h p e
    · simp only [Bool.and_eq_true, decide_eq_true_eq] at h
      rcases List.mem_cons.1 hp with e | e
      · subst e; exact h.1.2
      · exact ih _ _ h.2 p e

/-- the path of a Hirschberg run that passes the monitor is mirrored without a dropped write -/
theorem mirrorPathC_run {β : Type} [Score β] (entry : Entry) (ap : AlnParam β) (ops : Operands β) (la lb : Nat)
    (h1 : 1 ≤ la) (h2 : 1 ≤ lb) (hmon : (alnRun .serial ap ops la lb (initMem la lb)).mon = true) :
    mirrorPathC lb ((alnRun entry ap ops la lb (initMem la lb)).pathEntries la) =
      some (mirrorPath lb ((alnRun entry ap ops la lb (initMem la lb)).pathEntries la)) := by
  have hfault := alnRun_serial_no_fault ap ops la lb
  obtain ⟨hp, _⟩ := C07_columns_valid entry ap ops la lb h1 h2 hfault hmon
  exact mirrorPathC_eq lb _ (pathOKAux_le lb 0 false _ hp)

/-! ## the rounds of `bisecting_kmeans` -/

theorem roundResC_eq (spC : Nat → Chk Split) (sp : Nat → Option Split) (h : ∀ k, (spC k).run = some (sp k))
    (step i : Nat) : (roundResC spC step i).run = some (roundRes sp step i) := by
  unfold roundResC roundRes
  simp only [OptionT.run_bind, h, Option.elimM, Option.pure_def, Option.bind_eq_bind, Option.bind_some]
  cases sp (i * step) <;> cases sp ((i + 1) * step) <;> cases sp ((i + 2) * step) <;> cases sp ((i + 3) * step) <;> rfl

theorem roundsGoC_eq (spC : Nat → Chk Split) (sp : Nat → Option Split) (h : ∀ k, (spC k).run = some (sp k))
    (step rem i : Nat) (best : Option Split) :
    (roundsGoC spC step rem i best).run = some (roundsGo sp step rem i best) := by
  induction rem generalizing i best with
  | zero => rfl
  | succ rem ih =>
    rw [roundsGoC, roundsGo, OptionT.run_bind, roundResC_eq spC sp h]
    cases roundRes sp step i with
    | none => rfl
    | some rs =>
      simp only [Option.elimM, Option.pure_def, Option.bind_eq_bind, Option.bind_some, Option.elim_some]
      generalize reduceRes (best, 0) rs = bc
      obtain ⟨b', ch⟩ := bc
      dsimp only
      split
      · rfl
      · exact ih (i + 4) b'

theorem bestSplitC_eq (avx : Bool) (dm : Array (Array Float32)) (na : Nat) (samples : List Nat) :
    (bestSplitC avx dm na samples).run = some (bestSplit avx dm na samples) := by
  unfold bestSplitC bestSplit
  dsimp only
  generalize (if kmTries < samples.length then kmTries else samples.length) = tries
  split
  · rfl
  · rw [OptionT.run_bind, roundsGoC_eq _ (split2 avx dm samples na) (fun k => split2WithC_eq kmMaxIter avx dm samples na k)]
    generalize roundsGo (split2 avx dm samples na) _ _ 0 none = res
    cases res with
    | none => rfl
    | some o => cases o <;> rfl

theorem bisectOC_eq (avx : Bool) (dm : Array (Array Float32)) (na N : Nat) (smallC : List Nat → Chk Tree)
    (small : List Nat → Option Tree) (hs : ∀ l, (∀ s ∈ l, s < N) → (smallC l).run = some (small l))
    (fuel : Nat) (samples : List Nat) (hl : ∀ s ∈ samples, s < N) :
    bisectOC avx dm na smallC fuel samples = some (bisectO avx dm na small fuel samples) := by
  induction fuel generalizing samples with
  | zero =>
    rw [bisectOC, bisectO]
    split
    · rw [hs samples hl]; cases small samples <;> rfl
    · rfl
  | succ fuel ih =>
    rw [bisectOC, bisectO]
    split
    · rw [hs samples hl]; cases small samples <;> rfl
    · rw [bestSplitC_eq, Option.bind_some]
      cases hb : bestSplit avx dm na samples with
      | none => rfl
      | some b =>
        have hg := bestSplit_good hb
        dsimp only
        rw [ih b.sl (fun s h => hl s (hg.subl.subset h)), Option.bind_some,
          ih b.sr (fun s h => hl s (hg.subr.subset h)), Option.map_some]
        cases bisectO avx dm na small fuel b.sl <;> cases bisectO avx dm na small fuel b.sr <;> rfl

theorem buildTasksC_eq (avx : Bool) (codes : Array (List Nat)) : buildTasksC avx codes = some (buildTasks avx codes) := by
  unfold buildTasksC buildTasks
  dsimp only
  cases hp : pickAnchors (codes.toList.map List.length) with
  | none => rfl
  | some anchors =>
    dsimp only
    have hne : codes.toList.map List.length ≠ [] := by
      intro e
      rw [e] at hp
      simp [pickAnchors] at hp
    obtain ⟨a', ha', _, hlt⟩ := pickAnchors_spec _ hne
    rw [hp] at ha'
    cases ha'
    have hlt' : ∀ a ∈ anchors, a < codes.size := by
      intro a ha; have := hlt a ha; simpa using this
    rw [anchorMatrixC_eq codes anchors hlt', Option.bind_some]
    cases anchorMatrix codes anchors with
    | none => rfl
    | some dm =>
      dsimp only
      rw [bisectOC_eq avx dm anchors.length codes.size (smallTreeC codes) (smallTree codes)
        (fun l hl => smallTreeC_eq codes l hl) codes.size (List.range codes.size)
        (fun s hs => List.mem_range.1 hs), Option.map_some]
      generalize bisectO avx dm anchors.length (smallTree codes) codes.size (List.range codes.size) = res
      cases res with
      | error e => cases e <;> rfl
      | ok t => rfl

/-! ## the progressive alignment -/

/-- the three-entry state `mergeNodes` hands to `doAlign` -/
def mergeStateAD (A B : Node) : AlnState Float32 :=
  { seqs := #[A.seq, B.seq], profile := #[A.prof, B.prof, none], plen := #[A.len, B.len, 0], nsip := #[A.nsip, B.nsip, 0] }

theorem leafNodeC_eq (codes : Array (List Nat)) (i : Nat) (h : i < codes.size) :
    leafNodeC codes i = some (leafNode codes i) := by
  unfold leafNodeC leafNode
  rw [getElem?_eq_some_getD codes i [] h, Option.map_some]

theorem mergeNodesC_eq (entry : Entry) (ap : AlnParam Float32) (hw : ap.wf) (A B : Node) (isLast : Bool) :
    mergeNodesC entry ap A B isLast = some (mergeNodes entry ap A B isLast) := by
  unfold mergeNodesC mergeNodes
  dsimp only
  have hst : (mergeStateAD A B).wf := ⟨rfl, rfl⟩
  have hrun := doAlignC_eq entry ap hw (mergeStateAD A B) hst 0 1 2 isLast
  unfold mergeStateAD at hrun
  rw [hrun, Option.bind_some]
  have hsz := doAlign_sizes entry ap (mergeStateAD A B)
  unfold mergeStateAD at hsz
  cases hd : doAlign entry ap { seqs := #[A.seq, B.seq], profile := #[A.prof, B.prof, none], plen := #[A.len, B.len, 0], nsip := #[A.nsip, B.nsip, 0] } 0 1 2 isLast with
  | none => rfl
  | some r =>
    obtain ⟨st', out⟩ := r
    obtain ⟨_, h2, _, _⟩ := hsz st' out 0 1 2 isLast hd
    dsimp only
    split
    · rfl
    · split
      · rfl
      · rw [getElem?_eq_some_getD st'.profile 2 none (by rw [h2]; simp), Option.map_some]

theorem recAlnC_eq (ap : AlnParam Float32) (hw : ap.wf) (tasks : Array (Nat × Nat × Nat)) (codes : Array (List Nat))
    (n fuel k : Nat) : recAlnC ap tasks codes n fuel k = some (recAln ap tasks codes n fuel k) := by
  induction fuel generalizing k with
  | zero => rfl
  | succ fuel ih =>
    rw [recAlnC, recAln]
    cases tasks[k]? with
    | none => rfl
    | some t =>
      obtain ⟨a, b, c⟩ := t
      dsimp only
      have hchild : ∀ x, (if x ≥ n then recAlnC ap tasks codes n fuel (x - n)
            else if x < codes.size then (leafNodeC codes x).map Except.ok else some (.error .fault)) =
          some (if x ≥ n then recAln ap tasks codes n fuel (x - n)
            else if x < codes.size then .ok (leafNode codes x) else .error .fault) := by
        intro x
        split
        · exact ih _
        · split
          · rename_i hx; rw [leafNodeC_eq codes x hx]; rfl
          · rfl
      rw [hchild a, Option.bind_some]
      generalize (if a ≥ n then recAln ap tasks codes n fuel (a - n)
            else if a < codes.size then Except.ok (leafNode codes a) else .error .fault) = ra
      cases ra with
      | error e => rfl
      | ok A =>
        dsimp only
        rw [hchild b, Option.bind_some]
        generalize (if b ≥ n then recAln ap tasks codes n fuel (b - n)
              else if b < codes.size then Except.ok (leafNode codes b) else .error .fault) = rb
        cases rb with
        | error e => rfl
        | ok B => exact mergeNodesC_eq .parallel ap hw A B _

theorem paramOfTable_wf (biotype : Nat) (type : Int) (gpo gpe tgpe : Float32) (ap : AlnParam Float32)
    (h : paramOfTable biotype type gpo gpe tgpe = some ap) : ap.wf := by
  unfold paramOfTable at h
  split at h
  · cases h
  · split at h
    · cases h
    · simp only [Option.some.injEq] at h
      subst h
      refine ⟨by simp, ?_⟩
      intro i hi
      simp [Array.getD, hi]

/-- the generated substitution matrices all have (at least) 23 rows of (at least) 23 entries -/
theorem matricesBits_shape :
    (Gen.matricesBits.all fun rows => decide (23 ≤ rows.length) && (rows.take 23).all fun row => decide (23 ≤ row.length)) =
      true := by decide

theorem range_map_toArray {γ : Type} (f : Nat → γ) (n : Nat) : ((List.range n).map f).toArray = (Array.range n).map f := by
  apply Array.ext'
  simp [Array.toList_range]

/-- **`aln_param_init` reads its generated matrix inside its 23 × 23 entries** -/
theorem paramOfTableC_eq (biotype : Nat) (type : Int) (gpo gpe tgpe : Float32) :
    (paramOfTableC biotype type gpo gpe tgpe).run = some (paramOfTable biotype type gpo gpe tgpe) := by
  unfold paramOfTableC paramOfTable
  cases alnParamInitF biotype type gpo gpe tgpe with
  | none => rfl
  | some p =>
    dsimp only
    cases hr : Gen.matricesBits[p.mat]? with
    | none => rfl
    | some rows =>
      dsimp only
      have hmem : rows ∈ Gen.matricesBits := List.mem_of_getElem? hr
      have hsh := (List.all_eq_true.1 matricesBits_shape) rows hmem
      simp only [Bool.and_eq_true, decide_eq_true_eq, List.all_eq_true] at hsh
      obtain ⟨h1, h2⟩ := hsh
      have hrow : ∀ i, i < 23 → 23 ≤ (rows.getD i []).length := by
        intro i hi
        have hi' : i < rows.length := by omega
        have : rows.getD i [] = rows[i] := by simp [List.getD, hi']
        rw [this]
        exact h2 _ (by
          have : rows[i] = (rows.take 23)[i]'(by simp; omega) := by simp
          rw [this]; exact List.getElem_mem _)
      have e : mapC (fun i => (rows[i]?).bind fun row =>
            (mapC (fun j => (row[j]?).map fun b => Float32.ofBits (UInt32.ofNat b)) (List.range 23)).map List.toArray)
            (List.range 23) =
          some ((List.range 23).map fun i => ((List.range 23).map fun j =>
            Float32.ofBits (UInt32.ofNat ((rows.getD i []).getD j 0))).toArray) := by
        apply mapC_eq
        intro i hi
        have hi' : i < 23 := by simpa using hi
        have e1 : rows[i]? = some (rows.getD i []) := by
          have : i < rows.length := by omega
          simp [List.getD, this]
        rw [e1, Option.bind_some, mapC_eq _ (fun j => Float32.ofBits (UInt32.ofNat ((rows.getD i []).getD j 0))) _ (by
          intro j hj
          have hj' : j < 23 := by simpa using hj
          have : j < (rows.getD i []).length := by have := hrow i hi'; omega
          have e2 : (rows.getD i [])[j]? = some ((rows.getD i []).getD j 0) := by
            generalize rows.getD i [] = row at this
            simp [List.getD, this]
          rw [e2, Option.map_some])]
        rfl
      show (chk _ : Chk (AlnParam Float32)).run = _
      rw [e, Option.map_some]
      show some (some _) = some (some _)
      congr 3
      rw [range_map_toArray]
      congr 1
      funext i
      exact range_map_toArray _ 23

/-- **everything between the two conversions and `finalise_alignment`**: for all inputs and parameters, no totalised
access of the guide-tree construction, the distance computation, the k-means rounds, the Hirschberg runs, the profile
updates or the state vectors is ever out of range -/
theorem coreC_eq (avx : Bool) (bio : Bio) (c1 c2 : List (List Nat)) (type : Int) (gpo gpe tgpe : Float32) :
    coreC avx bio c1 c2 type gpo gpe tgpe = some (core avx bio c1 c2 type gpo gpe tgpe) := by
  unfold coreC core
  dsimp only
  split
  · rfl
  · rw [buildTasksC_eq, Option.bind_some]
    cases buildTasks avx c1.toArray with
    | error e => rfl
    | ok tasks =>
      dsimp only
      rw [paramOfTableC_eq, Option.bind_some]
      cases hp : paramOfTable bio.code type gpo gpe tgpe with
      | none => rfl
      | some ap =>
        dsimp only
        rw [recAlnC_eq ap (paramOfTable_wf _ _ _ _ _ ap hp), Option.map_some]
        cases recAln ap tasks c2.toArray c2.length tasks.size (tasks.size - 1) with
        | error e => rfl
        | ok root => cases (List.range c2.length).mapM (finalGaps root.group) <;> rfl

end Kalign.Pipeline
