import KalignModel.Lemmas.IndexKernel
/-!
# The checked `bpmBlock` agrees with the totalised one (slice AD, item 6b)
-/
namespace Kalign

theorem lsetC_eq {γ : Type} (l : List γ) (i : Nat) (v : γ) (h : i < l.length) : lsetC l i v = some (l.set i v) := by
  simp [lsetC, h]

theorem bitsToBVC_eq (w : Nat) (fC : Nat → Option Bool) (f : Nat → Bool) (n : Nat)
    (h : ∀ i, i < n → fC i = some (f i)) : bitsToBVC w fC n = some (bitsToBV w f n) := by
  induction n with
  | zero => rfl
  | succ n ih =>
    rw [bitsToBVC, bitsToBV, ih (fun i hi => h i (by omega)), Option.bind_some, h n (by omega), Option.map_some]

theorem peqWordC_eq (p : List Nat) (m c block : Nat) (hm : m ≤ p.length) :
    peqWordC p m c block = some (peqWord p m c block) := by
  unfold peqWordC peqWord
  apply bitsToBVC_eq
  intro i _
  split
  · rename_i h; simp [h]
  · rename_i h
    have hlt : block * 64 + i < p.length := by omega
    have : p[block * 64 + i]? = some (p.getD (block * 64 + i) 0) := by simp [List.getD, hlt]
    rw [this, Option.map_some]

theorem blkScoreC_eq (bs : List BlockSt) (b : Nat) (h : b < bs.length) : blkScoreC bs b = some (blkScore bs b) := by
  unfold blkScoreC blkScore
  have : bs[b]? = some (bs.getD b ⟨0, 0, 0⟩) := by simp [List.getD, h]
  rw [this, Option.map_some]

theorem bandShrinkC_eq (bs : List BlockSt) (lim : Int) (y : Nat) (h : y < bs.length) :
    bandShrinkC bs lim y = some (bandShrink bs lim y) := by
  induction y with
  | zero => rfl
  | succ y ih =>
    rw [bandShrinkC, bandShrink, blkScoreC_eq bs (y + 1) h, Option.bind_some]
    split
    · exact ih (by omega)
    · rfl

theorem bandShrink_le (bs : List BlockSt) (lim : Int) (y : Nat) : bandShrink bs lim y ≤ y := by
  induction y with
  | zero => exact Nat.le_refl _
  | succ y ih =>
    rw [bandShrink]
    split
    · omega
    · exact Nat.le_refl _

theorem colBlocksC_eq (peqC : Nat → Option (BitVec 64)) (peq : Nat → BitVec 64) (lim : Nat)
    (h : ∀ b, b < lim → peqC b = some (peq b)) (cnt b : Nat) (carry : Int) (bs : List BlockSt) (hb : b + cnt ≤ lim) :
    colBlocksC peqC b cnt carry bs = some (colBlocks peq b cnt carry bs) := by
  induction cnt generalizing b carry bs with
  | zero => cases bs <;> rfl
  | succ cnt ih =>
    cases bs with
    | nil => rfl
    | cons s rest =>
      rw [colBlocksC, colBlocks, h b (by omega), Option.bind_some]
      dsimp only
      rw [ih (b + 1) _ rest (by omega), Option.map_some]

theorem length_colBlocks (peq : Nat → BitVec 64) (b cnt : Nat) (carry : Int) (bs : List BlockSt) :
    (colBlocks peq b cnt carry bs).1.length = bs.length := by
  induction cnt generalizing b carry bs with
  | zero => cases bs <;> rfl
  | succ cnt ih =>
    cases bs with
    | nil => rfl
    | cons s rest => rw [colBlocks]; simp [ih]

/-- the band state fits the block array -/
def BInv (bmax : Nat) (st : BpmSt) : Prop := st.blocks.length = bmax ∧ st.y < bmax

theorem bpmBlockColC_eq (peqC : Nat → Nat → Option (BitVec 64)) (peq : Nat → Nat → BitVec 64) (bmax : Nat) (c : Nat)
    (h : ∀ b, b < bmax → peqC c b = some (peq c b)) (maxd : Int) (st : BpmSt) (hst : BInv bmax st) :
    bpmBlockColC peqC bmax maxd st c = some (bpmBlockCol peq bmax maxd st c) ∧
      BInv bmax (bpmBlockCol peq bmax maxd st c) := by
  obtain ⟨hl, hy⟩ := hst
  unfold bpmBlockColC bpmBlockCol
  rw [colBlocksC_eq (peqC c) (peq c) bmax h (st.y + 1) 0 0 st.blocks (by omega), Option.bind_some]
  have hlen := length_colBlocks (peq c) 0 (st.y + 1) 0 st.blocks
  generalize colBlocks (peq c) 0 (st.y + 1) 0 st.blocks = r at hlen
  dsimp only
  have hy' : st.y < r.1.length := by omega
  rw [blkScoreC_eq r.1 st.y hy', Option.bind_some]
  by_cases h1 : blkScore r.1 st.y - r.2 ≤ maxd
  · by_cases h2 : st.y + 1 < bmax
    · rw [if_pos h1, if_pos h2, h (st.y + 1) h2, Option.map_some, Option.bind_some]
      by_cases h3 : (peq c (st.y + 1)).getLsbD 0 = true ∨ r.2 < 0
      · rw [if_pos (by simpa using h3), if_pos ⟨h1, h2, h3⟩, Option.bind_some, Option.bind_some,
          lsetC_eq _ _ _ (by omega), Option.map_some]
        exact ⟨rfl, by simp [hlen, hl], h2⟩
      · rw [if_neg (by simpa using h3), if_neg (fun hh => h3 hh.2.2),
          bandShrinkC_eq r.1 _ st.y hy', Option.bind_some,
          blkScoreC_eq r.1 _ (by have := bandShrink_le r.1 (maxd + 64) st.y; omega), Option.map_some]
        exact ⟨rfl, by show r.1.length = bmax; omega, by have := bandShrink_le r.1 (maxd + 64) st.y; show bandShrink _ _ _ < bmax; omega⟩
    · rw [if_pos h1, if_neg h2, Option.bind_some, if_neg (by simp), if_neg (fun hh => h2 hh.2.1),
        bandShrinkC_eq r.1 _ st.y hy', Option.bind_some,
        blkScoreC_eq r.1 _ (by have := bandShrink_le r.1 (maxd + 64) st.y; omega), Option.map_some]
      exact ⟨rfl, by show r.1.length = bmax; omega, by have := bandShrink_le r.1 (maxd + 64) st.y; show bandShrink _ _ _ < bmax; omega⟩
  · rw [if_neg h1, Option.bind_some, if_neg (by simp), if_neg (fun hh => h1 hh.1),
      bandShrinkC_eq r.1 _ st.y hy', Option.bind_some,
      blkScoreC_eq r.1 _ (by have := bandShrink_le r.1 (maxd + 64) st.y; omega), Option.map_some]
    exact ⟨rfl, by show r.1.length = bmax; omega, by have := bandShrink_le r.1 (maxd + 64) st.y; show bandShrink _ _ _ < bmax; omega⟩

theorem divCeil_pos (a : Nat) : 0 < divCeil a 64 := by
  unfold divCeil
  split
  · omega
  · split <;> omega

/-- **`bpm_block` never leaves its arrays**, for every text and every pattern (of any length: `m = min(len, 1024)`): the
pattern reads `p[i]` (`i < m`), the `Peq[c][b]` lookups (`c < 13` — larger text symbols are the model's explicit fault —,
`b < bmax`), every `score[y]` read (`blkScore`) and the `bs.set (y+1)` write -/
theorem bpmBlockC_eq (t p : List Nat) : (bpmBlockC t p).run = some (bpmBlock t p) := by
  unfold bpmBlockC bpmBlock
  split
  · rfl
  · rename_i hany
    have ht : ∀ c ∈ t, c < SIGMA := by
      intro c hc
      rw [List.any_eq_true] at hany
      by_cases hlt : c < SIGMA
      · exact hlt
      · exact absurd ⟨c, hc, by simpa using hlt⟩ hany
    show (chk _ : Chk Int).run = _
    dsimp only
    have hbpos := divCeil_pos (min p.length 1024)
    generalize hbm : divCeil (min p.length 1024) 64 = bmax at hbpos
    have erows : mapC (fun c => (mapC (fun b => peqWordC p (min p.length 1024) c b) (List.range bmax)).map List.toArray)
        (List.range SIGMA) =
        some ((List.range SIGMA).map fun c => ((List.range bmax).map fun b => peqWord p (min p.length 1024) c b).toArray) := by
      apply mapC_eq
      intro c _
      rw [mapC_eq _ (fun b => peqWord p (min p.length 1024) c b) _ (fun b _ => peqWordC_eq p _ c b (by omega))]
      rfl
    rw [erows, Option.bind_some]
    have hpeq : ∀ c, c < SIGMA → ∀ b, b < bmax →
        ((((List.range SIGMA).map fun c => ((List.range bmax).map fun b =>
            peqWord p (min p.length 1024) c b).toArray).toArray)[c]?).bind (fun row => row[b]?) =
        some (((((List.range SIGMA).map fun c => ((List.range bmax).map fun b =>
            peqWord p (min p.length 1024) c b).toArray).toArray).getD c #[]).getD b 0#64) := by
      intro c hc b hb
      rw [getElem?_eq_some_getD _ c #[] (by simpa using hc), Option.bind_some]
      apply getElem?_eq_some_getD
      simp [Array.getD, hc, hb]
    have hfold := foldlC_eq_inv (BInv bmax)
      (bpmBlockColC (fun c b => ((((List.range SIGMA).map fun c => ((List.range bmax).map fun b =>
            peqWord p (min p.length 1024) c b).toArray).toArray)[c]?).bind fun row => row[b]?) bmax
        ((min p.length 1024 : Nat) : Int))
      (bpmBlockCol (fun c b => ((((List.range SIGMA).map fun c => ((List.range bmax).map fun b =>
            peqWord p (min p.length 1024) c b).toArray).toArray).getD c #[]).getD b 0#64) bmax
        ((min p.length 1024 : Nat) : Int))
      (t ++ List.replicate (64 * bmax - min p.length 1024) 0)
      { blocks := (List.range bmax).map fun b =>
          if b ≤ bmax - 1 then { P := BitVec.allOnes 64, M := 0#64, score := ((b + 1) * 64 : Nat) } else ⟨0#64, 0#64, 0⟩,
        y := bmax - 1, k := (min p.length 1024 : Nat) }
      ⟨by simp, by show bmax - 1 < bmax; omega⟩
      (by
        intro st c hc hst
        have hc13 : c < SIGMA := by
          rcases List.mem_append.1 hc with h | h
          · exact ht c h
          · rw [List.mem_replicate] at h; rw [h.2]; decide
        exact bpmBlockColC_eq _ _ bmax c (fun b hb => hpeq c hc13 b hb) _ st hst)
    rw [hfold.1]
    rfl

theorem calcDistanceRawC_eq (a b : List Nat) : (calcDistanceRawC a b).run = some (calcDistanceRaw a b) := by
  unfold calcDistanceRawC calcDistanceRaw
  split
  · rw [OptionT.run_bind, bpmBlockC_eq]
    cases bpmBlock a b <;> rfl
  · rw [OptionT.run_bind, bpmBlockC_eq]
    cases bpmBlock b a <;> rfl

theorem calcDistanceC_eq (a b : List Nat) : (calcDistanceC a b).run = some (calcDistance a b) := by
  unfold calcDistanceC calcDistance
  rw [OptionT.run_bind, calcDistanceRawC_eq]
  cases calcDistanceRaw a b <;> rfl

/-- `calc_distance` + length term: every access of the whole distance computation is in range -/
theorem distEntryC_eq (a b : List Nat) : (distEntryC a b).run = some (distEntry a b) := by
  unfold distEntryC distEntry
  rw [OptionT.run_bind, calcDistanceC_eq]
  cases calcDistance a b <;> rfl

end Kalign
