import KalignModel.Lemmas.SoftExact2
import KalignModel.Lemmas.SoftMul
import KalignModel.Lemmas.ProfKernel
/-!
# Scaling a dyadic parameter set by a sequence count stays dyadic (the arithmetic part of slice Z5)

`mul_half_ofNat`: `half a * (float)k = half (a·k)` exactly, for `|a·k| < 2²⁴`, `1 ≤ k < 2²⁴` — the products `k·s` and `k·penalty`
that `set_gap_penalties_n`, `update_n` and the profile kernels form are computed exactly.
`scaleParamS ap K`: all scores of a `SoftF32` parameter set multiplied by `(float)K` (the counterpart of `scaleParam`);
`dyadic_scale`: `DyadicParam U ap apE → DyadicParam (K·U) (scaleParamS ap K) (scaleParam apE K)`.
-/
set_option exponentiation.threshold 512
namespace Kalign.SoftF32

theorem half_mag_zero : (half 0).mag = 0 := by decide
theorem ofNat_sign (k : Nat) (hk : k < 16777216) : (ofNat k).sign = false := by
  have hv : magVal (roundNatU k 149) = k * 2 ^ 149 := magVal_roundNatU_small hk
  have hlt : roundNatU k 149 < 2139095040 := by
    rw [← magVal_lt_iff, hv, magVal_infMag]
    have : k * 2 ^ 149 < 16777216 * 2 ^ 149 := Nat.mul_lt_mul_of_pos_right hk (by decide)
    have : (16777216 : Nat) * 2 ^ 149 ≤ 2 ^ 277 := by decide
    omega
  have hmin : roundNat k 149 = roundNatU k 149 := by
    unfold roundNat; exact Nat.min_eq_left (by simp only [infMag]; omega)
  unfold ofNat
  rw [hmin, sign_pack _ _ (by omega)]

theorem half_magVal {h : Int} (hh : h.natAbs < 16777216) : magVal (half h).mag = h.natAbs * 2 ^ 148 := by
  have := natAbs_toInt (half h)
  rw [(half_fin hh).2.1, natAbs_mul148] at this
  exact this.symm

theorem half_inj {a b : Int} (ha : a.natAbs < 16777216) (hb : b.natAbs < 16777216) (h : half a = half b) : a = b := by
  have h1 := (half_fin ha).2.1
  have h2 := (half_fin hb).2.1
  rw [h, h2] at h1
  have := @mul148_le a b
  have := @mul148_le b a
  omega

/-- **multiplication of a dyadic value by a sequence count is exact** -/
theorem mul_half_ofNat {a : Int} {k : Nat} (hk1 : 1 ≤ k) (hk : k < 16777216) (ha : a.natAbs < 16777216)
    (hak : (a * k).natAbs < 16777216) : mul (half a) (ofNat k) = half (a * k) := by
  have hfa := half_finite ha
  have hfk : (ofNat k).isFinite = true := (ofNat_absLe hk).finite
  rw [mul_of_finite hfa hfk, ofNat_sign k hk]
  by_cases h0 : a = 0
  · subst h0
    have hs : (half 0).sig = 0 := by decide
    have hz : roundInt ((half 0).sig * (ofNat k).sig) (((half 0).ex : Int) + (ofNat k).ex - 149) = 0 := by
      rw [hs, Nat.zero_mul]
      unfold roundInt
      split
      · exact roundNat_zero _
      · exact roundFrac_zero _
    rw [hz]
    simp only [Int.zero_mul]
    decide
  · have hA : 1 ≤ a.natAbs := by omega
    have hmv := half_magVal ha
    have hmk := magVal_ofNat hk
    have hea : 125 ≤ (half a).ex := by
      apply ex_ge_of_magVal
      rw [hmv]
      have : 1 * 2 ^ 148 ≤ a.natAbs * 2 ^ 148 := Nat.mul_le_mul_right _ hA
      omega
    have hek : 126 ≤ (ofNat k).ex := by
      apply ex_ge_of_magVal
      rw [hmk]
      have : 1 * 2 ^ 149 ≤ k * 2 ^ 149 := Nat.mul_le_mul_right _ hk1
      omega
    obtain ⟨e, he⟩ : ∃ e : Nat, (half a).ex + (ofNat k).ex = e + 149 := ⟨(half a).ex + (ofNat k).ex - 149, by omega⟩
    have hri : roundInt ((half a).sig * (ofNat k).sig) (((half a).ex : Int) + (ofNat k).ex - 149) =
        roundNat ((half a).sig * (ofNat k).sig) e := by
      unfold roundInt
      have hpos : (0 : Int) ≤ ((half a).ex : Int) + (ofNat k).ex - 149 := by omega
      rw [if_pos hpos]
      congr 1
      omega
    rw [hri]
    -- the exact product is on the grid
    have hprod : (half a).sig * (ofNat k).sig * 2 ^ e = magVal (half (a * k)).mag := by
      rw [half_magVal hak, Int.natAbs_mul, Int.natAbs_natCast]
      have h1 : (half a).sig * 2 ^ (half a).ex = a.natAbs * 2 ^ 148 := by rw [sig_mul_ex]; exact hmv
      have h2 : (ofNat k).sig * 2 ^ (ofNat k).ex = k * 2 ^ 149 := by rw [sig_mul_ex]; exact hmk
      have h3 : ((half a).sig * (ofNat k).sig * 2 ^ e) * 2 ^ 149 = (a.natAbs * k * 2 ^ 148) * 2 ^ 149 := by
        have e1 : ((half a).sig * (ofNat k).sig * 2 ^ e) * 2 ^ 149 =
            ((half a).sig * 2 ^ (half a).ex) * ((ofNat k).sig * 2 ^ (ofNat k).ex) := by
          have : (2 : Nat) ^ e * 2 ^ 149 = 2 ^ (half a).ex * 2 ^ (ofNat k).ex := by
            rw [← Nat.pow_add, ← Nat.pow_add, he]
          generalize (half a).sig = S at *
          generalize (ofNat k).sig = R at *
          calc S * R * 2 ^ e * 2 ^ 149 = S * R * (2 ^ e * 2 ^ 149) := by rw [Nat.mul_assoc]
            _ = S * R * (2 ^ (half a).ex * 2 ^ (ofNat k).ex) := by rw [this]
            _ = (S * 2 ^ (half a).ex) * (R * 2 ^ (ofNat k).ex) := by
              generalize (2 : Nat) ^ (half a).ex = X
              generalize (2 : Nat) ^ (ofNat k).ex = Y
              ac_rfl
        rw [e1, h1, h2]
        generalize (2 : Nat) ^ 148 = X
        generalize (2 : Nat) ^ 149 = Y
        ac_rfl
      exact Nat.eq_of_mul_eq_mul_right (by decide : 0 < 2 ^ 149) h3
    have hU := roundNatU_exact hprod
    have hlt := (half_fin hak).1
    have hmin : roundNat ((half a).sig * (ofNat k).sig) e = (half (a * k)).mag := by
      unfold roundNat
      rw [hU]
      exact Nat.min_eq_left (by simp only [infMag]; omega)
    rw [hmin]
    apply eq_of_sign_mag
    · rw [sign_pack _ _ (mag_lt _), (half_fin ha).2.2, (half_fin hak).2.2]
      have hkp : (0 : Int) < (k : Int) := by omega
      have : (a * (k : Int) < 0) ↔ a < 0 := by
        constructor
        · intro h
          by_cases h' : a < 0
          · exact h'
          · have := Int.mul_nonneg (show 0 ≤ a by omega) (Int.le_of_lt hkp)
            omega
        · intro h; exact Int.mul_neg_of_neg_of_pos h hkp
      by_cases h' : a < 0
      · simp [h', this.2 h']
      · have h'' : ¬ (a * (k : Int) < 0) := fun h => h' (this.1 h)
        simp [h', h'']
    · rw [mag_pack _ _ (mag_lt _)]

end Kalign.SoftF32

namespace Kalign
open SoftF32

/-- all scores of a `SoftF32` parameter set multiplied by `(float)K` -/
def scaleParamS (ap : AlnParam SoftF32) (K : Nat) : AlnParam SoftF32 :=
  { subm := ap.subm.map fun row => row.map fun e => Score.mul e (Score.ofNat K)
    gpo := Score.mul ap.gpo (Score.ofNat K)
    gpe := Score.mul ap.gpe (Score.ofNat K)
    tgpe := Score.mul ap.tgpe (Score.ofNat K) }

theorem dyVal_scale {U K : Nat} {x : SoftF32} {e : ExactScore} (h : DyVal U x e) (hK1 : 1 ≤ K) (hK : K < 16777216)
    (hKU : K * U < 16777216) : DyVal (K * U) (Score.mul x (Score.ofNat K)) (Score.mul e (Score.ofNat K)) := by
  obtain ⟨g, g1, rfl, rfl⟩ := h
  have hKU' : g.natAbs * K ≤ K * U := by rw [Nat.mul_comm]; exact Nat.mul_le_mul_left K g1
  have hgk : (g * (K : Int)).natAbs = g.natAbs * K := by rw [Int.natAbs_mul, Int.natAbs_natCast]
  refine ⟨g * K, by rw [hgk]; exact hKU', ?_, ?_⟩
  · show mul (half g) (ofNat K) = half (g * K)
    have hgU : g.natAbs ≤ K * U := by
      have : g.natAbs * 1 ≤ g.natAbs * K := Nat.mul_le_mul_left _ hK1
      omega
    exact mul_half_ofNat hK1 hK (by omega) (by rw [hgk]; omega)
  · rw [ex_mul_ofNat]
    congr 1
    rw [Int.mul_assoc]

/-- the entries of a mapped matrix (`f` fixes the default `0`) -/
theorem sub_map {α : Type} [Score α] (subm : Array (Array α)) (g1 g2 g3 h1 h2 h3 : α) (f : α → α)
    (hf : f Score.zero = Score.zero) (i j : Nat) :
    (⟨subm.map fun row => row.map f, h1, h2, h3⟩ : AlnParam α).sub i j = f ((⟨subm, g1, g2, g3⟩ : AlnParam α).sub i j) := by
  unfold AlnParam.sub
  simp only [Array.getD_eq_getD_getElem?, Array.getElem?_map]
  cases subm[i]? with
  | none => simp [hf]
  | some row =>
    simp only [Option.map_some, Option.getD_some, Array.getElem?_map]
    cases row[j]? with
    | none => simp [hf]
    | some e => simp

theorem mul_zero_ofNat_S (K : Nat) (hK1 : 1 ≤ K) (hK : K < 16777216) :
    Score.mul (Score.zero : SoftF32) (Score.ofNat K) = Score.zero := by
  show mul zero (ofNat K) = zero
  rw [← half_zero]
  have := mul_half_ofNat (a := 0) hK1 hK (by decide) (by simp)
  simpa using this

theorem mul_zero_ofNat_E (K : Nat) : Score.mul (Score.zero : ExactScore) (Score.ofNat K) = Score.zero := by
  show Score.mul (some 0 : ExactScore) (Score.ofNat K) = some 0
  rw [ex_mul_ofNat]; simp

/-- **scaling keeps a parameter set dyadic** -/
theorem dyadic_scale {U K : Nat} {ap : AlnParam SoftF32} {apE : AlnParam ExactScore} (hd : DyadicParam U ap apE)
    (hK1 : 1 ≤ K) (hK : K < 16777216) (hKU : K * U < 16777216) :
    DyadicParam (K * U) (scaleParamS ap K) (scaleParam apE K) := by
  refine ⟨dyVal_scale hd.gpo hK1 hK hKU, dyVal_scale hd.gpe hK1 hK hKU, dyVal_scale hd.tgpe hK1 hK hKU, ?_⟩
  intro i j
  have e1 : (scaleParamS ap K).sub i j = Score.mul (ap.sub i j) (Score.ofNat K) :=
    sub_map ap.subm ap.gpo ap.gpe ap.tgpe _ _ _ (fun e => Score.mul e (Score.ofNat K)) (mul_zero_ofNat_S K hK1 hK) i j
  have e2 : (scaleParam apE K).sub i j = Score.mul (apE.sub i j) (Score.ofNat K) :=
    sub_map apE.subm apE.gpo apE.gpe apE.tgpe _ _ _ (fun e => Score.mul e (Score.ofNat K)) (mul_zero_ofNat_E K) i j
  rw [e1, e2]
  exact dyVal_scale (hd.sub i j) hK1 hK hKU

end Kalign
