import KalignModel.Lemmas.SoftDiv
import KalignModel.Lemmas.ExactAlg
/-!
# Dyadic scores on the software binary32 are computed exactly

`half h` is the binary32 value `h/2` (canonical `+0` for `h = 0`).  For `|h| < 2²⁴` it is represented exactly, and sums,
differences and comparisons of such values are the sums, differences and comparisons of the integers (`add_half`, `sub_half`,
`gt_half`).  `Emb N x e` relates a `SoftF32` score `x` to an exact score `e` (`Option Int`, units of 1/2000): `e = none` and `x`
sentinel-like (`-FLT_MAX` or `-∞`), or `e = some (1000·h)`, `|h| ≤ N` and `x = half h`.  The operations of the DP kernels respect
`Emb` (`emb_sub`, `emb_add`, `emb_smax`).
-/
set_option exponentiation.threshold 512
namespace Kalign.SoftF32

/-- the binary32 value `h/2` -/
def half (h : Int) : SoftF32 := packZ false (h * ((2 ^ 148 : Nat) : Int))

theorem half_zero : half 0 = zero := by decide

theorem natAbs_mul148 (h : Int) : (h * ((2 ^ 148 : Nat) : Int)).natAbs = h.natAbs * 2 ^ 148 := by
  rw [Int.natAbs_mul, Int.natAbs_natCast]

theorem p148_pos : (0 : Int) < ((2 ^ 148 : Nat) : Int) := by decide

theorem mul148_eq_zero {h : Int} : h * ((2 ^ 148 : Nat) : Int) = 0 ↔ h = 0 := by
  constructor
  · intro e
    rcases Int.mul_eq_zero.1 e with e | e
    · exact e
    · have := p148_pos; omega
  · intro e; subst e; simp

theorem mul148_neg {h : Int} : h * ((2 ^ 148 : Nat) : Int) < 0 ↔ h < 0 := by
  constructor
  · intro e
    by_cases h0 : h < 0
    · exact h0
    · have := Int.mul_nonneg (show 0 ≤ h by omega) (Int.le_of_lt p148_pos)
      omega
  · intro e
    exact Int.mul_neg_of_neg_of_pos e p148_pos

theorem mul148_le {a b : Int} : a * ((2 ^ 148 : Nat) : Int) ≤ b * ((2 ^ 148 : Nat) : Int) ↔ a ≤ b := by
  constructor
  · intro e; exact Int.le_of_mul_le_mul_right e p148_pos
  · intro e; exact Int.mul_le_mul_of_nonneg_right e (Int.le_of_lt p148_pos)

theorem mul148_lt {a b : Int} : a * ((2 ^ 148 : Nat) : Int) < b * ((2 ^ 148 : Nat) : Int) ↔ a < b := by
  have := @mul148_le b a
  omega

/-- `half h` for `|h| < 2²⁴`: finite, value `h·2¹⁴⁸` units of 2⁻¹⁴⁹, sign of `h` -/
theorem half_fin {h : Int} (hh : h.natAbs < 16777216) :
    (half h).mag < 2139095040 ∧ toInt (half h) = h * ((2 ^ 148 : Nat) : Int) ∧ (half h).sign = decide (h < 0) := by
  obtain ⟨h1, h2⟩ := toInt_packZ_grid (s0 := false) (z := h * ((2 ^ 148 : Nat) : Int)) (c := h.natAbs) (t := 148)
    (natAbs_mul148 h) hh (by decide)
  refine ⟨h1, h2, ?_⟩
  unfold half
  rw [sign_packZ]
  by_cases h0 : h = 0
  · subst h0; simp
  · rw [if_neg (fun e => h0 (mul148_eq_zero.1 e))]
    rw [decide_eq_decide]
    exact mul148_neg

theorem half_finite {h : Int} (hh : h.natAbs < 16777216) : (half h).isFinite = true :=
  (isFinite_iff _).2 (half_fin hh).1

theorem half_not_nan {h : Int} (hh : h.natAbs < 16777216) : (half h).isNaN = false :=
  isNaN_of_finite (half_finite hh)

/-- `packZ` of a value on the half grid is `half`, whatever the zero-sign argument says when the value is not zero -/
theorem packZ_half {s0 : Bool} {h : Int} (h0 : h = 0 → s0 = false) : packZ s0 (h * ((2 ^ 148 : Nat) : Int)) = half h := by
  unfold half
  by_cases hz : h = 0
  · rw [h0 hz]
  · unfold packZ
    rw [if_neg (fun e => hz (mul148_eq_zero.1 e)), if_neg (fun e => hz (mul148_eq_zero.1 e))]

/-- **addition of dyadic values is exact** -/
theorem add_half {a b : Int} (ha : a.natAbs < 16777216) (hb : b.natAbs < 16777216) :
    add (half a) (half b) = half (a + b) := by
  obtain ⟨_, a2, a3⟩ := half_fin ha
  obtain ⟨_, b2, b3⟩ := half_fin hb
  rw [add_eq_packZ (half_finite ha) (half_finite hb), a2, b2, ← Int.add_mul]
  apply packZ_half
  intro h0
  rw [a3, b3]
  by_cases h : a < 0
  · have : ¬ b < 0 := by omega
    simp [this]
  · simp [h]

/-- **subtraction of dyadic values is exact** -/
theorem sub_half {a b : Int} (ha : a.natAbs < 16777216) (hb : b.natAbs < 16777216) :
    sub (half a) (half b) = half (a - b) := by
  obtain ⟨_, a2, a3⟩ := half_fin ha
  obtain ⟨_, b2, b3⟩ := half_fin hb
  rw [sub_eq_packZ (half_finite ha) (half_finite hb), a2, b2, ← Int.sub_mul]
  apply packZ_half
  intro h0
  rw [a3, b3]
  by_cases h : a < 0
  · have : b < 0 := by omega
    simp [this]
  · simp [h]

theorem lt_iff_toInt' {a b : SoftF32} (ha : a.isNaN = false) (hb : b.isNaN = false) :
    lt a b = true ↔ toInt a < toInt b := by
  simp only [lt, ha, hb, Bool.not_false, Bool.true_and, decide_eq_true_eq]
  exact key_lt_iff a b

theorem le_iff_toInt' {a b : SoftF32} (ha : a.isNaN = false) (hb : b.isNaN = false) :
    le a b = true ↔ toInt a ≤ toInt b := by
  simp only [le, ha, hb, Bool.not_false, Bool.true_and, decide_eq_true_eq]
  exact key_le_iff a b

/-- **comparison of dyadic values** -/
theorem gt_half {a b : Int} (ha : a.natAbs < 16777216) (hb : b.natAbs < 16777216) :
    gt (half a) (half b) = decide (b < a) := by
  show lt (half b) (half a) = decide (b < a)
  have := lt_iff_toInt' (half_not_nan hb) (half_not_nan ha)
  rw [(half_fin ha).2.1, (half_fin hb).2.1, mul148_lt] at this
  by_cases h : b < a
  · rw [this.2 h]; simp [h]
  · have h2 : lt (half b) (half a) = false := by
      rw [← Bool.not_eq_true]; exact fun e => h (this.1 e)
    rw [h2]; simp [h]

theorem le_half {a b : Int} (ha : a.natAbs < 16777216) (hb : b.natAbs < 16777216) :
    le (half a) (half b) = true ↔ a ≤ b := by
  rw [le_iff_toInt' (half_not_nan ha) (half_not_nan hb), (half_fin ha).2.1, (half_fin hb).2.1, mul148_le]

/-- a dyadic value below 2²³ in magnitude is bounded by `8·2²⁰` (the unit of `Cls`) -/
theorem half_absLe {h : Int} (hh : h.natAbs < 16777216) : absLe (half h) (8 * 1048576) := by
  obtain ⟨h1, h2, _⟩ := half_fin hh
  refine ⟨h1, ?_⟩
  have := natAbs_toInt (half h)
  rw [h2, natAbs_mul148] at this
  rw [← this]
  have e : (8 * 1048576 : Nat) * 2 ^ 149 = 16777216 * 2 ^ 148 := by decide
  rw [e]
  exact Nat.mul_le_mul_right _ (Nat.le_of_lt hh)

theorem gt_half_sent {h : Int} (hh : h.natAbs < 16777216) {y : SoftF32} (hy : Sent y) : gt (half h) y = true :=
  gt_fin_sent (half_absLe hh) (unit_lt127 8 (by decide)) hy

theorem gt_sent_half {h : Int} (hh : h.natAbs < 16777216) {x : SoftF32} (hx : Sent x) : gt x (half h) = false :=
  gt_sent_fin hx (half_absLe hh) (unit_lt127 8 (by decide))

theorem sent_add_half {h : Int} (hh : h.natAbs < 16777216) {x : SoftF32} (hx : Sent x) : Sent (add x (half h)) :=
  sent_add_fin hx (half_absLe hh) (by decide)

theorem half_add_sent {h : Int} (hh : h.natAbs < 16777216) {x : SoftF32} (hx : Sent x) : Sent (add (half h) x) :=
  fin_add_sent (half_absLe hh) hx (by decide)

theorem sent_sub_half {h : Int} (hh : h.natAbs < 16777216) {x : SoftF32} (hx : Sent x) : Sent (sub x (half h)) := by
  rw [sub_of_not_nan (sent_not_nan hx) (half_not_nan hh)]
  exact sent_add_fin hx (neg_absLe (half_absLe hh)) (by decide)

/-- subtraction of any bounded value keeps a sentinel-like value sentinel-like -/
theorem sent_sub_fin {x y : SoftF32} {B : Nat} (hx : Sent x) (hy : absLe y (B * 1048576)) (hB : B < 16777216) :
    Sent (sub x y) := by
  rw [sub_of_not_nan (sent_not_nan hx) (isNaN_of_finite hy.finite)]
  exact sent_add_fin hx (neg_absLe hy) hB

end Kalign.SoftF32

namespace Kalign
open SoftF32

/-! ## the embedding relation -/

/-- `x` is the binary32 image of the exact score `e` (units of 1/2000), with magnitude at most `N` half score units -/
def Emb (N : Nat) (x : SoftF32) : ExactScore → Prop
  | none => Sent x
  | some v => ∃ h : Int, v = 1000 * h ∧ h.natAbs ≤ N ∧ x = half h

theorem Emb.mono {N N' : Nat} {x : SoftF32} {e : ExactScore} (h : Emb N x e) (hN : N ≤ N') : Emb N' x e := by
  cases e with
  | none => exact h
  | some v =>
    obtain ⟨k, h1, h2, h3⟩ := h
    exact ⟨k, h1, by omega, h3⟩

theorem emb_negInf (N : Nat) : Emb N (Score.negInf : SoftF32) (Score.negInf : ExactScore) := Or.inl rfl

theorem emb_zero (N : Nat) : Emb N (Score.zero : SoftF32) (Score.zero : ExactScore) :=
  ⟨0, rfl, by simp, half_zero.symm⟩

/-- a dyadic parameter (penalty or substitution score): `U` bounds its magnitude in half score units -/
def DyVal (U : Nat) (x : SoftF32) (e : ExactScore) : Prop := ∃ g : Int, g.natAbs ≤ U ∧ x = half g ∧ e = some (1000 * g)

/-- subtraction of a dyadic parameter -/
theorem emb_sub {N U : Nat} {x p : SoftF32} {e pe : ExactScore} (hx : Emb N x e) (hp : DyVal U p pe)
    (hN : N + U < 16777216) : Emb (N + U) (Score.sub x p) (Score.sub e pe) := by
  obtain ⟨g, g1, rfl, rfl⟩ := hp
  rw [ex_sub_some]
  show Emb (N + U) (sub x (half g)) (osub e (1000 * g))
  cases e with
  | none => exact sent_sub_half (by omega) hx
  | some v =>
    obtain ⟨h, rfl, h2, rfl⟩ := hx
    refine ⟨h - g, by show 1000 * h - 1000 * g = 1000 * (h - g); omega, by omega, ?_⟩
    exact sub_half (by omega) (by omega)

/-- addition of a dyadic parameter -/
theorem emb_add {N U : Nat} {x p : SoftF32} {e pe : ExactScore} (hx : Emb N x e) (hp : DyVal U p pe)
    (hN : N + U < 16777216) : Emb (N + U) (Score.add x p) (Score.add e pe) := by
  obtain ⟨g, g1, rfl, rfl⟩ := hp
  rw [ex_add_some]
  show Emb (N + U) (add x (half g)) (oaddi e (1000 * g))
  cases e with
  | none => exact sent_add_half (by omega) hx
  | some v =>
    obtain ⟨h, rfl, h2, rfl⟩ := hx
    refine ⟨h + g, by show 1000 * h + 1000 * g = 1000 * (h + g); omega, by omega, ?_⟩
    exact add_half (by omega) (by omega)

/-- `MAX` -/
theorem emb_smax {N : Nat} {x y : SoftF32} {e f : ExactScore} (hx : Emb N x e) (hy : Emb N y f) (hN : N < 16777216) :
    Emb N (smax x y) (smax e f) := by
  rw [ex_smax]
  unfold smax
  show Emb N (if gt x y = true then x else y) (omax e f)
  cases e with
  | none =>
    cases f with
    | none =>
      simp only [omax_none_left]
      split
      · exact hx
      · exact hy
    | some w =>
      obtain ⟨k, rfl, k2, rfl⟩ := hy
      rw [gt_sent_half (by omega) hx]
      simp only [omax_none_left, Bool.false_eq_true, if_false]
      exact ⟨k, rfl, k2, rfl⟩
  | some v =>
    obtain ⟨h, rfl, h2, rfl⟩ := hx
    cases f with
    | none =>
      rw [gt_half_sent (by omega) hy]
      simp only [omax_none_right, if_true]
      exact ⟨h, rfl, h2, rfl⟩
    | some w =>
      obtain ⟨k, rfl, k2, rfl⟩ := hy
      rw [gt_half (by omega) (by omega)]
      simp only [omax_some_some]
      by_cases hc : k < h
      · simp only [hc, decide_true, if_true]
        exact ⟨h, by omega, h2, rfl⟩
      · simp only [hc, decide_false, Bool.false_eq_true, if_false]
        exact ⟨k, by omega, k2, rfl⟩

theorem emb_smax3 {N : Nat} {x y z : SoftF32} {e f g : ExactScore} (hx : Emb N x e) (hy : Emb N y f) (hz : Emb N z g)
    (hN : N < 16777216) : Emb N (smax3 x y z) (smax3 e f g) :=
  emb_smax (emb_smax hx hy hN) hz hN

/-- sum of two embedded values (the meetup adds a forward and a backward cell) -/
theorem emb_add2 {N M : Nat} {x y : SoftF32} {e f : ExactScore} (hx : Emb N x e) (hy : Emb M y f)
    (hN : N + M < 16777216) : Emb (N + M) (Score.add x y) (Score.add e f) := by
  show Emb (N + M) (add x y) (Score.add e f)
  cases e with
  | none =>
    cases f with
    | none => exact sent_add_sent hx hy
    | some w =>
      obtain ⟨k, rfl, k2, rfl⟩ := hy
      exact sent_add_half (by omega) hx
  | some v =>
    obtain ⟨h, rfl, h2, rfl⟩ := hx
    cases f with
    | none => exact half_add_sent (by omega) hy
    | some w =>
      obtain ⟨k, rfl, k2, rfl⟩ := hy
      refine ⟨h + k, ?_, by omega, add_half (by omega) (by omega)⟩
      show 1000 * h + 1000 * k = 1000 * (h + k)
      omega

end Kalign
