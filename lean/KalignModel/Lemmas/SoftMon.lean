import KalignModel.Lemmas.SoftMeet
import KalignModel.Lemmas.Feas
import KalignModel.Lemmas.MonCtrl
/-!
# The Hirschberg monitor on the software binary32: sequence–sequence operands

`ssKernels_stepMon`: with parameters bounded by 2²⁰ (`ApBnd`), operands with `len_a + len_b < 2²²` and bounded tie-break terms
(`TieBnd`), the real sequence–sequence kernels on `SoftF32` satisfy `StepMon` for the rectangle invariant `FeasRect`:
every forward/backward cell is sentinel-like or bounded, in the finiteness pattern of the exact kernel (`genTab_cls`); a feasible
rectangle has a cut with two finite parts (`feas_has_candidate`), so the meetup leaves its sentinel and returns a cut with two
finite parts (`meetupRun_cls`); such a cut satisfies the meetup contract and makes both sub-rectangles feasible
(`candidate_contract`).  `runnerSerial_mon_fuel` then gives `mon = true` for the whole run (`ss_alnRun_mon`).
-/
namespace Kalign
open SoftF32

/-- the tie-break terms `fabsf((float)(c3-c2)/2.0F + (float)c2 - (float)i)/1000.0F` of all columns up to `lenB` are bounded -/
def TieBnd (lenB : Nat) : Prop :=
  ∀ sb eb i : Nat, sb ≤ i → i ≤ eb → eb ≤ lenB → absLe (Score.tie (sb : Int) (eb : Int) (i : Int) : SoftF32) 1048576

/-- an exact configuration with `n + 1` cells; its penalties and scores are irrelevant here -/
def cZ (n : Nat) : KCfg := ⟨n, false, false, 0, 0, 0, fun _ _ => 0⟩

theorem stCls_hot (k : Kind) : StCls 0 ((realKernels (α := SoftF32) ap ops lenA lenB).st k) (hot k) := by
  cases k
  · exact ⟨cls_zero 0, cls_negInf 0, cls_negInf 0⟩
  · exact ⟨cls_negInf 0, cls_zero 0, cls_negInf 0⟩
  · exact ⟨cls_negInf 0, cls_negInf 0, cls_zero 0⟩

theorem ssMeetOps_bnd (ap : AlnParam SoftF32) (hap : ApBnd ap) (r : Rect) : MeetOpsBnd (ssMeetOps ap r) := by
  refine ⟨?_, ?_, ?_, ?_, ?_, ?_⟩
  · intro i B x p hB hx; exact cls_sub_pen (B' := 1) hx (absLe_unit hap.gpo) hB
  · intro B x p hB hx; exact cls_sub_pen (B' := 1) hx (absLe_unit hap.gpo) hB
  · intro i B x p hB hx; exact cls_sub_pen (B' := 1) hx (absLe_unit hap.gpo) hB
  · intro B x p hB hx
    simp only [ssMeetOps]
    split
    · exact cls_sub_pen (B' := 1) hx (absLe_unit hap.tgpe) hB
    · exact cls_sub_pen (B' := 1) hx (absLe_unit hap.gpe) hB
  · intro B x p hB hx; exact cls_sub_pen (B' := 1) hx (absLe_unit hap.gpo) hB
  · intro B x p hB hx
    simp only [ssMeetOps]
    split
    · exact cls_sub_pen (B' := 1) hx (absLe_unit hap.tgpe) hB
    · exact cls_sub_pen (B' := 1) hx (absLe_unit hap.gpe) hB

theorem isSome_of_ne_none {x : Option Int} (h : x ≠ none) : x.isSome = true := by
  cases x
  · exact absurd rfl h
  · rfl

theorem ne_none_of_isSome {x : Option Int} (h : x.isSome = true) : x ≠ none := by
  cases x
  · simp at h
  · simp

/-- **the kernel step on a feasible rectangle**: contract and feasible children -/
theorem ss_step_contract (ap : AlnParam SoftF32) (hap : ApBnd ap) (seq1 seq2 : Array Nat) (lenB : Nat)
    (htie : TieBnd lenB) (fk bk : Kind) (sa m1 m2 sb n : Nat) (hm2 : 1 ≤ m2) (hn : 1 ≤ n) (heb : sb + n ≤ lenB)
    (hlen : m1 + m2 + 2 * n + 2 < 8388608) (hfeas : Feas fk bk (m1 + m2) n) (startF startB : States SoftF32)
    (hsF : StCls 0 startF (hot fk)) (hsB : StCls 0 startB (hot bk)) :
    let rF : Rect := ⟨sa, sa + m1, sb, sb + n, lenB⟩
    let rB : Rect := ⟨sa + m1, sa + m1 + m2, sb, sb + n, lenB⟩
    let r := kMeetup ap (.seqseq seq1 seq2) rF (sa + m1) (kForward ap (.seqseq seq1 seq2) rF startF)
      (kBackward ap (.seqseq seq1 seq2) rB startB)
    meetupContract fk bk (sa : Int) ((sa + m1 + m2 : Nat) : Int) (sb : Int) ((sb + n : Nat) : Int)
        ((sa + m1 : Nat) : Int) r.meet r.transition = true ∧
    ChildrenFeas fk bk (sa : Int) ((sa + m1 + m2 : Nat) : Int) (sb : Int) ((sb + n : Nat) : Int)
        ((sa + m1 : Nat) : Int) r.meet r.transition := by
  intro rF rB r
  -- the cell lists as tables
  have hF : kForward ap (.seqseq seq1 seq2) rF startF =
      (List.range (n + 1)).map (genTab (ssGaInit ap (rF.startb == 0)) n startF (ssOpsF ap seq1 seq2 rF) m1) := by
    have := ssForward_eq_genTab ap seq1 seq2 rF (by show sb < sb + n; omega) startF
    have e1 : rF.endb - rF.startb = n := by show sb + n - sb = n; omega
    have e2 : rF.enda - rF.starta = m1 := by show sa + m1 - sa = m1; omega
    rw [e1, e2] at this
    exact this
  have hBk : kBackward ap (.seqseq seq1 seq2) rB startB =
      (List.range (n + 1)).map (fun k =>
        genTab (ssGaInit ap (rB.endb == rB.lenB)) n startB (ssOpsB ap seq1 seq2 rB) m2 (n - k)) := by
    have := ssBackward_eq_genTab ap seq1 seq2 rB (by show sb < sb + n; omega) startB
    have e1 : rB.endb - rB.startb = n := by show sb + n - sb = n; omega
    have e2 : rB.enda - rB.starta = m2 := by show sa + m1 + m2 - (sa + m1) = m2; omega
    rw [e1, e2, map_range_reverse] at this
    exact this
  -- classes of the cells
  have hcF := genTab_cls (ssGaInit ap (rF.startb == 0)) (absGaInit (cZ n)) (ssGaInit_rel ap hap _ (cZ n)) n startF (hot fk)
    (ssOpsF ap seq1 seq2 rF) (absOps (cZ n)) (fun p => ssOpsF_rel ap hap seq1 seq2 rF (cZ n) p) 0 (m1 + n)
    (by omega) hsF m1
  have hcB := genTab_cls (ssGaInit ap (rB.endb == rB.lenB)) (absGaInit (cZ n)) (ssGaInit_rel ap hap _ (cZ n)) n startB (hot bk)
    (ssOpsB ap seq1 seq2 rB) (absOps (cZ n)) (fun p => ssOpsB_rel ap hap seq1 seq2 rB (cZ n) p) 0 (m2 + n)
    (by omega) hsB m2
  have hcells : ∀ k, k ≤ n →
      StCls (2 * (m1 + n)) (genTab (ssGaInit ap (rF.startb == 0)) n startF (ssOpsF ap seq1 seq2 rF) m1 k)
        (absTab (cZ n) (hot fk) m1 k) ∧
      StCls (2 * (m2 + n)) (genTab (ssGaInit ap (rB.endb == rB.lenB)) n startB (ssOpsB ap seq1 seq2 rB) m2 (n - k))
        (absTab (cZ n) (hot bk) m2 (n - k)) ∧
      absLe (Score.tie (sb : Int) ((sb + n : Nat) : Int) ((sb + k : Nat) : Int) : SoftF32) 1048576 := by
    intro k hk
    refine ⟨?_, ?_, htie sb (sb + n) (sb + k) (by omega) (by omega) heb⟩
    · have := hcF k (by omega)
      rw [Nat.zero_add] at this
      exact this.mono (by omega)
    · have := hcB (n - k) (by omega)
      rw [Nat.zero_add] at this
      exact this.mono (by omega)
  have hmeet := meetupRun_cls (ssMeetOps ap rF) (ssMeetOps_bnd ap hap rF) sb (sb + n) n (2 * (m1 + n)) (2 * (m2 + n))
    _ _ (fun k => absTab (cZ n) (hot fk) m1 k) (fun k => absTab (cZ n) (hot bk) m2 (n - k)) (by omega) hcells
  have hr : r = meetupRun (ssMeetOps ap rF) sb (sb + n)
      ((List.range (n + 1)).map (genTab (ssGaInit ap (rF.startb == 0)) n startF (ssOpsF ap seq1 seq2 rF) m1))
      ((List.range (n + 1)).map (fun k =>
        genTab (ssGaInit ap (rB.endb == rB.lenB)) n startB (ssOpsB ap seq1 seq2 rB) m2 (n - k))) := by
    show kMeetup _ _ _ _ _ _ = _
    rw [hF, hBk]
    rfl
  rw [← hr] at hmeet
  -- a feasible rectangle has a finite candidate
  obtain ⟨k0, t0, hadm0, hf0, hb0⟩ := feas_has_candidate (cZ n) (cZ n) hn rfl fk bk m1 m2 hm2 hfeas
  have hfin0 : finAt (fun k => absTab (cZ n) (hot fk) m1 k) (fun k => absTab (cZ n) (hot bk) m2 (n - k)) sb t0 (sb + k0) = true := by
    unfold finAt
    rw [Nat.add_sub_cancel_left]
    simp only [Bool.and_eq_true]
    exact ⟨isSome_of_ne_none hf0, isSome_of_ne_none hb0⟩
  rcases hmeet with ⟨k, t, hadm, hfin, hm, ht⟩ | ⟨_, hnone⟩
  · unfold finAt at hfin
    rw [Nat.add_sub_cancel_left] at hfin
    simp only [Bool.and_eq_true] at hfin
    have := candidate_contract (cZ n) (cZ n) hn rfl fk bk sa sb m1 m2 hm2 k t hadm (ne_none_of_isSome hfin.1)
      (ne_none_of_isSome hfin.2)
    rw [hm, ht]
    exact this
  · have := hnone k0 t0 hadm0
    rw [hfin0] at this
    exact absurd this (by decide)

end Kalign

namespace Kalign
open SoftF32

theorem getD_set0 (a : Array (States SoftF32)) (s : States SoftF32) (h : 0 < a.size) :
    (a.set! 0 s).getD 0 States.negInf = s := by
  simp [Array.getD, h]

/-- **the real sequence–sequence kernels on `SoftF32` satisfy the monitor's requirements** -/
theorem ssKernels_stepMon (ap : AlnParam SoftF32) (hap : ApBnd ap) (seq1 seq2 : Array Nat) (lenA lenB : Nat)
    (hlen : lenA + lenB < 4194304) (htie : TieBnd lenB) :
    StepMon (realKernels ap (.seqseq seq1 seq2) lenA lenB) (fun a : Array (States SoftF32) => lenB + 1 ≤ a.size)
      FeasRect lenA lenB where
  safe := realKernels_stepSafe ap (.seqseq seq1 seq2) lenA lenB
  get_set := by
    intro f s hf
    exact getD_set0 f s (by omega)
  step := by
    intro f b fk bk sa ea sb eb hf hb hf0 hb0 h0 h1 h2 h3 h4 h5 hQ r hr
    have hfeas := hQ h1 h4
    -- natural-number coordinates
    obtain ⟨sa', rfl⟩ : ∃ n : Nat, sa = n := ⟨sa.toNat, by omega⟩
    obtain ⟨sb', rfl⟩ : ∃ n : Nat, sb = n := ⟨sb.toNat, by omega⟩
    obtain ⟨rows, hrows⟩ : ∃ n : Nat, ea = (sa' : Int) + n := ⟨(ea - sa').toNat, by omega⟩
    obtain ⟨n, hn⟩ : ∃ n : Nat, eb = (sb' : Int) + n := ⟨(eb - sb').toNat, by omega⟩
    subst hrows hn
    have hrows1 : 1 ≤ rows := by omega
    have hn1 : 1 ≤ n := by omega
    have hmid : ((sa' : Int) + rows - sa') / 2 + sa' = ((sa' + rows / 2 : Nat) : Int) := by omega
    rw [hmid] at hr ⊢
    have e1 : ((sa' : Int) + rows - sa').toNat = rows / 2 + (rows - rows / 2) := by omega
    have e2 : ((sb' : Int) + n - sb').toNat = n := by omega
    rw [e1, e2] at hfeas
    simp only [realKernels, realStep] at hr hf0 hb0
    have hcond : (0 : Int) ≤ sa' ∧ (sa' : Int) ≤ ((sa' + rows / 2 : Nat) : Int) ∧
        ((sa' + rows / 2 : Nat) : Int) ≤ (sa' : Int) + rows ∧ (sa' : Int) + rows ≤ (lenA : Int) ∧ (0 : Int) ≤ sb' ∧
        (sb' : Int) < (sb' : Int) + n ∧ (sb' : Int) + n ≤ (lenB : Int) ∧ 0 < f.size ∧ 0 < b.size :=
      ⟨by omega, by omega, by omega, by omega, by omega, by omega, by omega, by omega, by omega⟩
    rw [if_pos hcond] at hr
    have t1 : (sa' : Int).toNat = sa' := by omega
    have t2 : ((sa' + rows / 2 : Nat) : Int).toNat = sa' + rows / 2 := by omega
    have t3 : ((sa' : Int) + rows).toNat = sa' + rows / 2 + (rows - rows / 2) := by omega
    have t4 : (sb' : Int).toNat = sb' := by omega
    have t5 : ((sb' : Int) + n).toNat = sb' + n := by omega
    rw [t1, t2, t3, t4, t5] at hr
    have key := ss_step_contract ap hap seq1 seq2 lenB htie fk bk sa' (rows / 2) (rows - rows / 2) sb' n (by omega) hn1
      (by omega) (by omega) hfeas (f.getD 0 States.negInf) (b.getD 0 States.negInf)
      (by rw [hf0]; exact stCls_hot fk) (by rw [hb0]; exact stCls_hot bk)
    simp only at key
    split at hr
    · simp only [Option.some.injEq] at hr
      subst hr
      simp only
      have c1 : ((sa' + rows / 2 + (rows - rows / 2) : Nat) : Int) = (sa' : Int) + rows := by omega
      have c2 : ((sb' + n : Nat) : Int) = (sb' : Int) + n := by omega
      rw [c1, c2] at key
      exact key
    · exact absurd hr (by simp)

/-- **the monitor of a sequence–sequence Hirschberg run on `SoftF32` stays true** -/
theorem ss_alnRun_mon (ap : AlnParam SoftF32) (hap : ApBnd ap) (seq1 seq2 : Array Nat) (lenA lenB : Nat)
    (hA : 1 ≤ lenA) (hB : 1 ≤ lenB) (hlen : lenA + lenB < 4194304) (htie : TieBnd lenB) :
    (alnRun .serial ap (.seqseq seq1 seq2) lenA lenB (initMem lenA lenB)).mon = true := by
  unfold alnRun
  refine runnerSerial_mon_fuel (ssKernels_stepMon ap hap seq1 seq2 lenA lenB hlen htie) _ (initMem_core lenA lenB)
    (by simp [initMem]) (by simp [initMem]) (by simp [initMem]) (by simp [initMem]) ?_
  refine ⟨rfl, ?_, ?_, ?_⟩
  · simp [initMem, realKernels, Kernels.st, Array.getD]
  · simp [initMem, realKernels, Kernels.st, Array.getD]
  · intro _ _
    simp only [initMem]
    have := feas_top lenA lenB hA hB
    simpa using this

end Kalign
