import KalignModel.Lemmas.KernelSS
/-!
# S2 — what `meetup` computes

`meetupLoop` is a left fold of `MeetAcc.try_` over a list of candidates `(value, transition, column)`
(`meetupLoop_eq_tryAll`); on the exact carrier the fold returns the first maximum of the list (`tryAll_spec`).
-/
namespace Kalign
section
variable {α : Type} [Score α]

def tryAll (acc : MeetAcc α) (cs : List (α × Int × Nat)) : MeetAcc α :=
  cs.foldl (fun acc c => acc.try_ c.1 c.2.1 c.2.2) acc

/-- the six candidates of a column `i < endb` in scan order -/
def cellCands (ops : MeetOps α) (sb eb i : Nat) (f b : States α) : List (α × Int × Nat) :=
  let sub : α := Score.tie sb eb i
  [(Score.sub (Score.add f.a b.a) sub, 1, i),
   (Score.sub (ops.g2 i (Score.add f.a b.ga)) sub, 2, i),
   (Score.sub (ops.g3 (Score.add f.a b.gb)) sub, 3, i),
   (Score.sub (ops.g5 i (Score.add f.ga b.a)) sub, 5, i),
   (Score.sub (ops.g6 (Score.add f.gb b.gb)) sub, 6, i),
   (Score.sub (ops.g7 (Score.add f.gb b.a)) sub, 7, i)]

/-- the two candidates of column `endb` -/
def lastCands (ops : MeetOps α) (sb eb i : Nat) (f b : States α) : List (α × Int × Nat) :=
  let sub : α := Score.tie sb eb i
  [(Score.sub (ops.g3 (Score.add f.a b.gb)) sub, 3, i),
   (Score.sub (ops.g6e (Score.add f.gb b.gb)) sub, 6, i)]

/-- all candidates from cell `k` on (`d` more cells follow), cells given as functions -/
def allCands (ops : MeetOps α) (sb eb : Nat) (F B : Nat → States α) : Nat → Nat → List (α × Int × Nat)
  | k, 0 => lastCands ops sb eb (sb + k) (F k) (B k)
  | k, d + 1 => cellCands ops sb eb (sb + k) (F k) (B k) ++ allCands ops sb eb F B (k + 1) d

theorem meetupLoop_cons2 (ops : MeetOps α) (sb eb i : Nat) (f f' b b' : States α) (fs bs : List (States α))
    (acc : MeetAcc α) :
    meetupLoop ops sb eb i (f :: f' :: fs) (b :: b' :: bs) acc =
      meetupLoop ops sb eb (i + 1) (f' :: fs) (b' :: bs) (tryAll acc (cellCands ops sb eb i f b)) := by
  simp [meetupLoop, tryAll, cellCands]

theorem meetupLoop_last (ops : MeetOps α) (sb eb i : Nat) (f b : States α) (acc : MeetAcc α) :
    meetupLoop ops sb eb i [f] [b] acc = tryAll acc (lastCands ops sb eb i f b) := by
  simp [meetupLoop, tryAll, lastCands]

theorem tryAll_append (acc : MeetAcc α) (xs ys : List (α × Int × Nat)) :
    tryAll acc (xs ++ ys) = tryAll (tryAll acc xs) ys := by
  simp [tryAll, List.foldl_append]

theorem meetupLoop_eq_tryAll (ops : MeetOps α) (sb eb : Nat) (F B : Nat → States α) :
    ∀ d k acc, meetupLoop ops sb eb (sb + k) ((List.range' k (d + 1)).map F) ((List.range' k (d + 1)).map B) acc =
      tryAll acc (allCands ops sb eb F B k d) := by
  intro d
  induction d with
  | zero =>
    intro k acc
    simp only [Nat.zero_add, List.range'_one, List.map_cons, List.map_nil, allCands]
    exact meetupLoop_last ops sb eb _ _ _ acc
  | succ d ih =>
    intro k acc
    rw [List.range'_succ, List.range'_succ, List.map_cons, List.map_cons, List.map_cons, List.map_cons,
      meetupLoop_cons2, allCands, tryAll_append]
    have := ih (k + 1) (tryAll acc (cellCands ops sb eb (sb + k) (F k) (B k)))
    rw [List.range'_succ, List.map_cons, List.map_cons] at this
    rw [← this]
    rfl

/-- `meetupRun` on cell lists given by functions on `0..n` -/
theorem meetupRun_eq (ops : MeetOps α) (sb eb n : Nat) (F B : Nat → States α) :
    meetupRun ops sb eb ((List.range (n + 1)).map F) ((List.range (n + 1)).map B) =
      (let r := tryAll ⟨Score.negInf, -1, -1⟩ (allCands ops sb eb F B 0 n)
       ⟨r.c, r.transition, r.max⟩) := by
  unfold meetupRun
  have := meetupLoop_eq_tryAll ops sb eb F B n 0 ⟨Score.negInf, -1, -1⟩
  rw [List.range_eq_range']
  simp only [Nat.add_zero] at this
  rw [this]

end

/-! ## the fold on the exact carrier -/

theorem ole_total (a b : Option Int) : ole a b ∨ ole b a := by
  cases a <;> cases b <;> simp <;> omega
theorem ole_of_not {a b : Option Int} (h : ¬ ole a b) : ole b a := by
  rcases ole_total a b with h' | h'
  · exact absurd h' h
  · exact h'
theorem not_ole_trans {a b c : Option Int} (h1 : ¬ ole a b) (h2 : ole c b) : ¬ ole a c :=
  fun h => h1 (ole_trans h h2)
theorem not_ole_trans' {a b c : Option Int} (h1 : ole b a) (h2 : ¬ ole b c) : ¬ ole a c :=
  fun h => h2 (ole_trans h1 h)

def candAcc (c : ExactScore × Int × Nat) : MeetAcc ExactScore := ⟨c.1, c.2.1, c.2.2⟩

/-- the fold returns the start value when no candidate beats it, otherwise the **first** candidate of maximal value -/
theorem tryAll_spec (cands : List (ExactScore × Int × Nat)) (acc : MeetAcc ExactScore) :
    (tryAll acc cands = acc ∧ ∀ c ∈ cands, ole c.1 acc.max) ∨
    (∃ pre c post, cands = pre ++ c :: post ∧ tryAll acc cands = candAcc c ∧ ¬ ole c.1 acc.max ∧
      (∀ d ∈ pre, ¬ ole c.1 d.1) ∧ (∀ d ∈ post, ole d.1 c.1)) := by
  induction cands generalizing acc with
  | nil => left; exact ⟨rfl, by simp⟩
  | cons x rest ih =>
    have hstep : tryAll acc (x :: rest) = tryAll (acc.try_ x.1 x.2.1 x.2.2) rest := rfl
    by_cases hgt : ole x.1 acc.max
    · have htry : acc.try_ x.1 x.2.1 x.2.2 = acc := by
        unfold MeetAcc.try_
        have : ¬ (Score.gt x.1 acc.max = true) := by rw [ex_gt]; exact fun h => h hgt
        rw [if_neg this]
      rw [hstep, htry]
      rcases ih acc with ⟨h1, h2⟩ | ⟨pre, c, post, h1, h2, h3, h4, h5⟩
      · left
        refine ⟨h1, ?_⟩
        intro c hc
        rcases List.mem_cons.mp hc with h | h
        · rw [h]; exact hgt
        · exact h2 c h
      · right
        refine ⟨x :: pre, c, post, by rw [h1]; rfl, h2, h3, ?_, h5⟩
        intro d hd
        rcases List.mem_cons.mp hd with h | h
        · rw [h]; exact not_ole_trans h3 hgt
        · exact h4 d h
    · have htry : acc.try_ x.1 x.2.1 x.2.2 = candAcc x := by
        unfold MeetAcc.try_
        have : Score.gt x.1 acc.max = true := by rw [ex_gt]; exact hgt
        rw [if_pos this]; rfl
      rw [hstep, htry]
      right
      rcases ih (candAcc x) with ⟨h1, h2⟩ | ⟨pre, c, post, h1, h2, h3, h4, h5⟩
      · exact ⟨[], x, rest, rfl, h1, hgt, by simp, h2⟩
      · refine ⟨x :: pre, c, post, by rw [h1]; rfl, h2, ?_, ?_, h5⟩
        · exact not_ole_trans' (ole_of_not h3) hgt
        · intro d hd
          rcases List.mem_cons.mp hd with h | h
          · rw [h]; exact h3
          · exact h4 d h

/-- consequence: the result dominates every candidate -/
theorem tryAll_ge (cands : List (ExactScore × Int × Nat)) (acc : MeetAcc ExactScore) :
    ∀ c ∈ cands, ole c.1 (tryAll acc cands).max := by
  intro c hc
  rcases tryAll_spec cands acc with ⟨h1, h2⟩ | ⟨pre, x, post, h1, h2, h3, h4, h5⟩
  · rw [h1]; exact h2 c hc
  · rw [h2]
    rw [h1] at hc
    rcases List.mem_append.mp hc with h | h
    · exact ole_of_not (h4 c h)
    · rcases List.mem_cons.mp h with h | h
      · rw [h]; exact ole_refl _
      · exact h5 c h

/-- from the start value −∞: the result is a candidate, or everything is −∞ and the result is the start value -/
theorem tryAll_from_negInf (cands : List (ExactScore × Int × Nat)) :
    (tryAll ⟨none, -1, -1⟩ cands = ⟨none, -1, -1⟩ ∧ ∀ c ∈ cands, c.1 = none) ∨
    (∃ pre c post, cands = pre ++ c :: post ∧ tryAll ⟨none, -1, -1⟩ cands = candAcc c ∧ c.1 ≠ none ∧
      (∀ d ∈ pre, ¬ ole c.1 d.1) ∧ (∀ d ∈ post, ole d.1 c.1)) := by
  rcases tryAll_spec cands ⟨none, -1, -1⟩ with ⟨h1, h2⟩ | ⟨pre, c, post, h1, h2, h3, h4, h5⟩
  · left; exact ⟨h1, fun c hc => ole_none_right (h2 c hc)⟩
  · right
    refine ⟨pre, c, post, h1, h2, ?_, h4, h5⟩
    intro h; apply h3; rw [h]; exact ole_none _

end Kalign

/-! ## the candidates of the sequence–sequence meetup -/
namespace Kalign

def oplus : Option Int → Option Int → Option Int
  | some x, some y => some (x + y)
  | _, _ => none

@[simp] theorem oplus_some (x y : Int) : oplus (some x) (some y) = some (x + y) := rfl
@[simp] theorem oplus_none_left (b : Option Int) : oplus none b = none := rfl
@[simp] theorem oplus_none_right (a : Option Int) : oplus a none = none := by cases a <;> rfl
theorem ex_add_eq (a b : ExactScore) : Score.add a b = oplus a b := by cases a <;> cases b <;> rfl
theorem oplus_mono {a a' b b' : Option Int} (h1 : ole a a') (h2 : ole b b') : ole (oplus a b) (oplus a' b') := by
  cases a <;> cases a' <;> cases b <;> cases b' <;> simp_all <;> omega

/-- forward / backward kind of a transition code -/
def fkOf (t : Int) : Kind := if t = 5 then .GA else if t = 6 ∨ t = 7 then .GB else .A
def bkOf (t : Int) : Kind := if t = 2 then .GA else if t = 3 ∨ t = 6 then .GB else .A

/-- what the meetup subtracts for transition `t` at cell `k` (`cF` = configuration of the forward kernel) -/
def joinCost (cF : KCfg) (t : Int) (k : Nat) : Int :=
  if t = 1 then 0
  else if t = 6 then
    (if k < cF.n then (if cF.tF then cF.tgpe else cF.gpe) else (if cF.tL then cF.tgpe else cF.gpe))
  else cF.gpo

/-- the tie-break term `|endb + startb - 2 i|` (units of 1/2000) at cell `k`, `i = startb + k` -/
def tieOf (sb eb k : Nat) : Int := (((eb : Int) + (sb : Int) - 2 * ((sb + k : Nat) : Int)).natAbs : Int)

/-- value of candidate `(k, t)` from the forward value `x` and the backward value `y` -/
def meetVal (cF : KCfg) (sb eb : Nat) (t : Int) (k : Nat) (x y : Option Int) : Option Int :=
  osub (osub (oplus x y) (joinCost cF t k)) (tieOf sb eb k)

def mkCand (cF : KCfg) (sb eb : Nat) (F B : Nat → States ExactScore) (k : Nat) (t : Int) :
    ExactScore × Int × Nat :=
  (meetVal cF sb eb t k ((F k).get (fkOf t)) ((B k).get (bkOf t)), t, sb + k)

def candList (cF : KCfg) (sb eb : Nat) (F B : Nat → States ExactScore) : Nat → Nat → List (ExactScore × Int × Nat)
  | k, 0 => [3, 6].map (mkCand cF sb eb F B k)
  | k, d + 1 => [1, 2, 3, 5, 6, 7].map (mkCand cF sb eb F B k) ++ candList cF sb eb F B (k + 1) d

theorem ex_tie (sb eb i : Nat) :
    (Score.tie (sb : Int) (eb : Int) (i : Int) : ExactScore) = some ((((eb : Int) + (sb : Int) - 2 * (i : Int)).natAbs : Nat) : Int) :=
  rfl

theorem ssCands_eq (ap : AlnParam ExactScore) (gpo gpe tgpe : Int) (s : Nat → Nat → Int)
    (h : ApOK ap gpo gpe tgpe s) (seq1 seq2 : Array Nat) (r : Rect) (F B : Nat → States ExactScore) :
    ∀ d k, k + d = r.endb - r.startb →
      allCands (ssMeetOps ap r) r.startb r.endb F B k d =
        candList (cfgF gpo gpe tgpe s seq1 seq2 r) r.startb r.endb F B k d := by
  intro d
  induction d with
  | zero =>
    intro k hk
    have hlt : ¬ (k < r.endb - r.startb) := by omega
    simp only [allCands, lastCands, candList, List.map_cons, List.map_nil, mkCand, meetVal, ssMeetOps, h.gpo, h.gpe,
      h.tgpe, ex_tie, ex_sub_some, ex_add_eq, joinCost, fkOf, bkOf, cfgF, tieOf, hlt]
    by_cases he : (r.endb == r.lenB) = true
    · simp [he, ex_sub_some]
    · simp [he, ex_sub_some]
  | succ d ih =>
    intro k hk
    have hlt : k < r.endb - r.startb := by omega
    rw [allCands, candList, ih (k + 1) (by omega)]
    congr 1
    simp only [cellCands, List.map_cons, List.map_nil, mkCand, meetVal, ssMeetOps, h.gpo, h.gpe,
      h.tgpe, ex_tie, ex_sub_some, ex_add_eq, joinCost, fkOf, bkOf, cfgF, tieOf, hlt]
    by_cases he : (r.startb == 0) = true
    · simp [he, ex_sub_some, osub_zero]
    · simp [he, ex_sub_some, osub_zero]

theorem mem_candList (cF : KCfg) (sb eb : Nat) (F B : Nat → States ExactScore) (c : ExactScore × Int × Nat) :
    ∀ d k, c ∈ candList cF sb eb F B k d ↔
      ∃ k' t, k ≤ k' ∧ k' ≤ k + d ∧ ((k' < k + d ∧ (t = 1 ∨ t = 2 ∨ t = 3 ∨ t = 5 ∨ t = 6 ∨ t = 7)) ∨
        (k' = k + d ∧ (t = 3 ∨ t = 6))) ∧ c = mkCand cF sb eb F B k' t := by
  intro d
  induction d with
  | zero =>
    intro k
    simp only [candList, List.map_cons, List.map_nil, List.mem_cons, List.not_mem_nil, or_false, Nat.add_zero]
    constructor
    · rintro (h | h)
      · exact ⟨k, 3, Nat.le_refl _, Nat.le_refl _, Or.inr ⟨rfl, Or.inl rfl⟩, h⟩
      · exact ⟨k, 6, Nat.le_refl _, Nat.le_refl _, Or.inr ⟨rfl, Or.inr rfl⟩, h⟩
    · rintro ⟨k', t, h1, h2, h3 | h3, h4⟩
      · omega
      · have : k' = k := by omega
        subst this
        rcases h3.2 with h | h <;> subst h
        · left; exact h4
        · right; exact h4
  | succ d ih =>
    intro k
    rw [candList, List.mem_append, ih (k + 1)]
    simp only [List.map_cons, List.map_nil, List.mem_cons, List.not_mem_nil, or_false]
    constructor
    · rintro (h | ⟨k', t, h1, h2, h3, h4⟩)
      · have hk : k < k + (d + 1) := by omega
        rcases h with h | h | h | h | h | h
        · exact ⟨k, 1, Nat.le_refl _, by omega, Or.inl ⟨hk, by simp⟩, h⟩
        · exact ⟨k, 2, Nat.le_refl _, by omega, Or.inl ⟨hk, by simp⟩, h⟩
        · exact ⟨k, 3, Nat.le_refl _, by omega, Or.inl ⟨hk, by simp⟩, h⟩
        · exact ⟨k, 5, Nat.le_refl _, by omega, Or.inl ⟨hk, by simp⟩, h⟩
        · exact ⟨k, 6, Nat.le_refl _, by omega, Or.inl ⟨hk, by simp⟩, h⟩
        · exact ⟨k, 7, Nat.le_refl _, by omega, Or.inl ⟨hk, by simp⟩, h⟩
      · refine ⟨k', t, by omega, by omega, ?_, h4⟩
        rcases h3 with h3 | h3
        · exact Or.inl ⟨by omega, h3.2⟩
        · exact Or.inr ⟨by omega, h3.2⟩
    · rintro ⟨k', t, h1, h2, h3, h4⟩
      by_cases hk : k' = k
      · left
        subst hk
        rcases h3 with h3 | h3
        · rcases h3.2 with h | h | h | h | h | h <;> subst h <;> simp [h4]
        · omega
      · right
        refine ⟨k', t, by omega, by omega, ?_, h4⟩
        rcases h3 with h3 | h3
        · exact Or.inl ⟨by omega, h3.2⟩
        · exact Or.inr ⟨by omega, h3.2⟩

end Kalign
