import KalignModel.Lemmas.IndexTree
/-!
# The checked k-means lanes agree with the totalised ones (slice AD, item 6a)
-/
namespace Kalign.Kmeans
open Kalign

theorem get?_eq_get! {γ : Type} [Inhabited γ] (a : Array γ) (i : Nat) (h : i < a.size) : a[i]? = some a[i]! := by
  simp [h]

theorem anyC_eq {γ : Type} (fC : γ → Option Bool) (f : γ → Bool) (l : List γ) (h : ∀ x ∈ l, fC x = some (f x)) :
    anyC fC l = some (l.any f) := by
  induction l with
  | nil => rfl
  | cons x xs ih =>
    rw [anyC, h x (by simp), Option.bind_some, List.any_cons]
    cases f x
    · simpa using ih (fun y hy => h y (by simp [hy]))
    · rfl

/-! ## euclidean distances -/

theorem laneGoC_eq (a b : Array Float32) (k : Nat) (hk : k < 8) (n blk : Nat) (r : Float32)
    (ha : 8 * (blk + n) ≤ a.size) (hb : 8 * (blk + n) ≤ b.size) :
    laneGoC a b k n blk r = some (laneGo a b k n blk r) := by
  induction n generalizing blk r with
  | zero => rfl
  | succ n ih =>
    rw [laneGoC, laneGo, get?_eq_get! a _ (by omega), Option.bind_some, get?_eq_get! b _ (by omega), Option.bind_some]
    exact ih (blk + 1) _ (by omega) (by omega)

theorem edist256C_eq (a b : Array Float32) (len : Nat) (ha : 8 * ((len + 7) / 8) ≤ a.size)
    (hb : 8 * ((len + 7) / 8) ≤ b.size) : edist256C a b len = some (edist256 a b len) := by
  unfold edist256C edist256
  have h : ∀ k, k < 8 → laneGoC a b k ((len + 7) / 8) 0 0 = some (laneGo a b k ((len + 7) / 8) 0 0) :=
    fun k hk => laneGoC_eq a b k hk _ 0 0 (by omega) (by omega)
  simp only [h 0 (by omega), h 1 (by omega), h 2 (by omega), h 3 (by omega), h 4 (by omega), h 5 (by omega),
    h 6 (by omega), h 7 (by omega), Option.bind_some]

theorem serialGoC_eq (a b : Array Float32) (n i : Nat) (d : Float32) (ha : i + n ≤ a.size) (hb : i + n ≤ b.size) :
    serialGoC a b n i d = some (serialGo a b n i d) := by
  induction n generalizing i d with
  | zero => rfl
  | succ n ih =>
    rw [serialGoC, serialGo, get?_eq_get! a _ (by omega), Option.bind_some, get?_eq_get! b _ (by omega), Option.bind_some]
    exact ih (i + 1) _ (by omega) (by omega)

theorem edistSerialC_eq (a b : Array Float32) (len : Nat) (ha : len ≤ a.size) (hb : len ≤ b.size) :
    edistSerialC a b len = some (edistSerial a b len) := by
  unfold edistSerialC edistSerial
  rw [serialGoC_eq a b len 0 0 (by omega) (by omega)]
  rfl

theorem edistC_eq (avx : Bool) (a b : Array Float32) (len : Nat) (ha : 8 * ((len + 7) / 8) ≤ a.size)
    (hb : 8 * ((len + 7) / 8) ≤ b.size) : edistC avx a b len = some (edist avx a b len) := by
  unfold edistC edist
  cases avx
  · exact edistSerialC_eq a b len (by omega) (by omega)
  · exact edist256C_eq a b len ha hb

theorem numVarOf_eq (n : Nat) : numVarOf n = 8 * ((n + 7) / 8) := by
  unfold numVarOf
  split <;> omega

theorem le_numVarOf (n : Nat) : n ≤ numVarOf n := by rw [numVarOf_eq]; omega

/-! ## column sums, vectors -/

/-- every row has at least `nv` entries -/
def RowsOK (rows : Array (Array Float32)) (nv : Nat) : Prop := ∀ i, i < rows.size → nv ≤ (rows[i]!).size

theorem colSumGoC_eq (rows : Array (Array Float32)) (nv : Nat) (hr : RowsOK rows nv)
    (sel : Option (Array Bool × Bool)) (hsel : ∀ fl side, sel = some (fl, side) → rows.size ≤ fl.size)
    (j : Nat) (hj : j < nv) (n i : Nat) (acc : Float32) (hi : i + n ≤ rows.size) :
    colSumGoC rows sel j n i acc = some (colSumGo rows sel j n i acc) := by
  induction n generalizing i acc with
  | zero => rfl
  | succ n ih =>
    have hi' : i < rows.size := by omega
    have hrow := hr i hi'
    rw [colSumGoC.eq_def, colSumGo.eq_def]
    dsimp only
    cases sel with
    | none =>
      simp only [Option.bind_some, if_true]
      rw [get?_eq_get! rows i hi', Option.bind_some, get?_eq_get! _ j (by omega), Option.map_some, Option.bind_some]
      exact ih (i + 1) _ (by omega)
    | some fs =>
      obtain ⟨fl, side⟩ := fs
      have := hsel fl side rfl
      simp only
      rw [get?_eq_get! fl i (by omega), Option.map_some, Option.bind_some]
      by_cases hside : (fl[i]! == side) = true
      · rw [if_pos hside, if_pos hside]
        rw [get?_eq_get! rows i hi', Option.bind_some, get?_eq_get! _ j (by omega), Option.map_some, Option.bind_some]
        exact ih (i + 1) _ (by omega)
      · rw [if_neg hside, if_neg hside, Option.bind_some]
        exact ih (i + 1) _ (by omega)

theorem colSumC_eq (rows : Array (Array Float32)) (nv : Nat) (hr : RowsOK rows nv)
    (sel : Option (Array Bool × Bool)) (hsel : ∀ fl side, sel = some (fl, side) → rows.size ≤ fl.size)
    (j : Nat) (hj : j < nv) : colSumC rows sel j = some (colSum rows sel j) :=
  colSumGoC_eq rows nv hr sel hsel j hj _ 0 0 (by omega)

theorem mkVecC_eq (nv na : Nat) (fC : Nat → Option Float32) (f : Nat → Float32)
    (h : ∀ j, j < na → j < nv → fC j = some (f j)) : mkVecC nv na fC = some (mkVec nv na f) := by
  unfold mkVecC mkVec
  rw [mapC_eq _ (fun j => if j < na then f j else 0) _ (by
    intro j hj
    have hj' : j < nv := by simpa using hj
    split
    · rename_i h1; exact h j h1 hj'
    · rfl)]
  rw [Option.map_some]
  congr 1
  apply Array.ext
  · simp
  · intro i h1 h2
    simp

theorem size_mkVec (nv na : Nat) (f : Nat → Float32) : (mkVec nv na f).size = nv := by simp [mkVec]

/-! ## one iteration of `split2` -/

theorem assignGo_size (avx : Bool) (rows : Array (Array Float32)) (cl cr : Array Float32) (na n i : Nat) (sc : Float32)
    (fl : Array Bool) : (assignGo avx rows cl cr na n i sc fl).1.size = fl.size + n := by
  induction n generalizing i sc fl with
  | zero => rfl
  | succ n ih => rw [assignGo, ih]; simp; omega

theorem assignGoC_eq (avx : Bool) (rows : Array (Array Float32)) (cl cr : Array Float32) (na : Nat)
    (hr : RowsOK rows (numVarOf na)) (hcl : numVarOf na ≤ cl.size) (hcr : numVarOf na ≤ cr.size)
    (n i : Nat) (sc : Float32) (fl : Array Bool) (hi : i + n ≤ rows.size) :
    assignGoC avx rows cl cr na n i sc fl = some (assignGo avx rows cl cr na n i sc fl) := by
  induction n generalizing i sc fl with
  | zero => rfl
  | succ n ih =>
    have hi' : i < rows.size := by omega
    have hrow := hr i hi'
    rw [numVarOf_eq] at hrow hcl hcr
    rw [assignGoC, assignGo, get?_eq_get! rows i hi', Option.bind_some, edistC_eq avx _ cl na hrow hcl, Option.bind_some,
      edistC_eq avx _ cr na hrow hcr, Option.bind_some]
    exact ih (i + 1) _ _ (by omega)

theorem centresMovedC_eq (wl wr cl cr : Array Float32) (na : Nat) (h1 : na ≤ wl.size) (h2 : na ≤ wr.size)
    (h3 : na ≤ cl.size) (h4 : na ≤ cr.size) : centresMovedC wl wr cl cr na = some (centresMoved wl wr cl cr na) := by
  unfold centresMovedC centresMoved
  apply anyC_eq
  intro j hj
  have hj' : j < na := by simpa using hj
  rw [get?_eq_get! wl j (by omega), Option.bind_some, get?_eq_get! cl j (by omega), Option.bind_some]
  by_cases hc : (cmpFloats wl[j]! cl[j]! != 0) = true
  · rw [if_pos hc, hc]; rfl
  · rw [if_neg hc, get?_eq_get! wr j (by omega), Option.bind_some, get?_eq_get! cr j (by omega), Option.map_some]
    simp only [Bool.not_eq_true] at hc
    rw [hc, Bool.false_or]

theorem iterStepC_eq (avx : Bool) (rows : Array (Array Float32)) (samples : List Nat) (na : Nat)
    (hr : RowsOK rows (numVarOf na)) (cl cr : Array Float32) (hcl : cl.size = numVarOf na) (hcr : cr.size = numVarOf na) :
    iterStepC avx rows samples na (numVarOf na) cl cr = some (iterStep avx rows samples na (numVarOf na) cl cr) ∧
      ∀ r cl' cr', iterStep avx rows samples na (numVarOf na) cl cr = (r, some (cl', cr')) →
        cl'.size = numVarOf na ∧ cr'.size = numVarOf na := by
  have hle := le_numVarOf na
  unfold iterStepC iterStep
  rw [assignGoC_eq avx rows cl cr na hr (by omega) (by omega) rows.size 0 0 _ (by omega), Option.bind_some]
  have hsz := assignGo_size avx rows cl cr na rows.size 0 0 (Array.mkEmpty rows.size)
  generalize assignGo avx rows cl cr na rows.size 0 0 (Array.mkEmpty rows.size) = ag at hsz
  obtain ⟨flags, score⟩ := ag
  have hfl : rows.size ≤ flags.size := by simp at hsz; omega
  dsimp only
  split
  · exact ⟨rfl, fun r cl' cr' e => by cases e⟩
  · have hsel : ∀ (side : Bool) fl s, some (flags, side) = some (fl, s) → rows.size ≤ fl.size := by
      intro side fl s e; cases e; exact hfl
    have e1 : ∀ (d : Float32), mkVecC (numVarOf na) na (fun j => (colSumC rows (some (flags, true)) j).map (· / d)) =
        some (mkVec (numVarOf na) na fun j => colSum rows (some (flags, true)) j / d) :=
      fun d => mkVecC_eq _ _ _ _ (fun j _ hj => by
        rw [colSumC_eq rows _ hr _ (hsel true) j hj]; rfl)
    have e2 : ∀ (d : Float32), mkVecC (numVarOf na) na (fun j => (colSumC rows (some (flags, false)) j).map (· / d)) =
        some (mkVec (numVarOf na) na fun j => colSum rows (some (flags, false)) j / d) :=
      fun d => mkVecC_eq _ _ _ _ (fun j _ hj => by
        rw [colSumC_eq rows _ hr _ (hsel false) j hj]; rfl)
    rw [e1, Option.bind_some, e2, Option.bind_some,
      centresMovedC_eq _ _ cl cr na (by rw [size_mkVec]; exact hle) (by rw [size_mkVec]; exact hle) (by omega) (by omega),
      Option.map_some]
    refine ⟨rfl, ?_⟩
    intro r cl' cr' e
    split at e
    · simp only [Prod.mk.injEq, Option.some.injEq] at e
      obtain ⟨_, rfl, rfl⟩ := e
      exact ⟨size_mkVec _ _ _, size_mkVec _ _ _⟩
    · cases e

theorem split2IterC_eq (avx : Bool) (rows : Array (Array Float32)) (samples : List Nat) (na : Nat)
    (hr : RowsOK rows (numVarOf na)) (k : Nat) (cl cr : Array Float32) (hcl : cl.size = numVarOf na)
    (hcr : cr.size = numVarOf na) :
    split2IterC avx rows samples na (numVarOf na) k cl cr = some (split2Iter avx rows samples na (numVarOf na) k cl cr) := by
  induction k generalizing cl cr with
  | zero =>
    rw [split2IterC, split2Iter, (iterStepC_eq avx rows samples na hr cl cr hcl hcr).1]
    rfl
  | succ k ih =>
    obtain ⟨e, hs⟩ := iterStepC_eq avx rows samples na hr cl cr hcl hcr
    rw [split2IterC, split2Iter, e, Option.bind_some]
    generalize hit : iterStep avx rows samples na (numVarOf na) cl cr = it at hs
    obtain ⟨r, o⟩ := it
    cases o with
    | none => rfl
    | some cc =>
      obtain ⟨cl', cr'⟩ := cc
      obtain ⟨h1, h2⟩ := hs r cl' cr' rfl
      exact ih cl' cr' h1 h2

theorem rowsOf_ok (dm : Array (Array Float32)) (nv : Nat) (samples : List Nat) (rows : Array (Array Float32))
    (h : rowsOf dm nv samples = some rows) : rows.size = samples.length ∧ RowsOK rows nv := by
  unfold rowsOf at h
  cases hm : samples.mapM (rowAt dm nv) with
  | none => rw [hm] at h; cases h
  | some l =>
    rw [hm] at h
    simp only [Option.map_some, Option.some.injEq] at h
    subst h
    obtain ⟨h1, h2⟩ := mapM_some_length _ _ _ hm
    refine ⟨by simpa using h1, ?_⟩
    intro i hi
    have hi' : i < l.length := by simpa using hi
    obtain ⟨x, _, hx⟩ := h2 l[i] (List.getElem_mem hi')
    have : (l.toArray)[i]! = l[i] := by simp [hi']
    rw [this]
    unfold rowAt at hx
    split at hx
    · split at hx
      · cases hx
      · simp only [Option.some.injEq] at hx; subst hx; omega
    · cases hx

/-- **`split2` never leaves its arrays**: every `[i]!` of `laneGo`, `serialGo`, `colSumGo`, `assignGo`, `centresMoved`,
`split2With` is in range — for every matrix, sample list, anchor count, seed and iteration cap (the up-front checks of the
model, `rowsOf` and `seedPick < n`, are what is needed) -/
theorem split2WithC_eq (maxIter : Nat) (avx : Bool) (dm : Array (Array Float32)) (samples : List Nat) (na seedPick : Nat) :
    (split2WithC maxIter avx dm samples na seedPick).run = some (split2With maxIter avx dm samples na seedPick) := by
  unfold split2WithC split2With
  dsimp only
  split
  · rfl
  cases hro : rowsOf dm (numVarOf na) samples with
  | none => rfl
  | some rows =>
    obtain ⟨hsz, hr⟩ := rowsOf_ok dm _ samples rows hro
    dsimp only
    split
    · rename_i hseed
      have hle := le_numVarOf na
      have hseed' : seedPick < rows.size := by omega
      have hrow := hr seedPick hseed'
      have e1 : mkVecC (numVarOf na) na (fun j => (colSumC rows none j).map (· / Float32.ofNat samples.length)) =
          some (mkVec (numVarOf na) na fun j => colSum rows none j / Float32.ofNat samples.length) :=
        mkVecC_eq _ _ _ _ (fun j _ hj => by
          rw [colSumC_eq rows _ hr none (fun _ _ e => by cases e) j hj]; rfl)
      have e2 : mkVecC (numVarOf na) na (fun j => (rows[seedPick]!)[j]?) =
          some (mkVec (numVarOf na) na fun j => (rows[seedPick]!)[j]!) :=
        mkVecC_eq _ _ _ _ (fun j _ hj => get?_eq_get! _ j (by omega))
      have e3 : ∀ (w cl : Array Float32), w.size = numVarOf na → cl.size = numVarOf na →
          mkVecC (numVarOf na) na (fun j => (w[j]?).bind fun wj => (cl[j]?).bind fun cj => (w[j]?).map fun wj' => wj - (cj - wj')) =
          some (mkVec (numVarOf na) na fun j => w[j]! - (cl[j]! - w[j]!)) := by
        intro w cl hw hc
        exact mkVecC_eq _ _ _ _ (fun j _ hj => by
          rw [get?_eq_get! w j (by omega), Option.bind_some, get?_eq_get! cl j (by omega), Option.bind_some]; rfl)
      show (chk _ : Chk Split).run = _
      rw [e1, Option.bind_some, get?_eq_get! rows seedPick hseed', Option.bind_some, e2, Option.bind_some,
        e3 _ _ (size_mkVec _ _ _) (size_mkVec _ _ _), Option.bind_some,
        split2IterC_eq avx rows samples na hr _ _ _ (size_mkVec _ _ _) (size_mkVec _ _ _)]
      rfl
    · rfl

end Kalign.Kmeans
