import KalignModel.Model.ScoreST
import KalignModel.Lemmas.Cut
/-!
# Lemmas about the reference score `STW.walk` / `scoreST`

* `walk_append`;
* the mirrored problem `STW.mirror` and `walk_mirror`: a suffix of a complete column list scores the same walked
  forwards from its first node as walked backwards (in the mirrored problem) from the far corner, up to the edge into it.
-/
namespace Kalign

theorem STW.walk_append (w : STW) (xs ys : List Col) (i j : Nat) (st : Kind) :
    w.walk i j st (xs ++ ys) =
      w.walk i j st xs + w.walk (i + consA xs) (j + consB xs) (lastKind st xs) ys := by
  induction xs generalizing i j st with
  | nil => simp [STW.walk, lastKind]
  | cons c xs ih =>
    simp only [List.cons_append, STW.walk, ih]
    have e1 : stepP i c + consA xs = i + consA (c :: xs) := by rw [consA_cons, stepP_eq i]; omega
    have e2 : stepK j c + consB xs = j + consB (c :: xs) := by rw [consB_cons, stepK_eq j]; omega
    rw [e1, e2]
    simp only [lastKind, List.foldl_cons]
    omega

/-- the same problem read from the far corner: both sequences reversed -/
def STW.mirror (w : STW) : STW :=
  { w with sc := fun p k => w.sc (w.lenA - 1 - p) (w.lenB - 1 - k) }

@[simp] theorem STW.mirror_lenA (w : STW) : w.mirror.lenA = w.lenA := rfl
@[simp] theorem STW.mirror_lenB (w : STW) : w.mirror.lenB = w.lenB := rfl
@[simp] theorem STW.mirror_gpo (w : STW) : w.mirror.gpo = w.gpo := rfl
@[simp] theorem STW.mirror_gpe (w : STW) : w.mirror.gpe = w.gpe := rfl
@[simp] theorem STW.mirror_tgpe (w : STW) : w.mirror.tgpe = w.tgpe := rfl

theorem STW.termK_mirror (w : STW) (g : Kind) (i j : Nat) (hi : i ≤ w.lenA) (hj : j ≤ w.lenB) :
    w.mirror.termK g (w.lenA - i) (w.lenB - j) = w.termK g i j := by
  cases g
  · rfl
  · show (decide (w.lenA - i = 0) || decide (w.lenA - i = w.lenA)) = (decide (i = 0) || decide (i = w.lenA))
    rw [Bool.eq_iff_iff]
    simp only [Bool.or_eq_true, decide_eq_true_eq]
    omega
  · show (decide (w.lenB - j = 0) || decide (w.lenB - j = w.lenB)) = (decide (j = 0) || decide (j = w.lenB))
    rw [Bool.eq_iff_iff]
    simp only [Bool.or_eq_true, decide_eq_true_eq]
    omega

theorem STW.stE_mirror_symm (w : STW) (u v : Kind) (i j : Nat) (hc : u.compat v = true)
    (hi : i ≤ w.lenA) (hj : j ≤ w.lenB) :
    w.mirror.stE v u (w.lenA - i) (w.lenB - j) = w.stE u v i j := by
  cases u <;> cases v <;>
    simp only [STW.stE, STW.termK_mirror w _ i j hi hj, STW.mirror_gpo, STW.mirror_gpe] <;>
    simp [Kind.compat] at hc

theorem firstKind_cons_noskip (bk st : Kind) (c : Col) (cs : List Col) (h : c ≠ .skip) :
    firstKind bk (c :: cs) = colKind st c := by
  simp only [firstKind]; exact colKind_indep _ _ _ h

/-- **reading a suffix backwards**: a suffix `Y2` of a complete column list, entered after a column of kind `x` at node
`(i,j)`, scores the edge into it plus the walk of the reversed suffix in the mirrored problem -/
theorem STW.walk_mirror (w : STW) (Y2 : List Col) (i j : Nat) (x : Kind)
    (hadj : adjOK x Y2 = true) (hA : i + consA Y2 = w.lenA) (hB : j + consB Y2 = w.lenB) :
    w.walk i j x Y2 = w.stE x (firstKind .A Y2) i j + w.mirror.walk 0 0 .A Y2.reverse := by
  induction Y2 generalizing i j x with
  | nil =>
    simp only [consA_nil, consB_nil, Nat.add_zero] at hA hB
    subst hA; subst hB
    cases x <;> simp [STW.walk, firstKind, STW.stE, STW.termK]
  | cons c cs ih =>
    simp only [adjOK, Bool.and_eq_true, bne_iff_ne, ne_eq] at hadj
    obtain ⟨⟨hs, hcomp⟩, hadj'⟩ := hadj
    have hA' : stepP i c + consA cs = w.lenA := by rw [consA_cons] at hA; rw [stepP_eq i]; omega
    have hB' : stepK j c + consB cs = w.lenB := by rw [consB_cons] at hB; rw [stepK_eq j]; omega
    have hskip : Col.skip ∉ cs := adjOK_noskip _ _ hadj'
    rw [STW.walk, ih _ _ _ hadj' hA' hB', List.reverse_cons, STW.walk_append, Nat.zero_add, Nat.zero_add, consA_reverse,
      consB_reverse, lastKind_reverse _ _ hskip, firstKind_cons_noskip .A x c cs hs]
    simp only [STW.walk, Int.add_zero]
    -- the compatibility of the column with what follows it
    have hc2 : (colKind x c).compat (firstKind .A cs) = true := by
      cases cs with
      | nil => simp [firstKind, Kind.compat_A_right]
      | cons d ds =>
        simp only [adjOK, Bool.and_eq_true, bne_iff_ne, ne_eq] at hadj'
        rw [firstKind_cons_noskip .A (colKind x c) d ds hadj'.1.1]
        exact hadj'.1.2
    have hi' : stepP i c ≤ w.lenA := by omega
    have hj' : stepK j c ≤ w.lenB := by omega
    have e1 : consA cs = w.lenA - stepP i c := by omega
    have e2 : consB cs = w.lenB - stepK j c := by omega
    rw [e1, e2, colKind_indep (firstKind .A cs) x c hs,
      STW.stE_mirror_symm w (colKind x c) (firstKind .A cs) _ _ hc2 hi' hj']
    have hcol : w.mirror.stCol c (w.lenA - stepP i c) (w.lenB - stepK j c) = w.stCol c i j := by
      cases c with
      | skip => exact absurd rfl hs
      | both =>
        simp only [STW.stCol, STW.mirror, stepP, stepK]
        simp only [stepP, stepK] at hi' hj'
        congr 1 <;> omega
      | gapA =>
        have := STW.termK_mirror w .GA (stepP i .gapA) (stepK j .gapA) hi' hj'
        simp only [STW.stCol, this, STW.mirror_tgpe]
        rfl
      | gapB =>
        have := STW.termK_mirror w .GB (stepP i .gapB) (stepK j .gapB) hi' hj'
        simp only [STW.stCol, this, STW.mirror_tgpe]
        rfl
    rw [hcol]
    omega

end Kalign
