import KalignModel.Lemmas.MeetLevel
/-!
# Cut decomposition: a complete column list of a rectangle crosses the middle row in an admissible `(k, t)`

`adjOK st cs`: no `skip` column, and no gap-in-a column next to a gap-in-b column (starting after a column of kind `st`).
`cut_exists`: such a list that consumes `m1 + m2` rows (`m2 ≥ 1`) and `n` columns splits as `X1 ++ X2` with `X1` the
longest prefix consuming `m1` rows; both kernels can walk their part (`walkOK`), and the pair of kinds at the cut is one
of the transitions the meetup evaluates in that cell.  (A list with gap-in-a columns in the middle row has a second
admissible cut, transition 2 in front of those columns; the meetup may return either.)
-/
namespace Kalign

def adjOK : Kind → List Col → Bool
  | _, [] => true
  | st, c :: cs => (c != .skip) && st.compat (colKind st c) && adjOK (colKind st c) cs

/-- the column consumes a residue of a -/
def Col.consA (c : Col) : Bool := c == .both || c == .gapB

theorem adjOK_append (st : Kind) (xs ys : List Col) :
    adjOK st (xs ++ ys) = (adjOK st xs && adjOK (lastKind st xs) ys) := by
  induction xs generalizing st with
  | nil => simp [adjOK, lastKind]
  | cons c xs ih => simp [adjOK, ih, lastKind, Bool.and_assoc]

theorem Kind.compat_symm (a b : Kind) : a.compat b = b.compat a := by cases a <;> cases b <;> rfl
theorem Kind.compat_A_left (b : Kind) : Kind.A.compat b = true := by cases b <;> rfl
theorem Kind.compat_A_right (b : Kind) : b.compat Kind.A = true := by cases b <;> rfl

theorem colKind_indep (st st' : Kind) (c : Col) (h : c ≠ .skip) : colKind st c = colKind st' c := by
  cases c <;> simp_all [colKind]

theorem lastKind_reverse (st : Kind) (xs : List Col) (h : Col.skip ∉ xs) :
    lastKind st xs.reverse = firstKind st xs := by
  cases xs with
  | nil => rfl
  | cons c xs =>
    simp only [List.reverse_cons, lastKind_append, firstKind]
    simp only [lastKind, List.foldl_cons, List.foldl_nil]
    exact colKind_indep _ _ _ (fun hc => h (by simp [hc]))

theorem adjOK_noskip (st : Kind) (xs : List Col) (h : adjOK st xs = true) : Col.skip ∉ xs := by
  induction xs generalizing st with
  | nil => simp
  | cons c xs ih =>
    simp only [adjOK, Bool.and_eq_true, bne_iff_ne, ne_eq] at h
    intro hm
    rcases List.mem_cons.mp hm with h' | h'
    · exact h.1.1 h'.symm
    · exact ih _ h.2 h'

/-- reversal: the chain of kinds read backwards, entered from `st'` -/
theorem adjOK_reverse (st st' : Kind) (xs : List Col) (h : adjOK st xs = true)
    (hc : (lastKind st xs).compat st' = true) : adjOK st' xs.reverse = true := by
  induction xs generalizing st with
  | nil => rfl
  | cons c xs ih =>
    simp only [adjOK, Bool.and_eq_true, bne_iff_ne, ne_eq] at h
    obtain ⟨⟨hs, _⟩, hrest⟩ := h
    have hlk : lastKind st (c :: xs) = lastKind (colKind st c) xs := rfl
    rw [hlk] at hc
    have ih' := ih (colKind st c) hrest hc
    rw [List.reverse_cons, adjOK_append, ih', Bool.true_and]
    simp only [adjOK, Bool.and_true, Bool.and_eq_true, bne_iff_ne, ne_eq]
    refine ⟨hs, ?_⟩
    rw [lastKind_reverse _ _ (adjOK_noskip _ _ hrest)]
    cases xs with
    | nil =>
      simp only [firstKind]
      simp only [lastKind, List.foldl_nil] at hc
      rw [Kind.compat_symm, colKind_indep st' st c hs]; exact hc
    | cons d xs =>
      simp only [firstKind]
      simp only [adjOK, Bool.and_eq_true, bne_iff_ne, ne_eq] at hrest
      have hd : d ≠ .skip := hrest.1.1
      rw [colKind_indep (colKind st' d) st c hs, colKind_indep st' (colKind st c) d hd, Kind.compat_symm]
      exact hrest.1.2

theorem consA_reverse (xs : List Col) : consA xs.reverse = consA xs := by
  simp [consA, List.filter_reverse]
theorem consB_reverse (xs : List Col) : consB xs.reverse = consB xs := by
  simp [consB, List.filter_reverse]

/-- a list that consumes no residue of b and no `skip` consists of gap-in-b columns -/
theorem first_gapB_of_consB_zero (c : Col) (cs : List Col) (h : consB (c :: cs) = 0) (hs : c ≠ .skip) : c = .gapB := by
  cases c <;> simp_all

theorem consA_pos_ne_nil {xs : List Col} (h : 1 ≤ consA xs) : xs ≠ [] := by
  intro hx; subst hx; simp at h

/-- **the forward kernel can walk a prefix** of a well-formed list that still has a row to consume afterwards -/
theorem walkOK_prefix (c : KCfg) (X rest : List Col) (p k : Nat) (st : Kind)
    (hadj : adjOK st (X ++ rest) = true) (hB : k + consB (X ++ rest) = c.n) (hrest : 1 ≤ consA rest) :
    walkOK c p k st X = true := by
  induction X generalizing p k st with
  | nil => rfl
  | cons col X ih =>
    simp only [List.cons_append, adjOK, Bool.and_eq_true, bne_iff_ne, ne_eq] at hadj
    obtain ⟨⟨hs, hcompat⟩, hadj'⟩ := hadj
    rw [List.cons_append, consB_cons] at hB
    simp only [walkOK, Bool.and_eq_true]
    refine ⟨?_, ih _ _ _ hadj' (by rw [stepK_eq k]; omega)⟩
    cases col with
    | skip => exact absurd rfl hs
    | both => simp [stepOK, stepK] at hB ⊢; omega
    | gapB =>
      simp only [stepOK, Bool.and_eq_true, decide_eq_true_eq, bne_iff_ne, ne_eq]
      refine ⟨by omega, ?_⟩
      intro h; subst h; simp [colKind, Kind.compat] at hcompat
    | gapA =>
      simp only [stepOK, Bool.and_eq_true, decide_eq_true_eq, bne_iff_ne, ne_eq, stepK] at hB ⊢
      refine ⟨?_, ?_⟩
      · -- the rest still consumes a residue of b, otherwise a gap-in-b column would follow this one
        have hne : X ++ rest ≠ [] := consA_pos_ne_nil (by rw [consA_append]; omega)
        cases hxr : X ++ rest with
        | nil => exact absurd hxr hne
        | cons d ds =>
          rw [hxr] at hadj' hB
          by_cases h0 : consB (d :: ds) = 0
          · simp only [adjOK, Bool.and_eq_true, bne_iff_ne, ne_eq] at hadj'
            have := first_gapB_of_consB_zero d ds h0 hadj'.1.1
            subst this
            simp [colKind, Kind.compat] at hadj'
          · omega
      · intro h; subst h; simp [colKind, Kind.compat] at hcompat

/-- split off the longest prefix that consumes `m1` rows -/
theorem split_rows (X : List Col) (m1 : Nat) (h : m1 < consA X) :
    ∃ X1 c X2, X = X1 ++ c :: X2 ∧ consA X1 = m1 ∧ c.consA = true := by
  induction X generalizing m1 with
  | nil => simp at h
  | cons d X ih =>
    by_cases hd : d.consA = true
    · cases m1 with
      | zero => exact ⟨[], d, X, rfl, rfl, hd⟩
      | succ m1 =>
        have : m1 < consA X := by
          cases d <;> simp_all [Col.consA]
        obtain ⟨X1, c, X2, h1, h2, h3⟩ := ih m1 this
        refine ⟨d :: X1, c, X2, by rw [h1]; rfl, ?_, h3⟩
        cases d <;> simp_all [Col.consA]
    · have : m1 < consA X := by
        cases d <;> simp_all [Col.consA]
      obtain ⟨X1, c, X2, h1, h2, h3⟩ := ih m1 this
      refine ⟨d :: X1, c, X2, by rw [h1]; rfl, ?_, h3⟩
      cases d <;> simp_all [Col.consA]

/-- transition code of a pair (kind before the cut, kind of the a-consuming column after it) -/
def tOf (x y : Kind) : Int :=
  match x, y with
  | .A, .A => 1 | .A, .GB => 3 | .GA, .A => 5 | .GB, .A => 7 | .GB, .GB => 6
  | _, _ => 0

/-- **every complete column list of the rectangle has an admissible cut** on the middle row -/
theorem cut_exists (cF cB : KCfg) (hnn : cB.n = cF.n) (fk bk : Kind) (X : List Col) (m1 m2 : Nat) (hm2 : 1 ≤ m2)
    (hadj : adjOK fk X = true) (hcompat : (lastKind fk X).compat bk = true)
    (hA : consA X = m1 + m2) (hB : consB X = cF.n) :
    ∃ X1 X2 t, X = X1 ++ X2 ∧ Adm cF.n (consB X1) t ∧
      walkOK cF 0 0 fk X1 = true ∧ consA X1 = m1 ∧ lastKind fk X1 = fkOf t ∧
      walkOK cB 0 0 bk X2.reverse = true ∧ consA X2 = m2 ∧ consB X1 + consB X2 = cF.n ∧
      lastKind bk X2.reverse = bkOf t := by
  obtain ⟨X1, c, X2', hX, hX1, hc⟩ := split_rows X m1 (by omega)
  have hskip := adjOK_noskip _ _ hadj
  rw [hX] at hadj hcompat hA hB hskip
  have hadj2 := hadj
  rw [adjOK_append, Bool.and_eq_true] at hadj2
  obtain ⟨hadj1, hadjX2⟩ := hadj2
  have hA2 : consA (c :: X2') = m2 := by rw [consA_append] at hA; omega
  have hB2 : consB X1 + consB (c :: X2') = cF.n := by rw [consB_append] at hB; exact hB
  have hcs : c ≠ .skip := fun h => hskip (by simp [h])
  have hskip2 : Col.skip ∉ c :: X2' := fun h => hskip (List.mem_append_right _ h)
  -- forward walk
  have hwF : walkOK cF 0 0 fk X1 = true :=
    walkOK_prefix cF X1 (c :: X2') 0 0 fk hadj (by simpa using hB) (by omega)
  -- backward walk: `X.reverse = X2'.reverse ++ c :: X1.reverse`
  have hrev : (X1 ++ c :: X2').reverse = X2'.reverse ++ c :: X1.reverse := by simp
  have hadjR : adjOK bk (X2'.reverse ++ c :: X1.reverse) = true := by
    rw [← hrev]; exact adjOK_reverse fk bk _ hadj hcompat
  have hlastR : lastKind bk (c :: X2').reverse = colKind bk c := by
    rw [lastKind_reverse _ _ hskip2]; rfl
  have hBr : consB (X2'.reverse ++ c :: X1.reverse) = cB.n := by
    rw [← hrev, consB_reverse, hnn]; exact hB
  have hwB : walkOK cB 0 0 bk (c :: X2').reverse = true := by
    rw [List.reverse_cons, walkOK_append, Bool.and_eq_true]
    refine ⟨walkOK_prefix cB X2'.reverse (c :: X1.reverse) 0 0 bk hadjR (by omega) ?_, ?_⟩
    · cases c <;> simp_all [Col.consA]
    · have hadjR2 := hadjR
      rw [adjOK_append, Bool.and_eq_true] at hadjR2
      have hstep := hadjR2.2
      simp only [adjOK, Bool.and_eq_true, bne_iff_ne, ne_eq] at hstep
      have hcnt : consB X2'.reverse + consB [c] ≤ cB.n := by
        rw [consB_append, consB_cons] at hBr
        have : consB [c] = stepK 0 c := by rw [consB_cons]; simp
        omega
      simp only [walkOK, Bool.and_true, Nat.zero_add]
      cases c with
      | skip => exact absurd rfl hcs
      | gapA => simp [Col.consA] at hc
      | both => simp [stepOK] at hcnt ⊢; omega
      | gapB =>
        simp only [stepOK, Bool.and_eq_true, decide_eq_true_eq, bne_iff_ne, ne_eq]
        refine ⟨by simp at hcnt; omega, ?_⟩
        intro h
        rw [h] at hstep
        simp [colKind, Kind.compat] at hstep
  -- the transition
  have hxy : (lastKind fk X1).compat (colKind (lastKind fk X1) c) = true := by
    simp only [adjOK, Bool.and_eq_true, bne_iff_ne, ne_eq] at hadjX2
    exact hadjX2.1.2
  refine ⟨X1, c :: X2', tOf (lastKind fk X1) (colKind bk c), hX, ?_, hwF, hX1, ?_, hwB, hA2, hB2, ?_⟩
  · -- admissible
    have hk : consB X1 ≤ cF.n := by omega
    cases c with
    | skip => exact absurd rfl hcs
    | gapA => simp [Col.consA] at hc
    | both =>
      left
      refine ⟨by simp at hB2; omega, ?_⟩
      cases lastKind fk X1 <;> simp [tOf, colKind]
    | gapB =>
      have hne : lastKind fk X1 ≠ .GA := by
        intro h; rw [h] at hxy; simp [colKind, Kind.compat] at hxy
      by_cases hlt : consB X1 < cF.n
      · left
        refine ⟨hlt, ?_⟩
        cases hl : lastKind fk X1 <;> simp_all [tOf, colKind]
      · right
        refine ⟨by omega, ?_⟩
        cases hl : lastKind fk X1 <;> simp_all [tOf, colKind]
  · cases c with
    | skip => exact absurd rfl hcs
    | gapA => simp [Col.consA] at hc
    | both => cases lastKind fk X1 <;> simp [tOf, colKind, fkOf]
    | gapB =>
      have hne : lastKind fk X1 ≠ .GA := by
        intro h; rw [h] at hxy; simp [colKind, Kind.compat] at hxy
      cases hl : lastKind fk X1 <;> simp_all [tOf, colKind, fkOf]
  · rw [hlastR]
    cases c with
    | skip => exact absurd rfl hcs
    | gapA => simp [Col.consA] at hc
    | both => cases lastKind fk X1 <;> simp [tOf, colKind, bkOf]
    | gapB =>
      have hne : lastKind fk X1 ≠ .GA := by
        intro h; rw [h] at hxy; simp [colKind, Kind.compat] at hxy
      cases hl : lastKind fk X1 <;> simp_all [tOf, colKind, bkOf]

end Kalign
