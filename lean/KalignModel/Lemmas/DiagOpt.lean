import KalignModel.Lemmas.ScoreRuns
import KalignModel.Lemmas.Score
/-!
# The diagonal of a sequence with itself against the reference score (C08 on top of C07)

* `two_subSum_le_margin`: the counting inequality of `Lemmas/Score.lean` with a margin `M` per gap column;
* `scoreST_le_upper`: the reference score charges every gap column at least `c = min(2·gpo, gpe, tgpe)`;
* `diag_margin`: if `sub x x + 2·c > M` for every residue and `2·sub x y ≤ sub x x + sub y y`, the diagonal beats every other
  valid column list without adjacent gap-in-a / gap-in-b runs by more than `M`.
-/
namespace Kalign

theorem two_subSum_le_margin (sub : Nat → Nat → Int) (c M : Int)
    (cs : List Col) (a b : List Nat) (hs : Col.skip ∉ cs)
    (ha : consA cs = a.length) (hb : consB cs = b.length)
    (h1a : ∀ x ∈ a, M ≤ sub x x + 2 * c) (h1b : ∀ y ∈ b, M ≤ sub y y + 2 * c)
    (h2 : ∀ x ∈ a, ∀ y ∈ b, 2 * sub x y ≤ sub x x + sub y y) :
    2 * subSum sub cs a b - 2 * (c * (gapCols cs : Int)) + M * (gapCols cs : Int) ≤ dSum sub a + dSum sub b := by
  induction cs generalizing a b with
  | nil =>
    cases a with
    | nil =>
      cases b with
      | nil => simp [subSum, dSum]
      | cons y b => simp at hb
    | cons x a => simp at ha
  | cons col cs ih =>
    have hs' : Col.skip ∉ cs := fun h => hs (List.mem_cons_of_mem _ h)
    cases col with
    | both =>
      cases a with
      | nil => simp at ha
      | cons x a =>
        cases b with
        | nil => simp at hb
        | cons y b =>
          rw [consA_both, List.length_cons] at ha
          rw [consB_both, List.length_cons] at hb
          have := ih a b hs' (by omega) (by omega)
            (fun z hz => h1a z (List.mem_cons_of_mem _ hz)) (fun z hz => h1b z (List.mem_cons_of_mem _ hz))
            (fun z hz w hw => h2 z (List.mem_cons_of_mem _ hz) w (List.mem_cons_of_mem _ hw))
          have h2' := h2 x List.mem_cons_self y List.mem_cons_self
          simp only [subSum, dSum, gapCols_both]
          omega
    | gapA =>
      cases b with
      | nil => simp at hb
      | cons y b =>
        rw [consA_gapA] at ha
        rw [consB_gapA, List.length_cons] at hb
        have := ih a b hs' ha (by omega) h1a (fun z hz => h1b z (List.mem_cons_of_mem _ hz))
          (fun z hz w hw => h2 z hz w (List.mem_cons_of_mem _ hw))
        have h1' := h1b y List.mem_cons_self
        simp only [subSum, dSum, gapCols_gapA, Int.natCast_add, Int.mul_add, Int.natCast_one, Int.mul_one]
        omega
    | gapB =>
      cases a with
      | nil => simp at ha
      | cons x a =>
        rw [consA_gapB, List.length_cons] at ha
        rw [consB_gapB] at hb
        have := ih a b hs' (by omega) hb (fun z hz => h1a z (List.mem_cons_of_mem _ hz)) h1b
          (fun z hz w hw => h2 z (List.mem_cons_of_mem _ hz) w hw)
        have h1' := h1a x List.mem_cons_self
        simp only [subSum, dSum, gapCols_gapB, Int.natCast_add, Int.mul_add, Int.natCast_one, Int.mul_one]
        omega
    | skip => exact absurd List.mem_cons_self hs

/-- gap-in-a and gap-in-b columns of a list -/
theorem gapCols_eq (cs : List Col) (hs : Col.skip ∉ cs) : gapCols cs + 2 * (cs.filter (· == .both)).length = consA cs + consB cs := by
  induction cs with
  | nil => rfl
  | cons c cs ih =>
    have := ih (fun h => hs (List.mem_cons_of_mem _ h))
    cases c with
    | skip => exact absurd List.mem_cons_self hs
    | both => simp; omega
    | gapA => simp; omega
    | gapB => simp; omega

/-- a valid column list for two sequences of equal length has an even number of gap columns -/
theorem gapCols_ge_two (cs : List Col) (n : Nat) (hv : ValidCols cs n n) (hne : cs ≠ diagCols n) : 2 ≤ gapCols cs := by
  obtain ⟨hs, ha, hb⟩ := hv
  have h0 : gapCols cs ≠ 0 := by
    intro hg
    apply hne
    have := eq_diag_of_gapCols_zero cs hs hg
    rw [ha] at this; exact this
  have := gapCols_eq cs hs
  omega

theorem gapCols_append (xs ys : List Col) : gapCols (xs ++ ys) = gapCols xs + gapCols ys := by
  simp [gapCols, List.filter_append]

theorem gapCols_replicate (n : Nat) (c : Col) : gapCols (List.replicate n c) = if c.isGap then n else 0 := by
  induction n with
  | zero => simp
  | succ n ih =>
    rw [List.replicate_succ]
    cases c <;> simp_all [Col.isGap] 

/-- every gap run costs at least `c` per column when `c ≤ 2·gpo`, `c ≤ gpe`, `c ≤ tgpe` -/
theorem runsCost_ge (gpo gpe tgpe c : Int) (hgpe : 0 ≤ gpe) (h1 : c ≤ 2 * gpo) (h2 : c ≤ gpe) (h3 : c ≤ tgpe) :
    ∀ (k : Nat) (cs : List Col) (first : Bool), cs.length ≤ k →
      c * (gapCols cs : Int) ≤ runsCost gpo gpe tgpe first (rle cs) := by
  intro k
  induction k with
  | zero =>
    intro cs first hlen
    have : cs = [] := List.eq_nil_of_length_eq_zero (by omega)
    subst this; simp [rle, runsCost]
  | succ k ih =>
    intro cs first hlen
    cases cs with
    | nil => simp [rle, runsCost]
    | cons d cs0 =>
      obtain ⟨n, cs', hn, hsplit, hrle, _⟩ := rle_cons d cs0
      have hlen' : cs'.length ≤ k := by
        have := congrArg List.length hsplit
        simp only [List.length_cons, List.length_append, List.length_replicate] at this hlen
        omega
      rw [hrle, hsplit, gapCols_append, gapCols_replicate]
      have ih' := ih cs' false hlen'
      simp only [runsCost]
      by_cases hg : d.isGap = true
      · simp only [hg, if_true, Int.natCast_add, Int.mul_add]
        have hrun : c * (n : Int) ≤ gapRunCost gpo gpe tgpe (first || (rle cs').isEmpty) n := by
          unfold gapRunCost
          have hn' : (1 : Int) ≤ n := by omega
          split
          · exact Int.mul_comm c n ▸ Int.mul_le_mul_of_nonneg_left h3 (by omega)
          · have e : (n : Int) = ((n : Int) - 1) + 1 := by omega
            have h4 : c * ((n : Int) - 1) ≤ ((n : Int) - 1) * gpe := by
              rw [Int.mul_comm]; exact Int.mul_le_mul_of_nonneg_left h2 (by omega)
            rw [e, Int.mul_add, Int.mul_one]
            have e2 : (n : Int) - 1 + 1 - 1 = (n : Int) - 1 := by omega
            rw [e2]
            omega
        omega
      · simp only [hg, Bool.false_eq_true, if_false, Nat.zero_add, Int.zero_add]
        omega

/-- the reference score is at most the most favourable reading `upperScore` with `c = min(2·gpo, gpe, tgpe)` -/
theorem scoreST_le_upper (sub : Nat → Nat → Int) (gpo gpe tgpe c : Int) (hgpe : 0 ≤ gpe)
    (h1 : c ≤ 2 * gpo) (h2 : c ≤ gpe) (h3 : c ≤ tgpe)
    (cs : List Col) (a b : List Nat) (hV : ValidCols cs a.length b.length) (hadj : adjOK .A cs = true) :
    scoreST sub gpo gpe tgpe cs a b ≤ upperScore sub c cs a b := by
  rw [scoreST_eq_runs sub gpo gpe tgpe cs a b hV hadj]
  unfold scoreSTruns upperScore
  have := runsCost_ge gpo gpe tgpe c hgpe h1 h2 h3 cs.length cs true (Nat.le_refl _)
  omega

/-! ## the diagonal -/

theorem adjOK_diag (n : Nat) (st : Kind) : adjOK st (diagCols n) = true := by
  induction n generalizing st with
  | zero => rfl
  | succ n ih =>
    rw [diagCols, List.replicate_succ]
    simp only [adjOK, colKind, Kind.compat_A_right, Bool.and_true, bne_iff_ne, ne_eq, reduceCtorEq, not_false_eq_true,
      decide_true, Bool.true_and]
    exact ih .A

theorem validCols_diag (n : Nat) : ValidCols (diagCols n) n n := by
  refine ⟨?_, ?_, ?_⟩
  · unfold diagCols; intro h; have := List.eq_of_mem_replicate h; simp at this
  · exact consA_replicate_both n
  · exact consB_replicate_both n

theorem rle_diag (n : Nat) : rle (diagCols (n + 1)) = [(.both, n + 1)] := by
  induction n with
  | zero => rfl
  | succ n ih =>
    have : diagCols (n + 1 + 1) = .both :: diagCols (n + 1) := by simp [diagCols, List.replicate_succ]
    rw [this]
    show (match rle (diagCols (n + 1)) with
      | (d, m) :: rest => if Col.both = d then (d, m + 1) :: rest else (Col.both, 1) :: (d, m) :: rest
      | [] => [(Col.both, 1)]) = _
    rw [ih]; rfl

theorem scoreST_diag (sub : Nat → Nat → Int) (gpo gpe tgpe : Int) (s : List Nat) :
    scoreST sub gpo gpe tgpe (diagCols s.length) s s = dSum sub s := by
  rw [scoreST_eq_runs sub gpo gpe tgpe _ s s (validCols_diag _) (adjOK_diag _ _)]
  unfold scoreSTruns
  rw [subSum_diag]
  cases s with
  | nil => simp [diagCols, rle, runsCost]
  | cons x s => rw [List.length_cons, rle_diag]; simp [runsCost, Col.isGap]

theorem nterm_diag (n : Nat) : nterm (diagCols n) = 0 := by
  cases n with
  | zero => rfl
  | succ n =>
    unfold nterm diagCols
    rw [List.getLast?_replicate]
    simp [List.replicate_succ, Col.isGap]

/-- **the diagonal beats every other alignment of a sequence with itself by more than `M`** -/
theorem diag_margin (sub : Nat → Nat → Int) (gpo gpe tgpe c M : Int) (hgpe : 0 ≤ gpe)
    (hc1 : c ≤ 2 * gpo) (hc2 : c ≤ gpe) (hc3 : c ≤ tgpe) (hM : 0 ≤ M)
    (s : List Nat) (h1 : ∀ x ∈ s, M < sub x x + 2 * c)
    (h2 : ∀ x ∈ s, ∀ y ∈ s, 2 * sub x y ≤ sub x x + sub y y)
    (Q : List Col) (hV : ValidCols Q s.length s.length) (hadj : adjOK .A Q = true) (hne : Q ≠ diagCols s.length) :
    scoreST sub gpo gpe tgpe Q s s + M < scoreST sub gpo gpe tgpe (diagCols s.length) s s := by
  have hup := scoreST_le_upper sub gpo gpe tgpe c hgpe hc1 hc2 hc3 Q s s hV hadj
  rw [scoreST_diag]
  have key := two_subSum_le_margin sub c (M + 1) Q s s hV.1 hV.2.1 hV.2.2 (fun x hx => by have := h1 x hx; omega)
    (fun x hx => by have := h1 x hx; omega) h2
  have hg := gapCols_ge_two Q s.length hV hne
  unfold upperScore at hup
  have hg' : (2 : Int) ≤ (gapCols Q : Int) := by omega
  have hmul : (M + 1) * 2 ≤ (M + 1) * (gapCols Q : Int) := Int.mul_le_mul_of_nonneg_left hg' (by omega)
  omega

end Kalign
