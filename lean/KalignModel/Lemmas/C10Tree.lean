import KalignModel.Lemmas.NoFaultRec
import KalignModel.Lemmas.NoFaultTree
import KalignModel.Lemmas.PipelineC10
/-!
# Every leaf of the guide tree is visited exactly once (for C10 at pipeline level, Props/C10Pipeline.lean)

* `upgma_leaves_nodup`: on pairwise distinct samples `upgma` returns a tree whose leaf list has no repetition (the active
  slots hold trees over pairwise disjoint sample sets; a join concatenates two of them and empties one slot).
* `bisectO_leaves_perm`: the bisecting k-means recursion on pairwise distinct samples returns a tree whose leaf list is a
  permutation of the samples (`GoodSplit.perm`: the two parts of a split are a permutation of the samples).
* `buildTasks_tree`: every table `buildTasks` returns is the sorted task table of a tree whose leaf list is a permutation
  of `0 … n-1`.
* `nodeVal_members`: on such a table, the member indices of the node `recursive_aln` completes for the labelled sub-tree
  `v` are a permutation of the leaves of `v`; hence `nodeVal_idx_nodup`: the members of every completed node are pairwise
  distinct.
-/
namespace Kalign

/-- the gap pattern of a woven row depends on the gap vector and the number of residues only (two residue types:
`gapPattern_makeLinear`, Lemmas/Pipeline.lean, is the one-type case) -/
theorem isSome_makeLinear {α β : Type} (s : List α) (s' : List β) (g : List Nat) (h : s.length = s'.length) :
    (makeLinear s g).map Option.isSome = (makeLinear s' g).map Option.isSome := by
  induction s generalizing s' g with
  | nil =>
    cases s' with
    | nil => cases g <;> simp [makeLinear]
    | cons _ _ => simp at h
  | cons x xs ih =>
    cases s' with
    | nil => simp at h
    | cons y ys =>
      have h' : xs.length = ys.length := by simpa using h
      cases g with
      | nil =>
        have e : ∀ {γ : Type} (l : List γ), l.map (Option.isSome ∘ some) = List.replicate l.length true := by
          intro γ l
          induction l with
          | nil => rfl
          | cons a l ihl => simp [ihl, List.replicate_succ]
        simp only [makeLinear, List.map_map]
        rw [e, e, h]
      | cons n ns =>
        simp only [makeLinear, List.map_append, List.map_cons, Option.isSome_some]
        rw [ih ys ns h']
        simp

/-! ## `upgma` -/

/-- the active slots hold trees without repeated leaves, over pairwise disjoint leaf sets -/
structure UNd (n : Nat) (s : UpgmaSt) : Prop where
  nd : ∀ i, i < n → ∀ t, s.tree.getD i none = some t → t.leaves.Nodup
  disj : ∀ i j, i < n → j < n → i ≠ j → ∀ ti tj, s.tree.getD i none = some ti → s.tree.getD j none = some tj →
    ∀ x, x ∈ ti.leaves → x ∉ tj.leaves

/-- what one round does to the slots: slot `a` receives the join of slots `a` and `b`, slot `b` is emptied -/
theorem upgmaRound_tree (n : Nat) (samples : List Nat) (k : Nat) (s s' : UpgmaSt) (h : UInv n samples k s)
    (hr : upgmaRound n s = some s') :
    ∃ a b ta tb, a < b ∧ b < n ∧ s.tree.getD a none = some ta ∧ s.tree.getD b none = some tb ∧
      ∀ i, s'.tree.getD i none = if i = b then none else if i = a then some (.node ta tb) else s.tree.getD i none := by
  have hfound : (scanMin n s.dm s.act).found = true := by
    cases hfd : (scanMin n s.dm s.act).found with
    | true => rfl
    | false => simp [upgmaRound, hfd] at hr
  obtain ⟨hab, hbn, haa, hab'⟩ := (scan_inv n s.dm s.act).ok hfound
  have han : (scanMin n s.dm s.act).a < n := by omega
  have hta := h.sync _ han
  have htb := h.sync _ hbn
  rw [haa] at hta
  rw [hab'] at htb
  obtain ⟨ta, hta'⟩ := Option.isSome_iff_exists.1 hta.symm
  obtain ⟨tb, htb'⟩ := Option.isSome_iff_exists.1 htb.symm
  unfold upgmaRound at hr
  simp only [hfound, Bool.not_true, Bool.false_eq_true, if_false, hta', htb', Option.some.injEq] at hr
  subst hr
  refine ⟨_, _, ta, tb, hab, hbn, hta', htb', ?_⟩
  intro i
  simp only
  rw [getD_setIfInBounds _ _ _ _ _ (by simp [h.tsize]; exact hbn),
    getD_setIfInBounds _ _ _ _ _ (by rw [h.tsize]; exact han)]

theorem upgmaRound_nd (n : Nat) (samples : List Nat) (k : Nat) (s s' : UpgmaSt) (h : UInv n samples k s)
    (hn : UNd n s) (hr : upgmaRound n s = some s') : UNd n s' := by
  obtain ⟨a, b, ta, tb, hab, hbn, hta, htb, htree⟩ := upgmaRound_tree n samples k s s' h hr
  have han : a < n := by omega
  have hne : a ≠ b := by omega
  have hjoin : (GTree.node ta tb).leaves.Nodup := by
    simp only [GTree.leaves]
    rw [List.nodup_append]
    refine ⟨hn.nd a han ta hta, hn.nd b hbn tb htb, ?_⟩
    intro x hx y hy e
    subst e
    exact hn.disj a b han hbn hne ta tb hta htb x hx hy
  refine ⟨?_, ?_⟩
  · intro i hi t ht
    rw [htree] at ht
    by_cases h2 : i = b
    · simp [h2] at ht
    · by_cases h1 : i = a
      · subst h1
        simp only [hne, if_false, if_true, Option.some.injEq] at ht
        subst ht
        exact hjoin
      · simp only [h2, if_false, h1] at ht
        exact hn.nd i hi t ht
  · intro i j hi hj hij ti tj hti htj x hxi hxj
    rw [htree] at hti htj
    by_cases hib : i = b
    · simp [hib] at hti
    · by_cases hjb : j = b
      · simp [hjb] at htj
      · simp only [hib, hjb, if_false] at hti htj
        by_cases hia : i = a
        · have hja : j ≠ a := fun e => hij (hia.trans e.symm)
          simp only [hia, if_true, Option.some.injEq] at hti
          simp only [hja, if_false] at htj
          subst hti
          simp only [GTree.leaves, List.mem_append] at hxi
          rcases hxi with hx | hx
          · exact hn.disj a j han hj (fun e => hja e.symm) ta tj hta htj x hx hxj
          · exact hn.disj b j hbn hj (fun e => hjb e.symm) tb tj htb htj x hx hxj
        · simp only [hia, if_false] at hti
          by_cases hja : j = a
          · simp only [hja, if_true, Option.some.injEq] at htj
            subst htj
            simp only [GTree.leaves, List.mem_append] at hxj
            rcases hxj with hx | hx
            · exact hn.disj i a hi han hia ti ta hti hta x hxi hx
            · exact hn.disj i b hi hbn hib ti tb hti htb x hxi hx
          · simp only [hja, if_false] at htj
            exact hn.disj i j hi hj hij ti tj hti htj x hxi hxj

theorem upgmaInit_nd (dm : List (List Float32)) (samples : List Nat) (hnd : samples.Nodup) :
    UNd samples.length (upgmaInit dm samples) := by
  have e : ∀ i (hi : i < samples.length), (upgmaInit dm samples).tree.getD i none = some (.leaf samples[i]) := by
    intro i hi
    simp [upgmaInit, Array.getD, hi]
  refine ⟨?_, ?_⟩
  · intro i hi t ht
    rw [e i hi] at ht
    simp only [Option.some.injEq] at ht
    subst ht
    simp [GTree.leaves]
  · intro i j hi hj hij ti tj hti htj x hxi hxj
    rw [e i hi] at hti
    rw [e j hj] at htj
    simp only [Option.some.injEq] at hti htj
    subst hti
    subst htj
    simp only [GTree.leaves, List.mem_singleton] at hxi hxj
    exact hij ((List.getElem_inj hnd).1 (hxi.symm.trans hxj))

theorem upgma_rounds_nd (dm : List (List Float32)) (samples : List Nat) (hn : samples.length ≠ 0) (hnd : samples.Nodup) :
    ∀ k s, iterOpt (upgmaRound samples.length) k (upgmaInit dm samples) = some s → UNd samples.length s := by
  intro k
  induction k with
  | zero =>
    intro s hs
    simp only [iterOpt, Option.some.injEq] at hs
    subst hs
    exact upgmaInit_nd dm samples hnd
  | succ k ih =>
    intro s' hs'
    rw [iterOpt_succ_right] at hs'
    cases hk : iterOpt (upgmaRound samples.length) k (upgmaInit dm samples) with
    | none => rw [hk] at hs'; cases hs'
    | some s =>
      rw [hk, Option.bind_some] at hs'
      exact upgmaRound_nd samples.length samples k s s' (upgma_rounds_pc dm samples hn k s hk) (ih s hk) hs'

/-- **on pairwise distinct samples every tree `upgma` returns has pairwise distinct leaves** (any matrix) -/
theorem upgma_leaves_nodup (dm : List (List Float32)) (samples : List Nat) (t : GTree) (hnd : samples.Nodup)
    (h : upgma dm samples = some t) : t.leaves.Nodup := by
  have hn : samples.length ≠ 0 := by
    intro h0
    simp [upgma, h0] at h
  rw [upgma_eq dm samples hn] at h
  cases hk : iterOpt (upgmaRound samples.length) (samples.length - 1) (upgmaInit dm samples) with
  | none => rw [hk] at h; cases h
  | some s =>
    rw [hk, Option.bind_some] at h
    have hinv := upgma_rounds_pc dm samples hn _ s hk
    exact (upgma_rounds_nd dm samples hn hnd _ s hk).nd s.last hinv.last.1 t h

namespace Pipeline
open Kalign.Kmeans Kalign.Sched

/-! ## the guide tree -/

theorem smallTree_leaves_perm (codes : Array (List Nat)) (samples : List Nat) (t : Tree) (hnd : samples.Nodup)
    (h : smallTree codes samples = some t) : t.leaves.Perm samples := by
  have hmem := smallTree_leaves codes samples t h
  refine (List.perm_ext_iff_of_nodup ?_ hnd).2 hmem
  unfold smallTree at h
  cases hd : distMatrix (samples.map fun s => codes.getD s []) with
  | none => rw [hd] at h; cases h
  | some dm =>
    rw [hd, Option.bind_some] at h
    cases hu : upgma dm samples with
    | none => rw [hu] at h; cases h
    | some g =>
      rw [hu] at h
      simp only [Option.map_some, Option.some.injEq] at h
      subst h
      rw [GTree.leaves_toTree]
      exact upgma_leaves_nodup dm samples g hnd hu

/-- **`bisecting_kmeans` on pairwise distinct samples: the leaf list of a returned tree is a permutation of the samples** -/
theorem bisectO_leaves_perm (avx : Bool) (dm : Array (Array Float32)) (na : Nat) (small : List Nat → Option Tree)
    (hsmall : ∀ l t, l.Nodup → small l = some t → t.leaves.Perm l) :
    ∀ (fuel : Nat) (samples : List Nat) (t : Tree), samples.Nodup → bisectO avx dm na small fuel samples = .ok t →
      t.leaves.Perm samples := by
  intro fuel
  induction fuel with
  | zero =>
    intro samples t hnd h
    unfold bisectO at h
    split at h
    · cases hs : small samples with
      | none => rw [hs] at h; cases h
      | some t' =>
        rw [hs] at h
        simp only [Except.ok.injEq] at h
        subst h
        exact hsmall samples t' hnd hs
    · cases h
  | succ fuel ih =>
    intro samples t hnd h
    unfold bisectO at h
    split at h
    · cases hs : small samples with
      | none => rw [hs] at h; cases h
      | some t' =>
        rw [hs] at h
        simp only [Except.ok.injEq] at h
        subst h
        exact hsmall samples t' hnd hs
    · simp only at h
      cases hb : bestSplit avx dm na samples with
      | none => rw [hb] at h; cases h
      | some b =>
        rw [hb] at h
        simp only at h
        have hg := bestSplit_good hb
        cases hl : bisectO avx dm na small fuel b.sl with
        | error e => rw [hl] at h; cases h
        | ok l =>
          cases hr : bisectO avx dm na small fuel b.sr with
          | error e => rw [hl, hr] at h; cases h
          | ok r =>
            rw [hl, hr] at h
            simp only [Except.ok.injEq] at h
            subst h
            simp only [Tree.leaves]
            exact ((ih b.sl l (hg.subl.nodup hnd) hl).append (ih b.sr r (hg.subr.nodup hnd) hr)).trans hg.perm

/-- **every table `buildTasks` returns is the sorted task table of a tree whose leaves are `0 … n-1`, each once** -/
theorem buildTasks_tree (avx : Bool) (codes : Array (List Nat)) (tasks : Array (Nat × Nat × Nat))
    (h : buildTasks avx codes = .ok tasks) :
    ∃ T : Tree, tasks = (Kmeans.sortTasks (treeTasks T codes.size)).toArray ∧ T.leaves.Perm (List.range codes.size) := by
  unfold buildTasks at h
  simp only at h
  split at h
  · cases h
  · rename_i anchors _
    split at h
    · cases h
    · rename_i dm _
      split at h
      · cases h
      · cases h
      · rename_i t ht
        simp only [Except.ok.injEq] at h
        exact ⟨t, h.symm, bisectO_leaves_perm avx dm anchors.length (smallTree codes)
          (fun l t hnd hs => smallTree_leaves_perm codes l t hnd hs) _ _ t List.nodup_range ht⟩

/-! ## the members of a completed node are the leaves below it -/

theorem mergeNodes_idx {entry : Entry} {ap : AlnParam Float32} {A B N : Node} {isLast : Bool}
    (h : mergeNodes entry ap A B isLast = .ok N) :
    N.group.map (·.idx) = (A.group.map (·.idx)).reverse ++ (B.group.map (·.idx)).reverse := by
  unfold mergeNodes at h
  simp only at h
  split at h
  · cases h
  · split at h
    · cases h
    · split at h
      · cases h
      · simp only [Except.ok.injEq] at h
        subst h
        exact mergeGroups_idx _ _ _

theorem LTree_leaf_sub {t : Sched.LTree} {i : Nat} (h : i ∈ t.leaves) : Sched.LTree.Sub (.leaf i) t := by
  induction t with
  | leaf j =>
    simp only [Sched.LTree.leaves, List.mem_singleton] at h
    subst h
    exact .refl _
  | node c l r ihl ihr =>
    simp only [Sched.LTree.leaves, List.mem_append] at h
    rcases h with h | h
    · exact .left (ihl h)
    · exact .right (ihr h)

theorem LTree_iid_sub {t : Sched.LTree} {c : Nat} (h : c ∈ Kmeans.LTree.iids t) :
    ∃ l r, Sched.LTree.Sub (.node c l r) t := by
  induction t with
  | leaf j => simp [Kmeans.LTree.iids] at h
  | node c' l r ihl ihr =>
    simp only [Kmeans.LTree.iids, List.mem_append, List.mem_singleton] at h
    rcases h with (h | h) | h
    · obtain ⟨l', r', hs⟩ := ihl h
      exact ⟨l', r', .left hs⟩
    · obtain ⟨l', r', hs⟩ := ihr h
      exact ⟨l', r', .right hs⟩
    · subst h
      exact ⟨l, r, .refl _⟩

/-- **the member indices of the node completed for the labelled sub-tree `v` are a permutation of the leaves of `v`** —
for every recursion budget and whatever the merges return -/
theorem nodeVal_members (ap : AlnParam Float32) (T : Tree) (codes : Array (List Nat))
    (hleaves : ∀ i ∈ T.leaves, i < codes.size) :
    ∀ v : Sched.LTree, Sched.LTree.Sub v (label T codes.size) → ∀ (fuel : Nat) (N : Node),
      nodeVal ap (Kmeans.sortTasks (treeTasks T codes.size)).toArray codes codes.size fuel v.id = .ok N →
      (N.group.map (·.idx)).Perm v.leaves := by
  intro v
  induction v with
  | leaf i =>
    intro hsub fuel N h
    have hi : i < codes.size := by
      apply hleaves
      rw [← (labelFrom_spec T codes.size).2.1]
      exact LTree_Sub_leaves_subset hsub i (by simp [Sched.LTree.leaves])
    simp only [Sched.LTree.id] at h
    unfold nodeVal at h
    rw [if_neg (by omega), if_pos hi] at h
    simp only [Except.ok.injEq] at h
    subst h
    simp [leafNode, Sched.LTree.leaves]
  | node c l r ihl ihr =>
    intro hsub fuel N h
    obtain ⟨hc1, hc2, hget⟩ := sortedTasks_get T codes.size hsub
    have hsl : Sched.LTree.Sub l (label T codes.size) := LTree_Sub_trans (.left (.refl l)) hsub
    have hsr : Sched.LTree.Sub r (label T codes.size) := LTree_Sub_trans (.right (.refl r)) hsub
    have hget' : (Kmeans.sortTasks (treeTasks T codes.size)).toArray[c - codes.size]? = some (l.id, r.id, c) := by
      simpa using hget
    simp only [Sched.LTree.id] at h
    cases fuel with
    | zero =>
      unfold nodeVal at h
      rw [if_pos hc1] at h
      simp [recAln] at h
    | succ f =>
      obtain ⟨A, B, hA, hB, hm⟩ := nodeVal_succ hc1 hget' h
      rw [mergeNodes_idx hm]
      simp only [Sched.LTree.leaves]
      exact ((List.reverse_perm _).trans (ihl hsl f A hA)).append ((List.reverse_perm _).trans (ihr hsr f B hB))

/-- every node number `recursive_aln` can be asked for — a leaf `x < n` or a task `x - n` of the table — is the number of
a node of the labelled guide tree -/
theorem nodeVal_node (ap : AlnParam Float32) (T : Tree) (codes : Array (List Nat))
    (hl : ∀ x, x ∈ T.leaves ↔ x < codes.size) (fuel x : Nat) (N : Node)
    (h : nodeVal ap (Kmeans.sortTasks (treeTasks T codes.size)).toArray codes codes.size fuel x = .ok N) :
    ∃ v, Sched.LTree.Sub v (label T codes.size) ∧ v.id = x := by
  by_cases hx : x < codes.size
  · refine ⟨.leaf x, LTree_leaf_sub ?_, rfl⟩
    show x ∈ (labelFrom T codes.size).1.leaves
    rw [(labelFrom_spec T codes.size).2.1]
    exact (hl x).2 hx
  · unfold nodeVal at h
    rw [if_pos (by omega)] at h
    cases fuel with
    | zero => simp [recAln] at h
    | succ f =>
      unfold recAln at h
      cases ht : (Kmeans.sortTasks (treeTasks T codes.size)).toArray[x - codes.size]? with
      | none => rw [ht] at h; cases h
      | some tk =>
        have hlt : x - codes.size < Kmeans.Tree.nint T := by
          have := (Array.getElem?_eq_some_iff.1 ht).1
          simpa [length_sortTasks] using this
        have hmem : x ∈ Kmeans.LTree.iids (label T codes.size) := by
          show x ∈ Kmeans.LTree.iids (labelFrom T codes.size).1
          rw [(labelFrom_iids T codes.size).1, List.mem_range'_1]
          omega
        obtain ⟨l, r, hs⟩ := LTree_iid_sub hmem
        exact ⟨_, hs, rfl⟩

theorem LTree_Sub_leaves_nodup {v t : Sched.LTree} (h : Sched.LTree.Sub v t) (hnd : t.leaves.Nodup) : v.leaves.Nodup := by
  induction h with
  | refl => exact hnd
  | left _ ih =>
    simp only [Sched.LTree.leaves] at hnd
    exact ih (List.nodup_append.1 hnd).1
  | right _ ih =>
    simp only [Sched.LTree.leaves] at hnd
    exact ih (List.nodup_append.1 hnd).2.1

/-- the members of every node `recursive_aln` completes on the sorted task table of a tree over the leaves `0 … n-1`
(each once) carry pairwise distinct input indices -/
theorem nodeVal_idx_nodup_tree (ap : AlnParam Float32) (T : Tree) (codes : Array (List Nat))
    (hperm : T.leaves.Perm (List.range codes.size)) {fuel x : Nat} {N : Node}
    (h : nodeVal ap (Kmeans.sortTasks (treeTasks T codes.size)).toArray codes codes.size fuel x = .ok N) :
    (N.group.map (·.idx)).Nodup := by
  have hl : ∀ x, x ∈ T.leaves ↔ x < codes.size := fun x => by rw [hperm.mem_iff, List.mem_range]
  obtain ⟨v, hsub, rfl⟩ := nodeVal_node ap T codes hl fuel x N h
  have hp := nodeVal_members ap T codes (fun i hi => (hl i).1 hi) v hsub fuel N h
  refine hp.nodup_iff.2 (LTree_Sub_leaves_nodup hsub ?_)
  show (labelFrom T codes.size).1.leaves.Nodup
  rw [(labelFrom_spec T codes.size).2.1]
  exact hperm.nodup_iff.2 List.nodup_range

/-- **the missing lemma of `recAln_subalignment_finalRow_partial`**: on a task table returned by `buildTasks` (for as many
sequences as `codes` holds) the members of every node `recursive_aln` completes carry pairwise distinct input indices -/
theorem nodeVal_idx_nodup {avx : Bool} {codes1 : Array (List Nat)} {tasks : Array (Nat × Nat × Nat)}
    (hb : buildTasks avx codes1 = .ok tasks) (ap : AlnParam Float32) (codes : Array (List Nat))
    (hsz : codes.size = codes1.size) {fuel x : Nat} {N : Node}
    (h : nodeVal ap tasks codes codes.size fuel x = .ok N) : (N.group.map (·.idx)).Nodup := by
  obtain ⟨T, rfl, hperm⟩ := buildTasks_tree avx codes1 tasks hb
  rw [← hsz] at hperm h
  exact nodeVal_idx_nodup_tree ap T codes hperm h

/-- on such a table the root holds every input sequence exactly once -/
theorem root_members_perm {avx : Bool} {codes1 : Array (List Nat)} {tasks : Array (Nat × Nat × Nat)}
    (hb : buildTasks avx codes1 = .ok tasks) (ap : AlnParam Float32) (codes : Array (List Nat))
    (hsz : codes.size = codes1.size) (h2 : 2 ≤ codes.size) {fuel : Nat} {R : Node}
    (h : recAln ap tasks codes codes.size fuel (tasks.size - 1) = .ok R) :
    (R.group.map (·.idx)).Perm (List.range codes.size) := by
  obtain ⟨T, rfl, hperm⟩ := buildTasks_tree avx codes1 tasks hb
  rw [← hsz] at hperm h
  have hl : ∀ x, x ∈ T.leaves ↔ x < codes.size := fun x => by rw [hperm.mem_iff, List.mem_range]
  cases T with
  | leaf i =>
    have h0 := (hl 0).2 (by omega)
    have h1 := (hl 1).2 (by omega)
    simp only [Tree.leaves, List.mem_singleton] at h0 h1
    omega
  | node l r =>
    obtain ⟨L, Rt, hroot⟩ := label_node l r codes.size
    have hsize : (Kmeans.sortTasks (treeTasks (.node l r) codes.size)).toArray.size = Kmeans.Tree.nint (.node l r) := by
      simp [length_sortTasks]
    have hpos : 1 ≤ Kmeans.Tree.nint (.node l r) := by simp [Kmeans.Tree.nint]
    have hv : nodeVal ap (Kmeans.sortTasks (treeTasks (.node l r) codes.size)).toArray codes codes.size fuel
        (Sched.LTree.node (codes.size + Kmeans.Tree.nint (.node l r) - 1) L Rt).id = .ok R := by
      simp only [Sched.LTree.id]
      unfold nodeVal
      rw [if_pos (by omega)]
      rw [hsize] at h
      rw [show codes.size + Kmeans.Tree.nint (.node l r) - 1 - codes.size = Kmeans.Tree.nint (.node l r) - 1 by omega]
      exact h
    have hp := nodeVal_members ap (.node l r) codes (fun i hi => (hl i).1 hi) _ (hroot ▸ .refl _) fuel R hv
    refine hp.trans ?_
    rw [← hroot]
    show (labelFrom (.node l r) codes.size).1.leaves.Perm _
    rw [(labelFrom_spec (.node l r) codes.size).2.1]
    exact hperm

end Pipeline
end Kalign
