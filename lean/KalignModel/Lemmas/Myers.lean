import KalignModel.Lemmas.Sellers
/-!
# Myers/Hyyrö bit-parallel step: delta encoding of a DP column

`cellV/cellH` : the DP recurrence on differences; `cell_rule` : the generic DP satisfies it;
`Enc P M v`   : words `P`,`M` hold the +1 / -1 positions of the differences `v 0 … v (w-1)`;
`block_step`  : `advanceBlock` maps the encoding of the vertical differences of a column to that of the next
column and returns the horizontal difference below the block (width-generic: no `bv_decide`, the carry chain of
the addition is followed bit by bit with `BitVec.carry`).
-/
namespace Kalign

/-! ## (ii) the cell rule on differences -/

def cellMin (dv dh : Int) (e : Bool) : Int := min (min (dh + 1) (dv + 1)) (if e then 0 else 1)
/-- new vertical difference `D(i+1,j+1) - D(i,j+1)` -/
def cellV (dv dh : Int) (e : Bool) : Int := cellMin dv dh e - dh
/-- horizontal difference one row further down `D(i+1,j+1) - D(i+1,j)` -/
def cellH (dv dh : Int) (e : Bool) : Int := cellMin dv dh e - dv

/-- vertical difference of the generic DP -/
def dV (init : Nat → Nat) (eq : Nat → Nat → Bool) (j i : Nat) : Int := (gD init eq j (i + 1) : Int) - gD init eq j i
/-- horizontal difference of the generic DP -/
def dH (init : Nat → Nat) (eq : Nat → Nat → Bool) (j i : Nat) : Int := (gD init eq (j + 1) i : Int) - gD init eq j i

theorem cell_rule (init : Nat → Nat) (eq : Nat → Nat → Bool) (j i : Nat) :
    dV init eq (j + 1) i = cellV (dV init eq j i) (dH init eq j i) (eq i j) ∧
    dH init eq j (i + 1) = cellH (dV init eq j i) (dH init eq j i) (eq i j) := by
  simp only [dV, dH, cellV, cellH, cellMin]
  rw [show gD init eq (j + 1) (i + 1) = min3 (gD init eq (j + 1) i + 1) (gD init eq j (i + 1) + 1)
        (gD init eq j i + if eq i j then 0 else 1) by rw [gD]]
  simp only [min3]
  cases eq i j <;> simp <;> omega

theorem dH_zero (init : Nat → Nat) (eq : Nat → Nat → Bool) (j : Nat) : dH init eq j 0 = 0 := by
  simp [dH, gD]

def Tri (x : Int) : Prop := x = -1 ∨ x = 0 ∨ x = 1

theorem cellV_tri {dv dh : Int} (e : Bool) (hv : Tri dv) (hh : Tri dh) : Tri (cellV dv dh e) := by
  rcases hv with rfl | rfl | rfl <;> rcases hh with rfl | rfl | rfl <;> cases e <;> (simp only [cellV, cellMin, Tri]; decide)

theorem cellH_tri {dv dh : Int} (e : Bool) (hv : Tri dv) (hh : Tri dh) : Tri (cellH dv dh e) := by
  rcases hv with rfl | rfl | rfl <;> rcases hh with rfl | rfl | rfl <;> cases e <;> (simp only [cellH, cellMin, Tri]; decide)

/-- all differences of the generic DP are in `{-1,0,1}` as soon as those of the initial column are -/
theorem deltas_tri (init : Nat → Nat) (eq : Nat → Nat → Bool)
    (h0 : ∀ i, Tri ((init (i + 1) : Int) - init i)) (j i : Nat) :
    Tri (dV init eq j i) ∧ Tri (dH init eq j i) := by
  induction j generalizing i with
  | zero =>
    have hv : ∀ i, Tri (dV init eq 0 i) := fun i => by simpa [dV, gD] using h0 i
    induction i with
    | zero => exact ⟨hv 0, by rw [dH_zero]; exact Or.inr (Or.inl rfl)⟩
    | succ i ih => exact ⟨hv _, by rw [(cell_rule init eq 0 i).2]; exact cellH_tri _ ih.1 ih.2⟩
  | succ j ihj =>
    induction i with
    | zero =>
      exact ⟨by rw [(cell_rule init eq j 0).1]; exact cellV_tri _ (ihj 0).1 (ihj 0).2,
             by rw [dH_zero]; exact Or.inr (Or.inl rfl)⟩
    | succ i ih =>
      exact ⟨by rw [(cell_rule init eq j (i + 1)).1]; exact cellV_tri _ (ihj _).1 (ihj _).2,
             by rw [(cell_rule init eq (j + 1) i).2]; exact cellH_tri _ ih.1 ih.2⟩

/-! ## (iii) one block step -/

/-- `P`,`M` mark the rows `i < w` whose difference `v i` is `+1` / `-1` -/
def Enc {w : Nat} (P M : BitVec w) (v : Nat → Int) : Prop :=
  ∀ i, i < w → Tri (v i) ∧ P.getLsbD i = decide (v i = 1) ∧ M.getLsbD i = decide (v i = -1)

/-- horizontal differences down a block: `refH 0 = hIn` (above the block), `refH (i+1)` below row `i` -/
def refH (v : Nat → Int) (e : Nat → Bool) (hIn : Int) : Nat → Int
  | 0 => hIn
  | i + 1 => cellH (v i) (refH v e hIn i) (e i)

/-- vertical differences of the next column -/
def refV (v : Nat → Int) (e : Nat → Bool) (hIn : Int) (i : Nat) : Int := cellV (v i) (refH v e hIn i) (e i)

theorem refH_tri (v : Nat → Int) (e : Nat → Bool) (hIn : Int) (w : Nat) (hv : ∀ i, i < w → Tri (v i)) (hh : Tri hIn)
    (i : Nat) (hi : i ≤ w) : Tri (refH v e hIn i) := by
  induction i with
  | zero => exact hh
  | succ i ih => exact cellH_tri _ (hv i (by omega)) (ih (by omega))

/-- Boolean form of `cellH`: `-1` iff `dv = 1 ∧ (e ∨ dh = -1)`; `+1` iff `dv = -1 ∨ (dv ≠ 1 ∧ ¬(e ∨ dh = -1))` -/
theorem cellH_bits {dv dh : Int} (e : Bool) (hv : Tri dv) (hh : Tri dh) :
    decide (cellH dv dh e = -1) = (decide (dv = 1) && (e || decide (dh = -1))) ∧
    decide (cellH dv dh e = 1) = (decide (dv = -1) || !((e || decide (dh = -1)) || decide (dv = 1))) := by
  rcases hv with rfl | rfl | rfl <;> rcases hh with rfl | rfl | rfl <;> cases e <;> (simp only [cellH, cellMin]; decide)

theorem cellV_bits {dv dh : Int} (e : Bool) (hv : Tri dv) (hh : Tri dh) :
    decide (cellV dv dh e = -1) = (decide (dh = 1) && (e || decide (dv = -1))) ∧
    decide (cellV dv dh e = 1) = (decide (dh = -1) || !((e || decide (dv = -1)) || decide (dh = 1))) := by
  rcases hv with rfl | rfl | rfl <;> rcases hh with rfl | rfl | rfl <;> cases e <;> (simp only [cellV, cellMin]; decide)

section block
variable {w : Nat} (Pv Mv Eq : BitVec w) (hIn : Int) (v : Nat → Int) (e : Nat → Bool)

/-- the word `Eq` with the carry-in `hIn < 0` or-ed into bit 0 -/
def eqIn : BitVec w := if hIn < 0 then Eq ||| 1#w else Eq
def xhWord : BitVec w := (((eqIn Eq hIn &&& Pv) + Pv) ^^^ Pv) ||| eqIn Eq hIn

theorem getLsbD_one' (i : Nat) (hi : i < w) : (1#w).getLsbD i = decide (i = 0) := by
  simp [BitVec.getLsbD_one]; omega

theorem getLsbD_shl1_succ (x : BitVec w) (i : Nat) (hi : i + 1 < w) : (x <<< 1).getLsbD (i + 1) = x.getLsbD i := by
  rw [BitVec.getLsbD_shiftLeft]; simp [hi]

theorem getLsbD_shl1_zero (x : BitVec w) : (x <<< 1).getLsbD 0 = false := by
  rw [BitVec.getLsbD_shiftLeft]; simp

theorem getLsbD_or_one_succ (x : BitVec w) (i : Nat) (hi : i + 1 < w) :
    (x ||| 1#w).getLsbD (i + 1) = x.getLsbD (i + 1) := by
  rw [BitVec.getLsbD_or, getLsbD_one' _ hi]; simp

theorem getLsbD_or_one_zero (x : BitVec w) (hw : 0 < w) : (x ||| 1#w).getLsbD 0 = true := by
  rw [BitVec.getLsbD_or, getLsbD_one' _ hw]; simp

theorem eqIn_bit (hE : ∀ i, i < w → Eq.getLsbD i = e i) (i : Nat) (hi : i < w) :
    (eqIn Eq hIn).getLsbD i = (e i || (decide (i = 0) && decide (hIn < 0))) := by
  unfold eqIn
  split
  · rename_i h; simp [getLsbD_one' i hi, hE i hi, h]
  · rename_i h; simp [hE i hi, h]

/-- bit `i` of `Xh` is the match bit or-ed with the carry into position `i` -/
theorem xh_bit (i : Nat) (hi : i < w) :
    (xhWord Pv Eq hIn).getLsbD i =
      ((eqIn Eq hIn).getLsbD i || BitVec.carry i (eqIn Eq hIn &&& Pv) Pv false) := by
  simp only [xhWord, BitVec.getLsbD_or, BitVec.getLsbD_xor, BitVec.getLsbD_add hi, BitVec.getLsbD_and]
  cases (eqIn Eq hIn).getLsbD i <;> cases Pv.getLsbD i <;> cases BitVec.carry i (eqIn Eq hIn &&& Pv) Pv false <;> rfl

/-- the carry out of position `i` is `Pv[i] ∧ Xh[i]` -/
theorem carry_succ_eq (i : Nat) (hi : i < w) :
    BitVec.carry (i + 1) (eqIn Eq hIn &&& Pv) Pv false = (Pv.getLsbD i && (xhWord Pv Eq hIn).getLsbD i) := by
  rw [BitVec.carry_succ, xh_bit Pv Eq hIn i hi, BitVec.getLsbD_and]
  cases (eqIn Eq hIn).getLsbD i <;> cases Pv.getLsbD i <;> cases BitVec.carry i (eqIn Eq hIn &&& Pv) Pv false <;> rfl

/-- the bits of `Xh`, `Ph = Mv | ~(Xh | Pv)`, `Mh = Pv & Xh` in terms of the reference differences -/
theorem xh_ph_mh (hEnc : Enc Pv Mv v) (hE : ∀ i, i < w → Eq.getLsbD i = e i) (hh : Tri hIn) (i : Nat) (hi : i < w) :
    (xhWord Pv Eq hIn).getLsbD i = (e i || decide (refH v e hIn i = -1)) ∧
    (Pv &&& xhWord Pv Eq hIn).getLsbD i = decide (refH v e hIn (i + 1) = -1) ∧
    (Mv ||| ~~~(xhWord Pv Eq hIn ||| Pv)).getLsbD i = decide (refH v e hIn (i + 1) = 1) := by
  have hx : (xhWord Pv Eq hIn).getLsbD i = (e i || decide (refH v e hIn i = -1)) := by
    induction i with
    | zero =>
      rw [xh_bit Pv Eq hIn 0 hi, eqIn_bit Eq hIn e hE 0 hi, BitVec.carry_zero]
      rcases hh with rfl | rfl | rfl <;> simp [refH]
    | succ i ih =>
      have hi' : i < w := by omega
      have ih := ih hi'
      rw [xh_bit Pv Eq hIn (i + 1) hi, eqIn_bit Eq hIn e hE (i + 1) hi, carry_succ_eq Pv Eq hIn i hi', ih]
      obtain ⟨hv, hP, _⟩ := hEnc i hi'
      have hb : decide (refH v e hIn (i + 1) = -1) = (decide (v i = 1) && (e i || decide (refH v e hIn i = -1))) :=
        (cellH_bits (e i) hv (refH_tri v e hIn w (fun k hk => (hEnc k hk).1) hh i (by omega))).1
      rw [hb, hP]
      simp
  obtain ⟨hv, hP, hM⟩ := hEnc i hi
  have hb : decide (refH v e hIn (i + 1) = -1) = (decide (v i = 1) && (e i || decide (refH v e hIn i = -1))) ∧
      decide (refH v e hIn (i + 1) = 1) =
        (decide (v i = -1) || !((e i || decide (refH v e hIn i = -1)) || decide (v i = 1))) :=
    cellH_bits (e i) hv (refH_tri v e hIn w (fun k hk => (hEnc k hk).1) hh i (by omega))
  refine ⟨hx, ?_, ?_⟩
  · simp only [BitVec.getLsbD_and, hx, hP]; rw [hb.1]
  · simp only [BitVec.getLsbD_or, BitVec.getLsbD_not, hi, hx, hP, hM, decide_true, Bool.true_and]; rw [hb.2]

/-- **one block step** (`advanceBlock` = the loop body of `bpm_block`): from the encoding of the vertical differences
of a column, the match word and the horizontal difference `hIn ∈ {-1,0,1}` above the block, it produces the
encoding of the vertical differences of the next column and the horizontal difference below the block.
(`Pv &&& Mv = 0` is part of `Enc`.) -/
theorem block_step (hw : 0 < w) (hEnc : Enc Pv Mv v) (hE : ∀ i, i < w → Eq.getLsbD i = e i) (hh : Tri hIn) :
    Enc (advanceBlock Pv Mv Eq hIn).1 (advanceBlock Pv Mv Eq hIn).2.1 (refV v e hIn) ∧
    (advanceBlock Pv Mv Eq hIn).2.2 = refH v e hIn w := by
  have key := xh_ph_mh Pv Mv Eq hIn v e hEnc hE hh
  have htri := refH_tri v e hIn w (fun k hk => (hEnc k hk).1) hh
  -- the shifted words with the carry-in
  have hMh' : ∀ i, i < w →
      (if hIn < 0 then ((Pv &&& xhWord Pv Eq hIn) <<< 1) ||| 1#w else (Pv &&& xhWord Pv Eq hIn) <<< 1).getLsbD i
        = decide (refH v e hIn i = -1) := by
    intro i hi
    cases i with
    | zero => rcases hh with rfl | rfl | rfl <;> simp [refH, hw]
    | succ i =>
      have h := (key i (by omega)).2.1
      split
      · rw [getLsbD_or_one_succ _ _ hi, getLsbD_shl1_succ _ _ hi, h]
      · rw [getLsbD_shl1_succ _ _ hi, h]
  have hPh' : ∀ i, i < w →
      (if hIn < 0 then (Mv ||| ~~~(xhWord Pv Eq hIn ||| Pv)) <<< 1
        else if hIn > 0 then ((Mv ||| ~~~(xhWord Pv Eq hIn ||| Pv)) <<< 1) ||| 1#w
        else (Mv ||| ~~~(xhWord Pv Eq hIn ||| Pv)) <<< 1).getLsbD i
        = decide (refH v e hIn i = 1) := by
    intro i hi
    cases i with
    | zero => rcases hh with rfl | rfl | rfl <;> simp [refH, hw]
    | succ i =>
      have h := (key i (by omega)).2.2
      split
      · rw [getLsbD_shl1_succ _ _ hi, h]
      · split
        · rw [getLsbD_or_one_succ _ _ hi, getLsbD_shl1_succ _ _ hi, h]
        · rw [getLsbD_shl1_succ _ _ hi, h]
  constructor
  · intro i hi
    obtain ⟨hv, hP, hM⟩ := hEnc i hi
    have hb := cellV_bits (e i) hv (htri i (by omega))
    refine ⟨cellV_tri _ hv (htri i (by omega)), ?_, ?_⟩
    · show (_ ||| ~~~((Eq ||| Mv) ||| _)).getLsbD i = _
      simp only [BitVec.getLsbD_or, BitVec.getLsbD_not, hi, decide_true, Bool.true_and]
      have h1 := hMh' i hi
      have h2 := hPh' i hi
      simp only [xhWord, eqIn] at h1 h2
      rw [h1, h2, hE i hi, hM, refV, hb.2]
    · show (_ &&& (Eq ||| Mv)).getLsbD i = _
      simp only [BitVec.getLsbD_and, BitVec.getLsbD_or]
      have h2 := hPh' i hi
      simp only [xhWord, eqIn] at h2
      rw [h2, hE i hi, hM, refV, hb.1]
  · show ((if (Mv ||| ~~~(_ ||| Pv)).getLsbD (w - 1) then (1 : Int) else 0) -
        (if (Pv &&& _).getLsbD (w - 1) then 1 else 0)) = _
    have h := key (w - 1) (by omega)
    simp only [xhWord, eqIn] at h
    rw [h.2.1, h.2.2, show w - 1 + 1 = w by omega]
    rcases htri w (Nat.le_refl _) with h | h | h <;> simp [h]

end block

end Kalign
