import KalignModel.Lemmas.HirschOpt6
import KalignModel.Model.Profile
/-!
# The profile kernels on profiles of identical copies are the sequence–sequence kernel with scaled parameters

`ProfOK prof seq k m gpo gpe tgpe s`: what the kernels read from the profile `prof` of `k` gap-free copies of `seq` prepared
(`set_gap_penalties_n`) against a group of `m` sequences: gap entries `−k·m·(gpo|gpe|tgpe)` in slots 27/28/29 of every
column, substitution entries `k·s(seq[i], c)` in slots `32+c`, residue counts `k` (i.e. `2000·k` on the exact carrier) in
slot `seq[i]` and 0 in the other count slots.

Under `ProfOK` the sequence–profile kernels (`spForward`, `spBackward`, `spMeetOps`; the group is the row dimension, the
single sequence the column dimension) and the profile–profile kernels are **cell by cell** the abstract kernel with all
penalties and substitution scores multiplied by `K = k·m` — for every start state and every rectangle inside the
operands.  The tie-break term of the meetup is *not* scaled.
-/
namespace Kalign

theorem oaddi_neg (x : Option Int) (g : Int) : oaddi x (-g) = osub x g := by
  cases x <;> simp [Int.sub_eq_add_neg]

theorem ex_add_neg (x : ExactScore) (g : Int) : Score.add x (some (-g) : ExactScore) = osub x g := by
  rw [ex_add_some, oaddi_neg]

theorem ex_mul_ofNat (g : Int) (k : Nat) : Score.mul (some g : ExactScore) (Score.ofNat k) = some (g * k) := by
  show some (g * (ExactScore.scale * (k : Int)) / ExactScore.scale) = some (g * k)
  congr 1
  unfold ExactScore.scale
  rw [show g * (2000 * (k : Int)) = 2000 * (g * k) by rw [Int.mul_left_comm]]
  exact Int.mul_ediv_cancel_left _ (by decide)

structure ProfOK (prof : Array ExactScore) (seq : Array Nat) (k m : Nat) (gpo gpe tgpe : Int) (s : Nat → Nat → Int) :
    Prop where
  g27 : ∀ col, col ≤ seq.size + 1 → pget prof col 27 = some (-((k * m : Nat) * gpo))
  g28 : ∀ col, col ≤ seq.size + 1 → pget prof col 28 = some (-((k * m : Nat) * gpe))
  g29 : ∀ col, col ≤ seq.size + 1 → pget prof col 29 = some (-((k * m : Nat) * tgpe))
  subE : ∀ i, i < seq.size → ∀ c, c < 23 → pget prof (i + 1) (32 + c) = some ((k : Int) * s (seq.getD i 0) c)
  cnt : ∀ i, i < seq.size → ∀ c, c < 23 →
    pget prof (i + 1) c = some (if c = seq.getD i 0 then 2000 * (k : Int) else 0)

/-- restricted congruence: only the rows that are evaluated matter -/
theorem genTab_congr_lt {α : Type} [Score α] (gaInit : Nat → α → α → α) (n : Nat) (start : States α)
    (opsAt opsAt' : Nat → RowOps α) (m : Nat) (h : ∀ p, p < m → (opsAt p).Agree (opsAt' p)) :
    ∀ p, p ≤ m → genTab gaInit n start opsAt p = genTab gaInit n start opsAt' p := by
  intro p
  induction p with
  | zero => intro _; rfl
  | succ p ih =>
    intro hp
    funext k
    simp only [genTab]
    rw [ih (by omega)]
    exact genRow_congr _ _ (h p (by omega)) n _ k

/-- a kernel whose row formulas agree with the abstract kernel on the rows it evaluates -/
theorem runKernel_eq_absTab (c : KCfg) (hn : 1 ≤ c.n) (gaInit : Nat → ExactScore → ExactScore → ExactScore)
    (hga : gaInit = absGaInit c) (opsAt : Nat → RowOps ExactScore) (m : Nat)
    (h : ∀ p, p < m → (opsAt p).Agree (absOps c p)) (start : States ExactScore) :
    runKernel gaInit c.n start ((List.range m).map opsAt) = (List.range (c.n + 1)).map (absTab c start m) := by
  rw [runKernel_eq_genTab _ _ hn, hga, genTab_congr_lt _ _ _ _ _ m h m (Nat.le_refl _)]
  rfl

/-- the scaled configuration of the forward / backward kernel -/
def cfgFK (K : Int) (gpo gpe tgpe : Int) (s : Nat → Nat → Int) (seq1 seq2 : Array Nat) (r : Rect) : KCfg :=
  cfgF (K * gpo) (K * gpe) (K * tgpe) (fun x y => K * s x y) seq1 seq2 r
def cfgBK (K : Int) (gpo gpe tgpe : Int) (s : Nat → Nat → Int) (seq1 seq2 : Array Nat) (r : Rect) : KCfg :=
  cfgB (K * gpo) (K * gpe) (K * tgpe) (fun x y => K * s x y) seq1 seq2 r

theorem profGb_eq (prof : Array ExactScore) (col : Nat) (K gpo gpe tgpe : Int)
    (h27 : pget prof col 27 = some (-(K * gpo))) (h28 : pget prof col 28 = some (-(K * gpe)))
    (h29 : pget prof col 29 = some (-(K * tgpe))) (t : Bool) :
    profGb prof col t = gGap t (K * gpo) (K * gpe) (K * tgpe) := by
  funext gb ca
  unfold profGb gGap
  rw [h27, h28, h29]
  simp only [ex_add_neg, ex_smax]

/-! ## sequence – profile -/

section sp
variable (ap : AlnParam ExactScore) (gpo gpe tgpe : Int) (s : Nat → Nat → Int) (hap : ApOK ap gpo gpe tgpe s)
  (prof : Array ExactScore) (seqA seq2 : Array Nat) (k : Nat)
  (hP : ProfOK prof seqA k 1 gpo gpe tgpe s) (h2 : ∀ j, seq2.getD j 0 < 23)

include hap in
theorem sp_pen : Score.mul ap.gpo (Score.ofNat k : ExactScore) = some ((k : Int) * gpo) ∧
    Score.mul ap.gpe (Score.ofNat k : ExactScore) = some ((k : Int) * gpe) ∧
    Score.mul ap.tgpe (Score.ofNat k : ExactScore) = some ((k : Int) * tgpe) := by
  rw [hap.gpo, hap.gpe, hap.tgpe, ex_mul_ofNat, ex_mul_ofNat, ex_mul_ofNat, Int.mul_comm gpo, Int.mul_comm gpe,
    Int.mul_comm tgpe]
  exact ⟨rfl, rfl, rfl⟩

include hP in
theorem sp_gaps (col : Nat) (hc : col ≤ seqA.size + 1) :
    pget prof col 27 = some (-((k : Int) * gpo)) ∧ pget prof col 28 = some (-((k : Int) * gpe)) ∧
      pget prof col 29 = some (-((k : Int) * tgpe)) := by
  have h1 := hP.g27 col hc
  have h2 := hP.g28 col hc
  have h3 := hP.g29 col hc
  simp only [Nat.mul_one] at h1 h2 h3
  exact ⟨h1, h2, h3⟩

include hap hP h2 in
theorem spForward_eq_absTab (r : Rect) (hb : r.startb < r.endb) (ha : r.enda ≤ seqA.size)
    (start : States ExactScore) :
    spForward ap prof seq2 k r start =
      (List.range (r.endb - r.startb + 1)).map
        (absTab (cfgFK k gpo gpe tgpe s seqA seq2 r) start (r.enda - r.starta)) := by
  obtain ⟨ho, he, ht⟩ := sp_pen ap gpo gpe tgpe s hap k
  unfold spForward
  simp only
  rw [ho, he, ht, List.range'_eq_map_range, List.map_map]
  refine runKernel_eq_absTab (cfgFK k gpo gpe tgpe s seqA seq2 r) (by show 1 ≤ r.endb - r.startb; omega) _ ?_ _ _ ?_ start
  · funext _ pga pa
    simp only [spGaInit, absGaInit, gGap, cfgFK, cfgF, ex_sub_some, ex_smax]
    rfl
  · intro p hp
    have hrow : r.starta + p < seqA.size := by omega
    obtain ⟨g1, g2, g3⟩ := sp_gaps gpo gpe tgpe s prof seqA k hP (r.starta + p + 1) (by omega)
    obtain ⟨g1', _, _⟩ := sp_gaps gpo gpe tgpe s prof seqA k hP (r.starta + p) (by omega)
    refine ⟨?_, ?_, ?_, ?_, ?_⟩
    · exact profGb_eq prof _ k gpo gpe tgpe g1 g2 g3 _
    · intro k'
      funext pa pga pgb
      have e : r.startb + (k' + 1) - 1 = r.startb + k' := by omega
      simp only [Function.comp, absOps, cfgFK, cfgF, Nat.add_sub_cancel, e]
      rw [g1', hP.subE (r.starta + p) hrow _ (h2 _)]
      simp only [gAl, ex_sub_some, ex_add_neg, ex_smax3, ex_add_some, oaddi_neg]
    · funext _ xga xa
      simp only [Function.comp, absOps, cfgFK, cfgF, gGap, ex_sub_some, ex_smax]
      rfl
    · exact profGb_eq prof _ k gpo gpe tgpe g1 g2 g3 false
    · exact profGb_eq prof _ k gpo gpe tgpe g1 g2 g3 _

include hap hP h2 in
theorem spBackward_eq_absTab (r : Rect) (hb : r.startb < r.endb) (ha : r.enda ≤ seqA.size) (har : r.starta ≤ r.enda)
    (start : States ExactScore) :
    spBackward ap prof seq2 k r start =
      ((List.range (r.endb - r.startb + 1)).map
        (absTab (cfgBK k gpo gpe tgpe s seqA seq2 r) start (r.enda - r.starta))).reverse := by
  obtain ⟨ho, he, ht⟩ := sp_pen ap gpo gpe tgpe s hap k
  unfold spBackward
  simp only
  rw [ho, he, ht, range'_reverse_eq, List.map_map]
  congr 1
  refine runKernel_eq_absTab (cfgBK k gpo gpe tgpe s seqA seq2 r) (by show 1 ≤ r.endb - r.startb; omega) _ ?_ _ _ ?_ start
  · funext _ pga pa
    simp only [spGaInit, absGaInit, gGap, cfgBK, cfgB, ex_sub_some, ex_smax]
    rfl
  · intro p hp
    have hrow : r.starta + (r.enda - r.starta) - 1 - p < seqA.size := by omega
    obtain ⟨g1, g2, g3⟩ := sp_gaps gpo gpe tgpe s prof seqA k hP (r.starta + (r.enda - r.starta) - 1 - p + 1) (by omega)
    obtain ⟨g1', _, _⟩ := sp_gaps gpo gpe tgpe s prof seqA k hP (r.starta + (r.enda - r.starta) - 1 - p + 2) (by omega)
    refine ⟨?_, ?_, ?_, ?_, ?_⟩
    · exact profGb_eq prof _ k gpo gpe tgpe g1 g2 g3 _
    · intro k'
      funext pa pga pgb
      simp only [Function.comp, absOps, cfgBK, cfgB, Nat.add_sub_cancel]
      rw [g1', hP.subE _ hrow _ (h2 _)]
      have e1 : r.starta + (r.enda - r.starta) - 1 - p = r.enda - 1 - p := by omega
      have e2 : r.endb - (k' + 1) = r.endb - 1 - k' := by omega
      rw [e1, e2]
      simp only [gAl, ex_sub_some, ex_add_neg, ex_smax3, ex_add_some, oaddi_neg]
    · funext _ xga xa
      simp only [Function.comp, absOps, cfgBK, cfgB, gGap, ex_sub_some, ex_smax]
      rfl
    · exact profGb_eq prof _ k gpo gpe tgpe g1 g2 g3 false
    · exact profGb_eq prof _ k gpo gpe tgpe g1 g2 g3 _

end sp

/-! ## the virtual sequence–sequence parameters -/

/-- all scores of `ap` multiplied by `K` -/
def scaleParam (ap : AlnParam ExactScore) (K : Nat) : AlnParam ExactScore :=
  { subm := ap.subm.map fun row => row.map fun e => Score.mul e (Score.ofNat K)
    gpo := Score.mul ap.gpo (Score.ofNat K)
    gpe := Score.mul ap.gpe (Score.ofNat K)
    tgpe := Score.mul ap.tgpe (Score.ofNat K) }

theorem scaleParam_ok (ap : AlnParam ExactScore) (gpo gpe tgpe : Int) (s : Nat → Nat → Int)
    (hap : ApOK ap gpo gpe tgpe s) (K : Nat) :
    ApOK (scaleParam ap K) ((K : Int) * gpo) ((K : Int) * gpe) ((K : Int) * tgpe) (fun x y => (K : Int) * s x y) := by
  obtain ⟨ho, he, ht⟩ := sp_pen ap gpo gpe tgpe s hap K
  refine ⟨ho, he, ht, ?_⟩
  intro i j
  have h := hap.sub i j
  unfold AlnParam.sub at h ⊢
  unfold scaleParam
  simp only [Array.getD_eq_getD_getElem?, Array.getElem?_map] at h ⊢
  cases hi : ap.subm[i]? with
  | none =>
    rw [hi] at h
    simp only [Option.map_none, Option.getD_none] at h ⊢
    have h0 : s i j = 0 := by
      have : (Score.zero : ExactScore) = some (s i j) := by simpa using h
      injection this with this
      exact this.symm
    rw [h0]; simp; rfl
  | some row =>
    rw [hi] at h
    simp only [Option.map_some, Option.getD_some, Array.getElem?_map] at h ⊢
    cases hj : row[j]? with
    | none =>
      rw [hj] at h
      simp only [Option.map_none, Option.getD_none] at h ⊢
      have h0 : s i j = 0 := by
        have : (Score.zero : ExactScore) = some (s i j) := h
        injection this with this
        exact this.symm
      rw [h0]; simp; rfl
    | some e =>
      rw [hj] at h
      simp only [Option.map_some, Option.getD_some] at h ⊢
      rw [h, ex_mul_ofNat, Int.mul_comm]

section sp2
variable (ap : AlnParam ExactScore) (gpo gpe tgpe : Int) (s : Nat → Nat → Int) (hap : ApOK ap gpo gpe tgpe s)
  (prof : Array ExactScore) (seqA seq2 : Array Nat) (k : Nat)
  (hP : ProfOK prof seqA k 1 gpo gpe tgpe s) (h2 : ∀ j, seq2.getD j 0 < 23)

include hap hP in
theorem spMeetOps_eq (r : Rect) (mid : Nat) (hm : mid ≤ seqA.size) :
    spMeetOps ap prof k r mid = ssMeetOps (scaleParam ap k) r := by
  obtain ⟨ho, he, ht⟩ := sp_pen ap gpo gpe tgpe s hap k
  obtain ⟨g1, g2, g3⟩ := sp_gaps gpo gpe tgpe s prof seqA k hP (mid + 1) (by omega)
  obtain ⟨g1', _, _⟩ := sp_gaps gpo gpe tgpe s prof seqA k hP mid (by omega)
  unfold spMeetOps ssMeetOps scaleParam
  simp only [ho, he, ht, g1, g2, g3, g1', ex_add_neg, ex_sub_some]

include hap hP h2 in
/-- **one step of the real kernels on a profile of `k` copies and a sequence = one step of the sequence–sequence kernels
with all scores multiplied by `k`** -/
theorem sp_realStep_eq (lenB : Nat) :
    realStep ap (.seqprof prof seq2 k) seqA.size lenB =
      realStep (scaleParam ap k) (.seqseq seqA seq2) seqA.size lenB := by
  funext f b sa mid ea sb eb
  unfold realStep
  by_cases hc : 0 ≤ sa ∧ sa ≤ mid ∧ mid ≤ ea ∧ ea ≤ (seqA.size : Int) ∧ 0 ≤ sb ∧ sb < eb ∧ eb ≤ (lenB : Int) ∧
      0 < f.size ∧ 0 < b.size
  · rw [if_pos hc, if_pos hc]
    obtain ⟨h0, h1, h2', h3, h4, h5, h6, _, _⟩ := hc
    have hok := scaleParam_ok ap gpo gpe tgpe s hap k
    have eF : kForward ap (.seqprof prof seq2 k) ⟨sa.toNat, mid.toNat, sb.toNat, eb.toNat, lenB⟩
          (f.getD 0 States.negInf) =
        kForward (scaleParam ap k) (.seqseq seqA seq2) ⟨sa.toNat, mid.toNat, sb.toNat, eb.toNat, lenB⟩
          (f.getD 0 States.negInf) := by
      simp only [kForward]
      rw [spForward_eq_absTab ap gpo gpe tgpe s hap prof seqA seq2 k hP h2 _ (by show sb.toNat < eb.toNat; omega)
        (by show mid.toNat ≤ seqA.size; omega),
        ssForward_eq_absTab (scaleParam ap k) _ _ _ _ hok seqA seq2 _ (by show sb.toNat < eb.toNat; omega)]
      rfl
    have eB : kBackward ap (.seqprof prof seq2 k) ⟨mid.toNat, ea.toNat, sb.toNat, eb.toNat, lenB⟩
          (b.getD 0 States.negInf) =
        kBackward (scaleParam ap k) (.seqseq seqA seq2) ⟨mid.toNat, ea.toNat, sb.toNat, eb.toNat, lenB⟩
          (b.getD 0 States.negInf) := by
      simp only [kBackward]
      rw [spBackward_eq_absTab ap gpo gpe tgpe s hap prof seqA seq2 k hP h2 _ (by show sb.toNat < eb.toNat; omega)
        (by show ea.toNat ≤ seqA.size; omega) (by show mid.toNat ≤ ea.toNat; omega),
        ssBackward_eq_absTab (scaleParam ap k) _ _ _ _ hok seqA seq2 _ (by show sb.toNat < eb.toNat; omega)
          (by show mid.toNat ≤ ea.toNat; omega)]
      rfl
    have eM : ∀ fs bs, kMeetup ap (.seqprof prof seq2 k) ⟨sa.toNat, mid.toNat, sb.toNat, eb.toNat, lenB⟩ mid.toNat fs bs =
        kMeetup (scaleParam ap k) (.seqseq seqA seq2) ⟨sa.toNat, mid.toNat, sb.toNat, eb.toNat, lenB⟩ mid.toNat
          fs bs := by
      intro fs bs
      simp only [kMeetup]
      rw [spMeetOps_eq ap gpo gpe tgpe s hap prof seqA k hP _ mid.toNat (by omega)]
    simp only [eF, eB, eM]
  · rw [if_neg hc, if_neg hc]

include hap hP h2 in
theorem sp_realKernels_eq (lenB : Nat) :
    realKernels ap (.seqprof prof seq2 k) seqA.size lenB =
      realKernels (scaleParam ap k) (.seqseq seqA seq2) seqA.size lenB := by
  unfold realKernels
  rw [sp_realStep_eq ap gpo gpe tgpe s hap prof seqA seq2 k hP h2 lenB]

end sp2

end Kalign
