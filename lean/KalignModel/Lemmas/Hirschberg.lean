import KalignModel.Model.Hirschberg
/-!
# Lemmas about the Hirschberg controller (Model/Hirschberg.lean)

Part 1: the missing `return` after `aln_runner_serial(m)` in `aln_runner` (aln_controller.c:31-33).
-/
namespace Kalign
variable {φ α : Type}

/-- the six transitions `aln_continue` has a case for -/
def ValidT (t : Int) : Prop := t = 1 ∨ t = 2 ∨ t = 3 ∨ t = 5 ∨ t = 6 ∨ t = 7

instance (t : Int) : Decidable (ValidT t) := by unfold ValidT; infer_instance

/-- every result of the kernels carries one of the six transitions -/
def Kernels.ValidTrans (K : Kernels φ α) : Prop :=
  ∀ f b sa mid ea sb eb r, K.step f b sa mid ea sb eb = some r → ValidT r.transition

/-- the rectangle test at the head of both runners -/
def Mem.Deg (m : Mem φ α) : Prop := m.starta ≥ m.enda ∨ m.startb ≥ m.endb

/-- `aln_runner` called on such a memory returns without doing anything -/
def Mem.Stops (m : Mem φ α) : Prop := m.fault = true ∨ m.Deg

theorem alnContinue_stops (K : Kernels φ α) (rec : Mem φ α → Mem φ α) (hrec : ∀ x, (rec x).Stops)
    (m : Mem φ α) (inF inB : States α) (inFk inBk : Kind) (oc0 oc1 oc2 oc3 oc4 meet t : Int)
    (ht : ValidT t) :
    (alnContinue K rec m inF inB inFk inBk oc0 oc1 oc2 oc3 oc4 meet t).Stops := by
  unfold alnContinue
  rcases ht with h | h | h | h | h | h <;> subst h <;> simp <;> exact hrec _

theorem runnerSerial_stops (K : Kernels φ α) (hK : K.ValidTrans) (n : Nat) (m : Mem φ α) :
    (runnerSerial K false n m).Stops := by
  induction n generalizing m with
  | zero => exact Or.inl rfl
  | succ n ih =>
    unfold runnerSerial
    by_cases hf : m.fault = true
    · simp [hf]; exact Or.inl hf
    · by_cases ha : m.starta ≥ m.enda
      · simp [hf, ha]; exact Or.inr (Or.inl ha)
      · by_cases hb : m.startb ≥ m.endb
        · simp [hf, ha, hb]; exact Or.inr (Or.inr hb)
        · simp only [hf, ha, hb, if_false]
          unfold runnerBody
          simp only [Bool.false_eq_true, if_false]
          cases hstep : K.step m.f m.b m.starta ((m.enda - m.starta) / 2 + m.starta) m.enda m.startb m.endb with
          | none => exact Or.inl rfl
          | some r => exact alnContinue_stops K _ ih _ _ _ _ _ _ _ _ _ _ _ _ (hK _ _ _ _ _ _ _ _ hstep)

/-- **The missing `return` is harmless** whenever `meetup` delivers one of the six transitions:
`aln_runner` and `aln_runner_serial` are the same function (same path, same state arrays, same everything). -/
theorem runner_eq_runnerSerial (K : Kernels φ α) (hK : K.ValidTrans) (n : Nat) (m : Mem φ α) :
    runner K false n m = runnerSerial K false n m := by
  induction n generalizing m with
  | zero => rfl
  | succ n ih =>
    have hrec : runner K false n = runnerSerial K false n := funext ih
    unfold runner
    by_cases hf : m.fault = true
    · simp only [hf, if_true]; unfold runnerSerial; simp only [hf, if_true]
    · by_cases hs : m.enda - m.starta < 500
      · simp only [hf, hs, if_true]
        rcases runnerSerial_stops K hK (n + 1) m with h | h | h
        · simp [h]
        · by_cases hf' : (runnerSerial K false (n + 1) m).fault = true
          · simp [hf']
          · simp [hf', h]
        · by_cases hf' : (runnerSerial K false (n + 1) m).fault = true
          · simp [hf']
          · by_cases ha : (runnerSerial K false (n + 1) m).starta ≥ (runnerSerial K false (n + 1) m).enda
            · simp [hf', ha]
            · simp [hf', ha, h]
      · simp only [hf, hs, if_false]
        rw [hrec]
        conv => rhs; unfold runnerSerial
        simp [hf]

/-!
Part 2: the path automaton over index ranges of a path function, gluing lemmas.
-/

/-- run the automaton `segStep` over the entries `p (i+1) .. p (i+n)` -/
def segRun (p : Int → Int) (eb : Int) : Nat → Int → Int → Kind → Option (Int × Kind)
  | 0, _, last, k => some (last, k)
  | n + 1, i, last, k =>
    match segStep eb last k (p (i + 1)) with
    | none => none
    | some (l', k') => segRun p eb n (i + 1) l' k'

/-- entries `i+1 .. i+n` form a consistent segment from state `(last, k)` up to `eb`, followed by a `bk` column -/
def segOKf (p : Int → Int) (eb : Int) (bk : Kind) (n : Nat) (i last : Int) (k : Kind) : Bool :=
  match segRun p eb n i last k with
  | some (l', k') => segEnd eb bk l' k'
  | none => false

theorem segRun_congr (p q : Int → Int) (eb : Int) (n : Nat) (i last : Int) (k : Kind)
    (h : ∀ j, i < j → j ≤ i + n → p j = q j) : segRun p eb n i last k = segRun q eb n i last k := by
  induction n generalizing i last k with
  | zero => rfl
  | succ n ih =>
    simp only [segRun]
    rw [h (i + 1) (by omega) (by omega)]
    split
    · rfl
    · exact ih _ _ _ (fun j h1 h2 => h j (by omega) (by omega))

theorem segOKf_congr (p q : Int → Int) (eb : Int) (bk : Kind) (n : Nat) (i last : Int) (k : Kind)
    (h : ∀ j, i < j → j ≤ i + n → p j = q j) : segOKf p eb bk n i last k = segOKf q eb bk n i last k := by
  unfold segOKf; rw [segRun_congr p q eb n i last k h]

theorem segRun_append (p : Int → Int) (eb : Int) (n1 n2 : Nat) (i last : Int) (k : Kind) :
    segRun p eb (n1 + n2) i last k =
      (segRun p eb n1 i last k).bind fun x => segRun p eb n2 (i + n1) x.1 x.2 := by
  induction n1 generalizing i last k with
  | zero => simp [segRun]
  | succ n ih =>
    have : n + 1 + n2 = (n + n2) + 1 := by omega
    rw [this]
    simp only [segRun]
    split
    · rfl
    · rw [ih]
      have : i + 1 + (n : Int) = i + ((n + 1 : Nat) : Int) := by omega
      rw [this]

theorem segStep_some (eb last : Int) (k : Kind) (p : Int) (x : Int × Kind) :
    segStep eb last k p = some x ↔
      (p = -1 ∧ k ≠ .GA ∧ x = (last, .GB)) ∨
      (p ≠ -1 ∧ p = last + 1 ∧ p ≤ eb ∧ x = (p, .A)) ∨
      (p ≠ -1 ∧ last + 1 < p ∧ k ≠ .GB ∧ p ≤ eb ∧ x = (p, .A)) := by
  unfold segStep
  by_cases h1 : p = -1
  · by_cases hk : k = .GA
    · simp [h1, hk]
    · simp [h1, hk, eq_comm]
  · by_cases h2 : p = last + 1
    · by_cases h3 : p ≤ eb
      · simp only [h2, if_true]
        rw [← h2]; simp [h1, h3, eq_comm]
      · simp only [h2, if_true]
        rw [← h2]; simp [h1, h3]
    · by_cases h3 : last + 1 < p ∧ k ≠ .GB ∧ p ≤ eb
      · simp [h1, h2, h3, eq_comm]
      · simp only [h1, h2, h3, if_false]
        simp [h1]
        intro a b c
        exact absurd ⟨a, b, c⟩ h3

theorem segStep_mono (eb eb' last : Int) (k : Kind) (p : Int) (x : Int × Kind) (h : eb ≤ eb')
    (hs : segStep eb last k p = some x) : segStep eb' last k p = some x := by
  rw [segStep_some] at hs ⊢
  rcases hs with h1 | ⟨h1, h2, h3, h4⟩ | ⟨h1, h2, h3, h4, h5⟩
  · exact Or.inl h1
  · exact Or.inr (Or.inl ⟨h1, h2, by omega, h4⟩)
  · exact Or.inr (Or.inr ⟨h1, h2, h3, by omega, h5⟩)

theorem segRun_mono (p : Int → Int) (eb eb' : Int) (h : eb ≤ eb') (n : Nat) (i last : Int) (k : Kind)
    (x : Int × Kind) (hs : segRun p eb n i last k = some x) : segRun p eb' n i last k = some x := by
  induction n generalizing i last k with
  | zero => exact hs
  | succ n ih =>
    simp only [segRun] at hs ⊢
    cases hst : segStep eb last k (p (i + 1)) with
    | none => simp [hst] at hs
    | some y =>
      rw [segStep_mono eb eb' last k _ y h hst]
      simp only [hst] at hs
      exact ih _ _ _ hs

/-- all entries −1 from a state that is not `GA` -/
theorem segRun_allGap (p : Int → Int) (eb : Int) (n : Nat) (i last : Int) (k : Kind)
    (hp : ∀ j, i < j → j ≤ i + n → p j = -1) (hk : k ≠ .GA) (hn : 0 < n) :
    segRun p eb n i last k = some (last, .GB) := by
  induction n generalizing i k with
  | zero => omega
  | succ n ih =>
    simp only [segRun]
    rw [hp (i + 1) (by omega) (by omega)]
    simp only [segStep, if_true, hk, if_false]
    cases n with
    | zero => rfl
    | succ n => exact ih (i + 1) .GB (fun j h1 h2 => hp j (by omega) (by omega)) (by decide) (by omega)

/-- a child on which the runner returns at once, with its entries still −1, is a good segment -/
theorem childOK_seg (p : Int → Int) (fk bk : Kind) (sa ea sb eb : Int)
    (hc : childOK fk bk sa ea sb eb = true) (hdeg : ¬ (sa < ea ∧ sb < eb))
    (hp : ∀ j, sa < j → j ≤ ea → p j = -1) :
    sa ≤ ea ∧ sb ≤ eb ∧ segOKf p eb bk (ea - sa).toNat sa sb fk = true := by
  unfold childOK at hc
  simp only [hdeg, if_false] at hc
  by_cases hneg : ea < sa ∨ eb < sb
  · simp [hneg] at hc
  · simp only [hneg, if_false] at hc
    refine ⟨by omega, by omega, ?_⟩
    by_cases he : ea = sa
    · simp only [he, if_true] at hc
      subst he
      simp [segOKf, segRun, hc]
    · simp only [he, if_false, Bool.and_eq_true, bne_iff_ne, ne_eq] at hc
      have hn : 0 < (ea - sa).toNat := by omega
      unfold segOKf
      rw [segRun_allGap p eb _ sa sb fk (fun j h1 h2 => hp j h1 (by omega)) hc.1 hn]
      exact hc.2

theorem segEnd_true (eb : Int) (bk : Kind) (l : Int) (k : Kind) :
    segEnd eb bk l k = true ↔ (l = eb ∧ k.compat bk = true) ∨ (l < eb ∧ k ≠ .GB ∧ bk ≠ .GB) := by
  unfold segEnd
  by_cases h : l = eb
  · simp [h]
  · simp [h, and_assoc]

theorem glueA (eb c l' : Int) (k' : Kind) (h : segEnd (c - 1) .A l' k' = true) (hc : c ≤ eb) (h0 : 0 ≤ c) :
    segStep eb l' k' c = some (c, .A) := by
  rw [segEnd_true] at h
  rw [segStep_some]
  rcases h with ⟨h1, _⟩ | ⟨h1, h2, _⟩
  · exact Or.inr (Or.inl ⟨by omega, by omega, hc, rfl⟩)
  · exact Or.inr (Or.inr ⟨by omega, by omega, h2, hc, rfl⟩)

theorem glueGA (eb c l' : Int) (k' : Kind) (h : segEnd (c - 1) .GA l' k' = true) (hc : c + 1 ≤ eb) (h0 : 0 ≤ c) :
    segStep eb l' k' (c + 1) = some (c + 1, .A) := by
  rw [segEnd_true] at h
  rw [segStep_some]
  rcases h with ⟨h1, h2⟩ | ⟨h1, h2, _⟩
  · have : k' ≠ .GB := by cases k' <;> simp_all [Kind.compat]
    exact Or.inr (Or.inr ⟨by omega, by omega, this, hc, rfl⟩)
  · exact Or.inr (Or.inr ⟨by omega, by omega, h2, hc, rfl⟩)

theorem glueGB (eb c l' : Int) (k' : Kind) (h : segEnd c .GB l' k' = true) :
    segStep eb l' k' (-1) = some (c, .GB) := by
  rw [segEnd_true] at h
  rw [segStep_some]
  rcases h with ⟨h1, h2⟩ | ⟨_, _, h3⟩
  · have : k' ≠ .GA := by cases k' <;> simp_all [Kind.compat]
    exact Or.inl ⟨rfl, this, by rw [h1]⟩
  · exact absurd rfl h3

/-- a segment checked from the state "b-residue `c+1` was a gap-in-a column" is also good from `(c, k)`
for every `k` that may be followed by gap-in-a columns -/
theorem segOKf_shiftGA (p : Int → Int) (eb : Int) (bk : Kind) (n : Nat) (i c : Int) (k : Kind)
    (h : segOKf p eb bk n i (c + 1) .GA = true) (hk : k ≠ .GB) :
    segOKf p eb bk n i c k = true := by
  cases n with
  | zero =>
    simp only [segOKf, segRun] at h ⊢
    rw [segEnd_true] at h ⊢
    rcases h with ⟨h1, h2⟩ | ⟨h1, _, h3⟩
    · have : bk ≠ .GB := by cases bk <;> simp_all [Kind.compat]
      exact Or.inr ⟨by omega, hk, this⟩
    · exact Or.inr ⟨by omega, hk, h3⟩
  | succ n =>
    simp only [segOKf, segRun] at h ⊢
    have hstep : ∀ x, segStep eb (c + 1) .GA (p (i + 1)) = some x → segStep eb c k (p (i + 1)) = some x := by
      intro x hx
      rw [segStep_some] at hx ⊢
      rcases hx with ⟨_, h2, _⟩ | ⟨h1, h2, h3, h4⟩ | ⟨h1, h2, _, h4, h5⟩
      · exact absurd rfl h2
      · exact Or.inr (Or.inr ⟨h1, by omega, hk, h3, h4⟩)
      · exact Or.inr (Or.inr ⟨h1, by omega, hk, h4, h5⟩)
    cases hs : segStep eb (c + 1) .GA (p (i + 1)) with
    | none => simp [hs] at h
    | some x =>
      rw [hstep x hs]
      simpa [hs] using h

theorem segOKf_run (p : Int → Int) (eb : Int) (bk : Kind) (n : Nat) (i l : Int) (k : Kind)
    (h : segOKf p eb bk n i l k = true) :
    ∃ l' k', segRun p eb n i l k = some (l', k') ∧ segEnd eb bk l' k' = true := by
  unfold segOKf at h
  cases hs : segRun p eb n i l k with
  | none => simp [hs] at h
  | some x => exact ⟨x.1, x.2, rfl, by simpa [hs] using h⟩

/-- a checked prefix (possibly against a smaller bound) followed by a checked rest -/
theorem segOKf_prefix (p : Int → Int) (eb' eb : Int) (bk : Kind) (n1 n2 : Nat) (i l l' : Int) (k k' : Kind)
    (h1 : segRun p eb' n1 i l k = some (l', k')) (hle : eb' ≤ eb)
    (h2 : segOKf p eb bk n2 (i + n1) l' k' = true) : segOKf p eb bk (n1 + n2) i l k = true := by
  unfold segOKf at h2 ⊢
  rw [segRun_append, segRun_mono p eb' eb hle n1 i l k _ h1]
  exact h2

theorem segOKf_step (p : Int → Int) (eb : Int) (bk : Kind) (n : Nat) (i l l' : Int) (k k' : Kind)
    (h1 : segStep eb l k (p (i + 1)) = some (l', k'))
    (h2 : segOKf p eb bk n (i + 1) l' k' = true) : segOKf p eb bk (n + 1) i l k = true := by
  unfold segOKf at h2 ⊢
  simp only [segRun, h1]
  exact h2

/-!
Part 3: the serial controller writes a consistent path whenever every meetup result satisfied
`meetupContract` (`mon = true`) — H1.
-/

/-- `path[i]` (−1 outside the array: never used for an index the controller touches) -/
def Mem.pe (m : Mem φ α) (i : Int) : Int := m.path.getD i.toNat (-1)

theorem setPath_ok (m : Mem φ α) (i v : Int) (h : (m.setPath i v).fault = false) :
    m.fault = false ∧ 0 ≤ i ∧ m.setPath i v = { m with path := m.path.set! i.toNat v } ∧
      ∀ j, 0 ≤ j → (m.setPath i v).pe j = if j = i then v else m.pe j := by
  unfold Mem.setPath at h ⊢
  by_cases hc : 0 ≤ i ∧ i.toNat < m.path.size
  · rw [if_pos hc] at h ⊢
    refine ⟨h, hc.1, rfl, ?_⟩
    intro j hj
    simp only [Mem.pe, Array.getD_eq_getD_getElem?, Array.set!_eq_setIfInBounds, Array.getElem?_setIfInBounds, hc.2]
    by_cases hji : j = i
    · subst hji; simp
    · have : i.toNat ≠ j.toNat := by omega
      simp [this, hji]
  · simp [hc] at h

@[simp] theorem alnFwd_path (K : Kernels φ α) (m : Mem φ α) (s : States α) (k1 k2 : Kind) (a b c d : Int) :
    (alnFwd K m s k1 k2 a b c d).path = m.path := rfl
@[simp] theorem alnFwd_pe (K : Kernels φ α) (m : Mem φ α) (s : States α) (k1 k2 : Kind) (a b c d : Int) :
    (alnFwd K m s k1 k2 a b c d).pe = m.pe := rfl
@[simp] theorem alnFwd_fault (K : Kernels φ α) (m : Mem φ α) (s : States α) (k1 k2 : Kind) (a b c d : Int) :
    (alnFwd K m s k1 k2 a b c d).fault = m.fault := rfl
@[simp] theorem alnFwd_mon (K : Kernels φ α) (m : Mem φ α) (s : States α) (k1 k2 : Kind) (a b c d : Int) :
    (alnFwd K m s k1 k2 a b c d).mon = m.mon := rfl
@[simp] theorem alnFwd_starta (K : Kernels φ α) (m : Mem φ α) (s : States α) (k1 k2 : Kind) (a b c d : Int) :
    (alnFwd K m s k1 k2 a b c d).starta = a := rfl
@[simp] theorem alnFwd_enda (K : Kernels φ α) (m : Mem φ α) (s : States α) (k1 k2 : Kind) (a b c d : Int) :
    (alnFwd K m s k1 k2 a b c d).enda = b := rfl
@[simp] theorem alnFwd_startb (K : Kernels φ α) (m : Mem φ α) (s : States α) (k1 k2 : Kind) (a b c d : Int) :
    (alnFwd K m s k1 k2 a b c d).startb = c := rfl
@[simp] theorem alnFwd_endb (K : Kernels φ α) (m : Mem φ α) (s : States α) (k1 k2 : Kind) (a b c d : Int) :
    (alnFwd K m s k1 k2 a b c d).endb = d := rfl
@[simp] theorem alnFwd_fk (K : Kernels φ α) (m : Mem φ α) (s : States α) (k1 k2 : Kind) (a b c d : Int) :
    (alnFwd K m s k1 k2 a b c d).fk = k1 := rfl
@[simp] theorem alnFwd_bk (K : Kernels φ α) (m : Mem φ α) (s : States α) (k1 k2 : Kind) (a b c d : Int) :
    (alnFwd K m s k1 k2 a b c d).bk = k2 := rfl

@[simp] theorem alnBwd_path (K : Kernels φ α) (m : Mem φ α) (s : States α) (k1 k2 : Kind) (a b c d : Int) :
    (alnBwd K m s k1 k2 a b c d).path = m.path := rfl
@[simp] theorem alnBwd_pe (K : Kernels φ α) (m : Mem φ α) (s : States α) (k1 k2 : Kind) (a b c d : Int) :
    (alnBwd K m s k1 k2 a b c d).pe = m.pe := rfl
@[simp] theorem alnBwd_fault (K : Kernels φ α) (m : Mem φ α) (s : States α) (k1 k2 : Kind) (a b c d : Int) :
    (alnBwd K m s k1 k2 a b c d).fault = m.fault := rfl
@[simp] theorem alnBwd_mon (K : Kernels φ α) (m : Mem φ α) (s : States α) (k1 k2 : Kind) (a b c d : Int) :
    (alnBwd K m s k1 k2 a b c d).mon = m.mon := rfl
@[simp] theorem alnBwd_starta (K : Kernels φ α) (m : Mem φ α) (s : States α) (k1 k2 : Kind) (a b c d : Int) :
    (alnBwd K m s k1 k2 a b c d).starta = a := rfl
@[simp] theorem alnBwd_enda (K : Kernels φ α) (m : Mem φ α) (s : States α) (k1 k2 : Kind) (a b c d : Int) :
    (alnBwd K m s k1 k2 a b c d).enda = b := rfl
@[simp] theorem alnBwd_startb (K : Kernels φ α) (m : Mem φ α) (s : States α) (k1 k2 : Kind) (a b c d : Int) :
    (alnBwd K m s k1 k2 a b c d).startb = c := rfl
@[simp] theorem alnBwd_endb (K : Kernels φ α) (m : Mem φ α) (s : States α) (k1 k2 : Kind) (a b c d : Int) :
    (alnBwd K m s k1 k2 a b c d).endb = d := rfl
/-- `alnBwd` takes the *b* kind first (`inBk`), then the fresh *f* kind -/
@[simp] theorem alnBwd_fk (K : Kernels φ α) (m : Mem φ α) (s : States α) (k1 k2 : Kind) (a b c d : Int) :
    (alnBwd K m s k1 k2 a b c d).fk = k2 := rfl
@[simp] theorem alnBwd_bk (K : Kernels φ α) (m : Mem φ α) (s : States α) (k1 k2 : Kind) (a b c d : Int) :
    (alnBwd K m s k1 k2 a b c d).bk = k1 := rfl

/-- what a call of the (serial) runner on `m` with result `r` guarantees -/
structure RunPost (m r : Mem φ α) : Prop where
  /-- entries outside `starta .. enda` are untouched -/
  frame : ∀ i, 0 ≤ i → (i < m.starta ∨ m.enda < i) → r.pe i = m.pe i
  /-- entry `starta` is untouched or re-written with `startb` (only when the start kind is `A`) -/
  atSa : r.pe m.starta = m.pe m.starta ∨ (m.fk = .A ∧ r.pe m.starta = m.startb)
  /-- on a non-degenerate rectangle the entries `starta+1 .. enda` form a consistent segment -/
  seg : m.starta < m.enda → m.startb < m.endb →
    segOKf r.pe m.endb m.bk (m.enda - m.starta).toNat m.starta m.startb m.fk = true

/-- the induction hypothesis about the recursive call -/
def RecOK (rec : Mem φ α → Mem φ α) : Prop :=
  ∀ x, (rec x).fault = false → (rec x).mon = true →
    x.fault = false ∧ x.mon = true ∧
    (¬ (x.starta < x.enda ∧ x.startb < x.endb) → rec x = x) ∧
    (0 ≤ x.starta → 0 ≤ x.startb → (∀ i, x.starta < i → i ≤ x.enda → x.pe i = -1) → RunPost x (rec x))

/-- the two recursive calls of one case of `aln_continue`, started from `m3` (= the memory after the path
writes of that case) -/
theorem twoChildren (K : Kernels φ α) (rec : Mem φ α → Mem φ α) (hrec : RecOK rec) (m3 : Mem φ α)
    (inF inB : States α) (fk bk bkL fkR : Kind) (sa eaL sb ebL saR ea sbR eb : Int)
    (hf : (rec (alnBwd K (rec (alnFwd K m3 inF fk bkL sa eaL sb ebL)) inB bk fkR saR ea sbR eb)).fault = false)
    (hm : (rec (alnBwd K (rec (alnFwd K m3 inF fk bkL sa eaL sb ebL)) inB bk fkR saR ea sbR eb)).mon = true) :
    m3.fault = false ∧ m3.mon = true ∧
    (0 ≤ sa → 0 ≤ sb → 0 ≤ sbR → sa ≤ saR → eaL ≤ saR →
      (∀ i, sa < i → i ≤ eaL → m3.pe i = -1) → (∀ i, saR < i → i ≤ ea → m3.pe i = -1) →
      (∀ i, 0 ≤ i → (i < sa ∨ eaL < i) → (rec (alnFwd K m3 inF fk bkL sa eaL sb ebL)).pe i = m3.pe i) ∧
      ((rec (alnFwd K m3 inF fk bkL sa eaL sb ebL)).pe sa = m3.pe sa ∨
        (fk = .A ∧ (rec (alnFwd K m3 inF fk bkL sa eaL sb ebL)).pe sa = sb)) ∧
      (childOK fk bkL sa eaL sb ebL = true → sa ≤ eaL ∧ sb ≤ ebL ∧
        segOKf (rec (alnFwd K m3 inF fk bkL sa eaL sb ebL)).pe ebL bkL (eaL - sa).toNat sa sb fk = true) ∧
      (∀ i, 0 ≤ i → (i < saR ∨ ea < i) →
        (rec (alnBwd K (rec (alnFwd K m3 inF fk bkL sa eaL sb ebL)) inB bk fkR saR ea sbR eb)).pe i =
          (rec (alnFwd K m3 inF fk bkL sa eaL sb ebL)).pe i) ∧
      ((rec (alnBwd K (rec (alnFwd K m3 inF fk bkL sa eaL sb ebL)) inB bk fkR saR ea sbR eb)).pe saR =
          (rec (alnFwd K m3 inF fk bkL sa eaL sb ebL)).pe saR ∨
        (fkR = .A ∧
          (rec (alnBwd K (rec (alnFwd K m3 inF fk bkL sa eaL sb ebL)) inB bk fkR saR ea sbR eb)).pe saR = sbR)) ∧
      (childOK fkR bk saR ea sbR eb = true → saR ≤ ea ∧ sbR ≤ eb ∧
        segOKf (rec (alnBwd K (rec (alnFwd K m3 inF fk bkL sa eaL sb ebL)) inB bk fkR saR ea sbR eb)).pe
          eb bk (ea - saR).toNat saR sbR fkR = true)) := by
  obtain ⟨hxRf, hxRm, hdegR, hpostR⟩ := hrec _ hf hm
  simp only [alnBwd_fault, alnBwd_mon] at hxRf hxRm
  obtain ⟨hxLf, hxLm, hdegL, hpostL⟩ := hrec _ hxRf hxRm
  simp only [alnFwd_fault, alnFwd_mon] at hxLf hxLm
  refine ⟨hxLf, hxLm, fun h0 h0b h0bR hsa hle hpL hpR => ?_⟩
  have postL := hpostL (by simpa using h0) (by simpa using h0b) (by simpa using hpL)
  have hLframe : ∀ i, 0 ≤ i → (i < sa ∨ eaL < i) →
      (rec (alnFwd K m3 inF fk bkL sa eaL sb ebL)).pe i = m3.pe i := by
    intro i hi h; simpa using postL.frame i hi (by simpa using h)
  have hpR' : ∀ i, saR < i → i ≤ ea → (rec (alnFwd K m3 inF fk bkL sa eaL sb ebL)).pe i = -1 := by
    intro i h1 h2
    rw [hLframe i (by omega) (Or.inr (by omega))]
    exact hpR i h1 h2
  have postR := hpostR (by simp; omega) (by simpa using h0bR) (by simpa using hpR')
  refine ⟨hLframe, by simpa using postL.atSa, ?_, ?_, by simpa using postR.atSa, ?_⟩
  · intro hc
    by_cases nd : sa < eaL ∧ sb < ebL
    · exact ⟨by omega, by omega, by simpa using postL.seg (by simpa using nd.1) (by simpa using nd.2)⟩
    · rw [hdegL (by simpa using nd)]
      exact childOK_seg _ fk bkL sa eaL sb ebL hc nd (by simpa using hpL)
  · intro i hi h; simpa using postR.frame i hi (by simpa using h)
  · intro hc
    by_cases nd : saR < ea ∧ sbR < eb
    · exact ⟨by omega, by omega, by simpa using postR.seg (by simpa using nd.1) (by simpa using nd.2)⟩
    · rw [hdegR (by simpa using nd)]
      exact childOK_seg _ fkR bk saR ea sbR eb hc nd (by simpa using hpR')

/-- One case of `aln_continue` seen from the final path `P`: `m2` is the memory before the path writes of
the case, `m3` after them. -/
theorem alnCase (K : Kernels φ α) (rec : Mem φ α → Mem φ α) (hrec : RecOK rec) (m2 m3 : Mem φ α)
    (inF inB : States α) (fk bk bkL fkR : Kind) (sa eaL sb ebL saR ea sbR eb : Int)
    (hf : (rec (alnBwd K (rec (alnFwd K m3 inF fk bkL sa eaL sb ebL)) inB bk fkR saR ea sbR eb)).fault = false)
    (hm : (rec (alnBwd K (rec (alnFwd K m3 inF fk bkL sa eaL sb ebL)) inB bk fkR saR ea sbR eb)).mon = true)
    (h0 : 0 ≤ sa) (h0b : 0 ≤ sb) (h0bR : 0 ≤ sbR) (hsa : sa ≤ saR) (hle : eaL < saR) (heaL : eaL ≤ ea)
    (heaL' : sa - 1 ≤ eaL) (hsaR : saR = sa → fkR ≠ .A)
    (hpre : ∀ i, sa < i → i ≤ ea → m2.pe i = -1)
    (hWout : ∀ j, 0 ≤ j → (j < sa ∨ ea < j) → m3.pe j = m2.pe j)
    (hWsa : m3.pe sa = m2.pe sa ∨ (fk = .A ∧ m3.pe sa = sb))
    (hWL : ∀ j, sa < j → j ≤ eaL → m3.pe j = m2.pe j)
    (hWR : ∀ j, saR < j → j ≤ ea → m3.pe j = m2.pe j) :
    let P := (rec (alnBwd K (rec (alnFwd K m3 inF fk bkL sa eaL sb ebL)) inB bk fkR saR ea sbR eb)).pe
    (∀ i, 0 ≤ i → (i < sa ∨ ea < i) → P i = m2.pe i) ∧
    (P sa = m2.pe sa ∨ (fk = .A ∧ P sa = sb)) ∧
    (childOK fk bkL sa eaL sb ebL = true → sa ≤ eaL ∧ sb ≤ ebL ∧
      segOKf P ebL bkL (eaL - sa).toNat sa sb fk = true) ∧
    (childOK fkR bk saR ea sbR eb = true → saR ≤ ea ∧ sbR ≤ eb ∧
      segOKf P eb bk (ea - saR).toNat saR sbR fkR = true) ∧
    (∀ j, eaL < j → j < saR → P j = m3.pe j) ∧
    (P saR = m3.pe saR ∨ (fkR = .A ∧ P saR = sbR)) := by
  intro P
  obtain ⟨_, _, h⟩ := twoChildren K rec hrec m3 inF inB fk bk bkL fkR sa eaL sb ebL saR ea sbR eb hf hm
  obtain ⟨hLframe, hLsa, hLseg, hRframe, hRsa, hRseg⟩ := h h0 h0b h0bR hsa (by omega)
    (fun i h1 h2 => by rw [hWL i h1 h2]; exact hpre i h1 (by omega))
    (fun i h1 h2 => by rw [hWR i h1 h2]; exact hpre i (by omega) h2)
  have hPL : ∀ i, 0 ≤ i → i < saR → P i = (rec (alnFwd K m3 inF fk bkL sa eaL sb ebL)).pe i :=
    fun i hi h => hRframe i hi (Or.inl h)
  refine ⟨?_, ?_, ?_, hRseg, ?_, ?_⟩
  · intro i hi h
    rw [← hWout i hi h]
    rcases h with h | h
    · exact (hPL i hi (by omega)).trans (hLframe i hi (Or.inl h))
    · exact (hRframe i hi (Or.inr h)).trans (hLframe i hi (Or.inr (by omega)))
  · -- entry `sa`
    have hPsa : P sa = (rec (alnFwd K m3 inF fk bkL sa eaL sb ebL)).pe sa := by
      by_cases hlt : sa < saR
      · exact hPL sa h0 hlt
      · have hEq : saR = sa := by omega
        rcases hRsa with h | ⟨h, _⟩
        · have h' : P saR = (rec (alnFwd K m3 inF fk bkL sa eaL sb ebL)).pe saR := h
          rw [hEq] at h'; exact h'
        · exact absurd h (hsaR hEq)
    rw [hPsa]
    rcases hLsa with h | ⟨h1, h2⟩
    · rw [h]; exact hWsa
    · exact Or.inr ⟨h1, h2⟩
  · intro hc
    obtain ⟨h1, h2, h3⟩ := hLseg hc
    refine ⟨h1, h2, ?_⟩
    rw [segOKf_congr P _ ebL bkL _ sa sb fk (fun j hj1 hj2 => hPL j (by omega) (by omega))]
    exact h3
  · intro j h1 h2
    exact (hPL j (by omega) h2).trans (hLframe j (by omega) (Or.inr h1))
  · rcases hRsa with h | h
    · exact Or.inl (h.trans (hLframe saR (by omega) (Or.inr hle)))
    · exact Or.inr h

@[simp] theorem setPath_mon (m : Mem φ α) (i v : Int) : (m.setPath i v).mon = m.mon := by
  unfold Mem.setPath; split <;> rfl

theorem setPath_fault (m : Mem φ α) (i v : Int) (h : (m.setPath i v).fault = false) : m.fault = false :=
  (setPath_ok m i v h).1

/-- `fault` and `mon` are sticky through `aln_continue` -/
theorem alnContinue_mono (K : Kernels φ α) (rec : Mem φ α → Mem φ α) (hrec : RecOK rec) (m2 : Mem φ α)
    (inF inB : States α) (fk bk : Kind) (sa ea sb eb mid c t : Int)
    (hf : (alnContinue K rec m2 inF inB fk bk sa ea sb eb mid c t).fault = false)
    (hm : (alnContinue K rec m2 inF inB fk bk sa ea sb eb mid c t).mon = true) :
    m2.fault = false ∧ m2.mon = true := by
  unfold alnContinue at hf hm
  by_cases h1 : t = 1
  · simp only [h1, if_true] at hf hm
    obtain ⟨a, b, _⟩ := twoChildren K rec hrec _ inF inB fk bk _ _ sa _ sb _ _ ea _ eb hf hm
    exact ⟨setPath_fault _ _ _ (setPath_fault _ _ _ a), by simpa using b⟩
  by_cases h2 : t = 2
  · simp only [h2, if_true] at hf hm
    obtain ⟨a, b, _⟩ := twoChildren K rec hrec _ inF inB fk bk _ _ sa _ sb _ _ ea _ eb hf hm
    exact ⟨setPath_fault _ _ _ a, by simpa using b⟩
  by_cases h3 : t = 3
  · simp only [h3, if_true] at hf hm
    obtain ⟨a, b, _⟩ := twoChildren K rec hrec _ inF inB fk bk _ _ sa _ sb _ _ ea _ eb hf hm
    exact ⟨setPath_fault _ _ _ a, by simpa using b⟩
  by_cases h5 : t = 5
  · simp only [h5, if_true] at hf hm
    obtain ⟨a, b, _⟩ := twoChildren K rec hrec _ inF inB fk bk _ _ sa _ sb _ _ ea _ eb hf hm
    exact ⟨setPath_fault _ _ _ a, by simpa using b⟩
  by_cases h6 : t = 6
  · simp only [h6, if_true] at hf hm
    obtain ⟨a, b, _⟩ := twoChildren K rec hrec _ inF inB fk bk _ _ sa _ sb _ _ ea _ eb hf hm
    exact ⟨a, b⟩
  by_cases h7 : t = 7
  · simp only [h7, if_true] at hf hm
    obtain ⟨a, b, _⟩ := twoChildren K rec hrec _ inF inB fk bk _ _ sa _ sb _ _ ea _ eb hf hm
    exact ⟨setPath_fault _ _ _ a, by simpa using b⟩
  simp only [h1, h2, h3, h5, h6, h7, if_false] at hf hm
  exact ⟨hf, hm⟩

/-! pure assembly lemmas -/

theorem leftA (P : Int → Int) (eb sa sb mid c : Int) (fk : Kind) (hmid : sa ≤ mid) (hc : c ≤ eb) (h0 : 0 ≤ c)
    (hz : mid = sa → c = sb ∧ fk = .A)
    (hn : mid ≠ sa → segOKf P (c - 1) .A (mid - 1 - sa).toNat sa sb fk = true ∧ P mid = c) :
    segRun P eb (mid - sa).toNat sa sb fk = some (c, .A) := by
  by_cases h : mid = sa
  · obtain ⟨h1, h2⟩ := hz h
    subst h; subst h1; subst h2
    simp [segRun]
  · obtain ⟨hs, hp⟩ := hn h
    obtain ⟨l', k', hrun, hend⟩ := segOKf_run _ _ _ _ _ _ _ hs
    have hnn : (mid - sa).toNat = (mid - 1 - sa).toNat + 1 := by omega
    have hidx : sa + ((mid - 1 - sa).toNat : Int) + 1 = mid := by omega
    rw [hnn, segRun_append, segRun_mono P (c - 1) eb (by omega) _ _ _ _ _ hrun]
    simp only [Option.bind, segRun]
    rw [hidx, hp, glueA eb c l' k' hend hc h0]

theorem leftGB (P : Int → Int) (eb sa sb mid c : Int) (fk : Kind) (hmid : sa ≤ mid) (hc : c ≤ eb)
    (hz : mid = sa → c = sb ∧ fk = .GB)
    (hn : mid ≠ sa → segOKf P c .GB (mid - 1 - sa).toNat sa sb fk = true ∧ P mid = -1) :
    segRun P eb (mid - sa).toNat sa sb fk = some (c, .GB) := by
  by_cases h : mid = sa
  · obtain ⟨h1, h2⟩ := hz h
    subst h; subst h1; subst h2
    simp [segRun]
  · obtain ⟨hs, hp⟩ := hn h
    obtain ⟨l', k', hrun, hend⟩ := segOKf_run _ _ _ _ _ _ _ hs
    have hnn : (mid - sa).toNat = (mid - 1 - sa).toNat + 1 := by omega
    have hidx : sa + ((mid - 1 - sa).toNat : Int) + 1 = mid := by omega
    rw [hnn, segRun_append, segRun_mono P c eb hc _ _ _ _ _ hrun]
    simp only [Option.bind, segRun]
    rw [hidx, hp, glueGB eb c l' k' hend]

theorem leftGA (P : Int → Int) (eb sa sb mid c : Int) (fk : Kind) (hmid : sa ≤ mid) (hc : c + 1 ≤ eb) (h0 : 0 ≤ c)
    (hz : mid = sa ∧ c = sb → fk = .GA)
    (hn : ¬ (mid = sa ∧ c = sb) → segOKf P (c - 1) .GA (mid - sa).toNat sa sb fk = true) :
    ∃ l' k', segRun P eb (mid - sa).toNat sa sb fk = some (l', k') ∧ segStep eb l' k' (c + 1) = some (c + 1, .A) := by
  by_cases h : mid = sa ∧ c = sb
  · have hk := hz h
    obtain ⟨h1, h2⟩ := h
    subst h1; subst h2; subst hk
    refine ⟨c, .GA, by simp [segRun], ?_⟩
    rw [segStep_some]
    exact Or.inr (Or.inl ⟨by omega, rfl, hc, rfl⟩)
  · obtain ⟨l', k', hrun, hend⟩ := segOKf_run _ _ _ _ _ _ _ (hn h)
    exact ⟨l', k', segRun_mono P (c - 1) eb (by omega) _ _ _ _ _ hrun, glueGA eb c l' k' hend hc h0⟩

theorem tailStep (P : Int → Int) (eb : Int) (bk : Kind) (n1 n2 : Nat) (sa sb mid l l2 : Int) (fk k k2 : Kind)
    (h1 : segRun P eb n1 sa sb fk = some (l, k)) (hi : sa + n1 = mid)
    (h2 : segStep eb l k (P (mid + 1)) = some (l2, k2))
    (h3 : segOKf P eb bk n2 (mid + 1) l2 k2 = true) : segOKf P eb bk (n1 + (n2 + 1)) sa sb fk = true := by
  refine segOKf_prefix P eb eb bk n1 (n2 + 1) sa sb l fk k h1 (Int.le_refl _) ?_
  rw [hi]
  exact segOKf_step P eb bk n2 mid l l2 k k2 h2 h3

/-- the "forward part is an aligned pair at (mid, c)" clause of the contract (transitions 1, 2, 3) -/
def LeftA (fk : Kind) (sa sb mid c : Int) : Prop :=
  (mid = sa → c = sb ∧ fk = .A) ∧ (mid ≠ sa → childOK fk .A sa (mid - 1) sb (c - 1) = true)
/-- forward part ends in a gap-in-b column at (mid, c) (transitions 6, 7) -/
def LeftGB (fk : Kind) (sa sb mid c : Int) : Prop :=
  (mid = sa → c = sb ∧ fk = .GB) ∧ (mid ≠ sa → childOK fk .GB sa (mid - 1) sb c = true)
/-- forward part ends in a gap-in-a column (transition 5) -/
def LeftGA (fk : Kind) (sa sb mid c : Int) : Prop :=
  (mid = sa ∧ c = sb → fk = .GA) ∧ (¬ (mid = sa ∧ c = sb) → childOK fk .GA sa mid sb (c - 1) = true)

theorem contract_unfold (fk bk : Kind) (sa ea sb eb mid c t : Int)
    (h : meetupContract fk bk sa ea sb eb mid c t = true) :
    sb ≤ c ∧ c ≤ eb ∧
    ((t = 1 ∧ c < eb ∧ LeftA fk sa sb mid c ∧ childOK .A bk (mid + 1) ea (c + 1) eb = true) ∨
     (t = 2 ∧ c < eb ∧ LeftA fk sa sb mid c ∧ childOK .GA bk mid ea (c + 1) eb = true) ∨
     (t = 3 ∧ LeftA fk sa sb mid c ∧ childOK .GB bk (mid + 1) ea c eb = true) ∨
     (t = 5 ∧ c < eb ∧ LeftGA fk sa sb mid c ∧ childOK .A bk (mid + 1) ea (c + 1) eb = true) ∨
     (t = 6 ∧ LeftGB fk sa sb mid c ∧ childOK .GB bk (mid + 1) ea c eb = true) ∨
     (t = 7 ∧ c < eb ∧ LeftGB fk sa sb mid c ∧ childOK .A bk (mid + 1) ea (c + 1) eb = true)) := by
  unfold meetupContract at h
  rw [Bool.and_eq_true, decide_eq_true_eq] at h
  obtain ⟨⟨h1, h2⟩, h⟩ := h
  refine ⟨h1, h2, ?_⟩
  by_cases t1 : t = 1
  · subst t1
    rw [if_pos rfl] at h
    simp only [Bool.and_eq_true, decide_eq_true_eq] at h
    refine Or.inl ⟨rfl, h.1.1, ⟨?_, ?_⟩, h.2⟩
    · intro hm; have := h.1.2; simp only [hm, if_true, Bool.and_eq_true, decide_eq_true_eq, beq_iff_eq] at this; exact this
    · intro hm; have := h.1.2; simp only [hm, if_false] at this; exact this
  by_cases t2 : t = 2
  · subst t2
    rw [if_neg (show ¬ ((2 : Int) = 1) by decide), if_pos rfl] at h
    simp only [Bool.and_eq_true, decide_eq_true_eq] at h
    refine Or.inr (Or.inl ⟨rfl, h.1.1, ⟨?_, ?_⟩, h.2⟩)
    · intro hm; have := h.1.2; simp only [hm, if_true, Bool.and_eq_true, decide_eq_true_eq, beq_iff_eq] at this; exact this
    · intro hm; have := h.1.2; simp only [hm, if_false] at this; exact this
  by_cases t3 : t = 3
  · subst t3
    rw [if_neg (show ¬ ((3 : Int) = 1) by decide), if_neg (show ¬ ((3 : Int) = 2) by decide), if_pos rfl] at h
    simp only [Bool.and_eq_true, decide_eq_true_eq] at h
    refine Or.inr (Or.inr (Or.inl ⟨rfl, ⟨?_, ?_⟩, h.2⟩))
    · intro hm; have := h.1; simp only [hm, if_true, Bool.and_eq_true, decide_eq_true_eq, beq_iff_eq] at this; exact this
    · intro hm; have := h.1; simp only [hm, if_false] at this; exact this
  by_cases t5 : t = 5
  · subst t5
    rw [if_neg (show ¬ ((5 : Int) = 1) by decide), if_neg (show ¬ ((5 : Int) = 2) by decide), if_neg (show ¬ ((5 : Int) = 3) by decide), if_pos rfl] at h
    simp only [Bool.and_eq_true, decide_eq_true_eq] at h
    refine Or.inr (Or.inr (Or.inr (Or.inl ⟨rfl, h.1.1, ⟨?_, ?_⟩, h.2⟩)))
    · intro hm; have := h.1.2; simp only [hm, and_self, if_true, beq_iff_eq] at this; exact this
    · intro hm; have := h.1.2; simp only [hm, if_false] at this; exact this
  by_cases t6 : t = 6
  · subst t6
    rw [if_neg (show ¬ ((6 : Int) = 1) by decide), if_neg (show ¬ ((6 : Int) = 2) by decide), if_neg (show ¬ ((6 : Int) = 3) by decide), if_neg (show ¬ ((6 : Int) = 5) by decide), if_pos rfl] at h
    simp only [Bool.and_eq_true, decide_eq_true_eq] at h
    refine Or.inr (Or.inr (Or.inr (Or.inr (Or.inl ⟨rfl, ⟨?_, ?_⟩, h.2⟩))))
    · intro hm; have := h.1; simp only [hm, if_true, Bool.and_eq_true, decide_eq_true_eq, beq_iff_eq] at this; exact this
    · intro hm; have := h.1; simp only [hm, if_false] at this; exact this
  by_cases t7 : t = 7
  · subst t7
    rw [if_neg (show ¬ ((7 : Int) = 1) by decide), if_neg (show ¬ ((7 : Int) = 2) by decide), if_neg (show ¬ ((7 : Int) = 3) by decide), if_neg (show ¬ ((7 : Int) = 5) by decide), if_neg (show ¬ ((7 : Int) = 6) by decide), if_pos rfl] at h
    simp only [Bool.and_eq_true, decide_eq_true_eq] at h
    refine Or.inr (Or.inr (Or.inr (Or.inr (Or.inr ⟨rfl, h.1.1, ⟨?_, ?_⟩, h.2⟩))))
    · intro hm; have := h.1.2; simp only [hm, if_true, Bool.and_eq_true, decide_eq_true_eq, beq_iff_eq] at this; exact this
    · intro hm; have := h.1.2; simp only [hm, if_false] at this; exact this
  simp [t1, t2, t3, t5, t6, t7] at h

/-- what one case of `aln_continue` has to establish for the parent rectangle -/
def CasePost (m2 : Mem φ α) (P : Int → Int) (fk bk : Kind) (sa ea sb eb : Int) : Prop :=
  (∀ i, 0 ≤ i → (i < sa ∨ ea < i) → P i = m2.pe i) ∧
  (P sa = m2.pe sa ∨ (fk = .A ∧ P sa = sb)) ∧
  segOKf P eb bk (ea - sa).toNat sa sb fk = true

theorem segStep_succ (eb c : Int) (k : Kind) (h0 : 0 ≤ c) (hc : c + 1 ≤ eb) :
    segStep eb c k (c + 1) = some (c + 1, .A) := by
  rw [segStep_some]; exact Or.inr (Or.inl ⟨by omega, rfl, hc, rfl⟩)

theorem segStep_gap (eb c : Int) (k : Kind) (hk : k ≠ .GA) : segStep eb c k (-1) = some (c, .GB) := by
  rw [segStep_some]; exact Or.inl ⟨rfl, hk, rfl⟩

/-- `alnCase` with names for the intermediate memories -/
theorem alnCase' (K : Kernels φ α) (rec : Mem φ α → Mem φ α) (hrec : RecOK rec) (m2 m3 L r : Mem φ α)
    (inF inB : States α) (fk bk bkL fkR : Kind) (sa eaL sb ebL saR ea sbR eb : Int)
    (hL : L = rec (alnFwd K m3 inF fk bkL sa eaL sb ebL))
    (hr : r = rec (alnBwd K L inB bk fkR saR ea sbR eb))
    (hf : r.fault = false) (hm : r.mon = true)
    (h0 : 0 ≤ sa) (h0b : 0 ≤ sb) (h0bR : 0 ≤ sbR) (hsa : sa ≤ saR) (hle : eaL < saR) (heaL : eaL ≤ ea)
    (heaL' : sa - 1 ≤ eaL) (hsaR : saR = sa → fkR ≠ .A)
    (hpre : ∀ i, sa < i → i ≤ ea → m2.pe i = -1)
    (hWout : ∀ j, 0 ≤ j → (j < sa ∨ ea < j) → m3.pe j = m2.pe j)
    (hWsa : m3.pe sa = m2.pe sa ∨ (fk = .A ∧ m3.pe sa = sb))
    (hWL : ∀ j, sa < j → j ≤ eaL → m3.pe j = m2.pe j)
    (hWR : ∀ j, saR < j → j ≤ ea → m3.pe j = m2.pe j) :
    m3.fault = false ∧ m3.mon = true ∧
    (∀ i, 0 ≤ i → (i < sa ∨ ea < i) → r.pe i = m2.pe i) ∧
    (r.pe sa = m2.pe sa ∨ (fk = .A ∧ r.pe sa = sb)) ∧
    (childOK fk bkL sa eaL sb ebL = true → sa ≤ eaL ∧ sb ≤ ebL ∧
      segOKf r.pe ebL bkL (eaL - sa).toNat sa sb fk = true) ∧
    (childOK fkR bk saR ea sbR eb = true → saR ≤ ea ∧ sbR ≤ eb ∧
      segOKf r.pe eb bk (ea - saR).toNat saR sbR fkR = true) ∧
    (∀ j, eaL < j → j < saR → r.pe j = m3.pe j) ∧
    (r.pe saR = m3.pe saR ∨ (fkR = .A ∧ r.pe saR = sbR)) := by
  subst hL; subst hr
  obtain ⟨a, b, _⟩ := twoChildren K rec hrec m3 inF inB fk bk bkL fkR sa eaL sb ebL saR ea sbR eb hf hm
  exact ⟨a, b, alnCase K rec hrec m2 m3 inF inB fk bk bkL fkR sa eaL sb ebL saR ea sbR eb hf hm h0 h0b h0bR hsa hle heaL heaL'
    hsaR hpre hWout hWsa hWL hWR⟩

theorem case1 (K : Kernels φ α) (rec : Mem φ α → Mem φ α) (hrec : RecOK rec) (m2 m3 L r : Mem φ α)
    (inF inB : States α) (fk bk : Kind) (sa ea sb eb mid c : Int)
    (hm3 : m3 = (m2.setPath mid c).setPath (mid + 1) (c + 1))
    (hL : L = rec (alnFwd K m3 inF fk .A sa (mid - 1) sb (c - 1)))
    (hr : r = rec (alnBwd K L inB bk .A (mid + 1) ea (c + 1) eb))
    (hf : r.fault = false) (hm : r.mon = true)
    (h0 : 0 ≤ sa) (hlt : sa < ea) (hmid : mid = (ea - sa) / 2 + sa) (h0b : 0 ≤ sb)
    (hpre : ∀ i, sa < i → i ≤ ea → m2.pe i = -1)
    (hcb : sb ≤ c) (hce : c < eb) (hLA : LeftA fk sa sb mid c) (hR : childOK .A bk (mid + 1) ea (c + 1) eb = true) :
    m2.fault = false ∧ CasePost m2 r.pe fk bk sa ea sb eb := by
  have hm1 : sa ≤ mid := by omega
  have hm2 : mid < ea := by omega
  have hf3 : m3.fault = false := by
    subst hL; subst hr
    exact (twoChildren K rec hrec _ inF inB fk bk _ _ sa _ sb _ _ ea _ eb hf hm).1
  rw [hm3] at hf3
  obtain ⟨hf3', _, _, hpe2⟩ := setPath_ok _ _ _ hf3
  obtain ⟨hf2, _, _, hpe1⟩ := setPath_ok _ _ _ hf3'
  have hpe : ∀ j, 0 ≤ j → m3.pe j = if j = mid + 1 then c + 1 else if j = mid then c else m2.pe j := by
    intro j hj; rw [hm3, hpe2 j hj, hpe1 j hj]
  obtain ⟨_, _, hframe, hatsa, hsegL, hsegR, hmids, hsaR⟩ :=
    alnCase' K rec hrec m2 m3 L r inF inB fk bk .A .A sa (mid - 1) sb (c - 1) (mid + 1) ea (c + 1) eb hL hr hf hm
      h0 h0b (by omega) (by omega) (by omega) (by omega) (by omega) (by omega) hpre
      (fun j hj h => by rw [hpe j hj, if_neg (by omega), if_neg (by omega)])
      (by
        rw [hpe sa h0, if_neg (by omega)]
        by_cases h : sa = mid
        · rw [if_pos h]; exact Or.inr ⟨(hLA.1 h.symm).2, (hLA.1 h.symm).1⟩
        · rw [if_neg h]; exact Or.inl rfl)
      (fun j h1 h2 => by rw [hpe j (by omega), if_neg (by omega), if_neg (by omega)])
      (fun j h1 h2 => by rw [hpe j (by omega), if_neg (by omega), if_neg (by omega)])
  refine ⟨hf2, hframe, hatsa, ?_⟩
  have hPmid : mid ≠ sa → r.pe mid = c := fun h => by
    rw [hmids mid (by omega) (by omega), hpe mid (by omega), if_neg (by omega), if_pos rfl]
  have hPmid1 : r.pe (mid + 1) = c + 1 := by
    rcases hsaR with h | ⟨_, h⟩
    · rw [h, hpe (mid + 1) (by omega), if_pos rfl]
    · exact h
  have hleft := leftA r.pe eb sa sb mid c fk hm1 (by omega) (by omega) hLA.1
    (fun h => ⟨(hsegL (hLA.2 h)).2.2, hPmid h⟩)
  have hn : (ea - sa).toNat = (mid - sa).toNat + ((ea - (mid + 1)).toNat + 1) := by omega
  rw [hn]
  refine tailStep r.pe eb bk _ _ sa sb mid c (c + 1) fk .A .A hleft (by omega) ?_ (hsegR hR).2.2
  rw [hPmid1]
  exact segStep_succ eb c .A (by omega) (by omega)

theorem case2 (K : Kernels φ α) (rec : Mem φ α → Mem φ α) (hrec : RecOK rec) (m2 m3 L r : Mem φ α)
    (inF inB : States α) (fk bk : Kind) (sa ea sb eb mid c : Int)
    (hm3 : m3 = m2.setPath mid c)
    (hL : L = rec (alnFwd K m3 inF fk .A sa (mid - 1) sb (c - 1)))
    (hr : r = rec (alnBwd K L inB bk .GA mid ea (c + 1) eb))
    (hf : r.fault = false) (hm : r.mon = true)
    (h0 : 0 ≤ sa) (hlt : sa < ea) (hmid : mid = (ea - sa) / 2 + sa) (h0b : 0 ≤ sb)
    (hpre : ∀ i, sa < i → i ≤ ea → m2.pe i = -1)
    (hcb : sb ≤ c) (hce : c < eb) (hLA : LeftA fk sa sb mid c) (hR : childOK .GA bk mid ea (c + 1) eb = true) :
    m2.fault = false ∧ CasePost m2 r.pe fk bk sa ea sb eb := by
  have hm1 : sa ≤ mid := by omega
  have hm2 : mid < ea := by omega
  have hf3 : m3.fault = false := by
    subst hL; subst hr
    exact (twoChildren K rec hrec _ inF inB fk bk _ _ sa _ sb _ _ ea _ eb hf hm).1
  rw [hm3] at hf3
  obtain ⟨hf2, _, _, hpe1⟩ := setPath_ok _ _ _ hf3
  have hpe : ∀ j, 0 ≤ j → m3.pe j = if j = mid then c else m2.pe j := by
    intro j hj; rw [hm3, hpe1 j hj]
  obtain ⟨_, _, hframe, hatsa, hsegL, hsegR, hmids, hsaR⟩ :=
    alnCase' K rec hrec m2 m3 L r inF inB fk bk .A .GA sa (mid - 1) sb (c - 1) mid ea (c + 1) eb hL hr hf hm
      h0 h0b (by omega) (by omega) (by omega) (by omega) (by omega) (fun _ => by decide) hpre
      (fun j hj h => by rw [hpe j hj, if_neg (by omega)])
      (by
        rw [hpe sa h0]
        by_cases h : sa = mid
        · rw [if_pos h]; exact Or.inr ⟨(hLA.1 h.symm).2, (hLA.1 h.symm).1⟩
        · rw [if_neg h]; exact Or.inl rfl)
      (fun j h1 h2 => by rw [hpe j (by omega), if_neg (by omega)])
      (fun j h1 h2 => by rw [hpe j (by omega), if_neg (by omega)])
  refine ⟨hf2, hframe, hatsa, ?_⟩
  have hPmid : r.pe mid = c := by
    rcases hsaR with h | ⟨h, _⟩
    · rw [h, hpe mid (by omega), if_pos rfl]
    · exact absurd h (by decide)
  have hleft := leftA r.pe eb sa sb mid c fk hm1 (by omega) (by omega) hLA.1
    (fun h => ⟨(hsegL (hLA.2 h)).2.2, hPmid⟩)
  have hn : (ea - sa).toNat = (mid - sa).toNat + (ea - mid).toNat := by omega
  have hidx : sa + ((mid - sa).toNat : Int) = mid := by omega
  rw [hn]
  refine segOKf_prefix r.pe eb eb bk _ _ sa sb c fk .A hleft (Int.le_refl _) ?_
  rw [hidx]
  exact segOKf_shiftGA r.pe eb bk _ mid c .A (hsegR hR).2.2 (by decide)

theorem case3 (K : Kernels φ α) (rec : Mem φ α → Mem φ α) (hrec : RecOK rec) (m2 m3 L r : Mem φ α)
    (inF inB : States α) (fk bk : Kind) (sa ea sb eb mid c : Int)
    (hm3 : m3 = m2.setPath mid c)
    (hL : L = rec (alnFwd K m3 inF fk .A sa (mid - 1) sb (c - 1)))
    (hr : r = rec (alnBwd K L inB bk .GB (mid + 1) ea c eb))
    (hf : r.fault = false) (hm : r.mon = true)
    (h0 : 0 ≤ sa) (hlt : sa < ea) (hmid : mid = (ea - sa) / 2 + sa) (h0b : 0 ≤ sb)
    (hpre : ∀ i, sa < i → i ≤ ea → m2.pe i = -1)
    (hcb : sb ≤ c) (hce : c ≤ eb) (hLA : LeftA fk sa sb mid c) (hR : childOK .GB bk (mid + 1) ea c eb = true) :
    m2.fault = false ∧ CasePost m2 r.pe fk bk sa ea sb eb := by
  have hm1 : sa ≤ mid := by omega
  have hm2 : mid < ea := by omega
  have hf3 : m3.fault = false := by
    subst hL; subst hr
    exact (twoChildren K rec hrec _ inF inB fk bk _ _ sa _ sb _ _ ea _ eb hf hm).1
  rw [hm3] at hf3
  obtain ⟨hf2, _, _, hpe1⟩ := setPath_ok _ _ _ hf3
  have hpe : ∀ j, 0 ≤ j → m3.pe j = if j = mid then c else m2.pe j := by
    intro j hj; rw [hm3, hpe1 j hj]
  obtain ⟨_, _, hframe, hatsa, hsegL, hsegR, hmids, hsaR⟩ :=
    alnCase' K rec hrec m2 m3 L r inF inB fk bk .A .GB sa (mid - 1) sb (c - 1) (mid + 1) ea c eb hL hr hf hm
      h0 h0b (by omega) (by omega) (by omega) (by omega) (by omega) (by omega) hpre
      (fun j hj h => by rw [hpe j hj, if_neg (by omega)])
      (by
        rw [hpe sa h0]
        by_cases h : sa = mid
        · rw [if_pos h]; exact Or.inr ⟨(hLA.1 h.symm).2, (hLA.1 h.symm).1⟩
        · rw [if_neg h]; exact Or.inl rfl)
      (fun j h1 h2 => by rw [hpe j (by omega), if_neg (by omega)])
      (fun j h1 h2 => by rw [hpe j (by omega), if_neg (by omega)])
  refine ⟨hf2, hframe, hatsa, ?_⟩
  have hPmid : mid ≠ sa → r.pe mid = c := fun h => by
    rw [hmids mid (by omega) (by omega), hpe mid (by omega), if_pos rfl]
  have hPmid1 : r.pe (mid + 1) = -1 := by
    rcases hsaR with h | ⟨h, _⟩
    · rw [h, hpe (mid + 1) (by omega), if_neg (by omega)]; exact hpre (mid + 1) (by omega) (by omega)
    · exact absurd h (by decide)
  have hleft := leftA r.pe eb sa sb mid c fk hm1 hce (by omega) hLA.1
    (fun h => ⟨(hsegL (hLA.2 h)).2.2, hPmid h⟩)
  have hn : (ea - sa).toNat = (mid - sa).toNat + ((ea - (mid + 1)).toNat + 1) := by omega
  rw [hn]
  refine tailStep r.pe eb bk _ _ sa sb mid c c fk .A .GB hleft (by omega) ?_ (hsegR hR).2.2
  rw [hPmid1]
  exact segStep_gap eb c .A (by decide)

theorem case5 (K : Kernels φ α) (rec : Mem φ α → Mem φ α) (hrec : RecOK rec) (m2 m3 L r : Mem φ α)
    (inF inB : States α) (fk bk : Kind) (sa ea sb eb mid c : Int)
    (hm3 : m3 = m2.setPath (mid + 1) (c + 1))
    (hL : L = rec (alnFwd K m3 inF fk .GA sa mid sb (c - 1)))
    (hr : r = rec (alnBwd K L inB bk .A (mid + 1) ea (c + 1) eb))
    (hf : r.fault = false) (hm : r.mon = true)
    (h0 : 0 ≤ sa) (hlt : sa < ea) (hmid : mid = (ea - sa) / 2 + sa) (h0b : 0 ≤ sb)
    (hpre : ∀ i, sa < i → i ≤ ea → m2.pe i = -1)
    (hcb : sb ≤ c) (hce : c < eb) (hLA : LeftGA fk sa sb mid c) (hR : childOK .A bk (mid + 1) ea (c + 1) eb = true) :
    m2.fault = false ∧ CasePost m2 r.pe fk bk sa ea sb eb := by
  have hm1 : sa ≤ mid := by omega
  have hm2 : mid < ea := by omega
  have hf3 : m3.fault = false := by
    subst hL; subst hr
    exact (twoChildren K rec hrec _ inF inB fk bk _ _ sa _ sb _ _ ea _ eb hf hm).1
  rw [hm3] at hf3
  obtain ⟨hf2, _, _, hpe1⟩ := setPath_ok _ _ _ hf3
  have hpe : ∀ j, 0 ≤ j → m3.pe j = if j = mid + 1 then c + 1 else m2.pe j := by
    intro j hj; rw [hm3, hpe1 j hj]
  obtain ⟨_, _, hframe, hatsa, hsegL, hsegR, hmids, hsaR⟩ :=
    alnCase' K rec hrec m2 m3 L r inF inB fk bk .GA .A sa mid sb (c - 1) (mid + 1) ea (c + 1) eb hL hr hf hm
      h0 h0b (by omega) (by omega) (by omega) (by omega) (by omega) (by omega) hpre
      (fun j hj h => by rw [hpe j hj, if_neg (by omega)])
      (by rw [hpe sa h0, if_neg (by omega)]; exact Or.inl rfl)
      (fun j h1 h2 => by rw [hpe j (by omega), if_neg (by omega)])
      (fun j h1 h2 => by rw [hpe j (by omega), if_neg (by omega)])
  refine ⟨hf2, hframe, hatsa, ?_⟩
  have hPmid1 : r.pe (mid + 1) = c + 1 := by
    rcases hsaR with h | ⟨_, h⟩
    · rw [h, hpe (mid + 1) (by omega), if_pos rfl]
    · exact h
  obtain ⟨l', k', hleft, hstep⟩ := leftGA r.pe eb sa sb mid c fk hm1 (by omega) (by omega) hLA.1
    (fun h => (hsegL (hLA.2 h)).2.2)
  have hn : (ea - sa).toNat = (mid - sa).toNat + ((ea - (mid + 1)).toNat + 1) := by omega
  rw [hn]
  refine tailStep r.pe eb bk _ _ sa sb mid l' (c + 1) fk k' .A hleft (by omega) ?_ (hsegR hR).2.2
  rw [hPmid1]
  exact hstep

theorem case6 (K : Kernels φ α) (rec : Mem φ α → Mem φ α) (hrec : RecOK rec) (m2 L r : Mem φ α)
    (inF inB : States α) (fk bk : Kind) (sa ea sb eb mid c : Int)
    (hL : L = rec (alnFwd K m2 inF fk .GB sa (mid - 1) sb c))
    (hr : r = rec (alnBwd K L inB bk .GB (mid + 1) ea c eb))
    (hf : r.fault = false) (hm : r.mon = true)
    (h0 : 0 ≤ sa) (hlt : sa < ea) (hmid : mid = (ea - sa) / 2 + sa) (h0b : 0 ≤ sb)
    (hpre : ∀ i, sa < i → i ≤ ea → m2.pe i = -1)
    (hcb : sb ≤ c) (hce : c ≤ eb) (hLA : LeftGB fk sa sb mid c) (hR : childOK .GB bk (mid + 1) ea c eb = true) :
    m2.fault = false ∧ CasePost m2 r.pe fk bk sa ea sb eb := by
  have hm1 : sa ≤ mid := by omega
  have hm2 : mid < ea := by omega
  obtain ⟨hf2, _, hframe, hatsa, hsegL, hsegR, hmids, hsaR⟩ :=
    alnCase' K rec hrec m2 m2 L r inF inB fk bk .GB .GB sa (mid - 1) sb c (mid + 1) ea c eb hL hr hf hm
      h0 h0b (by omega) (by omega) (by omega) (by omega) (by omega) (by omega) hpre
      (fun j _ _ => rfl) (Or.inl rfl) (fun j _ _ => rfl) (fun j _ _ => rfl)
  refine ⟨hf2, hframe, hatsa, ?_⟩
  have hPmid : mid ≠ sa → r.pe mid = -1 := fun h => by
    rw [hmids mid (by omega) (by omega)]; exact hpre mid (by omega) (by omega)
  have hPmid1 : r.pe (mid + 1) = -1 := by
    rcases hsaR with h | ⟨h, _⟩
    · rw [h]; exact hpre (mid + 1) (by omega) (by omega)
    · exact absurd h (by decide)
  have hleft := leftGB r.pe eb sa sb mid c fk hm1 hce hLA.1
    (fun h => ⟨(hsegL (hLA.2 h)).2.2, hPmid h⟩)
  have hn : (ea - sa).toNat = (mid - sa).toNat + ((ea - (mid + 1)).toNat + 1) := by omega
  rw [hn]
  refine tailStep r.pe eb bk _ _ sa sb mid c c fk .GB .GB hleft (by omega) ?_ (hsegR hR).2.2
  rw [hPmid1]
  exact segStep_gap eb c .GB (by decide)

theorem case7 (K : Kernels φ α) (rec : Mem φ α → Mem φ α) (hrec : RecOK rec) (m2 m3 L r : Mem φ α)
    (inF inB : States α) (fk bk : Kind) (sa ea sb eb mid c : Int)
    (hm3 : m3 = m2.setPath (mid + 1) (c + 1))
    (hL : L = rec (alnFwd K m3 inF fk .GB sa (mid - 1) sb c))
    (hr : r = rec (alnBwd K L inB bk .A (mid + 1) ea (c + 1) eb))
    (hf : r.fault = false) (hm : r.mon = true)
    (h0 : 0 ≤ sa) (hlt : sa < ea) (hmid : mid = (ea - sa) / 2 + sa) (h0b : 0 ≤ sb)
    (hpre : ∀ i, sa < i → i ≤ ea → m2.pe i = -1)
    (hcb : sb ≤ c) (hce : c < eb) (hLA : LeftGB fk sa sb mid c) (hR : childOK .A bk (mid + 1) ea (c + 1) eb = true) :
    m2.fault = false ∧ CasePost m2 r.pe fk bk sa ea sb eb := by
  have hm1 : sa ≤ mid := by omega
  have hm2 : mid < ea := by omega
  have hf3 : m3.fault = false := by
    subst hL; subst hr
    exact (twoChildren K rec hrec _ inF inB fk bk _ _ sa _ sb _ _ ea _ eb hf hm).1
  rw [hm3] at hf3
  obtain ⟨hf2, _, _, hpe1⟩ := setPath_ok _ _ _ hf3
  have hpe : ∀ j, 0 ≤ j → m3.pe j = if j = mid + 1 then c + 1 else m2.pe j := by
    intro j hj; rw [hm3, hpe1 j hj]
  obtain ⟨_, _, hframe, hatsa, hsegL, hsegR, hmids, hsaR⟩ :=
    alnCase' K rec hrec m2 m3 L r inF inB fk bk .GB .A sa (mid - 1) sb c (mid + 1) ea (c + 1) eb hL hr hf hm
      h0 h0b (by omega) (by omega) (by omega) (by omega) (by omega) (by omega) hpre
      (fun j hj h => by rw [hpe j hj, if_neg (by omega)])
      (by rw [hpe sa h0, if_neg (by omega)]; exact Or.inl rfl)
      (fun j h1 h2 => by rw [hpe j (by omega), if_neg (by omega)])
      (fun j h1 h2 => by rw [hpe j (by omega), if_neg (by omega)])
  refine ⟨hf2, hframe, hatsa, ?_⟩
  have hPmid : mid ≠ sa → r.pe mid = -1 := fun h => by
    rw [hmids mid (by omega) (by omega), hpe mid (by omega), if_neg (by omega)]
    exact hpre mid (by omega) (by omega)
  have hPmid1 : r.pe (mid + 1) = c + 1 := by
    rcases hsaR with h | ⟨_, h⟩
    · rw [h, hpe (mid + 1) (by omega), if_pos rfl]
    · exact h
  have hleft := leftGB r.pe eb sa sb mid c fk hm1 (by omega) hLA.1
    (fun h => ⟨(hsegL (hLA.2 h)).2.2, hPmid h⟩)
  have hn : (ea - sa).toNat = (mid - sa).toNat + ((ea - (mid + 1)).toNat + 1) := by omega
  rw [hn]
  refine tailStep r.pe eb bk _ _ sa sb mid c (c + 1) fk .GB .A hleft (by omega) ?_ (hsegR hR).2.2
  rw [hPmid1]
  exact segStep_succ eb c .GB (by omega) (by omega)

theorem casePost_runPost (x m2 r : Mem φ α) (hpe : m2.pe = x.pe)
    (h : CasePost m2 r.pe x.fk x.bk x.starta x.enda x.startb x.endb) : RunPost x r :=
  ⟨fun i hi hh => by rw [← hpe]; exact h.1 i hi hh, by rw [← hpe]; exact h.2.1, fun _ _ => h.2.2⟩

section
variable (K : Kernels φ α) (rec : Mem φ α → Mem φ α) (m : Mem φ α) (inF inB : States α) (fk bk : Kind)
  (a b c d mid meet : Int)

theorem alnContinue_1 : alnContinue K rec m inF inB fk bk a b c d mid meet 1 =
    rec (alnBwd K (rec (alnFwd K ((m.setPath mid meet).setPath (mid + 1) (meet + 1)) inF fk .A a (mid - 1) c (meet - 1)))
      inB bk .A (mid + 1) b (meet + 1) d) := by simp [alnContinue]
theorem alnContinue_2 : alnContinue K rec m inF inB fk bk a b c d mid meet 2 =
    rec (alnBwd K (rec (alnFwd K (m.setPath mid meet) inF fk .A a (mid - 1) c (meet - 1)))
      inB bk .GA mid b (meet + 1) d) := by simp [alnContinue]
theorem alnContinue_3 : alnContinue K rec m inF inB fk bk a b c d mid meet 3 =
    rec (alnBwd K (rec (alnFwd K (m.setPath mid meet) inF fk .A a (mid - 1) c (meet - 1)))
      inB bk .GB (mid + 1) b meet d) := by simp [alnContinue]
theorem alnContinue_5 : alnContinue K rec m inF inB fk bk a b c d mid meet 5 =
    rec (alnBwd K (rec (alnFwd K (m.setPath (mid + 1) (meet + 1)) inF fk .GA a mid c (meet - 1)))
      inB bk .A (mid + 1) b (meet + 1) d) := by simp [alnContinue]
theorem alnContinue_6 : alnContinue K rec m inF inB fk bk a b c d mid meet 6 =
    rec (alnBwd K (rec (alnFwd K m inF fk .GB a (mid - 1) c meet))
      inB bk .GB (mid + 1) b meet d) := by simp [alnContinue]
theorem alnContinue_7 : alnContinue K rec m inF inB fk bk a b c d mid meet 7 =
    rec (alnBwd K (rec (alnFwd K (m.setPath (mid + 1) (meet + 1)) inF fk .GB a (mid - 1) c meet))
      inB bk .A (mid + 1) b (meet + 1) d) := by simp [alnContinue]
end

/-- the invariant of the serial controller, for every fuel -/
theorem runnerSerial_recOK (K : Kernels φ α) (n : Nat) : RecOK (runnerSerial K false n) := by
  induction n with
  | zero => intro x hf _; simp [runnerSerial] at hf
  | succ n ih =>
    intro x hf hm
    rw [runnerSerial] at hf hm ⊢
    by_cases hxf : x.fault = true
    · rw [if_pos hxf] at hf; rw [hxf] at hf; exact absurd hf (by decide)
    rw [if_neg hxf] at hf hm ⊢
    by_cases ha : x.starta ≥ x.enda
    · rw [if_pos ha] at hf hm ⊢
      exact ⟨hf, hm, fun _ => rfl, fun _ _ _ => ⟨fun _ _ _ => rfl, Or.inl rfl, fun h => absurd h (by omega)⟩⟩
    rw [if_neg ha] at hf hm ⊢
    by_cases hb : x.startb ≥ x.endb
    · rw [if_pos hb] at hf hm ⊢
      exact ⟨hf, hm, fun _ => rfl, fun _ _ _ => ⟨fun _ _ _ => rfl, Or.inl rfl, fun _ h => absurd h (by omega)⟩⟩
    rw [if_neg hb] at hf hm ⊢
    unfold runnerBody at hf hm ⊢
    simp only [Bool.false_eq_true, if_false] at hf hm ⊢
    cases hstep : K.step x.f x.b x.starta ((x.enda - x.starta) / 2 + x.starta) x.enda x.startb x.endb with
    | none => simp [hstep] at hf
    | some ks =>
      simp only [hstep] at hf hm ⊢
      obtain ⟨hf2, hm2⟩ := alnContinue_mono K _ ih _ _ _ _ _ _ _ _ _ _ _ _ hf hm
      have hm2' : x.mon = true ∧ meetupContract x.fk x.bk x.starta x.enda x.startb x.endb
          ((x.enda - x.starta) / 2 + x.starta) ks.meet ks.transition = true := by
        simpa using hm2
      refine ⟨hf2, hm2'.1, fun h => absurd h (by omega), fun h0 h0b hpre => ?_⟩
      obtain ⟨hcb, hce, hcases⟩ := contract_unfold _ _ _ _ _ _ _ _ _ hm2'.2
      have hlt : x.starta < x.enda := by omega
      refine casePost_runPost x _ _ rfl ?_
      rcases hcases with ⟨t, c1, c2, c3⟩ | ⟨t, c1, c2, c3⟩ | ⟨t, c2, c3⟩ | ⟨t, c1, c2, c3⟩ | ⟨t, c2, c3⟩ | ⟨t, c1, c2, c3⟩
      · rw [t, alnContinue_1] at hf hm ⊢
        exact (case1 K _ ih _ _ _ _ _ _ _ _ _ _ _ _ _ _ rfl rfl rfl hf hm h0 hlt rfl h0b hpre hcb c1 c2 c3).2
      · rw [t, alnContinue_2] at hf hm ⊢
        exact (case2 K _ ih _ _ _ _ _ _ _ _ _ _ _ _ _ _ rfl rfl rfl hf hm h0 hlt rfl h0b hpre hcb c1 c2 c3).2
      · rw [t, alnContinue_3] at hf hm ⊢
        exact (case3 K _ ih _ _ _ _ _ _ _ _ _ _ _ _ _ _ rfl rfl rfl hf hm h0 hlt rfl h0b hpre hcb hce c2 c3).2
      · rw [t, alnContinue_5] at hf hm ⊢
        exact (case5 K _ ih _ _ _ _ _ _ _ _ _ _ _ _ _ _ rfl rfl rfl hf hm h0 hlt rfl h0b hpre hcb c1 c2 c3).2
      · rw [t, alnContinue_6] at hf hm ⊢
        exact (case6 K _ ih _ _ _ _ _ _ _ _ _ _ _ _ _ rfl rfl hf hm h0 hlt rfl h0b hpre hcb hce c2 c3).2
      · rw [t, alnContinue_7] at hf hm ⊢
        exact (case7 K _ ih _ _ _ _ _ _ _ _ _ _ _ _ _ _ rfl rfl rfl hf hm h0 hlt rfl h0b hpre hcb c1 c2 c3).2

/-!
Part 4: the run-time form of part 1 — `aln_runner` equals `aln_runner_serial` on every run whose meetup
results all satisfied the contract (in particular: were among the six transitions).
-/

theorem runnerSerial_deg_of_mon (K : Kernels φ α) (n : Nat) (m : Mem φ α)
    (hf : (runnerSerial K false n m).fault = false) (hm : (runnerSerial K false n m).mon = true) :
    (runnerSerial K false n m).Deg := by
  induction n generalizing m with
  | zero => simp [runnerSerial] at hf
  | succ n ih =>
    rw [runnerSerial] at hf hm ⊢
    by_cases hxf : m.fault = true
    · rw [if_pos hxf] at hf; rw [hxf] at hf; exact absurd hf (by decide)
    rw [if_neg hxf] at hf hm ⊢
    by_cases ha : m.starta ≥ m.enda
    · rw [if_pos ha]; exact Or.inl ha
    rw [if_neg ha] at hf hm ⊢
    by_cases hb : m.startb ≥ m.endb
    · rw [if_pos hb]; exact Or.inr hb
    rw [if_neg hb] at hf hm ⊢
    unfold runnerBody at hf hm ⊢
    simp only [Bool.false_eq_true, if_false] at hf hm ⊢
    cases hstep : K.step m.f m.b m.starta ((m.enda - m.starta) / 2 + m.starta) m.enda m.startb m.endb with
    | none => simp [hstep] at hf
    | some ks =>
      simp only [hstep] at hf hm ⊢
      obtain ⟨_, hm2⟩ := alnContinue_mono K _ (runnerSerial_recOK K n) _ _ _ _ _ _ _ _ _ _ _ _ hf hm
      have hm2' : m.mon = true ∧ meetupContract m.fk m.bk m.starta m.enda m.startb m.endb
          ((m.enda - m.starta) / 2 + m.starta) ks.meet ks.transition = true := by
        simpa using hm2
      obtain ⟨_, _, hcases⟩ := contract_unfold _ _ _ _ _ _ _ _ _ hm2'.2
      rcases hcases with ⟨t, _⟩ | ⟨t, _⟩ | ⟨t, _⟩ | ⟨t, _⟩ | ⟨t, _⟩ | ⟨t, _⟩
      · rw [t, alnContinue_1] at hf hm ⊢; exact ih _ hf hm
      · rw [t, alnContinue_2] at hf hm ⊢; exact ih _ hf hm
      · rw [t, alnContinue_3] at hf hm ⊢; exact ih _ hf hm
      · rw [t, alnContinue_5] at hf hm ⊢; exact ih _ hf hm
      · rw [t, alnContinue_6] at hf hm ⊢; exact ih _ hf hm
      · rw [t, alnContinue_7] at hf hm ⊢; exact ih _ hf hm

theorem twoChildren_eq (K : Kernels φ α) (R S : Mem φ α → Mem φ α) (hS : RecOK S)
    (ih : ∀ x, (S x).fault = false → (S x).mon = true → R x = S x)
    (m3 : Mem φ α) (inF inB : States α) (fk bk bkL fkR : Kind) (sa eaL sb ebL saR ea sbR eb : Int)
    (hf : (S (alnBwd K (S (alnFwd K m3 inF fk bkL sa eaL sb ebL)) inB bk fkR saR ea sbR eb)).fault = false)
    (hm : (S (alnBwd K (S (alnFwd K m3 inF fk bkL sa eaL sb ebL)) inB bk fkR saR ea sbR eb)).mon = true) :
    R (alnBwd K (R (alnFwd K m3 inF fk bkL sa eaL sb ebL)) inB bk fkR saR ea sbR eb) =
      S (alnBwd K (S (alnFwd K m3 inF fk bkL sa eaL sb ebL)) inB bk fkR saR ea sbR eb) := by
  obtain ⟨h1, h2, _⟩ := hS _ hf hm
  simp only [alnBwd_fault, alnBwd_mon] at h1 h2
  rw [ih _ h1 h2, ih _ hf hm]

/-- run-time form: on a serial run without fault whose meetup results all satisfied the contract,
`aln_runner` (with its fall-through) computes exactly the same memory -/
theorem runner_eq_runnerSerial_of_mon (K : Kernels φ α) (n : Nat) (m : Mem φ α)
    (hf : (runnerSerial K false n m).fault = false) (hm : (runnerSerial K false n m).mon = true) :
    runner K false n m = runnerSerial K false n m := by
  induction n generalizing m with
  | zero => simp [runnerSerial] at hf
  | succ n ih =>
    rw [runner]
    by_cases hxf : m.fault = true
    · rw [if_pos hxf, runnerSerial, if_pos hxf]
    rw [if_neg hxf]
    by_cases hs : m.enda - m.starta < 500
    · simp only [hs, if_true]
      have hd := runnerSerial_deg_of_mon K (n + 1) m hf hm
      have hf' : ¬ (runnerSerial K false (n + 1) m).fault = true := by simp [hf]
      rw [if_neg hf']
      rcases hd with h | h
      · rw [if_pos h]
      · by_cases ha : (runnerSerial K false (n + 1) m).starta ≥ (runnerSerial K false (n + 1) m).enda
        · rw [if_pos ha]
        · rw [if_neg ha, if_pos h]
    · simp only [hs, if_false]
      rw [if_neg hxf]
      rw [runnerSerial] at hf hm ⊢
      rw [if_neg hxf] at hf hm ⊢
      by_cases ha : m.starta ≥ m.enda
      · rw [if_pos ha, if_pos ha]
      rw [if_neg ha] at hf hm ⊢
      rw [if_neg ha]
      by_cases hb : m.startb ≥ m.endb
      · rw [if_pos hb, if_pos hb]
      rw [if_neg hb] at hf hm ⊢
      rw [if_neg hb]
      unfold runnerBody at hf hm ⊢
      simp only [Bool.false_eq_true, if_false] at hf hm ⊢
      cases hstep : K.step m.f m.b m.starta ((m.enda - m.starta) / 2 + m.starta) m.enda m.startb m.endb with
      | none => rfl
      | some ks =>
        simp only [hstep] at hf hm ⊢
        have hS := runnerSerial_recOK K n
        obtain ⟨_, hm2⟩ := alnContinue_mono K _ hS _ _ _ _ _ _ _ _ _ _ _ _ hf hm
        have hm2' : m.mon = true ∧ meetupContract m.fk m.bk m.starta m.enda m.startb m.endb
            ((m.enda - m.starta) / 2 + m.starta) ks.meet ks.transition = true := by
          simpa using hm2
        obtain ⟨_, _, hcases⟩ := contract_unfold _ _ _ _ _ _ _ _ _ hm2'.2
        rcases hcases with ⟨t, _⟩ | ⟨t, _⟩ | ⟨t, _⟩ | ⟨t, _⟩ | ⟨t, _⟩ | ⟨t, _⟩
        · rw [t, alnContinue_1] at hf hm; rw [t, alnContinue_1, alnContinue_1]
          exact twoChildren_eq K _ _ hS ih _ _ _ _ _ _ _ _ _ _ _ _ _ _ _ hf hm
        · rw [t, alnContinue_2] at hf hm; rw [t, alnContinue_2, alnContinue_2]
          exact twoChildren_eq K _ _ hS ih _ _ _ _ _ _ _ _ _ _ _ _ _ _ _ hf hm
        · rw [t, alnContinue_3] at hf hm; rw [t, alnContinue_3, alnContinue_3]
          exact twoChildren_eq K _ _ hS ih _ _ _ _ _ _ _ _ _ _ _ _ _ _ _ hf hm
        · rw [t, alnContinue_5] at hf hm; rw [t, alnContinue_5, alnContinue_5]
          exact twoChildren_eq K _ _ hS ih _ _ _ _ _ _ _ _ _ _ _ _ _ _ _ hf hm
        · rw [t, alnContinue_6] at hf hm; rw [t, alnContinue_6, alnContinue_6]
          exact twoChildren_eq K _ _ hS ih _ _ _ _ _ _ _ _ _ _ _ _ _ _ _ hf hm
        · rw [t, alnContinue_7] at hf hm; rw [t, alnContinue_7, alnContinue_7]
          exact twoChildren_eq K _ _ hS ih _ _ _ _ _ _ _ _ _ _ _ _ _ _ _ hf hm
