import KalignModel.Lemmas.LevelBound
/-!
# A kernel on a sub-rectangle reads like the kernel on the whole problem

`walk_local_global`: a kernel configuration `cL` for a sub-rectangle placed at offset `(oa, ob)` inside the
configuration `cG` of the whole problem (both flags of `cG` set) walks a column list with the same charges as `cG`
does from the shifted node — provided the *row* test of the kernel is right for this rectangle:

    first row of the rectangle:  (ob = 0 ↔ oa = 0)  or the walk is in kind `GB`

(the kernel decides "a gap-in-a run in my first row is terminal" by `startb == 0`, the truth is `starta == 0`; the
recursion only reaches rectangles where the two agree or where no gap-in-a column can stand in the first row).
-/
namespace Kalign

structure SubCfg (cL cG : KCfg) (oa ob : Nat) : Prop where
  hn : ob + cL.n ≤ cG.n
  h1 : 1 ≤ cL.n
  tF : cL.tF = true ↔ ob = 0
  tL : cL.tL = true ↔ ob + cL.n = cG.n
  gF : cG.tF = true
  gL : cG.tL = true
  gpo : cL.gpo = cG.gpo
  gpe : cL.gpe = cG.gpe
  tgpe : cL.tgpe = cG.tgpe
  sc : ∀ p k, cL.sc p k = cG.sc (oa + p) (ob + k)

theorem SubCfg.termA {cL cG : KCfg} {oa ob : Nat} (h : SubCfg cL cG oa ob) (p : Nat)
    (hrow : p = 0 → (ob = 0 ↔ oa = 0)) : cL.termA p = cG.termA (oa + p) := by
  have hF := h.tF
  have hG := h.gF
  rw [Bool.eq_iff_iff]
  simp only [KCfg.termA, Bool.and_eq_true, decide_eq_true_eq, hG, and_true]
  constructor
  · rintro ⟨hp, ht⟩
    have := (hrow hp).mp (hF.mp ht)
    omega
  · intro hz
    have hp : p = 0 := by omega
    exact ⟨hp, hF.mpr ((hrow hp).mpr (by omega))⟩

theorem SubCfg.termB {cL cG : KCfg} {oa ob : Nat} (h : SubCfg cL cG oa ob) (k : Nat) (hk : k ≤ cL.n) :
    cL.termB k = cG.termB (ob + k) := by
  have hF := h.tF
  have hL := h.tL
  have hn := h.hn
  have h1 := h.h1
  rw [Bool.eq_iff_iff]
  simp only [KCfg.termB, Bool.or_eq_true, Bool.and_eq_true, decide_eq_true_eq, h.gF, h.gL, and_true]
  constructor
  · rintro (⟨hk0, ht⟩ | ⟨hkn, ht⟩)
    · left; have := hF.mp ht; omega
    · right; have := hL.mp ht; omega
  · rintro (hz | hz)
    · left; exact ⟨by omega, hF.mpr (by omega)⟩
    · right
      have hkn : k = cL.n := by omega
      exact ⟨hkn, hL.mpr (by omega)⟩

theorem walk_local_global {cL cG : KCfg} {oa ob : Nat} (h : SubCfg cL cG oa ob) (X : List Col) (p k : Nat) (st : Kind)
    (hok : walkOK cL p k st X = true) (hrow : p = 0 → ((ob = 0 ↔ oa = 0) ∨ st = .GB)) :
    walkOK cG (oa + p) (ob + k) st X = true ∧ walkSc cL p k st X = walkSc cG (oa + p) (ob + k) st X := by
  induction X generalizing p k st with
  | nil => exact ⟨rfl, rfl⟩
  | cons c cs ih =>
    simp only [walkOK, Bool.and_eq_true] at hok
    obtain ⟨hstep, hrest⟩ := hok
    have hn := h.hn
    have hp' : oa + stepP p c = stepP (oa + p) c := by cases c <;> simp [stepP] <;> omega
    have hk' : ob + stepK k c = stepK (ob + k) c := by cases c <;> simp [stepK] <;> omega
    have hrow' : stepP p c = 0 → ((ob = 0 ↔ oa = 0) ∨ colKind st c = .GB) := by
      intro hz
      cases c with
      | both => simp [stepP] at hz
      | gapB => simp [stepP] at hz
      | skip => simp [stepOK] at hstep
      | gapA =>
        simp only [stepP] at hz
        simp only [stepOK, Bool.and_eq_true, bne_iff_ne, ne_eq] at hstep
        rcases hrow hz with h' | h'
        · exact Or.inl h'
        · exact absurd h' hstep.2
    obtain ⟨ih1, ih2⟩ := ih _ _ _ hrest hrow'
    rw [hp', hk'] at ih1 ih2
    simp only [walkOK, walkSc, Bool.and_eq_true]
    refine ⟨⟨?_, ih1⟩, ?_⟩
    · cases c with
      | skip => simp [stepOK] at hstep
      | both => simp only [stepOK, decide_eq_true_eq] at hstep ⊢; omega
      | gapA =>
        simp only [stepOK, Bool.and_eq_true, decide_eq_true_eq, bne_iff_ne, ne_eq] at hstep ⊢
        exact ⟨by omega, hstep.2⟩
      | gapB =>
        simp only [stepOK, Bool.and_eq_true, decide_eq_true_eq, bne_iff_ne, ne_eq] at hstep ⊢
        exact ⟨by omega, hstep.2⟩
    · rw [ih2]
      congr 1
      cases c with
      | skip => rfl
      | both => simp only [stepSc, h.sc, h.gpo]
      | gapA =>
        simp only [stepOK, Bool.and_eq_true, decide_eq_true_eq, bne_iff_ne, ne_eq] at hstep
        have hr : p = 0 → (ob = 0 ↔ oa = 0) := fun hz => by
          rcases hrow hz with h' | h'
          · exact h'
          · exact absurd h' hstep.2
        simp only [stepSc, h.termA p hr, h.gpo, h.gpe, h.tgpe]
      | gapB =>
        simp only [stepOK, Bool.and_eq_true, decide_eq_true_eq, bne_iff_ne, ne_eq] at hstep
        simp only [stepSc, h.termB k hstep.1, h.gpo, h.gpe, h.tgpe]

end Kalign
