import KalignModel.Lemmas.SoftExact4
import KalignModel.Lemmas.OptCut
/-!
# One Hirschberg level on the software binary32 returns a cut of the robustly optimal alignment

`ssForward_emb`, `ssBackward_emb`: cell transfer for the two sequence–sequence kernels started from one-hot states
(every `SoftF32` cell is `half h` where the exact table `absTab` has `some (1000·h)`, sentinel-like where it has `−∞`).
`soft_opt_cut`: the counterpart of `opt_cut` for the `SoftF32` kernels: if `P = P1 ++ X ++ P2` beats every other alignment by the
safe margin with `len_b + 1000` (instead of `len_b`) for the tie-break term, the `(meet, transition)` returned by the `SoftF32`
meetup on the rectangle of `X` is an admissible cut of `X`.
-/
namespace Kalign
open SoftF32

/-- one-hot start states on `SoftF32` -/
def hotS (k : Kind) : States SoftF32 :=
  match k with
  | .A => oneHotA
  | .GA => oneHotGA
  | .GB => oneHotGB

theorem hotS_eq_st (ap : AlnParam SoftF32) (ops : Operands SoftF32) (lenA lenB : Nat) (k : Kind) :
    (realKernels ap ops lenA lenB).st k = hotS k := by
  cases k <;> rfl

theorem stEmb_hotS (N : Nat) (k : Kind) : StEmb N (hotS k) (hot k) := by
  cases k
  · exact ⟨emb_zero N, emb_negInf N, emb_negInf N⟩
  · exact ⟨emb_negInf N, emb_zero N, emb_negInf N⟩
  · exact ⟨emb_negInf N, emb_negInf N, emb_zero N⟩

section
variable {U : Nat} {ap : AlnParam SoftF32} {apE : AlnParam ExactScore}

/-- **cell transfer, forward kernel** -/
theorem ssForward_emb (hd : DyadicParam U ap apE) {gpo gpe tgpe : Int} {s : Nat → Nat → Int}
    (hap : ApOK apE gpo gpe tgpe s) (seq1 seq2 : Array Nat) (r : Rect) (hb : r.startb < r.endb) (fk : Kind)
    (hL : U * ((r.enda - r.starta) + (r.endb - r.startb)) < 16777216) :
    ∃ F : Nat → States SoftF32,
      ssForward ap seq1 seq2 r (hotS fk) = (List.range (r.endb - r.startb + 1)).map F ∧
      ∀ k, k ≤ r.endb - r.startb →
        StEmb (U * ((r.enda - r.starta) + k)) (F k)
          (absTab (cfgF gpo gpe tgpe s seq1 seq2 r) (hot fk) (r.enda - r.starta) k) := by
  refine ⟨_, ssForward_eq_genTab ap seq1 seq2 r hb (hotS fk), ?_⟩
  intro k hk
  have h := genTab_emb U (ssGaInit ap (r.startb == 0)) (ssGaInit apE (r.startb == 0)) (ssGaInit_emb hd _)
    (r.endb - r.startb) (hotS fk) (hot fk) (ssOpsF ap seq1 seq2 r) (ssOpsF apE seq1 seq2 r)
    (fun p => ssOpsF_emb hd seq1 seq2 r p) ((r.enda - r.starta) + (r.endb - r.startb)) hL (stEmb_hotS _ fk)
    (r.enda - r.starta) k (by omega)
  have e1 := ssForward_eq_genTab apE seq1 seq2 r hb (hot fk)
  have e2 := ssForward_eq_absTab apE gpo gpe tgpe s hap seq1 seq2 r hb (hot fk)
  rw [e1] at e2
  have e3 := (List.map_inj_left.1 e2) k (List.mem_range.2 (by omega))
  rw [← e3]
  exact h

/-- **cell transfer, backward kernel** (cell `k` of the returned list is cell `n − k` of the table) -/
theorem ssBackward_emb (hd : DyadicParam U ap apE) {gpo gpe tgpe : Int} {s : Nat → Nat → Int}
    (hap : ApOK apE gpo gpe tgpe s) (seq1 seq2 : Array Nat) (r : Rect) (hb : r.startb < r.endb)
    (ha : r.starta ≤ r.enda) (bk : Kind)
    (hL : U * ((r.enda - r.starta) + (r.endb - r.startb)) < 16777216) :
    ∃ G : Nat → States SoftF32,
      ssBackward ap seq1 seq2 r (hotS bk) = (List.range (r.endb - r.startb + 1)).map G ∧
      ∀ k, k ≤ r.endb - r.startb →
        StEmb (U * ((r.enda - r.starta) + (r.endb - r.startb - k))) (G k)
          (absTab (cfgB gpo gpe tgpe s seq1 seq2 r) (hot bk) (r.enda - r.starta) (r.endb - r.startb - k)) := by
  refine ⟨fun k => genTab (ssGaInit ap (r.endb == r.lenB)) (r.endb - r.startb) (hotS bk) (ssOpsB ap seq1 seq2 r)
    (r.enda - r.starta) (r.endb - r.startb - k), ?_, ?_⟩
  · rw [ssBackward_eq_genTab ap seq1 seq2 r hb (hotS bk), map_range_reverse]
  · intro k hk
    have h := genTab_emb U (ssGaInit ap (r.endb == r.lenB)) (ssGaInit apE (r.endb == r.lenB)) (ssGaInit_emb hd _)
      (r.endb - r.startb) (hotS bk) (hot bk) (ssOpsB ap seq1 seq2 r) (ssOpsB apE seq1 seq2 r)
      (fun p => ssOpsB_emb hd seq1 seq2 r p) ((r.enda - r.starta) + (r.endb - r.startb)) hL (stEmb_hotS _ bk)
      (r.enda - r.starta) (r.endb - r.startb - k) (by omega)
    have e1 := ssBackward_eq_genTab apE seq1 seq2 r hb (hot bk)
    have e2 := ssBackward_eq_absTab apE gpo gpe tgpe s hap seq1 seq2 r hb ha (hot bk)
    rw [e1] at e2
    have e2' := List.reverse_inj.1 e2
    have e3 := (List.map_inj_left.1 e2') (r.endb - r.startb - k) (List.mem_range.2 (by omega))
    rw [← e3]
    exact h

theorem ole_some_left {x : Int} {y : Option Int} (h : ole (some x) y) : ∃ y', y = some y' ∧ x ≤ y' := by
  cases y with
  | none => simp at h
  | some y' => exact ⟨y', rfl, by simpa using h⟩

theorem evC_some {cF : KCfg} {ef eb : States ExactScore} {k : Nat} {t : Int} {v : Int}
    (h : evC cF ef eb k t = some v) :
    ∃ a b, ef.get (fkOf t) = some a ∧ eb.get (bkOf t) = some b ∧ v = a + b - joinCost cF t k := by
  unfold evC at h
  cases ha : ef.get (fkOf t) with
  | none => rw [ha] at h; simp at h
  | some a =>
    cases hb : eb.get (bkOf t) with
    | none => rw [ha, hb] at h; simp at h
    | some b =>
      rw [ha, hb] at h
      simp only [oplus_some, osub_some, Option.some.injEq] at h
      exact ⟨a, b, rfl, rfl, h.symm⟩

theorem size_arith {U lenA lenB m1 m2 n k : Nat} (hk : k ≤ n) (hm : m1 + m2 ≤ lenA) (hn : n ≤ lenB)
    (hsize : U * (lenA + lenB + 1) + lenB / 1000 + 1 < 16777216) :
    U * (m1 + k) + U * (m2 + (n - k)) + U + (n / 1000 + 1) < 16777216 := by
  have e : U * (m1 + k) + U * (m2 + (n - k)) + U = U * (m1 + m2 + n + 1) := by
    rw [← Nat.mul_add, ← Nat.mul_succ]
    congr 1
    omega
  rw [e]
  have h1 : U * (m1 + m2 + n + 1) ≤ U * (lenA + lenB + 1) := Nat.mul_le_mul_left U (by omega)
  have h2 : n / 1000 ≤ lenB / 1000 := Nat.div_le_div_right hn
  omega

theorem size_arith_tab {U lenA lenB m n : Nat} (hm : m ≤ lenA) (hn : n ≤ lenB)
    (hsize : U * (lenA + lenB + 1) + lenB / 1000 + 1 < 16777216) : U * (m + n) < 16777216 := by
  have h1 : U * (m + n) ≤ U * (lenA + lenB + 1) := Nat.mul_le_mul_left U (by omega)
  omega

theorem tie_arith (n lenB : Nat) (hn : n ≤ lenB) :
    (1000 : Int) * ((n / 1000 + 1 : Nat) : Int) ≤ (n : Int) + 1000 ∧ (n : Int) + 1000 ≤ (lenB : Int) + 1000 := by
  omega

/-- **the `SoftF32` meetup returns a cut of the robustly optimal alignment** (dyadic parameters) -/
theorem soft_opt_cut (hd : DyadicParam U ap apE) (gpo gpe tgpe : Int) (s : Nat → Nat → Int)
    (hap : ApOK apE gpo gpe tgpe s) (seq1 seq2 : Array Nat) (lenA lenB : Nat)
    (hgpo : 0 ≤ gpo) (hgpe : 0 ≤ gpe) (htgpe : 0 ≤ tgpe)
    (hsize : U * (lenA + lenB + 1) + lenB / 1000 + 1 < 16777216) (hlenB : lenB < 4194304)
    (sa mid ea sb eb : Nat) (h1 : sa ≤ mid) (h2 : mid < ea) (h3 : ea ≤ lenA) (h4 : sb < eb) (h5 : eb ≤ lenB)
    (P1 X P2 : List Col)
    (hadj : adjOK .A (P1 ++ X ++ P2) = true)
    (hA : consA (P1 ++ X ++ P2) = lenA) (hB : consB (P1 ++ X ++ P2) = lenB)
    (hP1a : consA P1 = sa) (hP1b : consB P1 = sb) (hXa : consA X = ea - sa) (hXb : consB X = eb - sb)
    (hInvF : (sb = 0 ↔ sa = 0) ∨ lastKind .A P1 = .GB)
    (hInvB : (eb = lenB ↔ ea = lenA) ∨ firstKind .A P2 = .GB)
    (w : STW) (hw : w = ssW gpo gpe tgpe s seq1 seq2 lenA lenB)
    (hmargin : ∀ Q, adjOK .A Q = true → consA Q = lenA → consB Q = lenB → Q ≠ P1 ++ X ++ P2 →
      w.walk 0 0 .A Q + ((lenB : Int) + 1000) <
        w.walk 0 0 .A (P1 ++ X ++ P2) - gpo * (nterm (P1 ++ X ++ P2) : Int) - w.slackLo - w.slackHi)
    (cF cB : KCfg) (fk bk : Kind)
    (hcF : cF = cfgF gpo gpe tgpe s seq1 seq2 ⟨sa, mid, sb, eb, lenB⟩)
    (hcB : cB = cfgB gpo gpe tgpe s seq1 seq2 ⟨mid, ea, sb, eb, lenB⟩)
    (hfkd : fk = lastKind .A P1) (hbkd : bk = firstKind .A P2)
    (res : MeetResult SoftF32)
    (hres : res = meetupRun (ssMeetOps ap ⟨sa, mid, sb, eb, lenB⟩) sb eb
      (ssForward ap seq1 seq2 ⟨sa, mid, sb, eb, lenB⟩ (hotS fk))
      (ssBackward ap seq1 seq2 ⟨mid, ea, sb, eb, lenB⟩ (hotS bk))) :
    ∃ X1 X2 k t, X = X1 ++ X2 ∧ res.meet = ((sb + k : Nat) : Int) ∧ res.transition = t ∧ Adm (eb - sb) k t ∧
      consA X1 = mid - sa ∧ consB X1 = k ∧ consA X2 = ea - mid ∧ consB X1 + consB X2 = eb - sb ∧
      lastKind fk X1 = fkOf t ∧ lastKind bk X2.reverse = bkOf t ∧
      walkOK cF 0 0 fk X1 = true ∧ walkOK cB 0 0 bk X2.reverse = true := by
  subst hw
  have hcn : cF.n = eb - sb := by rw [hcF]; rfl
  have hcBn : cB.n = eb - sb := by rw [hcB]; rfl
  have hnn : cB.n = cF.n := by rw [hcF, hcB]; rfl
  have hn : 1 ≤ cF.n := by rw [hcn]; exact Nat.sub_pos_of_lt h4
  -- adjacency of the pieces of `P`
  have hadj' := hadj
  rw [adjOK_append, adjOK_append, Bool.and_eq_true, Bool.and_eq_true] at hadj'
  obtain ⟨⟨hadjP1, hadjX⟩, hadjP2⟩ := hadj'
  rw [lastKind_append, ← hfkd] at hadjP2
  rw [← hfkd] at hadjX
  have hskip := adjOK_noskip _ _ hadj
  have hsP2 : Col.skip ∉ P2 := fun h => hskip (by simp [h])
  have hcompatX : (lastKind fk X).compat bk = true := by
    cases hP2 : P2 with
    | nil => rw [hbkd, hP2]; simp [firstKind, Kind.compat_A_right]
    | cons c cs =>
      rw [hP2] at hadjP2 hsP2
      simp only [adjOK, Bool.and_eq_true, bne_iff_ne, ne_eq] at hadjP2
      rw [hbkd, hP2, firstKind_cons_noskip .A (lastKind fk X) c cs hadjP2.1.1]
      exact hadjP2.1.2
  have hAs := hA; have hBs := hB
  simp only [consA_append, consB_append] at hAs hBs
  -- (1) `X` itself has a cut; its two parts are dominated by the exact tables
  obtain ⟨X1p, X2p, tp, hXp, hadmp, hw1p, hA1p, hl1p, hw2p, hA2p, hBBp, hl2p⟩ :=
    cut_exists cF cB hnn fk bk X (mid - sa) (ea - mid) (ar_pos h2) hadjX hcompatX (ar_split h1 h2 hXa) (by rw [hcn]; exact hXb)
  have hr1p : runF cF (initP (hot fk) fk) X1p =
      ⟨mid - sa, consB X1p, fkOf tp, some (walkSc cF 0 0 fk X1p)⟩ := by
    rw [initP, hot_get_self, runF_some, hw1p, hA1p, hl1p]; simp
  have hr2p : runF cB (initP (hot bk) bk) X2p.reverse =
      ⟨ea - mid, cF.n - consB X1p, bkOf tp, some (walkSc cB 0 0 bk X2p.reverse)⟩ := by
    rw [initP, hot_get_self, runF_some, hw2p, consA_reverse, consB_reverse, hA2p, hl2p]
    simp only [Nat.zero_add, if_true, Int.zero_add]
    congr 1
    exact (ar_sub hBBp).symm
  have hkp : consB X1p ≤ eb - sb := by rw [← hcn]; exact ar_le_of_add hBBp
  have hFp : ole (some (walkSc cF 0 0 fk X1p)) ((absTab cF (hot fk) (mid - sa) (consB X1p)).get (fkOf tp)) := by
    have := abs_sound cF hn (hot fk) fk X1p
    rw [readAbs, hr1p] at this
    exact this
  have hBp : ole (some (walkSc cB 0 0 bk X2p.reverse))
      ((absTab cB (hot bk) (ea - mid) (eb - sb - consB X1p)).get (bkOf tp)) := by
    have := abs_sound cB (by omega) (hot bk) bk X2p.reverse
    rw [readAbs, hr2p, hcn] at this
    exact this
  obtain ⟨ap', hap', hap2⟩ := ole_some_left hFp
  obtain ⟨bp', hbp', hbp2⟩ := ole_some_left hBp
  -- the tables of the `SoftF32` kernels
  obtain ⟨F, hFeq, hFemb⟩ := ssForward_emb hd hap seq1 seq2 ⟨sa, mid, sb, eb, lenB⟩ h4 fk
    (size_arith_tab (m := mid - sa) (n := eb - sb) (by omega) (by omega) hsize)
  obtain ⟨G, hGeq, hGemb⟩ := ssBackward_emb hd hap seq1 seq2 ⟨mid, ea, sb, eb, lenB⟩ h4 (Nat.le_of_lt h2) bk
    (size_arith_tab (m := ea - mid) (n := eb - sb) (by omega) (by omega) hsize)
  simp only [] at hFeq hGeq hFemb hGemb
  rw [← hcF] at hFemb
  rw [← hcB] at hGemb
  rw [hFeq, hGeq] at hres
  have hrob := ssMeet_robust hd hap seq1 seq2 ⟨sa, mid, sb, eb, lenB⟩ ((eb - sb) / 1000 + 1)
    (fun k => U * ((mid - sa) + k)) (fun k => U * ((ea - mid) + (eb - sb - k))) F G
    (absTab cF (hot fk) (mid - sa)) (fun k => absTab cB (hot bk) (ea - mid) (eb - sb - k))
    (fun k hk => ⟨size_arith (m1 := mid - sa) (m2 := ea - mid) hk (by omega) (by omega) hsize, hFemb k hk, hGemb k hk,
      SoftF32.tie_le sb eb (sb + k) (by omega) (by simp only [] at hk; omega) (by omega)⟩)
  simp only [] at hrob
  rw [← hres, ← hcF] at hrob
  rcases hrob with ⟨_, hnone⟩ | ⟨k, t, v, hadm, hmeet, htrans, hev, hdom⟩
  · -- impossible: the cut of `X` has a finite exact value
    have := hnone (consB X1p) tp (by rw [← hcn]; exact hadmp)
    unfold evC at this
    rw [hap', hbp'] at this
    simp at this
  -- the exact value of the cut of `X`
  have hevP : evC cF (absTab cF (hot fk) (mid - sa) (consB X1p)) (absTab cB (hot bk) (ea - mid) (eb - sb - consB X1p))
      (consB X1p) tp = some (ap' + bp' - joinCost cF tp (consB X1p)) := by
    unfold evC
    rw [hap', hbp']
    rfl
  have hrobP := hdom (consB X1p) tp _ (by rw [← hcn]; exact hadmp) hevP
  -- (2) the winner is attained by a pair of walks
  obtain ⟨a', b', ha', hb', hv⟩ := evC_some hev
  have hkn : k ≤ eb - sb := hadm.le
  have hvalid := hadm.valid
  have hrun1 : ∃ k0F X1, runF cF (initP (hot fk) k0F) X1 = ⟨mid - sa, k, fkOf t, some a'⟩ := by
    rcases abs_attained cF hn (hot fk) (mid - sa) k (by omega) (fkOf t) with h | ⟨k0, cs, h⟩
    · rw [ha'] at h; simp at h
    · exact ⟨k0, cs, by rw [h, ha']⟩
  have hrun2 : ∃ k0B X2r, runF cB (initP (hot bk) k0B) X2r = ⟨ea - mid, eb - sb - k, bkOf t, some b'⟩ := by
    rcases abs_attained cB (by omega) (hot bk) (ea - mid) (eb - sb - k) (by omega) (bkOf t) with h | ⟨k0, cs, h⟩
    · rw [hb'] at h; simp at h
    · exact ⟨k0, cs, by rw [h, hb']⟩
  obtain ⟨k0F, X1, hrun1⟩ := hrun1
  obtain ⟨k0B, X2r, hrun2⟩ := hrun2
  obtain ⟨hw1, hv1, hA1, hB1, hl1⟩ := runF_hot cF fk k0F X1 _ _ _ _ hrun1
  obtain ⟨hw2, hv2, hA2, hB2, hl2⟩ := runF_hot cB bk k0B X2r _ _ _ _ hrun2
  have hX2rr : X2r.reverse.reverse = X2r := List.reverse_reverse _
  have hscoreP : levelRead cF cB fk bk X1p X2p tp - 1000 * (((eb - sb) / 1000 + 1 : Nat) : Int) ≤
      levelRead cF cB fk bk X1 X2r.reverse t - 0 := by
    unfold levelRead
    rw [hX2rr, hB1, ← hv1, ← hv2, ← hv]
    omega
  -- (3) the witness is `X`
  have hQX : X1 ++ X2r.reverse = X := by
    refine Classical.byContradiction fun hne => ?_
    have hs2r := adjOK_noskip _ _ (walkOK_adjOK cB X2r 0 0 bk hw2)
    have hX2rne : X2r ≠ [] := consA_pos_ne_nil (by rw [hA2]; exact ar_pos h2)
    have hadjX1 : adjOK fk X1 = true := walkOK_adjOK cF X1 0 0 fk hw1
    have hadjX2 : adjOK (fkOf t) X2r.reverse = true :=
      adjOK_reverse bk (fkOf t) X2r (walkOK_adjOK cB X2r 0 0 bk hw2) (by
        rw [hl2, Kind.compat_symm]; exact fk_bk_compat t hvalid)
    have hlastX2 : lastKind (fkOf t) X2r.reverse = firstKind .A X2r := by
      rw [lastKind_reverse _ _ hs2r]; exact firstKind_indep _ _ _ hX2rne hs2r
    have hadjP2' : adjOK (lastKind (fkOf t) X2r.reverse) P2 = true := by
      refine adjOK_change_start _ _ _ hadjP2 (fun _ => ?_)
      rw [hlastX2]
      have := walkOK_adjOK cB X2r 0 0 bk hw2
      cases hX : X2r with
      | nil => exact absurd hX hX2rne
      | cons c cs =>
        rw [hX] at this
        simp only [adjOK, Bool.and_eq_true, bne_iff_ne, ne_eq] at this
        rw [firstKind_cons_noskip .A bk c cs this.1.1, Kind.compat_symm, ← hbkd]
        exact this.1.2
    have hadjQ : adjOK .A (P1 ++ (X1 ++ X2r.reverse) ++ P2) = true := by
      rw [adjOK_append, adjOK_append, adjOK_append, lastKind_append, lastKind_append, hadjP1]
      rw [← hfkd, hadjX1, hl1, hadjX2, hadjP2']; rfl
    have hAQ : consA (P1 ++ (X1 ++ X2r.reverse) ++ P2) = lenA := by
      simp only [consA_append, consA_reverse]
      exact ar_sumA h1 h2 hAs hXa hA1 hA2
    have hBQ : consB (P1 ++ (X1 ++ X2r.reverse) ++ P2) = lenB := by
      simp only [consB_append, consB_reverse]
      exact ar_sumB hBs hXb (by rw [hB1]; exact hkn) (by rw [hB1, hB2])
    have hQne : P1 ++ (X1 ++ X2r.reverse) ++ P2 ≠ P1 ++ X ++ P2 := by
      intro h
      apply hne
      have := List.append_cancel_right h
      exact List.append_cancel_left this
    have hm := hmargin _ hadjQ hAQ hBQ hQne
    subst hcF hcB hfkd hbkd
    have hbP := sub_level_bounds gpo gpe tgpe s seq1 seq2 lenA lenB hgpo hgpe htgpe sa mid ea sb eb h1 h2 h3 h4 h5
      P1 X1p X2p P2 (by rw [← hXp]; exact hadj) (by rw [← hXp]; exact hA) (by rw [← hXp]; exact hB)
      hP1a hP1b hA1p hA2p (by rw [hBBp]; rfl) hInvF hInvB tp (by rw [← hcn]; exact hadmp) hl1p hl2p hw1p hw2p
    have hbQ := sub_level_bounds gpo gpe tgpe s seq1 seq2 lenA lenB hgpo hgpe htgpe sa mid ea sb eb h1 h2 h3 h4 h5
      P1 X1 X2r.reverse P2 hadjQ hAQ hBQ hP1a hP1b hA1 (by rw [consA_reverse]; exact hA2)
      (by rw [consB_reverse, hB1, hB2]; exact ar_kn hkn) hInvF hInvB t
      (by rw [hB1]; exact hadm) hl1 (by rw [hX2rr]; exact hl2) hw1 (by rw [hX2rr]; exact hw2)
    simp only at hbP hbQ
    rw [← hXp] at hbP
    have hta := tie_arith (eb - sb) lenB (by omega)
    exact margin_arith hm hbP.1 hbQ.2 hscoreP (Int.le_refl 0) hta.1 hta.2
  refine ⟨X1, X2r.reverse, k, t, hQX.symm, hmeet, htrans, hadm, hA1, hB1, by rw [consA_reverse]; exact hA2, ?_,
    hl1, by rw [hX2rr]; exact hl2, hw1, by rw [hX2rr]; exact hw2⟩
  rw [consB_reverse, hB1, hB2]
  exact ar_kn hkn

end
end Kalign
