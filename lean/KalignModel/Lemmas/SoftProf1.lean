import KalignModel.Lemmas.SoftExact7
/-!
# binary32 arithmetic of profiles of identical copies (slice AB, part 1)

What `make_profile_n`, `update_n` (along the diagonal), `set_gap_penalties_n` and the profile kernels compute on dyadic values:

* `add_neg_eq_sub`: `x + (−p) = x − p` is one and the same binary32 operation for every `x` (NaN, `±0`, `±∞` included), `p` not NaN;
* `neg_half_add`: `(−a/2) + (−b/2) = −(a+b)/2` for `a, b ≥ 0` (signed zero included: `−0 + −0 = −0`);
* `mul_neg_half_ofNat`: `(−a/2) · (float)k = −(a·k)/2`; `mul_ofNat_half`: `(float)k · (a/2) = (a·k)/2` (the operand order of the
  profile–profile dot product);
* `ofNat_eq_half`, `add_ofNat`: residue counts `(float)k` add exactly; `isNonzero_ofNat`, `isNonzero_zero`.
-/
set_option exponentiation.threshold 512
namespace Kalign.SoftF32

/-- `x + (−p)` and `x − p` are the same operation -/
theorem add_neg_eq_sub (x p : SoftF32) (hp : p.isNaN = false) : add x (neg p) = sub x p := by
  unfold sub
  rw [hp]
  by_cases hx : x.isNaN = true
  · simp only [hx, if_true]
    unfold add
    simp only [hx, if_true]
  · simp only [hx, Bool.false_eq_true, if_false]

theorem neg_finite {x : SoftF32} (h : x.isFinite = true) : (neg x).isFinite = true := by
  rw [isFinite_neg]; exact h

theorem neg_half_not_nan {a : Int} (ha : a.natAbs < 16777216) : (neg (half a)).isNaN = false := by
  rw [isNaN_neg]; exact half_not_nan ha

theorem neg_packZ (s0 : Bool) (z : Int) : neg (packZ s0 z) = packZ (!s0) (-z) := by
  apply eq_of_sign_mag
  · rw [sign_neg, sign_packZ, sign_packZ]
    by_cases h0 : z = 0
    · subst h0; simp
    · have h0' : ¬ (-z = 0) := by omega
      rw [if_neg h0, if_neg h0']
      by_cases hz : z < 0
      · simp [hz]; omega
      · simp [hz]; omega
  · rw [mag_neg, mag_packZ, mag_packZ]
    by_cases h0 : z = 0
    · subst h0; simp
    · have h0' : ¬ (-z = 0) := by omega
      rw [if_neg h0, if_neg h0', Int.natAbs_neg]

/-- `−(a/2)` for `a ≠ 0` is the dyadic value `(−a)/2` -/
theorem neg_half_of_ne {a : Int} (ha : a ≠ 0) : neg (half a) = half (-a) := by
  unfold half
  rw [neg_packZ, ← Int.neg_mul]
  unfold packZ
  have h1 : ¬ (-a * ((2 ^ 148 : Nat) : Int) = 0) := fun e => ha (by have := mul148_eq_zero.1 e; omega)
  rw [if_neg h1, if_neg h1]

/-- **sums of negated penalties are exact** (same sign, so also the sign of a zero sum is right) -/
theorem neg_half_add {a b : Int} (ha0 : 0 ≤ a) (hb0 : 0 ≤ b) (ha : a.natAbs < 16777216) (hb : b.natAbs < 16777216) :
    add (neg (half a)) (neg (half b)) = neg (half (a + b)) := by
  obtain ⟨_, a2, a3⟩ := half_fin ha
  obtain ⟨_, b2, b3⟩ := half_fin hb
  rw [add_eq_packZ (neg_finite (half_finite ha)) (neg_finite (half_finite hb)), toInt_neg, toInt_neg, a2, b2, sign_neg, sign_neg,
    a3, b3]
  have e1 : decide (a < 0) = false := by simp; omega
  have e2 : decide (b < 0) = false := by simp; omega
  rw [e1, e2]
  unfold half
  rw [neg_packZ, Int.add_mul]
  congr 1
  omega

theorem roundInt_lt (m : Nat) (e : Int) : roundInt m e < 2147483648 := by
  unfold roundInt
  split
  · have : roundNat m e.toNat ≤ infMag := Nat.min_le_right _ _
    simp only [infMag] at this; omega
  · have : roundFrac m (-e).toNat ≤ infMag := Nat.min_le_right _ _
    simp only [infMag] at this; omega

/-- negation commutes with multiplication (finite operands) -/
theorem mul_neg_left {x y : SoftF32} (hx : x.isFinite = true) (hy : y.isFinite = true) : mul (neg x) y = neg (mul x y) := by
  have e3 : (neg x).sig = x.sig := by unfold sig; rw [mag_neg]
  have e4 : (neg x).ex = x.ex := by unfold ex; rw [mag_neg]
  rw [mul_of_finite (neg_finite hx) hy, mul_of_finite hx hy, e3, e4, sign_neg]
  apply eq_of_sign_mag
  · rw [sign_neg, sign_pack _ _ (roundInt_lt _ _), sign_pack _ _ (roundInt_lt _ _)]
    cases x.sign <;> cases y.sign <;> rfl
  · rw [mag_neg, mag_pack _ _ (roundInt_lt _ _), mag_pack _ _ (roundInt_lt _ _)]

/-- multiplication of finite values commutes -/
theorem mul_comm_fin {x y : SoftF32} (hx : x.isFinite = true) (hy : y.isFinite = true) : mul x y = mul y x := by
  rw [mul_of_finite hx hy, mul_of_finite hy hx, Nat.mul_comm x.sig y.sig, Int.add_comm (x.ex : Int) (y.ex : Int)]
  congr 1
  cases x.sign <;> cases y.sign <;> rfl

theorem ofNat_finite {k : Nat} (hk : k < 16777216) : (ofNat k).isFinite = true := (ofNat_absLe hk).finite

/-- **a negated penalty times a sequence count** -/
theorem mul_neg_half_ofNat {a : Int} {k : Nat} (hk1 : 1 ≤ k) (hk : k < 16777216) (ha : a.natAbs < 16777216)
    (hak : (a * k).natAbs < 16777216) : mul (neg (half a)) (ofNat k) = neg (half (a * k)) := by
  rw [mul_neg_left (half_finite ha) (ofNat_finite hk), mul_half_ofNat hk1 hk ha hak]

/-- **a residue count times a summed substitution score** (operand order of the profile–profile kernels) -/
theorem mul_ofNat_half {a : Int} {k : Nat} (hk1 : 1 ≤ k) (hk : k < 16777216) (ha : a.natAbs < 16777216)
    (hak : (a * k).natAbs < 16777216) : mul (ofNat k) (half a) = half (a * k) := by
  rw [mul_comm_fin (ofNat_finite hk) (half_finite ha), mul_half_ofNat hk1 hk ha hak]

theorem mul_half_one {a : Int} (ha : a.natAbs < 16777216) : mul (half a) (ofNat 1) = half a := by
  have := mul_half_ofNat (a := a) (k := 1) (by decide) (by decide) ha (by simpa using ha)
  simpa using this

/-- `(float)k = (2k)/2` -/
theorem ofNat_eq_half {k : Nat} (hk : k < 8388608) : ofNat k = half (2 * (k : Int)) := by
  have h2 : (2 * (k : Int)).natAbs < 16777216 := by omega
  apply eq_of_sign_mag
  · rw [ofNat_sign k (by omega), (half_fin h2).2.2]
    simp; omega
  · apply magVal_inj
    rw [magVal_ofNat (by omega), half_magVal h2]
    have : (2 * (k : Int)).natAbs = 2 * k := by omega
    rw [this, show (2 : Nat) ^ 149 = 2 * 2 ^ 148 by decide]
    generalize (2 : Nat) ^ 148 = X
    ac_rfl

/-- residue counts add exactly -/
theorem add_ofNat {a b : Nat} (h : a + b < 8388608) : add (ofNat a) (ofNat b) = ofNat (a + b) := by
  rw [ofNat_eq_half (by omega), ofNat_eq_half (by omega), ofNat_eq_half h, add_half (by omega) (by omega)]
  congr 1
  omega

theorem add_zero_one : add zero one = ofNat 1 := by decide
theorem add_zero_zero : add zero zero = zero := by decide

theorem isNonzero_zero : Score.isNonzero (Score.zero : SoftF32) = false := by decide

theorem isNonzero_ofNat {k : Nat} (hk1 : 1 ≤ k) (hk : k < 8388608) : Score.isNonzero (Score.ofNat k : SoftF32) = true := by
  show (!beq (ofNat k) zero) = true
  have hn : (ofNat k).isNaN = false := isNaN_of_finite (ofNat_finite (by omega))
  have hz : zero.isNaN = false := by decide
  unfold beq
  rw [hn, hz]
  have hs := ofNat_sign k (by omega)
  have hm : (ofNat k).mag ≠ 0 := by
    intro e
    have := magVal_ofNat (n := k) (by omega)
    rw [e, magVal_zero] at this
    have : 1 * 2 ^ 149 ≤ k * 2 ^ 149 := Nat.mul_le_mul_right _ hk1
    omega
  have hk0 : zero.key = 0 := by decide
  unfold key
  rw [hs]
  simp only [Bool.not_false, Bool.true_and, Bool.false_eq_true, if_false, Bool.not_eq_true', decide_eq_false_iff_not]
  intro e
  rw [show (if zero.sign = true then -(zero.mag : Int) else (zero.mag : Int)) = 0 from hk0] at e
  omega

end Kalign.SoftF32
