import KalignModel.Lemmas.Lev
/-!
# Sellers' recurrence computes the minimum over substrings of the Levenshtein distance

`gD init eq j i` : generic column DP (cell `(i,j)`: row `i`, column `j`, value of the empty pattern prefix carried
along the top row), used for the plain DP and for all bit-parallel variants.
-/
set_option linter.unusedSectionVars false
namespace Kalign
variable {α : Type} [DecidableEq α]

/-! ## minimum of a list -/

theorem foldl_min_le_init (l : List Nat) (d : Nat) : l.foldl min d ≤ d := by
  induction l generalizing d with
  | nil => exact Nat.le_refl _
  | cons x l ih => exact Nat.le_trans (ih _) (Nat.min_le_left _ _)

theorem foldl_min_le_mem (l : List Nat) (d : Nat) (x : Nat) (h : x ∈ l) : l.foldl min d ≤ x := by
  induction l generalizing d with
  | nil => cases h
  | cons y l ih =>
    rcases List.mem_cons.1 h with rfl | h
    · exact Nat.le_trans (foldl_min_le_init l (min d x)) (Nat.min_le_right _ _)
    · exact ih _ h

theorem foldl_min_attained (l : List Nat) (d : Nat) : l.foldl min d = d ∨ l.foldl min d ∈ l := by
  induction l generalizing d with
  | nil => exact Or.inl rfl
  | cons y l ih =>
    show l.foldl min (min d y) = d ∨ l.foldl min (min d y) ∈ y :: l
    rcases ih (min d y) with h | h
    · rw [h]
      rcases Nat.le_total d y with hd | hd
      · left; exact Nat.min_eq_left hd
      · right; rw [Nat.min_eq_right hd]; exact List.mem_cons_self
    · right; exact List.mem_cons_of_mem _ h

/-- `x` is the minimum of `f` over the predicate `S` -/
def IsMinOver {β : Type} (S : β → Prop) (f : β → Nat) (x : Nat) : Prop :=
  (∀ s, S s → x ≤ f s) ∧ ∃ s, S s ∧ x = f s

theorem IsMinOver.unique {β : Type} {S : β → Prop} {f : β → Nat} {x y : Nat}
    (hx : IsMinOver S f x) (hy : IsMinOver S f y) : x = y := by
  obtain ⟨s, hs, rfl⟩ := hx.2
  obtain ⟨u, hu, rfl⟩ := hy.2
  exact Nat.le_antisymm (hx.1 u hu) (hy.1 s hs)

/-! ## substrings -/

theorem mem_suffixes (s t : List α) : s ∈ suffixes t ↔ s <:+ t := by
  induction t with
  | nil => simp [suffixes]
  | cons x t ih => simp [suffixes, ih, List.suffix_cons_iff]

theorem mem_prefixes (s t : List α) : s ∈ prefixes t ↔ s <+: t := by
  induction t generalizing s with
  | nil => simp [prefixes]
  | cons x t ih =>
    cases s with
    | nil => simp [prefixes]
    | cons y s =>
      constructor
      · intro h
        simp only [prefixes, List.mem_cons, List.mem_map] at h
        rcases h with h | ⟨a, ha, h⟩
        · cases h
        · injection h with h1 h2
          subst h1 h2
          exact List.cons_prefix_cons.2 ⟨rfl, (ih a).1 ha⟩
      · intro h
        obtain ⟨rfl, h'⟩ := List.cons_prefix_cons.1 h
        simp only [prefixes, List.mem_cons, List.mem_map]
        exact Or.inr ⟨s, (ih s).2 h', rfl⟩

theorem mem_substrings (s t : List α) : s ∈ substrings t ↔ s <:+: t := by
  simp only [substrings, List.mem_flatMap, mem_suffixes, mem_prefixes, List.infix_iff_prefix_suffix]
  exact exists_congr fun a => and_comm

/-- `levSub p t` is the minimum, over the substrings `s` of `t`, of `lev p s` -/
theorem levSub_isMin (p t : List α) : IsMinOver (· <:+: t) (lev p) (levSub p t) := by
  constructor
  · intro s hs
    apply foldl_min_le_mem
    exact List.mem_map.2 ⟨s, (mem_substrings s t).2 hs, rfl⟩
  · rcases foldl_min_attained ((substrings t).map (lev p)) p.length with h | h
    · exact ⟨[], List.nil_infix, by rw [lev_nil_right]; exact h⟩
    · obtain ⟨s, hs, he⟩ := List.mem_map.1 h
      exact ⟨s, (mem_substrings s t).1 hs, he.symm⟩

/-! ## minimum over suffixes -/

def minSuf (f : List α → Nat) : List α → Nat
  | [] => f []
  | x :: l => min (f (x :: l)) (minSuf f l)

theorem minSuf_le (f : List α → Nat) (u s : List α) (h : s <:+ u) : minSuf f u ≤ f s := by
  induction u with
  | nil => rw [List.suffix_nil.1 h]; exact Nat.le_refl _
  | cons x u ih =>
    rcases List.suffix_cons_iff.1 h with rfl | h
    · exact Nat.min_le_left _ _
    · exact Nat.le_trans (Nat.min_le_right _ _) (ih h)

theorem minSuf_attained (f : List α → Nat) (u : List α) : ∃ s, s <:+ u ∧ minSuf f u = f s := by
  induction u with
  | nil => exact ⟨[], List.suffix_refl _, rfl⟩
  | cons x u ih =>
    obtain ⟨s, hs, he⟩ := ih
    rcases Nat.le_total (f (x :: u)) (minSuf f u) with h | h
    · exact ⟨x :: u, List.suffix_refl _, Nat.min_eq_left h⟩
    · exact ⟨s, List.suffix_cons_iff.2 (Or.inr hs), by simp only [minSuf]; rw [Nat.min_eq_right h, he]⟩

theorem minSuf_snoc (f : List α → Nat) (u : List α) (c : α) :
    minSuf f (u ++ [c]) = min (minSuf (fun s => f (s ++ [c])) u) (f []) := by
  induction u with
  | nil => simp [minSuf]
  | cons x u ih => simp only [List.cons_append, minSuf, ih, Nat.min_assoc]

theorem minSuf_min (f g : List α → Nat) (u : List α) :
    minSuf (fun s => min (f s) (g s)) u = min (minSuf f u) (minSuf g u) := by
  induction u with
  | nil => rfl
  | cons x u ih => simp only [minSuf, ih]; omega

theorem minSuf_add (f : List α → Nat) (k : Nat) (u : List α) :
    minSuf (fun s => f s + k) u = minSuf f u + k := by
  induction u with
  | nil => rfl
  | cons x u ih => simp only [minSuf, ih]; omega

theorem minSuf_lev_nil (u : List α) : minSuf (lev ([] : List α)) u = 0 := by
  induction u with
  | nil => simp [minSuf, lev_nil_left]
  | cons x u ih => simp [minSuf, ih]

/-! ## the generic column DP -/

/-- `gD init eq j i`: column `j`, row `i` -/
def gD (init : Nat → Nat) (eq : Nat → Nat → Bool) : Nat → Nat → Nat
  | 0, i => init i
  | j + 1, 0 => gD init eq j 0
  | j + 1, i + 1 =>
    min3 (gD init eq (j + 1) i + 1) (gD init eq j (i + 1) + 1) (gD init eq j i + if eq i j then 0 else 1)

/-- match predicate of pattern `p` against text `t` -/
def eqPT (p t : List α) (i j : Nat) : Bool := decide (p[i]? = t[j]?)

/-- the DP cell is the minimum over the suffixes of the text prefix of the distance to the pattern prefix -/
theorem gD_eq_minSuf (p t : List α) (j i : Nat) (hj : j ≤ t.length) (hi : i ≤ p.length) :
    gD id (eqPT p t) j i = minSuf (lev (p.take i)) (t.take j) := by
  induction j generalizing i with
  | zero => simp [gD, minSuf, lev_nil_right, Nat.min_eq_left hi]
  | succ j ihj =>
    induction i with
    | zero => rw [gD, ihj 0 (by omega) (by omega)]; simp [minSuf_lev_nil]
    | succ i ihi =>
      have hj' : j < t.length := by omega
      have hi' : i < p.length := by omega
      rw [gD, ihi (by omega), ihj (i + 1) (by omega) hi, ihj i (by omega) (by omega)]
      rw [← List.take_append_getElem hj', ← List.take_append_getElem hi']
      rw [minSuf_snoc (lev (List.take i p ++ [p[i]])), minSuf_snoc (lev (List.take i p))]
      have h1 : (fun s => lev (List.take i p ++ [p[i]]) (s ++ [t[j]])) = fun s =>
          min (min (lev (List.take i p) (s ++ [t[j]]) + 1) (lev (List.take i p ++ [p[i]]) s + 1))
            (lev (List.take i p) s + cost p[i] t[j]) := by
        funext s; exact lev_snoc_snoc _ _ _ _
      rw [h1, minSuf_min, minSuf_min, minSuf_add, minSuf_add, minSuf_add]
      simp only [lev_nil_right, List.length_append, List.length_take, List.length_cons, List.length_nil,
        Nat.min_eq_left (Nat.le_of_lt hi')]
      have hc : (if eqPT p t i j = true then 0 else 1) = cost p[i] t[j] := by
        simp [eqPT, cost, List.getElem?_eq_getElem hi', List.getElem?_eq_getElem hj']
      rw [hc]
      simp only [min3]
      omega

/-! ## the executable `sellers` -/

theorem sellersColAux_eq (c : α) (p' : List α) (i : Nat) (f g : Nat → Nat)
    (h : ∀ k (hk : k < p'.length), g (i + k + 1) = min3 (g (i + k) + 1) (f (i + k + 1) + 1) (f (i + k) + cost p'[k] c)) :
    sellersColAux c p' (f i) (g i) ((List.range' (i + 1) p'.length).map f) = (List.range' (i + 1) p'.length).map g := by
  induction p' generalizing i with
  | nil => simp [sellersColAux]
  | cons x p' ih =>
    simp only [List.length_cons, List.range'_succ, List.map_cons, sellersColAux]
    have h0 := h 0 (by simp)
    simp only [Nat.add_zero, List.getElem_cons_zero] at h0
    have hc : (if x = c then 0 else 1) = cost x c := rfl
    rw [hc, ← h0]
    congr 1
    apply ih (i + 1)
    intro k hk
    have := h (k + 1) (by simp; omega)
    simp only [List.getElem_cons_succ] at this
    rw [show i + 1 + k = i + (k + 1) by omega]
    exact this

theorem range_succ_eq_cons (m : Nat) : List.range (m + 1) = 0 :: List.range' 1 m := by
  rw [List.range_eq_range', List.range'_succ]

theorem sellersStep_eq (p t : List α) (j : Nat) (hj : j < t.length) (init : Nat → Nat) :
    sellersStep p t[j] ((List.range (p.length + 1)).map (gD init (eqPT p t) j)) =
      (List.range (p.length + 1)).map (gD init (eqPT p t) (j + 1)) := by
  rw [range_succ_eq_cons]
  simp only [List.map_cons, sellersStep]
  have h := sellersColAux_eq t[j] p 0 (gD init (eqPT p t) j) (gD init (eqPT p t) (j + 1)) (by
    intro k hk
    simp only [Nat.zero_add]
    rw [gD]
    have hc : (if eqPT p t k j = true then 0 else 1) = cost p[k] t[j] := by
      simp [eqPT, cost, List.getElem?_eq_getElem hk, List.getElem?_eq_getElem hj]
    rw [hc])
  simp only [Nat.zero_add] at h
  rw [show gD init (eqPT p t) (j + 1) 0 = gD init (eqPT p t) j 0 by rw [gD]] at h ⊢
  rw [h]

theorem sellersCols_eq (p t : List α) (init : Nat → Nat) (j : Nat) (hj : j ≤ t.length) :
    sellersCols p (t.drop j) ((List.range (p.length + 1)).map (gD init (eqPT p t) j)) =
      (List.range' j (t.length - j + 1)).map fun k => (List.range (p.length + 1)).map (gD init (eqPT p t) k) := by
  generalize hd : t.length - j = d
  induction d generalizing j with
  | zero =>
    have : t.drop j = [] := List.drop_eq_nil_of_le (by omega)
    simp [this, sellersCols]
  | succ d ih =>
    have hj' : j < t.length := by omega
    rw [List.drop_eq_getElem_cons hj', sellersCols, sellersStep_eq p t j hj', ih (j + 1) (by omega) (by omega)]
    simp only [List.range'_succ, List.map_cons]

theorem getLastD_map_range (f : Nat → Nat) (m : Nat) : ((List.range (m + 1)).map f).getLastD 0 = f m := by
  rw [List.range_succ, List.map_append]
  simp

/-- `sellers` is the minimum over the columns of the last DP row -/
theorem sellers_eq (p t : List α) :
    sellers p t = ((List.range (t.length + 1)).map fun j => gD id (eqPT p t) j p.length).foldl min p.length := by
  unfold sellers
  have h0 : List.range (p.length + 1) = (List.range (p.length + 1)).map (gD id (eqPT p t) 0) := by
    apply List.ext_getElem <;> simp [gD]
  have h := sellersCols_eq p t id 0 (Nat.zero_le _)
  rw [List.drop_zero, ← h0] at h
  rw [h, List.map_map, Nat.sub_zero, ← List.range_eq_range']
  congr 1
  apply List.map_congr_left
  intro j _
  exact getLastD_map_range _ _

/-- Sellers' recurrence computes the minimum over the substrings of the text of the Levenshtein distance -/
theorem sellers_isMin (p t : List α) : IsMinOver (· <:+: t) (lev p) (sellers p t) := by
  rw [sellers_eq]
  have hcell : ∀ j, j ≤ t.length → gD id (eqPT p t) j p.length = minSuf (lev p) (t.take j) := by
    intro j hj
    rw [gD_eq_minSuf p t j p.length hj (Nat.le_refl _), List.take_length]
  constructor
  · intro s hs
    obtain ⟨u, hsu, hut⟩ := List.infix_iff_suffix_prefix.1 hs
    obtain ⟨j, hj, rfl⟩ : ∃ j, j ≤ t.length ∧ u = t.take j :=
      ⟨u.length, hut.length_le, (List.prefix_iff_eq_take.1 hut)⟩
    refine Nat.le_trans (foldl_min_le_mem _ _ (minSuf (lev p) (t.take j)) ?_) (minSuf_le _ _ _ hsu)
    exact List.mem_map.2 ⟨j, List.mem_range.2 (by omega), hcell j hj⟩
  · rcases foldl_min_attained ((List.range (t.length + 1)).map fun j => gD id (eqPT p t) j p.length) p.length
      with h | h
    · exact ⟨[], List.nil_infix, by rw [lev_nil_right]; exact h⟩
    · obtain ⟨j, hj, he⟩ := List.mem_map.1 h
      have hj' : j ≤ t.length := by have := List.mem_range.1 hj; omega
      obtain ⟨s, hs, hm⟩ := minSuf_attained (lev p) (t.take j)
      refine ⟨s, List.infix_iff_suffix_prefix.2 ⟨_, hs, List.take_prefix _ _⟩, ?_⟩
      rw [← he, hcell j hj', hm]

theorem sellers_spec (p t : List α) : sellers p t = levSub p t :=
  (sellers_isMin p t).unique (levSub_isMin p t)

end Kalign
