import KalignModel.Model.Kmeans
import KalignModel.Lemmas.Sched
import KalignModel.Lemmas.SchedKalign
/-!
# Lemmas about the bisecting k-means model (Model/Kmeans.lean)

None of the facts below depends on a floating-point value: they hold for every matrix `dm`, including
NaN and ±inf entries.
-/
namespace Kalign.Kmeans
open Kalign Kalign.Sched

/-! ## `split2` returns a partition -/

/-- what `bisecting_kmeans` needs from a split of `samples` -/
structure GoodSplit (samples : List Nat) (r : Split) : Prop where
  perm : (r.sl ++ r.sr).Perm samples
  nonempty : 2 ≤ samples.length → r.sl ≠ [] ∧ r.sr ≠ []
  subl : r.sl.Sublist samples
  subr : r.sr.Sublist samples

theorem splitBy_perm (flags : List Bool) (xs : List Nat) :
    ((splitBy flags xs).1 ++ (splitBy flags xs).2).Perm xs := by
  induction xs generalizing flags with
  | nil => cases flags <;> simp [splitBy]
  | cons x xs ih =>
    cases flags with
    | nil => simp [splitBy]
    | cons b bs =>
      simp only [splitBy]
      cases b
      · simp only [Bool.false_eq_true, if_false]
        exact (List.perm_middle).trans (List.Perm.cons x (ih bs))
      · simp only [if_true, List.cons_append]
        exact List.Perm.cons x (ih bs)

theorem splitBy_sublist (flags : List Bool) (xs : List Nat) :
    (splitBy flags xs).1.Sublist xs ∧ (splitBy flags xs).2.Sublist xs := by
  induction xs generalizing flags with
  | nil => cases flags <;> simp [splitBy]
  | cons x xs ih =>
    cases flags with
    | nil => simp [splitBy]
    | cons b bs =>
      simp only [splitBy]
      cases b
      · simp only [Bool.false_eq_true, if_false]
        exact ⟨List.Sublist.cons _ (ih bs).1, List.Sublist.cons_cons _ (ih bs).2⟩
      · simp only [if_true]
        exact ⟨List.Sublist.cons_cons _ (ih bs).1, List.Sublist.cons _ (ih bs).2⟩

theorem fallback_good (samples : List Nat) : GoodSplit samples (fallback samples) := by
  refine ⟨?_, ?_, ?_, ?_⟩
  · simp [fallback, List.take_append_drop]
  · intro h
    constructor
    · intro h0
      have := congrArg List.length h0
      simp only [fallback, List.length_take, List.length_nil] at this
      omega
    · intro h0
      have := congrArg List.length h0
      simp only [fallback, List.length_drop, List.length_nil] at this
      omega
  · exact List.take_sublist _ _
  · exact List.drop_sublist _ _

theorem iterStep_good (avx : Bool) (rows : Array (Array Float32)) (samples : List Nat) (na nv : Nat)
    (cl cr : Array Float32) : GoodSplit samples (iterStep avx rows samples na nv cl cr).1 := by
  unfold iterStep
  generalize assignGo avx rows cl cr na rows.size 0 0 (Array.mkEmpty rows.size) = fs
  obtain ⟨flags, score⟩ := fs
  simp only
  split
  · exact fallback_good samples
  · rename_i hne
    have hne' : ¬ ((splitBy flags.toList samples).1 = [] ∨ (splitBy flags.toList samples).2 = []) := by
      simpa [List.isEmpty_iff] using hne
    have hg : GoodSplit samples
        { sl := (splitBy flags.toList samples).1, sr := (splitBy flags.toList samples).2, score := score } :=
      ⟨splitBy_perm _ _, fun _ => ⟨fun h => hne' (Or.inl h), fun h => hne' (Or.inr h)⟩,
        (splitBy_sublist _ _).1, (splitBy_sublist _ _).2⟩
    split <;> exact hg

theorem split2Iter_good (avx : Bool) (rows : Array (Array Float32)) (samples : List Nat) (na nv : Nat)
    (k : Nat) (cl cr : Array Float32) : GoodSplit samples (split2Iter avx rows samples na nv k cl cr) := by
  induction k generalizing cl cr with
  | zero => exact iterStep_good avx rows samples na nv cl cr
  | succ k ih =>
    unfold split2Iter
    have hg := iterStep_good avx rows samples na nv cl cr
    generalize iterStep avx rows samples na nv cl cr = p at hg
    obtain ⟨r, o⟩ := p
    cases o with
    | none => exact hg
    | some c => obtain ⟨cl', cr'⟩ := c; exact ih cl' cr'

theorem split2With_good {maxIter : Nat} {avx : Bool} {dm : Array (Array Float32)} {samples : List Nat}
    {na seed : Nat} {r : Split} (h : split2With maxIter avx dm samples na seed = some r) : GoodSplit samples r := by
  unfold split2With at h
  simp only at h
  split at h
  · cases h
  · split at h
    · cases h
    · split at h
      · cases h; exact split2Iter_good ..
      · cases h

theorem split2_good {avx : Bool} {dm : Array (Array Float32)} {samples : List Nat} {na seed : Nat} {r : Split}
    (h : split2 avx dm samples na seed = some r) : GoodSplit samples r :=
  split2With_good h

/-- rows of the required size exist for all samples -/
def RowsValid (dm : Array (Array Float32)) (na : Nat) (samples : List Nat) : Prop :=
  ∀ s ∈ samples, ∃ row, dm[s]? = some row ∧ numVarOf na ≤ row.size

theorem rowsOf_isSome {dm : Array (Array Float32)} {nv : Nat} {samples : List Nat}
    (h : ∀ s ∈ samples, ∃ row, dm[s]? = some row ∧ nv ≤ row.size) : ∃ rows, rowsOf dm nv samples = some rows := by
  unfold rowsOf
  have : ∃ l, samples.mapM (rowAt dm nv) = some l := by
    induction samples with
    | nil => exact ⟨[], rfl⟩
    | cons s ss ih =>
      obtain ⟨row, hrow, hsz⟩ := h s (List.mem_cons_self)
      obtain ⟨l, hl⟩ := ih (fun t ht => h t (List.mem_cons_of_mem _ ht))
      refine ⟨row :: l, ?_⟩
      have : ¬ row.size < nv := by omega
      simp [List.mapM_cons, rowAt, hrow, hl, this]
  obtain ⟨l, hl⟩ := this
  exact ⟨l.toArray, by rw [hl]; rfl⟩

/-- `split2` does not fault on valid rows and an in-range seed -/
theorem split2_isSome {avx : Bool} {dm : Array (Array Float32)} {samples : List Nat} {na seed : Nat}
    (hv : RowsValid dm na samples) (hs : seed < samples.length) : ∃ r, split2 avx dm samples na seed = some r := by
  obtain ⟨rows, hrows⟩ := rowsOf_isSome hv
  have hn : samples.length ≠ 0 := by omega
  unfold split2 split2With
  simp only [hn, if_false, hrows, hs, if_true]
  exact ⟨_, rfl⟩

/-! ## the rounds -/

theorem reduceRes_best_isSome (b : Option Split) (ch : Nat) (rs : List Split) (h : b.isSome ∨ rs ≠ []) :
    (reduceRes (b, ch) rs).1.isSome := by
  induction rs generalizing b ch with
  | nil =>
    rcases h with h | h
    · simpa [reduceRes] using h
    · exact absurd rfl h
  | cons r rs ih =>
    cases b with
    | none => simp only [reduceRes]; exact ih _ _ (Or.inl rfl)
    | some b =>
      simp only [reduceRes]
      split <;> exact ih _ _ (Or.inl rfl)

/-- the best so far is one of the candidates seen -/
theorem reduceRes_mem (b : Option Split) (ch : Nat) (rs : List Split) (x : Split)
    (h : (reduceRes (b, ch) rs).1 = some x) : b = some x ∨ x ∈ rs := by
  induction rs generalizing b ch with
  | nil => left; simpa [reduceRes] using h
  | cons r rs ih =>
    cases b with
    | none =>
      simp only [reduceRes] at h
      rcases ih _ _ h with h' | h'
      · right; simp only [Option.some.injEq] at h'; simp [h']
      · right; exact List.mem_cons_of_mem _ h'
    | some b =>
      simp only [reduceRes] at h
      split at h
      · rcases ih _ _ h with h' | h'
        · right; simp only [Option.some.injEq] at h'; simp [h']
        · right; exact List.mem_cons_of_mem _ h'
      · rcases ih _ _ h with h' | h'
        · left; exact h'
        · right; exact List.mem_cons_of_mem _ h'

theorem roundRes_some {sp : Nat → Option Split} {step i : Nat} {rs : List Split}
    (h : roundRes sp step i = some rs) :
    ∃ r0 r1 r2 r3, sp (i * step) = some r0 ∧ sp ((i + 1) * step) = some r1 ∧ sp ((i + 2) * step) = some r2 ∧
      sp ((i + 3) * step) = some r3 ∧ rs = [r0, r1, r2, r3] := by
  unfold roundRes at h
  cases h0 : sp (i * step) <;> cases h1 : sp ((i + 1) * step) <;> cases h2 : sp ((i + 2) * step) <;>
    cases h3 : sp ((i + 3) * step) <;> simp [h0, h1, h2, h3] at h
  exact ⟨_, _, _, _, rfl, rfl, rfl, rfl, h.symm⟩

theorem roundRes_of_some {sp : Nat → Option Split} {step i : Nat} {r0 r1 r2 r3 : Split}
    (h0 : sp (i * step) = some r0) (h1 : sp ((i + 1) * step) = some r1) (h2 : sp ((i + 2) * step) = some r2)
    (h3 : sp ((i + 3) * step) = some r3) : roundRes sp step i = some [r0, r1, r2, r3] := by
  simp [roundRes, h0, h1, h2, h3]

/-- every result of the rounds is a result of one of the restarts (or the incoming `best`) -/
theorem roundsGo_mem (sp : Nat → Option Split) (step rem i : Nat) (best : Option Split) (x : Split)
    (h : roundsGo sp step rem i best = some (some x)) : best = some x ∨ ∃ k, sp k = some x := by
  induction rem generalizing i best with
  | zero => left; simpa [roundsGo] using h
  | succ rem ih =>
    unfold roundsGo at h
    split at h
    · cases h
    · rename_i rs hrs
      obtain ⟨r0, r1, r2, r3, h0, h1, h2, h3, rfl⟩ := roundRes_some hrs
      have key : ∀ y, (reduceRes (best, 0) [r0, r1, r2, r3]).1 = some y → best = some y ∨ ∃ k, sp k = some y := by
        intro y hy
        rcases reduceRes_mem _ _ _ _ hy with h' | h'
        · left; exact h'
        · right
          simp only [List.mem_cons, List.not_mem_nil, or_false] at h'
          rcases h' with rfl | rfl | rfl | rfl
          · exact ⟨_, h0⟩
          · exact ⟨_, h1⟩
          · exact ⟨_, h2⟩
          · exact ⟨_, h3⟩
      simp only at h
      split at h
      · simp only [Option.some.injEq] at h
        exact key x h
      · rcases ih _ _ h with h' | h'
        · exact key x h'
        · right; exact h'

/-- the rounds neither fault nor end without a result when every restart in range succeeds -/
theorem roundsGo_isSome (sp : Nat → Option Split) (step rem i : Nat) (best : Option Split)
    (hsp : ∀ k, k < i + 4 * rem → ∃ r, sp (k * step) = some r) (hb : best.isSome ∨ 0 < rem) :
    ∃ x, roundsGo sp step rem i best = some (some x) := by
  induction rem generalizing i best with
  | zero =>
    rcases hb with hb | hb
    · obtain ⟨x, rfl⟩ := Option.isSome_iff_exists.1 hb
      exact ⟨x, rfl⟩
    · omega
  | succ rem ih =>
    obtain ⟨r0, h0⟩ := hsp i (by omega)
    obtain ⟨r1, h1⟩ := hsp (i + 1) (by omega)
    obtain ⟨r2, h2⟩ := hsp (i + 2) (by omega)
    obtain ⟨r3, h3⟩ := hsp (i + 3) (by omega)
    unfold roundsGo
    rw [roundRes_of_some h0 h1 h2 h3]
    simp only
    have hsome := reduceRes_best_isSome best 0 [r0, r1, r2, r3] (Or.inr (by simp))
    split
    · obtain ⟨x, hx⟩ := Option.isSome_iff_exists.1 hsome
      exact ⟨x, by rw [hx]⟩
    · exact ih (i + 4) _ (fun k hk => hsp k (by omega)) (Or.inl hsome)

theorem bestSplit_good {avx : Bool} {dm : Array (Array Float32)} {na : Nat} {samples : List Nat} {b : Split}
    (h : bestSplit avx dm na samples = some b) : GoodSplit samples b := by
  unfold bestSplit at h
  simp only at h
  generalize (if kmTries < samples.length then kmTries else samples.length) = tries at h
  split at h
  · cases h
  · generalize hr : roundsGo (split2 avx dm samples na) (samples.length / tries) ((tries + 3) / 4) 0 none = res at h
    cases res with
    | none => cases h
    | some o =>
      cases o with
      | none => cases h
      | some x =>
        simp only [Option.some.injEq] at h
        subst h
        rcases roundsGo_mem _ _ _ _ _ _ hr with h' | ⟨k, hk⟩
        · cases h'
        · exact split2_good hk

theorem bestSplit_isSome {avx : Bool} {dm : Array (Array Float32)} {na : Nat} {samples : List Nat}
    (hv : RowsValid dm na samples) (hn : kmSmall ≤ samples.length) : ∃ b, bestSplit avx dm na samples = some b := by
  have hn' : 100 ≤ samples.length := hn
  unfold bestSplit
  have ht : (if kmTries < samples.length then kmTries else samples.length) = 40 := by
    have : kmTries < samples.length := by show 40 < _; omega
    rw [if_pos this]; rfl
  simp only [ht]
  have h40 : ¬ (40 = 0) := by omega
  simp only [h40, if_false]
  have : (40 + 3) / 4 = 10 := by decide
  rw [this]
  obtain ⟨x, hx⟩ := roundsGo_isSome (split2 avx dm samples na) (samples.length / 40) 10 0 none
    (fun k hk => split2_isSome hv (by
      have hk' : k ≤ 39 := by omega
      have h1 : k * (samples.length / 40) ≤ 39 * (samples.length / 40) := Nat.mul_le_mul_right _ hk'
      have h2 : 40 * (samples.length / 40) ≤ samples.length := Nat.mul_div_le _ _
      omega))
    (Or.inr (by omega))
  exact ⟨x, by rw [hx]⟩

/-! ## the recursion -/

theorem RowsValid.of_sublist {dm : Array (Array Float32)} {na : Nat} {l l' : List Nat}
    (h : RowsValid dm na l) (hs : l'.Sublist l) : RowsValid dm na l' :=
  fun s hs' => h s (hs.subset hs')

theorem GoodSplit.length_lt {samples : List Nat} {b : Split} (h : GoodSplit samples b) (hn : 2 ≤ samples.length) :
    b.sl.length < samples.length ∧ b.sr.length < samples.length ∧ b.sl ≠ [] ∧ b.sr ≠ [] := by
  have hl := h.perm.length_eq
  simp only [List.length_append] at hl
  obtain ⟨h1, h2⟩ := h.nonempty hn
  have := List.length_pos_iff.2 h1
  have := List.length_pos_iff.2 h2
  exact ⟨by omega, by omega, h1, h2⟩

/-- result of the budgeted recursion: never out of budget when `samples.length ≤ fuel`; leaves = samples -/
theorem bisect_spec (avx : Bool) (dm : Array (Array Float32)) (na : Nat) (small : List Nat → Tree)
    (hsmall : ∀ l, l ≠ [] → (small l).leaves.Perm l) (fuel : Nat) (samples : List Nat)
    (hne : samples ≠ []) (hf : samples.length ≤ fuel) :
    (∀ t, bisect avx dm na small fuel samples = .ok t → t.leaves.Perm samples) ∧
    bisect avx dm na small fuel samples ≠ .error .fuel ∧
    (RowsValid dm na samples → ∃ t, bisect avx dm na small fuel samples = .ok t) := by
  induction fuel generalizing samples with
  | zero =>
    have : samples.length = 0 := by omega
    exact absurd (List.length_eq_zero_iff.1 this) hne
  | succ fuel ih =>
    unfold bisect
    by_cases hs : samples.length < kmSmall
    · simp only [hs, if_true]
      refine ⟨?_, ?_, ?_⟩
      · intro t ht
        cases ht
        exact hsmall samples hne
      · intro h; cases h
      · intro _; exact ⟨_, rfl⟩
    · simp only [hs, if_false]
      have hbig : kmSmall ≤ samples.length := by omega
      have h2 : 2 ≤ samples.length := by have : kmSmall = 100 := rfl; omega
      cases hb : bestSplit avx dm na samples with
      | none =>
        simp only
        refine ⟨?_, ?_, ?_⟩
        · intro t ht; cases ht
        · intro h; cases h
        · intro hv
          obtain ⟨b, hb'⟩ := bestSplit_isSome (avx := avx) hv hbig
          rw [hb] at hb'; cases hb'
      | some b =>
        simp only
        have hg := bestSplit_good hb
        obtain ⟨hl, hr, hlne, hrne⟩ := hg.length_lt h2
        obtain ⟨il1, il2, il3⟩ := ih b.sl hlne (by omega)
        obtain ⟨ir1, ir2, ir3⟩ := ih b.sr hrne (by omega)
        refine ⟨?_, ?_, ?_⟩
        · intro t ht
          cases hL : bisect avx dm na small fuel b.sl with
          | error e => rw [hL] at ht; simp only at ht; cases ht
          | ok l =>
            cases hR : bisect avx dm na small fuel b.sr with
            | error e => rw [hL, hR] at ht; simp only at ht; cases ht
            | ok r =>
              rw [hL, hR] at ht
              simp only [Except.ok.injEq] at ht
              subst ht
              simp only [Tree.leaves]
              exact ((il1 l hL).append (ir1 r hR)).trans hg.perm
        · intro h
          cases hL : bisect avx dm na small fuel b.sl with
          | error e =>
            rw [hL] at h; simp only [Except.error.injEq] at h
            exact il2 (by rw [hL, h])
          | ok l =>
            cases hR : bisect avx dm na small fuel b.sr with
            | error e =>
              rw [hL, hR] at h; simp only [Except.error.injEq] at h
              exact ir2 (by rw [hR, h])
            | ok r => rw [hL, hR] at h; cases h
        · intro hv
          obtain ⟨l, hL⟩ := il3 (hv.of_sublist hg.subl)
          obtain ⟨r, hR⟩ := ir3 (hv.of_sublist hg.subr)
          exact ⟨.node l r, by rw [hL, hR]⟩

/-! ## one round under an arbitrary completion order of the four restarts

State = content of the locations of `KmLoc` (Model/SchedKalign.lean): `.input` holds the loop counter `i`
(`dm`, `samples`, `num_anchors`, `step` are fixed parameters of the semantics), `.res k` the slot `res[k]`,
`.best` the pointer `best`, `.change` the counter. -/

inductive KmVal where
  /-- `res[k]` / `best`: `none` = NULL -/
  | ptr (r : Option Split)
  /-- `i` / `change` -/
  | num (n : Nat)
  deriving Inhabited

def KmVal.getPtr : KmVal → Option Split
  | .ptr r => r
  | .num _ => none

def KmVal.getNum : KmVal → Nat
  | .num n => n
  | .ptr _ => 0

/-- the slots `res[0..3]` as a list when all four restarts have delivered -/
def slotsOf (s : KmLoc → KmVal) : Option (List Split) :=
  [(s (.res 0)).getPtr, (s (.res 1)).getPtr, (s (.res 2)).getPtr, (s (.res 3)).getPtr].mapM id

/-- what an atom computes from the locations it may read:
`split k` stores the result of `split2(…, (i + k) * step, &res[k])` in `res[k]`;
`reduce` (the code after the `taskwait`, with `change = 0` of the loop head) runs the j-loop.
(The stale buffers the j-loop swaps back into `res[j]` are not observable: the next `split2` overwrites them;
the kernel leaves `res[j]` as it is.) -/
def kmKernel (sp : Nat → Option Split) (step : Nat) : KmAtom → (KmLoc → KmVal) → KmLoc → KmVal
  | .split k, s, x =>
    match x with
    | .res _ => .ptr (sp (((s .input).getNum + k) * step))
    | _ => s x
  | .reduce, s, x =>
    match slotsOf s with
    | none => s x
    | some rs =>
      match x with
      | .best => .ptr (reduceRes ((s .best).getPtr, 0) rs).1
      | .change => .num (reduceRes ((s .best).getPtr, 0) rs).2
      | _ => s x

/-- the semantics of a round with the footprints declared in Model/SchedKalign.lean -/
def kmSem (sp : Nat → Option Split) (step : Nat) : Sem KmAtom KmLoc KmVal :=
  Sem.ofKernel kmRd kmWr (kmKernel sp step)

theorem kmSem_fp (sp : Nat → Option Split) (step : Nat) : (kmSem sp step).fp = kmFp := rfl

theorem kmSem_wf (sp : Nat → Option Split) (step : Nat) : (kmSem sp step).WellFormed :=
  Sem.ofKernel_wf _ _ _

/-- the serial elision of a round computes `reduceRes` of the four restarts -/
theorem kmRound_serial (sp : Nat → Option Split) (step i : Nat) (best : Option Split) (rs : List Split)
    (hrs : roundRes sp step i = some rs) (s0 : KmLoc → KmVal)
    (hi : s0 .input = .num i) (hb : s0 .best = .ptr best) :
    let s := exec (kmSem sp step).act kmeansRoundProg.atoms s0
    s .best = .ptr (reduceRes (best, 0) rs).1 ∧ s .change = .num (reduceRes (best, 0) rs).2 := by
  obtain ⟨r0, r1, r2, r3, h0, h1, h2, h3, rfl⟩ := roundRes_some hrs
  simp only [kmeansRoundProg, parAll, Prog.atoms, exec, List.foldl_cons, List.foldl_nil, List.cons_append,
    List.nil_append]
  simp [kmSem, Sem.ofKernel, kmKernel, kmRd, kmWr, slotsOf, KmVal.getNum, KmVal.getPtr, hi, hb, h0, h1, h2, h3]

/-! ## glibc merge sort, `pick_anchor`, `create_tasks` -/

theorem mergeBy_perm {α : Type} (f : α → α → Bool) (l r : List α) : (mergeBy f l r).Perm (l ++ r) := by
  induction l, r using mergeBy.induct f with
  | case1 r => simp [mergeBy]
  | case2 l h => simp [mergeBy]
  | case3 a l b r h ih =>
    rw [mergeBy]; simp only [h, if_true]
    exact List.Perm.cons a ih
  | case4 a l b r h ih =>
    rw [mergeBy]; simp only [h]
    exact (List.Perm.cons b ih).trans (List.perm_middle.symm)

theorem msortBy_perm {α : Type} (f : α → α → Bool) (l : List α) : (msortBy f l).Perm l := by
  induction l using msortBy.induct with
  | case1 l h => rw [msortBy]; simp [h]
  | case2 l h ih1 ih2 =>
    rw [msortBy]; simp only [h, dite_false]
    exact (mergeBy_perm f _ _).trans ((ih1.append ih2).trans (by rw [List.take_append_drop]))

theorem createTasks_length (t : LTree) : (createTasks t).length + 1 = t.leaves.length := by
  induction t with
  | leaf i => simp [createTasks, LTree.leaves]
  | node c l r ihl ihr => simp only [createTasks, LTree.leaves, List.length_cons, List.length_append]; omega

theorem mapM_option_spec {α β : Type} (f : α → Option β) (P : β → Prop) (l : List α)
    (h : ∀ i ∈ l, ∃ y, f i = some y ∧ P y) :
    ∃ a, l.mapM f = some a ∧ a.length = l.length ∧ ∀ y ∈ a, P y := by
  induction l with
  | nil => exact ⟨[], rfl, rfl, by simp⟩
  | cons x xs ih =>
    obtain ⟨y, hy, hp⟩ := h x List.mem_cons_self
    obtain ⟨a, ha, hl, hP⟩ := ih (fun i hi => h i (List.mem_cons_of_mem _ hi))
    refine ⟨y :: a, by simp [List.mapM_cons, hy, ha], by simp [hl], ?_⟩
    intro z hz
    rcases List.mem_cons.1 hz with rfl | hz
    · exact hp
    · exact hP z hz

theorem pickAnchors_spec (lens : List Nat) (hne : lens ≠ []) :
    ∃ a, pickAnchors lens = some a ∧ a.length = min 32 lens.length ∧ ∀ x ∈ a, x < lens.length := by
  have hn : 0 < lens.length := List.length_pos_iff.2 hne
  unfold pickAnchors
  simp only
  have hna : (if 32 < lens.length then 32 else lens.length) = min 32 lens.length := by
    split <;> omega
  rw [hna]
  have h0 : ¬ (min 32 lens.length = 0) := by omega
  simp only [h0, if_false]
  have hperm := msortBy_perm lenTakeLeft lens.zipIdx
  have hsz : (msortBy lenTakeLeft lens.zipIdx).toArray.size = lens.length := by
    simp [hperm.length_eq]
  obtain ⟨a, ha, hl, hP⟩ := mapM_option_spec
    (fun i => ((msortBy lenTakeLeft lens.zipIdx).toArray[i * (lens.length / min 32 lens.length)]?).map (·.2))
    (fun x => x < lens.length) (List.range (min 32 lens.length)) (by
      intro i hi
      have hi' : i < min 32 lens.length := List.mem_range.1 hi
      have hidx : i * (lens.length / min 32 lens.length) < (msortBy lenTakeLeft lens.zipIdx).toArray.size := by
        rw [hsz]
        have h1 : i * (lens.length / min 32 lens.length) ≤ (min 32 lens.length - 1) * (lens.length / min 32 lens.length) :=
          Nat.mul_le_mul_right _ (by omega)
        have h2 : min 32 lens.length * (lens.length / min 32 lens.length) ≤ lens.length := Nat.mul_div_le _ _
        have h3 : 0 < lens.length / min 32 lens.length := Nat.div_pos (by omega) (by omega)
        have h4 : (min 32 lens.length - 1) * (lens.length / min 32 lens.length) + (lens.length / min 32 lens.length)
            = min 32 lens.length * (lens.length / min 32 lens.length) := by
          rw [← Nat.succ_mul]; congr 1; omega
        omega
      refine ⟨((msortBy lenTakeLeft lens.zipIdx).toArray[i * (lens.length / min 32 lens.length)]).2, ?_, ?_⟩
      · simp [Array.getElem?_eq_getElem hidx]
      · have hmem : (msortBy lenTakeLeft lens.zipIdx).toArray[i * (lens.length / min 32 lens.length)] ∈
            msortBy lenTakeLeft lens.zipIdx := by
          simp
        have := hperm.mem_iff.1 hmem
        generalize (msortBy lenTakeLeft lens.zipIdx).toArray[i * (lens.length / min 32 lens.length)] = p at this
        obtain ⟨v, k⟩ := p
        have := List.mem_zipIdx this
        simp only at this ⊢
        omega)
  exact ⟨a, ha, by simpa using hl, hP⟩

theorem treeTasks_length (t : Tree) (n : Nat) : (treeTasks t n).length + 1 = t.leaves.length := by
  unfold treeTasks label
  rw [createTasks_length, (labelFrom_spec t n).2.1]

end Kalign.Kmeans
