import KalignModel.Lemmas.ProfBuild
/-!
# `update_n` along an all-aligned path adds two profiles entry by entry; profiles of copies
-/
namespace Kalign

theorem updateStep_zero (ap : AlnParam ExactScore) (pa pb : Array ExactScore) (sa sb : Nat) (st : UpdState ExactScore) :
    updateStep ap pa pb sa sb st 0 = (colOf? pa st.pa).bind fun ca => (colOf? pb st.pb).bind fun cb =>
      some { pa := st.pa + 1, pb := st.pb + 1, out := st.out ++ addCols ca cb } := by
  unfold updateStep
  simp [bit]

theorem takeWhile_replicate_zero (n : Nat) : (List.replicate n 0).takeWhile (· ≠ 3) = List.replicate n 0 := by
  induction n with
  | zero => rfl
  | succ n ih => simp [List.replicate_succ, List.takeWhile_cons, ih]

/-- entry-wise sum of the first `j` columns -/
def SumUpTo (pa pb out : Array ExactScore) (j : Nat) : Prop :=
  out.size = 64 * j ∧ ∀ col e, col < j → e < 64 → pget out col e = Score.add (pget pa col e) (pget pb col e)

theorem sumUpTo_snoc (pa pb out : Array ExactScore) (j : Nat) (h : SumUpTo pa pb out j)
    (ca cb : Array ExactScore) (hca : ca.size = 64) (hcb : cb.size = 64)
    (ha : ∀ e, e < 64 → ca.getD e Score.zero = pget pa j e) (hb : ∀ e, e < 64 → cb.getD e Score.zero = pget pb j e) :
    SumUpTo pa pb (out ++ addCols ca cb) (j + 1) := by
  obtain ⟨hs, hg⟩ := h
  refine ⟨by rw [Array.size_append, hs, addCols_size]; omega, fun col e hc he => ?_⟩
  by_cases hlt : col < j
  · rw [pget_append_left _ _ _ _ (by omega), hg col e hlt he]
  · have : col = j := by omega
    subst this
    rw [pget_append_right _ _ col e hs, addCols_getD _ _ e he, ha e he, hb e he]

theorem updateN_fold (ap : AlnParam ExactScore) (pa pb : Array ExactScore) (sa sb ncol : Nat)
    (hpa : pa.size = 64 * ncol) (hpb : pb.size = 64 * ncol) :
    ∀ n j out, j + n ≤ ncol → SumUpTo pa pb out j →
      ∃ out', (List.replicate n 0).foldlM (updateStep ap pa pb sa sb) { pa := j, pb := j, out := out } =
        some { pa := j + n, pb := j + n, out := out' } ∧ SumUpTo pa pb out' (j + n) := by
  intro n
  induction n with
  | zero => intro j out _ h; exact ⟨out, rfl, h⟩
  | succ n ih =>
    intro j out hj h
    obtain ⟨ca, hca1, hca2, hca3⟩ := colOf?_spec pa j (by omega)
    obtain ⟨cb, hcb1, hcb2, hcb3⟩ := colOf?_spec pb j (by omega)
    have hstep : updateStep ap pa pb sa sb { pa := j, pb := j, out := out } 0 =
        some { pa := j + 1, pb := j + 1, out := out ++ addCols ca cb } := by
      rw [updateStep_zero]; simp only [hca1, hcb1, Option.bind]
    obtain ⟨out', h1, h2⟩ := ih (j + 1) (out ++ addCols ca cb) (by omega)
      (sumUpTo_snoc pa pb out j h ca cb hca2 hcb2 hca3 hcb3)
    refine ⟨out', ?_, by rw [show j + (n + 1) = j + 1 + n by omega]; exact h2⟩
    rw [List.replicate_succ, List.foldlM_cons, hstep]
    simp only [Option.bind_eq_bind, Option.bind]
    rw [h1, show j + (n + 1) = j + 1 + n by omega]

/-- **`update_n` along the diagonal**: the new profile is the entry-wise sum -/
theorem updateN_diag (ap : AlnParam ExactScore) (pa pb : Array ExactScore) (sa sb len : Nat)
    (hpa : pa.size = 64 * (len + 2)) (hpb : pb.size = 64 * (len + 2)) :
    ∃ p, updateN ap pa pb (List.replicate len 0) sa sb = some p ∧ p.size = 64 * (len + 2) ∧
      ∀ col e, col < len + 2 → e < 64 → pget p col e = Score.add (pget pa col e) (pget pb col e) := by
  obtain ⟨c0a, h0a1, h0a2, h0a3⟩ := colOf?_spec pa 0 (by omega)
  obtain ⟨c0b, h0b1, h0b2, h0b3⟩ := colOf?_spec pb 0 (by omega)
  have hinit : SumUpTo pa pb (addCols c0a c0b) 1 := by
    have := sumUpTo_snoc pa pb #[] 0 ⟨rfl, fun _ _ h => absurd h (by omega)⟩ c0a c0b h0a2 h0b2 h0a3 h0b3
    simpa using this
  obtain ⟨out', hf, hsum⟩ := updateN_fold ap pa pb sa sb (len + 2) hpa hpb len 1 _ (by omega) hinit
  obtain ⟨cla, hla1, hla2, hla3⟩ := colOf?_spec pa (1 + len) (by omega)
  obtain ⟨clb, hlb1, hlb2, hlb3⟩ := colOf?_spec pb (1 + len) (by omega)
  have hfin := sumUpTo_snoc pa pb out' (1 + len) hsum cla clb hla2 hlb2 hla3 hlb3
  refine ⟨out' ++ addCols cla clb, ?_, by rw [hfin.1]; omega, fun col e hc he => hfin.2 col e (by omega) he⟩
  unfold updateN
  rw [takeWhile_replicate_zero]
  simp only [h0a1, h0b1, Option.bind_eq_bind, Option.bind, hf, hla1, hlb1]
  rfl

/-! ### profiles of copies -/

/-- what is invariant under `set_gap_penalties_n`: everything outside the slots 27–29 -/
structure CopiesRaw (p : Array ExactScore) (seq : Array Nat) (k : Nat) (gpo gpe tgpe : Int) (s : Nat → Nat → Int) :
    Prop where
  size : p.size = 64 * (seq.size + 2)
  e55 : ∀ col, col ≤ seq.size + 1 → pget p col 55 = some (-((k : Int) * gpo))
  e56 : ∀ col, col ≤ seq.size + 1 → pget p col 56 = some (-((k : Int) * gpe))
  e57 : ∀ col, col ≤ seq.size + 1 → pget p col 57 = some (-((k : Int) * tgpe))
  subE : ∀ i, i < seq.size → ∀ c, c < 23 → pget p (i + 1) (32 + c) = some ((k : Int) * s (seq.getD i 0) c)
  cnt : ∀ i, i < seq.size → ∀ c, c < 23 →
    pget p (i + 1) c = some (if c = seq.getD i 0 then 2000 * (k : Int) else 0)

section
variable (ap : AlnParam ExactScore) (gpo gpe tgpe : Int) (s : Nat → Nat → Int) (hap : ApOK ap gpo gpe tgpe s)
  (seq : Array Nat) (h23 : ∀ i, seq.getD i 0 < 23)

include hap h23 in
theorem makeProfile_raw : CopiesRaw (makeProfile ap seq) seq 1 gpo gpe tgpe s := by
  obtain ⟨hs, h0, hl, hi⟩ := makeProfile_spec ap seq
  have hneg : Score.neg ap.gpo = (some (-gpo) : ExactScore) ∧ Score.neg ap.gpe = (some (-gpe) : ExactScore) ∧
      Score.neg ap.tgpe = (some (-tgpe) : ExactScore) := by
    rw [hap.gpo, hap.gpe, hap.tgpe]; exact ⟨rfl, rfl, rfl⟩
  have hcol : ∀ col, col ≤ seq.size + 1 → ∀ e, e = 55 ∨ e = 56 ∨ e = 57 →
      pget (makeProfile ap seq) col e =
        if e = 57 then Score.neg ap.tgpe else if e = 56 then Score.neg ap.gpe else Score.neg ap.gpo := by
    intro col hc e he
    have he64 : e < 64 := by omega
    by_cases hc0 : col = 0
    · subst hc0
      rw [h0 e he64, sentinelCol_getD]
      rcases he with h | h | h <;> subst h <;> simp
    · by_cases hcl : col = seq.size + 1
      · subst hcl
        rw [hl e he64, sentinelCol_getD]
        rcases he with h | h | h <;> subst h <;> simp
      · obtain ⟨i, rfl⟩ : ∃ i, col = i + 1 := ⟨col - 1, by omega⟩
        rw [hi i (by omega) e he64, residueCol_getD ap _ (h23 i) e he64]
        rcases he with h | h | h <;> subst h <;> simp
  refine ⟨hs, ?_, ?_, ?_, ?_, ?_⟩
  · intro col hc; rw [hcol col hc 55 (Or.inl rfl)]; simp [hneg.1]
  · intro col hc; rw [hcol col hc 56 (Or.inr (Or.inl rfl))]; simp [hneg.2.1]
  · intro col hc; rw [hcol col hc 57 (Or.inr (Or.inr rfl))]; simp [hneg.2.2]
  · intro i hi' c hc
    rw [hi i hi' (32 + c) (by omega), residueCol_getD ap _ (h23 i) (32 + c) (by omega)]
    rw [if_neg (by omega), if_neg (by omega), if_neg (by omega), if_pos ⟨by omega, by omega⟩, Nat.add_sub_cancel_left,
      hap.sub]
    simp
  · intro i hi' c hc
    rw [hi i hi' c (by omega), residueCol_getD ap _ (h23 i) c (by omega)]
    rw [if_neg (by omega), if_neg (by omega), if_neg (by omega), if_neg (by omega)]
    by_cases hcc : c = seq.getD i 0
    · rw [if_pos hcc, if_pos hcc]; rfl
    · rw [if_neg hcc, if_neg hcc]; rfl

theorem setGapPenalties_raw (p : Array ExactScore) (k n : Nat) (h : CopiesRaw p seq k gpo gpe tgpe s) :
    CopiesRaw (setGapPenalties p n) seq k gpo gpe tgpe s := by
  obtain ⟨hs, hg⟩ := setGapPenalties_spec p n (seq.size + 2) h.size
  have hkeep : ∀ col e, col ≤ seq.size + 1 → e < 64 → ¬ (e = 27 ∨ e = 28 ∨ e = 29) →
      pget (setGapPenalties p n) col e = pget p col e := fun col e hc he hne => by
    rw [hg col e (by omega) he, if_neg hne]
  refine ⟨by rw [hs]; exact h.size, ?_, ?_, ?_, ?_, ?_⟩
  · intro col hc; rw [hkeep col 55 hc (by omega) (by omega)]; exact h.e55 col hc
  · intro col hc; rw [hkeep col 56 hc (by omega) (by omega)]; exact h.e56 col hc
  · intro col hc; rw [hkeep col 57 hc (by omega) (by omega)]; exact h.e57 col hc
  · intro i hi c hc; rw [hkeep (i + 1) (32 + c) (by omega) (by omega) (by omega)]; exact h.subE i hi c hc
  · intro i hi c hc; rw [hkeep (i + 1) c (by omega) (by omega) (by omega)]; exact h.cnt i hi c hc

theorem updateN_raw (p1 p2 : Array ExactScore) (k1 k2 sa sb : Nat)
    (h1 : CopiesRaw p1 seq k1 gpo gpe tgpe s) (h2 : CopiesRaw p2 seq k2 gpo gpe tgpe s) :
    ∃ p, updateN ap p1 p2 (List.replicate seq.size 0) sa sb = some p ∧ CopiesRaw p seq (k1 + k2) gpo gpe tgpe s := by
  obtain ⟨p, hp, hs, hg⟩ := updateN_diag ap p1 p2 sa sb seq.size h1.size h2.size
  refine ⟨p, hp, hs, ?_, ?_, ?_, ?_, ?_⟩
  · intro col hc
    rw [hg col 55 (by omega) (by omega), h1.e55 col hc, h2.e55 col hc]
    show some _ = some _
    congr 1; push_cast; rw [Int.add_mul]; omega
  · intro col hc
    rw [hg col 56 (by omega) (by omega), h1.e56 col hc, h2.e56 col hc]
    show some _ = some _
    congr 1; push_cast; rw [Int.add_mul]; omega
  · intro col hc
    rw [hg col 57 (by omega) (by omega), h1.e57 col hc, h2.e57 col hc]
    show some _ = some _
    congr 1; push_cast; rw [Int.add_mul]; omega
  · intro i hi c hc
    rw [hg (i + 1) (32 + c) (by omega) (by omega), h1.subE i hi c hc, h2.subE i hi c hc]
    show some _ = some _
    congr 1; push_cast; rw [Int.add_mul]
  · intro i hi c hc
    rw [hg (i + 1) c (by omega) (by omega), h1.cnt i hi c hc, h2.cnt i hi c hc]
    show some _ = some _
    congr 1; push_cast
    split <;> omega

/-- **(a)**: a raw profile of `k` copies prepared against a group of `m` is what the kernels expect -/
theorem profOK_of_raw (p : Array ExactScore) (k m : Nat) (h : CopiesRaw p seq k gpo gpe tgpe s) :
    ProfOK (setGapPenalties p m) seq k m gpo gpe tgpe s := by
  obtain ⟨_, hg⟩ := setGapPenalties_spec p m (seq.size + 2) h.size
  have hraw := setGapPenalties_raw gpo gpe tgpe s seq p k m h
  have hscale : ∀ x : Int, Score.mul (some (-((k : Int) * x)) : ExactScore) (Score.ofNat m) =
      some (-(((k * m : Nat) : Int) * x)) := by
    intro x
    rw [ex_mul_ofNat]
    congr 1
    push_cast
    rw [Int.neg_mul, Int.mul_right_comm]
  refine ⟨?_, ?_, ?_, hraw.subE, hraw.cnt⟩
  · intro col hc
    rw [hg col 27 (by omega) (by omega), if_pos (Or.inl rfl), h.e55 col hc, hscale]
  · intro col hc
    rw [hg col 28 (by omega) (by omega), if_pos (Or.inr (Or.inl rfl)), h.e56 col hc, hscale]
  · intro col hc
    rw [hg col 29 (by omega) (by omega), if_pos (Or.inr (Or.inr rfl)), h.e57 col hc, hscale]

end

/-- the profiles `do_align` can build for copies of `seq` along all-aligned merges: a single sequence, any
`set_gap_penalties_n`, and the `update_n` of two such profiles along the diagonal path -/
inductive Built (ap : AlnParam ExactScore) (seq : Array Nat) : Array ExactScore → Nat → Prop
  | leaf : Built ap seq (makeProfile ap seq) 1
  | prep (p : Array ExactScore) (k n : Nat) : Built ap seq p k → Built ap seq (setGapPenalties p n) k
  | merge (p1 p2 p : Array ExactScore) (k1 k2 sa sb : Nat) : Built ap seq p1 k1 → Built ap seq p2 k2 →
      updateN ap p1 p2 (List.replicate seq.size 0) sa sb = some p → Built ap seq p (k1 + k2)

theorem built_raw (ap : AlnParam ExactScore) (gpo gpe tgpe : Int) (s : Nat → Nat → Int) (hap : ApOK ap gpo gpe tgpe s)
    (seq : Array Nat) (h23 : ∀ i, seq.getD i 0 < 23) (p : Array ExactScore) (k : Nat) (h : Built ap seq p k) :
    CopiesRaw p seq k gpo gpe tgpe s := by
  induction h with
  | leaf => exact makeProfile_raw ap gpo gpe tgpe s hap seq h23
  | prep p k n _ ih => exact setGapPenalties_raw gpo gpe tgpe s seq p k n ih
  | merge p1 p2 p k1 k2 sa sb _ _ hu ih1 ih2 =>
    obtain ⟨p', hp', hraw⟩ := updateN_raw ap gpo gpe tgpe s seq p1 p2 k1 k2 sa sb ih1 ih2
    rw [hu] at hp'
    injection hp' with hp'
    rw [hp']; exact hraw

/-- **`profile_of_copies`**: whatever the merge order, the profile of `k` copies prepared against `m` is `ProfOK` -/
theorem built_profOK (ap : AlnParam ExactScore) (gpo gpe tgpe : Int) (s : Nat → Nat → Int) (hap : ApOK ap gpo gpe tgpe s)
    (seq : Array Nat) (h23 : ∀ i, seq.getD i 0 < 23) (p : Array ExactScore) (k m : Nat) (h : Built ap seq p k) :
    ProfOK (setGapPenalties p m) seq k m gpo gpe tgpe s :=
  profOK_of_raw gpo gpe tgpe s seq p k m (built_raw ap gpo gpe tgpe s hap seq h23 p k h)

/-- merging is always possible -/
theorem built_merge_exists (ap : AlnParam ExactScore) (gpo gpe tgpe : Int) (s : Nat → Nat → Int)
    (hap : ApOK ap gpo gpe tgpe s) (seq : Array Nat) (h23 : ∀ i, seq.getD i 0 < 23)
    (p1 p2 : Array ExactScore) (k1 k2 sa sb : Nat) (h1 : Built ap seq p1 k1) (h2 : Built ap seq p2 k2) :
    ∃ p, updateN ap p1 p2 (List.replicate seq.size 0) sa sb = some p ∧ Built ap seq p (k1 + k2) := by
  obtain ⟨p, hp, _⟩ := updateN_raw ap gpo gpe tgpe s seq p1 p2 k1 k2 sa sb
    (built_raw ap gpo gpe tgpe s hap seq h23 p1 k1 h1) (built_raw ap gpo gpe tgpe s hap seq h23 p2 k2 h2)
  exact ⟨p, hp, Built.merge p1 p2 p k1 k2 sa sb h1 h2 hp⟩

end Kalign
