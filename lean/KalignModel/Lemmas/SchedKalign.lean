import KalignModel.Model.SchedKalign
import KalignModel.Lemmas.Sched
/-!
# Footprint safety of kalign's task programs
-/
namespace Kalign.Sched
open Kalign

/-! ## ids of labelled trees -/

theorem LTree.id_mem_ids (t : LTree) : t.id ∈ t.ids := by
  cases t <;> simp [LTree.id, LTree.ids]

theorem LTree.leaves_subset_ids (t : LTree) : ∀ i ∈ t.leaves, i ∈ t.ids := by
  induction t with
  | leaf i => simp [LTree.leaves, LTree.ids]
  | node c l r ihl ihr =>
    intro i hi
    simp only [LTree.leaves, List.mem_append] at hi
    simp only [LTree.ids, List.mem_append]
    exact hi.elim (fun h => Or.inl (Or.inl (ihl i h))) (fun h => Or.inl (Or.inr (ihr i h)))

theorem LTree.Sub.ids_subset {v t : LTree} (h : LTree.Sub v t) : ∀ i ∈ v.ids, i ∈ t.ids := by
  induction h with
  | refl => exact fun _ h => h
  | left _ ih => intro i hi; simp only [LTree.ids, List.mem_append]; exact Or.inl (Or.inl (ih i hi))
  | right _ ih => intro i hi; simp only [LTree.ids, List.mem_append]; exact Or.inl (Or.inr (ih i hi))

/-- every merge of a subtree only names node ids of that subtree -/
theorem atoms_treeProg_ids (t : LTree) (m : MergeAtom) (hm : m ∈ (treeProg t).atoms) :
    m.a ∈ t.ids ∧ m.b ∈ t.ids ∧ m.c ∈ t.ids ∧ ∀ i ∈ m.members, i ∈ t.ids := by
  induction t with
  | leaf i => simp [treeProg, Prog.atoms] at hm
  | node c l r ihl ihr =>
    simp only [treeProg, Prog.atoms, List.mem_append, List.mem_singleton] at hm
    simp only [LTree.ids, List.mem_append, List.mem_singleton]
    rcases hm with (hm | hm) | hm
    · obtain ⟨h1, h2, h3, h4⟩ := ihl hm
      exact ⟨Or.inl (Or.inl h1), Or.inl (Or.inl h2), Or.inl (Or.inl h3), fun i hi => Or.inl (Or.inl (h4 i hi))⟩
    · obtain ⟨h1, h2, h3, h4⟩ := ihr hm
      exact ⟨Or.inl (Or.inr h1), Or.inl (Or.inr h2), Or.inl (Or.inr h3), fun i hi => Or.inl (Or.inr (h4 i hi))⟩
    · subst hm
      refine ⟨Or.inl (Or.inl l.id_mem_ids), Or.inl (Or.inr r.id_mem_ids), Or.inr rfl, ?_⟩
      intro i hi
      simp only [LTree.mergeAtom, List.mem_append] at hi
      exact hi.elim (fun h => Or.inl (Or.inl (l.leaves_subset_ids i h))) (fun h => Or.inl (Or.inr (r.leaves_subset_ids i h)))

/-- index of a mutable location -/
def KLoc.idx : KLoc → Option Nat
  | .input => none
  | .gaps i => some i
  | .profile k => some k
  | .sip k => some k
  | .nsip k => some k
  | .plen k => some k
  | .active k => some k

theorem owns_idx (m : MergeAtom) (x : KLoc) (h : m.owns x = true) :
    ∃ k, x.idx = some k ∧ (k = m.a ∨ k = m.b ∨ k = m.c ∨ k ∈ m.members) := by
  cases x with
  | input => simp [MergeAtom.owns] at h
  | gaps i =>
    refine ⟨i, rfl, Or.inr (Or.inr (Or.inr ?_))⟩
    simpa [MergeAtom.owns] using h
  | profile k =>
    have h' : k = m.a ∨ k = m.b ∨ k = m.c := by simpa [MergeAtom.owns, or_assoc] using h
    exact ⟨k, rfl, by rcases h' with e | e | e <;> simp [e]⟩
  | sip k =>
    have h' : k = m.a ∨ k = m.b ∨ k = m.c := by simpa [MergeAtom.owns, or_assoc] using h
    exact ⟨k, rfl, by rcases h' with e | e | e <;> simp [e]⟩
  | nsip k =>
    have h' : k = m.a ∨ k = m.b ∨ k = m.c := by simpa [MergeAtom.owns, or_assoc] using h
    exact ⟨k, rfl, by rcases h' with e | e | e <;> simp [e]⟩
  | plen k =>
    have h' : k = m.a ∨ k = m.b ∨ k = m.c := by simpa [MergeAtom.owns, or_assoc] using h
    exact ⟨k, rfl, by rcases h' with e | e | e <;> simp [e]⟩
  | active k =>
    have h' : k = m.a ∨ k = m.b ∨ k = m.c := by simpa [MergeAtom.owns, or_assoc] using h
    exact ⟨k, rfl, by rcases h' with e | e | e <;> simp [e]⟩

theorem touches_merge (m : MergeAtom) (x : KLoc) (h : (mergeFp m).touches x) :
    x = .input ∨ m.owns x = true := by
  rcases h with h | h
  · simpa [mergeFp, mergeRd] using h
  · exact Or.inr h

/-- merges whose named ids lie in disjoint id sets have disjoint footprints -/
theorem merge_disjoint (m1 m2 : MergeAtom) (s1 s2 : List Nat)
    (h1 : m1.a ∈ s1 ∧ m1.b ∈ s1 ∧ m1.c ∈ s1 ∧ ∀ i ∈ m1.members, i ∈ s1)
    (h2 : m2.a ∈ s2 ∧ m2.b ∈ s2 ∧ m2.c ∈ s2 ∧ ∀ i ∈ m2.members, i ∈ s2)
    (hd : ∀ i, i ∈ s1 → i ∈ s2 → False) : (mergeFp m1).Disjoint (mergeFp m2) := by
  have key : ∀ x, m1.owns x = true → m2.owns x = true → False := by
    intro x o1 o2
    obtain ⟨k, hk, c1⟩ := owns_idx m1 x o1
    obtain ⟨k', hk', c2⟩ := owns_idx m2 x o2
    have : k = k' := by rw [hk] at hk'; exact Option.some.inj hk'
    subst this
    have k1 : k ∈ s1 := by
      rcases c1 with e | e | e | e
      · exact e ▸ h1.1
      · exact e ▸ h1.2.1
      · exact e ▸ h1.2.2.1
      · exact h1.2.2.2 k e
    have k2 : k ∈ s2 := by
      rcases c2 with e | e | e | e
      · exact e ▸ h2.1
      · exact e ▸ h2.2.1
      · exact e ▸ h2.2.2.1
      · exact h2.2.2.2 k e
    exact hd k k1 k2
  intro x
  constructor
  · intro w t
    have w' : m1.owns x = true := w
    rcases touches_merge m2 x t with e | o
    · subst e; simp [MergeAtom.owns] at w'
    · exact key x w' o
  · intro w t
    have w' : m2.owns x = true := w
    rcases touches_merge m1 x t with e | o
    · subst e; simp [MergeAtom.owns] at w'
    · exact key x o w'

/-- **concurrent merges lie in disjoint subtrees ⇒ disjoint footprints** -/
theorem treeProg_safe (T : LTree) (hnd : T.ids.Nodup) : Safe mergeFp (treeProg T) := by
  induction T with
  | leaf i => trivial
  | node c l r ihl ihr =>
    simp only [LTree.ids] at hnd
    have hlr : (l.ids ++ r.ids).Nodup := (List.nodup_append.1 hnd).1
    have hl : l.ids.Nodup := (List.nodup_append.1 hlr).1
    have hr : r.ids.Nodup := (List.nodup_append.1 hlr).2.1
    have hdis : ∀ i, i ∈ l.ids → i ∈ r.ids → False :=
      fun i h1 h2 => (List.nodup_append.1 hlr).2.2 i h1 i h2 rfl
    refine ⟨⟨ihl hl, ihr hr, ?_⟩, trivial⟩
    intro m1 hm1 m2 hm2
    exact merge_disjoint m1 m2 l.ids r.ids (atoms_treeProg_ids l m1 hm1) (atoms_treeProg_ids r m2 hm2) hdis

theorem atoms_treeProg (T : LTree) : (treeProg T).atoms = T.serialMerges := by
  induction T with
  | leaf i => rfl
  | node c l r ihl ihr => simp only [treeProg, Prog.atoms, LTree.serialMerges, ihl, ihr]

/-- the program of a sub-node is a sub-program -/
theorem treeProg_sub {v T : LTree} (h : LTree.Sub v T) : Prog.Sub (treeProg v) (treeProg T) := by
  induction h with
  | refl => exact .refl _
  | left _ ih => exact .seqL (.parL ih)
  | right _ ih => exact .seqL (.parR ih)

/-- the merge of an internal node is the last atom of its program -/
theorem mergeAtom_mem (c : Nat) (l r : LTree) : LTree.mergeAtom c l r ∈ (treeProg (.node c l r)).atoms := by
  simp [treeProg, Prog.atoms]

/-- distinct node ids ⇒ every merge occurs once in every schedule -/
theorem serialMerges_c_subset (T : LTree) : ∀ m ∈ T.serialMerges, m.c ∈ T.ids := by
  intro m hm
  rw [← atoms_treeProg] at hm
  exact (atoms_treeProg_ids T m hm).2.2.1

theorem serialMerges_nodup (T : LTree) (hnd : T.ids.Nodup) : T.serialMerges.Nodup := by
  induction T with
  | leaf i => simp [LTree.serialMerges]
  | node c l r ihl ihr =>
    simp only [LTree.ids] at hnd
    have hlr : (l.ids ++ r.ids).Nodup := (List.nodup_append.1 hnd).1
    have hl : l.ids.Nodup := (List.nodup_append.1 hlr).1
    have hr : r.ids.Nodup := (List.nodup_append.1 hlr).2.1
    have hc : ∀ i ∈ l.ids ++ r.ids, i ≠ c := fun i hi e =>
      (List.nodup_append.1 hnd).2.2 i hi c (by simp) e
    simp only [LTree.serialMerges]
    refine List.nodup_append.2 ⟨List.nodup_append.2 ⟨ihl hl, ihr hr, ?_⟩, by simp, ?_⟩
    · intro m1 h1 m2 h2 e
      subst e
      exact (List.nodup_append.1 hlr).2.2 _ (serialMerges_c_subset l m1 h1) _ (serialMerges_c_subset r m1 h2) rfl
    · intro m1 h1 m2 h2 e
      simp only [List.mem_singleton] at h2
      subst h2; subst e
      have : (LTree.mergeAtom c l r).c ∈ l.ids ++ r.ids := by
        rcases List.mem_append.1 h1 with h | h
        · exact List.mem_append.2 (Or.inl (serialMerges_c_subset l _ h))
        · exact List.mem_append.2 (Or.inr (serialMerges_c_subset r _ h))
      exact hc _ this rfl

/-! ## `label_internal` yields pairwise distinct ids -/

theorem labelFrom_spec (T : Tree) (n : Nat) :
    n ≤ (labelFrom T n).2 ∧ (labelFrom T n).1.leaves = T.leaves ∧ (labelFrom T n).1.erase = T ∧
    (∀ i ∈ (labelFrom T n).1.ids, i ∈ T.leaves ∨ (n ≤ i ∧ i < (labelFrom T n).2)) := by
  induction T generalizing n with
  | leaf i => simp [labelFrom, LTree.leaves, Tree.leaves, LTree.erase, LTree.ids]
  | node l r ihl ihr =>
    obtain ⟨a1, a2, a3, a4⟩ := ihl n
    obtain ⟨b1, b2, b3, b4⟩ := ihr (labelFrom l n).2
    refine ⟨?_, ?_, ?_, ?_⟩
    · simp only [labelFrom]; omega
    · simp only [labelFrom, LTree.leaves, Tree.leaves, a2, b2]
    · simp only [labelFrom, LTree.erase, a3, b3]
    · intro i hi
      simp only [labelFrom, LTree.ids, List.mem_append, List.mem_singleton] at hi
      simp only [labelFrom, Tree.leaves, List.mem_append]
      rcases hi with (hi | hi) | hi
      · rcases a4 i hi with h | h
        · exact Or.inl (Or.inl h)
        · exact Or.inr (by omega)
      · rcases b4 i hi with h | h
        · exact Or.inl (Or.inr h)
        · exact Or.inr (by omega)
      · exact Or.inr (by omega)

theorem labelFrom_nodup (T : Tree) (n : Nat) (hnd : T.leaves.Nodup) (hlt : ∀ i ∈ T.leaves, i < n) :
    (labelFrom T n).1.ids.Nodup := by
  induction T generalizing n with
  | leaf i => simp [labelFrom, LTree.ids]
  | node l r ihl ihr =>
    simp only [Tree.leaves] at hnd hlt
    have hl := ihl n (List.nodup_append.1 hnd).1 (fun i hi => hlt i (List.mem_append.2 (Or.inl hi)))
    obtain ⟨a1, _, _, a4⟩ := labelFrom_spec l n
    have hr := ihr (labelFrom l n).2 (List.nodup_append.1 hnd).2.1
      (fun i hi => Nat.lt_of_lt_of_le (hlt i (List.mem_append.2 (Or.inr hi))) a1)
    obtain ⟨b1, _, _, b4⟩ := labelFrom_spec r (labelFrom l n).2
    simp only [labelFrom, LTree.ids]
    refine List.nodup_append.2 ⟨List.nodup_append.2 ⟨hl, hr, ?_⟩, by simp, ?_⟩
    · intro i hi j hj e
      subst e
      rcases a4 i hi with h | h <;> rcases b4 i hj with h' | h'
      · exact (List.nodup_append.1 hnd).2.2 i h i h' rfl
      · have := hlt i (List.mem_append.2 (Or.inl h)); omega
      · have := hlt i (List.mem_append.2 (Or.inr h')); omega
      · omega
    · intro i hi j hj e
      simp only [List.mem_singleton] at hj
      subst hj; subst e
      rcases List.mem_append.1 hi with hi | hi
      · rcases a4 _ hi with h | h
        · have := hlt _ (List.mem_append.2 (Or.inl h)); omega
        · omega
      · rcases b4 _ hi with h | h
        · have := hlt _ (List.mem_append.2 (Or.inr h)); omega
        · omega

/-! ## the small fixed programs -/

theorem hirsch_safe : Safe hirschFp hirschProg := by
  refine ⟨⟨trivial, trivial, ?_⟩, trivial⟩
  intro a ha b hb
  simp only [Prog.atoms, List.mem_singleton] at ha hb
  subst ha; subst hb
  intro x
  cases x <;> simp [hirschFp, Footprint.touches, hirschRd, hirschWr]

theorem hirschRec_safe (t : HTree) (path : List Bool) :
    Safe (fun a : List Bool × HAtom => hirschFp a.2) (hirschRecProg t path) := by
  induction t generalizing path with
  | stop => trivial
  | step l r ihl ihr =>
    refine ⟨⟨⟨trivial, trivial, ?_⟩, trivial⟩, ihl _, ihr _⟩
    intro a ha b hb
    simp only [Prog.atoms, List.mem_singleton] at ha hb
    subst ha; subst hb
    intro x
    cases x <;> simp [hirschFp, Footprint.touches, hirschRd, hirschWr]

theorem split_disjoint (j k : Nat) (h : j ≠ k) : (kmFp (.split j)).Disjoint (kmFp (.split k)) := by
  intro x
  cases x with
  | res i =>
    simp only [kmFp, Footprint.touches, kmRd, kmWr, beq_iff_eq, Bool.or_eq_true, KmLoc.res.injEq, reduceCtorEq, false_or, or_self]
    exact ⟨fun e1 e2 => h (e1.symm.trans e2), fun e1 e2 => h (e2.symm.trans e1)⟩
  | _ => simp [kmFp, Footprint.touches, kmRd, kmWr]

theorem kmeansRound_safe : Safe kmFp kmeansRoundProg := by
  refine ⟨?_, trivial⟩
  have := safe_parAll_map kmFp (fun k => Prog.atom (KmAtom.split k)) (is := [0, 1, 2, 3]) (by decide)
    (fun _ _ => trivial)
    (by
      intro i _ j _ hij a ha b hb
      simp only [Prog.atoms, List.mem_singleton] at ha hb
      subst ha; subst hb
      exact split_disjoint i j hij)
  exact this

theorem cell_disjoint (i j i' j' : Nat) (h : i ≠ i' ∨ j ≠ j') :
    (dFp (.cell i j)).Disjoint (dFp (.cell i' j')) := by
  intro x
  cases x with
  | dm a b =>
    simp only [dFp, Footprint.touches, dRd, dWr, beq_iff_eq, Bool.or_eq_true, DLoc.dm.injEq, reduceCtorEq, false_or, or_self]
    constructor
    · rintro ⟨e1, e2⟩ ⟨e3, e4⟩
      rcases h with h | h
      · exact h (e1.symm.trans e3)
      · exact h (e2.symm.trans e4)
    · rintro ⟨e1, e2⟩ ⟨e3, e4⟩
      rcases h with h | h
      · exact h (e3.symm.trans e1)
      · exact h (e4.symm.trans e2)
  | _ => simp [dFp, Footprint.touches, dRd, dWr]

theorem atoms_row (i m : Nat) (a : DAtom)
    (ha : a ∈ (parAll ((List.range m).map fun j => Prog.atom (DAtom.cell i j))).atoms) :
    ∃ j, j < m ∧ a = .cell i j := by
  obtain ⟨p, hp, hap⟩ := mem_atoms_parAll.1 ha
  obtain ⟨j, hj, rfl⟩ := List.mem_map.1 hp
  simp only [Prog.atoms, List.mem_singleton] at hap
  exact ⟨j, List.mem_range.1 hj, hap⟩

theorem dist_safe (n m : Nat) : Safe dFp (distProg n m) := by
  apply safe_parAll_map dFp _ List.nodup_range
  · intro i _
    apply safe_parAll_map dFp _ List.nodup_range
    · intro _ _; trivial
    · intro j _ j' _ hjj a ha b hb
      simp only [Prog.atoms, List.mem_singleton] at ha hb
      subst ha; subst hb
      exact cell_disjoint i j i j' (Or.inr hjj)
  · intro i _ i' _ hii a ha b hb
    obtain ⟨j, _, rfl⟩ := atoms_row i m a ha
    obtain ⟨j', _, rfl⟩ := atoms_row i' m b hb
    exact cell_disjoint i j i' j' (Or.inl hii)

theorem dEstimation_safe (n m : Nat) : Safe dFp (dEstimationProg n m) := ⟨trivial, dist_safe n m⟩

/-! ## the recursion of `bisecting_kmeans` -/

theorem KTree.id_mem_ids (t : KTree) : t.id ∈ t.ids := by
  cases t <;> simp [KTree.id, KTree.ids]

/-- the call ids an atom mentions -/
def KRAtom.names : KRAtom → List Nat
  | .upgma i => [i]
  | .rounds i l r => [i, l, r]
  | .join i l r => [i, l, r]

def KRLoc.idx : KRLoc → Option Nat
  | .input => none
  | .mask => none
  | .samples i => some i
  | .node i => some i

theorem atoms_kmeansRec_names (t : KTree) (a : KRAtom) (ha : a ∈ (kmeansRecProg t).atoms) :
    ∀ i ∈ a.names, i ∈ t.ids := by
  induction t with
  | small i =>
    simp only [kmeansRecProg, Prog.atoms, List.mem_singleton] at ha
    subst ha; simp [KRAtom.names, KTree.ids]
  | big i l r ihl ihr =>
    simp only [kmeansRecProg, Prog.atoms, List.mem_append, List.mem_cons, List.not_mem_nil, or_false] at ha
    intro k hk
    simp only [KTree.ids, List.mem_append, List.mem_singleton]
    have hlid := l.id_mem_ids
    have hrid := r.id_mem_ids
    rcases ha with ha | (ha | ha) | ha
    · subst ha
      simp only [KRAtom.names, List.mem_cons, List.not_mem_nil, or_false] at hk
      rcases hk with e | e | e <;> subst e
      · exact Or.inr rfl
      · exact Or.inl (Or.inl hlid)
      · exact Or.inl (Or.inr hrid)
    · exact Or.inl (Or.inl (ihl ha k hk))
    · exact Or.inl (Or.inr (ihr ha k hk))
    · subst ha
      simp only [KRAtom.names, List.mem_cons, List.not_mem_nil, or_false] at hk
      rcases hk with e | e | e <;> subst e
      · exact Or.inr rfl
      · exact Or.inl (Or.inl hlid)
      · exact Or.inl (Or.inr hrid)

theorem kr_touches_idx (a : KRAtom) (x : KRLoc) (h : (krFp0 a).touches x) :
    x = .input ∨ ∃ k, x.idx = some k ∧ k ∈ a.names := by
  cases a <;> cases x <;>
    simp [krFp0, Footprint.touches, krRd, krWr0, KRLoc.idx, KRAtom.names] at h ⊢ <;> omega

theorem kr_wr_idx (a : KRAtom) (x : KRLoc) (h : (krFp0 a).wr x) : ∃ k, x.idx = some k ∧ k ∈ a.names := by
  cases a <;> cases x <;> simp [krFp0, krWr0, KRLoc.idx, KRAtom.names] at h ⊢ <;> omega

theorem kr_disjoint (a b : KRAtom) (s1 s2 : List Nat) (h1 : ∀ i ∈ a.names, i ∈ s1) (h2 : ∀ i ∈ b.names, i ∈ s2)
    (hd : ∀ i, i ∈ s1 → i ∈ s2 → False) : (krFp0 a).Disjoint (krFp0 b) := by
  intro x
  constructor
  · intro w t
    obtain ⟨k, hk, hka⟩ := kr_wr_idx a x w
    rcases kr_touches_idx b x t with e | ⟨k', hk', hkb⟩
    · subst e; simp [KRLoc.idx] at hk
    · have : k = k' := by rw [hk] at hk'; exact Option.some.inj hk'
      subst this
      exact hd k (h1 k hka) (h2 k hkb)
  · intro w t
    obtain ⟨k, hk, hkb⟩ := kr_wr_idx b x w
    rcases kr_touches_idx a x t with e | ⟨k', hk', hka⟩
    · subst e; simp [KRLoc.idx] at hk
    · have : k = k' := by rw [hk] at hk'; exact Option.some.inj hk'
      subst this
      exact hd k (h1 k hka) (h2 k hkb)

/-- without the mask, the recursion obeys Bernstein's conditions -/
theorem kmeansRec_safe0 (T : KTree) (hnd : T.ids.Nodup) : Safe krFp0 (kmeansRecProg T) := by
  induction T with
  | small i => trivial
  | big i l r ihl ihr =>
    simp only [KTree.ids] at hnd
    have hlr : (l.ids ++ r.ids).Nodup := (List.nodup_append.1 hnd).1
    have hl : l.ids.Nodup := (List.nodup_append.1 hlr).1
    have hr : r.ids.Nodup := (List.nodup_append.1 hlr).2.1
    have hdis : ∀ k, k ∈ l.ids → k ∈ r.ids → False :=
      fun k h1 h2 => (List.nodup_append.1 hlr).2.2 k h1 k h2 rfl
    refine ⟨trivial, ⟨ihl hl, ihr hr, ?_⟩, trivial⟩
    intro a ha b hb
    exact kr_disjoint a b l.ids r.ids (atoms_kmeansRec_names l a ha) (atoms_kmeansRec_names r b hb) hdis

theorem kr_no_mask (a : KRAtom) : ¬ (krFp0 a).touches .mask := by
  cases a <;> simp [krFp0, Footprint.touches, krRd, krWr0]

end Kalign.Sched
