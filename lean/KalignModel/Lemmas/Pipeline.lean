import KalignModel.Model.Pipeline
import KalignModel.Props.C01
import KalignModel.Lemmas.Canon
/-!
# Lemmas about the composed pipeline model (Model/Pipeline.lean)

* `recAln_ok`: every node `recursive_aln` completes satisfies the group invariant `GroupOK` of C01
  (by `C01_merge_integrity` at every merge; the premise `ValidCols` is what the run-time monitor of
  `mergeNodes` checks), `core_spec`: shape of the gap vectors `core` returns.
* `finish_*`: the frame (`c.zip rows`, `msa_sort_rank`) for an arbitrary row type.
* `stagesG_congr`: stages 3-7 depend on the residues only through the two code lists.
-/
namespace Kalign.Pipeline
open Kalign List

/-! ## generic helpers -/

theorem mapM_option_get {α β : Type} (f : α → Option β) :
    ∀ (l : List α) (a : List β), l.mapM f = some a →
      a.length = l.length ∧ ∀ i (h1 : i < l.length) (h2 : i < a.length), f l[i] = some a[i]
  | [], a, h => by
    simp only [mapM_nil] at h
    cases h
    exact ⟨rfl, fun i h1 => absurd h1 (by simp)⟩
  | x :: xs, a, h => by
    rw [mapM_cons] at h
    cases hx : f x with
    | none => simp [hx] at h
    | some y =>
      cases hr : xs.mapM f with
      | none => simp [hx, hr] at h
      | some ys =>
        simp only [hx, hr, Option.pure_def, Option.bind_eq_bind, Option.bind_some, Option.some.injEq] at h
        subst h
        obtain ⟨hl, hg⟩ := mapM_option_get f xs ys hr
        refine ⟨by simp [hl], ?_⟩
        intro i h1 h2
        cases i with
        | zero => simpa using hx
        | succ i => simpa using hg i (by simpa using h1) (by simpa using h2)

theorem validColsB_sound {cs : List Col} {la lb : Nat} (h : validColsB cs la lb = true) : ValidCols cs la lb := by
  simp only [validColsB, Bool.and_eq_true, Bool.not_eq_true', beq_iff_eq] at h
  obtain ⟨⟨h1, h2⟩, h3⟩ := h
  refine ⟨?_, h2, h3⟩
  intro hm
  have : cs.contains Col.skip = true := by simpa using hm
  rw [this] at h1
  cases h1

/-! ## the guide tree: `bisectO` is `bisect` of Model/Kmeans.lean (so Props/C03Kmeans.lean applies to it) -/

/-- total stand-in for the `< 100` branch: the tree `small` builds, or a caterpillar where `small` faults -/
def smallOr (small : List Nat → Option Tree) (l : List Nat) : Tree := (small l).getD (Kmeans.caterpillar l)

theorem bisectO_ok_bisect (avx : Bool) (dm : Array (Array Float32)) (na : Nat) (small : List Nat → Option Tree) :
    ∀ (fuel : Nat) (samples : List Nat) (t : Tree), bisectO avx dm na small fuel samples = .ok t →
      Kmeans.bisect avx dm na (smallOr small) fuel samples = .ok t := by
  intro fuel
  induction fuel with
  | zero =>
    intro samples t h
    unfold bisectO at h
    unfold Kmeans.bisect
    split at h
    · rename_i hlt
      rw [if_pos hlt]
      cases hs : small samples with
      | none => rw [hs] at h; cases h
      | some t' =>
        rw [hs] at h
        simp only [Except.ok.injEq] at h
        subst h
        simp [smallOr, hs]
    · cases h
  | succ fuel ih =>
    intro samples t h
    unfold bisectO at h
    unfold Kmeans.bisect
    split at h
    · rename_i hlt
      rw [if_pos hlt]
      cases hs : small samples with
      | none => rw [hs] at h; cases h
      | some t' =>
        rw [hs] at h
        simp only [Except.ok.injEq] at h
        subst h
        simp [smallOr, hs]
    · rename_i hge
      rw [if_neg hge]
      simp only at h ⊢
      cases hb : Kmeans.bestSplit avx dm na samples with
      | none => rw [hb] at h; cases h
      | some b =>
        rw [hb] at h
        simp only at h ⊢
        cases hl : bisectO avx dm na small fuel b.sl with
        | error e => rw [hl] at h; cases h
        | ok l =>
          cases hr : bisectO avx dm na small fuel b.sr with
          | error e => rw [hl, hr] at h; cases h
          | ok r =>
            rw [hl, hr] at h
            simp only [Except.ok.injEq] at h
            subst h
            rw [ih _ _ hl, ih _ _ hr]

/-! ## (a) the group invariant along `recursive_aln` -/

/-- what is known about a completed node -/
def NodeOK (seqs : Nat → List Nat) (N : Node) : Prop :=
  GroupOK seqs N.group ∧ N.group ≠ [] ∧ N.len = N.group.plen

theorem leafNode_ok (codes : Array (List Nat)) (i : Nat) :
    NodeOK (fun j => codes.getD j []) (leafNode codes i) := by
  refine ⟨⟨?_, ?_, ?_, ?_⟩, by simp [leafNode], ?_⟩
  · intro m hm
    simp only [leafNode, mem_singleton] at hm
    subst hm; simp [GSeq.WF]
  · intro m hm
    simp only [leafNode, mem_singleton] at hm
    subst hm; rfl
  · intro m hm
    simp only [leafNode, mem_singleton] at hm
    subst hm; rfl
  · intro k hk
    simp only [leafNode, Group.plen, GSeq.row, makeLinear_replicate_zero, length_map, map_cons, map_nil] at hk ⊢
    simp only [colAllGap, all_cons, all_nil, Bool.and_true, cell_map_some _ k hk]
    rfl
  · simp [leafNode, Group.plen, GSeq.row, makeLinear_replicate_zero]

theorem mergeNodes_ok (seqs : Nat → List Nat) (entry : Entry) (ap : AlnParam Float32) (A B N : Node)
    (isLast : Bool) (hA : NodeOK seqs A) (hB : NodeOK seqs B)
    (h : mergeNodes entry ap A B isLast = .ok N) : NodeOK seqs N := by
  unfold mergeNodes at h
  simp only at h
  split at h
  · cases h
  · rename_i st' out _
    split at h
    · cases h
    · split at h
      · cases h
      · rename_i hv
        simp only [Except.ok.injEq] at h
        subst h
        have hv' : ValidCols (out.codes.map Col.ofCode) A.group.plen B.group.plen := by
          rw [← hA.2.2, ← hB.2.2]
          exact validColsB_sound (by simpa using hv)
        obtain ⟨h1, h2⟩ := C01_merge_integrity seqs out.codes A.group B.group hA.1 hB.1 hA.2.1 hB.2.1 hv'
        exact ⟨h1, mergeGroups_ne_nil _ _ _ hA.2.1, h2.symm⟩

theorem recAln_ok (ap : AlnParam Float32) (tasks : Array (Nat × Nat × Nat)) (codes : Array (List Nat)) (n : Nat) :
    ∀ (fuel k : Nat) (N : Node), recAln ap tasks codes n fuel k = .ok N →
      NodeOK (fun j => codes.getD j []) N := by
  intro fuel
  induction fuel with
  | zero => intro k N h; simp [recAln] at h
  | succ fuel ih =>
    intro k N h
    unfold recAln at h
    split at h
    · cases h
    · rename_i a b c _
      have child_ok : ∀ (x : Nat) (X : Node),
          (if x ≥ n then recAln ap tasks codes n fuel (x - n)
           else if x < codes.size then .ok (leafNode codes x) else .error .fault) = .ok X →
          NodeOK (fun j => codes.getD j []) X := by
        intro x X hx
        split at hx
        · exact ih _ _ hx
        · split at hx
          · simp only [Except.ok.injEq] at hx
            subst hx
            exact leafNode_ok codes x
          · cases hx
      simp only at h
      split at h
      · cases h
      · rename_i A hA
        split at h
        · cases h
        · rename_i B hB
          exact mergeNodes_ok _ _ _ A B N _ (child_ok a A hA) (child_ok b B hB) h

theorem finalGaps_some {g : Group Nat} {i : Nat} {gp : List Nat} (h : finalGaps g i = some gp) :
    ∃ m ∈ g, m.idx = i ∧ m.seq.gaps = gp := by
  unfold finalGaps at h
  cases hf : g.find? (·.idx = i) with
  | none => simp [hf] at h
  | some m =>
    simp only [hf, Option.map_some, Option.some.injEq] at h
    refine ⟨m, mem_of_find?_eq_some hf, ?_, h⟩
    have := find?_some hf
    simpa using this

/-- shape of the result of `core`: one gap vector per canonical sequence, of the right length, and all rows
`len + Σ gaps` of one length -/
theorem core_spec {avx : Bool} {bio : Bio} {c1 c2 : List (List Nat)} {type : Int} {gpo gpe tgpe : Float32}
    {gaps : List (List Nat)} (h : core avx bio c1 c2 type gpo gpe tgpe = .ok gaps) :
    gaps.length = c2.length ∧ ∃ L, ∀ i (h1 : i < c2.length) (h2 : i < gaps.length),
      gaps[i].length = c2[i].length + 1 ∧ c2[i].length + gaps[i].sum = L := by
  unfold core at h
  simp only at h
  split at h
  · cases h
  · split at h
    · cases h
    · rename_i tasks _
      split at h
      · cases h
      · rename_i ap _
        split at h
        · cases h
        · rename_i root hroot
          split at h
          · cases h
          · rename_i gp hgp
            simp only [Except.ok.injEq] at h
            subst h
            obtain ⟨hl, hg⟩ := mapM_option_get _ _ _ hgp
            have hok := recAln_ok ap tasks c2.toArray c2.length _ _ root hroot
            refine ⟨by simpa using hl, root.group.plen, ?_⟩
            intro i h1 h2
            have hi := hg i (by simpa using h1) h2
            simp only [getElem_range] at hi
            obtain ⟨m, hm, hidx, hgaps⟩ := finalGaps_some hi
            have hres := hok.1.res m hm
            have hwf := hok.1.wf m hm
            have hlen := hok.1.len m hm
            simp only [hidx, Array.getD_eq_getD_getElem?, List.getElem?_toArray, getElem?_eq_getElem h1,
              Option.getD_some] at hres
            unfold GSeq.WF at hwf
            rw [hgaps, hres] at hwf
            refine ⟨hwf, ?_⟩
            rw [GSeq.row, length_makeLinear _ _ (by rw [hgaps, hres]; exact hwf), hgaps, hres] at hlen
            exact hlen

theorem length_convertN (id : Nat) (s : List Nat) : (convertN id s).length = s.length := by
  simp [convertN, convert]

/-- rows returned by stages 3-7: one per canonical sequence, each reproducing its residues, all of one length -/
theorem stagesG_spec {avx : Bool} {bio : Bio} {type : Int} {gpo gpe tgpe : Float32} {V : List (Name × List Char)}
    {rows : List GRow} (h : stagesG avx bio type gpo gpe tgpe V = .ok rows) :
    rows.length = V.length ∧ ∃ L, ∀ i (h1 : i < V.length) (h2 : i < rows.length),
      degap rows[i] = V[i].2 ∧ rows[i].length = L := by
  unfold stagesG at h
  split at h
  · cases h
  · simp only at h
    split at h
    · cases h
    · rename_i gaps hc
      simp only [Except.ok.injEq] at h
      subst h
      obtain ⟨hl, L, hL⟩ := core_spec hc
      simp only [length_map] at hl
      refine ⟨by simp [hl], L, ?_⟩
      intro i h1 h2
      have hg : i < gaps.length := by rw [hl]; exact h1
      obtain ⟨e1, e2⟩ := hL i (by simpa using h1) hg
      simp only [getElem_map, length_convertN, bytesOf, length_map] at e1 e2
      simp only [getElem_zipWith, getElem_map]
      exact ⟨degap_makeLinear _ _ e1, by rw [length_makeLinear _ _ e1]; exact e2⟩

/-! ## the frame: rows attached by position, `msa_sort_rank` -/

section frame
variable {β : Type}

theorem map_fst_zip_of_length {γ δ : Type} (l₁ : List γ) (l₂ : List δ) (h : l₂.length = l₁.length) :
    (l₁.zip l₂).map (·.1) = l₁ := by
  apply map_fst_zip
  omega

/-- the first components after `msa_sort_rank` are the sequences in input order -/
theorem sortRank_zip_fst (E : List RSeq) (hE : E.Pairwise fun a b => a.rank < b.rank) (rows : List β)
    (hl : rows.length = E.length) :
    (sortRankBy (fun x : RSeq × β => x.1.rank) ((sortLenName E).zip rows)).map (·.1) = E := by
  have hperm : (sortLenName E).Perm E := mergeSort_perm E leLenName
  have hz : ((sortLenName E).zip rows).map (·.1) = sortLenName E :=
    map_fst_zip_of_length _ _ (by rw [hl, hperm.length_eq])
  have hmap : (sortRankBy (fun x : RSeq × β => x.1.rank) ((sortLenName E).zip rows)).map (·.1)
      = sortRankBy (·.rank) (sortLenName E) := by
    unfold sortRankBy
    rw [map_mergeSort (s := fun a b : RSeq => decide (a.rank ≤ b.rank)) (fun a _ b _ => rfl), hz]
  rw [hmap]
  exact sortRankBy_eq_of_perm hperm hE

theorem mem_sortRank_zip {c : List RSeq} {rows : List β} {z : RSeq × β}
    (hz : z ∈ sortRankBy (fun x : RSeq × β => x.1.rank) (c.zip rows)) :
    ∃ i, ∃ (h1 : i < c.length) (h2 : i < rows.length), z = (c[i], rows[i]) := by
  have hz' : z ∈ c.zip rows := (mergeSort_perm _ _).mem_iff.1 hz
  obtain ⟨i, hi, rfl⟩ := mem_iff_getElem.1 hz'
  have hi' := hi
  simp only [length_zip, Nat.lt_min] at hi'
  exact ⟨i, hi'.1, hi'.2, by simp⟩

/-- rendering the rows commutes with the frame -/
theorem finish_map {γ : Type} (f : β → γ) (c : List RSeq) (rows : List β) :
    (finish c rows).map (fun x => (x.1, f x.2)) = finish c (rows.map f) := by
  unfold finish
  have hz : c.zip (rows.map f) = (c.zip rows).map (fun z : RSeq × β => (z.1, f z.2)) := by
    rw [zip_map_right]; rfl
  have hs : sortRankBy (fun x : RSeq × γ => x.1.rank) ((c.zip rows).map (fun z : RSeq × β => (z.1, f z.2)))
      = (sortRankBy (fun x : RSeq × β => x.1.rank) (c.zip rows)).map (fun z : RSeq × β => (z.1, f z.2)) := by
    unfold sortRankBy
    exact (map_mergeSort (r := fun a b : RSeq × β => decide (a.1.rank ≤ b.1.rank))
      (s := fun a b : RSeq × γ => decide (a.1.rank ≤ b.1.rank))
      (f := fun z : RSeq × β => (z.1, f z.2)) (l := c.zip rows) (fun a _ b _ => rfl)).symm
  rw [hz, hs, map_map, map_map]
  rfl

end frame

/-! ## (c) the pipeline as an instance of `Canon.run` -/

/-- row printed under a name (first match) -/
def lookup (out : List (Name × Row)) (n : Name) : Option Row := (out.find? fun x => x.1 = n).map (·.2)

/-- stages 3-7 as the `pipeline` argument of `Canon.run` (rendered rows; no rows when a stage fails) -/
def pipeRows (avx : Bool) (bio : Bio) (type : Int) (gpo gpe tgpe : Float32) (V : List (Name × List Char)) : List Row :=
  match stagesG avx bio type gpo gpe tgpe V with
  | .ok rows => rows.map render
  | .error _ => []

theorem kalignRun_eq (inp : List InSeq) (type : Int) (gpo gpe tgpe : Float32) :
    kalignRun inp type gpo gpe tgpe =
      if hasBadByte inp then .error .badByte else
      match canon inp with
      | none => .error .tooFew
      | some c =>
        match stagesG true (bioOf detectF inp) type gpo gpe tgpe (view c) with
        | .error e => .error e
        | .ok rows => .ok (finish c (rows.map render)) := by
  unfold kalignRun kalignRunG kalignRunWith
  by_cases hb : hasBadByte inp = true
  · simp only [hb, if_true]; rfl
  · simp only [hb, Bool.false_eq_true, if_false]
    cases canon inp with
    | none => rfl
    | some c =>
      simp only
      cases stagesG true (bioOf detectF inp) type gpo gpe tgpe (view c) with
      | error e => rfl
      | ok rows =>
        simp only [Except.map]
        rw [finish_map]

theorem lookup_names (l : List (RSeq × Row)) :
    lookup (l.map fun x => (x.1.name, x.2)) = rowsByName (some l) := by
  funext n
  unfold lookup rowsByName
  rw [find?_map]
  simp [Function.comp_def, Option.map_map]

theorem hasBadByte_perm {inp inp' : List InSeq} (hp : inp'.Perm inp) : hasBadByte inp' = hasBadByte inp := by
  unfold hasBadByte
  exact hp.any_eq

theorem histogram_perm {s s' : List (List Nat)} (hp : s.Perm s') : histogram s = histogram s' := by
  unfold histogram
  apply map_congr_left
  intro c _
  have e : ∀ l : List Nat, l.foldl (· + ·) 0 = l.sum := by
    intro l
    rw [List.sum_eq_foldl]
  rw [e, e]
  exact (hp.map _).sum_nat

theorem bioOf_perm (det : List Nat → Bio) {inp inp' : List InSeq} (hp : inp'.Perm inp) :
    bioOf det inp' = bioOf det inp := by
  unfold bioOf
  rw [histogram_perm (hp.map _)]

/-! ## (b) the run depends on the residues only through names, lengths and internal codes -/

section keys
variable {K : Type}

/-- key of a ranked sequence: the key of its (name, residues) and its rank -/
def keyR (κ : InSeq → K) (x : RSeq) : K × Nat := (κ ⟨x.name, x.seq⟩, x.rank)

/-- `canon` computed on keys from which name and length can be read off -/
def canonKeys (nm : K → Name) (ln : K → Nat) (ks : List K) : Option (List (K × Nat)) :=
  if ks.length ≤ 1 then none else
  let kept := ks.zipIdx.filter fun x => decide (ln x.1 ≠ 0)
  if 1 < kept.length then
    some (kept.mergeSort fun a b => decide (cmpLenName (ln a.1) (nm a.1) (ln b.1) (nm b.1) ≤ 0))
  else none

theorem canon_key (κ : InSeq → K) (nm : K → Name) (ln : K → Nat)
    (hnm : ∀ x, nm (κ x) = x.name) (hln : ∀ x, ln (κ x) = x.seq.length) (inp : List InSeq) :
    (canon inp).map (·.map (keyR κ)) = canonKeys nm ln (inp.map κ) := by
  unfold canon essentialInputCheck canonKeys
  rw [essentialCheck_eq]
  by_cases h1 : inp.length ≤ 1
  · simp [h1]
  · simp only [h1, if_false, length_map]
    have hF : ((inp.map κ).zipIdx.filter fun x => decide (ln x.1 ≠ 0)) =
        (inp.zipIdx.filter fun x => decide (x.1.seq.length ≠ 0)).map (fun x => (κ x.1, x.2)) := by
      rw [zipIdx_map, filter_map]
      congr 1
      apply filter_congr
      intro x _
      simp [hln]
    rw [hF, length_map]
    generalize (inp.zipIdx.filter fun x => decide (x.1.seq.length ≠ 0)) = F
    by_cases h2 : 1 < F.length
    · simp only [h2, decide_true, if_true, Option.map_some, Option.some.injEq]
      have e1 : sortLenName (F.map fun x => ({ name := x.1.name, seq := x.1.seq, rank := x.2 } : RSeq)) =
          (F.mergeSort fun a b => decide (cmpLenName a.1.seq.length a.1.name b.1.seq.length b.1.name ≤ 0)).map
            fun x => ({ name := x.1.name, seq := x.1.seq, rank := x.2 } : RSeq) := by
        unfold sortLenName
        exact (map_mergeSort (r := fun a b : InSeq × Nat =>
            decide (cmpLenName a.1.seq.length a.1.name b.1.seq.length b.1.name ≤ 0))
          (s := leLenName) (f := fun x : InSeq × Nat => ({ name := x.1.name, seq := x.1.seq, rank := x.2 } : RSeq))
          (l := F) (fun a _ b _ => rfl)).symm
      have e0 : (F.map fun x : InSeq × Nat =>
            match x with | (x, i) => ({ name := x.name, seq := x.seq, rank := i } : RSeq)) =
          F.map fun x => ({ name := x.1.name, seq := x.1.seq, rank := x.2 } : RSeq) := by
        apply map_congr_left
        intro x _
        rfl
      rw [e0, e1, map_map]
      have e2 : (keyR κ ∘ fun x : InSeq × Nat => ({ name := x.1.name, seq := x.1.seq, rank := x.2 } : RSeq)) =
          fun x : InSeq × Nat => (κ x.1, x.2) := rfl
      rw [e2]
      exact map_mergeSort (fun a _ b _ => by simp only [hnm, hln])
    · simp [h2]

theorem canon_key_congr (κ : InSeq → K) (nm : K → Name) (ln : K → Nat)
    (hnm : ∀ x, nm (κ x) = x.name) (hln : ∀ x, ln (κ x) = x.seq.length) {inp₁ inp₂ : List InSeq}
    (h : inp₁.map κ = inp₂.map κ) :
    (canon inp₁).map (·.map (keyR κ)) = (canon inp₂).map (·.map (keyR κ)) := by
  rw [canon_key κ nm ln hnm hln, canon_key κ nm ln hnm hln, h]

end keys

/-- the frame looks at names and ranks only -/
theorem finish_congr {β : Type} {c₁ c₂ : List RSeq} (R : List β)
    (h : c₁.map (fun x => (x.name, x.rank)) = c₂.map (fun x => (x.name, x.rank))) :
    finish c₁ R = finish c₂ R := by
  have key : ∀ c : List RSeq, finish c R =
      (((c.map fun x => (x.name, x.rank)).zip R).mergeSort fun a b : (Name × Nat) × β => decide (a.1.2 ≤ b.1.2)).map
        fun z => (z.1.1, z.2) := by
    intro c
    unfold finish sortRankBy
    have hz : (c.map fun x => (x.name, x.rank)).zip R = (c.zip R).map fun z : RSeq × β => ((z.1.name, z.1.rank), z.2) := by
      rw [zip_map_left]; rfl
    rw [hz, ← map_mergeSort (r := fun a b : RSeq × β => decide (a.1.rank ≤ b.1.rank))
      (f := fun z : RSeq × β => ((z.1.name, z.1.rank), z.2)) (fun a _ b _ => rfl), map_map]
    rfl
  rw [key c₁, key c₂, h]

/-- gap pattern of a row: `true` = residue, `false` = gap -/
def gapPattern (r : GRow) : List Bool := r.map Option.isSome

theorem gapPattern_makeLinear {α : Type} (s s' : List α) (g : List Nat) (h : s.length = s'.length) :
    (makeLinear s g).map Option.isSome = (makeLinear s' g).map Option.isSome := by
  induction s generalizing s' g with
  | nil =>
    cases s' with
    | nil => rfl
    | cons _ _ => simp at h
  | cons x xs ih =>
    cases s' with
    | nil => simp at h
    | cons y ys =>
      have h' : xs.length = ys.length := by simpa using h
      cases g with
      | nil =>
        have e : ∀ l : List α, l.map (Option.isSome ∘ some) = List.replicate l.length true := by
          intro l
          induction l with
          | nil => rfl
          | cons a l ihl => simp [ihl, replicate_succ]
        simp only [makeLinear, map_map]
        rw [e, e, h]
      | cons n ns =>
        simp only [makeLinear, map_append, map_cons, Option.isSome_some]
        rw [ih ys ns h']

theorem gapPattern_zipWith (L₁ L₂ : List (List Char)) (gaps : List (List Nat))
    (h : L₁.map length = L₂.map length) :
    (zipWith makeLinear L₁ gaps).map gapPattern = (zipWith makeLinear L₂ gaps).map gapPattern := by
  induction L₁ generalizing L₂ gaps with
  | nil =>
    cases L₂ with
    | nil => rfl
    | cons _ _ => simp at h
  | cons s L₁ ih =>
    cases L₂ with
    | nil => simp at h
    | cons s' L₂ =>
      simp only [map_cons, cons.injEq] at h
      cases gaps with
      | nil => rfl
      | cons g gaps =>
        simp only [zipWith_cons_cons, map_cons]
        rw [ih L₂ gaps h.2]
        congr 1
        exact gapPattern_makeLinear s s' g h.1

/-- stages 3-7 on two canonical lists with the same internal codes give the same gap patterns -/
theorem stagesG_pattern (avx : Bool) (bio : Bio) (type : Int) (gpo gpe tgpe : Float32) (V₁ V₂ : List (Name × List Char))
    (h1 : V₁.map (fun v => convertN (treeAlphabet bio) (bytesOf v.2)) = V₂.map (fun v => convertN (treeAlphabet bio) (bytesOf v.2)))
    (h2 : V₁.map (fun v => convertN (alnAlphabet bio) (bytesOf v.2)) = V₂.map (fun v => convertN (alnAlphabet bio) (bytesOf v.2))) :
    (stagesG avx bio type gpo gpe tgpe V₁).map (·.map gapPattern) =
    (stagesG avx bio type gpo gpe tgpe V₂).map (·.map gapPattern) := by
  have hlen : (V₁.map (·.2)).map length = (V₂.map (·.2)).map length := by
    have := congrArg (fun l => l.map length) h2
    simpa [map_map, Function.comp_def, length_convertN, bytesOf] using this
  unfold stagesG
  cases bio with
  | unknown => rfl
  | protein =>
    simp only [map_map, Function.comp_def] at h1 h2 ⊢
    rw [h1, h2]
    cases core avx Bio.protein _ _ type gpo gpe tgpe with
    | error e => rfl
    | ok gaps => simp only [Except.map, Except.ok.injEq]; exact gapPattern_zipWith _ _ gaps hlen
  | dna =>
    simp only [map_map, Function.comp_def] at h1 h2 ⊢
    rw [h1, h2]
    cases core avx Bio.dna _ _ type gpo gpe tgpe with
    | error e => rfl
    | ok gaps => simp only [Except.map, Except.ok.injEq]; exact gapPattern_zipWith _ _ gaps hlen

end Kalign.Pipeline
