import KalignModel.Lemmas.ProfKernel
/-!
# The profile–profile kernels on two profiles of identical copies

`prof1` = `k` copies of `seqA` prepared against `m`, `prof2` = `m` copies of `seqB` prepared against `k`.  The kernels
read the substitution score of cell `(i, j)` as `count₁[c] · prof2[j][32 + c]` for the residue `c = seqA[i]`, i.e.
`k · m · s(seqB[j], seqA[i])` — the *transposed* matrix entry; with a symmetric matrix this is `K · s(seqA[i], seqB[j])`,
`K = k·m`.  All cell formulas then agree with the abstract kernel scaled by `K` wherever the skeleton evaluates them
(the gap entries are read from column-dependent slots, so the agreement is only claimed inside the rectangle).
-/
namespace Kalign

section congr
variable {α : Type} [Score α]

/-- agreement of two sets of cell formulas on the cells `1..n` -/
structure RowOps.AgreeN (n : Nat) (o o' : RowOps α) : Prop where
  gbFirst : o.gbFirst = o'.gbFirst
  aCell : ∀ k, k + 1 ≤ n → o.aCell (k + 1) = o'.aCell (k + 1)
  gaCell : ∀ k, k + 1 < n → o.gaCell (k + 1) = o'.gaCell (k + 1)
  gbMid : o.gbMid = o'.gbMid
  gbLast : o.gbLast = o'.gbLast

theorem genRow_congrN (o o' : RowOps α) (n : Nat) (h : o.AgreeN n o') (prev prev' : Nat → States α)
    (hp : ∀ k, k ≤ n → prev k = prev' k) : ∀ k, k ≤ n → genRow o n prev k = genRow o' n prev' k := by
  intro k
  induction k with
  | zero => intro _; simp [genRow, h.gbFirst, hp 0 (Nat.zero_le _)]
  | succ k ih =>
    intro hk
    have ih' := ih (by omega)
    simp only [genRow]
    rw [hp k (by omega), hp (k + 1) hk, h.aCell k hk, ih', h.gbMid, h.gbLast]
    by_cases hlt : k + 1 < n
    · simp only [if_pos hlt, h.gaCell k hlt]
    · simp only [if_neg hlt]

theorem genRow0_congrN (ga ga' : Nat → α → α → α) (n : Nat) (start : States α)
    (h : ∀ k, k + 1 < n → ga (k + 1) = ga' (k + 1)) : ∀ k, genRow0 ga n start k = genRow0 ga' n start k := by
  intro k
  induction k with
  | zero => rfl
  | succ k ih =>
    simp only [genRow0]
    by_cases hlt : k + 1 < n
    · rw [if_pos hlt, if_pos hlt, ih, h k hlt]
    · rw [if_neg hlt, if_neg hlt]

theorem genTab_congrN (ga ga' : Nat → α → α → α) (n : Nat) (start : States α) (opsAt opsAt' : Nat → RowOps α)
    (m : Nat) (hga : ∀ k, k + 1 < n → ga (k + 1) = ga' (k + 1))
    (h : ∀ p, p < m → (opsAt p).AgreeN n (opsAt' p)) :
    ∀ p, p ≤ m → ∀ k, k ≤ n → genTab ga n start opsAt p k = genTab ga' n start opsAt' p k := by
  intro p
  induction p with
  | zero => intro _ k _; exact genRow0_congrN ga ga' n start hga k
  | succ p ih =>
    intro hp k hk
    simp only [genTab]
    exact genRow_congrN _ _ n (h p (by omega)) _ _ (ih (by omega)) k hk

end congr

theorem runKernel_eq_absTabN (c : KCfg) (hn : 1 ≤ c.n) (gaInit : Nat → ExactScore → ExactScore → ExactScore)
    (hga : ∀ k, k + 1 < c.n → gaInit (k + 1) = absGaInit c (k + 1)) (opsAt : Nat → RowOps ExactScore) (m : Nat)
    (h : ∀ p, p < m → (opsAt p).AgreeN c.n (absOps c p)) (start : States ExactScore) :
    runKernel gaInit c.n start ((List.range m).map opsAt) = (List.range (c.n + 1)).map (absTab c start m) := by
  rw [runKernel_eq_genTab _ _ hn]
  apply List.map_congr_left
  intro k hk
  have hk' : k ≤ c.n := by have := List.mem_range.mp hk; omega
  exact genTab_congrN gaInit (absGaInit c) c.n start opsAt (absOps c) m hga h m (Nat.le_refl _) k hk'

/-! ## the cell formulas -/

theorem filter_range_eq (n a : Nat) (ha : a < n) (P : Nat → Bool) (hP : ∀ c, c < n → (P c = true ↔ c = a)) :
    (List.range n).filter P = [a] := by
  induction n with
  | zero => omega
  | succ n ih =>
    rw [List.range_succ, List.filter_append]
    by_cases han : a = n
    · subst han
      have h1 : (List.range a).filter P = [] := by
        rw [List.filter_eq_nil_iff]
        intro c hc
        have hc' := List.mem_range.mp hc
        have := hP c (by omega)
        intro hpc; have := this.mp hpc; omega
      have h2 : P a = true := (hP a (by omega)).mpr rfl
      simp [h1, h2]
    · have h1 := ih (by omega) (fun c hc => hP c (by omega))
      have h2 : P n = false := by
        cases hpn : P n
        · rfl
        · have := (hP n (by omega)).mp hpn; omega
      simp [h1, h2]

section pp
variable (gpo gpe tgpe : Int) (s : Nat → Nat → Int) (hsym : ∀ x y, s x y = s y x)
  (prof1 prof2 : Array ExactScore) (seqA seqB : Array Nat) (k m : Nat) (hk : 1 ≤ k)
  (hP1 : ProfOK prof1 seqA k m gpo gpe tgpe s) (hP2 : ProfOK prof2 seqB m k gpo gpe tgpe s)
  (hA23 : ∀ i, seqA.getD i 0 < 23)

include hP1 in
theorem pp_gaps1 (col : Nat) (hc : col ≤ seqA.size + 1) :
    pget prof1 col 27 = some (-(((k * m : Nat) : Int) * gpo)) ∧ pget prof1 col 28 = some (-(((k * m : Nat) : Int) * gpe)) ∧
      pget prof1 col 29 = some (-(((k * m : Nat) : Int) * tgpe)) :=
  ⟨hP1.g27 col hc, hP1.g28 col hc, hP1.g29 col hc⟩

include hP2 in
theorem pp_gaps2 (col : Nat) (hc : col ≤ seqB.size + 1) :
    pget prof2 col 27 = some (-(((k * m : Nat) : Int) * gpo)) ∧ pget prof2 col 28 = some (-(((k * m : Nat) : Int) * gpe)) ∧
      pget prof2 col 29 = some (-(((k * m : Nat) : Int) * tgpe)) := by
  have h1 := hP2.g27 col hc
  have h2 := hP2.g28 col hc
  have h3 := hP2.g29 col hc
  rw [Nat.mul_comm m k] at h1 h2 h3
  exact ⟨h1, h2, h3⟩

include hk hP1 hA23 in
theorem freqOf_copies (i : Nat) (hi : i < seqA.size) : freqOf prof1 (i + 1) = [seqA.getD i 0] := by
  unfold freqOf
  apply filter_range_eq 23 _ (hA23 i)
  intro c hc
  rw [hP1.cnt i hi c hc]
  by_cases hca : c = seqA.getD i 0
  · simp only [hca, if_true, Score.isNonzero, iff_true]
    simp; omega
  · simp only [hca, if_false, Score.isNonzero, iff_false]
    simp

include hsym hk hP1 hP2 hA23 in
/-- the substitution term of cell `(i, j)` -/
theorem dotAdd_copies (i j : Nat) (hi : i < seqA.size) (hj : j < seqB.size) (acc : ExactScore) :
    dotAdd prof1 (i + 1) prof2 (j + 1) (freqOf prof1 (i + 1)).reverse acc =
      oaddi acc (((k * m : Nat) : Int) * s (seqA.getD i 0) (seqB.getD j 0)) := by
  rw [freqOf_copies gpo gpe tgpe s prof1 seqA k m hk hP1 hA23 i hi]
  simp only [List.reverse_cons, List.reverse_nil, List.nil_append, dotAdd, List.foldl_cons, List.foldl_nil]
  rw [hP1.cnt i hi _ (hA23 i), if_pos rfl, hP2.subE j hj _ (hA23 i), hsym (seqB.getD j 0)]
  show Score.add acc (some (2000 * (k : Int) * ((m : Int) * s (seqA.getD i 0) (seqB.getD j 0)) / ExactScore.scale)) = _
  rw [ex_add_some]
  congr 1
  unfold ExactScore.scale
  rw [show 2000 * (k : Int) * ((m : Int) * s (seqA.getD i 0) (seqB.getD j 0)) =
    2000 * ((k : Int) * ((m : Int) * s (seqA.getD i 0) (seqB.getD j 0))) by rw [Int.mul_assoc]]
  rw [Int.mul_ediv_cancel_left _ (by decide : (2000 : Int) ≠ 0)]
  push_cast
  rw [Int.mul_assoc]

include hsym hk hP1 hP2 hA23 in
theorem ppForward_eq_absTab (r : Rect) (hb : r.startb < r.endb) (ha : r.enda ≤ seqA.size) (hbB : r.endb ≤ seqB.size)
    (start : States ExactScore) :
    ppForward prof1 prof2 r start =
      (List.range (r.endb - r.startb + 1)).map
        (absTab (cfgFK ((k * m : Nat) : Int) gpo gpe tgpe s seqA seqB r) start (r.enda - r.starta)) := by
  unfold ppForward
  simp only
  rw [List.range'_eq_map_range, List.map_map]
  refine runKernel_eq_absTabN (cfgFK ((k * m : Nat) : Int) gpo gpe tgpe s seqA seqB r)
    (by show 1 ≤ r.endb - r.startb; omega) _ ?_ _ _ ?_ start
  · intro k' hk'
    have hk'' : k' + 1 < r.endb - r.startb := hk'
    obtain ⟨g1, g2, g3⟩ := pp_gaps2 gpo gpe tgpe s prof2 seqB k m hP2 (r.startb + (k' + 1)) (by omega)
    funext pga pa
    simp only [absGaInit, gGap, cfgFK, cfgF, g1, g2, g3, ex_add_neg, ex_smax]
    rfl
  · intro p hp
    have hrow : r.starta + p < seqA.size := by omega
    obtain ⟨g1, g2, g3⟩ := pp_gaps1 gpo gpe tgpe s prof1 seqA k m hP1 (r.starta + p + 1) (by omega)
    obtain ⟨g1', _, _⟩ := pp_gaps1 gpo gpe tgpe s prof1 seqA k m hP1 (r.starta + p) (by omega)
    refine ⟨?_, ?_, ?_, ?_, ?_⟩
    · exact profGb_eq prof1 _ _ gpo gpe tgpe g1 g2 g3 _
    · intro k' hk'
      have hk'' : k' + 1 ≤ r.endb - r.startb := hk'
      funext pa pga pgb
      obtain ⟨h1, _, _⟩ := pp_gaps2 gpo gpe tgpe s prof2 seqB k m hP2 (r.startb + (k' + 1) - 1) (by omega)
      have e : r.startb + (k' + 1) = (r.startb + k') + 1 := by omega
      simp only [Function.comp, absOps, cfgFK, cfgF, Nat.add_sub_cancel]
      rw [h1, g1', e, dotAdd_copies gpo gpe tgpe s hsym prof1 prof2 seqA seqB k m hk hP1 hP2 hA23 (r.starta + p)
        (r.startb + k') hrow (by omega)]
      simp only [gAl, ex_add_neg, ex_smax3]
    · intro k' hk'
      have hk'' : k' + 1 < r.endb - r.startb := hk'
      obtain ⟨h1, h2, _⟩ := pp_gaps2 gpo gpe tgpe s prof2 seqB k m hP2 (r.startb + (k' + 1)) (by omega)
      funext xga xa
      simp only [Function.comp, absOps, cfgFK, cfgF, gGap, h1, h2, ex_add_neg, ex_smax]
      rfl
    · exact profGb_eq prof1 _ _ gpo gpe tgpe g1 g2 g3 false
    · exact profGb_eq prof1 _ _ gpo gpe tgpe g1 g2 g3 _

include hsym hk hP1 hP2 hA23 in
theorem ppBackward_eq_absTab (r : Rect) (hb : r.startb < r.endb) (ha : r.enda ≤ seqA.size) (hbB : r.endb ≤ seqB.size)
    (har : r.starta ≤ r.enda) (start : States ExactScore) :
    ppBackward prof1 prof2 r start =
      ((List.range (r.endb - r.startb + 1)).map
        (absTab (cfgBK ((k * m : Nat) : Int) gpo gpe tgpe s seqA seqB r) start (r.enda - r.starta))).reverse := by
  unfold ppBackward
  simp only
  rw [range'_reverse_eq, List.map_map]
  congr 1
  refine runKernel_eq_absTabN (cfgBK ((k * m : Nat) : Int) gpo gpe tgpe s seqA seqB r)
    (by show 1 ≤ r.endb - r.startb; omega) _ ?_ _ _ ?_ start
  · intro k' hk'
    have hk'' : k' + 1 < r.endb - r.startb := hk'
    obtain ⟨g1, g2, g3⟩ := pp_gaps2 gpo gpe tgpe s prof2 seqB k m hP2 (r.endb - (k' + 1) + 1) (by omega)
    funext pga pa
    simp only [absGaInit, gGap, cfgBK, cfgB, g1, g2, g3, ex_add_neg, ex_smax]
    rfl
  · intro p hp
    have hrow : r.starta + (r.enda - r.starta) - 1 - p < seqA.size := by omega
    obtain ⟨g1, g2, g3⟩ := pp_gaps1 gpo gpe tgpe s prof1 seqA k m hP1 (r.starta + (r.enda - r.starta) - 1 - p + 1)
      (by omega)
    obtain ⟨g1', _, _⟩ := pp_gaps1 gpo gpe tgpe s prof1 seqA k m hP1 (r.starta + (r.enda - r.starta) - 1 - p + 2)
      (by omega)
    refine ⟨?_, ?_, ?_, ?_, ?_⟩
    · exact profGb_eq prof1 _ _ gpo gpe tgpe g1 g2 g3 _
    · intro k' hk'
      have hk'' : k' + 1 ≤ r.endb - r.startb := hk'
      funext pa pga pgb
      obtain ⟨h1, _, _⟩ := pp_gaps2 gpo gpe tgpe s prof2 seqB k m hP2 (r.endb - (k' + 1) + 2) (by omega)
      simp only [Function.comp, absOps, cfgBK, cfgB, Nat.add_sub_cancel]
      rw [h1, g1', dotAdd_copies gpo gpe tgpe s hsym prof1 prof2 seqA seqB k m hk hP1 hP2 hA23 _
        (r.endb - (k' + 1)) hrow (by omega)]
      have e1 : r.starta + (r.enda - r.starta) - 1 - p = r.enda - 1 - p := by omega
      have e2 : r.endb - (k' + 1) = r.endb - 1 - k' := by omega
      rw [e1, e2]
      simp only [gAl, ex_add_neg, ex_smax3]
    · intro k' hk'
      have hk'' : k' + 1 < r.endb - r.startb := hk'
      obtain ⟨h1, h2, _⟩ := pp_gaps2 gpo gpe tgpe s prof2 seqB k m hP2 (r.endb - (k' + 1) + 1) (by omega)
      funext xga xa
      simp only [Function.comp, absOps, cfgBK, cfgB, gGap, h1, h2, ex_add_neg, ex_smax]
      rfl
    · exact profGb_eq prof1 _ _ gpo gpe tgpe g1 g2 g3 false
    · exact profGb_eq prof1 _ _ gpo gpe tgpe g1 g2 g3 _

end pp

/-! ## the meetup -/

theorem allCands_congr {α : Type} [Score α] (ops ops' : MeetOps α) (sb eb : Nat) (F B : Nat → States α)
    (h3 : ops.g3 = ops'.g3) (h6 : ops.g6 = ops'.g6) (h7 : ops.g7 = ops'.g7) (h6e : ops.g6e = ops'.g6e) :
    ∀ d k, (∀ i, sb + k ≤ i → i < sb + k + d → ops.g2 i = ops'.g2 i ∧ ops.g5 i = ops'.g5 i) →
      allCands ops sb eb F B k d = allCands ops' sb eb F B k d := by
  intro d
  induction d with
  | zero =>
    intro k _
    simp only [allCands, lastCands, h3, h6e]
  | succ d ih =>
    intro k h
    obtain ⟨h2, h5⟩ := h (sb + k) (Nat.le_refl _) (by omega)
    rw [allCands, allCands, ih (k + 1) (fun i hi1 hi2 => h i (by omega) (by omega))]
    simp only [cellCands, h2, h3, h5, h6, h7]

section pp2
variable (ap : AlnParam ExactScore) (gpo gpe tgpe : Int) (s : Nat → Nat → Int) (hap : ApOK ap gpo gpe tgpe s)
  (hsym : ∀ x y, s x y = s y x)
  (prof1 prof2 : Array ExactScore) (seqA seqB : Array Nat) (k m : Nat) (hk : 1 ≤ k)
  (hP1 : ProfOK prof1 seqA k m gpo gpe tgpe s) (hP2 : ProfOK prof2 seqB m k gpo gpe tgpe s)
  (hA23 : ∀ i, seqA.getD i 0 < 23)

include hap hP1 hP2 in
theorem pp_meet_eq (r : Rect) (mid : Nat) (hm : mid ≤ seqA.size) (hbB : r.endb ≤ seqB.size) (F B : Nat → States ExactScore) :
    meetupRun (ppMeetOps prof1 prof2 r mid) r.startb r.endb
        ((List.range (r.endb - r.startb + 1)).map F) ((List.range (r.endb - r.startb + 1)).map B) =
      meetupRun (ssMeetOps (scaleParam ap (k * m)) r) r.startb r.endb
        ((List.range (r.endb - r.startb + 1)).map F) ((List.range (r.endb - r.startb + 1)).map B) := by
  obtain ⟨ho, he, ht⟩ := sp_pen ap gpo gpe tgpe s hap (k * m)
  obtain ⟨g1, g2, g3⟩ := pp_gaps1 gpo gpe tgpe s prof1 seqA k m hP1 (mid + 1) (by omega)
  obtain ⟨g1', _, _⟩ := pp_gaps1 gpo gpe tgpe s prof1 seqA k m hP1 mid (by omega)
  rw [meetupRun_eq, meetupRun_eq]
  rw [allCands_congr (ppMeetOps prof1 prof2 r mid) (ssMeetOps (scaleParam ap (k * m)) r)]
  · funext x; simp only [ppMeetOps, ssMeetOps, scaleParam, ho, g1, ex_add_neg, ex_sub_some]
  · funext x; simp only [ppMeetOps, ssMeetOps, scaleParam, ht, he, g2, g3, ex_add_neg, ex_sub_some]
  · funext x; simp only [ppMeetOps, ssMeetOps, scaleParam, ho, g1', ex_add_neg, ex_sub_some]
  · funext x; simp only [ppMeetOps, ssMeetOps, scaleParam, ht, he, g2, g3, ex_add_neg, ex_sub_some]
  · intro i hi1 hi2
    obtain ⟨a1, _, _⟩ := pp_gaps2 gpo gpe tgpe s prof2 seqB k m hP2 (i + 1) (by omega)
    obtain ⟨a2, _, _⟩ := pp_gaps2 gpo gpe tgpe s prof2 seqB k m hP2 i (by omega)
    constructor
    · funext x; simp only [ppMeetOps, ssMeetOps, scaleParam, ho, a1, ex_add_neg, ex_sub_some]
    · funext x; simp only [ppMeetOps, ssMeetOps, scaleParam, ho, a2, ex_add_neg, ex_sub_some]

include hap hsym hk hP1 hP2 hA23 in
/-- **one step of the real kernels on two profiles of `k` and `m` copies = one step of the sequence–sequence kernels
with all scores multiplied by `k·m`** (symmetric substitution matrix) -/
theorem pp_realStep_eq :
    realStep ap (.profprof prof1 prof2) seqA.size seqB.size =
      realStep (scaleParam ap (k * m)) (.seqseq seqA seqB) seqA.size seqB.size := by
  funext f b sa mid ea sb eb
  unfold realStep
  by_cases hc : 0 ≤ sa ∧ sa ≤ mid ∧ mid ≤ ea ∧ ea ≤ (seqA.size : Int) ∧ 0 ≤ sb ∧ sb < eb ∧ eb ≤ (seqB.size : Int) ∧
      0 < f.size ∧ 0 < b.size
  · rw [if_pos hc, if_pos hc]
    obtain ⟨h0, h1, h2', h3, h4, h5, h6, _, _⟩ := hc
    have hok := scaleParam_ok ap gpo gpe tgpe s hap (k * m)
    have hsb : sb.toNat < eb.toNat := by omega
    have eF : kForward ap (.profprof prof1 prof2) ⟨sa.toNat, mid.toNat, sb.toNat, eb.toNat, seqB.size⟩
          (f.getD 0 States.negInf) =
        (List.range (eb.toNat - sb.toNat + 1)).map (absTab (cfgFK ((k * m : Nat) : Int) gpo gpe tgpe s seqA seqB
          ⟨sa.toNat, mid.toNat, sb.toNat, eb.toNat, seqB.size⟩) (f.getD 0 States.negInf) (mid.toNat - sa.toNat)) := by
      simp only [kForward]
      exact ppForward_eq_absTab gpo gpe tgpe s hsym prof1 prof2 seqA seqB k m hk hP1 hP2 hA23 _ hsb
        (by show mid.toNat ≤ seqA.size; omega) (by show eb.toNat ≤ seqB.size; omega) _
    have eF' : kForward (scaleParam ap (k * m)) (.seqseq seqA seqB) ⟨sa.toNat, mid.toNat, sb.toNat, eb.toNat, seqB.size⟩
          (f.getD 0 States.negInf) =
        (List.range (eb.toNat - sb.toNat + 1)).map (absTab (cfgFK ((k * m : Nat) : Int) gpo gpe tgpe s seqA seqB
          ⟨sa.toNat, mid.toNat, sb.toNat, eb.toNat, seqB.size⟩) (f.getD 0 States.negInf) (mid.toNat - sa.toNat)) := by
      simp only [kForward]
      exact ssForward_eq_absTab (scaleParam ap (k * m)) _ _ _ _ hok seqA seqB _ hsb _
    have eB : kBackward ap (.profprof prof1 prof2) ⟨mid.toNat, ea.toNat, sb.toNat, eb.toNat, seqB.size⟩
          (b.getD 0 States.negInf) =
        ((List.range (eb.toNat - sb.toNat + 1)).map (absTab (cfgBK ((k * m : Nat) : Int) gpo gpe tgpe s seqA seqB
          ⟨mid.toNat, ea.toNat, sb.toNat, eb.toNat, seqB.size⟩) (b.getD 0 States.negInf)
          (ea.toNat - mid.toNat))).reverse := by
      simp only [kBackward]
      exact ppBackward_eq_absTab gpo gpe tgpe s hsym prof1 prof2 seqA seqB k m hk hP1 hP2 hA23 _ hsb
        (by show ea.toNat ≤ seqA.size; omega) (by show eb.toNat ≤ seqB.size; omega)
        (by show mid.toNat ≤ ea.toNat; omega) _
    have eB' : kBackward (scaleParam ap (k * m)) (.seqseq seqA seqB) ⟨mid.toNat, ea.toNat, sb.toNat, eb.toNat, seqB.size⟩
          (b.getD 0 States.negInf) =
        ((List.range (eb.toNat - sb.toNat + 1)).map (absTab (cfgBK ((k * m : Nat) : Int) gpo gpe tgpe s seqA seqB
          ⟨mid.toNat, ea.toNat, sb.toNat, eb.toNat, seqB.size⟩) (b.getD 0 States.negInf)
          (ea.toNat - mid.toNat))).reverse := by
      simp only [kBackward]
      exact ssBackward_eq_absTab (scaleParam ap (k * m)) _ _ _ _ hok seqA seqB _ hsb
        (by show mid.toNat ≤ ea.toNat; omega) _
    have eM := pp_meet_eq ap gpo gpe tgpe s hap prof1 prof2 seqA seqB k m hP1 hP2
      ⟨sa.toNat, mid.toNat, sb.toNat, eb.toNat, seqB.size⟩ mid.toNat (by omega) (by show eb.toNat ≤ seqB.size; omega)
    simp only at eM
    simp only [eF, eF', eB, eB', map_range_reverse, kMeetup, eM]
  · rw [if_neg hc, if_neg hc]

include hap hsym hk hP1 hP2 hA23 in
theorem pp_realKernels_eq :
    realKernels ap (.profprof prof1 prof2) seqA.size seqB.size =
      realKernels (scaleParam ap (k * m)) (.seqseq seqA seqB) seqA.size seqB.size := by
  unfold realKernels
  rw [pp_realStep_eq ap gpo gpe tgpe s hap hsym prof1 prof2 seqA seqB k m hk hP1 hP2 hA23]

end pp2
end Kalign
