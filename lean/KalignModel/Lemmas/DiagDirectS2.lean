import KalignModel.Lemmas.SoftExact6
/-!
# The induction over the recursion of the controller on the `SoftF32` kernels, from an abstract cut hypothesis

`CutHypS`: on every rectangle of `P` the recursion can reach, the meetup of the `SoftF32` kernels returns an admissible cut of `P`.
The proofs are those of `Lemmas/SoftExact6.lean` with `soft_opt_cut` replaced by the hypothesis (`U`, `apE` are kept as parameters
only to leave the copied proofs unchanged).
-/
namespace Kalign
open SoftF32

structure CutHypS (U : Nat) (ap : AlnParam SoftF32) (apE : AlnParam ExactScore) (gpo gpe tgpe : Int) (s : Nat → Nat → Int)
    (seq1 seq2 : Array Nat) (lenA lenB : Nat) (P : List Col) : Prop where
  hadj : adjOK .A P = true
  hA : consA P = lenA
  hB : consB P = lenB
  cut : ∀ (sa mid ea sb eb : Nat), sa ≤ mid → mid < ea → ea ≤ lenA → sb < eb → eb ≤ lenB → mid = (ea - sa) / 2 + sa →
    ∀ (P1 X P2 : List Col), P = P1 ++ X ++ P2 → consA P1 = sa → consB P1 = sb → consA X = ea - sa → consB X = eb - sb →
    ((sb = 0 ↔ sa = 0) ∨ lastKind .A P1 = .GB) → ((eb = lenB ↔ ea = lenA) ∨ firstKind .A P2 = .GB) →
    ∀ (fk bk : Kind), fk = lastKind .A P1 → bk = firstKind .A P2 →
    ∀ (res : MeetResult SoftF32),
      res = meetupRun (ssMeetOps ap ⟨sa, mid, sb, eb, lenB⟩) sb eb
        (ssForward ap seq1 seq2 ⟨sa, mid, sb, eb, lenB⟩ (hotS fk))
        (ssBackward ap seq1 seq2 ⟨mid, ea, sb, eb, lenB⟩ (hotS bk)) →
    ∃ X1 X2 k t, X = X1 ++ X2 ∧ res.meet = ((sb + k : Nat) : Int) ∧ res.transition = t ∧ Adm (eb - sb) k t ∧
      consA X1 = mid - sa ∧ consB X1 = k ∧ consA X2 = ea - mid ∧ consB X1 + consB X2 = eb - sb ∧
      lastKind fk X1 = fkOf t ∧ lastKind bk X2.reverse = bkOf t ∧
      walkOK (cfgF gpo gpe tgpe s seq1 seq2 ⟨sa, mid, sb, eb, lenB⟩) 0 0 fk X1 = true ∧
      walkOK (cfgB gpo gpe tgpe s seq1 seq2 ⟨mid, ea, sb, eb, lenB⟩) 0 0 bk X2.reverse = true

section
variable (U : Nat) (ap : AlnParam SoftF32) (apE : AlnParam ExactScore) (gpo gpe tgpe : Int) (s : Nat → Nat → Int)
  (seq1 seq2 : Array Nat) (lenA lenB : Nat)

/-- **shape of one non-degenerate call** of the runner: it is `rec (mkR (rec yL))` for two child memories that satisfy
the precondition, are strictly smaller, and whose postconditions give the postcondition of the call -/
theorem body_shape_cutS (P : List Col) (H : CutHypS U ap apE gpo gpe tgpe s seq1 seq2 lenA lenB P) (n : Nat)
    (x : MemS) (hx : PreS P lenA lenB x) (hM : MeasS x ≤ n + 1) (hra : x.starta < x.enda) (hrb : x.startb < x.endb) :
    ∃ (yL : MemS) (mkR : MemS → MemS),
      (∀ rec : MemS → MemS,
        runnerBody (realKernels ap (.seqseq seq1 seq2) lenA lenB) false rec x = rec (mkR (rec yL))) ∧
      PreS P lenA lenB yL ∧ MeasS yL ≤ n ∧
      ∀ L, PostS P lenA lenB yL L →
        PreS P lenA lenB (mkR L) ∧ MeasS (mkR L) ≤ n ∧ ∀ r, PostS P lenA lenB (mkR L) r → PostS P lenA lenB x r := by
  obtain ⟨hxf, hxG, ⟨hSf, hSb, hSp⟩, hsa0, hdec⟩ := hx
  rcases hdec with hdeg | ⟨sa, ea, sb, eb, e1, e2, e3, e4, hDD, hf0, hb0⟩
  · omega
  obtain ⟨P1, X, P2, hP, hP1a, hP1b, hXa, hXb, hfk, hbk, hInvF, hInvB⟩ := hDD
  subst hP
  have hlt_a : sa < ea := by rw [e1, e2] at hra; omega
  have hlt_b : sb < eb := by rw [e3, e4] at hrb; omega
  have hAs := H.hA; have hBs := H.hB
  simp only [consA_append, consB_append] at hAs hBs
  have hea : ea ≤ lenA := by omega
  have heb : eb ≤ lenB := by omega
  obtain ⟨mid, hmid⟩ : ∃ mid, mid = (ea - sa) / 2 + sa := ⟨_, rfl⟩
  obtain ⟨h1, h2, hmidI⟩ := mid_arith hlt_a
  rw [← hmid] at h1 h2 hmidI
  have hMx : ((ea : Int) - sa).toNat + ((eb : Int) - sb).toNat + 1 ≤ n + 1 := by
    unfold MeasS at hM; rw [e1, e2, e3, e4] at hM; exact hM
  -- the kernels
  obtain ⟨f', b', hstep, hf's, hb's⟩ := realStepS_eq ap seq1 seq2 lenA lenB x.f x.b sa mid ea
    sb eb x.fk x.bk h1 (Nat.le_of_lt h2) hea hlt_b heb hSf hSb hf0 hb0
  obtain ⟨res, hres⟩ : ∃ res, res = meetupRun (ssMeetOps ap ⟨sa, mid, sb, eb, lenB⟩) sb eb
      (ssForward ap seq1 seq2 ⟨sa, mid, sb, eb, lenB⟩ (hotS x.fk))
      (ssBackward ap seq1 seq2 ⟨mid, ea, sb, eb, lenB⟩ (hotS x.bk)) := ⟨_, rfl⟩
  rw [← hres] at hstep
  -- the cut
  obtain ⟨X1, X2, k, t, hX, hmeet, htrans, hadm, hA1, hB1, hA2, hBB, hl1, hl2, hw1, hw2⟩ :=
    H.cut sa mid ea sb eb h1 h2 hea hlt_b heb hmid P1 X P2 rfl hP1a hP1b (by omega) (by omega)
      (by rw [hfk]; exact hInvF) (by rw [hbk]; exact hInvB) x.fk x.bk hfk.symm hbk.symm res hres
  subst hX
  have hkn : k ≤ eb - sb := hadm.le
  have hvalid := hadm.valid
  have hskip := adjOK_noskip _ _ H.hadj
  have hs1 : Col.skip ∉ X1 := fun h => hskip (by simp [h])
  have hs2 : Col.skip ∉ X2 := fun h => hskip (by simp [h])
  have hX2ne : X2 ≠ [] := consA_pos_ne_nil (by omega)
  -- unfold the body of the runner
  have hKstep : (realKernels ap (.seqseq seq1 seq2) lenA lenB).step x.f x.b x.starta
      ((x.enda - x.starta) / 2 + x.starta) x.enda x.startb x.endb =
        some ⟨f', b', res.meet, res.transition, res.score⟩ := by
    rw [e1, e2, e3, e4, hmidI]; exact hstep
  have hg0F : (realKernels ap (.seqseq seq1 seq2) lenA lenB).get0 x.f = hotS x.fk := hf0
  have hg0B : (realKernels ap (.seqseq seq1 seq2) lenA lenB).get0 x.b = hotS x.bk := hb0
  -- names
  obtain ⟨u, hu⟩ : ∃ u, u = fkOf t := ⟨_, rfl⟩
  obtain ⟨v, hv⟩ : ∃ v, v = bkOf t := ⟨_, rfl⟩
  rw [← hu] at hl1
  rw [← hv] at hl2
  obtain ⟨m2, hm2⟩ : ∃ m2, m2 = afterStep x (mid : Int) ⟨f', b', ((sb + k : Nat) : Int), t, res.score⟩ := ⟨_, rfl⟩
  have hm2pe : m2.pe = x.pe := by rw [hm2]; rfl
  have hm2path : m2.path = x.path := by rw [hm2]; rfl
  have hm2fault : m2.fault = false := by rw [hm2]; exact hxf
  have hm2f : m2.f = f' := by rw [hm2]; rfl
  have hm2b : m2.b = b' := by rw [hm2]; rfl
  -- the two optional writes
  obtain ⟨m3a, hm3a⟩ : ∃ m3a, m3a = optSet m2 (u == .A) (mid : Int) ((sb + k : Nat) : Int) := ⟨_, rfl⟩
  obtain ⟨m3, hm3⟩ : ∃ m3, m3 = optSet m3a (v == .A) ((mid : Int) + 1) (((sb + k : Nat) : Int) + 1) := ⟨_, rfl⟩
  obtain ⟨ha1, ha2, ha3, ha4, ha5⟩ := optSet_facts m2 (u == .A) (mid : Int) ((sb + k : Nat) : Int) (by omega)
    (by rw [hm2path]; omega)
  rw [← hm3a] at ha1 ha2 ha3 ha4 ha5
  obtain ⟨hb1, hb2, hb3, hb4, hb5⟩ := optSet_facts m3a (v == .A) ((mid : Int) + 1) (((sb + k : Nat) : Int) + 1)
    (by omega) (by rw [ha4, hm2path]; omega)
  rw [← hm3] at hb1 hb2 hb3 hb4 hb5
  have hm3fault : m3.fault = false := by rw [hb1, ha1]; exact hm2fault
  have hm3f : m3.f = f' := by rw [hb2, ha2]; exact hm2f
  have hm3b : m3.b = b' := by rw [hb3, ha3]; exact hm2b
  have hm3path : m3.path.size = x.path.size := by rw [hb4, ha4, hm2path]
  have hm3pe : ∀ j : Int, 0 ≤ j → m3.pe j =
      if (v == .A) = true ∧ j = (mid : Int) + 1 then ((sb + k : Nat) : Int) + 1
      else if (u == .A) = true ∧ j = (mid : Int) then ((sb + k : Nat) : Int) else x.pe j := by
    intro j hj
    rw [hb5 j hj, ha5 j hj, hm2pe]
  -- the two halves of `P` at the cut
  have hPY : P1 ++ (X1 ++ X2) ++ P2 = (P1 ++ X1) ++ (X2 ++ P2) := by simp
  have hcA : consA (P1 ++ X1) = mid := by rw [consA_append]; omega
  have hcB : consB (P1 ++ X1) = sb + k := by rw [consB_append]; omega
  have hlkY1 : lastKind .A (P1 ++ X1) = u := by rw [lastKind_append, hfk]; exact hl1
  have hfkY2 : firstKind .A (X2 ++ P2) = v := by
    rw [firstKind_append_ne _ _ _ hX2ne, firstKind_indep .A x.bk X2 hX2ne hs2, ← lastKind_reverse _ _ hs2]
    exact hl2
  have hsY1 : Col.skip ∉ P1 ++ X1 := fun h => hskip (by
    rcases List.mem_append.mp h with h' | h' <;> simp [h'])
  have hsY2 : Col.skip ∉ X2 ++ P2 := fun h => hskip (by
    rcases List.mem_append.mp h with h' | h' <;> simp [h'])
  obtain ⟨pb1, pb2⟩ := pth_before (P1 ++ X1) (X2 ++ P2) hsY1
  obtain ⟨pa1, pa2⟩ := pth_after (P1 ++ X1) (X2 ++ P2) hsY2 (by simp [hX2ne])
  rw [← hPY, hlkY1, hcA, hcB] at pb1
  rw [← hPY, hlkY1, hcA] at pb2
  rw [← hPY, hfkY2, hcA, hcB] at pa1
  rw [← hPY, hfkY2, hcA] at pa2
  have hcast1 : (((mid + 1 : Nat) : Int)) = (mid : Int) + 1 := by omega
  have hcast2 : (((sb + k + 1 : Nat) : Int)) = ((sb + k : Nat) : Int) + 1 := by omega
  rw [hcast1] at pa1 pa2
  rw [hcast2] at pa1
  have hu_cases : u = .A ∨ u = .GA ∨ u = .GB := by cases u <;> simp
  have hv_cases : v = .A ∨ v = .GA ∨ v = .GB := by cases v <;> simp
  -- entries of `m3`
  have frame3 : ∀ i : Int, 1 ≤ i → i ≤ lenA → m3.pe i = x.pe i ∨ m3.pe i = pth (P1 ++ (X1 ++ X2) ++ P2) i := by
    intro i hi1 hi2
    rw [hm3pe i (by omega)]
    split
    · rename_i hc
      right
      rw [hc.2]
      exact (pa1 (by simpa using hc.1)).symm
    · split
      · rename_i hc
        right
        rw [hc.2]
        exact (pb1 (by simpa using hc.1) (by omega)).symm
      · exact Or.inl rfl
  have hG3 : GoodS (P1 ++ (X1 ++ X2) ++ P2) lenA m3 := GoodS_of_frame _ _ x m3 hxG frame3
  have midok : ∀ i : Int, (sa : Int) < i → (mid : Int) - da u < i → i ≤ (mid : Int) + da v → i ≤ (ea : Int) →
      m3.pe i = pth (P1 ++ (X1 ++ X2) ++ P2) i := by
    intro i hi1 hi2 hi3 hi4
    rw [hm3pe i (by omega)]
    have hGi := hxG i (by omega) (by omega)
    by_cases him : i = (mid : Int)
    · -- the column in front of the cut
      subst him
      have hne1 : ¬ ((v == .A) = true ∧ (mid : Int) = (mid : Int) + 1) := fun h => by omega
      rw [if_neg hne1]
      rcases hu_cases with h | h | h
      · rw [if_pos ⟨by simp [h], rfl⟩]
        exact (pb1 h (by omega)).symm
      · rw [h] at hi2; simp [da] at hi2
      · have hne2 : ¬ ((u == .A) = true ∧ (mid : Int) = (mid : Int)) := fun hh => by simp [h] at hh
        rw [if_neg hne2, pb2 h]
        rcases hGi with h' | h'
        · exact h'
        · rw [h', pb2 h]
    · -- the column behind the cut
      have hda := da_cases u
      have hdv := da_cases v
      have him1 : i = (mid : Int) + 1 := by
        rcases hda with ⟨_, h⟩ | ⟨_, h⟩ <;> rcases hdv with ⟨_, h'⟩ | ⟨_, h'⟩ <;> omega
      subst him1
      rcases hv_cases with h | h | h
      · rw [if_pos ⟨by simp [h], rfl⟩]
        exact (pa1 h).symm
      · rw [h] at hi3; simp [da] at hi3; omega
      · have hne1 : ¬ ((v == .A) = true ∧ (mid : Int) + 1 = (mid : Int) + 1) := fun hh => by simp [h] at hh
        have hne2 : ¬ ((u == .A) = true ∧ (mid : Int) + 1 = (mid : Int)) := fun hh => by omega
        rw [if_neg hne1, if_neg hne2, pa2 h]
        rcases hGi with h' | h'
        · exact h'
        · rw [h', pa2 h]
  -- transition 2 needs a row above the middle row
  have hfkX2 : firstKind .A X2 = v := by rw [← hfkY2, firstKind_append_ne _ _ _ hX2ne]
  have hvGA : v = .GA → 1 ≤ mid := by
    intro hv'
    have hk1 : 1 ≤ k := cut_t2_pos (cfgB gpo gpe tgpe s seq1 seq2 ⟨mid, ea, sb, eb, lenB⟩) x.bk X2 k hs2 hw2
      (by rw [hfkX2, hv']) (by rw [← hB1]; exact hBB)
    have huA : u = .A := by
      rw [hv'] at hv
      rcases hvalid with h | h | h | h | h | h <;> subst h <;> simp [bkOf] at hv
      rw [hu]; rfl
    have hX1ne : X1 ≠ [] := by intro h; rw [h] at hB1; simp at hB1; omega
    have := consA_pos_of_lastKind_A x.fk X1 hs1 hX1ne (by rw [hl1, huA])
    omega
  obtain ⟨hdau0, hdbu0, _⟩ := da_db_ge u
  obtain ⟨hdav0, hdbv0, hdv1⟩ := da_db_ge v
  have hf'pos : 0 < f'.size := by omega
  have hb'pos : 0 < b'.size := by omega
  -- the forward child
  obtain ⟨yL, hyL⟩ : ∃ yL, yL = alnFwd (realKernels ap (.seqseq seq1 seq2) lenA lenB) m3 (hotS x.fk) x.fk u (sa : Int)
      ((mid : Int) - da u) (sb : Int) (((sb + k : Nat) : Int) - db u) := ⟨_, rfl⟩
  have hyLpe : yL.pe = m3.pe := by rw [hyL]; rfl
  have PreL : PreS (P1 ++ (X1 ++ X2) ++ P2) lenA lenB yL := by
    refine ⟨by rw [hyL]; exact hm3fault, ?_, ?_, by rw [hyL]; show (0 : Int) ≤ (sa : Int); omega, ?_⟩
    · intro i h1' h2'; rw [hyLpe]; exact hG3 i h1' h2'
    · refine ⟨?_, ?_, ?_⟩
      · rw [hyL, alnFwd_f, set0_sizeS, hm3f]; omega
      · rw [hyL, alnFwd_b, set0_sizeS, hm3b]; omega
      · rw [hyL, alnFwd_path, hm3path]; exact hSp
    · by_cases hX1 : X1 = []
      · left
        rw [hyL, alnFwd_enda, alnFwd_starta]
        rw [hX1] at hA1
        simp only [consA_nil] at hA1
        omega
      · right
        obtain ⟨a2, b2, ha2, hb2, hDD, _, _⟩ := dd_fwd (P1 ++ (X1 ++ X2) ++ P2) lenA lenB P1 X1 (X2 ++ P2) sa mid sb k
          x.fk u (by simp) hs1 hP1a hP1b (by omega) hB1 hfk hl1 hInvF (by omega) (by omega) hX1
        refine ⟨sa, a2, sb, b2, by rw [hyL]; rfl, by rw [hyL, alnFwd_enda, ha2], by rw [hyL]; rfl,
          by rw [hyL, alnFwd_endb, hb2], by rw [hyL, alnFwd_fk, alnFwd_bk]; exact hDD, ?_, ?_⟩
        · rw [hyL, alnFwd_f, alnFwd_fk]
          exact get0_set0S ap _ lenA lenB _ _ (by rw [hm3f]; exact hf'pos)
        · rw [hyL, alnFwd_b, alnFwd_bk]
          rw [hotS_eq_st]
          exact get0_set0S ap _ lenA lenB _ _ (by rw [hm3b]; exact hb'pos)
  have MeasL : MeasS yL ≤ n := by
    unfold MeasS
    rw [hyL, alnFwd_enda, alnFwd_starta, alnFwd_endb, alnFwd_startb]
    exact meas_fwd h1 h2 hkn hlt_b hdau0 hdbu0 hMx
  refine ⟨yL, fun L => alnBwd (realKernels ap (.seqseq seq1 seq2) lenA lenB) L (hotS x.bk) x.bk v
    ((mid : Int) + da v) (ea : Int) (((sb + k : Nat) : Int) + db v) (eb : Int), ?_, PreL, MeasL, ?_⟩
  · intro rec
    rw [runnerBody_eq _ rec x _ hKstep]
    simp only []
    rw [htrans, hmeet, alnContinue_generic _ _ _ _ _ _ _ _ _ _ _ _ _ _ hvalid, e1, e2, e3, e4, hmidI, hg0F, hg0B,
      ← hu, ← hv, ← hm2, ← hm3a, ← hm3, ← hyL]
  intro L hPostL
  obtain ⟨hLf, hLframe, hLreg, hLS, _⟩ := hPostL
  -- the backward child
  obtain ⟨yR, hyR⟩ : ∃ yR, yR = alnBwd (realKernels ap (.seqseq seq1 seq2) lenA lenB) L (hotS x.bk) x.bk v
      ((mid : Int) + da v) (ea : Int) (((sb + k : Nat) : Int) + db v) (eb : Int) := ⟨_, rfl⟩
  show PreS _ lenA lenB (alnBwd _ L (hotS x.bk) x.bk v _ _ _ _) ∧ MeasS (alnBwd _ L (hotS x.bk) x.bk v _ _ _ _) ≤ n ∧
    ∀ r, PostS _ lenA lenB (alnBwd _ L (hotS x.bk) x.bk v _ _ _ _) r → PostS _ lenA lenB x r
  rw [← hyR]
  have hyRpe : yR.pe = L.pe := by rw [hyR]; rfl
  have hGL : GoodS (P1 ++ (X1 ++ X2) ++ P2) lenA L :=
    GoodS_of_frame _ _ yL L (fun i a b => by rw [hyLpe]; exact hG3 i a b) hLframe
  have PreR : PreS (P1 ++ (X1 ++ X2) ++ P2) lenA lenB yR := by
    refine ⟨by rw [hyR]; exact hLf, ?_, ?_, by rw [hyR, alnBwd_starta]; omega, ?_⟩
    · intro i h1' h2'; rw [hyRpe]; exact hGL i h1' h2'
    · refine ⟨?_, ?_, ?_⟩
      · rw [hyR, alnBwd_f, set0_sizeS]; exact hLS.1
      · rw [hyR, alnBwd_b, set0_sizeS]; exact hLS.2.1
      · rw [hyR, alnBwd_path]; exact hLS.2.2
    · right
      obtain ⟨a1, b1, ha1', hb1', hDD, _, _, _⟩ := dd_bwd (P1 ++ (X1 ++ X2) ++ P2) lenA lenB (P1 ++ X1) X2 P2 mid ea
        (sb + k) eb x.bk v (by simp) hs2 hcA hcB (by omega) (by omega) hbk hfkX2 hInvB hvGA hX2ne
      refine ⟨a1, ea, b1, eb, by rw [hyR, alnBwd_starta, ha1'], by rw [hyR]; rfl, by rw [hyR, alnBwd_startb, hb1'],
        by rw [hyR]; rfl, by rw [hyR, alnBwd_fk, alnBwd_bk]; exact hDD, ?_, ?_⟩
      · rw [hyR, alnBwd_f, alnBwd_fk, hotS_eq_st]
        exact get0_set0S ap _ lenA lenB _ _ (by have := hLS.1; omega)
      · rw [hyR, alnBwd_b, alnBwd_bk]
        exact get0_set0S ap _ lenA lenB _ _ (by have := hLS.2.1; omega)
  have MeasR : MeasS yR ≤ n := by
    unfold MeasS
    rw [hyR, alnBwd_enda, alnBwd_starta, alnBwd_endb, alnBwd_startb]
    exact meas_bwd h1 h2 hkn hlt_b hdv1 hdav0 hdbv0 hMx
  refine ⟨PreR, MeasR, ?_⟩
  intro r hPostR
  obtain ⟨hRf, hRframe, hRreg, hRS, hRdeg⟩ := hPostR
  -- assemble
  obtain ⟨hfr, hreg⟩ := assemble lenA (pth (P1 ++ (X1 ++ X2) ++ P2)) x.pe m3.pe L.pe r.pe (sa : Int) (mid : Int)
    (ea : Int) (da u) (da v) (by omega) (by omega) frame3
    (fun i a b => by have := hLframe i a b; rw [hyLpe] at this; exact this)
    (fun i a b => by have := hRframe i a b; rw [hyRpe] at this; exact this)
    (fun i a b => hLreg i (by rw [hyL, alnFwd_starta]; exact a) (by rw [hyL, alnFwd_enda]; exact b))
    (fun i a b => hRreg i (by rw [hyR, alnBwd_starta]; exact a) (by rw [hyR, alnBwd_enda]; exact b))
    midok
  exact ⟨hRf, hfr, fun i a b => hreg i (by rw [← e1]; exact a) (by rw [← e2]; exact b), hRS, hRdeg⟩

/-- **one non-degenerate call** of the runner, given the recursive calls behave -/
theorem body_post_cutS (P : List Col) (H : CutHypS U ap apE gpo gpe tgpe s seq1 seq2 lenA lenB P) (n : Nat)
    (rec : MemS → MemS)
    (hrec : ∀ y, PreS P lenA lenB y → MeasS y ≤ n → PostS P lenA lenB y (rec y))
    (x : MemS) (hx : PreS P lenA lenB x) (hM : MeasS x ≤ n + 1) (hra : x.starta < x.enda) (hrb : x.startb < x.endb) :
    PostS P lenA lenB x (runnerBody (realKernels ap (.seqseq seq1 seq2) lenA lenB) false rec x) := by
  obtain ⟨yL, mkR, heq, PreL, MeasL, hrest⟩ := body_shape_cutS U ap apE gpo gpe tgpe s seq1 seq2 lenA lenB P H n x hx hM hra hrb
  rw [heq rec]
  obtain ⟨PreR, MeasR, hfin⟩ := hrest _ (hrec yL PreL MeasL)
  exact hfin _ (hrec _ PreR MeasR)

end


section
variable (U : Nat) (ap : AlnParam SoftF32) (apE : AlnParam ExactScore) (gpo gpe tgpe : Int) (s : Nat → Nat → Int)
  (seq1 seq2 : Array Nat) (lenA lenB : Nat)

/-- **every call of the serial runner on a rectangle of `P` completes the path entries of that rectangle** -/
theorem runner_cutS (P : List Col) (H : CutHypS U ap apE gpo gpe tgpe s seq1 seq2 lenA lenB P) :
    ∀ (n : Nat) (x : MemS), PreS P lenA lenB x → MeasS x ≤ n →
      PostS P lenA lenB x (runnerSerial (realKernels ap (.seqseq seq1 seq2) lenA lenB) false n x) := by
  intro n
  induction n with
  | zero => intro x _ hM; unfold MeasS at hM; omega
  | succ n ih =>
    intro x hx hM
    have hxf := hx.1
    rw [runnerSerial, if_neg (by rw [hxf]; simp)]
    by_cases ha : x.starta ≥ x.enda
    · rw [if_pos ha]
      exact PostS_refl_deg P lenA lenB x hxf hx.2.2.1 ha
    rw [if_neg ha]
    by_cases hb : x.startb ≥ x.endb
    · rw [if_pos hb]
      obtain ⟨_, hxG, hS, _, hdec⟩ := hx
      refine ⟨hxf, fun _ _ _ => Or.inl rfl, ?_, hS, Or.inr hb⟩
      rcases hdec with hdeg | ⟨sa, ea, sb, eb, e1, e2, e3, e4, hDD, _, _⟩
      · omega
      · obtain ⟨P1, X, P2, hP, hP1a, hP1b, hXa, hXb, _, _, _, _⟩ := hDD
        intro i h1 h2
        have hXb0 : consB X = 0 := by rw [e3, e4] at hb; omega
        have hskip := adjOK_noskip _ _ H.hadj
        have hsX : Col.skip ∉ X := fun h => hskip (by rw [hP]; simp [h])
        have hAs := H.hA
        rw [hP] at hAs
        simp only [consA_append] at hAs
        have hpth : pth P i = -1 := by
          rw [hP]
          exact pth_all_gapB P1 X P2 hsX hXb0 i (by rw [hP1a, ← e1]; exact h1) (by rw [hP1a, e2] at *; omega)
        rcases hxG i (by omega) (by rw [e2] at h2; omega) with h | h
        · rw [h, hpth]
        · exact h
    rw [if_neg hb]
    exact body_post_cutS U ap apE gpo gpe tgpe s seq1 seq2 lenA lenB P H n _ ih x hx hM (by omega) (by omega)

/-- **the missing `return` of `aln_runner` is harmless on these runs**: `aln_runner` (which calls `aln_runner_serial`
below 500 rows and then falls through into the same code) computes the same memory as `aln_runner_serial` -/
theorem runner_eq_serial_cutS (P : List Col) (H : CutHypS U ap apE gpo gpe tgpe s seq1 seq2 lenA lenB P) :
    ∀ (n : Nat) (x : MemS), PreS P lenA lenB x → MeasS x ≤ n →
      runner (realKernels ap (.seqseq seq1 seq2) lenA lenB) false n x =
        runnerSerial (realKernels ap (.seqseq seq1 seq2) lenA lenB) false n x := by
  intro n
  induction n with
  | zero => intro x _ hM; unfold MeasS at hM; omega
  | succ n ih =>
    intro x hx hM
    have hxf := hx.1
    have hPost := runner_cutS U ap apE gpo gpe tgpe s seq1 seq2 lenA lenB P H (n + 1) x hx hM
    rw [runner, if_neg (by rw [hxf]; simp)]
    by_cases hs : x.enda - x.starta < 500
    · simp only [hs, if_true]
      obtain ⟨hrf, _, _, _, hdeg⟩ := hPost
      rw [if_neg (by rw [hrf]; simp)]
      rcases hdeg with h | h
      · rw [if_pos h]
      · by_cases ha : (runnerSerial (realKernels ap (.seqseq seq1 seq2) lenA lenB) false (n + 1) x).starta ≥
            (runnerSerial (realKernels ap (.seqseq seq1 seq2) lenA lenB) false (n + 1) x).enda
        · rw [if_pos ha]
        · rw [if_neg ha, if_pos h]
    · simp only [hs, if_false]
      rw [runnerSerial]
      simp only [hxf, Bool.false_eq_true, if_false]
      by_cases ha : x.starta ≥ x.enda
      · simp only [ha, if_true]
      simp only [ha, if_false]
      by_cases hb : x.startb ≥ x.endb
      · simp only [hb, if_true]
      simp only [hb, if_false]
      obtain ⟨yL, mkR, heq, PreL, MeasL, hrest⟩ :=
        body_shape_cutS U ap apE gpo gpe tgpe s seq1 seq2 lenA lenB P H n x hx hM (by omega) (by omega)
      rw [heq, heq, ih yL PreL MeasL]
      obtain ⟨PreR, MeasR, _⟩ := hrest _ (runner_cutS U ap apE gpo gpe tgpe s seq1 seq2 lenA lenB P H n yL PreL MeasL)
      rw [ih _ PreR MeasR]

end


section
variable (U : Nat) (ap : AlnParam SoftF32) (apE : AlnParam ExactScore) (gpo gpe tgpe : Int) (s : Nat → Nat → Int)
  (seq1 seq2 : Array Nat) (lenA lenB : Nat)

/-- **S4 at the level of the path array** -/
theorem runner_path_cutS (P : List Col) (H : CutHypS U ap apE gpo gpe tgpe s seq1 seq2 lenA lenB P)
    (n : Nat) (hn : lenA + lenB + 1 ≤ n) :
    (runnerSerial (realKernels ap (.seqseq seq1 seq2) lenA lenB) false n (initMem lenA lenB)).fault = false ∧
    (runnerSerial (realKernels ap (.seqseq seq1 seq2) lenA lenB) false n (initMem lenA lenB)).pathEntries lenA =
      pathFrom 0 P := by
  have hPre : PreS P lenA lenB (initMem lenA lenB : MemS) := by
    refine ⟨rfl, fun i _ _ => Or.inl (initMemS_pe lenA lenB i), ?_, by show (0 : Int) ≤ 0; omega, Or.inr ?_⟩
    · refine ⟨?_, ?_, ?_⟩ <;> simp [initMem] <;> omega
    · refine ⟨0, lenA, 0, lenB, rfl, rfl, rfl, rfl, ?_, ?_, ?_⟩
      · exact ⟨[], P, [], by simp, rfl, rfl, by simpa using H.hA, by simpa using H.hB, rfl, rfl,
          Or.inl (by simp), Or.inl (by simp)⟩
      · show ((Array.replicate (max lenA lenB + 2) States.negInf).set! 0 oneHotA).getD 0 States.negInf = hotS .A
        simp [Array.getD]; rfl
      · show ((Array.replicate (max lenA lenB + 2) States.negInf).set! 0 oneHotA).getD 0 States.negInf = hotS .A
        simp [Array.getD]; rfl
  have hMeas : MeasS (initMem lenA lenB : MemS) ≤ n := by
    unfold MeasS
    show ((lenA : Int) - 0).toNat + ((lenB : Int) - 0).toNat + 1 ≤ n
    omega
  obtain ⟨hf, _, hreg, _, _⟩ := runner_cutS U ap apE gpo gpe tgpe s seq1 seq2 lenA lenB P H n _ hPre hMeas
  refine ⟨hf, ?_⟩
  apply List.ext_getElem
  · simp [Mem.pathEntries, length_pathFrom, H.hA]
  · intro idx h1 h2
    simp only [Mem.pathEntries, List.length_map, List.length_range'] at h1
    simp only [Mem.pathEntries, List.getElem_map, List.getElem_range', Nat.one_mul]
    have := hreg ((idx + 1 : Nat) : Int) (by show (0 : Int) < _; omega) (by show _ ≤ (lenA : Int); omega)
    unfold Mem.pe pth at this
    simp only [Int.toNat_natCast, Nat.add_sub_cancel] at this
    rw [Nat.add_comm, this, List.getD_eq_getElem?_getD, List.getElem?_eq_getElem h2]
    rfl

end

end Kalign
