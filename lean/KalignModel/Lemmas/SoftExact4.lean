import KalignModel.Lemmas.SoftExact2
import KalignModel.Lemmas.SoftExact3
import KalignModel.Lemmas.SoftMeet
/-!
# The meetup on the software binary32 with dyadic parameters: a robust argmax

Every candidate of the `SoftF32` meetup is `E − tie` where `E` (forward cell + backward cell − join penalty) is computed exactly
(`half h`, where the exact carrier has `some (1000·h)`) and `tie` is the non-dyadic tie-break term, `0 ≤ tie ≤ T/2`.  Correctly
rounded subtraction is monotone and `half (h − T)`, `half h` are representable, so the candidate lies between them (`CandRel`).
Scanning such candidates from the sentinel with C's `>` (`tryAll`), the winner `(k, t)` has a finite exact value `v` and every
admissible candidate with exact value `v'` satisfies `v' − 1000·T ≤ v` (`ssMeet_robust`); if no candidate has a finite exact
value the meetup keeps `transition = -1`.
-/
namespace Kalign
open SoftF32

/-- a `SoftF32` candidate value `x` against the exact value `e` of the candidate *without* the tie-break term -/
def CandRel (T : Nat) (x : SoftF32) : Option Int → Prop
  | none => Sent x
  | some v => ∃ h : Int, v = 1000 * h ∧ h.natAbs < 16777216 ∧ (h - T).natAbs < 16777216 ∧ x.isNaN = false ∧
      (half (h - T)).key ≤ x.key ∧ x.key ≤ (half h).key

theorem key_half (h : Int) : (half h).key = rndKey (h * ((2 ^ 148 : Nat) : Int)) := key_packZ _ _

theorem tieLe_absLe {x : SoftF32} {T : Nat} (h : TieLe x T) (hT : T < 16777216) : absLe x (8 * 1048576) := by
  refine ⟨h.1, ?_⟩
  have h1 := natAbs_toInt x
  have h3 : magVal x.mag ≤ T * 2 ^ 148 := by
    have hc : ((magVal x.mag : Nat) : Int) ≤ ((T * 2 ^ 148 : Nat) : Int) := by
      rw [Int.natCast_mul, ← h1, Int.natAbs_of_nonneg h.2.1]
      exact h.2.2
    exact Int.ofNat_le.1 hc
  have h4 : T * 2 ^ 148 ≤ 16777216 * 2 ^ 148 := Nat.mul_le_mul_right _ (Nat.le_of_lt hT)
  have e : (8 * 1048576 : Nat) * 2 ^ 149 = 16777216 * 2 ^ 148 := by decide
  rw [e]
  exact Nat.le_trans h3 h4

/-- **a candidate**: an exactly computed dyadic value minus the tie-break term -/
theorem cand_rel {M T : Nat} {z tie : SoftF32} {e : ExactScore} (hz : Emb M z e) (ht : TieLe tie T)
    (hM : M + T < 16777216) : CandRel T (Score.sub z tie) e := by
  show CandRel T (sub z tie) e
  have htf : tie.isFinite = true := isFinite_of_mag ht.1
  cases e with
  | none => exact sent_sub_fin hz (tieLe_absLe ht (by omega)) (by decide)
  | some v =>
    obtain ⟨h, rfl, h2, rfl⟩ := hz
    have hh : h.natAbs < 16777216 := by omega
    have hhT : (h - T).natAbs < 16777216 := by omega
    refine ⟨h, rfl, hh, hhT, ?_, ?_, ?_⟩
    · rw [sub_of_not_nan (half_not_nan hh) (isNaN_of_finite htf)]
      exact add_not_nan (half_finite hh) (by rw [isFinite_neg]; exact htf)
    · rw [key_sub (half_finite hh) htf, key_half, (half_fin hh).2.1]
      apply rndKey_mono
      rw [Int.sub_mul]
      have := ht.2.2
      omega
    · rw [key_sub (half_finite hh) htf, key_half, (half_fin hh).2.1]
      apply rndKey_mono
      have := ht.2.1
      omega

theorem candRel_not_nan {T : Nat} {x : SoftF32} {e : Option Int} (h : CandRel T x e) : x.isNaN = false := by
  cases e with
  | none => exact sent_not_nan h
  | some v => obtain ⟨_, _, _, _, h4, _, _⟩ := h; exact h4

theorem candRel_none_key {T : Nat} {x : SoftF32} (h : CandRel T x none) : x.key ≤ -2139095039 := key_of_sent h

theorem candRel_some_key {T : Nat} {x : SoftF32} {v : Int} (h : CandRel T x (some v)) : -2139095039 < x.key := by
  obtain ⟨k, _, _, h3, _, h5, _⟩ := h
  have := key_of_fin (half_absLe h3) (unit_lt127 8 (by decide))
  omega

theorem key_negMax : negMax.key = -2139095039 := by decide

/-! ## the scan -/

/-- state of the scan: the accumulator dominates everything seen; it is still the sentinel (nothing finite seen) or a seen candidate
with a finite exact value -/
def RScanInv (ev : Int → Nat → Option Int) (pre : List (SoftF32 × Int × Nat)) (acc : MeetAcc SoftF32) : Prop :=
  acc.max.isNaN = false ∧ (∀ d ∈ pre, d.1.key ≤ acc.max.key) ∧
  ((acc.max = negMax ∧ acc.transition = -1 ∧ ∀ c ∈ pre, ev c.2.1 c.2.2 = none) ∨
   (∃ c ∈ pre, acc.max = c.1 ∧ acc.transition = c.2.1 ∧ acc.c = (c.2.2 : Int) ∧ ev c.2.1 c.2.2 ≠ none ∧
      -2139095039 < c.1.key))

theorem gt_eq_key {x y : SoftF32} (hx : x.isNaN = false) (hy : y.isNaN = false) :
    (Score.gt x y : Bool) = decide (y.key < x.key) := by
  show lt y x = _
  simp [lt, hx, hy]

theorem try_rscan (T : Nat) (ev : Int → Nat → Option Int) (pre : List (SoftF32 × Int × Nat)) (acc : MeetAcc SoftF32)
    (c : SoftF32 × Int × Nat) (hc : CandRel T c.1 (ev c.2.1 c.2.2)) (h : RScanInv ev pre acc) :
    RScanInv ev (pre ++ [c]) (acc.try_ c.1 c.2.1 c.2.2) := by
  obtain ⟨hn, hdom, hst⟩ := h
  have hcn := candRel_not_nan hc
  unfold MeetAcc.try_
  rw [gt_eq_key hcn hn]
  have hacc : -2139095039 ≤ acc.max.key := by
    rcases hst with ⟨h1, _, _⟩ | ⟨c', hc', h1, _, _, _, h5⟩
    · rw [h1, key_negMax]; omega
    · rw [h1]; omega
  by_cases hgt : acc.max.key < c.1.key
  · simp only [hgt, decide_true, if_true]
    have hev : ev c.2.1 c.2.2 ≠ none := by
      intro h0
      rw [h0] at hc
      have := candRel_none_key hc
      omega
    refine ⟨hcn, ?_, Or.inr ⟨c, List.mem_append_right _ (List.mem_singleton.2 rfl), rfl, rfl, rfl, hev, by omega⟩⟩
    intro d hd
    rcases List.mem_append.1 hd with hd | hd
    · have := hdom d hd
      show d.1.key ≤ c.1.key
      omega
    · simp only [List.mem_singleton] at hd; subst hd; exact Int.le_refl _
  · simp only [hgt, decide_false, Bool.false_eq_true, if_false]
    refine ⟨hn, ?_, ?_⟩
    · intro d hd
      rcases List.mem_append.1 hd with hd | hd
      · exact hdom d hd
      · simp only [List.mem_singleton] at hd; subst hd; omega
    · rcases hst with ⟨h1, h2, h3⟩ | ⟨c', hc', h1⟩
      · left
        refine ⟨h1, h2, ?_⟩
        intro d hd
        rcases List.mem_append.1 hd with hd | hd
        · exact h3 d hd
        · simp only [List.mem_singleton] at hd
          subst hd
          cases hv : ev d.2.1 d.2.2 with
          | none => rfl
          | some v =>
            rw [hv] at hc
            have := candRel_some_key hc
            rw [h1, key_negMax] at hgt
            omega
      · right
        exact ⟨c', List.mem_append_left _ hc', h1⟩

theorem tryAll_rscan (T : Nat) (ev : Int → Nat → Option Int) :
    ∀ (cs pre : List (SoftF32 × Int × Nat)) (acc : MeetAcc SoftF32),
      (∀ c ∈ cs, CandRel T c.1 (ev c.2.1 c.2.2)) → RScanInv ev pre acc → RScanInv ev (pre ++ cs) (tryAll acc cs) := by
  intro cs
  induction cs with
  | nil => intro pre acc _ h; simpa [tryAll] using h
  | cons c cs ih =>
    intro pre acc hall h
    have h1 := try_rscan T ev pre acc c (hall c (List.mem_cons_self ..)) h
    have h2 := ih (pre ++ [c]) _ (fun d hd => hall d (List.mem_cons_of_mem _ hd)) h1
    have e : pre ++ [c] ++ cs = pre ++ c :: cs := by simp
    rw [e] at h2
    exact h2

/-- **robust argmax of the scan**: from the sentinel, over candidates related to exact values by `CandRel T` -/
theorem tryAll_robust (T : Nat) (ev : Int → Nat → Option Int) (cs : List (SoftF32 × Int × Nat))
    (hall : ∀ c ∈ cs, CandRel T c.1 (ev c.2.1 c.2.2)) :
    let acc := tryAll ⟨Score.negInf, -1, -1⟩ cs
    (acc.transition = -1 ∧ ∀ c ∈ cs, ev c.2.1 c.2.2 = none) ∨
    (∃ c ∈ cs, acc.transition = c.2.1 ∧ acc.c = (c.2.2 : Int) ∧ ∃ v, ev c.2.1 c.2.2 = some v ∧
      ∀ d ∈ cs, ∀ v', ev d.2.1 d.2.2 = some v' → v' - 1000 * (T : Int) ≤ v) := by
  intro acc
  have hinv : RScanInv ev cs acc := by
    have := tryAll_rscan T ev cs [] ⟨Score.negInf, -1, -1⟩ hall
      ⟨by decide, by simp, Or.inl ⟨rfl, rfl, by simp⟩⟩
    simpa using this
  obtain ⟨_, hdom, hst⟩ := hinv
  rcases hst with ⟨_, h2, h3⟩ | ⟨c, hc, h1, h2, h3, h4, _⟩
  · exact Or.inl ⟨h2, h3⟩
  · right
    refine ⟨c, hc, h2, h3, ?_⟩
    cases hv : ev c.2.1 c.2.2 with
    | none => exact absurd hv h4
    | some v =>
      refine ⟨v, rfl, ?_⟩
      intro d hd v' hv'
      have hcr := hall c hc
      rw [hv] at hcr
      have hdr := hall d hd
      rw [hv'] at hdr
      obtain ⟨h, rfl, hh, _, _, _, hup⟩ := hcr
      obtain ⟨h', rfl, hh', hhT', _, hlo, _⟩ := hdr
      have hdc := hdom d hd
      rw [h1] at hdc
      have hk : (half (h' - T)).key ≤ (half h).key := by omega
      rw [key_le_iff, (half_fin hhT').2.1, (half_fin hh).2.1, mul148_le] at hk
      omega

/-! ## the candidates of the sequence–sequence meetup -/

/-- exact value of candidate `(t, k)` without the tie-break term: forward part + backward part − join penalty -/
def evC (cF : KCfg) (ef eb : States ExactScore) (k : Nat) (t : Int) : Option Int :=
  osub (oplus (ef.get (fkOf t)) (eb.get (bkOf t))) (joinCost cF t k)

def evOf (cF : KCfg) (EF EB : Nat → States ExactScore) (sb : Nat) (t : Int) (i : Nat) : Option Int :=
  evC cF (EF (i - sb)) (EB (i - sb)) (i - sb) t

section
variable {U : Nat} {ap : AlnParam SoftF32} {apE : AlnParam ExactScore}

theorem cand_pen_rel {Nf Nb T : Nat} {x y p tie : SoftF32} {ex ey pe : ExactScore} {g : Int}
    (hx : Emb Nf x ex) (hy : Emb Nb y ey) (hp : DyVal U p pe) (hpe : pe = some g) (ht : TieLe tie T)
    (hB : Nf + Nb + U + T < 16777216) :
    CandRel T (Score.sub (Score.sub (Score.add x y) p) tie) (osub (oplus ex ey) g) := by
  have h1 := emb_add2 hx hy (by omega)
  have h2 := emb_sub h1 hp (by omega)
  rw [hpe, ex_sub_some, ex_add_eq] at h2
  exact cand_rel h2 ht (by omega)

theorem cand_plain_rel {Nf Nb T : Nat} {x y tie : SoftF32} {ex ey : ExactScore}
    (hx : Emb Nf x ex) (hy : Emb Nb y ey) (ht : TieLe tie T) (hB : Nf + Nb + U + T < 16777216) :
    CandRel T (Score.sub (Score.add x y) tie) (osub (oplus ex ey) 0) := by
  have h1 := emb_add2 hx hy (by omega)
  rw [ex_add_eq] at h1
  rw [osub_zero]
  exact cand_rel h1 ht (by omega)

theorem cellCands_rel (hd : DyadicParam U ap apE) {gpo gpe tgpe : Int} {s : Nat → Nat → Int}
    (hap : ApOK apE gpo gpe tgpe s) (seq1 seq2 : Array Nat) (r : Rect) (sb eb i Nf Nb T : Nat)
    (f b : States SoftF32) (ef eb' : States ExactScore) (hB : Nf + Nb + U + T < 16777216)
    (hf : StEmb Nf f ef) (hb : StEmb Nb b eb') (htie : TieLe (Score.tie sb eb i : SoftF32) T) (k : Nat)
    (hk : k < r.endb - r.startb) :
    ∀ c ∈ cellCands (ssMeetOps ap r) sb eb i f b,
      CandRel T c.1 (evC (cfgF gpo gpe tgpe s seq1 seq2 r) ef eb' k c.2.1) ∧ c.2.2 = i ∧
        (c.2.1 = 1 ∨ c.2.1 = 2 ∨ c.2.1 = 3 ∨ c.2.1 = 5 ∨ c.2.1 = 6 ∨ c.2.1 = 7) := by
  intro c hc
  simp only [cellCands, List.mem_cons, List.not_mem_nil, or_false] at hc
  rcases hc with rfl | rfl | rfl | rfl | rfl | rfl
  · refine ⟨?_, rfl, Or.inl rfl⟩
    simp only [evC, fkOf_1, bkOf_1, States.get_A, joinCost, if_true]
    exact cand_plain_rel hf.1 hb.1 htie hB
  · refine ⟨?_, rfl, Or.inr (Or.inl rfl)⟩
    simp only [evC, fkOf_2, bkOf_2, States.get_A, States.get_GA, joinCost, cfgF]
    exact cand_pen_rel hf.1 hb.2.1 hd.gpo hap.gpo htie hB
  · refine ⟨?_, rfl, Or.inr (Or.inr (Or.inl rfl))⟩
    simp only [evC, fkOf_3, bkOf_3, States.get_A, States.get_GB, joinCost, cfgF]
    exact cand_pen_rel hf.1 hb.2.2 hd.gpo hap.gpo htie hB
  · refine ⟨?_, rfl, Or.inr (Or.inr (Or.inr (Or.inl rfl)))⟩
    simp only [evC, fkOf_5, bkOf_5, States.get_A, States.get_GA, joinCost, cfgF]
    exact cand_pen_rel hf.2.1 hb.1 hd.gpo hap.gpo htie hB
  · refine ⟨?_, rfl, Or.inr (Or.inr (Or.inr (Or.inr (Or.inl rfl))))⟩
    simp only [evC, fkOf_6, bkOf_6, States.get_GB, joinCost, cfgF, hk, ssMeetOps]
    by_cases h0 : (r.startb == 0) = true
    · simp only [h0, if_true]
      exact cand_pen_rel hf.2.2 hb.2.2 hd.tgpe hap.tgpe htie hB
    · simp only [h0, Bool.false_eq_true, if_false]
      exact cand_pen_rel hf.2.2 hb.2.2 hd.gpe hap.gpe htie hB
  · refine ⟨?_, rfl, Or.inr (Or.inr (Or.inr (Or.inr (Or.inr rfl))))⟩
    simp only [evC, fkOf_7, bkOf_7, States.get_A, States.get_GB, joinCost, cfgF]
    exact cand_pen_rel hf.2.2 hb.1 hd.gpo hap.gpo htie hB

theorem lastCands_rel (hd : DyadicParam U ap apE) {gpo gpe tgpe : Int} {s : Nat → Nat → Int}
    (hap : ApOK apE gpo gpe tgpe s) (seq1 seq2 : Array Nat) (r : Rect) (sb eb i Nf Nb T : Nat)
    (f b : States SoftF32) (ef eb' : States ExactScore) (hB : Nf + Nb + U + T < 16777216)
    (hf : StEmb Nf f ef) (hb : StEmb Nb b eb') (htie : TieLe (Score.tie sb eb i : SoftF32) T) (k : Nat)
    (hk : ¬ k < r.endb - r.startb) :
    ∀ c ∈ lastCands (ssMeetOps ap r) sb eb i f b,
      CandRel T c.1 (evC (cfgF gpo gpe tgpe s seq1 seq2 r) ef eb' k c.2.1) ∧ c.2.2 = i ∧ (c.2.1 = 3 ∨ c.2.1 = 6) := by
  intro c hc
  simp only [lastCands, List.mem_cons, List.not_mem_nil, or_false] at hc
  rcases hc with rfl | rfl
  · refine ⟨?_, rfl, Or.inl rfl⟩
    simp only [evC, fkOf_3, bkOf_3, States.get_A, States.get_GB, joinCost, cfgF]
    exact cand_pen_rel hf.1 hb.2.2 hd.gpo hap.gpo htie hB
  · refine ⟨?_, rfl, Or.inr rfl⟩
    simp only [evC, fkOf_6, bkOf_6, States.get_GB, joinCost, cfgF, hk, ssMeetOps]
    by_cases h0 : (r.endb == r.lenB) = true
    · simp only [h0, if_true]
      exact cand_pen_rel hf.2.2 hb.2.2 hd.tgpe hap.tgpe htie hB
    · simp only [h0, Bool.false_eq_true, if_false]
      exact cand_pen_rel hf.2.2 hb.2.2 hd.gpe hap.gpe htie hB

theorem allCands_rel (hd : DyadicParam U ap apE) {gpo gpe tgpe : Int} {s : Nat → Nat → Int}
    (hap : ApOK apE gpo gpe tgpe s) (seq1 seq2 : Array Nat) (r : Rect) (sb eb T : Nat) (Nf Nb : Nat → Nat)
    (F Bk : Nat → States SoftF32) (EF EB : Nat → States ExactScore) :
    ∀ d k0, k0 + d = r.endb - r.startb →
      (∀ k, k0 ≤ k → k ≤ k0 + d → Nf k + Nb k + U + T < 16777216 ∧ StEmb (Nf k) (F k) (EF k) ∧
        StEmb (Nb k) (Bk k) (EB k) ∧ TieLe (Score.tie sb eb (sb + k) : SoftF32) T) →
      ∀ c ∈ allCands (ssMeetOps ap r) sb eb F Bk k0 d,
        CandRel T c.1 (evOf (cfgF gpo gpe tgpe s seq1 seq2 r) EF EB sb c.2.1 c.2.2) ∧
          ∃ k, AdmFrom k0 d k c.2.1 ∧ c.2.2 = sb + k := by
  intro d
  induction d with
  | zero =>
    intro k0 hn h c hc
    simp only [allCands] at hc
    obtain ⟨hB, h1, h2, h3⟩ := h k0 (Nat.le_refl _) (by omega)
    obtain ⟨c1, c2, c3⟩ := lastCands_rel hd hap seq1 seq2 r sb eb (sb + k0) (Nf k0) (Nb k0) T _ _ _ _ hB h1 h2 h3 k0
      (by omega) c hc
    refine ⟨?_, k0, Or.inr ⟨by omega, c3⟩, c2⟩
    unfold evOf
    rw [c2, Nat.add_sub_cancel_left]
    exact c1
  | succ d ih =>
    intro k0 hn h c hc
    simp only [allCands, List.mem_append] at hc
    rcases hc with hc | hc
    · obtain ⟨hB, h1, h2, h3⟩ := h k0 (Nat.le_refl _) (by omega)
      obtain ⟨c1, c2, c3⟩ := cellCands_rel hd hap seq1 seq2 r sb eb (sb + k0) (Nf k0) (Nb k0) T _ _ _ _ hB h1 h2 h3 k0
        (by omega) c hc
      refine ⟨?_, k0, Or.inl ⟨Nat.le_refl _, by omega, c3⟩, c2⟩
      unfold evOf
      rw [c2, Nat.add_sub_cancel_left]
      exact c1
    · obtain ⟨c1, k, c2, c3⟩ := ih (k0 + 1) (by omega) (fun k hk1 hk2 => h k (by omega) (by omega)) c hc
      refine ⟨c1, k, ?_, c3⟩
      rcases c2 with ⟨a1, a2, a3⟩ | ⟨a1, a2⟩
      · exact Or.inl ⟨by omega, by omega, a3⟩
      · exact Or.inr ⟨by omega, a2⟩

/-- **the sequence–sequence meetup on `SoftF32` with dyadic parameters returns a robust maximum of the exact candidate values** -/
theorem ssMeet_robust (hd : DyadicParam U ap apE) {gpo gpe tgpe : Int} {s : Nat → Nat → Int}
    (hap : ApOK apE gpo gpe tgpe s) (seq1 seq2 : Array Nat) (r : Rect) (T : Nat) (Nf Nb : Nat → Nat)
    (F Bk : Nat → States SoftF32) (EF EB : Nat → States ExactScore)
    (h : ∀ k, k ≤ r.endb - r.startb → Nf k + Nb k + U + T < 16777216 ∧ StEmb (Nf k) (F k) (EF k) ∧
      StEmb (Nb k) (Bk k) (EB k) ∧ TieLe (Score.tie r.startb r.endb (r.startb + k) : SoftF32) T) :
    let n := r.endb - r.startb
    let cF := cfgF gpo gpe tgpe s seq1 seq2 r
    let res := meetupRun (ssMeetOps ap r) r.startb r.endb ((List.range (n + 1)).map F) ((List.range (n + 1)).map Bk)
    (res.transition = -1 ∧ ∀ k t, Adm n k t → evC cF (EF k) (EB k) k t = none) ∨
    (∃ k t v, Adm n k t ∧ res.meet = ((r.startb + k : Nat) : Int) ∧ res.transition = t ∧
      evC cF (EF k) (EB k) k t = some v ∧
      ∀ k' t' v', Adm n k' t' → evC cF (EF k') (EB k') k' t' = some v' → v' - 1000 * (T : Int) ≤ v) := by
  intro n cF res
  have hr : res = (let a := tryAll ⟨Score.negInf, -1, -1⟩ (allCands (ssMeetOps ap r) r.startb r.endb F Bk 0 n);
      ⟨a.c, a.transition, a.max⟩) := meetupRun_eq (ssMeetOps ap r) r.startb r.endb n F Bk
  have hrel := allCands_rel hd hap seq1 seq2 r r.startb r.endb T Nf Nb F Bk EF EB n 0 (by omega)
    (fun k _ hk => h k (by omega))
  have hscan := tryAll_robust T (evOf cF EF EB r.startb) (allCands (ssMeetOps ap r) r.startb r.endb F Bk 0 n)
    (fun c hc => (hrel c hc).1)
  have hev : ∀ k t, evOf cF EF EB r.startb t (r.startb + k) = evC cF (EF k) (EB k) k t := by
    intro k t; unfold evOf; rw [Nat.add_sub_cancel_left]
  rw [hr]
  simp only
  rcases hscan with ⟨h2, h3⟩ | ⟨c, hc, h2, h3, v, hv, hdom⟩
  · left
    refine ⟨h2, ?_⟩
    intro k t hadm
    obtain ⟨c, hc, c1, c2⟩ := allCands_complete (ssMeetOps ap r) r.startb r.endb F Bk n 0 k t ((admFrom_zero n k t).2 hadm)
    have := h3 c hc
    rw [c1, c2, hev] at this
    exact this
  · right
    obtain ⟨_, k, hk, hk2⟩ := hrel c hc
    refine ⟨k, c.2.1, v, (admFrom_zero n k _).1 hk, by rw [h3, hk2], h2, ?_, ?_⟩
    · rw [← hev, ← hk2]; exact hv
    · intro k' t' v' hadm' hv'
      obtain ⟨d, hdm, d1, d2⟩ := allCands_complete (ssMeetOps ap r) r.startb r.endb F Bk n 0 k' t'
        ((admFrom_zero n k' t').2 hadm')
      exact hdom d hdm v' (by rw [d1, d2, hev]; exact hv')

end
end Kalign
