import KalignModel.Props.C05PipelineSoftL
import KalignModel.Lemmas.TreeSoftBound
import KalignModel.Lemmas.TaskLeaves
/-!
# `kalignRunSoft2` (Model/TreeSoft.lean): the guide-tree stage never faults; the case analysis of the pipeline

* `buildTasks2_tree`: for a non-empty array of at most 2²² code lists below 13, `buildTasks2` **returns** the sorted task table of a tree
  whose leaf list is a permutation of `0 … n-1` — no hypothesis about values (`smallTreeS_some` for the `< 100` parts, `bisectO_spec`
  for the k-means recursion, whose control flow does not depend on the `Float32` values it computes).
* `coreCB_cases`, `stagesCB_cases`, `kalignRunWithCB_cases`: the proofs of `coreC_casesL`, `stagesC_casesL`, `kalignRunWithC_casesL`
  (Props/C05PipelineL.lean) for the pipeline with the task-table builder as a parameter: when the builder returns the table of a tree
  with leaves `0 … n-1` (each once) and the monitor hypothesis `MonHypL` holds for that tree, the run ends in none of `.fuel`,
  `.tree`, `.fault`, `.monitor`.
-/
namespace Kalign.Pipeline
open Kalign Kalign.Kmeans Kalign.Sched

/-- **`buildTasks2` returns the sorted task table of a tree over `0 … n-1`, each once** -/
theorem buildTasks2_tree (avx : Bool) (codes : Array (List Nat)) (hn : codes.size ≠ 0) (hsz : codes.size ≤ 4194304)
    (h13 : ∀ s ∈ codes.toList, ∀ c ∈ s, c < 13) :
    ∃ T : Tree, buildTasks2 avx codes = .ok (Kmeans.sortTasks (treeTasks T codes.size)).toArray ∧
      T.leaves.Perm (List.range codes.size) := by
  unfold buildTasks2
  simp only
  have hlne : codes.toList.map List.length ≠ [] := by
    intro h
    have := congrArg List.length h
    simp only [List.length_map, Array.length_toList, List.length_nil] at this
    exact hn this
  obtain ⟨anchors, ha, hal, _⟩ := pickAnchors_spec (codes.toList.map List.length) hlne
  rw [ha]
  simp only
  obtain ⟨dm, hdm, hrows⟩ := anchorMatrix_some codes anchors h13
  rw [hdm]
  simp only
  have hrne : List.range codes.size ≠ [] := by
    intro h
    have := congrArg List.length h
    simp only [List.length_range, List.length_nil] at this
    exact hn this
  obtain ⟨s1, _, s3⟩ := bisectO_spec avx dm anchors.length (smallTreeS codes) (smallTreeS_leaves codes) codes.size
    (List.range codes.size) hrne (by simp)
  obtain ⟨t, ht⟩ := s3 hrows (fun l hl hsub => smallTreeS_some codes h13 l hl (by
    have := hsub.length_le
    simp only [List.length_range] at this
    omega))
  rw [ht]
  exact ⟨t, rfl, bisectO_leaves_perm avx dm anchors.length (smallTreeS codes)
    (fun l t hnd hs => smallTreeS_leaves_perm codes l t hnd hs) _ _ t List.nodup_range ht⟩

variable {α : Type} [Score α]

/-- the pipeline core on a table that is the sorted table of a tree over `0 … n-1` -/
theorem coreCB_cases (build : Array (List Nat) → Except PipeErr (Array (Nat × Nat × Nat))) (pm : Option (AlnParam α))
    (c1 c2 : List (List Nat)) (hlen : c1.length = c2.length) (h23 : ∀ s ∈ c2, s ≠ [] ∧ ∀ c ∈ s, c < 23)
    (hbuild : 2 ≤ c2.length → ∃ T : Tree, build c1.toArray = .ok (Kmeans.sortTasks (treeTasks T c1.toArray.size)).toArray ∧
      T.leaves.Perm (List.range c1.toArray.size))
    (hM : ∀ ap T, pm = some ap →
        build c1.toArray = .ok (Kmeans.sortTasks (treeTasks T c1.toArray.size)).toArray →
        T.leaves.Perm (List.range c1.toArray.size) → MonHypL ap c2.toArray T.leaves) :
    coreCB build pm c1 c2 ≠ .error .fuel ∧ coreCB build pm c1 c2 ≠ .error .tree ∧
    coreCB build pm c1 c2 ≠ .error .fault ∧ coreCB build pm c1 c2 ≠ .error .monitor := by
  unfold coreCB
  simp only
  by_cases hn : c2.length < 2
  · simp [hn]
  rw [if_neg hn]
  have hsz1 : c1.toArray.size = c2.length := by simp [hlen]
  obtain ⟨T, hT, hperm⟩ := hbuild (by omega)
  have hleaves0 : ∀ x, x ∈ T.leaves ↔ x < c1.toArray.size := by
    intro x; rw [hperm.mem_iff, List.mem_range]
  rw [hT]
  simp only
  have hleaves : ∀ x, x ∈ T.leaves ↔ x < c2.length := by rw [← hsz1]; exact hleaves0
  rw [hsz1]
  cases hp : pm with
  | none => simp
  | some ap =>
    simp only
    have hML : MonHypL ap c2.toArray T.leaves := hM ap T hp hT hperm
    obtain ⟨l, r, hlr⟩ := tree_is_node T c2.length (by omega) hleaves
    obtain ⟨L, R, hroot⟩ := label_node l r c2.length
    rw [← hlr] at hroot
    have hsize : (Kmeans.sortTasks (treeTasks T c2.length)).toArray.size = Kmeans.Tree.nint T := by
      simp [length_sortTasks]
    have hpos : 1 ≤ Kmeans.Tree.nint T := by rw [hlr]; simp [Kmeans.Tree.nint]
    have hcsz : c2.toArray.size = c2.length := by simp
    have hchild : recAlnC ap (Kmeans.sortTasks (treeTasks T c2.length)).toArray c2.toArray c2.length
        (Kmeans.sortTasks (treeTasks T c2.length)).toArray.size
        ((Kmeans.sortTasks (treeTasks T c2.length)).toArray.size - 1) =
        childOfC ap (Kmeans.sortTasks (treeTasks T c2.toArray.size)).toArray c2.toArray c2.toArray.size
          (Kmeans.Tree.nint T) (label T c2.toArray.size).id := by
      rw [hcsz, hroot, hsize]
      show _ = childOfC _ _ _ _ _ (c2.length + Kmeans.Tree.nint T - 1)
      unfold childOfC
      rw [if_pos (by omega)]
      congr 1
      omega
    rw [hchild]
    have hleaves' : ∀ i ∈ T.leaves, i < c2.toArray.size := by
      intro i hi; rw [hcsz]; exact (hleaves i).1 hi
    have hnint : Kmeans.LTree.nint (label T c2.toArray.size) ≤ Kmeans.Tree.nint T := by
      unfold label; rw [(labelFrom_iids T c2.toArray.size).2.2]; exact Nat.le_refl _
    have hne : ∀ i, i < c2.toArray.size → c2.toArray.getD i [] ≠ [] ∧ ∀ c ∈ c2.toArray.getD i [], c < 23 := by
      intro i hi
      rw [hcsz] at hi
      have : c2.toArray.getD i [] = c2[i] := by simp [Array.getD, hi]
      rw [this]
      exact h23 _ (List.getElem_mem hi)
    obtain ⟨N, hN, hmem, _⟩ := recAlnC_treeL ap T c2.toArray hleaves' hne hML _ (.refl _)
      (Kmeans.Tree.nint T) hnint
    rw [hN]
    simp only
    have hall : ∀ i ∈ List.range c2.length, ∃ g, finalGaps N.group i = some g ∧ True := by
      intro i hi
      have hi' : i ∈ (label T c2.toArray.size).leaves := by
        unfold label
        rw [(labelFrom_spec T c2.toArray.size).2.1]
        exact (hleaves i).2 (List.mem_range.1 hi)
      obtain ⟨g, hg⟩ := find_membersC N _ hmem i hi'
      exact ⟨g, hg, trivial⟩
    obtain ⟨gs, hgs, _⟩ := mapM_option_spec (finalGaps N.group) (fun _ => True) (List.range c2.length) hall
    rw [hgs]
    simp

theorem stagesCB_cases (build : Array (List Nat) → Except PipeErr (Array (Nat × Nat × Nat))) (bio : Bio)
    (pm : Bio → Option (AlnParam α)) (V : List (Name × List Char)) (hV : ∀ x ∈ V, x.2 ≠ [])
    (hbuild : 2 ≤ V.length → ∃ T : Tree,
      build ((V.map fun x => bytesOf x.2).map (convertN (treeAlphabet bio))).toArray =
        .ok (Kmeans.sortTasks (treeTasks T
          ((V.map fun x => bytesOf x.2).map (convertN (treeAlphabet bio))).toArray.size)).toArray ∧
      T.leaves.Perm (List.range ((V.map fun x => bytesOf x.2).map (convertN (treeAlphabet bio))).toArray.size))
    (hM : ∀ ap T, pm bio = some ap →
        build ((V.map fun x => bytesOf x.2).map (convertN (treeAlphabet bio))).toArray =
          .ok (Kmeans.sortTasks (treeTasks T
            ((V.map fun x => bytesOf x.2).map (convertN (treeAlphabet bio))).toArray.size)).toArray →
        T.leaves.Perm (List.range ((V.map fun x => bytesOf x.2).map (convertN (treeAlphabet bio))).toArray.size) →
        MonHypL ap ((V.map fun x => bytesOf x.2).map (convertN (alnAlphabet bio))).toArray T.leaves) :
    stagesCB build bio pm V ≠ .error .fuel ∧ stagesCB build bio pm V ≠ .error .tree ∧
    stagesCB build bio pm V ≠ .error .fault ∧ stagesCB build bio pm V ≠ .error .monitor := by
  have hcore := coreCB_cases build (pm bio) ((V.map fun x => bytesOf x.2).map (convertN (treeAlphabet bio)))
    ((V.map fun x => bytesOf x.2).map (convertN (alnAlphabet bio))) (by simp)
    (by
      intro s hs
      simp only [List.map_map, List.mem_map, Function.comp_apply] at hs
      obtain ⟨x, hx, rfl⟩ := hs
      refine ⟨?_, ?_⟩
      · intro h0
        have := congrArg List.length h0
        rw [length_convertN] at this
        simp only [bytesOf, List.length_map, List.length_nil] at this
        exact hV x hx (List.length_eq_zero_iff.1 this)
      · intro c hc
        rcases alnAlphabet_cases bio with h | h
        · have := convertN_lt 5 (Or.inl rfl) (bytesOf x.2) c (by rw [← h]; exact hc); omega
        · exact convertN_lt 23 (Or.inr (Or.inr rfl)) (bytesOf x.2) c (by rw [← h]; exact hc))
    (by intro h2; exact hbuild (by simpa using h2)) hM
  unfold stagesCB
  cases bio with
  | unknown => exact ⟨by simp, by simp, by simp, by simp⟩
  | protein =>
    simp only
    cases hc : coreCB build (pm Bio.protein)
        (List.map (convertN (treeAlphabet Bio.protein)) (List.map (fun x => bytesOf x.2) V))
        (List.map (convertN (alnAlphabet Bio.protein)) (List.map (fun x => bytesOf x.2) V)) with
    | ok g => exact ⟨by simp, by simp, by simp, by simp⟩
    | error e =>
      rw [hc] at hcore
      simp only [ne_eq, Except.error.injEq] at hcore ⊢
      exact hcore
  | dna =>
    simp only
    cases hc : coreCB build (pm Bio.dna)
        (List.map (convertN (treeAlphabet Bio.dna)) (List.map (fun x => bytesOf x.2) V))
        (List.map (convertN (alnAlphabet Bio.dna)) (List.map (fun x => bytesOf x.2) V)) with
    | ok g => exact ⟨by simp, by simp, by simp, by simp⟩
    | error e =>
      rw [hc] at hcore
      simp only [ne_eq, Except.error.injEq] at hcore ⊢
      exact hcore

theorem kalignRunWithCB_cases (build : Array (List Nat) → Except PipeErr (Array (Nat × Nat × Nat)))
    (pm : Bio → Option (AlnParam α)) (inp : List InSeq)
    (hbuild : ∀ c, canon inp = some c → 2 ≤ (view c).length → ∃ T : Tree,
      build (treeCodes (bioOf detectF inp) c) =
        .ok (Kmeans.sortTasks (treeTasks T (treeCodes (bioOf detectF inp) c).size)).toArray ∧
      T.leaves.Perm (List.range (treeCodes (bioOf detectF inp) c).size))
    (hM : ∀ c ap T, canon inp = some c → pm (bioOf detectF inp) = some ap →
        build (treeCodes (bioOf detectF inp) c) =
          .ok (Kmeans.sortTasks (treeTasks T (treeCodes (bioOf detectF inp) c).size)).toArray →
        T.leaves.Perm (List.range (treeCodes (bioOf detectF inp) c).size) →
        MonHypL ap (alnCodes (bioOf detectF inp) c) T.leaves) :
    kalignRunWithCB detectF build pm inp ≠ .error .fuel ∧ kalignRunWithCB detectF build pm inp ≠ .error .tree ∧
    kalignRunWithCB detectF build pm inp ≠ .error .fault ∧ kalignRunWithCB detectF build pm inp ≠ .error .monitor := by
  unfold kalignRunWithCB
  by_cases hb : hasBadByte inp = true
  · simp [hb]
  simp only [hb, Bool.false_eq_true, if_false]
  cases hc : canon inp with
  | none => simp
  | some c =>
    simp only
    have s3 := stagesCB_cases build (bioOf detectF inp) pm (view c) (canon_nonempty inp c hc)
      (fun h2 => hbuild c hc h2) (fun ap T hp hb hl => hM c ap T hc hp hb hl)
    cases hs : stagesCB build (bioOf detectF inp) pm (view c) with
    | ok rows => simp
    | error e =>
      rw [hs] at s3
      simp only [ne_eq, Except.error.injEq] at s3 ⊢
      exact s3

end Kalign.Pipeline
