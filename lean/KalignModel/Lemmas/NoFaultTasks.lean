import KalignModel.Lemmas.Kmeans
import KalignModel.Lemmas.Sort
/-!
# The sorted task table is the guide tree (task.c: `label_internal`, `create_tasks`, `sort_tasks`)

`label_internal` numbers the internal nodes `numseq, numseq+1, …` in post-order; `sort_tasks(TASK_ORDER_TREE)` sorts the
tasks by that number.  Hence entry `c - numseq` of the sorted table is the task of the node numbered `c`
(`sortedTasks_get`), its operands are the two children, children have smaller numbers, the last entry is the root.
This is what makes `recursive_aln` (which looks tasks up by `c - numseq`) a recursion over the tree: it never misses a task
and never needs more recursion depth than there are tasks.
-/
namespace Kalign.Kmeans
open Kalign Kalign.Sched

/-- ids of the internal nodes, post-order -/
def LTree.iids : LTree → List Nat
  | .leaf _ => []
  | .node c l r => LTree.iids l ++ LTree.iids r ++ [c]

/-- number of internal nodes -/
def Tree.nint : Tree → Nat
  | .leaf _ => 0
  | .node l r => Tree.nint l + Tree.nint r + 1

def LTree.nint : LTree → Nat
  | .leaf _ => 0
  | .node _ l r => LTree.nint l + LTree.nint r + 1

theorem LTree.length_iids (t : LTree) : (LTree.iids t).length = LTree.nint t := by
  induction t with
  | leaf i => rfl
  | node c l r ihl ihr => simp [LTree.iids, LTree.nint, ihl, ihr]; omega

/-- `label_internal` hands out consecutive numbers in post-order -/
theorem labelFrom_iids (T : Tree) (n : Nat) :
    LTree.iids (labelFrom T n).1 = List.range' n (Tree.nint T) ∧ (labelFrom T n).2 = n + Tree.nint T ∧
      LTree.nint (labelFrom T n).1 = Tree.nint T := by
  induction T generalizing n with
  | leaf i => simp [labelFrom, LTree.iids, Tree.nint, LTree.nint]
  | node l r ihl ihr =>
    obtain ⟨a1, a2, a3⟩ := ihl n
    obtain ⟨b1, b2, b3⟩ := ihr (labelFrom l n).2
    rw [a2] at b1 b2 b3
    refine ⟨?_, ?_, ?_⟩
    · simp only [labelFrom, LTree.iids, a1, a2, b1, b2, Tree.nint]
      have e1 : List.range' n (Tree.nint l) ++ List.range' (n + Tree.nint l) (Tree.nint r) =
          List.range' n (Tree.nint l + Tree.nint r) := by
        have := @List.range'_append n (Tree.nint l) (Tree.nint r) 1
        rw [Nat.one_mul] at this
        exact this
      have e2 : List.range' n (Tree.nint l + Tree.nint r) ++ [n + Tree.nint l + Tree.nint r] =
          List.range' n (Tree.nint l + Tree.nint r + 1) := by
        have := @List.range'_append n (Tree.nint l + Tree.nint r) 1 1
        simp only [Nat.one_mul] at this
        rw [← this]
        simp [List.range', Nat.add_assoc]
      rw [e1, e2]
    · simp only [labelFrom, a2, b2, Tree.nint]; omega
    · simp only [labelFrom, LTree.nint, a2, a3, b3, Tree.nint]

theorem createTasks_c_perm (L : LTree) : ((createTasks L).map (·.2.2)).Perm (LTree.iids L) := by
  induction L with
  | leaf i => simp [createTasks, LTree.iids]
  | node c l r ihl ihr =>
    simp only [createTasks, LTree.iids, List.map_cons, List.map_append]
    have := (ihl.append ihr)
    exact (List.Perm.cons c this).trans (List.perm_append_singleton _ _).symm

theorem mem_createTasks' {v L : LTree} (h : LTree.Sub v L) :
    ∀ (c : Nat) (l r : LTree), v = .node c l r → (l.id, r.id, c) ∈ createTasks L := by
  induction h with
  | refl => intro c l r e; subst e; simp [createTasks]
  | left _ ih =>
    intro c l r e
    simp only [createTasks, List.mem_cons, List.mem_append]; exact Or.inr (Or.inl (ih c l r e))
  | right _ ih =>
    intro c l r e
    simp only [createTasks, List.mem_cons, List.mem_append]; exact Or.inr (Or.inr (ih c l r e))

theorem mem_createTasks {L : LTree} {c : Nat} {l r : LTree} (h : LTree.Sub (.node c l r) L) :
    (l.id, r.id, c) ∈ createTasks L := mem_createTasks' h c l r rfl

theorem sub_id_mem_iids' {v L : LTree} (h : LTree.Sub v L) :
    ∀ (c : Nat) (l r : LTree), v = .node c l r → c ∈ LTree.iids L := by
  induction h with
  | refl => intro c l r e; subst e; simp [LTree.iids]
  | left _ ih =>
    intro c l r e
    simp only [LTree.iids, List.mem_append]; exact Or.inl (Or.inl (ih c l r e))
  | right _ ih =>
    intro c l r e
    simp only [LTree.iids, List.mem_append]; exact Or.inl (Or.inr (ih c l r e))

theorem sub_id_mem_iids {L : LTree} {c : Nat} {l r : LTree} (h : LTree.Sub (.node c l r) L) : c ∈ LTree.iids L :=
  sub_id_mem_iids' h c l r rfl

/-- post-order numbering: the numbers inside the two sub-trees of a node are smaller than the node's own -/
theorem labelFrom_child_lt (T : Tree) (n : Nat) :
    ∀ (c : Nat) (l r : LTree), LTree.Sub (.node c l r) (labelFrom T n).1 →
      ∀ x ∈ LTree.iids l ++ LTree.iids r, x < c := by
  induction T generalizing n with
  | leaf i =>
    intro c l r h
    simp only [labelFrom] at h
    cases h
  | node lt rt ihl ihr =>
    intro c l r h x hx
    simp only [labelFrom] at h
    obtain ⟨a1, a2, _⟩ := labelFrom_iids lt n
    obtain ⟨b1, b2, _⟩ := labelFrom_iids rt (labelFrom lt n).2
    cases h with
    | refl =>
      rw [a1, b1] at hx
      rcases List.mem_append.1 hx with h | h <;> rw [List.mem_range'_1] at h <;> omega
    | left h' => exact ihl n c l r h' x hx
    | right h' => exact ihr _ c l r h' x hx

theorem LTree.id_mem_iids (c : Nat) (l r : LTree) : c ∈ LTree.iids (.node c l r) := by simp [LTree.iids]

/-! ## the merge sort sorts -/

def TaskLE (a b : Nat × Nat × Nat) : Prop := a.2.2 ≤ b.2.2

theorem mergeBy_sorted (l r : List (Nat × Nat × Nat)) (hl : l.Pairwise TaskLE) (hr : r.Pairwise TaskLE) :
    (mergeBy taskTakeLeft l r).Pairwise TaskLE := by
  induction l, r using mergeBy.induct taskTakeLeft with
  | case1 r => simpa [mergeBy] using hr
  | case2 l h => simpa [mergeBy] using hl
  | case3 a l b r h ih =>
    rw [mergeBy]; simp only [h, if_true]
    have hab : a.2.2 < b.2.2 := by simpa [taskTakeLeft] using h
    rw [List.pairwise_cons] at hl hr ⊢
    refine ⟨?_, ih hl.2 (List.pairwise_cons.2 hr)⟩
    intro x hx
    have := (mergeBy_perm taskTakeLeft l (b :: r)).mem_iff.1 hx
    rcases List.mem_append.1 this with h1 | h1
    · exact hl.1 x h1
    · rcases List.mem_cons.1 h1 with e | e
      · subst e; exact Nat.le_of_lt hab
      · have := hr.1 x e; unfold TaskLE at this ⊢; omega
  | case4 a l b r h ih =>
    rw [mergeBy, if_neg h]
    have hab : b.2.2 ≤ a.2.2 := by
      have : ¬ a.2.2 < b.2.2 := by simpa [taskTakeLeft] using h
      omega
    rw [List.pairwise_cons] at hl hr ⊢
    refine ⟨?_, ih (List.pairwise_cons.2 hl) hr.2⟩
    intro x hx
    have := (mergeBy_perm taskTakeLeft (a :: l) r).mem_iff.1 hx
    rcases List.mem_append.1 this with h1 | h1
    · rcases List.mem_cons.1 h1 with e | e
      · subst e; exact hab
      · have := hl.1 x e; unfold TaskLE at this ⊢; omega
    · exact hr.1 x h1

theorem msortBy_sorted (l : List (Nat × Nat × Nat)) : (msortBy taskTakeLeft l).Pairwise TaskLE := by
  induction l using msortBy.induct with
  | case1 l h =>
    rw [msortBy]; simp only [h, dite_true]
    match l, h with
    | [], _ => exact List.Pairwise.nil
    | [x], _ => exact List.pairwise_singleton _ _
    | _ :: _ :: _, h => simp at h
  | case2 l h ih1 ih2 =>
    rw [msortBy]; simp only [h, dite_false]
    exact mergeBy_sorted _ _ ih1 ih2

/-- the `c` column of the sorted table of a tree labelled from `n` is `n, n+1, …` -/
theorem sorted_c (T : Tree) (n : Nat) :
    (sortTasks (treeTasks T n)).map (·.2.2) = List.range' n (Tree.nint T) := by
  have hp : ((sortTasks (treeTasks T n)).map (·.2.2)).Perm (List.range' n (Tree.nint T)) := by
    have h1 := (msortBy_perm taskTakeLeft (treeTasks T n)).map (·.2.2)
    have h2 := createTasks_c_perm (label T n)
    rw [show LTree.iids (label T n) = List.range' n (Tree.nint T) from (labelFrom_iids T n).1] at h2
    exact h1.trans h2
  have hs : ((sortTasks (treeTasks T n)).map (·.2.2)).Pairwise (· ≤ ·) := by
    rw [List.pairwise_map]
    exact msortBy_sorted _
  have hr : (List.range' n (Tree.nint T)).Pairwise (· ≤ ·) :=
    (List.pairwise_lt_range' (s := n) (n := Tree.nint T) 1).imp (fun h => Nat.le_of_lt h)
  exact List.Perm.eq_of_pairwise (fun a b _ _ h1 h2 => Nat.le_antisymm h1 h2) hs hr hp

theorem length_sortTasks (T : Tree) (n : Nat) : (sortTasks (treeTasks T n)).length = Tree.nint T := by
  have := congrArg List.length (sorted_c T n)
  simpa using this

/-- **entry `c - n` of the sorted task table is the task of the node numbered `c`** -/
theorem sortedTasks_get (T : Tree) (n : Nat) {c : Nat} {l r : LTree} (h : LTree.Sub (.node c l r) (label T n)) :
    n ≤ c ∧ c < n + Tree.nint T ∧ (sortTasks (treeTasks T n))[c - n]? = some (l.id, r.id, c) := by
  have hc : c ∈ List.range' n (Tree.nint T) := by
    rw [← (labelFrom_iids T n).1]; exact sub_id_mem_iids h
  rw [List.mem_range'_1] at hc
  refine ⟨hc.1, hc.2, ?_⟩
  have hlen := length_sortTasks T n
  have hk : c - n < (sortTasks (treeTasks T n)).length := by omega
  rw [List.getElem?_eq_getElem hk]
  congr 1
  -- the entry at `c - n` has third component `c`
  have h3 : ((sortTasks (treeTasks T n))[c - n]).2.2 = c := by
    have := congrArg (fun l => l[c - n]?) (sorted_c T n)
    simp only [List.getElem?_map, List.getElem?_eq_getElem hk, Option.map_some] at this
    rw [List.getElem?_range' (by omega)] at this
    simp only [Option.some.injEq] at this
    omega
  -- it is a task of the tree, and tasks are determined by `c`
  have hmem : (sortTasks (treeTasks T n))[c - n] ∈ treeTasks T n :=
    (msortBy_perm taskTakeLeft _).mem_iff.1 (List.getElem_mem hk)
  have hnd : ((treeTasks T n).map (·.2.2)).Nodup := by
    have := createTasks_c_perm (label T n)
    rw [show LTree.iids (label T n) = List.range' n (Tree.nint T) from (labelFrom_iids T n).1] at this
    exact this.nodup_iff.2 (List.nodup_range' 1)
  exact eq_of_nodup_map hnd hmem (mem_createTasks h) h3

/-- a proper sub-node is not the last task -/
theorem proper_sub_lt (T : Tree) (n : Nat) {c c' : Nat} {l r l' r' : LTree}
    (hroot : label T n = .node c l r) (h : LTree.Sub (.node c' l' r') l ∨ LTree.Sub (.node c' l' r') r) :
    c' < c ∧ c = n + Tree.nint T - 1 := by
  have hi := (labelFrom_iids T n).1
  have hl : LTree.iids (label T n) = LTree.iids l ++ LTree.iids r ++ [c] := by rw [hroot]; rfl
  unfold label at hl
  rw [hi] at hl
  have hlen := congrArg List.length hl
  simp only [List.length_range', List.length_append, List.length_cons, List.length_nil] at hlen
  have hc : c = n + Tree.nint T - 1 := by
    have := congrArg (fun l => l[Tree.nint T - 1]?) hl
    rw [List.getElem?_range' (by omega), List.getElem?_append_right (by simp; omega)] at this
    simp only [List.length_append] at this
    rw [show Tree.nint T - 1 - ((LTree.iids l).length + (LTree.iids r).length) = 0 by omega] at this
    simp at this
    omega
  refine ⟨?_, hc⟩
  have hmem : c' ∈ LTree.iids l ++ LTree.iids r := by
    rcases h with h | h
    · exact List.mem_append.2 (Or.inl (sub_id_mem_iids h))
    · exact List.mem_append.2 (Or.inr (sub_id_mem_iids h))
  have hnd : (LTree.iids l ++ LTree.iids r ++ [c]).Nodup := by rw [← hl]; exact List.nodup_range' 1
  have hne : c' ≠ c := by
    intro e
    have := (List.nodup_append.1 hnd).2.2 c' hmem c (by simp)
    exact this e
  have hin : c' ∈ List.range' n (Tree.nint T) := by rw [hl]; exact List.mem_append.2 (Or.inl hmem)
  rw [List.mem_range'_1] at hin
  omega

/-- the root of a labelled tree with at least one internal node carries the largest number -/
theorem label_node (l r : Tree) (n : Nat) :
    ∃ L R, label (.node l r) n = .node (n + Tree.nint (.node l r) - 1) L R := by
  refine ⟨(labelFrom l n).1, (labelFrom r (labelFrom l n).2).1, ?_⟩
  obtain ⟨_, a2, _⟩ := labelFrom_iids l n
  obtain ⟨_, b2, _⟩ := labelFrom_iids r (labelFrom l n).2
  simp only [label, labelFrom, Tree.nint]
  congr 1
  rw [b2, a2]; omega

end Kalign.Kmeans
