import KalignModel.Model.Tree
/-!
# The Float32 `upgma` (Model/Tree.lean) does not fault — up to one fact about `<` on binary32

`upgma` faults (`none`) when the scan for the minimum finds no active pair with an entry below `FLT_MAX` (the C code would
then reuse stale `node_a/node_b`), or when a joined slot holds no tree.  Everything combinatorial is proved here for
arbitrary matrices: the scan returns an active pair `a < b < n` whenever it finds something (`scan_inv`), it finds
something as soon as **one** active pair has an entry below `FLT_MAX` (`scan_found`), the active slots are exactly the slots
holding a tree, their number drops by one per round, and the final tree has exactly the samples as leaves
(`upgma_some`).  The remaining hypothesis `hbelow` says that in every matrix the rounds reach, the entries of active pairs
are `< FLT_MAX` — a statement about binary32 arithmetic (`(x+y)*0.5F+0.001F` of distances stays finite) that core Lean cannot
decide because `Float32` operations are opaque to the kernel.
-/
namespace Kalign

theorem foldl_inv {σ ι : Type} (f : σ → ι → σ) (P : σ → Prop) (l : List ι)
    (h : ∀ s x, x ∈ l → P s → P (f s x)) (s0 : σ) (h0 : P s0) : P (l.foldl f s0) := by
  induction l generalizing s0 with
  | nil => exact h0
  | cons x xs ih =>
    rw [List.foldl_cons]
    exact ih (fun s y hy => h s y (List.mem_cons_of_mem _ hy)) _ (h s0 x List.mem_cons_self h0)

/-- if the step at `x ∈ l` establishes `G` from any state satisfying `P`, and later steps keep `G`, the fold ends in `G` -/
theorem foldl_reach {σ ι : Type} (f : σ → ι → σ) (P G : σ → Prop) (l : List ι) (x : ι) (hx : x ∈ l)
    (hP : ∀ s y, y ∈ l → P s → P (f s y)) (hG : ∀ s y, y ∈ l → P s → G s → G (f s y))
    (hstep : ∀ s, P s → G (f s x)) (s0 : σ) (h0 : P s0) : G (l.foldl f s0) := by
  induction l generalizing s0 with
  | nil => cases hx
  | cons y ys ih =>
    rw [List.foldl_cons]
    rcases List.mem_cons.1 hx with e | e
    · subst e
      have hp1 : P (f s0 x) := hP s0 x List.mem_cons_self h0
      have hg1 : G (f s0 x) := hstep s0 h0
      have : P (ys.foldl f (f s0 x)) ∧ G (ys.foldl f (f s0 x)) := by
        refine foldl_inv f (fun s => P s ∧ G s) ys ?_ _ ⟨hp1, hg1⟩
        intro s y hy ⟨h1, h2⟩
        exact ⟨hP s y (List.mem_cons_of_mem _ hy) h1, hG s y (List.mem_cons_of_mem _ hy) h1 h2⟩
      exact this.2
    · exact ih e (fun s y hy => hP s y (List.mem_cons_of_mem _ hy))
        (fun s y hy => hG s y (List.mem_cons_of_mem _ hy)) _ (hP s0 y List.mem_cons_self h0)

/-! ## counting active slots (copies of the helper lemmas of Lemmas/Upgma.lean, which cannot be imported together with the
Hirschberg lemma files) -/

theorem nf_exists_two_active (n : Nat) (act : Nat → Bool) (h : 2 ≤ ((List.range n).filter act).length) :
    ∃ i j, i < j ∧ j < n ∧ act i = true ∧ act j = true := by
  have hp : ((List.range n).filter act).Pairwise (· < ·) := List.Pairwise.filter _ List.pairwise_lt_range
  match hl : (List.range n).filter act, h with
  | x :: y :: rest, _ =>
    rw [hl] at hp
    have hxy : x < y := (List.pairwise_cons.1 hp).1 y List.mem_cons_self
    have hx : x ∈ (List.range n).filter act := by rw [hl]; exact List.mem_cons_self
    have hy : y ∈ (List.range n).filter act := by rw [hl]; exact List.mem_cons_of_mem _ List.mem_cons_self
    rw [List.mem_filter, List.mem_range] at hx hy
    exact ⟨x, y, hxy, hy.1, hx.2, hy.2⟩

theorem nf_filter_deactivate (l : List Nat) (act : Nat → Bool) (b : Nat) (hnd : l.Nodup) (hb : b ∈ l) (hact : act b = true) :
    (l.filter fun i => if i = b then false else act i).length + 1 = (l.filter act).length := by
  induction l with
  | nil => cases hb
  | cons x l ih =>
    have hnd' := List.nodup_cons.1 hnd
    by_cases hx : x = b
    · subst hx
      have : l.filter (fun i => if i = x then false else act i) = l.filter act := by
        apply List.filter_congr
        intro y hy
        have : y ≠ x := fun h => hnd'.1 (h ▸ hy)
        simp [this]
      rw [List.filter_cons_of_neg (by simp), List.filter_cons_of_pos hact, this, List.length_cons]
    · have hb' : b ∈ l := by
        rcases List.mem_cons.1 hb with h | h
        · exact absurd h.symm hx
        · exact h
      have := ih hnd'.2 hb'
      by_cases hax : act x = true
      · rw [List.filter_cons_of_pos (by simp [hx, hax]), List.filter_cons_of_pos hax, List.length_cons,
          List.length_cons]
        omega
      · rw [List.filter_cons_of_neg (by simp [hx, hax]), List.filter_cons_of_neg hax]
        exact this

theorem nf_unique_active (n : Nat) (act : Nat → Bool) (h : ((List.range n).filter act).length = 1) (i j : Nat)
    (hi : i < n) (hj : j < n) (hai : act i = true) (haj : act j = true) : i = j := by
  match hl : (List.range n).filter act, h with
  | [z], _ =>
    have h1 : i ∈ (List.range n).filter act := List.mem_filter.2 ⟨List.mem_range.2 hi, hai⟩
    have h2 : j ∈ (List.range n).filter act := List.mem_filter.2 ⟨List.mem_range.2 hj, haj⟩
    rw [hl, List.mem_singleton] at h1 h2
    rw [h1, h2]

/-! ## the scan -/

structure ScanInv (n : Nat) (act : Array Bool) (s : Scan) : Prop where
  fresh : s.found = false → s.mx = FLT_MAX
  ok : s.found = true → s.a < s.b ∧ s.b < n ∧ act.getD s.a false = true ∧ act.getD s.b false = true

def scanInner (dm : FMat) (act : Array Bool) (i : Nat) (s : Scan) (j : Nat) : Scan :=
  if act.getD j false then
    if dm.get i j < s.mx then { mx := dm.get i j, a := i, b := j, found := true } else s
  else s

def scanOuter (n : Nat) (dm : FMat) (act : Array Bool) (s : Scan) (i : Nat) : Scan :=
  if act.getD i false then (List.range' (i + 1) (n - (i + 1))).foldl (scanInner dm act i) s else s

theorem scanMin_eq (n : Nat) (dm : FMat) (act : Array Bool) :
    scanMin n dm act = (List.range (n - 1)).foldl (scanOuter n dm act) { mx := FLT_MAX, a := 0, b := 0, found := false } :=
  rfl

theorem scanInner_inv (n : Nat) (dm : FMat) (act : Array Bool) (i j : Nat) (hi : act.getD i false = true) (hij : i < j)
    (hj : j < n) (s : Scan) (h : ScanInv n act s) : ScanInv n act (scanInner dm act i s j) := by
  unfold scanInner
  split
  · rename_i haj
    split
    · exact ⟨(fun h => by cases h), fun _ => ⟨hij, hj, hi, haj⟩⟩
    · exact h
  · exact h

theorem scanOuter_inv (n : Nat) (dm : FMat) (act : Array Bool) (i : Nat) (s : Scan) (h : ScanInv n act s) :
    ScanInv n act (scanOuter n dm act s i) := by
  unfold scanOuter
  split
  · rename_i hi
    refine foldl_inv _ (ScanInv n act) _ ?_ s h
    intro s' j hj hs'
    rw [List.mem_range'_1] at hj
    exact scanInner_inv n dm act i j hi (by omega) (by omega) s' hs'
  · exact h

/-- whatever the comparisons answer: if the scan reports a pair, it is an active pair `a < b < n` -/
theorem scan_inv (n : Nat) (dm : FMat) (act : Array Bool) : ScanInv n act (scanMin n dm act) := by
  rw [scanMin_eq]
  exact foldl_inv _ (ScanInv n act) _ (fun s i _ hs => scanOuter_inv n dm act i s hs) _
    ⟨fun _ => rfl, fun h => by cases h⟩

theorem scanInner_found (dm : FMat) (act : Array Bool) (i j : Nat) (s : Scan) (h : s.found = true) :
    (scanInner dm act i s j).found = true := by
  unfold scanInner
  split
  · split
    · rfl
    · exact h
  · exact h

theorem scanOuter_found (n : Nat) (dm : FMat) (act : Array Bool) (i : Nat) (s : Scan) (h : s.found = true) :
    (scanOuter n dm act s i).found = true := by
  unfold scanOuter
  split
  · exact foldl_inv _ (fun s => s.found = true) _ (fun s' j _ hs' => scanInner_found dm act i j s' hs') s h
  · exact h

/-- the scan finds a pair as soon as one active pair has an entry below `FLT_MAX` -/
theorem scan_found (n : Nat) (dm : FMat) (act : Array Bool) (i j : Nat) (hij : i < j) (hj : j < n)
    (hai : act.getD i false = true) (haj : act.getD j false = true) (hlt : dm.get i j < FLT_MAX) :
    (scanMin n dm act).found = true := by
  rw [scanMin_eq]
  refine foldl_reach (scanOuter n dm act) (ScanInv n act) (fun s => s.found = true) _ i
    (List.mem_range.2 (by omega)) (fun s y _ hs => scanOuter_inv n dm act y s hs)
    (fun s y _ _ hg => scanOuter_found n dm act y s hg) ?_ _ ⟨fun _ => rfl, fun h => by cases h⟩
  intro s hs
  unfold scanOuter
  rw [if_pos hai]
  refine foldl_reach (scanInner dm act i) (ScanInv n act) (fun s => s.found = true) _ j
    (by rw [List.mem_range'_1]; omega)
    (fun s y hy hs => by
      rw [List.mem_range'_1] at hy
      exact scanInner_inv n dm act i y hai (by omega) (by omega) s hs)
    (fun s y _ _ hg => scanInner_found dm act i y s hg) ?_ s hs
  intro s' hs'
  unfold scanInner
  rw [if_pos haj]
  cases hf : s'.found with
  | true =>
    split
    · rfl
    · exact hf
  | false =>
    rw [hs'.fresh hf, if_pos hlt]

/-! ## the rounds -/

theorem getD_setIfInBounds {α : Type} (a : Array α) (i j : Nat) (v d : α) (hi : i < a.size) :
    (a.setIfInBounds i v).getD j d = if j = i then v else a.getD j d := by
  simp only [Array.getD_eq_getD_getElem?, Array.getElem?_setIfInBounds]
  by_cases h : j = i
  · subst h; simp [hi]
  · have : ¬ i = j := fun e => h e.symm
    simp [h, this]

/-- every active pair of the matrix has an entry below `FLT_MAX` -/
def AllBelow (n : Nat) (s : UpgmaSt) : Prop :=
  ∀ i j, i < j → j < n → s.act.getD i false = true → s.act.getD j false = true → s.dm.get i j < FLT_MAX

structure UInv (n : Nat) (samples : List Nat) (k : Nat) (s : UpgmaSt) : Prop where
  tsize : s.tree.size = n
  asize : s.act.size = n
  sync : ∀ i, i < n → s.act.getD i false = (s.tree.getD i none).isSome
  count : ((List.range n).filter fun i => s.act.getD i false).length + k = n
  leaves : ∀ x, x ∈ samples ↔ ∃ i, i < n ∧ ∃ t, s.tree.getD i none = some t ∧ x ∈ t.leaves
  last : s.last < n ∧ s.act.getD s.last false = true

/-- one round: succeeds when the scan finds a pair, and keeps the invariant -/
theorem upgmaRound_inv (n : Nat) (samples : List Nat) (k : Nat) (s : UpgmaSt) (h : UInv n samples k s)
    (hfound : (scanMin n s.dm s.act).found = true) :
    ∃ s', upgmaRound n s = some s' ∧ UInv n samples (k + 1) s' := by
  obtain ⟨hab, hbn, haa, hab'⟩ := (scan_inv n s.dm s.act).ok hfound
  have han : (scanMin n s.dm s.act).a < n := by omega
  have hta := h.sync _ han
  have htb := h.sync _ hbn
  rw [haa] at hta
  rw [hab'] at htb
  obtain ⟨ta, hta'⟩ := Option.isSome_iff_exists.1 hta.symm
  obtain ⟨tb, htb'⟩ := Option.isSome_iff_exists.1 htb.symm
  unfold upgmaRound
  simp only [hfound, Bool.not_true, Bool.false_eq_true, if_false, hta', htb']
  refine ⟨_, rfl, ?_⟩
  generalize (scanMin n s.dm s.act).a = a at *
  generalize (scanMin n s.dm s.act).b = b at *
  have hne : a ≠ b := by omega
  have hact : ∀ i, (s.act.setIfInBounds b false).getD i false = if i = b then false else s.act.getD i false :=
    fun i => getD_setIfInBounds _ _ _ _ _ (by rw [h.asize]; exact hbn)
  have htree : ∀ i, ((s.tree.setIfInBounds a (some (.node ta tb))).setIfInBounds b none).getD i none =
      if i = b then none else if i = a then some (.node ta tb) else s.tree.getD i none := by
    intro i
    rw [getD_setIfInBounds _ _ _ _ _ (by simp [h.tsize]; exact hbn),
      getD_setIfInBounds _ _ _ _ _ (by rw [h.tsize]; exact han)]
  refine ⟨by simp [h.tsize], by simp [h.asize], ?_, ?_, ?_, ?_⟩
  · intro i hi
    simp only [hact, htree]
    by_cases h1 : i = b
    · simp [h1]
    · by_cases h2 : i = a
      · subst h2; simp [h1, haa]
      · simp [h1, h2, h.sync i hi]
  · have h1 := nf_filter_deactivate (List.range n) (fun i => s.act.getD i false) b List.nodup_range
      (List.mem_range.2 hbn) hab'
    have h2 : ((List.range n).filter fun i => (s.act.setIfInBounds b false).getD i false) =
        (List.range n).filter fun i => if i = b then false else s.act.getD i false := by
      apply List.filter_congr
      intro i _
      exact hact i
    have h3 := h.count
    rw [h2]
    omega
  · intro x
    rw [h.leaves x]
    constructor
    · rintro ⟨i, hi, t, ht, hx⟩
      by_cases h1 : i = a
      · subst h1
        rw [hta'] at ht; cases ht
        exact ⟨i, hi, .node ta tb, by simp [htree, hne], by simp [GTree.leaves, hx]⟩
      · by_cases h2 : i = b
        · subst h2
          rw [htb'] at ht; cases ht
          exact ⟨a, han, .node ta tb, by simp [htree, hne], by simp [GTree.leaves, hx]⟩
        · exact ⟨i, hi, t, by simp [htree, h1, h2, ht], hx⟩
    · rintro ⟨i, hi, t, ht, hx⟩
      rw [htree] at ht
      by_cases h2 : i = b
      · simp [h2] at ht
      · by_cases h1 : i = a
        · subst h1
          simp only [hne, if_false, if_true, Option.some.injEq] at ht
          subst ht
          simp only [GTree.leaves, List.mem_append] at hx
          rcases hx with hx | hx
          · exact ⟨i, hi, ta, hta', hx⟩
          · exact ⟨b, hbn, tb, htb', hx⟩
        · simp only [h2, if_false, h1] at ht
          exact ⟨i, hi, t, ht, hx⟩
  · refine ⟨han, ?_⟩
    simp only
    rw [hact, if_neg hne, haa]

/-- the state `upgma` starts from -/
def upgmaInit (dm : List (List Float32)) (samples : List Nat) : UpgmaSt :=
  { dm := (dm.map List.toArray).toArray, act := Array.replicate samples.length true,
    tree := (samples.map fun i => some (GTree.leaf i)).toArray, last := 0 }

theorem upgma_eq (dm : List (List Float32)) (samples : List Nat) (hn : samples.length ≠ 0) :
    upgma dm samples = (iterOpt (upgmaRound samples.length) (samples.length - 1) (upgmaInit dm samples)).bind
      fun st => st.tree.getD st.last none := by
  unfold upgma upgmaInit
  simp only [hn, if_false]

theorem upgmaInit_inv (dm : List (List Float32)) (samples : List Nat) (hn : samples.length ≠ 0) :
    UInv samples.length samples 0 (upgmaInit dm samples) := by
  refine ⟨by simp [upgmaInit], by simp [upgmaInit], ?_, ?_, ?_, ?_⟩
  · intro i hi
    simp [upgmaInit, Array.getD, hi]
  · have : ((List.range samples.length).filter fun i => (upgmaInit dm samples).act.getD i false) =
        List.range samples.length := by
      rw [List.filter_eq_self]
      intro i hi
      simp [upgmaInit, Array.getD, List.mem_range.1 hi]
    rw [this]; simp
  · intro x
    constructor
    · intro hx
      obtain ⟨i, hi, e⟩ := List.getElem_of_mem hx
      exact ⟨i, hi, .leaf x, by simp [upgmaInit, Array.getD, hi, e], by simp [GTree.leaves]⟩
    · rintro ⟨i, hi, t, ht, hx⟩
      have e : (upgmaInit dm samples).tree.getD i none = some (.leaf samples[i]) := by
        simp [upgmaInit, Array.getD, hi]
      rw [e] at ht
      simp only [Option.some.injEq] at ht
      subst ht
      simp only [GTree.leaves, List.mem_singleton] at hx
      subst hx
      exact List.getElem_mem hi
  · refine ⟨by simp [upgmaInit]; omega, ?_⟩
    simp [upgmaInit, Array.getD]; omega

theorem iterOpt_succ_right {σ : Type} (f : σ → Option σ) (k : Nat) (s : σ) :
    iterOpt f (k + 1) s = (iterOpt f k s).bind f := by
  induction k generalizing s with
  | zero => simp [iterOpt]
  | succ k ih =>
    rw [iterOpt]
    cases hf : f s with
    | none => simp [iterOpt, hf]
    | some s1 =>
      simp only [Option.bind_some]
      rw [ih s1]
      conv => rhs; rw [iterOpt, hf]; simp only [Option.bind_some]

/-- all rounds succeed when in every matrix reached the active pairs are below `FLT_MAX` -/
theorem upgma_rounds (dm : List (List Float32)) (samples : List Nat) (hn : samples.length ≠ 0)
    (hbelow : ∀ j s, j + 1 < samples.length → iterOpt (upgmaRound samples.length) j (upgmaInit dm samples) = some s →
      AllBelow samples.length s) :
    ∀ k, k + 1 ≤ samples.length → ∃ s, iterOpt (upgmaRound samples.length) k (upgmaInit dm samples) = some s ∧
      UInv samples.length samples k s := by
  intro k
  induction k with
  | zero => intro _; exact ⟨_, rfl, upgmaInit_inv dm samples hn⟩
  | succ k ih =>
    intro hk
    obtain ⟨s, hs, hinv⟩ := ih (by omega)
    have hcount := hinv.count
    obtain ⟨i, j, hij, hj, hai, haj⟩ := nf_exists_two_active samples.length (fun i => s.act.getD i false) (by omega)
    have hf := scan_found samples.length s.dm s.act i j hij hj hai haj (hbelow k s (by omega) hs i j hij hj hai haj)
    obtain ⟨s', hs', hinv'⟩ := upgmaRound_inv samples.length samples k s hinv hf
    exact ⟨s', by rw [iterOpt_succ_right, hs]; exact hs', hinv'⟩

/-- **`upgma` returns a tree over exactly the samples** (no stale join, no NULL subtree) -/
theorem upgma_some (dm : List (List Float32)) (samples : List Nat) (hn : samples.length ≠ 0)
    (hbelow : ∀ j s, j + 1 < samples.length → iterOpt (upgmaRound samples.length) j (upgmaInit dm samples) = some s →
      AllBelow samples.length s) :
    ∃ t, upgma dm samples = some t ∧ ∀ x, x ∈ t.leaves ↔ x ∈ samples := by
  obtain ⟨s, hs, hinv⟩ := upgma_rounds dm samples hn hbelow (samples.length - 1) (by omega)
  have hl := hinv.last
  have hsome := hinv.sync _ hl.1
  rw [hl.2] at hsome
  obtain ⟨t, ht⟩ := Option.isSome_iff_exists.1 hsome.symm
  refine ⟨t, by rw [upgma_eq dm samples hn, hs]; exact ht, ?_⟩
  intro x
  rw [hinv.leaves x]
  constructor
  · intro hx; exact ⟨s.last, hl.1, t, ht, hx⟩
  · rintro ⟨i, hi, t', ht', hx⟩
    have hai : s.act.getD i false = true := by rw [hinv.sync i hi, ht']; rfl
    have hcount := hinv.count
    have := nf_unique_active samples.length (fun i => s.act.getD i false) (by omega) i s.last hi hl.1 hai hl.2
    subst this
    rw [ht] at ht'; cases ht'
    exact hx

/-- partial correctness without any hypothesis on the matrix: whatever state the rounds reach satisfies the invariant -/
theorem upgma_rounds_pc (dm : List (List Float32)) (samples : List Nat) (hn : samples.length ≠ 0) :
    ∀ k s, iterOpt (upgmaRound samples.length) k (upgmaInit dm samples) = some s → UInv samples.length samples k s := by
  intro k
  induction k with
  | zero =>
    intro s hs
    simp only [iterOpt, Option.some.injEq] at hs
    subst hs
    exact upgmaInit_inv dm samples hn
  | succ k ih =>
    intro s' hs'
    rw [iterOpt_succ_right] at hs'
    cases hk : iterOpt (upgmaRound samples.length) k (upgmaInit dm samples) with
    | none => rw [hk] at hs'; cases hs'
    | some s =>
      rw [hk, Option.bind_some] at hs'
      have hinv := ih s hk
      have hf : (scanMin samples.length s.dm s.act).found = true := by
        cases hfd : (scanMin samples.length s.dm s.act).found with
        | true => rfl
        | false => simp [upgmaRound, hfd] at hs'
      obtain ⟨s'', h1, h2⟩ := upgmaRound_inv samples.length samples k s hinv hf
      rw [h1] at hs'
      cases hs'
      exact h2

/-- **whenever `upgma` returns a tree, its leaves are exactly the samples** (any matrix, NaN included) -/
theorem upgma_leaves (dm : List (List Float32)) (samples : List Nat) (t : GTree) (h : upgma dm samples = some t) :
    ∀ x, x ∈ t.leaves ↔ x ∈ samples := by
  have hn : samples.length ≠ 0 := by
    intro h0
    simp [upgma, h0] at h
  rw [upgma_eq dm samples hn] at h
  cases hk : iterOpt (upgmaRound samples.length) (samples.length - 1) (upgmaInit dm samples) with
  | none => rw [hk] at h; cases h
  | some s =>
    rw [hk, Option.bind_some] at h
    have hinv := upgma_rounds_pc dm samples hn _ s hk
    have hl := hinv.last
    intro x
    rw [hinv.leaves x]
    constructor
    · intro hx; exact ⟨s.last, hl.1, t, h, hx⟩
    · rintro ⟨i, hi, t', ht', hx⟩
      have hai : s.act.getD i false = true := by rw [hinv.sync i hi, ht']; rfl
      have hcount := hinv.count
      have := nf_unique_active samples.length (fun i => s.act.getD i false) (by omega) i s.last hi hl.1 hai hl.2
      subst this
      rw [h] at ht'; cases ht'
      exact hx

end Kalign
