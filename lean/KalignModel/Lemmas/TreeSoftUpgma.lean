import KalignModel.Model.TreeSoft
import KalignModel.Lemmas.NoFaultUpgma
/-!
# The `SoftF32` `upgmaS` (Model/TreeSoft.lean): combinatorics of the rounds

The lemmas of Lemmas/NoFaultUpgma.lean (scan invariant, round invariant `UInv`, `upgma_some`, `upgma_leaves`) and the
distinct-leaves part of Lemmas/C10Tree.lean (`UNd`, `upgma_leaves_nodup`), repeated for the `SoftF32` twin (names with suffix `S`);
the generic helpers (`foldl_inv`, `foldl_reach`, `nf_*`, `getD_setIfInBounds`, `iterOpt_succ_right`) are shared.  Nothing here
depends on the values in the matrix; the value part (entries stay bounded, hence below `FLT_MAX`) is Lemmas/TreeSoftBound.lean.
-/
namespace Kalign

/-! ## the scan -/

structure ScanInvS (n : Nat) (act : Array Bool) (s : ScanS) : Prop where
  fresh : s.found = false → s.mx = SoftF32.fltMax
  ok : s.found = true → s.a < s.b ∧ s.b < n ∧ act.getD s.a false = true ∧ act.getD s.b false = true

def scanInnerS (dm : FMatS) (act : Array Bool) (i : Nat) (s : ScanS) (j : Nat) : ScanS :=
  if act.getD j false then
    if SoftF32.lt (dm.get i j) s.mx then { mx := dm.get i j, a := i, b := j, found := true } else s
  else s

def scanOuterS (n : Nat) (dm : FMatS) (act : Array Bool) (s : ScanS) (i : Nat) : ScanS :=
  if act.getD i false then (List.range' (i + 1) (n - (i + 1))).foldl (scanInnerS dm act i) s else s

theorem scanMin_eqS (n : Nat) (dm : FMatS) (act : Array Bool) :
    scanMinS n dm act = (List.range (n - 1)).foldl (scanOuterS n dm act) { mx := SoftF32.fltMax, a := 0, b := 0, found := false } :=
  rfl

theorem scanInner_invS (n : Nat) (dm : FMatS) (act : Array Bool) (i j : Nat) (hi : act.getD i false = true) (hij : i < j)
    (hj : j < n) (s : ScanS) (h : ScanInvS n act s) : ScanInvS n act (scanInnerS dm act i s j) := by
  unfold scanInnerS
  split
  · rename_i haj
    split
    · exact ⟨(fun h => by cases h), fun _ => ⟨hij, hj, hi, haj⟩⟩
    · exact h
  · exact h

theorem scanOuter_invS (n : Nat) (dm : FMatS) (act : Array Bool) (i : Nat) (s : ScanS) (h : ScanInvS n act s) :
    ScanInvS n act (scanOuterS n dm act s i) := by
  unfold scanOuterS
  split
  · rename_i hi
    refine foldl_inv _ (ScanInvS n act) _ ?_ s h
    intro s' j hj hs'
    rw [List.mem_range'_1] at hj
    exact scanInner_invS n dm act i j hi (by omega) (by omega) s' hs'
  · exact h

/-- whatever the comparisons answer: if the scan reports a pair, it is an active pair `a < b < n` -/
theorem scan_invS (n : Nat) (dm : FMatS) (act : Array Bool) : ScanInvS n act (scanMinS n dm act) := by
  rw [scanMin_eqS]
  exact foldl_inv _ (ScanInvS n act) _ (fun s i _ hs => scanOuter_invS n dm act i s hs) _
    ⟨fun _ => rfl, fun h => by cases h⟩

theorem scanInner_foundS (dm : FMatS) (act : Array Bool) (i j : Nat) (s : ScanS) (h : s.found = true) :
    (scanInnerS dm act i s j).found = true := by
  unfold scanInnerS
  split
  · split
    · rfl
    · exact h
  · exact h

theorem scanOuter_foundS (n : Nat) (dm : FMatS) (act : Array Bool) (i : Nat) (s : ScanS) (h : s.found = true) :
    (scanOuterS n dm act s i).found = true := by
  unfold scanOuterS
  split
  · exact foldl_inv _ (fun s => s.found = true) _ (fun s' j _ hs' => scanInner_foundS dm act i j s' hs') s h
  · exact h

/-- the scan finds a pair as soon as one active pair has an entry below `FLT_MAX` -/
theorem scan_foundS (n : Nat) (dm : FMatS) (act : Array Bool) (i j : Nat) (hij : i < j) (hj : j < n)
    (hai : act.getD i false = true) (haj : act.getD j false = true) (hlt : SoftF32.lt (dm.get i j) SoftF32.fltMax = true) :
    (scanMinS n dm act).found = true := by
  rw [scanMin_eqS]
  refine foldl_reach (scanOuterS n dm act) (ScanInvS n act) (fun s => s.found = true) _ i
    (List.mem_range.2 (by omega)) (fun s y _ hs => scanOuter_invS n dm act y s hs)
    (fun s y _ _ hg => scanOuter_foundS n dm act y s hg) ?_ _ ⟨fun _ => rfl, fun h => by cases h⟩
  intro s hs
  unfold scanOuterS
  rw [if_pos hai]
  refine foldl_reach (scanInnerS dm act i) (ScanInvS n act) (fun s => s.found = true) _ j
    (by rw [List.mem_range'_1]; omega)
    (fun s y hy hs => by
      rw [List.mem_range'_1] at hy
      exact scanInner_invS n dm act i y hai (by omega) (by omega) s hs)
    (fun s y _ _ hg => scanInner_foundS dm act i y s hg) ?_ s hs
  intro s' hs'
  unfold scanInnerS
  rw [if_pos haj]
  cases hf : s'.found with
  | true =>
    split
    · rfl
    · exact hf
  | false =>
    rw [hs'.fresh hf, if_pos hlt]

/-! ## the rounds -/

/-- every active pair of the matrix has an entry below `FLT_MAX` -/
def AllBelowS (n : Nat) (s : UpgmaStS) : Prop :=
  ∀ i j, i < j → j < n → s.act.getD i false = true → s.act.getD j false = true → SoftF32.lt (s.dm.get i j) SoftF32.fltMax = true

structure UInvS (n : Nat) (samples : List Nat) (k : Nat) (s : UpgmaStS) : Prop where
  tsize : s.tree.size = n
  asize : s.act.size = n
  sync : ∀ i, i < n → s.act.getD i false = (s.tree.getD i none).isSome
  count : ((List.range n).filter fun i => s.act.getD i false).length + k = n
  leaves : ∀ x, x ∈ samples ↔ ∃ i, i < n ∧ ∃ t, s.tree.getD i none = some t ∧ x ∈ t.leaves
  last : s.last < n ∧ s.act.getD s.last false = true

/-- one round: succeeds when the scan finds a pair, and keeps the invariant -/
theorem upgmaRound_invS (n : Nat) (samples : List Nat) (k : Nat) (s : UpgmaStS) (h : UInvS n samples k s)
    (hfound : (scanMinS n s.dm s.act).found = true) :
    ∃ s', upgmaRoundS n s = some s' ∧ UInvS n samples (k + 1) s' := by
  obtain ⟨hab, hbn, haa, hab'⟩ := (scan_invS n s.dm s.act).ok hfound
  have han : (scanMinS n s.dm s.act).a < n := by omega
  have hta := h.sync _ han
  have htb := h.sync _ hbn
  rw [haa] at hta
  rw [hab'] at htb
  obtain ⟨ta, hta'⟩ := Option.isSome_iff_exists.1 hta.symm
  obtain ⟨tb, htb'⟩ := Option.isSome_iff_exists.1 htb.symm
  unfold upgmaRoundS
  simp only [hfound, Bool.not_true, Bool.false_eq_true, if_false, hta', htb']
  refine ⟨_, rfl, ?_⟩
  generalize (scanMinS n s.dm s.act).a = a at *
  generalize (scanMinS n s.dm s.act).b = b at *
  have hne : a ≠ b := by omega
  have hact : ∀ i, (s.act.setIfInBounds b false).getD i false = if i = b then false else s.act.getD i false :=
    fun i => getD_setIfInBounds _ _ _ _ _ (by rw [h.asize]; exact hbn)
  have htree : ∀ i, ((s.tree.setIfInBounds a (some (.node ta tb))).setIfInBounds b none).getD i none =
      if i = b then none else if i = a then some (.node ta tb) else s.tree.getD i none := by
    intro i
    rw [getD_setIfInBounds _ _ _ _ _ (by simp [h.tsize]; exact hbn),
      getD_setIfInBounds _ _ _ _ _ (by rw [h.tsize]; exact han)]
  refine ⟨by simp [h.tsize], by simp [h.asize], ?_, ?_, ?_, ?_⟩
  · intro i hi
    simp only [hact, htree]
    by_cases h1 : i = b
    · simp [h1]
    · by_cases h2 : i = a
      · subst h2; simp [h1, haa]
      · simp [h1, h2, h.sync i hi]
  · have h1 := nf_filter_deactivate (List.range n) (fun i => s.act.getD i false) b List.nodup_range
      (List.mem_range.2 hbn) hab'
    have h2 : ((List.range n).filter fun i => (s.act.setIfInBounds b false).getD i false) =
        (List.range n).filter fun i => if i = b then false else s.act.getD i false := by
      apply List.filter_congr
      intro i _
      exact hact i
    have h3 := h.count
    rw [h2]
    omega
  · intro x
    rw [h.leaves x]
    constructor
    · rintro ⟨i, hi, t, ht, hx⟩
      by_cases h1 : i = a
      · subst h1
        rw [hta'] at ht; cases ht
        exact ⟨i, hi, .node ta tb, by simp [htree, hne], by simp [GTree.leaves, hx]⟩
      · by_cases h2 : i = b
        · subst h2
          rw [htb'] at ht; cases ht
          exact ⟨a, han, .node ta tb, by simp [htree, hne], by simp [GTree.leaves, hx]⟩
        · exact ⟨i, hi, t, by simp [htree, h1, h2, ht], hx⟩
    · rintro ⟨i, hi, t, ht, hx⟩
      rw [htree] at ht
      by_cases h2 : i = b
      · simp [h2] at ht
      · by_cases h1 : i = a
        · subst h1
          simp only [hne, if_false, if_true, Option.some.injEq] at ht
          subst ht
          simp only [GTree.leaves, List.mem_append] at hx
          rcases hx with hx | hx
          · exact ⟨i, hi, ta, hta', hx⟩
          · exact ⟨b, hbn, tb, htb', hx⟩
        · simp only [h2, if_false, h1] at ht
          exact ⟨i, hi, t, ht, hx⟩
  · refine ⟨han, ?_⟩
    simp only
    rw [hact, if_neg hne, haa]

/-- the state `upgmaS` starts from -/
def upgmaInitS (dm : List (List SoftF32)) (samples : List Nat) : UpgmaStS :=
  { dm := (dm.map List.toArray).toArray, act := Array.replicate samples.length true,
    tree := (samples.map fun i => some (GTree.leaf i)).toArray, last := 0 }

theorem upgma_eqS (dm : List (List SoftF32)) (samples : List Nat) (hn : samples.length ≠ 0) :
    upgmaS dm samples = (iterOpt (upgmaRoundS samples.length) (samples.length - 1) (upgmaInitS dm samples)).bind
      fun st => st.tree.getD st.last none := by
  unfold upgmaS upgmaInitS
  simp only [hn, if_false]

theorem upgmaInit_invS (dm : List (List SoftF32)) (samples : List Nat) (hn : samples.length ≠ 0) :
    UInvS samples.length samples 0 (upgmaInitS dm samples) := by
  refine ⟨by simp [upgmaInitS], by simp [upgmaInitS], ?_, ?_, ?_, ?_⟩
  · intro i hi
    simp [upgmaInitS, Array.getD, hi]
  · have : ((List.range samples.length).filter fun i => (upgmaInitS dm samples).act.getD i false) =
        List.range samples.length := by
      rw [List.filter_eq_self]
      intro i hi
      simp [upgmaInitS, Array.getD, List.mem_range.1 hi]
    rw [this]; simp
  · intro x
    constructor
    · intro hx
      obtain ⟨i, hi, e⟩ := List.getElem_of_mem hx
      exact ⟨i, hi, .leaf x, by simp [upgmaInitS, Array.getD, hi, e], by simp [GTree.leaves]⟩
    · rintro ⟨i, hi, t, ht, hx⟩
      have e : (upgmaInitS dm samples).tree.getD i none = some (.leaf samples[i]) := by
        simp [upgmaInitS, Array.getD, hi]
      rw [e] at ht
      simp only [Option.some.injEq] at ht
      subst ht
      simp only [GTree.leaves, List.mem_singleton] at hx
      subst hx
      exact List.getElem_mem hi
  · refine ⟨by simp [upgmaInitS]; omega, ?_⟩
    simp [upgmaInitS, Array.getD]; omega

/-- all rounds succeed when in every matrix reached the active pairs are below `FLT_MAX` -/
theorem upgma_roundsS (dm : List (List SoftF32)) (samples : List Nat) (hn : samples.length ≠ 0)
    (hbelow : ∀ j s, j + 1 < samples.length → iterOpt (upgmaRoundS samples.length) j (upgmaInitS dm samples) = some s →
      AllBelowS samples.length s) :
    ∀ k, k + 1 ≤ samples.length → ∃ s, iterOpt (upgmaRoundS samples.length) k (upgmaInitS dm samples) = some s ∧
      UInvS samples.length samples k s := by
  intro k
  induction k with
  | zero => intro _; exact ⟨_, rfl, upgmaInit_invS dm samples hn⟩
  | succ k ih =>
    intro hk
    obtain ⟨s, hs, hinv⟩ := ih (by omega)
    have hcount := hinv.count
    obtain ⟨i, j, hij, hj, hai, haj⟩ := nf_exists_two_active samples.length (fun i => s.act.getD i false) (by omega)
    have hf := scan_foundS samples.length s.dm s.act i j hij hj hai haj (hbelow k s (by omega) hs i j hij hj hai haj)
    obtain ⟨s', hs', hinv'⟩ := upgmaRound_invS samples.length samples k s hinv hf
    exact ⟨s', by rw [iterOpt_succ_right, hs]; exact hs', hinv'⟩

/-- **`upgmaS` returns a tree over exactly the samples** (no stale join, no NULL subtree) -/
theorem upgma_someS (dm : List (List SoftF32)) (samples : List Nat) (hn : samples.length ≠ 0)
    (hbelow : ∀ j s, j + 1 < samples.length → iterOpt (upgmaRoundS samples.length) j (upgmaInitS dm samples) = some s →
      AllBelowS samples.length s) :
    ∃ t, upgmaS dm samples = some t ∧ ∀ x, x ∈ t.leaves ↔ x ∈ samples := by
  obtain ⟨s, hs, hinv⟩ := upgma_roundsS dm samples hn hbelow (samples.length - 1) (by omega)
  have hl := hinv.last
  have hsome := hinv.sync _ hl.1
  rw [hl.2] at hsome
  obtain ⟨t, ht⟩ := Option.isSome_iff_exists.1 hsome.symm
  refine ⟨t, by rw [upgma_eqS dm samples hn, hs]; exact ht, ?_⟩
  intro x
  rw [hinv.leaves x]
  constructor
  · intro hx; exact ⟨s.last, hl.1, t, ht, hx⟩
  · rintro ⟨i, hi, t', ht', hx⟩
    have hai : s.act.getD i false = true := by rw [hinv.sync i hi, ht']; rfl
    have hcount := hinv.count
    have := nf_unique_active samples.length (fun i => s.act.getD i false) (by omega) i s.last hi hl.1 hai hl.2
    subst this
    rw [ht] at ht'; cases ht'
    exact hx

/-- partial correctness without any hypothesis on the matrix: whatever state the rounds reach satisfies the invariant -/
theorem upgma_rounds_pcS (dm : List (List SoftF32)) (samples : List Nat) (hn : samples.length ≠ 0) :
    ∀ k s, iterOpt (upgmaRoundS samples.length) k (upgmaInitS dm samples) = some s → UInvS samples.length samples k s := by
  intro k
  induction k with
  | zero =>
    intro s hs
    simp only [iterOpt, Option.some.injEq] at hs
    subst hs
    exact upgmaInit_invS dm samples hn
  | succ k ih =>
    intro s' hs'
    rw [iterOpt_succ_right] at hs'
    cases hk : iterOpt (upgmaRoundS samples.length) k (upgmaInitS dm samples) with
    | none => rw [hk] at hs'; cases hs'
    | some s =>
      rw [hk, Option.bind_some] at hs'
      have hinv := ih s hk
      have hf : (scanMinS samples.length s.dm s.act).found = true := by
        cases hfd : (scanMinS samples.length s.dm s.act).found with
        | true => rfl
        | false => simp [upgmaRoundS, hfd] at hs'
      obtain ⟨s'', h1, h2⟩ := upgmaRound_invS samples.length samples k s hinv hf
      rw [h1] at hs'
      cases hs'
      exact h2

/-- **whenever `upgmaS` returns a tree, its leaves are exactly the samples** (any matrix, NaN included) -/
theorem upgma_leavesS (dm : List (List SoftF32)) (samples : List Nat) (t : GTree) (h : upgmaS dm samples = some t) :
    ∀ x, x ∈ t.leaves ↔ x ∈ samples := by
  have hn : samples.length ≠ 0 := by
    intro h0
    simp [upgmaS, h0] at h
  rw [upgma_eqS dm samples hn] at h
  cases hk : iterOpt (upgmaRoundS samples.length) (samples.length - 1) (upgmaInitS dm samples) with
  | none => rw [hk] at h; cases h
  | some s =>
    rw [hk, Option.bind_some] at h
    have hinv := upgma_rounds_pcS dm samples hn _ s hk
    have hl := hinv.last
    intro x
    rw [hinv.leaves x]
    constructor
    · intro hx; exact ⟨s.last, hl.1, t, h, hx⟩
    · rintro ⟨i, hi, t', ht', hx⟩
      have hai : s.act.getD i false = true := by rw [hinv.sync i hi, ht']; rfl
      have hcount := hinv.count
      have := nf_unique_active samples.length (fun i => s.act.getD i false) (by omega) i s.last hi hl.1 hai hl.2
      subst this
      rw [h] at ht'; cases ht'
      exact hx


/-! ## distinct leaves -/

/-- the active slots hold trees without repeated leaves, over pairwise disjoint leaf sets -/
structure UNdS (n : Nat) (s : UpgmaStS) : Prop where
  nd : ∀ i, i < n → ∀ t, s.tree.getD i none = some t → t.leaves.Nodup
  disj : ∀ i j, i < n → j < n → i ≠ j → ∀ ti tj, s.tree.getD i none = some ti → s.tree.getD j none = some tj →
    ∀ x, x ∈ ti.leaves → x ∉ tj.leaves

/-- what one round does to the slots: slot `a` receives the join of slots `a` and `b`, slot `b` is emptied -/
theorem upgmaRound_treeS (n : Nat) (samples : List Nat) (k : Nat) (s s' : UpgmaStS) (h : UInvS n samples k s)
    (hr : upgmaRoundS n s = some s') :
    ∃ a b ta tb, a < b ∧ b < n ∧ s.tree.getD a none = some ta ∧ s.tree.getD b none = some tb ∧
      ∀ i, s'.tree.getD i none = if i = b then none else if i = a then some (.node ta tb) else s.tree.getD i none := by
  have hfound : (scanMinS n s.dm s.act).found = true := by
    cases hfd : (scanMinS n s.dm s.act).found with
    | true => rfl
    | false => simp [upgmaRoundS, hfd] at hr
  obtain ⟨hab, hbn, haa, hab'⟩ := (scan_invS n s.dm s.act).ok hfound
  have han : (scanMinS n s.dm s.act).a < n := by omega
  have hta := h.sync _ han
  have htb := h.sync _ hbn
  rw [haa] at hta
  rw [hab'] at htb
  obtain ⟨ta, hta'⟩ := Option.isSome_iff_exists.1 hta.symm
  obtain ⟨tb, htb'⟩ := Option.isSome_iff_exists.1 htb.symm
  unfold upgmaRoundS at hr
  simp only [hfound, Bool.not_true, Bool.false_eq_true, if_false, hta', htb', Option.some.injEq] at hr
  subst hr
  refine ⟨_, _, ta, tb, hab, hbn, hta', htb', ?_⟩
  intro i
  simp only
  rw [getD_setIfInBounds _ _ _ _ _ (by simp [h.tsize]; exact hbn),
    getD_setIfInBounds _ _ _ _ _ (by rw [h.tsize]; exact han)]

theorem upgmaRound_ndS (n : Nat) (samples : List Nat) (k : Nat) (s s' : UpgmaStS) (h : UInvS n samples k s)
    (hn : UNdS n s) (hr : upgmaRoundS n s = some s') : UNdS n s' := by
  obtain ⟨a, b, ta, tb, hab, hbn, hta, htb, htree⟩ := upgmaRound_treeS n samples k s s' h hr
  have han : a < n := by omega
  have hne : a ≠ b := by omega
  have hjoin : (GTree.node ta tb).leaves.Nodup := by
    simp only [GTree.leaves]
    rw [List.nodup_append]
    refine ⟨hn.nd a han ta hta, hn.nd b hbn tb htb, ?_⟩
    intro x hx y hy e
    subst e
    exact hn.disj a b han hbn hne ta tb hta htb x hx hy
  refine ⟨?_, ?_⟩
  · intro i hi t ht
    rw [htree] at ht
    by_cases h2 : i = b
    · simp [h2] at ht
    · by_cases h1 : i = a
      · subst h1
        simp only [hne, if_false, if_true, Option.some.injEq] at ht
        subst ht
        exact hjoin
      · simp only [h2, if_false, h1] at ht
        exact hn.nd i hi t ht
  · intro i j hi hj hij ti tj hti htj x hxi hxj
    rw [htree] at hti htj
    by_cases hib : i = b
    · simp [hib] at hti
    · by_cases hjb : j = b
      · simp [hjb] at htj
      · simp only [hib, hjb, if_false] at hti htj
        by_cases hia : i = a
        · have hja : j ≠ a := fun e => hij (hia.trans e.symm)
          simp only [hia, if_true, Option.some.injEq] at hti
          simp only [hja, if_false] at htj
          subst hti
          simp only [GTree.leaves, List.mem_append] at hxi
          rcases hxi with hx | hx
          · exact hn.disj a j han hj (fun e => hja e.symm) ta tj hta htj x hx hxj
          · exact hn.disj b j hbn hj (fun e => hjb e.symm) tb tj htb htj x hx hxj
        · simp only [hia, if_false] at hti
          by_cases hja : j = a
          · simp only [hja, if_true, Option.some.injEq] at htj
            subst htj
            simp only [GTree.leaves, List.mem_append] at hxj
            rcases hxj with hx | hx
            · exact hn.disj i a hi han hia ti ta hti hta x hxi hx
            · exact hn.disj i b hi hbn hib ti tb hti htb x hxi hx
          · simp only [hja, if_false] at htj
            exact hn.disj i j hi hj hij ti tj hti htj x hxi hxj

theorem upgmaInit_ndS (dm : List (List SoftF32)) (samples : List Nat) (hnd : samples.Nodup) :
    UNdS samples.length (upgmaInitS dm samples) := by
  have e : ∀ i (hi : i < samples.length), (upgmaInitS dm samples).tree.getD i none = some (.leaf samples[i]) := by
    intro i hi
    simp [upgmaInitS, Array.getD, hi]
  refine ⟨?_, ?_⟩
  · intro i hi t ht
    rw [e i hi] at ht
    simp only [Option.some.injEq] at ht
    subst ht
    simp [GTree.leaves]
  · intro i j hi hj hij ti tj hti htj x hxi hxj
    rw [e i hi] at hti
    rw [e j hj] at htj
    simp only [Option.some.injEq] at hti htj
    subst hti
    subst htj
    simp only [GTree.leaves, List.mem_singleton] at hxi hxj
    exact hij ((List.getElem_inj hnd).1 (hxi.symm.trans hxj))

theorem upgma_rounds_ndS (dm : List (List SoftF32)) (samples : List Nat) (hn : samples.length ≠ 0) (hnd : samples.Nodup) :
    ∀ k s, iterOpt (upgmaRoundS samples.length) k (upgmaInitS dm samples) = some s → UNdS samples.length s := by
  intro k
  induction k with
  | zero =>
    intro s hs
    simp only [iterOpt, Option.some.injEq] at hs
    subst hs
    exact upgmaInit_ndS dm samples hnd
  | succ k ih =>
    intro s' hs'
    rw [iterOpt_succ_right] at hs'
    cases hk : iterOpt (upgmaRoundS samples.length) k (upgmaInitS dm samples) with
    | none => rw [hk] at hs'; cases hs'
    | some s =>
      rw [hk, Option.bind_some] at hs'
      exact upgmaRound_ndS samples.length samples k s s' (upgma_rounds_pcS dm samples hn k s hk) (ih s hk) hs'

/-- **on pairwise distinct samples every tree `upgmaS` returns has pairwise distinct leaves** (any matrix) -/
theorem upgma_leaves_nodupS (dm : List (List SoftF32)) (samples : List Nat) (t : GTree) (hnd : samples.Nodup)
    (h : upgmaS dm samples = some t) : t.leaves.Nodup := by
  have hn : samples.length ≠ 0 := by
    intro h0
    simp [upgmaS, h0] at h
  rw [upgma_eqS dm samples hn] at h
  cases hk : iterOpt (upgmaRoundS samples.length) (samples.length - 1) (upgmaInitS dm samples) with
  | none => rw [hk] at h; cases h
  | some s =>
    rw [hk, Option.bind_some] at h
    have hinv := upgma_rounds_pcS dm samples hn _ s hk
    exact (upgma_rounds_ndS dm samples hn hnd _ s hk).nd s.last hinv.last.1 t h


end Kalign
