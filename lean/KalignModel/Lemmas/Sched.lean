import KalignModel.Model.Sched
/-!
# Determinacy and ordering of fork-join programs
-/
namespace Kalign.Sched
variable {A B Loc Val σ : Type}

/-! ## execution -/

theorem exec_append (f : A → σ → σ) (l1 l2 : List A) (s : σ) :
    exec f (l1 ++ l2) s = exec f l2 (exec f l1 s) := by simp [exec, List.foldl_append]

theorem exec_comm (f : A → σ → σ) (b : A) (l : List A) (h : ∀ a ∈ l, Indep f a b) (s : σ) :
    exec f l (f b s) = f b (exec f l s) := by
  induction l generalizing s with
  | nil => rfl
  | cons a l ih =>
    have hab := h a (by simp)
    simp only [exec, List.foldl_cons] at ih ⊢
    rw [hab s]
    exact ih (fun a' ha' => h a' (by simp [ha'])) (f a s)

theorem shuffle_exec (f : A → σ → σ) {l1 l2 l : List A} (hs : Shuffle l1 l2 l)
    (h : ∀ a ∈ l1, ∀ b ∈ l2, Indep f a b) (s : σ) : exec f l s = exec f (l1 ++ l2) s := by
  induction hs generalizing s with
  | nil => rfl
  | left hs ih =>
    simp only [exec, List.cons_append, List.foldl_cons]
    exact ih (fun a ha b hb => h a (by simp [ha]) b hb) _
  | @right b l1 l2 l hs ih =>
    have ih' := ih (fun a ha b' hb' => h a ha b' (by simp [hb'])) (f b s)
    have : exec f (b :: l) s = exec f l (f b s) := rfl
    rw [this, ih', exec_append, exec_append]
    have hc := exec_comm f b l1 (fun a ha => h a ha b (by simp)) s
    rw [hc]; rfl

/-! ## shuffles and linearisations are rearrangements -/

theorem Shuffle.mem_iff {l1 l2 l : List A} (hs : Shuffle l1 l2 l) (a : A) :
    a ∈ l ↔ a ∈ l1 ∨ a ∈ l2 := by
  induction hs with
  | nil => simp
  | left _ ih => simp only [List.mem_cons, ih, or_assoc]
  | right _ ih =>
    simp only [List.mem_cons, ih]
    constructor
    · rintro (h | h | h)
      · exact Or.inr (Or.inl h)
      · exact Or.inl h
      · exact Or.inr (Or.inr h)
    · rintro (h | h | h)
      · exact Or.inr (Or.inl h)
      · exact Or.inl h
      · exact Or.inr (Or.inr h)

theorem Shuffle.perm {l1 l2 l : List A} (hs : Shuffle l1 l2 l) : l.Perm (l1 ++ l2) := by
  induction hs with
  | nil => exact List.Perm.refl _
  | left _ ih => exact List.Perm.cons _ ih
  | @right b l1 l2 l _ ih =>
    exact (List.Perm.cons b ih).trans (List.perm_middle (a := b) (l₁ := l1) (l₂ := l2)).symm

theorem Shuffle.sublist_left {l1 l2 l : List A} (hs : Shuffle l1 l2 l) : List.Sublist l1 l := by
  induction hs with
  | nil => exact List.Sublist.slnil
  | left _ ih => exact List.Sublist.cons_cons _ ih
  | right _ ih => exact List.Sublist.cons _ ih

theorem Shuffle.sublist_right {l1 l2 l : List A} (hs : Shuffle l1 l2 l) : List.Sublist l2 l := by
  induction hs with
  | nil => exact List.Sublist.slnil
  | left _ ih => exact List.Sublist.cons _ ih
  | right _ ih => exact List.Sublist.cons_cons _ ih

/-- the two trivial schedules: left branch first, right branch first -/
theorem Shuffle.append (l1 l2 : List A) : Shuffle l1 l2 (l1 ++ l2) := by
  induction l1 with
  | nil =>
    induction l2 with
    | nil => exact .nil
    | cons b l2 ih => exact .right ih
  | cons a l1 ih => exact .left ih

theorem Shuffle.append_rev (l1 l2 : List A) : Shuffle l1 l2 (l2 ++ l1) := by
  induction l2 with
  | nil =>
    induction l1 with
    | nil => exact .nil
    | cons b l1 ih => exact .left ih
  | cons a l2 ih => exact .right ih

/-- a linearisation is a permutation of the serial elision: every atom runs exactly once -/
theorem Lin.perm {p : Prog A} {l : List A} (h : Lin p l) : l.Perm p.atoms := by
  induction h with
  | skip => exact List.Perm.refl _
  | atom => exact List.Perm.refl _
  | seq _ _ ih1 ih2 => exact List.Perm.append ih1 ih2
  | par _ _ hs ih1 ih2 => exact hs.perm.trans (List.Perm.append ih1 ih2)

theorem Lin.mem_iff {p : Prog A} {l : List A} (h : Lin p l) (a : A) : a ∈ l ↔ a ∈ p.atoms :=
  h.perm.mem_iff

/-- the serial elision is itself a schedule -/
theorem Lin.serial (p : Prog A) : Lin p p.atoms := by
  induction p with
  | skip => exact .skip
  | atom a => exact .atom
  | seq p q ihp ihq => exact .seq ihp ihq
  | par p q ihp ihq => exact .par ihp ihq (Shuffle.append _ _)

/-! ## determinacy -/

/-- **determinacy, semantic form**: every linearisation of a program whose concurrent atoms commute
computes what the serial elision computes -/
theorem determinacyI (f : A → σ → σ) {p : Prog A} (hsafe : SafeI f p) {l : List A} (hl : Lin p l) (s : σ) :
    exec f l s = exec f p.atoms s := by
  induction hl generalizing s with
  | skip => rfl
  | atom => rfl
  | seq _ _ ih1 ih2 =>
    simp only [Prog.atoms, exec_append]
    rw [ih1 hsafe.1, ih2 hsafe.2]
  | @par p q l1 l2 l h1 h2 hs ih1 ih2 =>
    obtain ⟨sp, sq, hpq⟩ := hsafe
    rw [shuffle_exec f hs (fun a ha b hb => hpq a ((h1.mem_iff a).1 ha) b ((h2.mem_iff b).1 hb)) s]
    simp only [Prog.atoms, exec_append]
    rw [ih1 sp, ih2 sq]

/-- disjoint footprints ⇒ the actions commute -/
theorem indep_of_disjoint (S : Sem A Loc Val) (hS : S.WellFormed) (a b : A)
    (hd : (S.fp a).Disjoint (S.fp b)) : Indep S.act a b := by
  intro s
  funext x
  by_cases ha : (S.fp a).wr x
  · -- x written by a, untouched by b
    have hb : ¬ (S.fp b).wr x := fun h => (hd x).1 ha (Or.inr h)
    rw [hS.frame b _ x hb]
    refine hS.loc a _ _ (fun y hy => ?_) x ha
    exact hS.frame b s y (fun h => (hd y).2 h hy)
  · rw [hS.frame a _ x ha]
    by_cases hb : (S.fp b).wr x
    · refine (hS.loc b _ _ (fun y hy => ?_) x hb).symm
      exact hS.frame a s y (fun h => (hd y).1 h hy)
    · rw [hS.frame b _ x hb, hS.frame b _ x hb, hS.frame a _ x ha]

theorem safeI_of_safe (S : Sem A Loc Val) (hS : S.WellFormed) {p : Prog A} (h : Safe S.fp p) :
    SafeI S.act p := by
  induction p with
  | skip => trivial
  | atom _ => trivial
  | seq p q ihp ihq => exact ⟨ihp h.1, ihq h.2⟩
  | par p q ihp ihq =>
    exact ⟨ihp h.1, ihq h.2.1, fun a ha b hb => indep_of_disjoint S hS a b (h.2.2 a ha b hb)⟩

/-- **determinacy**: if in every `par` atoms of different branches have `W ∩ (R ∪ W) = ∅` both ways,
every linearisation executes to the state of the serial elision `p.atoms` -/
theorem determinacy (S : Sem A Loc Val) (hS : S.WellFormed) {p : Prog A} (hsafe : Safe S.fp p)
    {l : List A} (hl : Lin p l) (s : Loc → Val) :
    exec S.act l s = exec S.act p.atoms s :=
  determinacyI S.act (safeI_of_safe S hS hsafe) hl s

/-- any two schedules agree -/
theorem schedules_agree (S : Sem A Loc Val) (hS : S.WellFormed) {p : Prog A} (hsafe : Safe S.fp p)
    {l l' : List A} (hl : Lin p l) (hl' : Lin p l') (s : Loc → Val) :
    exec S.act l s = exec S.act l' s := by
  rw [determinacy S hS hsafe hl, determinacy S hS hsafe hl']

/-! ## ordering -/

theorem before_append {l1 l2 : List A} {a b : A} (ha : a ∈ l1) (hb : b ∈ l2) : Before (l1 ++ l2) a b := by
  have h1 : List.Sublist [a] l1 := List.singleton_sublist.2 ha
  have h2 : List.Sublist [b] l2 := List.singleton_sublist.2 hb
  exact List.Sublist.append h1 h2

theorem Before.mono {l l' : List A} {a b : A} (h : Before l a b) (hs : List.Sublist l l') : Before l' a b :=
  List.Sublist.trans h hs

/-- **order**: in every linearisation of `P`, an atom sequenced after a sub-program `p` (by a
`seq p q` anywhere inside `P`) occurs after all of `p`'s atoms -/
theorem order {P p q : Prog A} (hsub : Prog.Sub (.seq p q) P) {l : List A} (hl : Lin P l)
    {a b : A} (ha : a ∈ p.atoms) (hb : b ∈ q.atoms) : Before l a b := by
  induction hsub generalizing l with
  | refl =>
    cases hl with
    | seq h1 h2 => exact before_append ((h1.mem_iff a).2 ha) ((h2.mem_iff b).2 hb)
  | seqL _ ih =>
    cases hl with
    | seq h1 h2 => exact (ih h1).mono (List.sublist_append_left _ _)
  | seqR _ ih =>
    cases hl with
    | seq h1 h2 => exact (ih h2).mono (List.sublist_append_right _ _)
  | parL _ ih =>
    cases hl with
    | par h1 h2 hsh => exact (ih h1).mono hsh.sublist_left
  | parR _ ih =>
    cases hl with
    | par h1 h2 hsh => exact (ih h2).mono hsh.sublist_right

/-- for duplicate-free schedules `Before` is the strict position order -/
theorem before_idxOf [BEq A] [LawfulBEq A] {l : List A} (hnd : l.Nodup) {a b : A} (h : Before l a b) :
    l.idxOf a < l.idxOf b := by
  induction l with
  | nil => cases h
  | cons x t ih =>
    have hx : x ∉ t := (List.nodup_cons.1 hnd).1
    have ht : t.Nodup := (List.nodup_cons.1 hnd).2
    cases h with
    | cons _ h' =>
      have hat : a ∈ t := (List.Sublist.subset h') (by simp)
      have hbt : b ∈ t := (List.Sublist.subset h') (by simp)
      have hxa : x ≠ a := fun e => hx (e ▸ hat)
      have hxb : x ≠ b := fun e => hx (e ▸ hbt)
      have e1 : (x == a) = false := by simpa using hxa
      have e2 : (x == b) = false := by simpa using hxb
      rw [List.idxOf_cons, List.idxOf_cons, e1, e2]
      exact Nat.succ_lt_succ (ih ht h')
    | cons_cons _ h' =>
      have hbt : b ∈ t := List.singleton_sublist.1 h'
      have hab : a ≠ b := fun e => hx (e ▸ hbt)
      have e2 : (a == b) = false := by simpa using hab
      rw [List.idxOf_cons_self, List.idxOf_cons, e2]
      exact Nat.succ_pos _

theorem before_asymm {l : List A} (hnd : l.Nodup) {a b : A} (h : Before l a b) : ¬ Before l b a := by
  classical
  intro h'
  have h1 := before_idxOf (l := l) hnd h
  have h2 := before_idxOf (l := l) hnd h'
  exact Nat.lt_asymm h1 h2

/-! ## n-ary forks -/

theorem mem_atoms_parAll {ps : List (Prog A)} {a : A} :
    a ∈ (parAll ps).atoms ↔ ∃ p ∈ ps, a ∈ p.atoms := by
  induction ps with
  | nil => simp [parAll, Prog.atoms]
  | cons p ps ih =>
    cases ps with
    | nil => simp [parAll]
    | cons q ps =>
      simp only [parAll, Prog.atoms, List.mem_append, ih, List.mem_cons, exists_eq_or_imp]

theorem atoms_parAll (ps : List (Prog A)) : (parAll ps).atoms = ps.flatMap Prog.atoms := by
  induction ps with
  | nil => rfl
  | cons p ps ih =>
    cases ps with
    | nil => simp [parAll]
    | cons q ps => simp only [parAll, Prog.atoms, ih, List.flatMap_cons]

theorem atoms_seqAll (ps : List (Prog A)) : (seqAll ps).atoms = ps.flatMap Prog.atoms := by
  induction ps with
  | nil => rfl
  | cons p ps ih =>
    cases ps with
    | nil => simp [seqAll]
    | cons q ps => simp only [seqAll, Prog.atoms, ih, List.flatMap_cons]

/-- an n-ary fork is safe when its branches are safe and pairwise footprint-disjoint -/
theorem safe_parAll (fp : A → Footprint Loc) {ps : List (Prog A)} (hs : ∀ p ∈ ps, Safe fp p)
    (hd : ps.Pairwise fun p q => ∀ a ∈ p.atoms, ∀ b ∈ q.atoms, (fp a).Disjoint (fp b)) :
    Safe fp (parAll ps) := by
  induction ps with
  | nil => trivial
  | cons p ps ih =>
    cases ps with
    | nil => exact hs p (by simp)
    | cons q ps =>
      have hd' := List.pairwise_cons.1 hd
      refine ⟨hs p (by simp), ih (fun r hr => hs r (List.mem_cons_of_mem _ hr)) hd'.2, ?_⟩
      intro a ha b hb
      obtain ⟨r, hr, hbr⟩ := mem_atoms_parAll.1 hb
      exact hd'.1 r hr a ha b hbr

theorem Footprint.Disjoint.symm {F G : Footprint Loc} (h : F.Disjoint G) : G.Disjoint F :=
  fun x => ⟨(h x).2, (h x).1⟩

/-- fork over a duplicate-free index list -/
theorem safe_parAll_map {ι : Type} (fp : A → Footprint Loc) (f : ι → Prog A) {is : List ι}
    (hnd : is.Nodup) (hs : ∀ i ∈ is, Safe fp (f i))
    (hd : ∀ i ∈ is, ∀ j ∈ is, i ≠ j → ∀ a ∈ (f i).atoms, ∀ b ∈ (f j).atoms, (fp a).Disjoint (fp b)) :
    Safe fp (parAll (is.map f)) := by
  apply safe_parAll
  · intro p hp
    obtain ⟨i, hi, rfl⟩ := List.mem_map.1 hp
    exact hs i hi
  · rw [List.pairwise_map]
    exact List.Pairwise.imp_of_mem (fun {i j} hi hj hij => hd i hi j hj hij) hnd

/-! ## the kernel construction is well-formed -/

theorem Sem.ofKernel_wf [Inhabited Val] (rd wr : A → Loc → Bool) (g : A → (Loc → Val) → Loc → Val) :
    (Sem.ofKernel rd wr g).WellFormed := by
  constructor
  · intro a s x hx
    have : wr a x = false := by
      simpa [Sem.ofKernel] using hx
    simp [Sem.ofKernel, this]
  · intro a s s' hss x hx
    have hw : wr a x = true := hx
    simp only [Sem.ofKernel, hw, if_true]
    congr 1
    funext y
    by_cases hy : (rd a y || wr a y) = true
    · simp only [hy, if_true]
      apply hss
      simp only [Bool.or_eq_true] at hy
      exact hy.elim Or.inl Or.inr
    · simp [hy]

/-! ## concurrent stores of one constant

Bernstein's conditions reject two concurrent writers of one location.  When all those writers store
the same constant and nobody's result depends on the old content, the atoms still commute — this is the
situation of `BROADCAST_MASK` (see `C02.kmeans_rec_*`). -/

theorem act_upd [DecidableEq Loc] (S : Sem A Loc Val) (hS : S.WellFormed) (a : A) (c : Loc)
    (hc : ¬ (S.fp a).touches c) (s : Loc → Val) (v : Val) :
    S.act a (upd s c v) = upd (S.act a s) c v := by
  funext x
  by_cases hx : x = c
  · subst hx
    rw [hS.frame a _ x (fun h => hc (Or.inr h))]
    simp [upd]
  · have hr : upd (S.act a s) c v x = S.act a s x := by simp [upd, hx]
    rw [hr]
    by_cases hw : (S.fp a).wr x
    · refine hS.loc a _ _ (fun y hy => ?_) x hw
      have : y ≠ c := fun e => hc (e ▸ hy)
      simp [upd, this]
    · rw [hS.frame a _ x hw, hS.frame a _ x hw]; simp [upd, hx]

theorem upd_upd_comm [DecidableEq Loc] (s : Loc → Val) (c : Loc) (K : Val) : upd (upd s c K) c K = upd s c K := by
  funext x; by_cases hx : x = c <;> simp [upd, hx]

/-- atoms with disjoint footprints still commute when some of them additionally store the constant `K`
to a location `c` that no footprint mentions -/
theorem indep_withStore [DecidableEq Loc] (S : Sem A Loc Val) (hS : S.WellFormed) (setter : A → Bool)
    (c : Loc) (K : Val) (hc : ∀ a, ¬ (S.fp a).touches c) (a b : A) (hd : (S.fp a).Disjoint (S.fp b)) :
    Indep (withStore S.act setter c K) a b := by
  intro s
  have hab := indep_of_disjoint S hS a b hd
  unfold withStore
  cases ha : setter a <;> cases hb : setter b <;>
    simp only [Bool.false_eq_true, if_false, if_true, act_upd S hS _ c (hc _)]
  · exact hab s
  · rw [hab s]
  · rw [hab s]
  · rw [hab s]

theorem safeI_withStore [DecidableEq Loc] (S : Sem A Loc Val) (hS : S.WellFormed) (setter : A → Bool)
    (c : Loc) (K : Val) (hc : ∀ a, ¬ (S.fp a).touches c) {p : Prog A} (h : Safe S.fp p) :
    SafeI (withStore S.act setter c K) p := by
  induction p with
  | skip => trivial
  | atom _ => trivial
  | seq p q ihp ihq => exact ⟨ihp h.1, ihq h.2⟩
  | par p q ihp ihq =>
    exact ⟨ihp h.1, ihq h.2.1, fun a ha b hb => indep_withStore S hS setter c K hc a b (h.2.2 a ha b hb)⟩

end Kalign.Sched
