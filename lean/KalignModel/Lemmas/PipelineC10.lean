import KalignModel.Lemmas.Pipeline
import KalignModel.Props.C10
/-!
# C10 along `recursive_aln` of the composed pipeline (`Pipeline.recAln`)

`recAln` returns every completed node as a value (`Node`), so "the alignment of node `v` when it completed" is simply
the value `V` of the call that completed it.  `Calls` is the call tree of `recursive_aln` over the task table;
`recAln_members_woven` follows one path of it with the same building blocks as `subalignment_preserved`
(Lemmas/Progressive.lean: `updA_row`/`updB_row`, `dropAllGapCols_weaveA/B`, `dropAllGapCols_id`, `merge_ok`).
-/
namespace Kalign.Pipeline
open Kalign List

/-- the value of guide-tree node `x` (`x < n`: a leaf = input sequence `x`; `x ≥ n`: the node completed by task `x - n`),
exactly as `recAln` evaluates its two children -/
def nodeVal (ap : AlnParam Float32) (tasks : Array (Nat × Nat × Nat)) (codes : Array (List Nat)) (n fuel x : Nat) :
    Except PipeErr Node :=
  if x ≥ n then recAln ap tasks codes n fuel (x - n)
  else if x < codes.size then .ok (leafNode codes x) else .error .fault

/-- `Calls tasks n (fuel, x) (fuel', x')`: evaluating node `x` with budget `fuel` evaluates node `x'` with budget `fuel'`
(reflexive-transitive closure of "`x'` is one of the two children named by task `x - n`") -/
inductive Calls (tasks : Array (Nat × Nat × Nat)) (n : Nat) : Nat × Nat → Nat × Nat → Prop
  | refl (p : Nat × Nat) : Calls tasks n p p
  | left {fuel x a b c : Nat} {q : Nat × Nat} : x ≥ n → tasks[x - n]? = some (a, b, c) → Calls tasks n (fuel, a) q →
      Calls tasks n (fuel + 1, x) q
  | right {fuel x a b c : Nat} {q : Nat × Nat} : x ≥ n → tasks[x - n]? = some (a, b, c) → Calls tasks n (fuel, b) q →
      Calls tasks n (fuel + 1, x) q

theorem nodeVal_ok (ap : AlnParam Float32) (tasks : Array (Nat × Nat × Nat)) (codes : Array (List Nat)) (n fuel x : Nat)
    (N : Node) (h : nodeVal ap tasks codes n fuel x = .ok N) : NodeOK (fun j => codes.getD j []) N := by
  unfold nodeVal at h
  split at h
  · exact recAln_ok ap tasks codes n fuel _ N h
  · split at h
    · simp only [Except.ok.injEq] at h
      subst h
      exact leafNode_ok codes x
    · cases h

/-- an inner node is the merge of the values of its two children -/
theorem nodeVal_succ {ap : AlnParam Float32} {tasks : Array (Nat × Nat × Nat)} {codes : Array (List Nat)} {n fuel x : Nat}
    {a b c : Nat} {N : Node} (hx : x ≥ n) (ht : tasks[x - n]? = some (a, b, c))
    (h : nodeVal ap tasks codes n (fuel + 1) x = .ok N) :
    ∃ A B, nodeVal ap tasks codes n fuel a = .ok A ∧ nodeVal ap tasks codes n fuel b = .ok B ∧
      mergeNodes .parallel ap A B (x - n + 1 == tasks.size) = .ok N := by
  unfold nodeVal at h
  rw [if_pos hx] at h
  unfold recAln at h
  rw [ht] at h
  simp only at h
  split at h
  · cases h
  · rename_i A hA
    split at h
    · cases h
    · rename_i B hB
      exact ⟨A, B, hA, hB, h⟩

/-- what `mergeNodes` does to the members: `make_seq` with one column list that is valid for the two profile lengths -/
theorem mergeNodes_shape {entry : Entry} {ap : AlnParam Float32} {A B N : Node} {isLast : Bool}
    (seqs : Nat → List Nat) (hA : NodeOK seqs A) (hB : NodeOK seqs B) (h : mergeNodes entry ap A B isLast = .ok N) :
    ∃ codes : List Nat, N.group = mergeGroups codes A.group B.group ∧
      ValidCols (codes.map Col.ofCode) A.group.plen B.group.plen ∧ N.group.plen = codes.length := by
  unfold mergeNodes at h
  simp only at h
  split at h
  · cases h
  · rename_i st' out _
    split at h
    · cases h
    · split at h
      · cases h
      · rename_i hv
        simp only [Except.ok.injEq] at h
        subst h
        have hv' : ValidCols (out.codes.map Col.ofCode) A.group.plen B.group.plen := by
          rw [← hA.2.2, ← hB.2.2]
          exact validColsB_sound (by simpa using hv)
        obtain ⟨_, h2⟩ := C01_merge_integrity seqs out.codes A.group B.group hA.1 hB.1 hA.2.1 hB.2.1 hv'
        exact ⟨out.codes, rfl, hv', h2⟩

/-- how the members of a completed node `V` sit in a later node `R`: `f` sends a member to its later self -/
structure Woven (V R : Node) (f : Member Nat → Member Nat) : Prop where
  mem : ∀ m ∈ V.group, f m ∈ R.group
  idx : ∀ m ∈ V.group, (f m).idx = m.idx
  res : ∀ m ∈ V.group, (f m).seq.res = m.seq.res
  rows : dropAllGapCols (V.group.map fun m => (f m).seq.row) R.group.plen = V.group.map (·.seq.row)

theorem woven_refl (seqs : Nat → List Nat) (V : Node) (h : NodeOK seqs V) : Woven V V id := by
  refine ⟨fun _ hm => hm, fun _ _ => rfl, fun _ _ => rfl, ?_⟩
  apply dropAllGapCols_id _ _ _ h.1.nogapcol
  intro r hr
  obtain ⟨m, hm, rfl⟩ := mem_map.1 hr
  exact h.1.len m hm

theorem woven_left (seqs : Nat → List Nat) {V A B R : Node} {f : Member Nat → Member Nat} {codes : List Nat}
    (hA : NodeOK seqs A) (hR : R.group = mergeGroups codes A.group B.group)
    (hv : ValidCols (codes.map Col.ofCode) A.group.plen B.group.plen) (hp : R.group.plen = codes.length)
    (w : Woven V A f) : Woven V R (fun m => updA (codes.map Col.ofCode) (f m)) := by
  refine ⟨?_, ?_, ?_, ?_⟩
  · intro m hm
    rw [hR]
    exact (mem_mergeGroups _ _ _ _).2 (Or.inl ⟨f m, w.mem m hm, rfl⟩)
  · intro m hm; rw [updA_idx]; exact w.idx m hm
  · intro m hm; rw [updA_res]; exact w.res m hm
  · have e : (V.group.map fun m => (updA (codes.map Col.ofCode) (f m)).seq.row) =
        (V.group.map fun m => (f m).seq.row).map (weaveA (codes.map Col.ofCode)) := by
      rw [map_map]
      apply map_congr_left
      intro m hm
      have hm' := w.mem m hm
      exact updA_row _ (f m) (hA.1.wf _ hm') (by rw [hA.1.len _ hm', hv.2.1])
    rw [e, hp, ← length_map (f := Col.ofCode), dropAllGapCols_weaveA _ hv.1, hv.2.1]
    exact w.rows

theorem woven_right (seqs : Nat → List Nat) {V A B R : Node} {f : Member Nat → Member Nat} {codes : List Nat}
    (hB : NodeOK seqs B) (hR : R.group = mergeGroups codes A.group B.group)
    (hv : ValidCols (codes.map Col.ofCode) A.group.plen B.group.plen) (hp : R.group.plen = codes.length)
    (w : Woven V B f) : Woven V R (fun m => updB (codes.map Col.ofCode) (f m)) := by
  refine ⟨?_, ?_, ?_, ?_⟩
  · intro m hm
    rw [hR]
    exact (mem_mergeGroups _ _ _ _).2 (Or.inr ⟨f m, w.mem m hm, rfl⟩)
  · intro m hm; rw [updB_idx]; exact w.idx m hm
  · intro m hm; rw [updB_res]; exact w.res m hm
  · have e : (V.group.map fun m => (updB (codes.map Col.ofCode) (f m)).seq.row) =
        (V.group.map fun m => (f m).seq.row).map (weaveB (codes.map Col.ofCode)) := by
      rw [map_map]
      apply map_congr_left
      intro m hm
      have hm' := w.mem m hm
      exact updB_row _ (f m) (hB.1.wf _ hm') (by rw [hB.1.len _ hm', hv.2.2])
    rw [e, hp, ← length_map (f := Col.ofCode), dropAllGapCols_weaveB _ hv.1, hv.2.2]
    exact w.rows

/-- **along every path of the call tree the members of a completed node are only woven** -/
theorem recAln_members_woven (ap : AlnParam Float32) (tasks : Array (Nat × Nat × Nat)) (codes : Array (List Nat)) (n : Nat)
    {p q : Nat × Nat} (hc : Calls tasks n p q) (R V : Node)
    (hR : nodeVal ap tasks codes n p.1 p.2 = .ok R) (hV : nodeVal ap tasks codes n q.1 q.2 = .ok V) :
    ∃ f, Woven V R f := by
  induction hc generalizing R with
  | refl p =>
    rw [hR] at hV
    cases hV
    exact ⟨id, woven_refl _ V (nodeVal_ok ap tasks codes n _ _ V hR)⟩
  | @left fuel x a b c q hx ht _ ih =>
    obtain ⟨A, B, hA, hB, hm⟩ := nodeVal_succ hx ht hR
    have okA := nodeVal_ok ap tasks codes n _ _ A hA
    have okB := nodeVal_ok ap tasks codes n _ _ B hB
    obtain ⟨cs, hg, hv, hp⟩ := mergeNodes_shape _ okA okB hm
    obtain ⟨f, w⟩ := ih A hA hV
    exact ⟨_, woven_left _ okA hg hv hp w⟩
  | @right fuel x a b c q hx ht _ ih =>
    obtain ⟨A, B, hA, hB, hm⟩ := nodeVal_succ hx ht hR
    have okA := nodeVal_ok ap tasks codes n _ _ A hA
    have okB := nodeVal_ok ap tasks codes n _ _ B hB
    obtain ⟨cs, hg, hv, hp⟩ := mergeNodes_shape _ okA okB hm
    obtain ⟨f, w⟩ := ih B hB hV
    exact ⟨_, woven_right _ okB hg hv hp w⟩

/-- with distinct member indices in `R` the later self of a member is the one `finalRow` finds -/
theorem woven_finalRow {V R : Node} {f : Member Nat → Member Nat} (w : Woven V R f)
    (hnd : (R.group.map (·.idx)).Nodup) :
    (V.group.map fun m => (finalRow R.group m.idx).getD []) = V.group.map fun m => (f m).seq.row := by
  apply map_congr_left
  intro m hm
  have := finalRow_of_mem R.group hnd (f m) (w.mem m hm)
  rw [w.idx m hm] at this
  rw [this]; rfl

end Kalign.Pipeline
