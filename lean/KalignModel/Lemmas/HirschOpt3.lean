import KalignModel.Lemmas.HirschOpt2
/-!
# Decompositions of the target alignment along the recursion
-/
namespace Kalign

/-- the rectangle `(sa..ea) × (sb..eb)` with boundary kinds `fk`, `bk` lies on the column list `P`:
`P = P1 ++ X ++ P2` with `P1` ending at the near corner in kind `fk`, `P2` starting at the far corner in kind `bk`;
and the kernels' terminal tests are right for this rectangle -/
def DD (P : List Col) (lenA lenB : Nat) (sa ea sb eb : Nat) (fk bk : Kind) : Prop :=
  ∃ P1 X P2, P = P1 ++ X ++ P2 ∧ consA P1 = sa ∧ consB P1 = sb ∧ consA X + sa = ea ∧ consB X + sb = eb ∧
    lastKind .A P1 = fk ∧ firstKind .A P2 = bk ∧
    ((sb = 0 ↔ sa = 0) ∨ fk = .GB) ∧ ((eb = lenB ↔ ea = lenA) ∨ bk = .GB)

theorem da_cases (k : Kind) : (k = .GA ∧ da k = 0) ∨ (k ≠ .GA ∧ da k = 1) := by
  cases k <;> simp [da]
theorem db_cases (k : Kind) : (k = .GB ∧ db k = 0) ∨ (k ≠ .GB ∧ db k = 1) := by
  cases k <;> simp [db]

theorem consA_snoc (X : List Col) (c : Col) : consA (X ++ [c]) = consA X + stepP 0 c := by
  rw [consA_append, consA_cons]; simp
theorem consB_snoc (X : List Col) (c : Col) : consB (X ++ [c]) = consB X + stepK 0 c := by
  rw [consB_append, consB_cons]; simp

theorem stepP_da (st : Kind) (c : Col) (h : c ≠ .skip) : (stepP 0 c : Int) = da (colKind st c) := by
  cases c <;> simp_all [stepP, da, colKind]
theorem stepK_db (st : Kind) (c : Col) (h : c ≠ .skip) : (stepK 0 c : Int) = db (colKind st c) := by
  cases c <;> simp_all [stepK, db, colKind]

/-- the forward child: drop the last column of the first part -/
theorem dd_fwd (P : List Col) (lenA lenB : Nat) (P1 X1 Y2 : List Col) (sa mid sb k : Nat) (fk u : Kind)
    (hP : P = P1 ++ X1 ++ Y2) (hs : Col.skip ∉ X1)
    (hP1a : consA P1 = sa) (hP1b : consB P1 = sb) (hX1a : consA X1 + sa = mid) (hX1b : consB X1 = k)
    (hfk : lastKind .A P1 = fk) (hu : lastKind fk X1 = u)
    (hInvF : (sb = 0 ↔ sa = 0) ∨ fk = .GB) (hmid : mid < lenA) (hkb : sb + k ≤ lenB) (hne : X1 ≠ []) :
    ∃ a2 b2 : Nat, (a2 : Int) = (mid : Int) - da u ∧ (b2 : Int) = ((sb + k : Nat) : Int) - db u ∧
      DD P lenA lenB sa a2 sb b2 fk u ∧ a2 ≤ mid ∧ b2 ≤ sb + k := by
  rcases List.eq_nil_or_concat X1 with h0 | ⟨X', c, hX⟩
  · exact absurd h0 hne
  · rw [List.concat_eq_append] at hX
    subst hX
    have hc : c ≠ .skip := fun h => hs (by simp [h])
    rw [lastKind_snoc] at hu
    rw [consA_snoc] at hX1a
    rw [consB_snoc] at hX1b
    have h1 := stepP_da (lastKind fk X') c hc
    have h2 := stepK_db (lastKind fk X') c hc
    rw [hu] at h1 h2
    refine ⟨consA X' + sa, consB X' + sb, by omega, by omega, ?_, by omega, by omega⟩
    refine ⟨P1, X', c :: Y2, by rw [hP]; simp, hP1a, hP1b, rfl, rfl, hfk, ?_, hInvF, ?_⟩
    · rw [firstKind_cons_noskip .A (lastKind fk X') c Y2 hc]; exact hu
    · -- the far corner of the child is not the far corner of the problem, unless it ends in a gap-in-b column
      cases c with
      | skip => exact absurd rfl hc
      | gapB => right; rw [← hu]; rfl
      | both => left; simp only [stepP, stepK] at hX1a hX1b; omega
      | gapA => left; simp only [stepP, stepK] at hX1a hX1b; omega

/-- the backward child: drop the first column of the second part -/
theorem dd_bwd (P : List Col) (lenA lenB : Nat) (Y1 X2 P2 : List Col) (mid ea meet eb : Nat) (bk v : Kind)
    (hP : P = Y1 ++ X2 ++ P2) (hs : Col.skip ∉ X2)
    (hY1a : consA Y1 = mid) (hY1b : consB Y1 = meet) (hX2a : consA X2 + mid = ea) (hX2b : consB X2 + meet = eb)
    (hbk : firstKind .A P2 = bk) (hv : firstKind .A X2 = v)
    (hInvB : (eb = lenB ↔ ea = lenA) ∨ bk = .GB) (hvGA : v = .GA → 1 ≤ mid) (hne : X2 ≠ []) :
    ∃ a1 b1 : Nat, (a1 : Int) = (mid : Int) + da v ∧ (b1 : Int) = (meet : Int) + db v ∧
      DD P lenA lenB a1 ea b1 eb v bk ∧ mid ≤ a1 ∧ meet ≤ b1 ∧ (a1 - mid) + (b1 - meet) ≥ 1 := by
  cases X2 with
  | nil => exact absurd rfl hne
  | cons c X' =>
    have hc : c ≠ .skip := fun h => hs (by simp [h])
    rw [firstKind_cons_noskip .A (lastKind .A Y1) c X' hc] at hv
    rw [consA_cons] at hX2a
    rw [consB_cons] at hX2b
    have h1 := stepP_da (lastKind .A Y1) c hc
    have h2 := stepK_db (lastKind .A Y1) c hc
    rw [hv] at h1 h2
    refine ⟨mid + stepP 0 c, meet + stepK 0 c, by omega, by omega, ?_, by omega, by omega, ?_⟩
    · refine ⟨Y1 ++ [c], X', P2, by rw [hP]; simp, ?_, ?_, by omega, by omega, ?_, hbk, ?_, hInvB⟩
      · rw [consA_snoc]; omega
      · rw [consB_snoc]; omega
      · rw [lastKind_snoc]; exact hv
      · cases c with
        | skip => exact absurd rfl hc
        | gapB => right; rw [← hv]; rfl
        | both => left; simp only [stepP, stepK]; omega
        | gapA =>
          left
          have : 1 ≤ mid := hvGA (by rw [← hv]; rfl)
          simp only [stepP, stepK]; omega
    · cases c with
      | skip => exact absurd rfl hc
      | gapB => simp [stepP]
      | both => simp [stepP]
      | gapA => simp [stepK]

end Kalign
