import KalignModel.Lemmas.IndexCtrl
import KalignModel.Lemmas.IndexProf
import KalignModel.Lemmas.NoFaultAlign
/-!
# The checked `doAlign` agrees with the totalised one (slice AD, item 4)
-/
namespace Kalign
section
variable {β : Type} [Score β]

theorem prepOperandC_eq (ap : AlnParam β) (hw : ap.wf) (st : AlnState β) (hst : st.wf) (x o : Nat)
    (hx : x < st.nsip.size) (ho : o < st.nsip.size) :
    (prepOperandC ap st x o).run = some (prepOperand ap st x o) := by
  obtain ⟨w1, w2⟩ := hst
  unfold prepOperandC prepOperand
  have e1 : st.nsip[x]? = some st.nsip[x] := by simp [hx]
  have n2 : st.nsip.getD x 0 = st.nsip[x] := by simp [Array.getD, hx]
  rw [n2]
  by_cases h1 : st.nsip[x] = 1
  · cases hs : st.seqs[x]? with
    | none => simp [e1, h1]
    | some s =>
      by_cases ha : s.all (· < 23) = true
      · simp [e1, h1, ha, makeProfileC_eq ap hw s ha]
      · simp [e1, h1, ha]
  · have hx' : x < st.profile.size := by omega
    have hx'' : x < st.plen.size := by omega
    have p1 : st.profile[x]? = some st.profile[x] := by simp [hx']
    have p2 : st.profile.getD x none = st.profile[x] := by simp [Array.getD, hx']
    have l1 : st.plen[x]? = some st.plen[x] := by simp [hx'']
    have l2 : st.plen.getD x 0 = st.plen[x] := by simp [Array.getD, hx'']
    have o1 : st.nsip[o]? = some st.nsip[o] := by simp [ho]
    have o2 : st.nsip.getD o 0 = st.nsip[o] := by simp [Array.getD, ho]
    rw [p2, l2, o2]
    cases hp : st.profile[x] with
    | none => simp [e1, h1, p1, hp]
    | some p =>
      by_cases hsz : p.size = 64 * (st.plen[x] + 2)
      · simp [e1, h1, p1, hp, l1, hsz, o1, setGapPenaltiesC_eq]
      · simp [e1, h1, p1, hp, l1, hsz]

/-- what a successful `prepOperand` says about its result -/
theorem prepOperand_spec (ap : AlnParam β) (st : AlnState β) (x o len : Nat) (p : Array β)
    (h : prepOperand ap st x o = some (len, p)) :
    p.size = 64 * (len + 2) ∧
      (st.nsip.getD x 0 = 1 → ∃ s, st.seqs[x]? = some s ∧ s.all (· < 23) = true ∧ s.size = len) := by
  unfold prepOperand at h
  split at h
  · rename_i h1
    split at h
    · rename_i s hs
      split at h
      · rename_i ha
        simp only [Option.some.injEq, Prod.mk.injEq] at h
        obtain ⟨rfl, rfl⟩ := h
        exact ⟨size_makeProfile ap s, fun _ => ⟨s, hs, ha, rfl⟩⟩
      · cases h
    · cases h
  · rename_i h1
    split at h
    · rename_i q hq
      dsimp only at h
      split at h
      · rename_i hsz
        simp only [Option.some.injEq, Prod.mk.injEq] at h
        obtain ⟨rfl, rfl⟩ := h
        exact ⟨by rw [size_setGapPenalties]; exact hsz, fun h => absurd h h1⟩
      · cases h
    · cases h

omit [Score β] in
theorem seqs_getD_of_get? (st : AlnState β) (x : Nat) (s : Array Nat) (h : st.seqs[x]? = some s) :
    st.seqs.getD x #[] = s := by
  simp [Array.getD_eq_getD_getElem?, h]

theorem orientC_eq (ap : AlnParam β) (st : AlnState β) (a b lenA lenB : Nat) (pa pb : Array β)
    (hA : prepOperand ap st a b = some (lenA, pa)) (hB : prepOperand ap st b a = some (lenB, pb)) :
    (orientC st a b (st.nsip.getD a 0) (st.nsip.getD b 0) lenA lenB pa pb).run =
      some (some (orient (st.nsip.getD a 0) (st.nsip.getD b 0) lenA lenB (st.seqs.getD a #[]) (st.seqs.getD b #[]) pa pb)) := by
  obtain ⟨_, sA⟩ := prepOperand_spec ap st a b lenA pa hA
  obtain ⟨_, sB⟩ := prepOperand_spec ap st b a lenB pb hB
  unfold orientC orient
  by_cases h1 : st.nsip.getD a 0 = 1
  · obtain ⟨sa, ea, _, _⟩ := sA h1
    have ea' := seqs_getD_of_get? st a sa ea
    by_cases h2 : st.nsip.getD b 0 = 1
    · obtain ⟨sb, eb, _, _⟩ := sB h2
      have eb' := seqs_getD_of_get? st b sb eb
      rw [if_pos h1, if_pos h2, if_pos h1, if_pos h2, ea, eb, ea', eb']
      split <;> rfl
    · rw [if_pos h1, if_neg h2, if_pos h1, if_neg h2, ea, ea']
      rfl
  · by_cases h2 : st.nsip.getD b 0 = 1
    · obtain ⟨sb, eb, _, _⟩ := sB h2
      have eb' := seqs_getD_of_get? st b sb eb
      rw [if_neg h1, if_pos h2, if_neg h1, if_pos h2, eb, eb']
      rfl
    · rw [if_neg h1, if_neg h2, if_neg h1, if_neg h2]
      split <;> rfl

/-- the oriented operands are well-formed for the oriented lengths -/
theorem orient_lens (ap : AlnParam β) (st : AlnState β) (a b lenA lenB : Nat) (pa pb : Array β)
    (hA : prepOperand ap st a b = some (lenA, pa)) (hB : prepOperand ap st b a = some (lenB, pb)) :
    let os := orient (st.nsip.getD a 0) (st.nsip.getD b 0) lenA lenB (st.seqs.getD a #[]) (st.seqs.getD b #[]) pa pb
    os.1.lens? = some (if os.2 then (lenB, lenA) else (lenA, lenB)) := by
  obtain ⟨zA, sA⟩ := prepOperand_spec ap st a b lenA pa hA
  obtain ⟨zB, sB⟩ := prepOperand_spec ap st b a lenB pb hB
  intro os
  have hpp : ∀ (p q : Array β) (l m : Nat), p.size = 64 * (l + 2) → q.size = 64 * (m + 2) →
      (Operands.profprof p q : Operands β).lens? = some (l, m) := by
    intro p q l m hp hq
    simp only [Operands.lens?]
    rw [if_pos (by omega)]
    congr 2 <;> omega
  have hsp : ∀ (p : Array β) (s : Array Nat) (k l : Nat), p.size = 64 * (l + 2) → s.all (· < 23) = true →
      (Operands.seqprof p s k : Operands β).lens? = some (l, s.size) := by
    intro p s k l hp hs
    simp only [Operands.lens?]
    rw [if_pos ⟨hs, by omega, by omega⟩]
    congr 2; omega
  have hss : ∀ (s t : Array Nat), s.all (· < 23) = true → t.all (· < 23) = true →
      (Operands.seqseq s t : Operands β).lens? = some (s.size, t.size) := by
    intro s t hs ht
    simp only [Operands.lens?]
    rw [if_pos ⟨hs, ht⟩]
  show (orient _ _ _ _ _ _ _ _).1.lens? = some (if (orient _ _ _ _ _ _ _ _).2 then _ else _)
  unfold orient
  by_cases n1 : st.nsip.getD a 0 = 1
  · obtain ⟨sa, ea, alA, szA⟩ := sA n1
    rw [seqs_getD_of_get? st a sa ea]
    by_cases n2 : st.nsip.getD b 0 = 1
    · obtain ⟨sb, eb, alB, szB⟩ := sB n2
      rw [seqs_getD_of_get? st b sb eb, if_pos n1, if_pos n2]
      split
      · simp only [Bool.false_eq_true, if_false]; rw [hss sa sb alA alB, szA, szB]
      · simp only [if_true]; rw [hss sb sa alB alA, szA, szB]
    · rw [if_pos n1, if_neg n2]
      simp only [if_true]
      rw [hsp pb sa _ lenB zB alA, szA]
  · by_cases n2 : st.nsip.getD b 0 = 1
    · obtain ⟨sb, eb, alB, szB⟩ := sB n2
      rw [seqs_getD_of_get? st b sb eb, if_neg n1, if_pos n2]
      simp only [Bool.false_eq_true, if_false]
      rw [hsp pa sb _ lenA zA alB, szB]
    · rw [if_neg n1, if_neg n2]
      split
      · simp only [Bool.false_eq_true, if_false]; exact hpp pa pb lenA lenB zA zB
      · simp only [if_true]; exact hpp pb pa lenB lenA zB zA

theorem initMem_path_size (la lb : Nat) : (initMem la lb : Mem (Array (States β)) β).path.size = max la lb + 2 := by
  simp [initMem]

theorem dpTailC_eq (entry : Entry) (ap : AlnParam β) (hw : ap.wf) (st : AlnState β) (hst : st.wf) (a b c : Nat)
    (ha : a < st.nsip.size) (hb : b < st.nsip.size) (hc : c < st.nsip.size) (isLast : Bool) (lenA lenB : Nat)
    (pa pb : Array β) (os : Operands β × Bool)
    (hl : os.1.lens? = some (if os.2 then (lenB, lenA) else (lenA, lenB))) :
    (dpTailC entry ap st a b c isLast lenA lenB pa pb (st.nsip.getD a 0) (st.nsip.getD b 0) os).run =
      some (dpTail entry ap st a b c isLast lenA lenB pa pb os) := by
  obtain ⟨w1, w2⟩ := hst
  obtain ⟨ops, swapped⟩ := os
  unfold dpTailC dpTail
  dsimp only at hl ⊢
  generalize hlab : (if swapped = true then (lenB, lenA) else (lenA, lenB)) = lab at hl
  obtain ⟨la, lb⟩ := lab
  dsimp only
  have hrun := alnRunC_eq entry ap hw ops la lb hl (initMem la lb) (initMem_memS la lb).1 (initMem_memS la lb).2
  have hps : la < (alnRun entry ap ops la lb (initMem la lb)).path.size := by
    rw [alnRun_path_size, initMem_path_size]; omega
  have hpe := pathEntriesC_eq (alnRun entry ap ops la lb (initMem la lb)) la hps
  have s1 : asetC st.profile a (none : Option (Array β)) = some (st.profile.setIfInBounds a none) :=
    asetC_eq st.profile a (none : Option (Array β)) (by omega)
  have s2 : asetC (st.profile.setIfInBounds a none) b (none : Option (Array β)) =
      some ((st.profile.setIfInBounds a none).setIfInBounds b none) :=
    asetC_eq (st.profile.setIfInBounds a none) b (none : Option (Array β)) (by simp; omega)
  have s3 : ∀ v, asetC ((st.profile.setIfInBounds a none).setIfInBounds b none) c v =
      some (((st.profile.setIfInBounds a none).setIfInBounds b none).setIfInBounds c v) :=
    fun v => asetC_eq _ c v (by simp; omega)
  have s4 : ∀ v, asetC st.plen c v = some (st.plen.setIfInBounds c v) := fun v => asetC_eq _ c v (by omega)
  have s5 : ∀ v, asetC st.nsip c v = some (st.nsip.setIfInBounds c v) := fun v => asetC_eq _ c v hc
  generalize st.nsip.getD a 0 = na
  generalize st.nsip.getD b 0 = nb
  simp only [initMemC_eq, run_chk_some, pure_bind, hrun, hpe]
  by_cases hf : (alnRun entry ap ops la lb (initMem la lb)).fault = true
  · simp [hf]
  · simp only [hf, Bool.false_eq_true, if_false]
    cases hcodes : expandPath lenB
        (if swapped = true then mirrorPath lenA ((alnRun entry ap ops la lb (initMem la lb)).pathEntries la)
         else (alnRun entry ap ops la lb (initMem la lb)).pathEntries la) with
    | none => simp [mdl_none_bind]
    | some codes =>
      cases isLast with
      | true => simp [s1, s2, s3, s4, s5]
      | false =>
        have hup := updateNC_eq ap pa pb codes na nb
        cases hu : updateN ap pa pb codes na nb with
        | none =>
          rw [hu] at hup
          simp [OptionT.run_bind, hup, hu, Option.elimM]
        | some p =>
          rw [hu] at hup
          simp [hup, hu, s1, s2, s3, s4, s5]

/-- **every index of `doAlign` is in range** on a state whose vectors all have one entry per node: in particular the
five writes (`profile[a]`, `profile[b]`, `profile[c]`, `plen[c]`, `nsip[c]`) are never dropped -/
theorem doAlignC_eq (entry : Entry) (ap : AlnParam β) (hw : ap.wf) (st : AlnState β) (hst : st.wf) (a b c : Nat)
    (isLast : Bool) : (doAlignC entry ap st a b c isLast).run = some (doAlign entry ap st a b c isLast) := by
  by_cases hidx : a = b ∨ a ≥ st.nsip.size ∨ b ≥ st.nsip.size ∨ c ≥ st.nsip.size
  · unfold doAlignC doAlign
    rw [if_pos hidx, if_pos hidx]
    rfl
  have ha : a < st.nsip.size := by omega
  have hb : b < st.nsip.size := by omega
  have hc : c < st.nsip.size := by omega
  have pA := prepOperandC_eq ap hw st hst a b ha hb
  have pB := prepOperandC_eq ap hw st hst b a hb ha
  cases hA : prepOperand ap st a b with
  | none =>
    rw [hA] at pA
    unfold doAlignC doAlign
    rw [if_neg hidx, if_neg hidx, hA]
    simp [OptionT.run_bind, pA, Option.elimM]
  | some x =>
    obtain ⟨lenA, pa⟩ := x
    rw [hA] at pA
    cases hB : prepOperand ap st b a with
    | none =>
      rw [hB] at pB
      unfold doAlignC doAlign
      rw [if_neg hidx, if_neg hidx, hA, hB]
      simp [OptionT.run_bind, pA, pB, Option.elimM]
    | some y =>
      obtain ⟨lenB, pb⟩ := y
      rw [hB] at pB
      by_cases hlen : lenA = 0 ∨ lenB = 0
      · unfold doAlignC doAlign
        rw [if_neg hidx, if_neg hidx, hA, hB]
        simp [OptionT.run_bind, pA, pB, Option.elimM, hlen]
      · rw [doAlign_eq entry ap st a b c isLast lenA lenB pa pb hidx hlen hA hB]
        have hor := orientC_eq ap st a b lenA lenB pa pb hA hB
        have hl := orient_lens ap st a b lenA lenB pa pb hA hB
        have ht := dpTailC_eq entry ap hw st hst a b c ha hb hc isLast lenA lenB pa pb _ hl
        have n1 := getElem?_eq_some_getD st.nsip a 0 ha
        have n2 := getElem?_eq_some_getD st.nsip b 0 hb
        unfold doAlignC
        rw [if_neg hidx]
        simp only [OptionT.run_bind, pA, pB, Option.elimM, Option.pure_def, Option.bind_eq_bind, Option.bind_some,
          Option.elim_some, if_neg hlen, n1, n2, run_chk_some, OptionT.run_pure, hor, ht]

/-- `doAlign` keeps the sizes of the state vectors -/
theorem doAlign_sizes (entry : Entry) (ap : AlnParam β) (st st' : AlnState β) (out : AlignOut β) (a b c : Nat)
    (isLast : Bool) (h : doAlign entry ap st a b c isLast = some (st', out)) :
    st'.nsip.size = st.nsip.size ∧ st'.profile.size = st.profile.size ∧ st'.plen.size = st.plen.size ∧
      st'.seqs = st.seqs := by
  by_cases hidx : a = b ∨ a ≥ st.nsip.size ∨ b ≥ st.nsip.size ∨ c ≥ st.nsip.size
  · exfalso; unfold doAlign at h; rw [if_pos hidx] at h; cases h
  cases hA : prepOperand ap st a b with
  | none => exfalso; unfold doAlign at h; rw [if_neg hidx, hA] at h; cases h
  | some x =>
    obtain ⟨lenA, pa⟩ := x
    cases hB : prepOperand ap st b a with
    | none => exfalso; unfold doAlign at h; rw [if_neg hidx, hA, hB] at h; cases h
    | some y =>
      obtain ⟨lenB, pb⟩ := y
      by_cases hlen : lenA = 0 ∨ lenB = 0
      · exfalso; unfold doAlign at h; rw [if_neg hidx, hA, hB] at h
        change (if lenA = 0 ∨ lenB = 0 then _ else _) = _ at h
        rw [if_pos hlen] at h; cases h
      · rw [doAlign_eq entry ap st a b c isLast lenA lenB pa pb hidx hlen hA hB] at h
        generalize orient (st.nsip.getD a 0) (st.nsip.getD b 0) lenA lenB (st.seqs.getD a #[]) (st.seqs.getD b #[]) pa pb = os at h
        obtain ⟨ops, swapped⟩ := os
        simp [dpTail, Option.bind_eq_some_iff] at h
        obtain ⟨_, codes, _, h⟩ := h
        cases isLast with
        | true =>
          simp only [if_true, Option.some.injEq, Prod.mk.injEq] at h
          obtain ⟨rfl, _⟩ := h
          simp
        | false =>
          simp only [Bool.false_eq_true, if_false] at h
          cases hu : updateN ap pa pb codes (st.nsip[a]?.getD 0) (st.nsip[b]?.getD 0) with
          | none => rw [hu] at h; cases h
          | some p =>
            rw [hu] at h
            simp only [Option.map_some, Option.bind_some, Option.some.injEq, Prod.mk.injEq] at h
            obtain ⟨rfl, _⟩ := h
            simp

theorem doAlign_wf (entry : Entry) (ap : AlnParam β) (st st' : AlnState β) (out : AlignOut β) (a b c : Nat)
    (isLast : Bool) (h : doAlign entry ap st a b c isLast = some (st', out)) (hst : st.wf) : st'.wf := by
  obtain ⟨h1, h2, h3, _⟩ := doAlign_sizes entry ap st st' out a b c isLast h
  unfold AlnState.wf at hst ⊢
  omega

/-- **the progressive alignment over one global state vector never leaves its vectors**, whatever the task table -/
theorem alignTasksC_eq (entry : Entry) (ap : AlnParam β) (hw : ap.wf) (tasks : List (Nat × Nat × Nat)) (st : AlnState β)
    (hst : st.wf) : (alignTasksC entry ap tasks st).run = some (alignTasks entry ap tasks st) := by
  induction tasks generalizing st with
  | nil => rfl
  | cons t rest ih =>
    obtain ⟨a, b, c⟩ := t
    rw [alignTasksC, alignTasks, OptionT.run_bind, doAlignC_eq entry ap hw st hst a b c]
    cases hd : doAlign entry ap st a b c rest.isEmpty with
    | none => rfl
    | some r => exact ih r.1 (doAlign_wf entry ap st r.1 r.2 a b c _ hd hst)

omit [Score β] in
theorem init_wf (seqs : Array (Array Nat)) : (AlnState.init seqs : AlnState β).wf := by
  simp [AlnState.wf, AlnState.init]

end
end Kalign
