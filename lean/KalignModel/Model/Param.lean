import KalignModel.Gen.Param
import KalignModel.Gen.Consts
/-!
# Scoring parameters (aln_param.c `aln_param_init`, run_kalign.c `set_aln_type`)

The per-(biotype,type) defaults are the table `Gen.paramTable`, obtained by *executing* `aln_param_init`
on the grid; the override logic is the guard list `Gen.overrideGuardsT` parsed from the C text
("field f is assigned from variable s iff variable g >= 0").
-/
namespace Kalign

/-- parameter set over a value carrier `V` (Float32 in the executable tie, Int x1000 in proofs) -/
structure PSet (V : Type) where
  gpo : V
  gpe : V
  tgpe : V
  mat : Nat
  deriving Repr, DecidableEq

def PSet.get {V} (p : PSet V) : Nat → Option V
  | 0 => some p.gpo | 1 => some p.gpe | 2 => some p.tgpe | _ => none

def PSet.set {V} (p : PSet V) (f : Nat) (v : V) : PSet V :=
  match f with
  | 0 => { p with gpo := v } | 1 => { p with gpe := v } | 2 => { p with tgpe := v } | _ => p

def argVal {V} (gpo gpe tgpe : V) : Nat → Option V
  | 0 => some gpo | 1 => some gpe | 2 => some tgpe | _ => none

/-- the `if(g >= 0.0){ ap->f = s; }` statements, in source order -/
def applyGuards {V} (nonneg : V → Bool) (guards : List (Nat × Nat × Nat)) (p : PSet V) (gpo gpe tgpe : V) : PSet V :=
  guards.foldl (fun p (g, f, s) =>
    match argVal gpo gpe tgpe g, argVal gpo gpe tgpe s with
    | some gv, some sv => if nonneg gv then p.set f sv else p
    | _, _ => p) p

/-- the `switch(type)` has explicit cases 0..4 in both biotype branches; every other value takes `default:` -/
def normType (t : Int) : Int := if 0 ≤ t ∧ t ≤ 4 then t else 5

def lookupRow (bt : Nat) (t : Int) : Option Gen.ParamRow :=
  Gen.paramTable.find? fun r => r.biotype == bt && r.type == normType t

/-- `if(!(ap->gpo <= cap) || ...) ERROR`: a cap of 0 in `Gen.penaltyCaps` means the source has no bound for that field -/
def capOK {V} (le : V → Nat → Bool) (p : PSet V) : Bool :=
  let c := Gen.penaltyCaps
  (c.getD 0 0 == 0 || le p.gpo (c.getD 0 0)) && (c.getD 1 0 == 0 || le p.gpe (c.getD 1 0)) &&
  (c.getD 2 0 == 0 || le p.tgpe (c.getD 2 0))

/-- table lookup + overrides, before the final bound check -/
def alnParamInitCore (bt : Nat) (t : Int) (gpo gpe tgpe : Int) : Option (PSet Int) :=
  match lookupRow bt t with
  | some r => if r.ok then
      some (applyGuards (fun v => decide (0 ≤ v)) Gen.overrideGuardsT
        { gpo := r.gpo, gpe := r.gpe, tgpe := r.tgpe, mat := r.mat } gpo gpe tgpe)
    else none
  | none => none

/-- exact model (values x1000) -/
def alnParamInit (bt : Nat) (t : Int) (gpo gpe tgpe : Int) : Option (PSet Int) :=
  (alnParamInitCore bt t gpo gpe tgpe).bind fun p =>
    if capOK (fun v c => decide (v ≤ (c : Int) * 1000)) p then some p else none

/-- executable binary32 model (bit patterns in, bit patterns out) -/
def alnParamInitF (bt : Nat) (t : Int) (gpo gpe tgpe : Float32) : Option (PSet Float32) :=
  match lookupRow bt t with
  | some r => if r.ok then
      let p := applyGuards (fun v => v >= 0.0) Gen.overrideGuardsT
        { gpo := Float32.ofBits r.gpoBits.toUInt32, gpe := Float32.ofBits r.gpeBits.toUInt32,
          tgpe := Float32.ofBits r.tgpeBits.toUInt32, mat := r.mat } gpo gpe tgpe
      if capOK (fun v c => v <= c.toFloat32) p then some p else none
    else none
  | none => none

/-- `strstr(hay, needle) != NULL` on byte lists -/
def isInfix (needle : List Nat) : List Nat → Bool
  | [] => needle.isEmpty
  | h :: t => needle.isPrefixOf (h :: t) || isInfix needle t

/-- `set_aln_type`: `none` input (option absent) gives the "undefined" constant; no matching word fails -/
def setAlnType (arg : Option (List Nat)) : Option Int :=
  match arg with
  | none => some Gen.typeWhenAbsent
  | some w => match Gen.typeChainB.find? (fun e => isInfix e.1 w) with
    | some e => some e.2
    | none => if Gen.typeNoMatchFails then none else some 0

end Kalign
