import KalignModel.Gen.Consts
/-!
# DNA / protein detection (msa_op.c `detect_alphabet`) and alignment-status detection (`detect_aligned`)

`hist` is the 128-entry byte histogram `letter_freq`.
-/
namespace Kalign

inductive Bio where | protein | dna | unknown
  deriving DecidableEq, Repr

def Bio.code : Bio → Nat | .protein => 0 | .dna => 1 | .unknown => 2

/-- per-byte (numerator, denominator) of the DNA model / protein model -/
def pDna (c : Nat) : Nat × Nat := if Gen.dnaLettersB.contains c then Gen.prob_dna_letter else Gen.prob_dna_other
def pProt (c : Nat) : Nat × Nat := if Gen.proteinLettersB.contains c then Gen.prob_prot_letter else Gen.prob_prot_other

/-- exact decision: DNA iff  Π pDna(c)^n_c > Π pProt(c)^n_c, compared by cross-multiplication -/
def detectExact (hist : List Nat) : Bio :=
  let cs := hist.zipIdx
  let dn : Nat := cs.foldl (fun (acc : Nat) (nc : Nat × Nat) => acc * ((pDna nc.2).1 * (pProt nc.2).2) ^ nc.1) 1
  let pn : Nat := cs.foldl (fun (acc : Nat) (nc : Nat × Nat) => acc * ((pProt nc.2).1 * (pDna nc.2).2) ^ nc.1) 1
  if dn == pn then .unknown else if decide (dn > pn) then .dna else .protein

def ratio (p : Nat × Nat) : Float := Float.log (p.1.toFloat / p.2.toFloat)

/-- the C computation in doubles: `log(0.9999 * 1.0 / 12.0)` etc. are evaluated as written in the
source (product first, then quotient), accumulated over i = 0..127 for non-zero counts -/
def logP (num den : Float) : Float := Float.log (num / den)

structure DetectConsts where
  dnaLetter : Float
  dnaOther : Float
  protLetter : Float
  protOther : Float

/-- `log(a * 1.0 / b)` with a, b decimal literals; a is given x10^8 as in `Gen.prob_*` -/
def litLog (p : Nat × Nat) : Float :=
  -- p = (a * 10^8, b * 10^8): recover the source literals a = p.1 / 10^8, b = p.2 / 10^8
  Float.log ((p.1.toFloat / 100000000.0) * 1.0 / (p.2.toFloat / 100000000.0))

def detectF (hist : List Nat) : Bio :=
  let dL := litLog Gen.prob_dna_letter
  let dO := litLog Gen.prob_dna_other
  let pL := litLog Gen.prob_prot_letter
  let pO := litLog Gen.prob_prot_other
  let step := fun (acc : Float × Float) (nc : Nat × Nat) =>
    let (n, c) := nc
    if n = 0 then acc else
      let d := if Gen.dnaLettersB.contains c then dL else dO
      let p := if Gen.proteinLettersB.contains c then pL else pO
      (acc.1 + d * n.toFloat, acc.2 + p * n.toFloat)
  let (dp, pp) := hist.zipIdx.foldl step (0.0, 0.0)
  if dp == pp then .unknown else if dp > pp then .dna else .protein

/-- `detect_aligned`: rows given as (len, gaps). 0 = none set; codes as in msa_struct.h -/
def detectAligned (rows : List (Nat × List Nat)) : Nat :=
  let tot := rows.map fun (l, g) => l + g.sum
  let gaps := (rows.map fun (_, g) => g.sum).sum
  let mn := tot.foldl min (2147483647 : Nat)
  let mx := tot.foldl max 0
  if gaps != 0 then (if mn == mx then 2 else 3) else (if mn == mx then 3 else 1)

end Kalign
