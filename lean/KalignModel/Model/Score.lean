import KalignModel.Model.Weave
import KalignModel.Model.Param
/-!
# Alignment scores as the specification sees them (used by C07 / C08 / C12)

An alignment of code sequences `a` (rows) and `b` (columns of the DP matrix) is a column list over
`Col.both / Col.gapA / Col.gapB` (`gapA` consumes a residue of `b`, `gapB` a residue of `a`).

kalign's kernels do not agree on one cost for a gap run (DESIGN.md C07: the forward and backward kernels charge the
open/close of terminal runs differently, and a meetup join may charge one column of a run the terminal instead of the
internal extension penalty).  Every such *reading* charges each gap column at least `min gpe tgpe` and adds
non-negative open/close charges.  `upperScore` is therefore an upper bound of the score of a column list under every
reading; on gap-free column lists all readings coincide with it.
-/
namespace Kalign

/-- substitution part: sum of `sub a_i b_j` over the aligned columns -/
def subSum (sub : Nat → Nat → Int) : List Col → List Nat → List Nat → Int
  | [], _, _ => 0
  | .both :: cs, x :: a, y :: b => sub x y + subSum sub cs a b
  | .both :: cs, _, _ => subSum sub cs [] []
  | .gapA :: cs, a, _ :: b => subSum sub cs a b
  | .gapA :: cs, a, [] => subSum sub cs a []
  | .gapB :: cs, _ :: a, b => subSum sub cs a b
  | .gapB :: cs, [], b => subSum sub cs [] b
  | .skip :: cs, a, b => subSum sub cs a b

def gapCols (cs : List Col) : Nat := (cs.filter fun c => c == .gapA || c == .gapB).length

/-- upper bound of the score of `cs` under every reading of the gap costs -/
def upperScore (sub : Nat → Nat → Int) (cmin : Int) (cs : List Col) (a b : List Nat) : Int :=
  subSum sub cs a b - cmin * (gapCols cs : Int)

/-- the gap-free alignment of a sequence with itself -/
def diagCols (n : Nat) : List Col := List.replicate n .both

/-- table lookup (x1000) -/
def subOf (m : List (List Int)) (x y : Nat) : Int := (m.getD x []).getD y 0

/-- condition Φ on a parameter set restricted to the codes `< L` that can occur:
`2 s(x,y) ≤ s(x,x) + s(y,y)` and `s(x,x) + 2·min(gpe,tgpe) > 0`, penalties non-negative -/
def phi (m : List (List Int)) (gpo gpe tgpe : Int) (L : Nat) : Bool :=
  decide (0 ≤ gpo) && decide (0 ≤ gpe) && decide (0 ≤ tgpe) &&
  (List.range L).all fun x =>
    decide (0 < subOf m x x + 2 * min gpe tgpe) &&
    (List.range L).all fun y => decide (2 * subOf m x y ≤ subOf m x x + subOf m y y)

end Kalign
