import KalignModel.Model.Dist
/-! exact version of the `pair = 1` distance matrix (used by property C12 and the op `tree_exact`) -/
namespace Kalign

/-- the matrix of `d_estimation(pair = 1)` in units of 1/10000, exact:
`10000 * edit distance + MIN(10000, (len_a + len_b) / 2)`; the C code adds the two terms in binary32 -/
def distExact (seqs : List (List Nat)) (x y : Nat) : Int :=
  let a := seqs.getD (max x y) []
  let b := seqs.getD (min x y) []
  10000 * (((calcDistanceRaw a b).getD 0 : Nat) : Int) + ((min 10000 ((a.length + b.length) / 2) : Nat) : Int)

end Kalign
