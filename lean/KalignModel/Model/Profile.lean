import KalignModel.Model.Kernel
/-!
# Profiles (aln_setup.c: `make_profile_n`, `set_gap_penalties_n`, `update_n`)

A profile of length `len` is a flat array of `64*(len+2)` scores: column 0 and column `len+1` are
sentinels, column `i+1` belongs to residue `i`.  Layout of a column: `0..22` residue counts, `23..25` gap
counts, `27..29` gap penalties scaled by the partner's sequence count (written by
`set_gap_penalties_n`), `32..54` summed substitution scores, `55..57` summed `-gpo, -gpe, -tgpe`.
-/
namespace Kalign
section
variable {α : Type} [Score α]

local infixl:65 " +ₛ " => Score.add
local infixl:65 " -ₛ " => Score.sub
local infixl:70 " *ₛ " => Score.mul

/-- sentinel column (aln_setup.c:55-60, 84-89) -/
def sentinelCol (ap : AlnParam α) : Array α :=
  (((Array.replicate 64 (Score.zero : α)).set! 55 (Score.neg ap.gpo)).set! 56 (Score.neg ap.gpe)).set! 57
    (Score.neg ap.tgpe)

/-- column of one residue `c < 23` (aln_setup.c:63-82): `prof[c] += 1` on a zeroed column -/
def residueCol (ap : AlnParam α) (c : Nat) : Array α :=
  let col := (Array.replicate 64 (Score.zero : α)).set! c ((Score.zero : α) +ₛ Score.one)
  let col := (List.range 23).foldl (fun col j => col.set! (32 + j) (ap.sub c j)) col
  ((col.set! 55 (Score.neg ap.gpo)).set! 56 (Score.neg ap.gpe)).set! 57 (Score.neg ap.tgpe)

/-- `make_profile_n`; residue codes must be `< 23` (checked by the callers) -/
def makeProfile (ap : AlnParam α) (seq : Array Nat) : Array α :=
  seq.foldl (fun p c => p ++ residueCol ap c) (sentinelCol ap) ++ sentinelCol ap

/-- `set_gap_penalties_n` on all `len+2` columns -/
def setGapPenalties (prof : Array α) (nsip : Nat) : Array α :=
  let s : α := Score.ofNat nsip
  (List.range (prof.size / 64)).foldl (fun p col =>
    let b := 64 * col
    ((p.set! (b + 27) (p.getD (b + 55) Score.zero *ₛ s)).set! (b + 28) (p.getD (b + 56) Score.zero *ₛ s)).set!
      (b + 29) (p.getD (b + 57) Score.zero *ₛ s)) prof

/-- column `col` of a profile, `none` if outside -/
def colOf? (p : Array α) (col : Nat) : Option (Array α) :=
  if 64 * col + 64 ≤ p.size then some (p.extract (64 * col) (64 * col + 64)) else none

def addCols (x y : Array α) : Array α :=
  (Array.range 64).map fun i => x.getD i Score.zero +ₛ y.getD i Score.zero

@[inline] def bit (c k : Nat) : Bool := c / k % 2 == 1

/-- `for (j = 32; j < 55; j++) newp[j] -= gp` -/
def subRange (col : Array α) (gp : α) : Array α :=
  (List.range' 32 23).foldl (fun col j => col.set! j (col.getD j Score.zero -ₛ gp)) col

@[inline] def bumpAt (col : Array α) (k : Nat) (s : α) : Array α := col.set! k (col.getD k Score.zero +ₛ s)

/-- the gap bookkeeping of one gap column (aln_setup.c:259-305 / 313-357); `sip` = sequence count of
the side that receives the gap -/
def gapCol (ap : AlnParam α) (col : Array α) (code sip : Nat) : Array α :=
  let s : α := Score.ofNat sip
  let openBlock := fun (col : Array α) =>
    if bit code 32 then
      let col := bumpAt col 25 s
      let gp := ap.tgpe *ₛ s
      let col := bumpAt col 23 s
      let gp := gp +ₛ ap.gpo *ₛ s
      subRange col gp
    else
      subRange (bumpAt col 23 s) (ap.gpo *ₛ s)
  if !(bit code 4 || bit code 16) then
    if bit code 32 then subRange (bumpAt col 25 s) (ap.tgpe *ₛ s)
    else subRange (bumpAt col 24 s) (ap.gpe *ₛ s)
  else
    let col := if bit code 16 then openBlock col else col
    if bit code 4 then openBlock col else col

structure UpdState (α : Type) where
  pa : Nat          -- current column of profa
  pb : Nat
  out : Array α

/-- one iteration of the `while(path[c] != 3)` loop of `update_n`; `none` = a column outside a profile
would be read -/
def updateStep (ap : AlnParam α) (profa profb : Array α) (sipa sipb : Nat) (st : UpdState α) (code : Nat) :
    Option (UpdState α) := do
  -- `newp` column starts as whatever the previous content was (fresh malloc): every branch that applies
  -- overwrites all 64 entries; a code with none of the three cases would leave it uninitialised
  let mut pa := st.pa
  let mut pb := st.pb
  let mut col : Option (Array α) := none
  if code == 0 then
    let ca ← colOf? profa pa
    let cb ← colOf? profb pb
    col := some (addCols ca cb)
    pa := pa + 1
    pb := pb + 1
  if bit code 1 then
    let cb ← colOf? profb pb
    pb := pb + 1
    col := some (gapCol ap cb code sipa)
  if bit code 2 then
    let ca ← colOf? profa pa
    pa := pa + 1
    col := some (gapCol ap ca code sipb)
  match col with
  | none => none
  | some c => pure { pa := pa, pb := pb, out := st.out ++ c }

/-- `update_n(profa, profb, newp, ap, path, sipa, sipb)`; `codes` = `path[1..]` up to the terminator 3
(a code equal to 3 inside the list ends the loop as in C).  Result: `codes.length + 2` columns. -/
def updateN (ap : AlnParam α) (profa profb : Array α) (codes : List Nat) (sipa sipb : Nat) :
    Option (Array α) := do
  let c0a ← colOf? profa 0
  let c0b ← colOf? profb 0
  let st ← (codes.takeWhile (· ≠ 3)).foldlM (updateStep ap profa profb sipa sipb)
    { pa := 1, pb := 1, out := addCols c0a c0b }
  let ca ← colOf? profa st.pa
  let cb ← colOf? profb st.pb
  pure (st.out ++ addCols ca cb)

end
end Kalign
