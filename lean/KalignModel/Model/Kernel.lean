import KalignModel.Gen.Param
import KalignModel.Model.Param
/-!
# Dynamic-programming kernels (aln_seqseq.c, aln_seqprofile.c, aln_profileprofile.c)

The nine kernels (forward / backward / meetup for sequence-sequence, sequence-profile,
profile-profile) are copies of one loop skeleton that differ only in the cell formulas.  The model has
the skeleton once (`initRow`, `rowStep`, `runKernel`, `meetupLoop`) and the cell formulas per family,
transcribed expression by expression (same operation order: float addition is not associative).

Everything is polymorphic in a score carrier `α` with a `Score α` instance.  The executable
correspondence uses `Float32` (IEEE binary32, bit-exact with the C code compiled with
`-ffp-contract=off`); `ExactScore` is an exact carrier (integers in units of 1/2000 with an absorbing −∞)
for later proofs.

State rows: a kernel reads its start state from slot 0 of the state array and writes slots
`startb .. endb` (aln_seqseq.c:38-40, 132-134); `meetup` reads `f[i]`, `b[i]` for `startb ≤ i ≤ endb`.
The kernels are pure functions from the start state to the list of the written slots; `blit` writes
them back into the functional array.

Preconditions checked once at the entry points (`Rect.valid`, `Operands.valid`): with them no index
used below is out of range (profiles have `len+2` columns of 64 floats; the largest column touched is
`len+1`: aln_seqprofile.c:183 `prof1[91]`, aln_profileprofile.c:253 `prof2[91]`), so the `getD` defaults
are never taken.
-/
namespace Kalign

/-- score carrier -/
class Score (α : Type) where
  add : α → α → α
  sub : α → α → α
  mul : α → α → α
  neg : α → α
  /-- C `a > b` -/
  gt : α → α → Bool
  /-- `-FLT_MAX` -/
  negInf : α
  zero : α
  one : α
  /-- `(float)n` -/
  ofNat : Nat → α
  /-- C truth value of a float (`if(prof1[j])`) -/
  isNonzero : α → Bool
  /-- `fabsf((float)(c3 - c2)/2.0F + (float)c2 - (float)i) / 1000.0F` (the tie-break term of `meetup`) -/
  tie : Int → Int → Int → α

instance : Score Float32 where
  add := (· + ·)
  sub := (· - ·)
  mul := (· * ·)
  neg := fun x => -x
  gt := fun a b => decide (a > b)
  negInf := Float32.ofBits 0xff7fffff
  zero := 0.0
  one := 1.0
  ofNat := Float32.ofNat
  isNonzero := fun x => x != 0.0
  tie := fun c2 c3 i =>
    let middle : Float32 := Float32.ofInt (c3 - c2) / 2.0 + Float32.ofInt c2
    Float32.abs (middle - Float32.ofInt i) / 1000.0

/-- Exact carrier: `none` = −∞ (absorbing), `some n` = n/2000 score units.
`mul` is exact when one factor is a whole number of score units (residue counts). -/
abbrev ExactScore := Option Int

def ExactScore.scale : Int := 2000

instance : Score ExactScore where
  add := fun a b => match a, b with | some x, some y => some (x + y) | _, _ => none
  sub := fun a b => match a, b with | some x, some y => some (x - y) | _, _ => none
  mul := fun a b => match a, b with | some x, some y => some (x * y / ExactScore.scale) | _, _ => none
  neg := fun a => a.map (- ·)
  gt := fun a b => match a, b with
    | some x, some y => decide (x > y)
    | some _, none => true
    | none, _ => false
  negInf := none
  zero := some 0
  one := some ExactScore.scale
  ofNat := fun n => some (ExactScore.scale * n)
  isNonzero := fun a => a != some 0
  tie := fun c2 c3 i => some ((c3 + c2 - 2 * i).natAbs)

section
variable {α : Type} [Score α]

local infixl:65 " +ₛ " => Score.add
local infixl:65 " -ₛ " => Score.sub
local infixl:70 " *ₛ " => Score.mul

/-- C macro `MAX(a,b) (a > b ? a : b)` -/
@[inline] def smax (x y : α) : α := if Score.gt x y then x else y
/-- `MAX3(a,b,c) MAX(MAX(a,b),c)` -/
@[inline] def smax3 (x y z : α) : α := smax (smax x y) z

/-- `struct states` (aln_struct.h:9) -/
structure States (α : Type) where
  a : α
  ga : α
  gb : α
  deriving Repr, BEq, Inhabited

def States.negInf : States α := ⟨Score.negInf, Score.negInf, Score.negInf⟩

/-- `struct aln_param` (aln_param.h:22): 23x23 matrix, three penalties -/
structure AlnParam (α : Type) where
  subm : Array (Array α)
  gpo : α
  gpe : α
  tgpe : α

def AlnParam.sub (ap : AlnParam α) (i j : Nat) : α := (ap.subm.getD i #[]).getD j Score.zero

/-- profile entry `k` of column `col` -/
@[inline] def pget (p : Array α) (col k : Nat) : α := p.getD (64 * col + k) Score.zero

/-! ## the common loop skeleton -/

/-- cell formulas of one row; cells are numbered `k = 0..n` in scan order
(forward: `j = startb + k`, backward: `j = endb - k`) -/
structure RowOps (α : Type) where
  /-- first cell: `pgb pa ↦ gb` -/
  gbFirst : α → α → α
  /-- `k pa pga pgb ↦ a` for `k = 1..n` -/
  aCell : Nat → α → α → α → α
  /-- `k xga xa ↦ ga` for `k = 1..n-1` -/
  gaCell : Nat → α → α → α
  /-- `pgb ca ↦ gb` for `k = 1..n-1` -/
  gbMid : α → α → α
  /-- last cell: `gb ca ↦ gb` -/
  gbLast : α → α → α

/-- first DP row: cell 0 = start state, cells `1..n-1` a gap chain, cell `n` all −∞ -/
def initRowGo (gaInit : Nat → α → α → α) : Nat → Nat → States α → List (States α)
  | 0, _, _ => []
  | 1, _, _ => [States.negInf]
  | r + 2, k, prev =>
    let c : States α := ⟨Score.negInf, gaInit k prev.ga prev.a, Score.negInf⟩
    c :: initRowGo gaInit (r + 1) (k + 1) c

/-- `n+1` cells -/
def initRow (gaInit : Nat → α → α → α) (n : Nat) (start : States α) : List (States α) :=
  start :: initRowGo gaInit n 1 start

def rowGo (ops : RowOps α) : Nat → α → α → α → α → α → List (States α) → List (States α)
  | _, _, _, _, _, _, [] => []
  | k, pa, pga, pgb, _, _, [cl] => [⟨ops.aCell k pa pga pgb, Score.negInf, ops.gbLast cl.gb cl.a⟩]
  | k, pa, pga, pgb, xa, xga, c :: rest =>
    let na := ops.aCell k pa pga pgb
    let nga := ops.gaCell k xga xa
    let ngb := ops.gbMid c.gb c.a
    ⟨na, nga, ngb⟩ :: rowGo ops (k + 1) c.a c.ga c.gb na nga rest

/-- one row of the DP (the body of the `for i` / `while(i--)` loop) -/
def rowStep (ops : RowOps α) : List (States α) → List (States α)
  | [] => []
  | c0 :: rest =>
    ⟨Score.negInf, Score.negInf, ops.gbFirst c0.gb c0.a⟩ ::
      rowGo ops 1 c0.a c0.ga c0.gb Score.negInf Score.negInf rest

def runKernel (gaInit : Nat → α → α → α) (n : Nat) (start : States α) (rows : List (RowOps α)) :
    List (States α) :=
  rows.foldl (fun cells ops => rowStep ops cells) (initRow gaInit n start)

/-! ## rectangle and operands -/

/-- the part of `struct aln_mem` the kernels read; all `Nat` (the controller only calls kernels on
non-degenerate rectangles).  `starta/enda` are `starta_2/enda_2` for the backward kernels. -/
structure Rect where
  starta : Nat
  enda : Nat
  startb : Nat
  endb : Nat
  lenB : Nat
  deriving Repr

inductive Operands (α : Type) where
  /-- `m->seq1`, `m->seq2` -/
  | seqseq (seq1 seq2 : Array Nat)
  /-- `m->prof1`, `m->seq2`, `m->sip` -/
  | seqprof (prof1 : Array α) (seq2 : Array Nat) (sip : Nat)
  /-- `m->prof1`, `m->prof2` -/
  | profprof (prof1 prof2 : Array α)

/-- `len_a` / `len_b` implied by the operand sizes, if they are well-formed
(sequence codes < 23, profiles `64*(len+2)` floats) -/
def Operands.lens? : Operands α → Option (Nat × Nat)
  | .seqseq s1 s2 => if s1.all (· < 23) ∧ s2.all (· < 23) then some (s1.size, s2.size) else none
  | .seqprof p s2 _ =>
    if s2.all (· < 23) ∧ p.size % 64 = 0 ∧ p.size ≥ 128 then some (p.size / 64 - 2, s2.size) else none
  | .profprof p1 p2 =>
    if p1.size % 64 = 0 ∧ p1.size ≥ 128 ∧ p2.size % 64 = 0 ∧ p2.size ≥ 128 then
      some (p1.size / 64 - 2, p2.size / 64 - 2) else none

/-- rectangle inside the operands, non-degenerate in b (kernels need `startb < endb`) -/
def Rect.valid (r : Rect) (lenA lenB : Nat) : Bool :=
  r.starta ≤ r.enda ∧ r.enda ≤ lenA ∧ r.startb < r.endb ∧ r.endb ≤ lenB ∧ r.lenB = lenB

/-! ## sequence – sequence (aln_seqseq.c) -/

def ssGaInit (ap : AlnParam α) (term : Bool) : Nat → α → α → α := fun _ pga pa =>
  if term then smax pga pa -ₛ ap.tgpe else smax (pga -ₛ ap.gpe) (pa -ₛ ap.gpo)

def ssGb (ap : AlnParam α) (term : Bool) : α → α → α := fun gb ca =>
  if term then smax gb ca -ₛ ap.tgpe else smax (gb -ₛ ap.gpe) (ca -ₛ ap.gpo)

/-- aln_seqseq.c:14-108 -/
def ssForward (ap : AlnParam α) (seq1 seq2 : Array Nat) (r : Rect) (start : States α) : List (States α) :=
  let n := r.endb - r.startb
  let rows := (List.range' r.starta (r.enda - r.starta)).map fun i =>
    let c1 := seq1.getD i 0
    ({ gbFirst := ssGb ap (r.startb == 0)
       aCell := fun k pa pga pgb =>
         smax3 pa (pga -ₛ ap.gpo) (pgb -ₛ ap.gpo) +ₛ ap.sub c1 (seq2.getD (r.startb + k - 1) 0)
       gaCell := fun _ xga xa => smax (xga -ₛ ap.gpe) (xa -ₛ ap.gpo)
       gbMid := ssGb ap false
       gbLast := ssGb ap (r.endb == r.lenB) } : RowOps α)
  runKernel (ssGaInit ap (r.startb == 0)) n start rows

/-- aln_seqseq.c:110-224; result in order `j = startb .. endb` -/
def ssBackward (ap : AlnParam α) (seq1 seq2 : Array Nat) (r : Rect) (start : States α) : List (States α) :=
  let n := r.endb - r.startb
  let rows := ((List.range' r.starta (r.enda - r.starta)).reverse).map fun i =>
    let c1 := seq1.getD i 0
    ({ gbFirst := ssGb ap (r.endb == r.lenB)
       aCell := fun k pa pga pgb =>
         smax3 pa (pga -ₛ ap.gpo) (pgb -ₛ ap.gpo) +ₛ ap.sub c1 (seq2.getD (r.endb - k) 0)
       gaCell := fun _ xga xa => smax (xga -ₛ ap.gpe) (xa -ₛ ap.gpo)
       gbMid := ssGb ap false
       gbLast := ssGb ap (r.startb == 0) } : RowOps α)
  (runKernel (ssGaInit ap (r.endb == r.lenB)) n start rows).reverse

/-! ## sequence – profile (aln_seqprofile.c) -/

def spGaInit (open_ ext text : α) (term : Bool) : Nat → α → α → α := fun _ pga pa =>
  if term then smax pga pa -ₛ text else smax (pga -ₛ ext) (pa -ₛ open_)

/-- `MAX(gb+prof1[28], ca+prof1[27])` or `MAX(gb,ca)+prof1[29]` on profile column `col` -/
def profGb (p : Array α) (col : Nat) (term : Bool) : α → α → α := fun gb ca =>
  if term then smax gb ca +ₛ pget p col 29 else smax (gb +ₛ pget p col 28) (ca +ₛ pget p col 27)

/-- aln_seqprofile.c:12-121 -/
def spForward (ap : AlnParam α) (prof1 : Array α) (seq2 : Array Nat) (sip : Nat) (r : Rect)
    (start : States α) : List (States α) :=
  let n := r.endb - r.startb
  let open_ := ap.gpo *ₛ Score.ofNat sip
  let ext := ap.gpe *ₛ Score.ofNat sip
  let text := ap.tgpe *ₛ Score.ofNat sip
  let rows := (List.range' r.starta (r.enda - r.starta)).map fun i =>
    -- `prof1` points at column i+1; `prof1[-37]` is entry 27 of column i
    ({ gbFirst := profGb prof1 (i + 1) (r.startb == 0)
       aCell := fun k pa pga pgb =>
         smax3 pa (pga -ₛ open_) (pgb +ₛ pget prof1 i 27) +ₛ
           pget prof1 (i + 1) (32 + seq2.getD (r.startb + k - 1) 0)
       gaCell := fun _ xga xa => smax (xga -ₛ ext) (xa -ₛ open_)
       gbMid := profGb prof1 (i + 1) false
       gbLast := profGb prof1 (i + 1) (r.endb == r.lenB) } : RowOps α)
  runKernel (spGaInit open_ ext text (r.startb == 0)) n start rows

/-- aln_seqprofile.c:123-223 -/
def spBackward (ap : AlnParam α) (prof1 : Array α) (seq2 : Array Nat) (sip : Nat) (r : Rect)
    (start : States α) : List (States α) :=
  let n := r.endb - r.startb
  let open_ := ap.gpo *ₛ Score.ofNat sip
  let ext := ap.gpe *ₛ Score.ofNat sip
  let text := ap.tgpe *ₛ Score.ofNat sip
  let rows := ((List.range' r.starta (r.enda - r.starta)).reverse).map fun i =>
    -- `prof1` points at column i+1; `prof1[91]` is entry 27 of column i+2
    ({ gbFirst := profGb prof1 (i + 1) (r.endb == r.lenB)
       aCell := fun k pa pga pgb =>
         smax3 pa (pga -ₛ open_) (pgb +ₛ pget prof1 (i + 2) 27) +ₛ
           pget prof1 (i + 1) (32 + seq2.getD (r.endb - k) 0)
       gaCell := fun _ xga xa => smax (xga -ₛ ext) (xa -ₛ open_)
       gbMid := profGb prof1 (i + 1) false
       gbLast := profGb prof1 (i + 1) (r.startb == 0) } : RowOps α)
  (runKernel (spGaInit open_ ext text (r.endb == r.lenB)) n start rows).reverse

/-! ## profile – profile (aln_profileprofile.c) -/

/-- `freq[0..f]`: residue indices `< 23` with a non-zero count in the column, ascending -/
def freqOf (p : Array α) (col : Nat) : List Nat :=
  (List.range 23).filter fun j => Score.isNonzero (pget p col j)

/-- `for (c = f; c >= 0; c--) pa += prof1[freq[c]] * prof2[32 + freq[c]]`; `fr` = `freq` reversed -/
def dotAdd (p1 : Array α) (c1 : Nat) (p2 : Array α) (c2 : Nat) (fr : List Nat) (pa : α) : α :=
  fr.foldl (fun acc c => acc +ₛ pget p1 c1 c *ₛ pget p2 c2 (32 + c)) pa

/-- aln_profileprofile.c:16-164 -/
def ppForward (prof1 prof2 : Array α) (r : Rect) (start : States α) : List (States α) :=
  let n := r.endb - r.startb
  let gaInit : Nat → α → α → α := fun k pga pa =>
    let j := r.startb + k
    if r.startb == 0 then smax pga pa +ₛ pget prof2 j 29
    else smax (pga +ₛ pget prof2 j 28) (pa +ₛ pget prof2 j 27)
  let rows := (List.range' r.starta (r.enda - r.starta)).map fun i =>
    let fr := (freqOf prof1 (i + 1)).reverse
    ({ gbFirst := profGb prof1 (i + 1) (r.startb == 0)
       aCell := fun k pa pga pgb =>
         let j := r.startb + k
         dotAdd prof1 (i + 1) prof2 j fr
           (smax3 pa (pga +ₛ pget prof2 (j - 1) 27) (pgb +ₛ pget prof1 i 27))
       gaCell := fun k xga xa =>
         let j := r.startb + k
         smax (xga +ₛ pget prof2 j 28) (xa +ₛ pget prof2 j 27)
       gbMid := profGb prof1 (i + 1) false
       gbLast := profGb prof1 (i + 1) (r.endb == r.lenB) } : RowOps α)
  runKernel gaInit n start rows

/-- aln_profileprofile.c:166-302 -/
def ppBackward (prof1 prof2 : Array α) (r : Rect) (start : States α) : List (States α) :=
  let n := r.endb - r.startb
  let gaInit : Nat → α → α → α := fun k pga pa =>
    let j := r.endb - k
    if r.endb == r.lenB then smax pga pa +ₛ pget prof2 (j + 1) 29
    else smax (pga +ₛ pget prof2 (j + 1) 28) (pa +ₛ pget prof2 (j + 1) 27)
  let rows := ((List.range' r.starta (r.enda - r.starta)).reverse).map fun i =>
    let fr := (freqOf prof1 (i + 1)).reverse
    ({ gbFirst := profGb prof1 (i + 1) (r.endb == r.lenB)
       aCell := fun k pa pga pgb =>
         let j := r.endb - k
         dotAdd prof1 (i + 1) prof2 (j + 1) fr
           (smax3 pa (pga +ₛ pget prof2 (j + 2) 27) (pgb +ₛ pget prof1 (i + 2) 27))
       gaCell := fun k xga xa =>
         let j := r.endb - k
         smax (xga +ₛ pget prof2 (j + 1) 28) (xa +ₛ pget prof2 (j + 1) 27)
       gbMid := profGb prof1 (i + 1) false
       gbLast := profGb prof1 (i + 1) (r.startb == 0) } : RowOps α)
  (runKernel gaInit n start rows).reverse

/-! ## meetup -/

/-- penalty terms of the six transitions, applied to `f-part + b-part` (before the tie-break term) -/
structure MeetOps (α : Type) where
  /-- a → ga at column `i` -/
  g2 : Nat → α → α
  /-- a → gb -/
  g3 : α → α
  /-- ga → a at column `i` -/
  g5 : Nat → α → α
  /-- gb → gb inside the loop (`i < endb`): terminal penalty iff `startb == 0` -/
  g6 : α → α
  /-- gb → a -/
  g7 : α → α
  /-- gb → gb at `i == endb`: terminal penalty iff `endb == len_b` -/
  g6e : α → α

structure MeetAcc (α : Type) where
  max : α
  transition : Int
  c : Int

@[inline] def MeetAcc.try_ (acc : MeetAcc α) (v : α) (t : Int) (i : Nat) : MeetAcc α :=
  if Score.gt v acc.max then ⟨v, t, i⟩ else acc

/-- the `for(i = old_cor[2]; i < old_cor[3]; i++)` loop and the `i = old_cor[3]` tail
(aln_seqseq.c:253-330).  `fs`, `bs` list `f[i]`, `b[i]` for `i = startb .. endb`. -/
def meetupLoop (ops : MeetOps α) (sb eb : Nat) : Nat → List (States α) → List (States α) → MeetAcc α → MeetAcc α
  | i, [f], [b], acc =>
    let sub : α := Score.tie sb eb i
    let acc := acc.try_ (ops.g3 (f.a +ₛ b.gb) -ₛ sub) 3 i
    acc.try_ (ops.g6e (f.gb +ₛ b.gb) -ₛ sub) 6 i
  | i, f :: fs, b :: bs, acc =>
    let sub : α := Score.tie sb eb i
    let acc := acc.try_ (f.a +ₛ b.a -ₛ sub) 1 i
    let acc := acc.try_ (ops.g2 i (f.a +ₛ b.ga) -ₛ sub) 2 i
    let acc := acc.try_ (ops.g3 (f.a +ₛ b.gb) -ₛ sub) 3 i
    let acc := acc.try_ (ops.g5 i (f.ga +ₛ b.a) -ₛ sub) 5 i
    let acc := acc.try_ (ops.g6 (f.gb +ₛ b.gb) -ₛ sub) 6 i
    let acc := acc.try_ (ops.g7 (f.gb +ₛ b.a) -ₛ sub) 7 i
    meetupLoop ops sb eb (i + 1) fs bs acc
  | _, _, _, acc => acc

structure MeetResult (α : Type) where
  meet : Int
  transition : Int
  score : α

def meetupRun (ops : MeetOps α) (sb eb : Nat) (fs bs : List (States α)) : MeetResult α :=
  let r := meetupLoop ops sb eb sb fs bs ⟨Score.negInf, -1, -1⟩
  ⟨r.c, r.transition, r.max⟩

/-- aln_seqseq.c:227-348 -/
def ssMeetOps (ap : AlnParam α) (r : Rect) : MeetOps α :=
  { g2 := fun _ x => x -ₛ ap.gpo
    g3 := fun x => x -ₛ ap.gpo
    g5 := fun _ x => x -ₛ ap.gpo
    g6 := fun x => if r.startb == 0 then x -ₛ ap.tgpe else x -ₛ ap.gpe
    g7 := fun x => x -ₛ ap.gpo
    g6e := fun x => if r.endb == r.lenB then x -ₛ ap.tgpe else x -ₛ ap.gpe }

/-- aln_seqprofile.c:225-346; `mid = old_cor[4]`, `prof1` points at column `mid+1` -/
def spMeetOps (ap : AlnParam α) (prof1 : Array α) (sip : Nat) (r : Rect) (mid : Nat) : MeetOps α :=
  let open_ := ap.gpo *ₛ Score.ofNat sip
  { g2 := fun _ x => x -ₛ open_
    g3 := fun x => x +ₛ pget prof1 (mid + 1) 27
    g5 := fun _ x => x -ₛ open_
    g6 := fun x => if r.startb == 0 then x +ₛ pget prof1 (mid + 1) 29 else x +ₛ pget prof1 (mid + 1) 28
    g7 := fun x => x +ₛ pget prof1 mid 27
    g6e := fun x => if r.endb == r.lenB then x +ₛ pget prof1 (mid + 1) 29 else x +ₛ pget prof1 (mid + 1) 28 }

/-- aln_profileprofile.c:305-417; inside the loop `prof2` points at column `i+1` -/
def ppMeetOps (prof1 prof2 : Array α) (r : Rect) (mid : Nat) : MeetOps α :=
  { g2 := fun i x => x +ₛ pget prof2 (i + 1) 27
    g3 := fun x => x +ₛ pget prof1 (mid + 1) 27
    g5 := fun i x => x +ₛ pget prof2 i 27
    g6 := fun x => if r.startb == 0 then x +ₛ pget prof1 (mid + 1) 29 else x +ₛ pget prof1 (mid + 1) 28
    g7 := fun x => x +ₛ pget prof1 mid 27
    g6e := fun x => if r.endb == r.lenB then x +ₛ pget prof1 (mid + 1) 29 else x +ₛ pget prof1 (mid + 1) 28 }

/-! ## dispatch on the operands (aln_controller.c:65-103: `if(m->seq1) … else if(m->prof2) … else …`) -/

def kForward (ap : AlnParam α) (ops : Operands α) (r : Rect) (start : States α) : List (States α) :=
  match ops with
  | .seqseq s1 s2 => ssForward ap s1 s2 r start
  | .seqprof p s2 sip => spForward ap p s2 sip r start
  | .profprof p1 p2 => ppForward p1 p2 r start

def kBackward (ap : AlnParam α) (ops : Operands α) (r : Rect) (start : States α) : List (States α) :=
  match ops with
  | .seqseq s1 s2 => ssBackward ap s1 s2 r start
  | .seqprof p s2 sip => spBackward ap p s2 sip r start
  | .profprof p1 p2 => ppBackward p1 p2 r start

/-- `r.startb/endb/lenB` = `m->startb/endb/len_b`; `mid = old_cor[4]` (`old_cor[2..3]` equal
`m->startb/endb` at every call site) -/
def kMeetup (ap : AlnParam α) (ops : Operands α) (r : Rect) (mid : Nat) (fs bs : List (States α)) :
    MeetResult α :=
  match ops with
  | .seqseq _ _ => meetupRun (ssMeetOps ap r) r.startb r.endb fs bs
  | .seqprof p _ sip => meetupRun (spMeetOps ap p sip r mid) r.startb r.endb fs bs
  | .profprof p1 p2 => meetupRun (ppMeetOps p1 p2 r mid) r.startb r.endb fs bs

end

/-! ## parameters from the generated tables -/

/-- `aln_param_init` (aln_param.c:16-100) for a `(biotype, type)` of the generated grid; a penalty
argument `>= 0.0` replaces the table value.  `none` = the C function fails (`ok = false`) or the pair
is not in the grid. -/
def paramOfTable (biotype : Nat) (type : Int) (gpo gpe tgpe : Float32) : Option (AlnParam Float32) :=
  match alnParamInitF biotype type gpo gpe tgpe with
  | none => none
  | some p =>
    match Gen.matricesBits[p.mat]? with
    | none => none
    | some rows =>
      let subm : Array (Array Float32) :=
        (Array.range 23).map fun i => (Array.range 23).map fun j =>
          Float32.ofBits (UInt32.ofNat ((rows.getD i []).getD j 0))
      some { subm := subm, gpo := p.gpo, gpe := p.gpe, tgpe := p.tgpe }

end Kalign
