import KalignModel.Model.Hirschberg
import KalignModel.Model.Profile
import KalignModel.Model.Path
/-!
# `do_align` (aln_run.c:121-281): one merge of the progressive alignment

Only the dynamic-programming side is modelled here: profiles, lengths, sequence counts, the Hirschberg
path, its mirror image for swapped operands, the gap-info path and the new profile.  The gap vectors of
the member sequences (`make_seq`) are the weave slice (Model/Weave.lean, Model/Progressive.lean).
-/
namespace Kalign
section
variable {α : Type} [Score α]

/-- which entry point of the controller a run uses -/
inductive Entry where
  | parallel   -- `aln_runner`
  | serial     -- `aln_runner_serial`
  deriving DecidableEq, Repr

/-- run the controller on `m` with the real kernels -/
def alnRun (entry : Entry) (ap : AlnParam α) (ops : Operands α) (lenA lenB : Nat)
    (m : Mem (Array (States α)) α) : Mem (Array (States α)) α :=
  let K := realKernels ap ops lenA lenB
  match entry with
  | .parallel => runner K false m.fuel m
  | .serial => runnerSerial K false m.fuel m

/-- `path[1..len_a]` -/
def Mem.pathEntries {φ : Type} (m : Mem φ α) (lenA : Nat) : List Int :=
  (List.range' 1 lenA).map fun i => m.path.getD i (-1)

/-- the state `do_align` works on: `msa->sequences[i]->s`, `t->profile`, `msa->plen`, `msa->nsip` -/
structure AlnState (α : Type) where
  seqs : Array (Array Nat)
  profile : Array (Option (Array α))
  plen : Array Nat
  nsip : Array Nat

def AlnState.init (seqs : Array (Array Nat)) : AlnState α :=
  let n := seqs.size
  { seqs := seqs, profile := Array.replicate (2 * n - 1) none,
    plen := Array.replicate (2 * n - 1) 0,
    nsip := (Array.range (2 * n - 1)).map fun i => if i < n then 1 else 0 }

structure AlignOut (α : Type) where
  /-- Hirschberg path `path[1..len_a]` in the orientation of `(a, b)` (after `mirror_path_n`) -/
  rawPath : List Int
  /-- `path[1..path[0]]` after `add_gap_info_to_path_n` -/
  codes : List Nat
  mon : Bool
  trace : List (TraceEntry α)

/-- profile and length of operand `x` as `do_align` prepares it (aln_run.c:133-147) -/
def prepOperand (ap : AlnParam α) (st : AlnState α) (x other : Nat) : Option (Nat × Array α) :=
  if st.nsip.getD x 0 = 1 then
    match st.seqs[x]? with
    | some s => if s.all (· < 23) then some (s.size, makeProfile ap s) else none
    | none => none
  else
    match st.profile.getD x none with
    | some p =>
      let len := st.plen.getD x 0
      if p.size = 64 * (len + 2) then some (len, setGapPenalties p (st.nsip.getD other 0)) else none
    | none => none

/-- `do_align(msa, t, m, task_id)` for the task `(a, b, c)`; `isLast` = `task_id == t->n_tasks-1`
(then `update_n` is skipped and `t->profile[c]` stays uninitialised memory: `none`).
`none` = fault (missing operand, `add_gap_info_to_path_n` running off its array, kernel fault). -/
def doAlign (entry : Entry) (ap : AlnParam α) (st : AlnState α) (a b c : Nat) (isLast : Bool) :
    Option (AlnState α × AlignOut α) := do
  if a = b ∨ a ≥ st.nsip.size ∨ b ≥ st.nsip.size ∨ c ≥ st.nsip.size then none
  let (lenA, pa) ← prepOperand ap st a b
  let (lenB, pb) ← prepOperand ap st b a
  if lenA = 0 ∨ lenB = 0 then none   -- not reachable from kalign (empty sequences are rejected on input)
  let na := st.nsip.getD a 0
  let nb := st.nsip.getD b 0
  let sa := st.seqs.getD a #[]
  let sb := st.seqs.getD b #[]
  -- operands in the orientation the controller sees them, and whether they are swapped
  let (ops, swapped) : Operands α × Bool :=
    if na = 1 then
      if nb = 1 then
        if lenA < lenB then (.seqseq sa sb, false) else (.seqseq sb sa, true)
      else (.seqprof pb sa nb, true)
    else
      if nb = 1 then (.seqprof pa sb na, false)
      else if lenA < lenB then (.profprof pa pb, false) else (.profprof pb pa, true)
  let (la, lb) := if swapped then (lenB, lenA) else (lenA, lenB)
  -- `init_alnmem` runs with the unswapped lengths; it is symmetric in them except for the rectangle,
  -- which the swapped branches overwrite (`m->enda = len_b; m->endb = len_a`)
  let m0 : Mem (Array (States α)) α := initMem la lb
  let m := alnRun entry ap ops la lb m0
  if m.fault then none
  let raw := m.pathEntries la
  let path := if swapped then mirrorPath lenA raw else raw
  let codes ← expandPath lenB path
  let newp ← if isLast then pure none else (updateN ap pa pb codes na nb).map some
  let st' : AlnState α :=
    { st with
      profile := ((st.profile.set! a none).set! b none).set! c newp
      plen := st.plen.set! c codes.length
      nsip := st.nsip.set! c (na + nb) }
  pure (st', { rawPath := path, codes := codes, mon := m.mon, trace := m.trace.reverse })

end
end Kalign
