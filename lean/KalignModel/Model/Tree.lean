import KalignModel.Model.Dist
/-!
# UPGMA guide tree for fewer than 100 sequences (lib/src/bisectingKmeans.c, lib/src/task.c)

`upgma` (Float32, exactly the C arithmetic `(a+b)*0.5F + 0.001F`, strict `<` first-minimum scan over the
active rows), `labelInternal`, `createTasks`, `sortTasks`; `guideTasks` = the `num_samples < 100` branch of
`bisecting_kmeans` followed by `label_internal`, `create_tasks` and `sort_tasks(TASK_ORDER_TREE)`.
`upgmaExact` is the same procedure over exact (scaled integer) arithmetic, used by property C12.
-/
namespace Kalign

inductive GTree where
  | leaf (id : Nat)
  | node (l r : GTree)
deriving Repr, BEq, Inhabited

namespace GTree
def leaves : GTree → List Nat
  | leaf i => [i]
  | node l r => l.leaves ++ r.leaves
/-- all subtrees (the tree itself included) -/
def subtrees : GTree → List GTree
  | leaf i => [leaf i]
  | node l r => node l r :: (l.subtrees ++ r.subtrees)
end GTree

/-- tree with ids on internal nodes -/
inductive LTree where
  | leaf (id : Nat)
  | node (l r : LTree) (id : Nat)
deriving Repr, BEq

def LTree.id : LTree → Nat
  | leaf i => i
  | node _ _ i => i

/-- `label_internal(n, label)`: post-order numbering of the internal nodes (ids of leaves are never -1) -/
def labelInternal : GTree → Nat → LTree × Nat
  | .leaf i, label => (.leaf i, label)
  | .node l r, label =>
    let a := labelInternal l label
    let b := labelInternal r a.2
    (.node a.1 b.1 b.2, b.2 + 1)

structure Task where
  a : Nat
  b : Nat
  c : Nat
deriving Repr, BEq

/-- `create_tasks`: pre-order -/
def createTasks : LTree → List Task
  | .leaf _ => []
  | .node l r i => ⟨l.id, r.id, i⟩ :: (createTasks l ++ createTasks r)

def insertTask (t : Task) : List Task → List Task
  | [] => [t]
  | u :: us => if t.c < u.c then t :: u :: us else u :: insertTask t us

/-- `sort_tasks(t, TASK_ORDER_TREE)`: `qsort` on `c`; the comparator never returns 0, which is harmless because
the `c` values of a task list are pairwise distinct, so the sorted order is unique -/
def sortTasks (ts : List Task) : List Task := ts.foldr insertTask []

/-! ## Float32 UPGMA -/

def FLT_MAX : Float32 := Float32.ofBits 0x7f7fffff
def f0_5 : Float32 := Float32.ofBits 0x3f000000
/-- the float constant `0.001F` -/
def f0_001 : Float32 := Float32.ofBits 0x3a83126f

abbrev FMat := Array (Array Float32)
def FMat.get (dm : FMat) (i j : Nat) : Float32 := (dm.getD i #[]).getD j 0
def FMat.set (dm : FMat) (i j : Nat) (v : Float32) : FMat := dm.setIfInBounds i ((dm.getD i #[]).setIfInBounds j v)

structure Scan where
  mx : Float32
  a : Nat
  b : Nat
  found : Bool

/-- the double loop looking for the first strict minimum among the active pairs `i < j` -/
def scanMin (n : Nat) (dm : FMat) (act : Array Bool) : Scan :=
  (List.range (n - 1)).foldl (fun s i =>
    if act.getD i false then
      (List.range' (i + 1) (n - (i + 1))).foldl (fun s j =>
        if act.getD j false then
          if dm.get i j < s.mx then { mx := dm.get i j, a := i, b := j, found := true } else s
        else s) s
    else s) { mx := FLT_MAX, a := 0, b := 0, found := false }

structure UpgmaSt where
  dm : FMat
  act : Array Bool
  tree : Array (Option GTree)
  last : Nat

/-- one round of the `while (cnode != numprofiles)` loop; `none`: no entry below `FLT_MAX` among the active pairs
(the C code would then reuse stale `node_a/node_b`) or a NULL subtree -/
def upgmaRound (n : Nat) (s : UpgmaSt) : Option UpgmaSt :=
  let sc := scanMin n s.dm s.act
  if !sc.found then none else
  match s.tree.getD sc.a none, s.tree.getD sc.b none with
  | some ta, some tb =>
    let a := sc.a
    let b := sc.b
    let tree := (s.tree.setIfInBounds a (some (.node ta tb))).setIfInBounds b none
    let act := s.act.setIfInBounds b false
    -- for (j = numseq; j--;) if (j != node_b) dm[a][j] = (dm[a][j] + dm[b][j])*0.5F + 0.001F;
    let dm := (List.range n).foldr (fun j dm =>
      if j ≠ b then dm.set a j ((dm.get a j + dm.get b j) * f0_5 + f0_001) else dm) s.dm
    let dm := dm.set a a 0
    -- for (j = numseq; j--;) dm[j][a] = dm[a][j];
    let dm := (List.range n).foldr (fun j dm => dm.set j a (dm.get a j)) dm
    some { dm := dm, act := act, tree := tree, last := a }
  | _, _ => none

def iterOpt {σ : Type} (f : σ → Option σ) : Nat → σ → Option σ
  | 0, s => some s
  | k + 1, s => (f s).bind (iterOpt f k)

/-- `upgma(dm, samples, numseq)`; `none` also for `numseq = 0` (the C loop would not terminate properly) -/
def upgma (dm : List (List Float32)) (samples : List Nat) : Option GTree :=
  let n := samples.length
  if n = 0 then none else
  let st0 : UpgmaSt := { dm := (dm.map List.toArray).toArray, act := Array.replicate n true,
                         tree := (samples.map fun i => some (GTree.leaf i)).toArray, last := 0 }
  (iterOpt (upgmaRound n) (n - 1) st0).bind fun st => st.tree.getD st.last none

/-- tree → sorted task list -/
def tasksOf (t : GTree) (numseq : Nat) : List Task :=
  sortTasks (createTasks (labelInternal t numseq).1)

/-- guide tree of fewer than 100 sequences: `d_estimation(pair=1)`, `upgma`, `label_internal`, `create_tasks`, `sort_tasks` -/
def guideTree (seqs : List (List Nat)) : Option GTree :=
  (distMatrix seqs).bind fun dm => upgma dm (List.range seqs.length)

def guideTasks (seqs : List (List Nat)) : Option (List Task) :=
  (guideTree seqs).map fun t => tasksOf t seqs.length

/-! ## exact UPGMA

Entries are integers; the value represented at stage `s` (after `s` joins) is `entry / 2^s` times a fixed unit.
A join replaces row/column `a` by `dm a j + dm b j + 2^(s+1) * delta` and doubles every other entry, which is
`(x + y)/2 + delta` in the represented values.  `delta` represents the constant `0.001F`. -/

structure EState where
  tab : Array (Array Int)
  act : Nat → Bool
  tree : Nat → GTree
  stage : Nat
  last : Nat

/-- first strict minimum over a list of candidate pairs -/
def firstMin (dm : Nat → Nat → Int) : List (Nat × Nat) → Option (Nat × Nat) → Option (Nat × Nat)
  | [], best => best
  | (i, j) :: rest, none => firstMin dm rest (some (i, j))
  | (i, j) :: rest, some (a, b) => firstMin dm rest (if dm i j < dm a b then some (i, j) else some (a, b))

/-- active pairs `i < j < n` in scan order -/
def activePairs (n : Nat) (act : Nat → Bool) : List (Nat × Nat) :=
  (List.range n).flatMap fun i =>
    if act i then ((List.range n).filter fun j => decide (i < j) && act j).map fun j => (i, j) else []

/-- a matrix on `n × n` stored in arrays -/
def mkTab (n : Nat) (f : Nat → Nat → Int) : Array (Array Int) :=
  Array.ofFn (n := n) fun i => Array.ofFn (n := n) fun j => f i.val j.val

def tabGet (a : Array (Array Int)) (i j : Nat) : Int := (a.getD i #[]).getD j 0

def EState.dm (s : EState) : Nat → Nat → Int := tabGet s.tab

/-- the matrix after joining `a` and `b` at stage `stage` -/
def joinDm (delta : Int) (stage : Nat) (dm : Nat → Nat → Int) (a b : Nat) : Nat → Nat → Int :=
  let row : Nat → Int := fun j => if j = a then 0 else if j = b then 2 * dm a j
                                  else dm a j + dm b j + 2 ^ (stage + 1) * delta
  fun i j => if i = a then row j else if j = a then row i else 2 * dm i j

def exactRound (n : Nat) (delta : Int) (s : EState) : Option EState :=
  match firstMin s.dm (activePairs n s.act) none with
  | none => none
  | some (a, b) =>
    some { tab := mkTab n (joinDm delta s.stage s.dm a b),
           act := fun i => if i = b then false else s.act i,
           tree := fun i => if i = a then .node (s.tree a) (s.tree b) else s.tree i,
           stage := s.stage + 1, last := a }

/-- UPGMA over exact arithmetic with the control flow of the C function -/
def upgmaExact (n : Nat) (dm : Nat → Nat → Int) (delta : Int) : Option GTree :=
  if n = 0 then none else
  let st0 : EState := { tab := mkTab n dm, act := fun _ => true, tree := GTree.leaf, stage := 0, last := 0 }
  (iterOpt (exactRound n delta) (n - 1) st0).map fun st => st.tree st.last

end Kalign
