import KalignModel.Model.Weave
/-!
# Path model (aln_setup.c:120-227 `add_gap_info_to_path_n`, :376-400 `mirror_path_n`)

A Hirschberg path is `path[1..len_a]`, each entry the 1-based partner in b, or -1.
-/
namespace Kalign

/-- codes emitted for one path entry `p` given the previous entry `b` (aln_setup.c:158-177) -/
def expandEntry (b p : Int) : List Nat :=
  if p = -1 then [2]
  else if p - 1 ≠ b ∧ b ≠ -1 then List.replicate (p - b - 1).toNat 1 ++ [0]
  else [0]

def expandRest : Int → List Int → List Nat
  | _, [] => []
  | b, p :: ps => expandEntry b p ++ expandRest p ps

/-- first entry (aln_setup.c:141-156) -/
def expandFirst (p : Int) : List Nat :=
  if p = -1 then [2]
  else if p ≠ 1 then List.replicate (p - 1).toNat 1 ++ [0]
  else [0]

/-- trailing residues of b (aln_setup.c:181-187) -/
def expandTail (lenB : Nat) (last : Int) : List Nat :=
  if last < (lenB : Int) ∧ last ≠ -1 then List.replicate ((lenB : Int) - last).toNat 1 else []

/-- column codes before the terminal flags; `path` must be non-empty (len_a ≥ 1) -/
def expandCore (lenB : Nat) : List Int → List Nat
  | [] => []
  | p :: ps => expandFirst p ++ expandRest p ps ++ expandTail lenB ((p :: ps).getLast?.getD p)

/-- OR 32 onto the maximal prefix of non-zero codes -/
def markPrefix : List Nat → List Nat
  | [] => []
  | c :: cs => if c = 0 then c :: cs else (c ||| 32) :: markPrefix cs

def markSuffix (l : List Nat) : List Nat := (markPrefix l.reverse).reverse

/-- `add_gap_info_to_path_n`.  The internal-gap flag loop (aln_setup.c:194) tests `o_path[j] != 3`
with `j` fixed at the terminator and therefore never runs; only the terminal flag 32 is set.
If no code is 0 the two terminal loops run over the terminator and out of the written prefix:
that is reported as `none` (fault). -/
def expandPath (lenB : Nat) (path : List Int) : Option (List Nat) :=
  let core := expandCore lenB path
  if core.all (· ≠ 0) then none else some (markSuffix (markPrefix core))

/-- `mirror_path_n`: `apath` = entries 1..len_b of the swapped problem; result = entries 1..len_a. -/
def mirrorPath (lenA : Nat) (apath : List Int) : List Int :=
  let upd := fun (o : List Int) (ip : Nat × Int) =>
    if ip.2 ≤ 0 then o else o.set (ip.2.toNat - 1) (ip.1 + 1 : Nat)
  (apath.zipIdx.map fun (p, i) => (i, p)).foldl upd (List.replicate lenA (-1))

end Kalign
