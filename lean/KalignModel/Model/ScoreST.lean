import KalignModel.Model.Hirschberg
import KalignModel.Model.Score
/-!
# The reference score `scoreST` (C07)

kalign's kernels do not agree on one cost for terminal gap runs (see `Props/C07Opt.lean`).  The reference is the
consistent score **S_T** (units of 1/2000, like `ExactScore`):

* an aligned column adds `sub x y`;
* an internal run of `L` gap columns costs `2·gpo + (L−1)·gpe`;
* a leading or trailing run of `L` gap columns costs `L·tgpe` (no open/close charge).

`scoreST` computes it in one pass with positions: a gap column belongs to a terminal run iff it is a gap-in-b column in
front of the first or behind the last residue of b (`j = 0` or `j = len_b`), or a gap-in-a column with `i = 0` or
`i = len_a` — for a complete column list without a gap-in-a run next to a gap-in-b run that is the same thing as
"belongs to the first or to the last run".  The cost of a run is spread over its columns (`stCol`: `tgpe` per terminal
column) and over the *edges* between consecutive columns (`stE`: `gpo` for entering or leaving an internal run, `gpe`
inside one, nothing at a terminal run); the edge cost is symmetric in the two columns, which makes the score the
same read forwards or backwards.
-/
namespace Kalign

/-- the data of a scoring problem: lengths, penalties, `sc i j` = substitution score of `a[i]` with `b[j]` -/
structure STW where
  lenA : Nat
  lenB : Nat
  gpo : Int
  gpe : Int
  tgpe : Int
  sc : Nat → Nat → Int

/-- kind after a column (`skip` never occurs in a valid list; it keeps the kind) -/
def colKind (st : Kind) : Col → Kind
  | .both => .A
  | .gapA => .GA
  | .gapB => .GB
  | .skip => st

/-- row / column index after a column -/
def stepP (p : Nat) : Col → Nat
  | .both => p + 1 | .gapB => p + 1 | _ => p
def stepK (k : Nat) : Col → Nat
  | .both => k + 1 | .gapA => k + 1 | _ => k

/-- a gap column of kind `g` at node `(i,j)` lies in a terminal (leading or trailing) run -/
def STW.termK (w : STW) (g : Kind) (i j : Nat) : Bool :=
  match g with
  | .A => false
  | .GA => decide (i = 0) || decide (i = w.lenA)
  | .GB => decide (j = 0) || decide (j = w.lenB)

/-- score of the edge between a column of kind `u` and the next column of kind `v`, at the node `(i,j)` between them -/
def STW.stE (w : STW) (u v : Kind) (i j : Nat) : Int :=
  match u, v with
  | .A, .A => 0
  | .A, g => if w.termK g i j then 0 else - w.gpo
  | g, .A => if w.termK g i j then 0 else - w.gpo
  | g, g' => if w.termK g' i j then 0 else if g = g' then - w.gpe else - w.gpo

/-- score of a column that starts at node `(i,j)`, apart from its edges -/
def STW.stCol (w : STW) (c : Col) (i j : Nat) : Int :=
  match c with
  | .both => w.sc i j
  | .gapA => if w.termK .GA i j then - w.tgpe else 0
  | .gapB => if w.termK .GB i j then - w.tgpe else 0
  | .skip => 0

/-- score of the columns `cs` walked from node `(i,j)` after a column of kind `st` -/
def STW.walk (w : STW) : Nat → Nat → Kind → List Col → Int
  | _, _, _, [] => 0
  | i, j, st, c :: cs =>
    w.stCol c i j + w.stE st (colKind st c) i j + w.walk (stepP i c) (stepK j c) (colKind st c) cs

/-- **the reference score S_T** of the column list `cs` for the code sequences `a`, `b` -/
def scoreST (sub : Nat → Nat → Int) (gpo gpe tgpe : Int) (cs : List Col) (a b : List Nat) : Int :=
  STW.walk ⟨a.length, b.length, gpo, gpe, tgpe, fun i j => sub (a.getD i 0) (b.getD j 0)⟩ 0 0 .A cs

def Col.isGap (c : Col) : Bool := c == .gapA || c == .gapB

/-- number of terminal gap runs of a (non-empty, not all-gap) column list: 0, 1 or 2 -/
def nterm (cs : List Col) : Nat :=
  (match cs.head? with | some c => if c.isGap then 1 else 0 | none => 0) +
  (match cs.getLast? with | some c => if c.isGap then 1 else 0 | none => 0)

/-! ## the same score by run lengths (the verbal definition, literally) -/

/-- run-length encoding: maximal runs of equal columns -/
def rle : List Col → List (Col × Nat)
  | [] => []
  | c :: cs =>
    match rle cs with
    | (d, n) :: rest => if c = d then (d, n + 1) :: rest else (c, 1) :: (d, n) :: rest
    | [] => [(c, 1)]

/-- cost of a gap run of `L ≥ 1` columns -/
def gapRunCost (gpo gpe tgpe : Int) (terminal : Bool) (L : Nat) : Int :=
  if terminal then (L : Int) * tgpe else 2 * gpo + ((L : Int) - 1) * gpe

/-- total gap cost of a run-length encoded column list; the first and the last run are terminal -/
def runsCost (gpo gpe tgpe : Int) : Bool → List (Col × Nat) → Int
  | _, [] => 0
  | first, (c, n) :: rest =>
    (if c.isGap then gapRunCost gpo gpe tgpe (first || rest.isEmpty) n else 0) + runsCost gpo gpe tgpe false rest

/-- S_T by runs: substitution scores of the aligned columns minus the cost of every gap run -/
def scoreSTruns (sub : Nat → Nat → Int) (gpo gpe tgpe : Int) (cs : List Col) (a b : List Nat) : Int :=
  subSum sub cs a b - runsCost gpo gpe tgpe true (rle cs)

end Kalign
