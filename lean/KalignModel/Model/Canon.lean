import KalignModel.Model.Cmp
/-!
# Canonical input order (msa_check.c kalign_essential_input_check, msa_sort.c, aln_wrap.c kalign_run)

`kalign_run` (aln_wrap.c:51-148):
  1. `kalign_essential_input_check(msa, 0)` — `rank := input position`, zero-length sequences are
     moved behind `numseq` (dropped);
  2. `dealign_msa` if needed (residues are unchanged);
  3. `msa_sort_len_name` — `qsort` by length descending, then `strcmp(name)` ascending; the
     comparator never returns 0;
  4. everything up to `finalise_alignment` works on that list and never reads `rank`
     (`Gen.rankUses`);
  5. `msa_sort_rank` — `qsort` by `rank` ascending.

`qsort` is glibc's merge sort (for arrays of this size): it takes the left element iff
`cmp(left, right) <= 0`.  `List.mergeSort` with `le a b := cmp a b ≤ 0` has the same merge rule; the
two differ in where an odd-length array is split, which cannot matter when the keys are pairwise
distinct (theorem `sort_unique_of_distinct_keys`) and has not been seen to matter on ties
(correspondence runs, where both reverse the input order of tied elements).
-/
namespace Kalign

/-- an input sequence: name and residues (`len = seq.length`) -/
structure InSeq where
  name : Name
  seq : List Char
  deriving DecidableEq, Repr, Inhabited

/-- a sequence carrying the `rank` assigned by `kalign_essential_input_check` -/
structure RSeq where
  name : Name
  seq : List Char
  rank : Nat
  deriving DecidableEq, Repr, Inhabited

/-! ## kalign_essential_input_check -/

/-- state of `msa->sequences` after the call: `kept` = entries `0 .. numseq-1`, `tail` = the
zero-length entries parked behind `numseq`; every entry with the rank it received -/
structure EssResult (α : Type) where
  ok : Bool
  kept : List (α × Nat)
  tail : List (α × Nat)
  deriving Repr

/-- `kalign_essential_input_check(msa, 0)` (msa_check.c:66-141), generic in the payload.
`none` = the first ASSERT (`numseq > 1`) fails: nothing has been written. -/
def essentialCheck {α : Type} (len : α → Nat) (l : List α) : Option (EssResult α) :=
  if l.length ≤ 1 then none else
  let ranked := l.zipIdx
  if ranked.all (fun x => len x.1 ≠ 0) then some { ok := true, kept := ranked, tail := [] }
  else
    let kept := ranked.filter fun x => len x.1 ≠ 0
    let tail := (ranked.filter fun x => len x.1 = 0).reverse
    some { ok := decide (kept.length > 1), kept := kept, tail := tail }

/-- `kalign_essential_input_check(msa, 1)`: the `else` branch of `if(!exit_on_error)` is an
unconditional `ERROR_MSG` (msa_check.c:134-136) — it fails even when no sequence is empty;
ranks have been assigned by then. -/
def essentialCheckExit {α : Type} (l : List α) : Option (EssResult α) :=
  if l.length ≤ 1 then none else some { ok := false, kept := l.zipIdx, tail := [] }

/-- the list `kalign_run` continues with, or `none` if the check fails -/
def essentialInputCheck (inp : List InSeq) : Option (List RSeq) :=
  match essentialCheck (fun x : InSeq => x.seq.length) inp with
  | some r => if r.ok then some (r.kept.map fun (x, i) => { name := x.name, seq := x.seq, rank := i }) else none
  | none => none

/-! ## msa_sort_len_name / msa_sort_rank -/

/-- `sort_by_len_name` (msa_sort.c:62-80) -/
def cmpLenName (la : Nat) (na : Name) (lb : Nat) (nb : Name) : Int :=
  if la > lb then -1
  else if la = lb then (if strcmp na nb < 0 then -1 else 1)
  else 1

/-- `msa_sort_len_name`, generic in the payload -/
def sortLenNameBy {α : Type} (len : α → Nat) (name : α → Name) (l : List α) : List α :=
  l.mergeSort fun a b => decide (cmpLenName (len a) (name a) (len b) (name b) ≤ 0)

def leLenName (a b : RSeq) : Bool :=
  decide (cmpLenName a.seq.length a.name b.seq.length b.name ≤ 0)

def sortLenName (l : List RSeq) : List RSeq := l.mergeSort leLenName

/-- `sort_by_rank` (msa_sort.c:82-92): 1 if `a.rank > b.rank`, else -1; `<= 0` iff `a.rank ≤ b.rank` -/
def sortRankBy {α : Type} (rank : α → Nat) (l : List α) : List α :=
  l.mergeSort fun a b => decide (rank a ≤ rank b)

/-! ## the canonical list and the frame of kalign_run -/

/-- what stages 3-7 of `kalign_run` work on -/
def canon (inp : List InSeq) : Option (List RSeq) := (essentialInputCheck inp).map sortLenName

/-- what those stages can see of it: names and residues, no ranks -/
def view (l : List RSeq) : List (Name × List Char) := l.map fun x => (x.name, x.seq)

/-- `kalign_run` with stages 3-7 abstracted into `pipeline` (canonical names and residues ↦ one
gapped row per canonical position): rows are attached to the canonical sequences by position and
the result is put back into input order by `msa_sort_rank`. -/
def run (pipeline : List (Name × List Char) → List Row) (inp : List InSeq) : Option (List (RSeq × Row)) :=
  (canon inp).map fun c => sortRankBy (fun x : RSeq × Row => x.1.rank) (c.zip (pipeline (view c)))

/-- the row printed under a given name (first match) -/
def rowsByName (out : Option (List (RSeq × Row))) (n : Name) : Option Row :=
  match out with
  | none => none
  | some l => (l.find? fun x => x.1.name = n).map (·.2)

end Kalign
