import KalignModel.Model.Pipeline
import KalignModel.Model.SoftFloat
/-!
# The pipeline over an arbitrary score carrier, and its instance on the software binary32

`Model/Pipeline.lean` fixes the carrier of the dynamic-programming scores to `Float32`.  This file repeats the carrier-dependent
part of it (`Node`, `mergeNodes`, `recAln`, `core`, `stagesG`, `kalignRunWith`) with the carrier as a parameter (`…C`), using
the same stage functions (`doAlign`, `mergeGroups`, `buildTasks`, `canon`, `makeLinear`, `finish`, …), which are carrier-generic
already.  The parameter set comes in as a function of the detected biotype (`pm`), so that `aln_param_init` can be evaluated in
the carrier.

`kalignRunSoft` = the pipeline with all DP scores (profiles, kernels, meetup, `update_n`, `set_gap_penalties_n`) in `SoftF32`.
The guide tree (`d_estimation`, `upgma`, bisecting k-means: Model/Dist.lean, Tree.lean, Kmeans.lean) stays on `Float32`: its
floats never meet the DP scores (the tree only decides the task table).

`paramOfTableS` = `paramOfTable` evaluated in `SoftF32` (same generated tables, bit patterns).
-/
namespace Kalign.Pipeline
open Kalign Kalign.Kmeans

/-! ## `aln_param_init` in the software carrier -/

def alnParamInitS (bt : Nat) (t : Int) (gpo gpe tgpe : SoftF32) : Option (PSet SoftF32) :=
  match lookupRow bt t with
  | some r => if r.ok then
      let p := applyGuards (fun v => SoftF32.ge v SoftF32.zero) Gen.overrideGuardsT
        { gpo := SoftF32.ofRaw r.gpoBits, gpe := SoftF32.ofRaw r.gpeBits,
          tgpe := SoftF32.ofRaw r.tgpeBits, mat := r.mat } gpo gpe tgpe
      if capOK (fun v c => SoftF32.le v (SoftF32.ofNat c)) p then some p else none
    else none
  | none => none

def paramOfTableS (biotype : Nat) (type : Int) (gpo gpe tgpe : SoftF32) : Option (AlnParam SoftF32) :=
  match alnParamInitS biotype type gpo gpe tgpe with
  | none => none
  | some p =>
    match Gen.matricesBits[p.mat]? with
    | none => none
    | some rows =>
      let subm : Array (Array SoftF32) :=
        (Array.range 23).map fun i => (Array.range 23).map fun j =>
          SoftF32.ofRaw ((rows.getD i []).getD j 0)
      some { subm := subm, gpo := p.gpo, gpe := p.gpe, tgpe := p.tgpe }

section
variable {α : Type} [Score α]

/-- `Node` over the carrier `α` -/
structure NodeC (α : Type) where
  len : Nat
  nsip : Nat
  seq : Array Nat
  prof : Option (Array α)
  group : Group Nat

def leafNodeC (codes : Array (List Nat)) (i : Nat) : NodeC α :=
  let s := codes.getD i []
  { len := s.length, nsip := 1, seq := s.toArray, prof := none,
    group := [{ idx := i, seq := { res := s, gaps := List.replicate (s.length + 1) 0 } }] }

/-- `mergeNodes` over the carrier `α` -/
def mergeNodesC (entry : Entry) (ap : AlnParam α) (A B : NodeC α) (isLast : Bool) : Except PipeErr (NodeC α) :=
  let st : AlnState α :=
    { seqs := #[A.seq, B.seq], profile := #[A.prof, B.prof, none], plen := #[A.len, B.len, 0],
      nsip := #[A.nsip, B.nsip, 0] }
  match doAlign entry ap st 0 1 2 isLast with
  | none => .error .fault
  | some (st', out) =>
    if !out.mon then .error .monitor
    else if !validColsB (out.codes.map Col.ofCode) A.len B.len then .error .monitor
    else .ok { len := out.codes.length, nsip := A.nsip + B.nsip, seq := #[], prof := st'.profile.getD 2 none,
               group := mergeGroups out.codes A.group B.group }

/-- `recAln` over the carrier `α` -/
def recAlnC (ap : AlnParam α) (tasks : Array (Nat × Nat × Nat)) (codes : Array (List Nat)) (n : Nat) :
    Nat → Nat → Except PipeErr (NodeC α)
  | 0, _ => .error .fuel
  | fuel + 1, k =>
    match tasks[k]? with
    | none => .error .fault
    | some (a, b, _) =>
      let child := fun (x : Nat) =>
        if x ≥ n then recAlnC ap tasks codes n fuel (x - n)
        else if x < codes.size then .ok (leafNodeC codes x) else .error .fault
      match child a with
      | .error e => .error e
      | .ok A =>
        match child b with
        | .error e => .error e
        | .ok B => mergeNodesC .parallel ap A B (k + 1 == tasks.size)

/-- `core` over the carrier `α`; `pm` = result of `aln_param_init` for the detected biotype -/
def coreC (avx : Bool) (pm : Option (AlnParam α)) (c1 c2 : List (List Nat)) : Except PipeErr (List (List Nat)) :=
  let n := c2.length
  if n < 2 then .error .tooFew else
  match buildTasks avx c1.toArray with
  | .error e => .error e
  | .ok tasks =>
    match pm with
    | none => .error .param
    | some ap =>
      match recAlnC ap tasks c2.toArray n tasks.size (tasks.size - 1) with
      | .error e => .error e
      | .ok root =>
        match (List.range n).mapM (finalGaps root.group) with
        | none => .error .fault
        | some gaps => .ok gaps

def stagesC (avx : Bool) (bio : Bio) (pm : Bio → Option (AlnParam α)) (V : List (Name × List Char)) :
    Except PipeErr (List GRow) :=
  match bio with
  | .unknown => .error .alphabet
  | _ =>
    let bytes := V.map fun x => bytesOf x.2
    match coreC avx (pm bio) (bytes.map (convertN (treeAlphabet bio))) (bytes.map (convertN (alnAlphabet bio))) with
    | .error e => .error e
    | .ok gaps => .ok (List.zipWith makeLinear (V.map (·.2)) gaps)

def kalignRunWithC (det : List Nat → Bio) (avx : Bool) (pm : Bio → Option (AlnParam α)) (inp : List InSeq) :
    Except PipeErr (List (Name × GRow)) :=
  if hasBadByte inp then .error .badByte else
  let bio := bioOf det inp
  match canon inp with
  | none => .error .tooFew
  | some c =>
    match stagesC avx bio pm (view c) with
    | .error e => .error e
    | .ok rows => .ok (finish c rows)

end

/-- **`kalign_run` with the DP scores in the software binary32** -/
def kalignRunSoft (inp : List InSeq) (type : Int) (gpo gpe tgpe : SoftF32) : Except PipeErr (List (Name × Row)) :=
  (kalignRunWithC detectF true (fun bio => paramOfTableS bio.code type gpo gpe tgpe) inp).map
    fun out => out.map fun x => (x.1, render x.2)

/-- `kalign(seq, len, numseq, …)` with the DP scores in the software binary32 -/
def kalignArrSoft (seqs : List (List Char)) (type : Int) (gpo gpe tgpe : SoftF32) : Except PipeErr (List Row) :=
  (kalignRunSoft (seqs.zipIdx.map fun (s, i) => { name := arrName i, seq := s }) type gpo gpe tgpe).map
    fun out => out.map (·.2)

end Kalign.Pipeline
