import KalignModel.Model.PipelineFile
import KalignModel.Model.TreeSoft
/-!
# The file-to-file pipeline with the run stage on the software binary32 (`kalignFileSoft2`)

`kalignFile` (Model/PipelineFile.lean) is `run_kalign()` with the DP scores of `kalign_run` on Lean's native `Float32`, which
the Lean kernel cannot evaluate and about which nothing can be proved.  `kalignFileSoft2` is the same function with the run
stage on `SoftF32` (Model/SoftFloat.lean: software binary32, tied bit for bit to C `float`): every DP score (profiles, kernels,
meetup, `update_n`, `set_gap_penalties_n`) and the `< 100`-sequence guide tree (`d_estimation(…,1)` + `upgma`), exactly the
stages of `Pipeline.kalignRunSoft2` (Model/TreeSoft.lean).

Nothing is duplicated:

| `kalignFile`                                              | `kalignFileSoft2`                                                      |
|-----------------------------------------------------------|------------------------------------------------------------------------|
| `readFiles`, `dealignStep`, `gapsClear`, `toInSeq`        | the same functions                                                     |
| `kalignRunWith (fun _ => bioOfCode biotype) true … gpo gpe tgpe` | `kalignRunWithCB (fun _ => bioOfCode biotype) (buildTasks2 true) (fun bio => paramOfTableS bio.code type gpo gpe tgpe)` — the generic stage functions `kalignRunSoft2` is made of, with the reader's `biotype` as the detection function (as `kalignFile` does with `kalignRunWith`) |
| `alignmentOf`, `fmtBytes`, `IO.writeMsa`                  | the same functions                                                     |

`kalignFileWith run` is the frame of `run_kalign` (read — run — write) with the run stage as a parameter;
`kalignFile … = kalignFileWith (fun m => runMsa m type gpo gpe tgpe) …` holds by `rfl` (Props/C05WholeProgram.lean), so the two
whole-program models differ in the carrier of the run stage only.

Correspondence op: `kalign_file_soft2` (Driver/PipelineFileSoft.lean; harness side = the `kalign_file` op, i.e. the real
`kalign_read_input` / `kalign_run` / `kalign_write_msa` and the static `run_kalign()`).
-/
namespace Kalign.PipelineFile
open Kalign Kalign.IO Kalign.Pipeline

/-- `kalign_run(msa, …)` with all DP scores and the `upgma` guide tree on `SoftF32`: `runMsa` with `kalignRunWithCB` (the stages
of `Pipeline.kalignRunSoft2`) in the place of `kalignRunWith` -/
def runMsaSoft2 (m : Msa) (type : Int) (gpo gpe tgpe : SoftF32) : Except PipeErr (List (Name × GRow)) :=
  let m' := dealignStep m
  if !gapsClear m' then .error .fault else
  kalignRunWithCB (fun _ => bioOfCode m'.biotype) (buildTasks2 true)
    (fun bio => paramOfTableS bio.code type gpo gpe tgpe) (m'.seqs.map toInSeq)

/-- the frame of `run_kalign` — the reading loop, the run, the writer — with the run stage as a parameter -/
def kalignFileWith (run : Msa → Except PipeErr (List (Name × GRow))) (ver base date : Bytes) (files : List (Option Bytes))
    (fmt : Option String) : Except FileErr Bytes :=
  match readFiles files with
  | .fault => .error .readFault
  | .fail => .error .read
  | .null => .error .noInput
  | .ok m =>
    match run m with
    | .error e => .error (.run e)
    | .ok out =>
      match writeMsa ver date (fmtBytes fmt) (alignmentOf out (dealignStep m).biotype base) with
      | .fail => .error .format
      | .fault => .error .writeFault
      | .ok b => .ok b

/-- **`run_kalign` with the run stage on the software binary32**: arguments and result as `kalignFile`; the penalties are
binary32 values given as `SoftF32` -/
def kalignFileSoft2 (ver base date : Bytes) (files : List (Option Bytes)) (type : Int) (gpo gpe tgpe : SoftF32)
    (fmt : Option String) : Except FileErr Bytes :=
  kalignFileWith (fun m => runMsaSoft2 m type gpo gpe tgpe) ver base date files fmt

end Kalign.PipelineFile
