import KalignModel.Gen.Alphabet
import KalignModel.Gen.Consts
/-!
# Alphabets (alphabet.c) and residue -> code conversion (msa_op.c `convert_msa_to_internal`)
-/
namespace Kalign

def alphaRow (id : Nat) : Option Gen.AlphaRow := Gen.alphabets.find? (·.id == id)

/-- table lookup `t[(int)c]` for a byte `c < 128` -/
def toInternal (id : Nat) (c : Nat) : Int :=
  match alphaRow id with
  | some r => r.toInternal.getD c (-1)
  | none => -1

def isAsciiLetter (c : Nat) : Bool := (65 ≤ c && c ≤ 90) || (97 ≤ c && c ≤ 122)
def toggleCase (c : Nat) : Nat := if 65 ≤ c && c ≤ 90 then c + 32 else if 97 ≤ c && c ≤ 122 then c - 32 else c

/-- `convert_msa_to_internal` for one residue: a letter outside the alphabet is mapped to the ambiguity
class (`X` if the alphabet has it, else `N`) -/
def codeOf (id : Nat) (c : Nat) : Int :=
  let t := toInternal id c
  if t = -1 then (if toInternal id 88 ≠ -1 then toInternal id 88 else toInternal id 78) else t

def convert (id : Nat) (s : List Nat) : List Int := s.map (codeOf id)

end Kalign
