import KalignModel.Model.Canon
import KalignModel.Model.Alphabet
import KalignModel.Model.Detect
import KalignModel.Model.Tree
import KalignModel.Model.Kmeans
import KalignModel.Model.DoAlign
import KalignModel.Model.Progressive
/-!
# The whole pipeline: `kalign()` / `kalign_run` (aln_wrap.c) composed from the stage models

`kalignRun inp type gpo gpe tgpe` follows `kalign_run` stage by stage:

| C (aln_wrap.c)                                              | model                                             |
|-------------------------------------------------------------|---------------------------------------------------|
| `kalign_arr_to_msa` / the readers: `letter_freq`, `detect_alphabet` | `histogram`, `det` (`detectF`)            |
| `kalign_essential_input_check`, `dealign_msa`, `msa_sort_len_name`  | `canon` (Model/Canon.lean)                |
| `convert_msa_to_internal(ALPHA_defDNA / ALPHA_redPROTEIN)`  | `convertN 5` / `convertN 13`                      |
| `build_tree_kmeans`: `pick_anchor`, `d_estimation(…,0)`, `bisecting_kmeans` (`d_estimation(…,1)` + `upgma` below 100 samples), `label_internal`, `create_tasks` | `pickAnchors`, `anchorMatrix`, `bisectO` (`smallTree`), `treeTasks` |
| `convert_msa_to_internal(ALPHA_ambigiousPROTEIN)` (protein) | `convertN 23`                                     |
| `aln_param_init`                                            | `paramOfTable` (Model/Kernel.lean)                |
| `create_msa_tree`: `sort_tasks`, `recursive_aln(n_tasks-1)`, `do_align` | `Kmeans.sortTasks`, `recAln`, `mergeNodes` (= `doAlign` + `mergeGroups`) |
| `finalise_alignment` (`make_linear_sequence`)               | `makeLinear` on the untouched letters             |
| `msa_sort_rank`                                             | `sortRankBy` (Model/Canon.lean)                   |

Everything after the conversion sees the residues only through their internal codes: `core` takes the two
code lists (tree alphabet, alignment alphabet) and returns one gap vector per canonical position; the
letters are woven with these gap vectors at the very end (`stagesG`).

`recursive_aln` is a recursion over the task table (`t->list[c - numseq]`), every node is completed from
its own two children only: `recAln` returns the completed node as a value (`Node`: what `do_align` leaves in
`msa->plen[c]`, `msa->nsip[c]`, `t->profile[c]`, and the gap vectors of the members `sip[c]`), so the order
in which independent tasks run cannot matter (C02).  The recursion visits the tasks in the order of the
sorted task list (children before parents, left before right = the serial elision); the flag
`task_id == n_tasks-1` (no `update_n`) is computed from the index as in `do_align`.

Run-time monitor: a merge whose Hirschberg run violates the meetup contract (`mon = false`, Props/C07) or
whose column codes are not a valid column list for the two operand lengths ends the run with
`PipeErr.monitor`; a fault of a stage model (`none`) ends it with `PipeErr.fault` / `PipeErr.tree`.
None of these has ever been observed on the implementation (correspondence op `kalign_sys`).
-/
namespace Kalign.Pipeline
open Kalign Kalign.Kmeans

inductive PipeErr where
  /-- a residue byte ≥ 128: `letter_freq[(int)c]` with a negative index (undefined behaviour in C) -/
  | badByte
  /-- `kalign_essential_input_check`: fewer than two non-empty sequences -/
  | tooFew
  /-- `detect_alphabet` undecided: "Unable to determine what alphabet to use." -/
  | alphabet
  /-- fault while building the guide tree (`pick_anchor`, `bpm_block`, `upgma`, `split2`) -/
  | tree
  /-- `aln_param_init` fails: `--type` contradicts the detected alphabet, or a penalty above the cap -/
  | param
  /-- fault in `recursive_aln` / `do_align` (missing task or operand, kernel fault, path expansion) -/
  | fault
  /-- a merge violated the run-time monitor (meetup contract or column validity) -/
  | monitor
  /-- recursion budget of the model exhausted (the task table is not a tree) -/
  | fuel
  deriving Repr, DecidableEq, Inhabited

/-! ## stage 0: what `kalign_arr_to_msa` / the readers compute -/

/-- `msa->letter_freq` (msa_op.c:441-446, msa_io.c): per-byte counts over all residues -/
def histogram (seqs : List (List Nat)) : List Nat :=
  (List.range 128).map fun c => (seqs.map fun s => s.count c).foldl (· + ·) 0

def bytesOf (s : List Char) : List Nat := s.map Char.toNat

def hasBadByte (inp : List InSeq) : Bool := inp.any fun x => x.seq.any fun c => decide (128 ≤ c.toNat)

/-! ## conversion -/

/-- the value stored into `uint8_t seq->s[j]` -/
def toU8 (k : Int) : Nat := (k % 256).toNat

/-- `convert_msa_to_internal` for one sequence -/
def convertN (id : Nat) (s : List Nat) : List Nat := (convert id s).map toU8

/-- alphabet used for the guide tree / for the alignment -/
def treeAlphabet : Bio → Nat
  | .dna => 5
  | _ => 13
def alnAlphabet : Bio → Nat
  | .dna => 5
  | _ => 23

/-! ## guide tree -/

def GTree.toTree : GTree → Tree
  | .leaf i => .leaf i
  | .node l r => .node (GTree.toTree l) (GTree.toTree r)

/-- the `num_samples < 100` branch of `bisecting_kmeans`: `d_estimation(msa, samples, n, 1)` + `upgma` -/
def smallTree (codes : Array (List Nat)) (samples : List Nat) : Option Tree :=
  (distMatrix (samples.map fun s => codes.getD s [])).bind fun dm =>
    (upgma dm samples).map GTree.toTree

/-- `d_estimation(msa, anchors, num_anchors, 0)`: `dm[i][j] = calc_distance(seq_i, seq_anchor_j) + add`,
rows padded with `0.0F` to a multiple of 8 floats -/
def anchorMatrix (codes : Array (List Nat)) (anchors : List Nat) : Option (Array (Array Float32)) :=
  let nv := numVarOf anchors.length
  (codes.toList.mapM fun s =>
    (anchors.mapM fun a => distEntry s (codes.getD a [])).map fun r =>
      (r ++ List.replicate (nv - r.length) (0 : Float32)).toArray).map List.toArray

/-- `bisecting_kmeans` (Model/Kmeans.lean `bisect`) with a `< 100` branch that may fault -/
def bisectO (avx : Bool) (dm : Array (Array Float32)) (na : Nat) (small : List Nat → Option Tree) :
    Nat → List Nat → Except KmErr Tree
  | fuel, samples =>
    if samples.length < kmSmall then
      match small samples with
      | some t => .ok t
      | none => .error .fault
    else match fuel with
      | 0 => .error .fuel
      | fuel + 1 =>
        match bestSplit avx dm na samples with
        | none => .error .fault
        | some b =>
          match bisectO avx dm na small fuel b.sl, bisectO avx dm na small fuel b.sr with
          | .ok l, .ok r => .ok (.node l r)
          | .error e, _ => .error e
          | _, .error e => .error e

/-- `build_tree_kmeans` followed by `sort_tasks(t, TASK_ORDER_TREE)`: the sorted task table `(a, b, c)` -/
def buildTasks (avx : Bool) (codes : Array (List Nat)) : Except PipeErr (Array (Nat × Nat × Nat)) :=
  let n := codes.size
  match pickAnchors (codes.toList.map List.length) with
  | none => .error .tree
  | some anchors =>
    match anchorMatrix codes anchors with
    | none => .error .tree
    | some dm =>
      match bisectO avx dm anchors.length (smallTree codes) n (List.range n) with
      | .error .fault => .error .tree
      | .error .fuel => .error .fuel
      | .ok t => .ok (Kmeans.sortTasks (treeTasks t n)).toArray

/-! ## progressive alignment -/

/-- a completed node of the guide tree: what `do_align` leaves behind for it -/
structure Node where
  /-- `msa->sequences[a]->len` (leaf) / `msa->plen[a]` -/
  len : Nat
  /-- `msa->nsip[a]` -/
  nsip : Nat
  /-- `msa->sequences[a]->s` (leaf) -/
  seq : Array Nat
  /-- `t->profile[a]` -/
  prof : Option (Array Float32)
  /-- the members `msa->sip[a]` with their gap vectors (residues = internal codes) -/
  group : Group Nat

def leafNode (codes : Array (List Nat)) (i : Nat) : Node :=
  let s := codes.getD i []
  { len := s.length, nsip := 1, seq := s.toArray, prof := none,
    group := [{ idx := i, seq := { res := s, gaps := List.replicate (s.length + 1) 0 } }] }

/-- decidable `ValidCols` -/
def validColsB (cs : List Col) (la lb : Nat) : Bool :=
  !cs.contains Col.skip && consA cs == la && consB cs == lb

/-- `do_align` on the two completed children `A`, `B` (placed at indices 0 and 1 of a three-entry state;
the new node is index 2) + `make_seq` -/
def mergeNodes (entry : Entry) (ap : AlnParam Float32) (A B : Node) (isLast : Bool) : Except PipeErr Node :=
  let st : AlnState Float32 :=
    { seqs := #[A.seq, B.seq], profile := #[A.prof, B.prof, none], plen := #[A.len, B.len, 0],
      nsip := #[A.nsip, B.nsip, 0] }
  match doAlign entry ap st 0 1 2 isLast with
  | none => .error .fault
  | some (st', out) =>
    if !out.mon then .error .monitor
    else if !validColsB (out.codes.map Col.ofCode) A.len B.len then .error .monitor
    else .ok { len := out.codes.length, nsip := A.nsip + B.nsip, seq := #[], prof := st'.profile.getD 2 none,
               group := mergeGroups out.codes A.group B.group }

/-- `recursive_aln(msa, t, ap, active, k)` on the sorted task table; `n = msa->numseq` -/
def recAln (ap : AlnParam Float32) (tasks : Array (Nat × Nat × Nat)) (codes : Array (List Nat)) (n : Nat) :
    Nat → Nat → Except PipeErr Node
  | 0, _ => .error .fuel
  | fuel + 1, k =>
    match tasks[k]? with
    | none => .error .fault
    | some (a, b, _) =>
      let child := fun (x : Nat) =>
        if x ≥ n then recAln ap tasks codes n fuel (x - n)
        else if x < codes.size then .ok (leafNode codes x) else .error .fault
      match child a with
      | .error e => .error e
      | .ok A =>
        match child b with
        | .error e => .error e
        | .ok B => mergeNodes .parallel ap A B (k + 1 == tasks.size)

/-- gap vector of canonical sequence `i` in the finished group -/
def finalGaps (g : Group Nat) (i : Nat) : Option (List Nat) :=
  (g.find? (·.idx = i)).map (·.seq.gaps)

/-- everything between the two conversions and `finalise_alignment`, as a function of the internal codes:
`c1` = codes in the tree alphabet, `c2` = codes in the alignment alphabet (canonical order).
Result: the gap vector `seq->gaps[0..len]` of every canonical sequence. -/
def core (avx : Bool) (bio : Bio) (c1 c2 : List (List Nat)) (type : Int) (gpo gpe tgpe : Float32) :
    Except PipeErr (List (List Nat)) :=
  let n := c2.length
  if n < 2 then .error .tooFew else
  match buildTasks avx c1.toArray with
  | .error e => .error e
  | .ok tasks =>
    match paramOfTable bio.code type gpo gpe tgpe with
    | none => .error .param
    | some ap =>
      match recAln ap tasks c2.toArray n tasks.size (tasks.size - 1) with
      | .error e => .error e
      | .ok root =>
        match (List.range n).mapM (finalGaps root.group) with
        | none => .error .fault
        | some gaps => .ok gaps

/-- gapped row: `none` = gap character -/
abbrev GRow := List (Option Char)

/-- stages 3-7 of `kalign_run` on the canonical list (names are not looked at any more) -/
def stagesG (avx : Bool) (bio : Bio) (type : Int) (gpo gpe tgpe : Float32) (V : List (Name × List Char)) :
    Except PipeErr (List GRow) :=
  match bio with
  | .unknown => .error .alphabet
  | _ =>
    let bytes := V.map fun x => bytesOf x.2
    match core avx bio (bytes.map (convertN (treeAlphabet bio))) (bytes.map (convertN (alnAlphabet bio)))
        type gpo gpe tgpe with
    | .error e => .error e
    | .ok gaps => .ok (List.zipWith makeLinear (V.map (·.2)) gaps)

/-- rows attached to the canonical sequences by position, `msa_sort_rank`, names kept -/
def finish {β : Type} (c : List RSeq) (rows : List β) : List (Name × β) :=
  (sortRankBy (fun x : RSeq × β => x.1.rank) (c.zip rows)).map fun x => (x.1.name, x.2)

/-- `msa->biotype` as `kalign_arr_to_msa` / the readers set it: `detect_alphabet` on the histogram of all residues -/
def bioOf (det : List Nat → Bio) (inp : List InSeq) : Bio := det (histogram (inp.map fun x => bytesOf x.seq))

/-- `kalign_run` with the detection function and the AVX2 switch as parameters; gapped rows -/
def kalignRunWith (det : List Nat → Bio) (avx : Bool) (inp : List InSeq) (type : Int) (gpo gpe tgpe : Float32) :
    Except PipeErr (List (Name × GRow)) :=
  if hasBadByte inp then .error .badByte else
  let bio := bioOf det inp
  match canon inp with
  | none => .error .tooFew
  | some c =>
    match stagesG avx bio type gpo gpe tgpe (view c) with
    | .error e => .error e
    | .ok rows => .ok (finish c rows)

/-- the model of `kalign_run` as compiled with `HAVE_AVX2`, rows with `none` for the gap character -/
def kalignRunG (inp : List InSeq) (type : Int) (gpo gpe tgpe : Float32) : Except PipeErr (List (Name × GRow)) :=
  kalignRunWith detectF true inp type gpo gpe tgpe

/-- what `make_linear_sequence` writes: `'-'` for a gap -/
def render (r : GRow) : Row := r.map fun | some c => c | none => '-'

/-- **`kalign_run`**: one `(name, row)` per non-empty input sequence, in input order -/
def kalignRun (inp : List InSeq) (type : Int) (gpo gpe tgpe : Float32) : Except PipeErr (List (Name × Row)) :=
  (kalignRunG inp type gpo gpe tgpe).map fun out => out.map fun x => (x.1, render x.2)

/-- the names the array API gives its sequences: `snprintf(name, …, "SEQ%d", i+1)` (msa_op.c:425) -/
def arrName (i : Nat) : Name := ("SEQ" ++ toString (i + 1)).toUTF8.toList

/-- `kalign(seq, len, numseq, …)`: the array API -/
def kalignArr (seqs : List (List Char)) (type : Int) (gpo gpe tgpe : Float32) : Except PipeErr (List Row) :=
  (kalignRun (seqs.zipIdx.map fun (s, i) => { name := arrName i, seq := s }) type gpo gpe tgpe).map
    fun out => out.map (·.2)

end Kalign.Pipeline
