import KalignModel.Model.Pipeline
/-!
# Checked twins of the totalised model functions

The executable model indexes its functional arrays with totalised accesses (`getD … default`, `set!`,
`setIfInBounds`, `[i]!`): an index outside the array would silently read the default / drop the write.
Every function below is the *same code* as the model function it is named after (suffix `C`), except that

* every array read goes through `get?` (`a[i]?`), and
* every array write goes through the bounds-tested `asetC`,

and the function lives in `Option`: `none` = the first access whose index is outside its array.
Where the model function already has an explicit fault value (`Option`), the twin returns
`Option (Option _)`: the *outer* `none` is "an index was out of range", the inner value is the model's own
result.  `Props/C05Index.lean` proves `twin = some model` under the entry-point preconditions: no default is
ever taken, no write is ever dropped.

Sections: 1 kernels · 2 Hirschberg controller, `alnRun`, `pathEntries` · 3 profiles · 4 `doAlign` (+ `alignTasks`, the
progressive alignment over one global state vector) · 6b `bpmBlock`, `distEntry` · 5 `upgma`, `distMatrix`, `smallTree`,
`anchorMatrix` · 6a k-means lanes · 7 the pipeline composed up to `core` (`paramOfTable`, `bestSplit`, `bisectO`,
`buildTasks`, `leafNode`, `mergeNodes`, `recAln`, `core`) and `mirrorPath`.

Where the model evaluates an access eagerly but the C code (and the compiled model: `&&`, `||`, `List.any` are lazy) only
evaluates it on a branch, the twin has the access on that branch; each such place is marked.

No proofs in this file.
-/
namespace Kalign

/-- bounds-tested write: `none` where `set!` would drop the write -/
def asetC {γ : Type} (a : Array γ) (i : Nat) (v : γ) : Option (Array γ) :=
  if i < a.size then some (a.set! i v) else none

/-- `foldl` whose step may fail -/
def foldlC {σ γ : Type} (f : σ → γ → Option σ) : σ → List γ → Option σ
  | s, [] => some s
  | s, x :: xs => (f s x).bind fun s' => foldlC f s' xs

/-- `foldr` whose step may fail -/
def foldrC {σ γ : Type} (f : γ → σ → Option σ) (s : σ) : List γ → Option σ
  | [] => some s
  | x :: xs => (foldrC f s xs).bind fun s' => f x s'

/-- `map` whose function may fail -/
def mapC {β γ : Type} (f : β → Option γ) : List β → Option (List γ)
  | [] => some []
  | x :: xs => (f x).bind fun y => (mapC f xs).bind fun ys => some (y :: ys)

/-- `filter` whose predicate may fail -/
def filterC {γ : Type} (f : γ → Option Bool) : List γ → Option (List γ)
  | [] => some []
  | x :: xs => (f x).bind fun b => (filterC f xs).bind fun r => some (if b then x :: r else r)

/-! ## 1. the nine kernels (Model/Kernel.lean) -/
section kernels
variable {α : Type} [Score α]

local infixl:65 " +ₛ " => Score.add
local infixl:65 " -ₛ " => Score.sub
local infixl:70 " *ₛ " => Score.mul

/-- the substitution matrix has (at least) 23 rows of (at least) 23 entries: what `aln_param_init` builds -/
def AlnParam.wf (ap : AlnParam α) : Prop :=
  23 ≤ ap.subm.size ∧ ∀ i, i < 23 → 23 ≤ (ap.subm.getD i #[]).size

instance (ap : AlnParam α) : Decidable ap.wf :=
  inferInstanceAs (Decidable (23 ≤ ap.subm.size ∧ ∀ i, i < 23 → 23 ≤ (ap.subm.getD i #[]).size))

/-- `AlnParam.sub` -/
def AlnParam.subC (ap : AlnParam α) (i j : Nat) : Option α := (ap.subm[i]?).bind fun row => row[j]?

/-- `pget` -/
@[inline] def pgetC (p : Array α) (col k : Nat) : Option α := p[64 * col + k]?

structure RowOpsC (α : Type) where
  gbFirst : α → α → Option α
  aCell : Nat → α → α → α → Option α
  gaCell : Nat → α → α → Option α
  gbMid : α → α → Option α
  gbLast : α → α → Option α

/-- `initRowGo` -/
def initRowGoC (gaInit : Nat → α → α → Option α) : Nat → Nat → States α → Option (List (States α))
  | 0, _, _ => some []
  | 1, _, _ => some [States.negInf]
  | r + 2, k, prev =>
    (gaInit k prev.ga prev.a).bind fun g =>
      let c : States α := ⟨Score.negInf, g, Score.negInf⟩
      (initRowGoC gaInit (r + 1) (k + 1) c).bind fun rest => some (c :: rest)

/-- `initRow` -/
def initRowC (gaInit : Nat → α → α → Option α) (n : Nat) (start : States α) : Option (List (States α)) :=
  (initRowGoC gaInit n 1 start).bind fun rest => some (start :: rest)

/-- `rowGo` -/
def rowGoC (ops : RowOpsC α) : Nat → α → α → α → α → α → List (States α) → Option (List (States α))
  | _, _, _, _, _, _, [] => some []
  | k, pa, pga, pgb, _, _, [cl] =>
    (ops.aCell k pa pga pgb).bind fun na =>
      (ops.gbLast cl.gb cl.a).bind fun ngb => some [⟨na, Score.negInf, ngb⟩]
  | k, pa, pga, pgb, xa, xga, c :: rest =>
    (ops.aCell k pa pga pgb).bind fun na =>
      (ops.gaCell k xga xa).bind fun nga =>
        (ops.gbMid c.gb c.a).bind fun ngb =>
          (rowGoC ops (k + 1) c.a c.ga c.gb na nga rest).bind fun tl => some (⟨na, nga, ngb⟩ :: tl)

/-- `rowStep` -/
def rowStepC (ops : RowOpsC α) : List (States α) → Option (List (States α))
  | [] => some []
  | c0 :: rest =>
    (ops.gbFirst c0.gb c0.a).bind fun g =>
      (rowGoC ops 1 c0.a c0.ga c0.gb Score.negInf Score.negInf rest).bind fun tl =>
        some (⟨Score.negInf, Score.negInf, g⟩ :: tl)

/-- `runKernel`; a row is `none` when the per-row reads (`seq1[i]`, the `freq` scan) leave their array -/
def runKernelC (gaInit : Nat → α → α → Option α) (n : Nat) (start : States α) (rows : List (Option (RowOpsC α))) :
    Option (List (States α)) :=
  (initRowC gaInit n start).bind fun r0 =>
    foldlC (fun cells o => o.bind fun ops => rowStepC ops cells) r0 rows

/-- `ssForward` -/
def ssForwardC (ap : AlnParam α) (seq1 seq2 : Array Nat) (r : Rect) (start : States α) : Option (List (States α)) :=
  let n := r.endb - r.startb
  let rows := (List.range' r.starta (r.enda - r.starta)).map fun i =>
    (seq1[i]?).bind fun c1 =>
    some ({ gbFirst := fun gb ca => some (ssGb ap (r.startb == 0) gb ca)
            aCell := fun k pa pga pgb =>
              (seq2[r.startb + k - 1]?).bind fun c2 =>
              (ap.subC c1 c2).bind fun s =>
              some (smax3 pa (pga -ₛ ap.gpo) (pgb -ₛ ap.gpo) +ₛ s)
            gaCell := fun _ xga xa => some (smax (xga -ₛ ap.gpe) (xa -ₛ ap.gpo))
            gbMid := fun gb ca => some (ssGb ap false gb ca)
            gbLast := fun gb ca => some (ssGb ap (r.endb == r.lenB) gb ca) } : RowOpsC α)
  runKernelC (fun k pga pa => some (ssGaInit ap (r.startb == 0) k pga pa)) n start rows

/-- `ssBackward` -/
def ssBackwardC (ap : AlnParam α) (seq1 seq2 : Array Nat) (r : Rect) (start : States α) : Option (List (States α)) :=
  let n := r.endb - r.startb
  let rows := ((List.range' r.starta (r.enda - r.starta)).reverse).map fun i =>
    (seq1[i]?).bind fun c1 =>
    some ({ gbFirst := fun gb ca => some (ssGb ap (r.endb == r.lenB) gb ca)
            aCell := fun k pa pga pgb =>
              (seq2[r.endb - k]?).bind fun c2 =>
              (ap.subC c1 c2).bind fun s =>
              some (smax3 pa (pga -ₛ ap.gpo) (pgb -ₛ ap.gpo) +ₛ s)
            gaCell := fun _ xga xa => some (smax (xga -ₛ ap.gpe) (xa -ₛ ap.gpo))
            gbMid := fun gb ca => some (ssGb ap false gb ca)
            gbLast := fun gb ca => some (ssGb ap (r.startb == 0) gb ca) } : RowOpsC α)
  (runKernelC (fun k pga pa => some (ssGaInit ap (r.endb == r.lenB) k pga pa)) n start rows).map List.reverse

/-- `profGb` -/
def profGbC (p : Array α) (col : Nat) (term : Bool) : α → α → Option α := fun gb ca =>
  if term then (pgetC p col 29).bind fun x => some (smax gb ca +ₛ x)
  else (pgetC p col 28).bind fun x => (pgetC p col 27).bind fun y => some (smax (gb +ₛ x) (ca +ₛ y))

/-- `spForward` -/
def spForwardC (ap : AlnParam α) (prof1 : Array α) (seq2 : Array Nat) (sip : Nat) (r : Rect)
    (start : States α) : Option (List (States α)) :=
  let n := r.endb - r.startb
  let open_ := ap.gpo *ₛ Score.ofNat sip
  let ext := ap.gpe *ₛ Score.ofNat sip
  let text := ap.tgpe *ₛ Score.ofNat sip
  let rows := (List.range' r.starta (r.enda - r.starta)).map fun i =>
    some ({ gbFirst := profGbC prof1 (i + 1) (r.startb == 0)
            aCell := fun k pa pga pgb =>
              (pgetC prof1 i 27).bind fun x =>
              (seq2[r.startb + k - 1]?).bind fun c2 =>
              (pgetC prof1 (i + 1) (32 + c2)).bind fun y =>
              some (smax3 pa (pga -ₛ open_) (pgb +ₛ x) +ₛ y)
            gaCell := fun _ xga xa => some (smax (xga -ₛ ext) (xa -ₛ open_))
            gbMid := profGbC prof1 (i + 1) false
            gbLast := profGbC prof1 (i + 1) (r.endb == r.lenB) } : RowOpsC α)
  runKernelC (fun k pga pa => some (spGaInit open_ ext text (r.startb == 0) k pga pa)) n start rows

/-- `spBackward` -/
def spBackwardC (ap : AlnParam α) (prof1 : Array α) (seq2 : Array Nat) (sip : Nat) (r : Rect)
    (start : States α) : Option (List (States α)) :=
  let n := r.endb - r.startb
  let open_ := ap.gpo *ₛ Score.ofNat sip
  let ext := ap.gpe *ₛ Score.ofNat sip
  let text := ap.tgpe *ₛ Score.ofNat sip
  let rows := ((List.range' r.starta (r.enda - r.starta)).reverse).map fun i =>
    some ({ gbFirst := profGbC prof1 (i + 1) (r.endb == r.lenB)
            aCell := fun k pa pga pgb =>
              (pgetC prof1 (i + 2) 27).bind fun x =>
              (seq2[r.endb - k]?).bind fun c2 =>
              (pgetC prof1 (i + 1) (32 + c2)).bind fun y =>
              some (smax3 pa (pga -ₛ open_) (pgb +ₛ x) +ₛ y)
            gaCell := fun _ xga xa => some (smax (xga -ₛ ext) (xa -ₛ open_))
            gbMid := profGbC prof1 (i + 1) false
            gbLast := profGbC prof1 (i + 1) (r.startb == 0) } : RowOpsC α)
  (runKernelC (fun k pga pa => some (spGaInit open_ ext text (r.endb == r.lenB) k pga pa)) n start rows).map
    List.reverse

/-- `freqOf` -/
def freqOfC (p : Array α) (col : Nat) : Option (List Nat) :=
  filterC (fun j => (pgetC p col j).map Score.isNonzero) (List.range 23)

/-- `dotAdd` -/
def dotAddC (p1 : Array α) (c1 : Nat) (p2 : Array α) (c2 : Nat) (fr : List Nat) (pa : α) : Option α :=
  foldlC (fun acc c =>
    (pgetC p1 c1 c).bind fun x => (pgetC p2 c2 (32 + c)).bind fun y => some (acc +ₛ x *ₛ y)) pa fr

/-- `ppForward` -/
def ppForwardC (prof1 prof2 : Array α) (r : Rect) (start : States α) : Option (List (States α)) :=
  let n := r.endb - r.startb
  let gaInit : Nat → α → α → Option α := fun k pga pa =>
    let j := r.startb + k
    if r.startb == 0 then (pgetC prof2 j 29).bind fun x => some (smax pga pa +ₛ x)
    else (pgetC prof2 j 28).bind fun x => (pgetC prof2 j 27).bind fun y => some (smax (pga +ₛ x) (pa +ₛ y))
  let rows := (List.range' r.starta (r.enda - r.starta)).map fun i =>
    (freqOfC prof1 (i + 1)).bind fun fq =>
    let fr := fq.reverse
    some ({ gbFirst := profGbC prof1 (i + 1) (r.startb == 0)
            aCell := fun k pa pga pgb =>
              let j := r.startb + k
              (pgetC prof2 (j - 1) 27).bind fun x =>
              (pgetC prof1 i 27).bind fun y =>
              dotAddC prof1 (i + 1) prof2 j fr (smax3 pa (pga +ₛ x) (pgb +ₛ y))
            gaCell := fun k xga xa =>
              let j := r.startb + k
              (pgetC prof2 j 28).bind fun x => (pgetC prof2 j 27).bind fun y =>
                some (smax (xga +ₛ x) (xa +ₛ y))
            gbMid := profGbC prof1 (i + 1) false
            gbLast := profGbC prof1 (i + 1) (r.endb == r.lenB) } : RowOpsC α)
  runKernelC gaInit n start rows

/-- `ppBackward` -/
def ppBackwardC (prof1 prof2 : Array α) (r : Rect) (start : States α) : Option (List (States α)) :=
  let n := r.endb - r.startb
  let gaInit : Nat → α → α → Option α := fun k pga pa =>
    let j := r.endb - k
    if r.endb == r.lenB then (pgetC prof2 (j + 1) 29).bind fun x => some (smax pga pa +ₛ x)
    else (pgetC prof2 (j + 1) 28).bind fun x => (pgetC prof2 (j + 1) 27).bind fun y =>
      some (smax (pga +ₛ x) (pa +ₛ y))
  let rows := ((List.range' r.starta (r.enda - r.starta)).reverse).map fun i =>
    (freqOfC prof1 (i + 1)).bind fun fq =>
    let fr := fq.reverse
    some ({ gbFirst := profGbC prof1 (i + 1) (r.endb == r.lenB)
            aCell := fun k pa pga pgb =>
              let j := r.endb - k
              (pgetC prof2 (j + 2) 27).bind fun x =>
              (pgetC prof1 (i + 2) 27).bind fun y =>
              dotAddC prof1 (i + 1) prof2 (j + 1) fr (smax3 pa (pga +ₛ x) (pgb +ₛ y))
            gaCell := fun k xga xa =>
              let j := r.endb - k
              (pgetC prof2 (j + 1) 28).bind fun x => (pgetC prof2 (j + 1) 27).bind fun y =>
                some (smax (xga +ₛ x) (xa +ₛ y))
            gbMid := profGbC prof1 (i + 1) false
            gbLast := profGbC prof1 (i + 1) (r.startb == 0) } : RowOpsC α)
  (runKernelC gaInit n start rows).map List.reverse

structure MeetOpsC (α : Type) where
  g2 : Nat → α → Option α
  g3 : α → Option α
  g5 : Nat → α → Option α
  g6 : α → Option α
  g7 : α → Option α
  g6e : α → Option α

/-- `meetupLoop` -/
def meetupLoopC (ops : MeetOpsC α) (sb eb : Nat) :
    Nat → List (States α) → List (States α) → MeetAcc α → Option (MeetAcc α)
  | i, [f], [b], acc =>
    let sub : α := Score.tie sb eb i
    (ops.g3 (f.a +ₛ b.gb)).bind fun v3 =>
    (ops.g6e (f.gb +ₛ b.gb)).bind fun v6 =>
    let acc := acc.try_ (v3 -ₛ sub) 3 i
    some (acc.try_ (v6 -ₛ sub) 6 i)
  | i, f :: fs, b :: bs, acc =>
    let sub : α := Score.tie sb eb i
    (ops.g2 i (f.a +ₛ b.ga)).bind fun v2 =>
    (ops.g3 (f.a +ₛ b.gb)).bind fun v3 =>
    (ops.g5 i (f.ga +ₛ b.a)).bind fun v5 =>
    (ops.g6 (f.gb +ₛ b.gb)).bind fun v6 =>
    (ops.g7 (f.gb +ₛ b.a)).bind fun v7 =>
    let acc := acc.try_ (f.a +ₛ b.a -ₛ sub) 1 i
    let acc := acc.try_ (v2 -ₛ sub) 2 i
    let acc := acc.try_ (v3 -ₛ sub) 3 i
    let acc := acc.try_ (v5 -ₛ sub) 5 i
    let acc := acc.try_ (v6 -ₛ sub) 6 i
    let acc := acc.try_ (v7 -ₛ sub) 7 i
    meetupLoopC ops sb eb (i + 1) fs bs acc
  | _, _, _, acc => some acc

/-- `meetupRun` -/
def meetupRunC (ops : MeetOpsC α) (sb eb : Nat) (fs bs : List (States α)) : Option (MeetResult α) :=
  (meetupLoopC ops sb eb sb fs bs ⟨Score.negInf, -1, -1⟩).map fun r => ⟨r.c, r.transition, r.max⟩

/-- `ssMeetOps` (no array access) -/
def ssMeetOpsC (ap : AlnParam α) (r : Rect) : MeetOpsC α :=
  let o := ssMeetOps ap r
  { g2 := fun i x => some (o.g2 i x), g3 := fun x => some (o.g3 x), g5 := fun i x => some (o.g5 i x)
    g6 := fun x => some (o.g6 x), g7 := fun x => some (o.g7 x), g6e := fun x => some (o.g6e x) }

/-- `spMeetOps` -/
def spMeetOpsC (ap : AlnParam α) (prof1 : Array α) (sip : Nat) (r : Rect) (mid : Nat) : MeetOpsC α :=
  let open_ := ap.gpo *ₛ Score.ofNat sip
  { g2 := fun _ x => some (x -ₛ open_)
    g3 := fun x => (pgetC prof1 (mid + 1) 27).bind fun y => some (x +ₛ y)
    g5 := fun _ x => some (x -ₛ open_)
    g6 := fun x => if r.startb == 0 then (pgetC prof1 (mid + 1) 29).bind fun y => some (x +ₛ y)
                   else (pgetC prof1 (mid + 1) 28).bind fun y => some (x +ₛ y)
    g7 := fun x => (pgetC prof1 mid 27).bind fun y => some (x +ₛ y)
    g6e := fun x => if r.endb == r.lenB then (pgetC prof1 (mid + 1) 29).bind fun y => some (x +ₛ y)
                    else (pgetC prof1 (mid + 1) 28).bind fun y => some (x +ₛ y) }

/-- `ppMeetOps` -/
def ppMeetOpsC (prof1 prof2 : Array α) (r : Rect) (mid : Nat) : MeetOpsC α :=
  { g2 := fun i x => (pgetC prof2 (i + 1) 27).bind fun y => some (x +ₛ y)
    g3 := fun x => (pgetC prof1 (mid + 1) 27).bind fun y => some (x +ₛ y)
    g5 := fun i x => (pgetC prof2 i 27).bind fun y => some (x +ₛ y)
    g6 := fun x => if r.startb == 0 then (pgetC prof1 (mid + 1) 29).bind fun y => some (x +ₛ y)
                   else (pgetC prof1 (mid + 1) 28).bind fun y => some (x +ₛ y)
    g7 := fun x => (pgetC prof1 mid 27).bind fun y => some (x +ₛ y)
    g6e := fun x => if r.endb == r.lenB then (pgetC prof1 (mid + 1) 29).bind fun y => some (x +ₛ y)
                    else (pgetC prof1 (mid + 1) 28).bind fun y => some (x +ₛ y) }

/-- `kForward` -/
def kForwardC (ap : AlnParam α) (ops : Operands α) (r : Rect) (start : States α) : Option (List (States α)) :=
  match ops with
  | .seqseq s1 s2 => ssForwardC ap s1 s2 r start
  | .seqprof p s2 sip => spForwardC ap p s2 sip r start
  | .profprof p1 p2 => ppForwardC p1 p2 r start

/-- `kBackward` -/
def kBackwardC (ap : AlnParam α) (ops : Operands α) (r : Rect) (start : States α) : Option (List (States α)) :=
  match ops with
  | .seqseq s1 s2 => ssBackwardC ap s1 s2 r start
  | .seqprof p s2 sip => spBackwardC ap p s2 sip r start
  | .profprof p1 p2 => ppBackwardC p1 p2 r start

/-- `kMeetup` -/
def kMeetupC (ap : AlnParam α) (ops : Operands α) (r : Rect) (mid : Nat) (fs bs : List (States α)) :
    Option (MeetResult α) :=
  match ops with
  | .seqseq _ _ => meetupRunC (ssMeetOpsC ap r) r.startb r.endb fs bs
  | .seqprof p _ sip => meetupRunC (spMeetOpsC ap p sip r mid) r.startb r.endb fs bs
  | .profprof p1 p2 => meetupRunC (ppMeetOpsC p1 p2 r mid) r.startb r.endb fs bs

end kernels

/-! ## 2. the Hirschberg controller (Model/Hirschberg.lean) and `alnRun`, `Mem.pathEntries` (Model/DoAlign.lean)

`Mem.setPath` is kept as it is: it already is a bounds-tested write with an explicit fault value. -/
section controller

/-- `Kernels` with checked slot-0 accessors; `step`: outer `none` = index out of range, inner = the model's answer -/
structure KernelsC (φ α : Type) where
  get0 : φ → Option (States α)
  set0 : φ → States α → Option φ
  step : φ → φ → (starta mid enda startb endb : Int) → Option (Option (KStep φ α))
  stA : States α
  stGA : States α
  stGB : States α

variable {φ α : Type}

def KernelsC.st (K : KernelsC φ α) : Kind → States α
  | .A => K.stA
  | .GA => K.stGA
  | .GB => K.stGB

/-- `Mem.setF` -/
def Mem.setFC (K : KernelsC φ α) (m : Mem φ α) (k : Kind) : Option (Mem φ α) :=
  (K.set0 m.f (K.st k)).map fun f => { m with f := f, fk := k }
/-- `Mem.setB` -/
def Mem.setBC (K : KernelsC φ α) (m : Mem φ α) (k : Kind) : Option (Mem φ α) :=
  (K.set0 m.b (K.st k)).map fun b => { m with b := b, bk := k }
/-- `Mem.restoreF` -/
def Mem.restoreFC (K : KernelsC φ α) (m : Mem φ α) (s : States α) (k : Kind) : Option (Mem φ α) :=
  (K.set0 m.f s).map fun f => { m with f := f, fk := k }
/-- `Mem.restoreB` -/
def Mem.restoreBC (K : KernelsC φ α) (m : Mem φ α) (s : States α) (k : Kind) : Option (Mem φ α) :=
  (K.set0 m.b s).map fun b => { m with b := b, bk := k }

/-- `alnFwd` -/
def alnFwdC (K : KernelsC φ α) (m : Mem φ α) (inF : States α) (inFk bkind : Kind) (oc0 ea oc2 eb : Int) :
    Option (Mem φ α) :=
  (m.restoreFC K inF inFk).bind fun m => (m.setBC K bkind).map fun m => m.setRect oc0 ea oc2 eb

/-- `alnBwd` -/
def alnBwdC (K : KernelsC φ α) (m : Mem φ α) (inB : States α) (inBk fkind : Kind) (sa oc1 sb oc3 : Int) :
    Option (Mem φ α) :=
  ((m.setRect sa oc1 sb oc3).setFC K fkind).bind fun m => m.restoreBC K inB inBk

/-- `alnContinue` -/
def alnContinueC (K : KernelsC φ α) (rec : Mem φ α → Option (Mem φ α)) (m : Mem φ α)
    (inF inB : States α) (inFk inBk : Kind) (oc0 oc1 oc2 oc3 oc4 meet t : Int) : Option (Mem φ α) :=
  let fwd := fun (m : Mem φ α) (bkind : Kind) (ea eb : Int) => alnFwdC K m inF inFk bkind oc0 ea oc2 eb
  let bwd := fun (m : Mem φ α) (fkind : Kind) (sa sb : Int) => alnBwdC K m inB inBk fkind sa oc1 sb oc3
  if t = 1 then
    let m := (m.setPath oc4 meet).setPath (oc4 + 1) (meet + 1)
    ((fwd m .A (oc4 - 1) (meet - 1)).bind rec).bind fun m =>
    (bwd m .A (oc4 + 1) (meet + 1)).bind rec
  else if t = 2 then
    let m := m.setPath oc4 meet
    ((fwd m .A (oc4 - 1) (meet - 1)).bind rec).bind fun m =>
    (bwd m .GA oc4 (meet + 1)).bind rec
  else if t = 3 then
    let m := m.setPath oc4 meet
    ((fwd m .A (oc4 - 1) (meet - 1)).bind rec).bind fun m =>
    (bwd m .GB (oc4 + 1) meet).bind rec
  else if t = 5 then
    let m := m.setPath (oc4 + 1) (meet + 1)
    ((fwd m .GA oc4 (meet - 1)).bind rec).bind fun m =>
    (bwd m .A (oc4 + 1) (meet + 1)).bind rec
  else if t = 6 then
    ((fwd m .GB (oc4 - 1) meet).bind rec).bind fun m =>
    (bwd m .GB (oc4 + 1) meet).bind rec
  else if t = 7 then
    let m := m.setPath (oc4 + 1) (meet + 1)
    ((fwd m .GB (oc4 - 1) meet).bind rec).bind fun m =>
    (bwd m .A (oc4 + 1) (meet + 1)).bind rec
  else some m

/-- `runnerBody` -/
def runnerBodyC (K : KernelsC φ α) (scoreOnly : Bool) (rec : Mem φ α → Option (Mem φ α)) (m : Mem φ α) :
    Option (Mem φ α) :=
  (K.get0 m.f).bind fun inF =>
  (K.get0 m.b).bind fun inB =>
  let inFk := m.fk
  let inBk := m.bk
  let mid := (m.enda - m.starta) / 2 + m.starta
  let oc0 := m.starta
  let oc1 := m.enda
  let oc2 := m.startb
  let oc3 := m.endb
  let m := { m with enda := mid, starta2 := mid, enda2 := oc1 }
  (K.step m.f m.b oc0 mid oc1 oc2 oc3).bind fun sr =>
  match sr with
  | none => some { m with fault := true }
  | some r =>
    let m := { m with
      f := r.f, b := r.b,
      mon := m.mon && meetupContract inFk inBk oc0 oc1 oc2 oc3 mid r.meet r.transition,
      trace := ⟨oc0, oc1, oc2, oc3, r.meet, r.transition, r.score⟩ :: m.trace }
    if scoreOnly then some { m with score := some r.score }
    else alnContinueC K rec m inF inB inFk inBk oc0 oc1 oc2 oc3 mid r.meet r.transition

/-- `runnerSerial` -/
def runnerSerialC (K : KernelsC φ α) (scoreOnly : Bool) : Nat → Mem φ α → Option (Mem φ α)
  | 0, m => some { m with fault := true }
  | n + 1, m =>
    if m.fault then some m
    else if m.starta ≥ m.enda then some m
    else if m.startb ≥ m.endb then some m
    else runnerBodyC K scoreOnly (runnerSerialC K scoreOnly n) m

/-- `runner` -/
def runnerC (K : KernelsC φ α) (scoreOnly : Bool) : Nat → Mem φ α → Option (Mem φ α)
  | 0, m => some { m with fault := true }
  | n + 1, m =>
    if m.fault then some m
    else
      (if m.enda - m.starta < 500 then runnerSerialC K scoreOnly (n + 1) m else some m).bind fun m =>
      if m.fault then some m
      else if m.starta ≥ m.enda then some m
      else if m.startb ≥ m.endb then some m
      else runnerBodyC K scoreOnly (runnerC K scoreOnly n) m

end controller

section realkernels
variable {α : Type} [Score α]

/-- `blit`: outer `none` = a `set!` would be dropped -/
def blitC (arr : Array (States α)) (at_ : Nat) (cells : List (States α)) : Option (Option (Array (States α))) :=
  if at_ + cells.length ≤ arr.size then
    (foldlC (fun (p : Array (States α) × Nat) c => (asetC p.1 p.2 c).map fun a => (a, p.2 + 1)) (arr, at_) cells).map
      fun p => some p.1
  else some none

/-- `realStep` -/
def realStepC (ap : AlnParam α) (ops : Operands α) (lenA lenB : Nat)
    (f b : Array (States α)) (sa mid ea sb eb : Int) : Option (Option (KStep (Array (States α)) α)) :=
  if 0 ≤ sa ∧ sa ≤ mid ∧ mid ≤ ea ∧ ea ≤ lenA ∧ 0 ≤ sb ∧ sb < eb ∧ eb ≤ lenB ∧ 0 < f.size ∧ 0 < b.size then
    let rF : Rect := ⟨sa.toNat, mid.toNat, sb.toNat, eb.toNat, lenB⟩
    let rB : Rect := ⟨mid.toNat, ea.toNat, sb.toNat, eb.toNat, lenB⟩
    (f[0]?).bind fun f0 =>
    (kForwardC ap ops rF f0).bind fun fs =>
    (b[0]?).bind fun b0 =>
    (kBackwardC ap ops rB b0).bind fun bs =>
    (blitC f sb.toNat fs).bind fun bf =>
    (blitC b sb.toNat bs).bind fun bb =>
    match bf, bb with
    | some f', some b' =>
      (kMeetupC ap ops rF mid.toNat fs bs).map fun r => some ⟨f', b', r.meet, r.transition, r.score⟩
    | _, _ => some none
  else some none

/-- `realKernels` -/
def realKernelsC (ap : AlnParam α) (ops : Operands α) (lenA lenB : Nat) : KernelsC (Array (States α)) α :=
  { get0 := fun s => s[0]?
    set0 := fun s x => asetC s 0 x
    step := realStepC ap ops lenA lenB
    stA := oneHotA
    stGA := oneHotGA
    stGB := oneHotGB }

/-- `initMem` -/
def initMemC (lenA lenB : Nat) : Option (Mem (Array (States α)) α) :=
  let g := max lenA lenB + 2
  (asetC (Array.replicate g States.negInf) 0 oneHotA).map fun (arr : Array (States α)) =>
  { f := arr, b := arr, path := Array.replicate g (-1),
    starta := 0, enda := lenA, startb := 0, endb := lenB, starta2 := 0, enda2 := 0,
    score := none, fk := .A, bk := .A, mon := true, fault := false, trace := [] }

/-- `alnRun` -/
def alnRunC (entry : Entry) (ap : AlnParam α) (ops : Operands α) (lenA lenB : Nat)
    (m : Mem (Array (States α)) α) : Option (Mem (Array (States α)) α) :=
  let K := realKernelsC ap ops lenA lenB
  match entry with
  | .parallel => runnerC K false m.fuel m
  | .serial => runnerSerialC K false m.fuel m

/-- `Mem.pathEntries` -/
def Mem.pathEntriesC {φ : Type} (m : Mem φ α) (lenA : Nat) : Option (List Int) :=
  mapC (fun i => m.path[i]?) (List.range' 1 lenA)

end realkernels

/-! ## 3. profiles (Model/Profile.lean)

`Chk γ` = `OptionT Option γ`: the outer `Option` is "an index was out of range", the inner one the model's own fault
value.  `chk` lifts a checked access, `mdl` a model computation that may fault. -/
section profiles
variable {α : Type} [Score α]

local infixl:65 " +ₛ " => Score.add
local infixl:65 " -ₛ " => Score.sub
local infixl:70 " *ₛ " => Score.mul

abbrev Chk (γ : Type) := OptionT Option γ
@[inline] def chk {γ : Type} (x : Option γ) : Chk γ := OptionT.lift x
@[inline] def mdl {γ : Type} (x : Option γ) : Chk γ := OptionT.mk (some x)

/-- `sentinelCol` -/
def sentinelColC (ap : AlnParam α) : Option (Array α) :=
  (asetC (Array.replicate 64 (Score.zero : α)) 55 (Score.neg ap.gpo)).bind fun c =>
  (asetC c 56 (Score.neg ap.gpe)).bind fun c => asetC c 57 (Score.neg ap.tgpe)

/-- `residueCol` -/
def residueColC (ap : AlnParam α) (c : Nat) : Option (Array α) :=
  (asetC (Array.replicate 64 (Score.zero : α)) c ((Score.zero : α) +ₛ Score.one)).bind fun col =>
  (foldlC (fun col j => (ap.subC c j).bind fun s => asetC col (32 + j) s) col (List.range 23)).bind fun col =>
  (asetC col 55 (Score.neg ap.gpo)).bind fun col =>
  (asetC col 56 (Score.neg ap.gpe)).bind fun col => asetC col 57 (Score.neg ap.tgpe)

/-- `makeProfile` -/
def makeProfileC (ap : AlnParam α) (seq : Array Nat) : Option (Array α) :=
  (sentinelColC ap).bind fun s0 =>
  (foldlC (fun p c => (residueColC ap c).map fun rc => p ++ rc) s0 seq.toList).bind fun body =>
  (sentinelColC ap).map fun s1 => body ++ s1

/-- `setGapPenalties` (the three reads are from the column before its three writes, as in the model; the written entries
27..29 are disjoint from the read entries 55..57) -/
def setGapPenaltiesC (prof : Array α) (nsip : Nat) : Option (Array α) :=
  let s : α := Score.ofNat nsip
  foldlC (fun p col =>
    let b := 64 * col
    (p[b + 55]?).bind fun x55 =>
    (p[b + 56]?).bind fun x56 =>
    (p[b + 57]?).bind fun x57 =>
    (asetC p (b + 27) (x55 *ₛ s)).bind fun p1 =>
    (asetC p1 (b + 28) (x56 *ₛ s)).bind fun p2 =>
    asetC p2 (b + 29) (x57 *ₛ s)) prof (List.range (prof.size / 64))

/-- `addCols` -/
def addColsC (x y : Array α) : Option (Array α) :=
  (mapC (fun i => (x[i]?).bind fun a => (y[i]?).bind fun b => some (a +ₛ b)) (List.range 64)).map List.toArray

/-- `subRange` -/
def subRangeC (col : Array α) (gp : α) : Option (Array α) :=
  foldlC (fun col j => (col[j]?).bind fun x => asetC col j (x -ₛ gp)) col (List.range' 32 23)

/-- `bumpAt` -/
def bumpAtC (col : Array α) (k : Nat) (s : α) : Option (Array α) :=
  (col[k]?).bind fun x => asetC col k (x +ₛ s)

/-- `gapCol` -/
def gapColC (ap : AlnParam α) (col : Array α) (code sip : Nat) : Option (Array α) :=
  let s : α := Score.ofNat sip
  let openBlock := fun (col : Array α) =>
    if bit code 32 then
      (bumpAtC col 25 s).bind fun col =>
      let gp := ap.tgpe *ₛ s
      (bumpAtC col 23 s).bind fun col =>
      let gp := gp +ₛ ap.gpo *ₛ s
      subRangeC col gp
    else
      (bumpAtC col 23 s).bind fun col => subRangeC col (ap.gpo *ₛ s)
  if !(bit code 4 || bit code 16) then
    if bit code 32 then (bumpAtC col 25 s).bind fun col => subRangeC col (ap.tgpe *ₛ s)
    else (bumpAtC col 24 s).bind fun col => subRangeC col (ap.gpe *ₛ s)
  else
    (if bit code 16 then openBlock col else some col).bind fun col =>
    if bit code 4 then openBlock col else some col

/-- `updateStep` -/
def updateStepC (ap : AlnParam α) (profa profb : Array α) (sipa sipb : Nat) (st : UpdState α) (code : Nat) :
    Chk (UpdState α) := do
  let mut pa := st.pa
  let mut pb := st.pb
  let mut col : Option (Array α) := none
  if code == 0 then
    let ca ← mdl (colOf? profa pa)
    let cb ← mdl (colOf? profb pb)
    let c ← chk (addColsC ca cb)
    col := some c
    pa := pa + 1
    pb := pb + 1
  if bit code 1 then
    let cb ← mdl (colOf? profb pb)
    pb := pb + 1
    let c ← chk (gapColC ap cb code sipa)
    col := some c
  if bit code 2 then
    let ca ← mdl (colOf? profa pa)
    pa := pa + 1
    let c ← chk (gapColC ap ca code sipb)
    col := some c
  match col with
  | none => mdl none
  | some c => pure { pa := pa, pb := pb, out := st.out ++ c }

/-- `foldlM` in `Chk` -/
def foldlChk {σ γ : Type} (f : σ → γ → Chk σ) : σ → List γ → Chk σ
  | s, [] => pure s
  | s, x :: xs => do let s' ← f s x; foldlChk f s' xs

/-- `updateN` -/
def updateNC (ap : AlnParam α) (profa profb : Array α) (codes : List Nat) (sipa sipb : Nat) :
    Chk (Array α) := do
  let c0a ← mdl (colOf? profa 0)
  let c0b ← mdl (colOf? profb 0)
  let c0 ← chk (addColsC c0a c0b)
  let st ← foldlChk (updateStepC ap profa profb sipa sipb) { pa := 1, pb := 1, out := c0 }
    (codes.takeWhile (· ≠ 3))
  let ca ← mdl (colOf? profa st.pa)
  let cb ← mdl (colOf? profb st.pb)
  let cl ← chk (addColsC ca cb)
  pure (st.out ++ cl)

end profiles

/-! ## 4. `doAlign` (Model/DoAlign.lean)

`st.seqs[x]?` in `prepOperand` is the model's own checked access (explicit fault value).  The two eager reads
`st.seqs.getD a #[]`, `st.seqs.getD b #[]` of `doAlign` are only *used* in the branches where the operand is a single
sequence (`msa->sequences[a]->s` is only dereferenced there, aln_run.c:153-215); the twin reads them there.
`mirrorPath` / `expandPath` build lists and are kept. -/
section doalign
variable {α : Type} [Score α]

/-- the state vectors all have one entry per node -/
def AlnState.wf (st : AlnState α) : Prop := st.profile.size = st.nsip.size ∧ st.plen.size = st.nsip.size

/-- `prepOperand` -/
def prepOperandC (ap : AlnParam α) (st : AlnState α) (x other : Nat) : Chk (Nat × Array α) := do
  let nx ← chk st.nsip[x]?
  if nx = 1 then
    match st.seqs[x]? with
    | some s =>
      if s.all (· < 23) then do
        let p ← chk (makeProfileC ap s)
        pure (s.size, p)
      else mdl none
    | none => mdl none
  else
    let px ← chk st.profile[x]?
    match px with
    | some p =>
      let len ← chk st.plen[x]?
      if p.size = 64 * (len + 2) then do
        let no ← chk st.nsip[other]?
        let q ← chk (setGapPenaltiesC p no)
        pure (len, q)
      else mdl none
    | none => mdl none

/-- the operand orientation of `doAlign` (`if na = 1 then …`), with the sequence reads inside the branches -/
def orientC (st : AlnState α) (a b na nb lenA lenB : Nat) (pa pb : Array α) : Chk (Operands α × Bool) :=
  if na = 1 then
    if nb = 1 then do
      let sa ← chk st.seqs[a]?
      let sb ← chk st.seqs[b]?
      pure (if lenA < lenB then (.seqseq sa sb, false) else (.seqseq sb sa, true))
    else do
      let sa ← chk st.seqs[a]?
      pure (.seqprof pb sa nb, true)
  else
    if nb = 1 then do
      let sb ← chk st.seqs[b]?
      pure (.seqprof pa sb na, false)
    else pure (if lenA < lenB then (.profprof pa pb, false) else (.profprof pb pa, true))

/-- the part of `doAlign` after the orientation -/
def dpTailC (entry : Entry) (ap : AlnParam α) (st : AlnState α) (a b c : Nat) (isLast : Bool) (lenA lenB : Nat)
    (pa pb : Array α) (na nb : Nat) (os : Operands α × Bool) : Chk (AlnState α × AlignOut α) := do
  let (ops, swapped) := os
  let (la, lb) := if swapped then (lenB, lenA) else (lenA, lenB)
  let m0 ← chk (initMemC la lb)
  let m ← chk (alnRunC entry ap ops la lb m0)
  if m.fault then mdl none else
  let raw ← chk (m.pathEntriesC la)
  let path := if swapped then mirrorPath lenA raw else raw
  let codes ← mdl (expandPath lenB path)
  let newp ← (if isLast then pure none else (updateNC ap pa pb codes na nb >>= fun p => pure (some p)) :
    Chk (Option (Array α)))
  let prof1 ← chk (asetC st.profile a none)
  let prof2 ← chk (asetC prof1 b none)
  let prof3 ← chk (asetC prof2 c newp)
  let plen ← chk (asetC st.plen c codes.length)
  let nsip ← chk (asetC st.nsip c (na + nb))
  pure ({ st with profile := prof3, plen := plen, nsip := nsip },
        { rawPath := path, codes := codes, mon := m.mon, trace := m.trace.reverse })

/-- `doAlign` -/
def doAlignC (entry : Entry) (ap : AlnParam α) (st : AlnState α) (a b c : Nat) (isLast : Bool) :
    Chk (AlnState α × AlignOut α) :=
  if a = b ∨ a ≥ st.nsip.size ∨ b ≥ st.nsip.size ∨ c ≥ st.nsip.size then mdl none else do
  let (lenA, pa) ← prepOperandC ap st a b
  let (lenB, pb) ← prepOperandC ap st b a
  if lenA = 0 ∨ lenB = 0 then mdl none else
  let na ← chk st.nsip[a]?
  let nb ← chk st.nsip[b]?
  let os ← orientC st a b na nb lenA lenB pa pb
  dpTailC entry ap st a b c isLast lenA lenB pa pb na nb os

/-- the progressive alignment over one global state vector (what `create_msa_tree` does with `msa->nsip`,
`msa->plen`, `t->profile`; the same fold as the driver op `dp_tasks`): the tasks `(a, b, c)` in table order, the last
one with `isLast` -/
def alignTasks (entry : Entry) (ap : AlnParam α) : List (Nat × Nat × Nat) → AlnState α → Option (AlnState α)
  | [], st => some st
  | (a, b, c) :: rest, st =>
    (doAlign entry ap st a b c rest.isEmpty).bind fun r => alignTasks entry ap rest r.1

/-- checked twin of `alignTasks` -/
def alignTasksC (entry : Entry) (ap : AlnParam α) : List (Nat × Nat × Nat) → AlnState α → Chk (AlnState α)
  | [], st => pure st
  | (a, b, c) :: rest, st => do
    let r ← doAlignC entry ap st a b c rest.isEmpty
    alignTasksC entry ap rest r.1

end doalign

/-! ## 6b. `bpmBlock` (Model/Bpm.lean; placed before section 5, which calls it through `distEntry`): `p.getD`, the `Peq` table, `blkScore` (`getD`), `bs.set` (`List.set`) -/
section bpm

/-- bounds-tested `List.set` -/
def lsetC {γ : Type} (l : List γ) (i : Nat) (v : γ) : Option (List γ) :=
  if i < l.length then some (l.set i v) else none

/-- `bitsToBV` with a bit function that may fail -/
def bitsToBVC (w : Nat) (f : Nat → Option Bool) : Nat → Option (BitVec w)
  | 0 => some 0#w
  | n + 1 => (bitsToBVC w f n).bind fun acc => (f n).map fun b => acc ||| (if b then (1#w <<< n) else 0#w)

/-- `peqWord`: the pattern is only read at positions before its (clipped) end, like `p[i]` for `i < m` in C -/
def peqWordC (p : List Nat) (m : Nat) (c : Nat) (block : Nat) : Option (BitVec 64) :=
  bitsToBVC 64 (fun i =>
    if m ≤ block * 64 + i then some true else (p[block * 64 + i]?).map fun x => decide (m ≤ block * 64 + i) || (x == c)) 64

/-- `colBlocks` -/
def colBlocksC (peq : Nat → Option (BitVec 64)) : Nat → Nat → Int → List BlockSt → Option (List BlockSt × Int)
  | _, 0, carry, bs => some (bs, carry)
  | _, _ + 1, carry, [] => some ([], carry)
  | b, cnt + 1, carry, s :: bs =>
    (peq b).bind fun w =>
    let r := advanceBlock s.P s.M w carry
    (colBlocksC peq (b + 1) cnt r.2.2 bs).map fun rest =>
    ({ P := r.1, M := r.2.1, score := s.score + r.2.2 } :: rest.1, rest.2)

/-- `blkScore` -/
def blkScoreC (bs : List BlockSt) (b : Nat) : Option Int := (bs[b]?).map (·.score)

/-- `bandShrink` -/
def bandShrinkC (bs : List BlockSt) (lim : Int) : Nat → Option Nat
  | 0 => some 0
  | y + 1 => (blkScoreC bs (y + 1)).bind fun s => if s ≥ lim then bandShrinkC bs lim y else some (y + 1)

/-- `bpmBlockCol`; the three-part condition is evaluated left to right like the C `&&` -/
def bpmBlockColC (peq : Nat → Nat → Option (BitVec 64)) (bmax : Nat) (maxd : Int) (st : BpmSt) (c : Nat) :
    Option BpmSt :=
  (colBlocksC (peq c) 0 (st.y + 1) 0 st.blocks).bind fun r =>
  let bs := r.1
  let carry := r.2
  let y := st.y
  (blkScoreC bs y).bind fun sy =>
  (if sy - carry ≤ maxd then
    if y + 1 < bmax then (peq c (y + 1)).map fun w => decide (w.getLsbD 0 ∨ carry < 0)
    else some false
   else some false).bind fun cond =>
  if cond then
    let y1 := y + 1
    (peq c y1).bind fun w =>
    let a := advanceBlock (BitVec.allOnes 64) 0#64 w carry
    (blkScoreC bs y).bind fun sy' =>
    let sc := sy' + 64 - carry + a.2.2
    (lsetC bs y1 { P := a.1, M := a.2.1, score := sc }).map fun bs =>
    { blocks := bs, y := y1, k := if sc < st.k then sc else st.k }
  else
    (bandShrinkC bs (maxd + 64) y).bind fun y2 =>
    (blkScoreC bs y2).map fun sc =>
    { blocks := bs, y := y2, k := if sc < st.k then sc else st.k }

/-- `bpmBlock` -/
def bpmBlockC (t p : List Nat) : Chk Int :=
  if t.any (fun c => decide (SIGMA ≤ c)) then mdl none else chk (
  let m := min p.length 1024
  let bmax := divCeil m 64
  let W := 64 * bmax - m
  (mapC (fun c => (mapC (fun b => peqWordC p m c b) (List.range bmax)).map List.toArray) (List.range SIGMA)).bind
    fun rows =>
  let tab : Array (Array (BitVec 64)) := rows.toArray
  let peq : Nat → Nat → Option (BitVec 64) := fun c b => (tab[c]?).bind fun row => row[b]?
  let y := divCeil m 64 - 1
  let blocks : List BlockSt := (List.range bmax).map fun b =>
    if b ≤ y then { P := BitVec.allOnes 64, M := 0#64, score := ((b + 1) * 64 : Nat) } else ⟨0#64, 0#64, 0⟩
  let st0 : BpmSt := { blocks := blocks, y := y, k := m }
  (foldlC (bpmBlockColC peq bmax m) st0 (t ++ List.replicate W 0)).map fun st => st.k)

/-- `calcDistanceRaw` -/
def calcDistanceRawC (a b : List Nat) : Chk Nat := do
  let k ← (if a.length > b.length then bpmBlockC a b else bpmBlockC b a)
  pure (k % 4294967296).toNat

/-- `calcDistance` -/
def calcDistanceC (a b : List Nat) : Chk Float32 := do
  let d ← calcDistanceRawC a b
  pure (Float32.ofNat d)

/-- `distEntry` -/
def distEntryC (a b : List Nat) : Chk Float32 := do
  let d ← calcDistanceC a b
  pure (d + lenTerm a.length b.length)

end bpm

/-! ## 5. `upgma` (Model/Tree.lean), `distMatrix` (Model/Dist.lean), `smallTree`, `anchorMatrix`, `leafNode`,
`mergeNodes`, `recAln` (Model/Pipeline.lean) -/
section tree

/-- `mapM` in `Chk` -/
def mapChk {β γ : Type} (f : β → Chk γ) : List β → Chk (List γ)
  | [] => pure []
  | x :: xs => do let y ← f x; let ys ← mapChk f xs; pure (y :: ys)

/-- `iterOpt` in `Chk` -/
def iterChk {σ : Type} (f : σ → Chk σ) : Nat → σ → Chk σ
  | 0, s => pure s
  | k + 1, s => do let s' ← f s; iterChk f k s'

/-- `FMat.get` -/
def FMat.getC (dm : FMat) (i j : Nat) : Option Float32 := (dm[i]?).bind fun row => row[j]?
/-- `FMat.set` -/
def FMat.setC (dm : FMat) (i j : Nat) (v : Float32) : Option FMat :=
  (dm[i]?).bind fun row => (asetC row j v).bind fun row' => asetC dm i row'

/-- `scanMin` -/
def scanMinC (n : Nat) (dm : FMat) (act : Array Bool) : Option Scan :=
  foldlC (fun s i =>
    (act[i]?).bind fun ai =>
    if ai then
      foldlC (fun s j =>
        (act[j]?).bind fun aj =>
        if aj then
          (dm.getC i j).bind fun v =>
          if v < s.mx then (dm.getC i j).bind fun v' => some { mx := v', a := i, b := j, found := true } else some s
        else some s) s (List.range' (i + 1) (n - (i + 1)))
    else some s) { mx := FLT_MAX, a := 0, b := 0, found := false } (List.range (n - 1))

/-- `upgmaRound` -/
def upgmaRoundC (n : Nat) (s : UpgmaSt) : Chk UpgmaSt := do
  let sc ← chk (scanMinC n s.dm s.act)
  if !sc.found then mdl none else
  let ta? ← chk s.tree[sc.a]?
  let tb? ← chk s.tree[sc.b]?
  match ta?, tb? with
  | some ta, some tb =>
    let a := sc.a
    let b := sc.b
    let tree ← chk (asetC s.tree a (some (.node ta tb)))
    let tree ← chk (asetC tree b none)
    let act ← chk (asetC s.act b false)
    let dm ← chk (foldrC (fun j dm =>
      if j ≠ b then
        (dm.getC a j).bind fun x => (dm.getC b j).bind fun y => dm.setC a j ((x + y) * f0_5 + f0_001)
      else some dm) s.dm (List.range n))
    let dm ← chk (dm.setC a a 0)
    let dm ← chk (foldrC (fun j dm => (dm.getC a j).bind fun v => dm.setC j a v) dm (List.range n))
    pure { dm := dm, act := act, tree := tree, last := a }
  | _, _ => mdl none

/-- `upgma` -/
def upgmaC (dm : List (List Float32)) (samples : List Nat) : Chk GTree :=
  let n := samples.length
  if n = 0 then mdl none else
  let st0 : UpgmaSt := { dm := (dm.map List.toArray).toArray, act := Array.replicate n true,
                         tree := (samples.map fun i => some (GTree.leaf i)).toArray, last := 0 }
  do
    let st ← iterChk (upgmaRoundC n) (n - 1) st0
    let t ← chk st.tree[st.last]?
    mdl t

/-- `distMatrix` -/
def distMatrixC (seqs : List (List Nat)) : Chk (List (List Float32)) :=
  let n := seqs.length
  mapChk (fun x => mapChk (fun y => do
    let a ← chk seqs[max x y]?
    let b ← chk seqs[min x y]?
    distEntryC a b) (List.range n)) (List.range n)

open Kalign.Pipeline Kalign.Kmeans in
/-- `smallTree` -/
def smallTreeC (codes : Array (List Nat)) (samples : List Nat) : Chk Tree := do
  let ss ← chk (mapC (fun s => codes[s]?) samples)
  let dm ← distMatrixC ss
  let t ← upgmaC dm samples
  pure (GTree.toTree t)

open Kalign.Pipeline Kalign.Kmeans in
/-- `anchorMatrix` -/
def anchorMatrixC (codes : Array (List Nat)) (anchors : List Nat) : Chk (Array (Array Float32)) := do
  let nv := numVarOf anchors.length
  let rows ← mapChk (fun s => do
    let r ← mapChk (fun a => do let sa ← chk codes[a]?; distEntryC s sa) anchors
    pure (r ++ List.replicate (nv - r.length) (0 : Float32)).toArray) codes.toList
  pure rows.toArray

end tree

/-! ## 6a. the k-means lanes (Model/Kmeans.lean): `[i]!` = `getD default` -/
namespace Kmeans
open Kalign

/-- `List.any` whose predicate may fail; stops at the first `true` like `List.any` (the C loop `break`s) -/
def anyC {γ : Type} (f : γ → Option Bool) : List γ → Option Bool
  | [] => some false
  | x :: xs => (f x).bind fun b => if b then some true else anyC f xs

/-- `laneGo` -/
def laneGoC (a b : Array Float32) (k : Nat) : Nat → Nat → Float32 → Option Float32
  | 0, _, r => some r
  | n + 1, blk, r =>
    (a[8 * blk + k]?).bind fun x => (b[8 * blk + k]?).bind fun y =>
    let t := x - y
    laneGoC a b k n (blk + 1) (r + t * t)

/-- `edist256` -/
def edist256C (a b : Array Float32) (len : Nat) : Option Float32 :=
  let nblk := (len + 7) / 8
  let r := fun k => laneGoC a b k nblk 0 0
  (r 0).bind fun r0 => (r 4).bind fun r4 => (r 1).bind fun r1 => (r 5).bind fun r5 =>
  (r 2).bind fun r2 => (r 6).bind fun r6 => (r 3).bind fun r3 => (r 7).bind fun r7 =>
  let v0 := r0 + r4
  let v1 := r1 + r5
  let v2 := r2 + r6
  let v3 := r3 + r7
  some (Float32.sqrt ((v0 + v1) + (v2 + v3)))

/-- `serialGo` -/
def serialGoC (a b : Array Float32) : Nat → Nat → Float32 → Option Float32
  | 0, _, d => some d
  | n + 1, i, d =>
    (a[i]?).bind fun x => (b[i]?).bind fun y =>
    let t := x - y
    serialGoC a b n (i + 1) (d + t * t)

/-- `edistSerial` -/
def edistSerialC (a b : Array Float32) (len : Nat) : Option Float32 :=
  (serialGoC a b len 0 0).map Float32.sqrt

/-- `edist` -/
def edistC (avx : Bool) (a b : Array Float32) (len : Nat) : Option Float32 :=
  if avx then edist256C a b len else edistSerialC a b len

/-- `colSumGo` -/
def colSumGoC (rows : Array (Array Float32)) (sel : Option (Array Bool × Bool)) (j : Nat) :
    Nat → Nat → Float32 → Option Float32
  | 0, _, acc => some acc
  | n + 1, i, acc =>
    (match sel with
      | none => some true
      | some (flags, side) => (flags[i]?).map (· == side)).bind fun take =>
    (if take then (rows[i]?).bind fun row => (row[j]?).map fun x => acc + x else some acc).bind fun acc' =>
    colSumGoC rows sel j n (i + 1) acc'

/-- `colSum` -/
def colSumC (rows : Array (Array Float32)) (sel : Option (Array Bool × Bool)) (j : Nat) : Option Float32 :=
  colSumGoC rows sel j rows.size 0 0

/-- `mkVec` with an entry function that may fail -/
def mkVecC (nv na : Nat) (f : Nat → Option Float32) : Option (Array Float32) :=
  (mapC (fun j => if j < na then f j else some 0) (List.range nv)).map List.toArray

/-- `assignGo` -/
def assignGoC (avx : Bool) (rows : Array (Array Float32)) (cl cr : Array Float32) (na : Nat) :
    Nat → Nat → Float32 → Array Bool → Option (Array Bool × Float32)
  | 0, _, sc, fl => some (fl, sc)
  | n + 1, i, sc, fl =>
    (rows[i]?).bind fun row =>
    (edistC avx row cl na).bind fun dl =>
    (edistC avx row cr na).bind fun dr =>
    let sc := sc + (if dl < dr then dl else dr)
    let c := cmpFloats dr dl
    let left := if c == -1 then false else if c == 1 then true else i % 2 == 0
    assignGoC avx rows cl cr na n (i + 1) sc (fl.push left)

/-- `centresMoved` (the second comparison is only evaluated when the first is 0: C `||`) -/
def centresMovedC (wl wr cl cr : Array Float32) (na : Nat) : Option Bool :=
  anyC (fun j =>
    (wl[j]?).bind fun a => (cl[j]?).bind fun b =>
    if cmpFloats a b != 0 then some true
    else (wr[j]?).bind fun c => (cr[j]?).map fun d => cmpFloats c d != 0) (List.range na)

/-- `iterStep` -/
def iterStepC (avx : Bool) (rows : Array (Array Float32)) (samples : List Nat) (na nv : Nat)
    (cl cr : Array Float32) : Option (Split × Option (Array Float32 × Array Float32)) :=
  (assignGoC avx rows cl cr na rows.size 0 0 (Array.mkEmpty rows.size)).bind fun (flags, score) =>
  let p := splitBy flags.toList samples
  if p.1.isEmpty || p.2.isEmpty then some (fallback samples, none)
  else
    let nl := Float32.ofNat p.1.length
    let nr := Float32.ofNat p.2.length
    (mkVecC nv na fun j => (colSumC rows (some (flags, true)) j).map (· / nl)).bind fun wl =>
    (mkVecC nv na fun j => (colSumC rows (some (flags, false)) j).map (· / nr)).bind fun wr =>
    let cur : Split := { sl := p.1, sr := p.2, score := score }
    (centresMovedC wl wr cl cr na).map fun moved => if moved then (cur, some (wl, wr)) else (cur, none)

/-- `split2Iter` -/
def split2IterC (avx : Bool) (rows : Array (Array Float32)) (samples : List Nat) (na nv : Nat) :
    Nat → Array Float32 → Array Float32 → Option Split
  | 0, cl, cr => (iterStepC avx rows samples na nv cl cr).map (·.1)
  | k + 1, cl, cr =>
    (iterStepC avx rows samples na nv cl cr).bind fun
    | (r, none) => some r
    | (_, some (cl', cr')) => split2IterC avx rows samples na nv k cl' cr'

/-- `split2With` (`rowsOf` is the model's own checked read of `dm[samples[i]]`) -/
def split2WithC (maxIter : Nat) (avx : Bool) (dm : Array (Array Float32)) (samples : List Nat) (na seedPick : Nat) :
    Chk Split :=
  let n := samples.length
  let nv := numVarOf na
  if n = 0 then mdl none else
  match rowsOf dm nv samples with
  | none => mdl none
  | some rows =>
    if seedPick < n then chk (
      let fn := Float32.ofNat n
      (mkVecC nv na fun j => (colSumC rows none j).map (· / fn)).bind fun w =>
      (rows[seedPick]?).bind fun seed =>
      (mkVecC nv na fun j => seed[j]?).bind fun cl =>
      (mkVecC nv na fun j => (w[j]?).bind fun wj => (cl[j]?).bind fun cj => (w[j]?).map fun wj' => wj - (cj - wj')).bind
        fun cr =>
      split2IterC avx rows samples na nv (maxIter - 1) cl cr)
    else mdl none

end Kmeans


/-! ## 7. the pipeline (Model/Pipeline.lean, the rounds of Model/Kmeans.lean): everything composed up to `core`

Result type `Option (Except _ _)`: `none` = an index was out of range somewhere below, `some r` = the model's result. -/
namespace Pipeline
open Kalign Kalign.Kmeans

/-- `mirrorPath` (`List.set` drops a write outside the list) -/
def mirrorPathC (lenA : Nat) (apath : List Int) : Option (List Int) :=
  let upd := fun (o : List Int) (ip : Nat × Int) =>
    if ip.2 ≤ 0 then some o else lsetC o (ip.2.toNat - 1) (ip.1 + 1 : Nat)
  foldlC upd (List.replicate lenA (-1)) (apath.zipIdx.map fun (p, i) => (i, p))

/-- `roundRes` -/
def roundResC (sp : Nat → Chk Split) (step i : Nat) : Chk (List Split) := do
  let a ← sp (i * step)
  let b ← sp ((i + 1) * step)
  let c ← sp ((i + 2) * step)
  let d ← sp ((i + 3) * step)
  pure [a, b, c, d]

/-- `roundsGo` -/
def roundsGoC (sp : Nat → Chk Split) (step : Nat) : Nat → Nat → Option Split → Chk (Option Split)
  | 0, _, best => pure best
  | rem + 1, i, best => do
    let rs ← roundResC sp step i
    let bc := reduceRes (best, 0) rs
    if bc.2 = 0 then pure bc.1 else roundsGoC sp step rem (i + 4) bc.1

/-- `bestSplit` -/
def bestSplitC (avx : Bool) (dm : Array (Array Float32)) (na : Nat) (samples : List Nat) : Chk Split :=
  let n := samples.length
  let tries := if kmTries < n then kmTries else n
  if tries = 0 then mdl none
  else
    let step := n / tries
    do
      let r ← roundsGoC (split2WithC kmMaxIter avx dm samples na) step ((tries + 3) / 4) 0 none
      match r with
      | some b => pure b
      | none => mdl none

/-- `bisectO` -/
def bisectOC (avx : Bool) (dm : Array (Array Float32)) (na : Nat) (small : List Nat → Chk Tree) :
    Nat → List Nat → Option (Except KmErr Tree)
  | fuel, samples =>
    if samples.length < kmSmall then
      (small samples).run.map fun
        | some t => .ok t
        | none => .error .fault
    else match fuel with
      | 0 => some (.error .fuel)
      | fuel + 1 =>
        (bestSplitC avx dm na samples).run.bind fun
        | none => some (.error .fault)
        | some b =>
          (bisectOC avx dm na small fuel b.sl).bind fun l =>
          (bisectOC avx dm na small fuel b.sr).map fun r =>
          match l, r with
          | .ok l, .ok r => .ok (.node l r)
          | .error e, _ => .error e
          | _, .error e => .error e

/-- `buildTasks` -/
def buildTasksC (avx : Bool) (codes : Array (List Nat)) : Option (Except PipeErr (Array (Nat × Nat × Nat))) :=
  let n := codes.size
  match pickAnchors (codes.toList.map List.length) with
  | none => some (.error .tree)
  | some anchors =>
    (anchorMatrixC codes anchors).run.bind fun
    | none => some (.error .tree)
    | some dm =>
      (bisectOC avx dm anchors.length (smallTreeC codes) n (List.range n)).map fun
      | .error .fault => .error .tree
      | .error .fuel => .error .fuel
      | .ok t => .ok (Kmeans.sortTasks (treeTasks t n)).toArray

/-- `leafNode` -/
def leafNodeC (codes : Array (List Nat)) (i : Nat) : Option Node :=
  (codes[i]?).map fun s =>
  { len := s.length, nsip := 1, seq := s.toArray, prof := none,
    group := [{ idx := i, seq := { res := s, gaps := List.replicate (s.length + 1) 0 } }] }

/-- `mergeNodes` -/
def mergeNodesC (entry : Entry) (ap : AlnParam Float32) (A B : Node) (isLast : Bool) : Option (Except PipeErr Node) :=
  let st : AlnState Float32 :=
    { seqs := #[A.seq, B.seq], profile := #[A.prof, B.prof, none], plen := #[A.len, B.len, 0],
      nsip := #[A.nsip, B.nsip, 0] }
  (doAlignC entry ap st 0 1 2 isLast).run.bind fun
  | none => some (.error .fault)
  | some (st', out) =>
    if !out.mon then some (.error .monitor)
    else if !validColsB (out.codes.map Col.ofCode) A.len B.len then some (.error .monitor)
    else (st'.profile[2]?).map fun pr =>
      .ok { len := out.codes.length, nsip := A.nsip + B.nsip, seq := #[], prof := pr,
            group := mergeGroups out.codes A.group B.group }

/-- `recAln` -/
def recAlnC (ap : AlnParam Float32) (tasks : Array (Nat × Nat × Nat)) (codes : Array (List Nat)) (n : Nat) :
    Nat → Nat → Option (Except PipeErr Node)
  | 0, _ => some (.error .fuel)
  | fuel + 1, k =>
    match tasks[k]? with
    | none => some (.error .fault)
    | some (a, b, _) =>
      let child := fun (x : Nat) =>
        if x ≥ n then recAlnC ap tasks codes n fuel (x - n)
        else if x < codes.size then (leafNodeC codes x).map .ok else some (.error .fault)
      (child a).bind fun
      | .error e => some (.error e)
      | .ok A =>
        (child b).bind fun
        | .error e => some (.error e)
        | .ok B => mergeNodesC .parallel ap A B (k + 1 == tasks.size)

/-- `paramOfTable` (Model/Kernel.lean): the reads of the generated 23 × 23 matrices -/
def paramOfTableC (biotype : Nat) (type : Int) (gpo gpe tgpe : Float32) : Chk (AlnParam Float32) :=
  match alnParamInitF biotype type gpo gpe tgpe with
  | none => mdl none
  | some p =>
    match Gen.matricesBits[p.mat]? with
    | none => mdl none
    | some rows => chk (
      (mapC (fun i => (rows[i]?).bind fun row =>
        (mapC (fun j => (row[j]?).map fun b => Float32.ofBits (UInt32.ofNat b)) (List.range 23)).map List.toArray)
        (List.range 23)).map fun subm =>
      { subm := subm.toArray, gpo := p.gpo, gpe := p.gpe, tgpe := p.tgpe })

/-- `core` -/
def coreC (avx : Bool) (bio : Bio) (c1 c2 : List (List Nat)) (type : Int) (gpo gpe tgpe : Float32) :
    Option (Except PipeErr (List (List Nat))) :=
  let n := c2.length
  if n < 2 then some (.error .tooFew) else
  (buildTasksC avx c1.toArray).bind fun
  | .error e => some (.error e)
  | .ok tasks =>
    (paramOfTableC bio.code type gpo gpe tgpe).run.bind fun
    | none => some (.error .param)
    | some ap =>
      (recAlnC ap tasks c2.toArray n tasks.size (tasks.size - 1)).map fun
      | .error e => .error e
      | .ok root =>
        match (List.range n).mapM (finalGaps root.group) with
        | none => .error .fault
        | some gaps => .ok gaps

end Pipeline
end Kalign
