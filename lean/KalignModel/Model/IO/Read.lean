import KalignModel.Model.IO.Chars
import KalignModel.Gen.Consts
/-!
# Readers of `msa_io.c` on byte strings

`kalign_read_input` = `read_file_stdin` (lines) + `detect_alignment_format` + `read_fasta | read_msf | read_clu`
+ `detect_alphabet` + `detect_aligned` (+ `merge_msa` when the caller already holds an msa) + `check_for_sequences`.

Representation choices (each is an exact image of the C data, see the comments at the definitions):
* a line of the `in_buffer` is the list of its bytes (`len` = its length); the C string `line` equals it because the
  line is cut at the first `iscntrl` byte (NUL included);
* a sequence under construction (`SeqAcc`) keeps `seq[0..len)` reversed, `gaps[0..len)` reversed and `gaps[len]`;
  `resize_msa_seq` is called whenever `len == alloc_len`, `resize_msa` whenever `numseq == alloc_numseq`, so no index
  leaves its buffer and the capacities do not appear in the model;
* `sequences[]` together with the running index `active_seq` of `read_clu`/`read_msf` is a zipper (`Blk`):
  `done` = entries below `active_seq` (reversed), `rest` = entries from `active_seq` on;
* `letter_freq` is not threaded through the readers: every `letter_freq[c]++` in the three readers is immediately followed
  by the append of `c` to a sequence with index `< numseq`, so the histogram is computed from the stored residues
  (`letterFreq`); the correspondence ops print it from the real struct.
-/
namespace Kalign.IO

/-! ## read_file_stdin -/

/-- `getline` pieces without their terminating `'\n'`; a last piece without `'\n'` exists only if it is non-empty -/
def splitLinesAux : Bytes → Bytes → List Bytes → List Bytes
  | [], cur, acc => (if cur.isEmpty then acc else cur.reverse :: acc).reverse
  | b :: bs, cur, acc =>
    if b == 10 then splitLinesAux bs [] (cur.reverse :: acc) else splitLinesAux bs (b :: cur) acc

/-- the copy loop of `read_file_stdin` stops at the first `iscntrl` byte (`'\n'`, `'\r'`, `'\t'`, NUL, DEL, ...) -/
def cutCntrl (l : Bytes) : Bytes := l.takeWhile fun b => !isCntrl b

def splitLines (bs : Bytes) : List Bytes := (splitLinesAux bs [] []).map cutCntrl

/-! ## detect_alignment_format -/

def fastaHint (l : Bytes) : Nat := if l.head? == some 62 then 1 else 0
def msfHints : List Bytes := [ascii "!!AA_MULTIPLE_ALIGNMENT", ascii "!!NA_MULTIPLE_ALIGNMENT", ascii "MSF:"]
def cluHints : List Bytes := [ascii "multiple sequence alignment", ascii "CLUSTAL W", ascii "CLUSTAL O"]
def countHints (hs : List Bytes) (l : Bytes) : Nat := hs.countP fun h => hasSub h l

/-- hints[0], hints[1], hints[2] over the first 100 lines -/
def hints (lines : List Bytes) : Nat × Nat × Nat :=
  let ls := lines.take 100
  ((ls.map fastaHint).sum, (ls.map (countHints msfHints)).sum, (ls.map (countHints cluHints)).sum)

/-- what a single line says about the format: a line starting with '>' is a FASTA record header; otherwise a Clustal title, otherwise an MSF
header line (the `if / else if` chain that sets `first_hint` in the C code) -/
def lineKind (l : Bytes) : Option Int :=
  if fastaHint l ≠ 0 then some 1
  else if countHints cluHints l ≠ 0 then some 3
  else if countHints msfHints l ≠ 0 then some 2
  else none

/-- FORMAT_DETECT_FAIL = -1, FORMAT_FA = 1, FORMAT_MSF = 2, FORMAT_CLU = 3.  The first of the first 100 lines that carries a hint decides
(`first_hint`); no hint at all (`set == 0`) is FORMAT_DETECT_FAIL.  (Before the repair every non-zero hint overwrote: fasta < msf < clu, so a
FASTA description or a residue line containing "CLUSTAL W" turned the file into a Clustal file.) -/
def detectFormat (lines : List Bytes) : Int :=
  ((lines.take 100).findSome? lineKind).getD (-1)

/-! ## sequences -/

structure SeqRec where
  name : Bytes
  res : Bytes
  gaps : List Nat
  deriving Repr, DecidableEq, Inhabited

structure SeqAcc where
  name : Bytes
  rres : Bytes
  rgaps : List Nat
  cur : Nat
  deriving Repr, Inhabited

def SeqAcc.new (name : Bytes) : SeqAcc := ⟨name, [], [], 0⟩

/-- `isalpha` → append the residue; `ispunct` → `gaps[len]++`; anything else (blanks, digits, bytes ≥ 128) is skipped -/
def feedByte (a : SeqAcc) (b : UInt8) : SeqAcc :=
  if isAlpha b then { a with rres := b :: a.rres, rgaps := a.cur :: a.rgaps, cur := 0 }
  else if isPunct b then { a with cur := a.cur + 1 }
  else a

def feed (a : SeqAcc) (l : Bytes) : SeqAcc := l.foldl feedByte a

def SeqAcc.finish (a : SeqAcc) : SeqRec := ⟨a.name, a.rres.reverse, (a.cur :: a.rgaps).reverse⟩

/-! ## read_fasta -/

structure FaState where
  done : List SeqAcc        -- finished records, reversed
  cur : Option SeqAcc       -- `seq_ptr` (`none` = NULL)
  deriving Inhabited

/-- one line; `none` = the ERROR exit ("Encountered a sequence before encountering it's name").
The name is the whole header line after `'>'` (`memcpy(name, line+1, line_len)` into a buffer of `line_len` bytes). -/
def faLine (st : FaState) (line : Bytes) : Option FaState :=
  match line with
  | 62 :: nm =>
    some { done := (match st.cur with | some c => c :: st.done | none => st.done), cur := some (SeqAcc.new nm) }
  | _ =>
    match st.cur with
    | some c => some { st with cur := some (feed c line) }
    | none => if line.any (fun b => isAlpha b || isPunct b) then none else some st

def faFold : FaState → List Bytes → Option FaState
  | st, [] => some st
  | st, l :: ls => match faLine st l with
    | some st' => faFold st' ls
    | none => none

def FaState.seqs (st : FaState) : List SeqRec :=
  ((match st.cur with | some c => c :: st.done | none => st.done).reverse).map SeqAcc.finish

def readFasta (lines : List Bytes) : Option (List SeqRec) :=
  (faFold ⟨[], none⟩ lines).map FaState.seqs

/-! ## read_clu -/

structure Blk where
  done : List SeqAcc        -- sequences[0 .. active_seq), reversed
  rest : List SeqAcc        -- sequences[active_seq .. numseq)
  deriving Inhabited

def Blk.rewind (st : Blk) : Blk := ⟨[], st.done.reverse ++ st.rest⟩
def Blk.seqs (st : Blk) : List SeqRec := (st.done.reverse ++ st.rest).map SeqAcc.finish

/-- the value of `j` after the name loop of `read_clu`: index of the first blank among the first 255 bytes, else 255 if the
line is longer than 255, else 0 (the loop ran off the line without `break`, `j` keeps its initial 0 and
`name[0] = 0` empties the name: the whole line is then scanned as residues) -/
def cluNameLen (line : Bytes) : Nat :=
  let pre := line.take 255
  let k := pre.findIdx isSpace
  if k < pre.length then k else if line.length > 255 then 255 else 0

def cluLine (st : Blk) (line : Bytes) : Blk :=
  match line with
  | [] => st.rewind
  | c :: _ =>
    if isSpace c then st else
    let j := cluNameLen line
    let s := match st.rest with | s :: _ => s | [] => SeqAcc.new []
    ⟨feed { s with name := line.take j } (line.drop j) :: st.done, st.rest.tail⟩

/-- the first line (the header) is skipped unconditionally -/
def readClu (lines : List Bytes) : List SeqRec :=
  ((lines.drop 1).foldl cluLine ⟨[], []⟩).seqs

/-! ## read_msf -/

/-- header line with both `Name:` and `Len:`: the name is what follows `Name:` and blanks, up to the next blank or the end
of the line, at most 255 bytes -/
def msfName (line : Bytes) : Option Bytes :=
  match findSub (ascii "Name:") line with
  | some p =>
    if hasSub (ascii "Len:") line then
      some ((((p.drop 5).dropWhile isSpace).takeWhile fun b => !isSpace b).take 255)
    else none
  | none => none

/-- header phase: names until the first line containing `//`; returns the sequences and the lines after that line -/
def msfHeader : List Bytes → List SeqAcc → List SeqAcc × List Bytes
  | [], acc => (acc.reverse, [])
  | l :: ls, acc =>
    if hasSub (ascii "//") l then (acc.reverse, ls)
    else match msfName l with
      | some n => msfHeader ls (SeqAcc.new n :: acc)
      | none => msfHeader ls acc

/-- block phase; `none` = ERROR "More sequence lines in a block than names in the MSF header."
The first `strnlen(name)` bytes of the line are skipped without being compared with the name. -/
def msfLine (st : Blk) (line : Bytes) : Option Blk :=
  match line with
  | [] => some st.rewind
  | c :: _ =>
    if isSpace c then some st else
    match st.rest with
    | [] => none
    | s :: r => some ⟨feed s (line.drop s.name.length) :: st.done, r⟩

def msfFold : Blk → List Bytes → Option Blk
  | st, [] => some st
  | st, l :: ls => match msfLine st l with
    | some st' => msfFold st' ls
    | none => none

def readMsf (lines : List Bytes) : Option (List SeqRec) :=
  let (names, body) := msfHeader lines []
  (msfFold ⟨[], names⟩ body).map Blk.seqs

/-! ## detect_aligned, detect_alphabet (msa_op.c) -/

/-- ALN_STATUS_UNALIGNED = 1, ALN_STATUS_ALIGNED = 2, ALN_STATUS_UNKNOWN = 3 (= ALN_STATUS_FINAL) -/
def detectAligned (seqs : List SeqRec) : Nat :=
  let ls : List Nat := seqs.map fun s => s.gaps.sum + s.res.length
  let g : Nat := (seqs.map fun s => s.gaps.sum).sum
  let mn := ls.foldl min 2147483647
  let mx := ls.foldl max 0
  if g ≠ 0 then (if mn == mx then 2 else 3) else (if mn == mx then 3 else 1)

def letterFreq (seqs : List SeqRec) : Array Nat :=
  seqs.foldl (fun h s => s.res.foldl (fun h b => h.modify b.toNat (· + 1)) h) (Array.replicate 128 0)

/-- `log(num * 1.0 / den)` with the decimal literals of the C text (Gen.Consts keeps them as fractions scaled by 10^8) -/
def logProb (p : Nat × Nat) : Float := Float.log (Float.ofScientific p.1 true 8 / Float.ofNat (p.2 / 100000000))

def probTable (letters : String) (pl po : Nat × Nat) : Array Float :=
  letters.toList.foldl (fun t c => t.setIfInBounds c.toNat (logProb pl)) (Array.replicate 128 (logProb po))

/-- `(biotype, L)` after `detect_alphabet`: ALN_BIOTYPE_PROTEIN = 0, _DNA = 1, _UNDEF = 2; `L` only changes to
ALPHA_UNKNOWN (255) when the two log-likelihoods are equal -/
def detectAlphabet (lf : Array Nat) (bio L : Nat) : Nat × Nat :=
  let dna := probTable Gen.dnaLetters Gen.prob_dna_letter Gen.prob_dna_other
  let prot := probTable Gen.proteinLetters Gen.prob_prot_letter Gen.prob_prot_other
  let step := fun (acc : Float × Float) (i : Nat) =>
    if lf[i]! ≠ 0 then
      (acc.1 + dna[i]! * Float.ofNat lf[i]!, acc.2 + prot[i]! * Float.ofNat lf[i]!)
    else acc
  let (d, p) := (List.range 128).foldl step (0.0, 0.0)
  if d == p then (bio, 255) else if d > p then (1, L) else if p > d then (0, L) else (bio, L)

/-! ## kalign_read_input -/

structure Msa where
  seqs : List SeqRec
  biotype : Nat
  L : Nat
  aligned : Nat
  deriving Inhabited

inductive ReadResult where
  | fault                     -- undefined behaviour in the C code (see `readInput1`)
  | fail                      -- FAIL returned
  | null                      -- OK returned, `*msa == NULL`
  | ok (m : Msa)
  deriving Inhabited

def finishMsa (seqs : List SeqRec) (bio L : Nat) : Msa :=
  let (b, l) := detectAlphabet (letterFreq seqs) bio L
  ⟨seqs, b, l, detectAligned seqs⟩

/-- one reader by format id (the `read_as` op: no sniffing, no sequence-count check) -/
def readAs (fmt : Int) (lines : List Bytes) : Option (List SeqRec) :=
  if fmt == 1 then readFasta lines else if fmt == 2 then readMsf lines else if fmt == 3 then some (readClu lines) else none

/-- `kalign_read_input(file, &msa)` where `prev` is the incoming `*msa`.
`alloc_msa` starts with biotype UNDEF (2) and `L = ALPHA_UNDEFINED` (-1 stored in a `uint8_t`: 255). -/
def readInput1 (prev : Option Msa) (file : Bytes) : ReadResult :=
  let lines := splitLines file
  -- "Check if any input was read": `j = len(first line) - 1`, 0 also when there is no line at all
  let j : Int := match lines with | [] => 0 | l :: _ => (l.length : Int) - 1
  if j == 0 then .null else
  let t := detectFormat lines
  if t == -1 then .null else
  match readAs t lines with
  | none => .fail
  | some seqs =>
    -- zero sequences: `set_sip_nsip` refuses (`num_profiles` would be -1) and the call fails
    if seqs.isEmpty then .fail else
    let m := finishMsa seqs 2 255
    let r : Option Msa := match prev with
      | none => some m
      | some d =>
        -- merge_msa
        if d.biotype ≠ 2 && d.biotype ≠ m.biotype then none
        else some (finishMsa (d.seqs ++ m.seqs) d.biotype d.L)
    match r with
    | none => .fail
    -- check_for_sequences: only an empty msa is rejected (a single sequence may still be merged with further files)
    | some m => if m.seqs.length == 0 then .fail else .ok m

def readInput (file : Bytes) : ReadResult := readInput1 none file

/-- several input files in turn, as `run_kalign.c` does; a FAIL stops; an input from which nothing was read (empty or
of no recognised format) leaves what earlier inputs contributed untouched -/
def readInputs : Option Msa → List Bytes → ReadResult
  | none, [] => .null
  | some m, [] => .ok m
  | prev, f :: fs => match readInput1 prev f with
    | .fault => .fault
    | .fail => .fail
    | .null => readInputs prev fs
    | .ok m => readInputs (some m) fs

end Kalign.IO
