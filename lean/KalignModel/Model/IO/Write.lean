import KalignModel.Model.IO.Chars
import KalignModel.Gen.Consts
/-!
# Writers of `msa_io.c` on byte strings, GCG checksums of `msa_misc.c`

An `Alignment` is what `kalign_write_msa` sees after `finalise_alignment`: per sequence the name (a C string) and the
linear row `seq->seq`, plus `alnlen`, `biotype`, `L` and the base name of the output file (MSF header).
The writers read `seq[j]` for `j < alnlen` only; `Alignment.InBounds` is the C precondition (rows of at least `alnlen`
bytes), `writeMsa` returns `fault` without it.

`fprintf("%s")`, `snprintf("%-*.*s", "%5d", "%4d", "%.2f")`, `strnlen` are modelled by their specification.
The line buffer of the Clustal/MSF writers is modelled literally: lines with their `(block, seq_id)` keys in the order
the C code creates them, then sorted by `sort_out_lines`.  All keys are distinct, hence every correct sorting
algorithm (`qsort` is not stable) produces the same order; `List.mergeSort` is used.
-/
namespace Kalign.IO

structure Row where
  name : Bytes
  row : Bytes
  deriving Repr, DecidableEq, Inhabited

structure Alignment where
  rows : List Row
  alnlen : Nat
  biotype : Nat
  L : Nat
  basename : Bytes
  deriving Repr, Inhabited

def Alignment.InBounds (A : Alignment) : Prop := ∀ r ∈ A.rows, A.alnlen ≤ r.row.length
instance (A : Alignment) : Decidable A.InBounds := by unfold Alignment.InBounds; exact inferInstance

/-! ## numbers and padding -/

def decDigitsAux : Nat → Nat → Bytes → Bytes
  | 0, _, acc => acc
  | fuel + 1, n, acc =>
    let acc := (UInt8.ofNat (48 + n % 10)) :: acc
    if n / 10 = 0 then acc else decDigitsAux fuel (n / 10) acc

/-- `%d` of a non-negative int -/
def decDigits (n : Nat) : Bytes := decDigitsAux (n + 1) n []

def padLeft (w : Nat) (s : Bytes) : Bytes := List.replicate (w - s.length) 32 ++ s
def padRight (w : Nat) (s : Bytes) : Bytes := s ++ List.replicate (w - s.length) 32

/-! ## GCG checksums -/

def gcgAux : Nat → Nat → Bytes → Nat
  | _, chk, [] => chk
  | i, chk, b :: bs => gcgAux (i + 1) ((chk + (i % 57 + 1) * (toUpper b).toNat) % 10000) bs

/-- `GCGchecksum(seq, len)` over the first `len` bytes (bytes < 128) -/
def gcgChecksum (seq : Bytes) (len : Nat) : Nat := gcgAux 0 0 (seq.take len)

/-- `GCGMultchecksum` -/
def gcgMult (A : Alignment) : Nat :=
  A.rows.foldl (fun chk r => (chk + gcgChecksum r.row A.alnlen) % 10000) 0

/-! ## blocks of 60 columns -/

/-- the `while(1)` loop of the Clustal/MSF writers: at least one block, then one per started 60 columns -/
def blocks (row : Bytes) : List Bytes :=
  if row.length ≤ 60 then [row] else row.take 60 :: blocks (row.drop 60)
termination_by row.length
decreasing_by simp only [List.length_drop]; omega

/-- `strnlen(name, MSA_NAME_LEN)` bytes of the name -/
def nameCut (name : Bytes) : Bytes := name.take 256

def maxNameLen (A : Alignment) : Nat := A.rows.foldl (fun m r => max m (nameCut r.name).length) 0

/-! ## FASTA -/

/-- one record: `>name\n`, then the row 60 columns per line (`f == 60` → newline; a last newline `if(f)`) -/
def fastaRecord (alnlen : Nat) (r : Row) : Bytes :=
  let row := r.row.take alnlen
  62 :: r.name ++ 10 :: (if row.isEmpty then [] else (blocks row).flatMap fun c => c ++ [10])

def writeFasta (A : Alignment) : Bytes := A.rows.flatMap (fastaRecord A.alnlen)

/-! ## line buffer -/

structure OutLine where
  block : Int
  seqId : Int
  line : Bytes
  deriving Repr, DecidableEq, Inhabited

/-- `sort_out_lines(a, b) <= 0` -/
def OutLine.le (a b : OutLine) : Bool :=
  a.block < b.block || (a.block == b.block && a.seqId ≤ b.seqId)

def sortLines (ls : List OutLine) : List OutLine := ls.mergeSort OutLine.le

/-- `fprintf(f_ptr, "%s\n", ol->line)` for every line of the sorted buffer -/
def emitLines (ls : List OutLine) : Bytes := ls.flatMap fun l => l.line ++ [10]

/-- a sequence line: name, blanks up to column `max_name_len + 5`, then at most 60 columns -/
def seqLine (maxName : Nat) (name chunk : Bytes) : Bytes :=
  nameCut name ++ List.replicate (maxName + 5 - (nameCut name).length) 32 ++ chunk

/-- the lines created for one sequence (index `i`) from block `b` on: one per block, and behind each line of
sequence 0 the separator `(block, numseq, "\n")` -/
def seqOutLinesFrom (numseq maxName i : Nat) (name : Bytes) : Nat → List Bytes → List OutLine
  | _, [] => []
  | b, chunk :: cs =>
    (⟨(b : Int), (i : Int), seqLine maxName name chunk⟩ ::
      (if i = 0 then [⟨(b : Int), (numseq : Int), [10]⟩] else [])) ++
    seqOutLinesFrom numseq maxName i name (b + 1) cs

def seqOutLines (numseq maxName alnlen i : Nat) (r : Row) : List OutLine :=
  seqOutLinesFrom numseq maxName i r.name 0 (blocks (r.row.take alnlen))

/-- `for(i = 0; i < msa->numseq; i++)` from sequence index `i` on -/
def bodyFrom (numseq maxName alnlen : Nat) : Nat → List Row → List OutLine
  | _, [] => []
  | i, r :: rs => seqOutLines numseq maxName alnlen i r ++ bodyFrom numseq maxName alnlen (i + 1) rs

def bodyOutLines (A : Alignment) : List OutLine :=
  bodyFrom A.rows.length (maxNameLen A) A.alnlen 0 A.rows

/-! ## Clustal -/

def cluHeader (ver : Bytes) : List OutLine :=
  [⟨-1, -2, ascii "Kalign (" ++ ver ++ ascii ") multiple sequence alignment"⟩, ⟨-1, -1, []⟩]

def cluOutLines (ver : Bytes) (A : Alignment) : List OutLine := cluHeader ver ++ bodyOutLines A

def writeClu (ver : Bytes) (A : Alignment) : Bytes := emitLines (sortLines (cluOutLines ver A))

/-! ## MSF -/

/-- first header line: `!!AA` for biotype PROTEIN (0) or `L == ALPHA_redPROTEIN` (13), else `!!NA` -/
def msfMagic (A : Alignment) : Bytes :=
  if A.biotype == 0 then ascii "!!AA_MULTIPLE_ALIGNMENT 1.0"
  else if A.L == 13 then ascii "!!AA_MULTIPLE_ALIGNMENT 1.0"
  else ascii "!!NA_MULTIPLE_ALIGNMENT 1.0"

def msfTypeChar (A : Alignment) : UInt8 := if A.biotype == 0 then 80 else 78

/-- `" %s  MSF: %d  Type: %c  %s  Check: %d  .."` -/
def msfInfoLine (date : Bytes) (A : Alignment) : Bytes :=
  32 :: A.basename ++ ascii "  MSF: " ++ decDigits A.alnlen ++ ascii "  Type: " ++ [msfTypeChar A] ++ ascii "  " ++ date ++
    ascii "  Check: " ++ decDigits (gcgMult A) ++ ascii "  .."

/-- `" Name: %-*.*s  Len:  %5d  Check: %4d  Weight: %.2f"` with width = precision = `max_name_len`, weight 1.0 -/
def msfNameLine (maxName alnlen : Nat) (r : Row) : Bytes :=
  ascii " Name: " ++ padRight maxName (r.name.take maxName) ++ ascii "  Len:  " ++ padLeft 5 (decDigits alnlen) ++
    ascii "  Check: " ++ padLeft 4 (decDigits (gcgChecksum r.row alnlen)) ++ ascii "  Weight: 1.00"

/-- header lines in creation order; their keys are `(-1, header_index)` with `header_index` counting up from
`-(numseq + 10)` -/
def msfHeaderLines (date : Bytes) (A : Alignment) : List Bytes :=
  [msfMagic A, [], msfInfoLine date A, []] ++ A.rows.map (msfNameLine (maxNameLen A) A.alnlen) ++
    [[], ascii "//", []]

/-- keys `(-1, header_index)` from `header_index = k` on -/
def headerOutFrom : Int → List Bytes → List OutLine
  | _, [] => []
  | k, l :: ls => ⟨-1, k, l⟩ :: headerOutFrom (k + 1) ls

def msfHeaderOut (date : Bytes) (A : Alignment) : List OutLine :=
  headerOutFrom (-((A.rows.length : Int) + 10)) (msfHeaderLines date A)

def msfOutLines (date : Bytes) (A : Alignment) : List OutLine := msfHeaderOut date A ++ bodyOutLines A

def writeMsf (date : Bytes) (A : Alignment) : Bytes := emitLines (sortLines (msfOutLines date A))

/-! ## kalign_write_msa -/

/-- `parse_format_argument`: first word of the chain found in the argument (Gen.formatChain is parsed from the C text);
`none` argument (NULL) = FASTA; no word found = FAIL -/
def parseFormat (fmt : Option Bytes) : Option Int :=
  match fmt with
  | none => some 1
  | some f =>
    let rec go : List (String × Int) → Option Int
      | [] => none
      | (w, t) :: rest => if hasSub (ascii w) f then some t else go rest
    go Gen.formatChain

inductive WriteResult where
  | fail
  | fault
  | ok (b : Bytes)

def writeMsa (ver date : Bytes) (fmt : Option Bytes) (A : Alignment) : WriteResult :=
  match parseFormat fmt with
  | none => .fail
  | some t =>
    if ¬ A.InBounds then .fault
    else if t == 1 then .ok (writeFasta A)
    else if t == 2 then .ok (writeMsf date A)
    else if t == 3 then .ok (writeClu ver A)
    else .fail

end Kalign.IO
