/-!
# C-locale `<ctype.h>` predicates on bytes

kalign never calls `setlocale`, so `isalpha/ispunct/isspace/iscntrl/toupper` are the "C" locale ones.
The library passes `(int) line[i]` with `char` signed: bytes ≥ 128 arrive as negative ints, for which glibc's
tables (valid for -128..255) answer "none of the classes" in the C locale and `toupper` is the identity.
-/
namespace Kalign.IO

abbrev Bytes := List UInt8

def isUpper (b : UInt8) : Bool := 65 ≤ b && b ≤ 90
def isLower (b : UInt8) : Bool := 97 ≤ b && b ≤ 122
def isAlpha (b : UInt8) : Bool := isUpper b || isLower b
def isDigit (b : UInt8) : Bool := 48 ≤ b && b ≤ 57
/-- `' '`, `\t \n \v \f \r` -/
def isSpace (b : UInt8) : Bool := b == 32 || (9 ≤ b && b ≤ 13)
def isCntrl (b : UInt8) : Bool := b < 32 || b == 127
def isPunct (b : UInt8) : Bool :=
  (33 ≤ b && b ≤ 47) || (58 ≤ b && b ≤ 64) || (91 ≤ b && b ≤ 96) || (123 ≤ b && b ≤ 126)
def toUpper (b : UInt8) : UInt8 := if isLower b then b - 32 else b

/-- bytes of an ASCII string literal -/
def ascii (s : String) : Bytes := s.toList.map fun c => UInt8.ofNat c.toNat

/-! ## strstr -/

/-- `strstr(hay, needle)`: the suffix of `hay` starting at the first occurrence -/
def findSub (needle : Bytes) : Bytes → Option Bytes
  | [] => if needle.isEmpty then some [] else none
  | h :: t => if needle.isPrefixOf (h :: t) then some (h :: t) else findSub needle t

def hasSub (needle hay : Bytes) : Bool := (findSub needle hay).isSome

end Kalign.IO
