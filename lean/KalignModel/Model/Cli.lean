import KalignModel.Gen.Cli
import KalignModel.Gen.Consts
import KalignModel.Model.Param
/-!
# The command-line front end: `main` / `run_kalign` (src/run_kalign.c), `init_param`, `check_msa_format_string`
(src/parameters.c)

`cliParseB argv stdinIsTty` is what `main(argc, argv)` does up to (and including) the calls into the library:
either one of the early exits, or the configuration that reaches `kalign_read_input` / `kalign_run` /
`kalign_write_msa`.  `argv` is the command line after the program name; an element is the list of its bytes
(`Arg`), `cliParse` is the same function on `String`s.

Everything that is data in the C text is read from `Gen/Cli.lean`, regenerated on every run: the `long_options[]`
table, the short option string, the `switch(c)` (which option code assigns which field through which conversion),
the chain of early returns with their exit statuses, the order in which stdin, the `-i` file and the remaining
arguments become `param->infile[]`, the order of the two checks, the argument lists of the three library calls,
the initial values of `init_param`.

## `getopt_long_only` (glibc, `posix/getopt.c`), for option tables of the shape the translator accepts
(no optional arguments, no flag pointers, option string without leading `+`/`-`/`:` and without `W;`):

* the scan is a left fold over `argv` (`step`); the state is `scan`, "the next element is the argument of option
  `c`" (`arg c`), "after `--`" (`rest`), or `err` (getopt returned `'?'`; `main` exits at once, so nothing after
  it matters);
* an element that is empty, `-`, or does not start with `-` is a non-option; with the default `PERMUTE` ordering
  (environment variable `POSIXLY_CORRECT` unset — the harness unsets it) non-options are skipped and end up
  after the options **in their original order**; everything after `--` is a non-option;
* `--body`: long option.  `-body` (long_only): long option if `body` has two or more characters or its only
  character is not a short option; if no long option matches and the first character is a short option the
  element is read as a cluster of short options instead;
* long option `name[=value]`: an exact name wins; otherwise the entries `name` is a prefix of: none = unknown, one =
  that entry, two or more = ambiguous (with `long_only` even when they mean the same, e.g. `--inp`/`--inf` are fine
  but `--i` is not);  `=value` on an option without argument is an error; a required argument without `=value` is the
  next element, whatever it looks like; none left = error;
* short cluster: each character must be in the option string (`:` and `;` never are); an option with argument takes
  the rest of the element, or the next element when nothing is left.

## `atoi`, `atof`
`atoi` = `(int) strtol(s, NULL, 10)`: blanks, sign, digits; glibc clamps to `long` and the cast keeps the low 32
bits.  `atof` = `strtod(s, NULL)`, assigned to a `float` field: the decimal / hexadecimal / `inf` / `nan` forms of
C11 7.22.1.3, correctly rounded to binary64 (round to nearest even) and then rounded again to binary32 — both
roundings are computed on exact rationals (`roundBin`).  `nan(n-char-sequence)` (glibc puts the sequence into the
payload) is outside the model: the value is `none` and a run that would pass it on answers `unmodelled`.
-/
namespace Kalign.Cli
open Kalign

/-- one `argv` element: its bytes (never 0) -/
abbrev Arg := List Nat

/-! ## `atoi` -/

def isSpace (c : Nat) : Bool := c == 32 || (9 ≤ c && c ≤ 13)
def isDigit (c : Nat) : Bool := 48 ≤ c && c ≤ 57

def natOfDigits (ds : List Nat) : Nat := ds.foldl (fun a d => a * 10 + (d - 48)) 0

/-- optional sign: (negative, rest) -/
def takeSign : List Nat → Bool × List Nat
  | 45 :: r => (true, r)
  | 43 :: r => (false, r)
  | s => (false, s)

/-- two's complement reading of the low 32 bits -/
def wrap32 (x : Int) : Int :=
  let m := x % 4294967296
  if m ≥ 2147483648 then m - 4294967296 else m

/-- `atoi(s)` as glibc computes it: `(int) strtol(s, NULL, 10)` with a 64-bit `long` -/
def atoi (s : Arg) : Int :=
  let (neg, r) := takeSign (s.dropWhile isSpace)
  let v : Int := natOfDigits (r.takeWhile isDigit)
  let l : Int := if neg then (if v > 9223372036854775808 then -9223372036854775808 else -v)
                 else (if v > 9223372036854775807 then 9223372036854775807 else v)
  wrap32 l

/-! ## `atof` and the narrowing to `float` -/

/-- `num/den ≥ 2^e` -/
def geScaled (num den : Nat) (e : Int) : Bool :=
  if e ≥ 0 then decide (num ≥ den * 2 ^ e.toNat) else decide (num * 2 ^ (-e).toNat ≥ den)

/-- `⌊log2 (num/den)⌋` for positive `num`, `den` -/
def floorLog2Rat (num den : Nat) : Int :=
  let e0 : Int := (num.log2 : Int) - (den.log2 : Int)
  if geScaled num den e0 then e0 else e0 - 1

/-- round the positive rational `num/den` to nearest-even in a binary format with `p` significant bits and
smallest quantum `2^qmin`: the result is `n * 2^q` (`n = 0`: underflow to zero; no overflow handling here) -/
def roundBin (num den : Nat) (p : Nat) (qmin : Int) : Nat × Int :=
  let e := floorLog2Rat num den
  let q : Int := if e - ((p : Int) - 1) ≥ qmin then e - ((p : Int) - 1) else qmin
  let a := if q ≥ 0 then num else num * 2 ^ (-q).toNat
  let b := if q ≥ 0 then den * 2 ^ q.toNat else den
  let n0 := a / b
  let r := a % b
  let n := if 2 * r > b || (2 * r == b && n0 % 2 == 1) then n0 + 1 else n0
  (n, q)

/-- a non-negative binary64 / binary32 magnitude -/
inductive Mag where
  | zero
  | inf
  | fin (n : Nat) (q : Int)   -- n * 2^q, n > 0
  deriving Repr, DecidableEq

/-- rounding with overflow to infinity: largest finite exponent `emax` -/
def roundMag (num den : Nat) (p : Nat) (qmin emax : Int) : Mag :=
  if num == 0 then .zero else
  let (n, q) := roundBin num den p qmin
  if n == 0 then .zero
  else if (n.log2 : Int) + q ≥ emax + 1 then .inf
  else .fin n q

def toDouble (num den : Nat) : Mag := roundMag num den 53 (-1074) 1023

/-- `(float) d` for a non-negative double -/
def narrow : Mag → Mag
  | .zero => .zero
  | .inf => .inf
  | .fin n q => if q ≥ 0 then roundMag (n * 2 ^ q.toNat) 1 24 (-149) 127 else roundMag n (2 ^ (-q).toNat) 24 (-149) 127

/-- binary32 encoding of a magnitude produced by `narrow` -/
def bits32 (neg : Bool) (m : Mag) : Nat :=
  let s := if neg then 2147483648 else 0
  match m with
  | .zero => s
  | .inf => s + 2139095040
  | .fin n q =>
    if n < 8388608 then s + n                              -- subnormal (q = -149)
    else
      let l := n.log2                                      -- 23, or 24 when n = 2^24
      let frac := if l == 23 then n - 8388608 else 0
      let biased := ((l : Int) + q + 127).toNat
      s + biased * 8388608 + frac

def lower (c : Nat) : Nat := if 65 ≤ c ∧ c ≤ 90 then c + 32 else c

def hexDigitVal (c : Nat) : Option Nat :=
  if 48 ≤ c ∧ c ≤ 57 then some (c - 48)
  else if 97 ≤ lower c ∧ lower c ≤ 102 then some (lower c - 87)
  else none

def isHexDigit (c : Nat) : Bool := (hexDigitVal c).isSome

def natOfHex (ds : List Nat) : Nat := ds.foldl (fun a d => a * 16 + (hexDigitVal d).getD 0) 0

/-- optional exponent part `<marker>[sign]digits` (marker given in lower case); 0 when absent or malformed -/
def exponentPart (marker : Nat) (s : List Nat) : Int :=
  match s with
  | c :: r =>
    if lower c == marker then
      let (neg, r) := takeSign r
      let ds := r.takeWhile isDigit
      if ds.isEmpty then 0 else (if neg then -(natOfDigits ds : Int) else natOfDigits ds)
    else 0
  | [] => 0

/-- digits, optional `.` digits : (integer digits, fraction digits, rest) -/
def mantissaPart (isDig : Nat → Bool) (s : List Nat) : List Nat × List Nat × List Nat :=
  let i := s.takeWhile isDig
  match s.dropWhile isDig with
  | 46 :: r => (i, r.takeWhile isDig, r.dropWhile isDig)
  | r => (i, [], r)

/-- decimal floating constant at the start of `s`; `none` = no digits at all -/
def decMag (s : List Nat) : Option Mag :=
  let (i, f, r) := mantissaPart isDigit s
  if i.isEmpty && f.isEmpty then none else
  let ds := (i ++ f).dropWhile (· == 48)
  if ds.isEmpty then some .zero else
  let m := natOfDigits ds
  let e10 : Int := exponentPart 101 r - f.length
  let top : Int := (ds.length : Int) + e10              -- 10^(top-1) ≤ value < 10^top
  if top > 400 then some .inf
  else if top < -400 then some .zero
  else if e10 ≥ 0 then some (toDouble (m * 10 ^ e10.toNat) 1)
  else some (toDouble m (10 ^ (-e10).toNat))

/-- hexadecimal floating constant after the `0x`; `none` = no hexadecimal digit -/
def hexMag (s : List Nat) : Option Mag :=
  let (i, f, r) := mantissaPart isHexDigit s
  if i.isEmpty && f.isEmpty then none else
  let m := natOfHex (i ++ f)
  if m == 0 then some .zero else
  let e2 : Int := exponentPart 112 r - 4 * f.length
  let top : Int := (m.log2 : Int) + 1 + e2                -- 2^(top-1) ≤ value < 2^top
  if top > 1100 then some .inf
  else if top < -1200 then some .zero
  else if e2 ≥ 0 then some (toDouble (m * 2 ^ e2.toNat) 1)
  else some (toDouble m (2 ^ (-e2).toNat))

/-- does `s` start with `w` (given in lower case), ignoring case -/
def startsCI (w : List Nat) (s : List Nat) : Bool := w.isPrefixOf (s.map lower)

def isNChar (c : Nat) : Bool := isDigit c || (97 ≤ lower c && lower c ≤ 122) || c == 95

/-- `(float) atof(s)` as binary32 bits; `none` = `nan(...)` with a payload (not modelled) -/
def atofBits (s : Arg) : Option Nat :=
  let (neg, r) := takeSign (s.dropWhile isSpace)
  let hex : Option Mag :=
    match r with
    | 48 :: x :: r' => if lower x == 120 then hexMag r' else none
    | _ => none
  match hex with
  | some m => some (bits32 neg (narrow m))
  | none =>
    match decMag r with
    | some m => some (bits32 neg (narrow m))
    | none =>
      if startsCI [105, 110, 102] r then some (bits32 neg .inf)                   -- "inf", "infinity"
      else if startsCI [110, 97, 110] r then                                      -- "nan"
        match r.drop 3 with
        | 40 :: t => match t.dropWhile isNChar with
          | 41 :: _ => none                                                       -- nan(n-char-sequence)
          | _ => some (if neg then 4290772992 else 2143289344)
        | _ => some (if neg then 4290772992 else 2143289344)
      else some 0                                                                 -- no conversion: +0.0

/-! ## the parameter block and the option actions -/

/-- `struct parameters` (the fields `main` touches) and the locals `version`, `showw`, `in`, `in_type` -/
structure Params where
  gpo : Option Nat            -- binary32 bits; `none`: a value the model of `atof` does not cover
  gpe : Option Nat
  tgpe : Option Nat
  inType : Option Arg         -- `NULL` = none
  nthreads : Int
  format : Option Arg
  outfile : Option Arg
  inFile : Option Arg
  quiet : Int
  help : Int
  version : Int
  showw : Int
  paramSet : Int
  /-- an assignment / call the model has no reading for (wrong conversion for the field, `atoi(NULL)`, `abort()`) -/
  fault : Bool
  deriving Repr, DecidableEq

def initBits (f : Nat) : Option Nat := (Gen.cliInitBits.find? (·.1 == f)).map (·.2)
def initInt (f : Nat) : Int := ((Gen.cliInitInt.find? (·.1 == f)).map (·.2)).getD 0

/-- `init_param()` and the initialisers of the locals of `main` -/
def Params.init : Params :=
  { gpo := initBits 0, gpe := initBits 1, tgpe := initBits 2, inType := none, nthreads := initInt 4,
    format := none, outfile := none, inFile := none, quiet := initInt 8, help := initInt 9,
    version := initInt 10, showw := initInt 11, paramSet := initInt 12, fault := false }

inductive Val where
  | str (a : Arg)
  | int (i : Int)
  | flt (b : Option Nat)
  deriving Repr, DecidableEq

/-- right-hand side of a `case`: 0 `optarg`, 1 `atoi(optarg)`, 2 `atof(optarg)`, 3 the constant 1 -/
def convert (conv : Nat) (optarg : Option Arg) : Option Val :=
  match conv, optarg with
  | 0, some a => some (.str a)
  | 1, some a => some (.int (atoi a))
  | 2, some a => some (.flt (atofBits a))
  | 3, _ => some (.int 1)
  | _, _ => none

/-- assignment to the field with tag `f` -/
def Params.set (p : Params) (f : Nat) (v : Val) : Params :=
  match f, v with
  | 0, .flt b => { p with gpo := b }
  | 1, .flt b => { p with gpe := b }
  | 2, .flt b => { p with tgpe := b }
  | 3, .str a => { p with inType := some a }
  | 4, .int i => { p with nthreads := i }
  | 5, .str a => { p with format := some a }
  | 6, .str a => { p with outfile := some a }
  | 7, .str a => { p with inFile := some a }
  | 8, .int i => { p with quiet := i }
  | 9, .int i => { p with help := i }
  | 10, .int i => { p with version := i }
  | 11, .int i => { p with showw := i }
  | 12, .int i => { p with paramSet := i }
  | _, _ => { p with fault := true }

/-- the body of `switch(c)` for an option code other than `'?'` -/
def act (code : Nat) (optarg : Option Arg) (p : Params) : Params :=
  match Gen.cliSwitch.find? (·.1 == code) with
  | some (_, f, conv) =>
    match convert conv optarg with
    | some v => p.set f v
    | none => { p with fault := true }
  | none => { p with fault := true }                       -- `default: abort()`

/-! ## `getopt_long_only` -/

inductive Mode where
  | scan
  | arg (code : Nat)
  | rest
  | err
  deriving Repr, DecidableEq

structure St where
  mode : Mode
  p : Params
  pos : List Arg
  deriving Repr, DecidableEq

def St.init : St := { mode := .scan, p := Params.init, pos := [] }

/-- `strchr(optstring, c) != NULL` -/
def inOptString (c : Nat) : Bool := Gen.cliOptString.contains c

/-- what follows the first occurrence of `c` -/
def afterFirst (c : Nat) : List Nat → Option (List Nat)
  | [] => none
  | x :: r => if x == c then some r else afterFirst c r

/-- short option character: `none` invalid, `some true` takes an argument -/
def shortKind (c : Nat) : Option Bool :=
  if c == 58 || c == 59 then none else
  match afterFirst c Gen.cliOptString with
  | none => none
  | some (58 :: _) => some true
  | some _ => some false

/-- the characters of one element read as short options -/
def shortCluster : List Nat → St → St
  | [], st => st
  | c :: cs, st =>
    match shortKind c with
    | none => { st with mode := .err }
    | some true => if cs.isEmpty then { st with mode := .arg c } else { st with p := act c (some cs) st.p }
    | some false => shortCluster cs { st with p := act c none st.p }

inductive Look where
  | found (hasArg : Nat) (val : Nat)
  | ambiguous
  | notFound
  deriving Repr, DecidableEq

/-- `process_long_option`: exact match first, then abbreviations -/
def longLookup (nm : Arg) : Look :=
  match Gen.cliLongOpts.find? (fun e => e.1 == nm) with
  | some e => .found e.2.1 e.2.2
  | none =>
    match Gen.cliLongOpts.filter (fun e => nm.isPrefixOf e.1) with
    | [] => .notFound
    | [e] => .found e.2.1 e.2.2
    | e :: r => if Gen.cliLongOnly || r.any (fun e' => e'.2 != e.2) then .ambiguous else .found e.2.1 e.2.2

/-- `name[=value]` -/
def splitEq (body : Arg) : Arg × Option Arg :=
  match body.dropWhile (· != 61) with
  | [] => (body.takeWhile (· != 61), none)
  | _ :: v => (body.takeWhile (· != 61), some v)

/-- an element `--body` (`dd`) or `-body` tried as a long option -/
def longOpt (body : Arg) (dd : Bool) (st : St) : St :=
  match longLookup (splitEq body).1 with
  | .ambiguous => { st with mode := .err }
  | .notFound =>
    if !Gen.cliLongOnly || dd || !(inOptString (body.headD 0)) then { st with mode := .err }
    else shortCluster body st
  | .found ha val =>
    match (splitEq body).2 with
    | some v => if ha != 0 then { st with p := act val (some v) st.p } else { st with mode := .err }
    | none => if ha == 1 then { st with mode := .arg val } else { st with p := act val none st.p }

/-- an element met while scanning for options -/
def stepScan (a : Arg) (st : St) : St :=
  match a with
  | d :: c :: cs =>
    if d != 45 then { st with pos := st.pos ++ [a] }                         -- not an option
    else if c == 45 then
      (if cs.isEmpty then { st with mode := .rest }                          -- `--`
       else longOpt cs true st)                                              -- `--body`
    else if Gen.cliLongOnly && (!cs.isEmpty || !(inOptString c)) then longOpt (c :: cs) false st
    else shortCluster (c :: cs) st
  | _ => { st with pos := st.pos ++ [a] }                                    -- empty, one character (also `-`)

def step (st : St) (a : Arg) : St :=
  match st.mode with
  | .err => st
  | .rest => { st with pos := st.pos ++ [a] }
  | .arg code => { st with mode := .scan, p := act code (some a) st.p }
  | .scan => stepScan a st

/-- the `while(1){ c = getopt_long_only(...); switch(c){...} }` loop -/
def scanArgs (argv : List Arg) : St := argv.foldl step St.init

/-! ## after the loop -/

/-- what reaches the library -/
structure CliConfig where
  /-- arguments of the `kalign_read_input` calls, in order (`none` = `NULL` = stdin) -/
  inputs : List (Option Arg)
  quiet : Int
  nthreads : Int
  type : Int
  gpo : Nat                    -- binary32 bits
  gpe : Nat
  tgpe : Nat
  outfile : Option Arg
  format : Option Arg
  deriving Repr, DecidableEq

inductive CliOutcome where
  /-- getopt answered `'?'`: unknown / ambiguous option, missing or unexpected argument -/
  | usageError
  | version
  | showw
  | help
  | badThreads
  | noInput
  | badFormat
  | badType
  /-- the C program would crash / abort (cannot happen with a table the translator accepts) -/
  | fault
  /-- a penalty given as `nan(...)`: outside the model of `atof` -/
  | unmodelled
  | run (cfg : CliConfig)
  deriving Repr, DecidableEq

def exitOf (cond : Nat) : Option Int := (Gen.cliExitChain.find? (·.1 == cond)).map (·.2)

/-- exit status of the process; for `run` the status when every library call succeeds -/
def CliOutcome.exitStatus : CliOutcome → Option Int
  | .usageError => some Gen.cliErrExit
  | .version => exitOf 0
  | .showw => exitOf 1
  | .help => exitOf 2
  | .badThreads => exitOf 3
  | .noInput => exitOf 4
  | .badFormat => some Gen.cliFailExit
  | .badType => some Gen.cliFailExit
  | .run _ => some Gen.cliOkExit
  | .fault => none
  | .unmodelled => none

/-- `param->infile[]` -/
def inputList (tty : Bool) (p : Params) (pos : List Arg) : List (Option Arg) :=
  Gen.cliInputOrder.flatMap fun k =>
    match k with
    | 0 => if tty then [] else [none]
    | 1 => match p.inFile with
      | some f => [some f]
      | none => []
    | 2 => pos.map some
    | _ => []

def exitCond (p : Params) (nIn : Nat) : Nat → Bool
  | 0 => p.version != 0
  | 1 => p.showw != 0
  | 2 => p.help != 0
  | 3 => decide (p.nthreads < 1)
  | 4 => nIn == 0
  | _ => false

def exitOutcome : Nat → CliOutcome
  | 0 => .version
  | 1 => .showw
  | 2 => .help
  | 3 => .badThreads
  | 4 => .noInput
  | _ => .fault

/-- `check_msa_format_string` -/
def formatOK : Option Arg → Bool
  | none => true
  | some f => Gen.cliFormatWords.any fun w => isInfix w f

def intField (p : Params) (ty : Int) : Nat → Option Int
  | 4 => some p.nthreads
  | 8 => some p.quiet
  | 9 => some p.help
  | 10 => some p.version
  | 11 => some p.showw
  | 12 => some p.paramSet
  | 13 => some ty
  | _ => none

def fltField (p : Params) : Nat → Option Nat
  | 0 => p.gpo
  | 1 => p.gpe
  | 2 => p.tgpe
  | _ => none

def strField (p : Params) : Nat → Option (Option Arg)
  | 3 => some p.inType
  | 5 => some p.format
  | 6 => some p.outfile
  | 7 => some p.inFile
  | _ => none

/-- the arguments `run_kalign` passes on -/
def mkConfig (p : Params) (ty : Int) (inputs : List (Option Arg)) : Option CliConfig :=
  match Gen.cliRunArgs, Gen.cliWriteArgs with
  | [a0, a1, a2, a3, a4], [w0, w1] =>
    match intField p ty Gen.cliReadQuiet, intField p ty a0, intField p ty a1,
          fltField p a2, fltField p a3, fltField p a4, strField p w0, strField p w1 with
    | some q, some n, some t, some g, some e, some x, some o, some f =>
      some { inputs := inputs, quiet := q, nthreads := n, type := t, gpo := g, gpe := e, tgpe := x, outfile := o, format := f }
    | _, _, _, _, _, _, _, _ => none
  | _, _ => none

/-- `check_msa_format_string`, `set_aln_type`, `run_kalign` in source order; `ty` = `param->type` so far -/
def runChecks (p : Params) (inputs : List (Option Arg)) : List Nat → Int → CliOutcome
  | [], _ => .fault
  | 0 :: r, ty => if formatOK p.format then runChecks p inputs r ty else .badFormat
  | 1 :: r, _ =>
    match setAlnType p.inType with
    | some t => runChecks p inputs r t
    | none => .badType
  | 2 :: _, ty =>
    match mkConfig p ty inputs with
    | some cfg => .run cfg
    | none => if p.gpo.isNone || p.gpe.isNone || p.tgpe.isNone then .unmodelled else .fault
  | _ :: _, _ => .fault

/-- everything after the option loop, when getopt reported no error -/
def afterLoop (p : Params) (pos : List Arg) (tty : Bool) : CliOutcome :=
  if p.fault then .fault else
  match Gen.cliExitChain.find? (fun c => exitCond p (inputList tty p pos).length c.1) with
  | some c => exitOutcome c.1
  | none => runChecks p (inputList tty p pos) Gen.cliChecks (initInt 13)

def finish (st : St) (tty : Bool) : CliOutcome :=
  match st.mode with
  | .err => .usageError
  | .arg _ => .usageError                                   -- "option requires an argument"
  | _ => afterLoop st.p st.pos tty

/-- **`main`** on the command line after the program name -/
def cliParseB (argv : List Arg) (stdinIsTty : Bool) : CliOutcome := finish (scanArgs argv) stdinIsTty

def bytesOf (s : String) : Arg := s.toUTF8.toList.map (·.toNat)

def cliParse (argv : List String) (stdinIsTty : Bool) : CliOutcome := cliParseB (argv.map bytesOf) stdinIsTty

/-! ## the calls `run_kalign` makes -/

inductive Call where
  | read (file : Option Arg) (quiet : Int)
  | align (nthreads type : Int) (gpo gpe tgpe : Nat)
  | write (outfile format : Option Arg)
  deriving Repr, DecidableEq

def callsOf (cfg : CliConfig) : List Call :=
  cfg.inputs.map (fun f => Call.read f cfg.quiet) ++
    [.align cfg.nthreads cfg.type cfg.gpo cfg.gpe cfg.tgpe, .write cfg.outfile cfg.format]

/-- the calls actually made and the exit status when the `failAt`-th call (0-based) reports `FAIL` (`none`: all succeed):
`RUN(...)` leaves `run_kalign` at the first failure -/
def execCalls (cfg : CliConfig) (failAt : Option Nat) : List Call × Int :=
  match failAt with
  | some k => if k < (callsOf cfg).length then ((callsOf cfg).take (k + 1), Gen.cliFailExit) else (callsOf cfg, Gen.cliOkExit)
  | none => (callsOf cfg, Gen.cliOkExit)

/-- the library calls of an outcome when none of them fails: only `run` makes any -/
def CliOutcome.calls : CliOutcome → List Call
  | .run cfg => callsOf cfg
  | _ => []

end Kalign.Cli
