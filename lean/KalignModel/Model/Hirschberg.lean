import KalignModel.Model.Kernel
/-!
# Hirschberg controller (aln_controller.c: `aln_runner`, `aln_runner_serial`, `aln_continue`)

The controller is generic in the kernels (`Kernels φ α`): `φ` is the type of the state arrays `m->f`,
`m->b`; `step` stands for "forward, backward, meetup" on the current rectangle.  The executable model
instantiates it with the real kernels on `Array (States Float32)` (`realKernels`); the theorems in
`Props/C07.lean` hold for every `Kernels`.

Faithfully kept:
* `aln_runner` calls `aln_runner_serial` when `enda - starta < 500` and then *falls through* (there is no
  `return`, aln_controller.c:31-33) into the same code again;
* start states are read from and written to slot 0 of `f` / `b`;
* `aln_continue` does nothing for a transition outside {1,2,3,5,6,7} (`default: break`).

Model-only fields of `Mem` (never influence the computation of the other fields): `fk`, `bk` (which of
the three one-hot start patterns slot 0 holds), `mon` (conjunction of `meetupContract` over all meetup
results so far), `trace` (the meetup results), `fault` (out of fuel / kernel precondition violated /
path index out of range — cannot happen on validated inputs, see `alnRunner`).
-/
namespace Kalign

/-- one-hot start-state patterns written by `aln_continue` / `init_alnmem`:
`A` = (0, −∞, −∞), `GA` = (−∞, 0, −∞), `GB` = (−∞, −∞, 0) -/
inductive Kind where
  | A | GA | GB
  deriving DecidableEq, Repr, Inhabited

def Kind.compat (k k' : Kind) : Bool :=
  !((k == .GA && k' == .GB) || (k == .GB && k' == .GA))

/-! ## the path automaton and the meetup contract (monitor) -/

/-- One path entry `p` read in state `(last, k)`: `last` = last b-residue consumed, `k` = kind of the last
alignment column (`A` aligned pair, `GA` b-residue against a gap, `GB` a-residue against a gap).
`none` = a gap-in-a column adjacent to a gap-in-b column, a partner that does not increase, or a partner
beyond `eb`. -/
def segStep (eb : Int) (last : Int) (k : Kind) (p : Int) : Option (Int × Kind) :=
  if p = -1 then (if k = .GA then none else some (last, .GB))
  else if p = last + 1 then (if p ≤ eb then some (p, .A) else none)
  else if last + 1 < p ∧ k ≠ .GB ∧ p ≤ eb then some (p, .A) else none

/-- end of a segment in state `(last, k)`: the b-residues `last+1 .. eb` are gap-in-a columns, then a
column of kind `bk` follows -/
def segEnd (eb : Int) (bk : Kind) (last : Int) (k : Kind) : Bool :=
  if last = eb then k.compat bk else decide (last < eb) && (k != .GB) && (bk != .GB)

/-- A child rectangle on which the runner returns immediately (no path entry written, the entries keep
their initial −1) is consistent with its boundary kinds.  Non-degenerate children are not constrained
here (their own meetup result is). -/
def childOK (fk bk : Kind) (sa ea sb eb : Int) : Bool :=
  if sa < ea ∧ sb < eb then true
  else if ea < sa ∨ eb < sb then false
  else if ea = sa then segEnd eb bk sb fk
  else (fk != .GA) && segEnd eb bk sb .GB

/-- Contract between `meetup` and the recursion (the hypothesis of `hirschberg_path_ok`):
the transition is one of the six, `meet` lies in `startb..endb` (`< endb` unless the transition is 3 or 6),
when the forward pass had no row (`mid = starta`) the forward part of the transition is the start
kind itself at `meet = startb` (or a gap-in-a run from it: transition 5), and every child on which the
recursion returns immediately is consistent (`childOK`). -/
def meetupContract (fk bk : Kind) (sa ea sb eb mid meet t : Int) : Bool :=
  decide (sb ≤ meet ∧ meet ≤ eb) &&
  (if t = 1 then
    decide (meet < eb) &&
    (if mid = sa then decide (meet = sb) && (fk == .A) else childOK fk .A sa (mid - 1) sb (meet - 1)) &&
    childOK .A bk (mid + 1) ea (meet + 1) eb
  else if t = 2 then
    decide (meet < eb) &&
    (if mid = sa then decide (meet = sb) && (fk == .A) else childOK fk .A sa (mid - 1) sb (meet - 1)) &&
    childOK .GA bk mid ea (meet + 1) eb
  else if t = 3 then
    (if mid = sa then decide (meet = sb) && (fk == .A) else childOK fk .A sa (mid - 1) sb (meet - 1)) &&
    childOK .GB bk (mid + 1) ea meet eb
  else if t = 5 then
    decide (meet < eb) &&
    (if mid = sa ∧ meet = sb then fk == .GA else childOK fk .GA sa mid sb (meet - 1)) &&
    childOK .A bk (mid + 1) ea (meet + 1) eb
  else if t = 6 then
    (if mid = sa then decide (meet = sb) && (fk == .GB) else childOK fk .GB sa (mid - 1) sb meet) &&
    childOK .GB bk (mid + 1) ea meet eb
  else if t = 7 then
    decide (meet < eb) &&
    (if mid = sa then decide (meet = sb) && (fk == .GB) else childOK fk .GB sa (mid - 1) sb meet) &&
    childOK .A bk (mid + 1) ea (meet + 1) eb
  else false)

/-! ## memory and kernels -/

structure TraceEntry (α : Type) where
  starta : Int
  enda : Int
  startb : Int
  endb : Int
  meet : Int
  transition : Int
  score : α

/-- the fields of `struct aln_mem` the controller touches (`seq1/seq2/prof1/prof2/ap/sip/len_a/len_b`
are constant during a run and live in the `Kernels` closure) -/
structure Mem (φ α : Type) where
  f : φ
  b : φ
  path : Array Int
  starta : Int
  enda : Int
  startb : Int
  endb : Int
  starta2 : Int
  enda2 : Int
  /-- `m->score` (only written in score-only mode) -/
  score : Option α
  fk : Kind
  bk : Kind
  mon : Bool
  fault : Bool
  trace : List (TraceEntry α)

structure KStep (φ α : Type) where
  f : φ
  b : φ
  meet : Int
  transition : Int
  score : α

structure Kernels (φ α : Type) where
  /-- `s[0]` -/
  get0 : φ → States α
  set0 : φ → States α → φ
  /-- forward on rows `starta..mid`, backward on rows `mid..enda`, then meetup with
  `old_cor = {starta, enda, startb, endb, mid}`; `none` = a precondition of the kernels is violated -/
  step : φ → φ → (starta mid enda startb endb : Int) → Option (KStep φ α)
  stA : States α
  stGA : States α
  stGB : States α

section
variable {φ α : Type}

def Kernels.st (K : Kernels φ α) : Kind → States α
  | .A => K.stA
  | .GA => K.stGA
  | .GB => K.stGB

/-- `path[i] = v` -/
def Mem.setPath (m : Mem φ α) (i v : Int) : Mem φ α :=
  if 0 ≤ i ∧ i.toNat < m.path.size then { m with path := m.path.set! i.toNat v }
  else { m with fault := true }

/-- write slot 0 of `f` with a fresh one-hot state -/
def Mem.setF (K : Kernels φ α) (m : Mem φ α) (k : Kind) : Mem φ α :=
  { m with f := K.set0 m.f (K.st k), fk := k }
def Mem.setB (K : Kernels φ α) (m : Mem φ α) (k : Kind) : Mem φ α :=
  { m with b := K.set0 m.b (K.st k), bk := k }
/-- write slot 0 of `f` with the saved `input_states[0..2]` -/
def Mem.restoreF (K : Kernels φ α) (m : Mem φ α) (s : States α) (k : Kind) : Mem φ α :=
  { m with f := K.set0 m.f s, fk := k }
def Mem.restoreB (K : Kernels φ α) (m : Mem φ α) (s : States α) (k : Kind) : Mem φ α :=
  { m with b := K.set0 m.b s, bk := k }

def Mem.setRect (m : Mem φ α) (sa ea sb eb : Int) : Mem φ α :=
  { m with starta := sa, enda := ea, startb := sb, endb := eb }

/-- set-up of the first recursive call of a case of `aln_continue` ("//foward:"): restore
`input_states[0..2]` into `f[0]`, a fresh one-hot state into `b[0]`, rectangle `old_cor[0]..ea` x `old_cor[2]..eb` -/
def alnFwd (K : Kernels φ α) (m : Mem φ α) (inF : States α) (inFk bkind : Kind) (oc0 ea oc2 eb : Int) : Mem φ α :=
  ((m.restoreF K inF inFk).setB K bkind).setRect oc0 ea oc2 eb

/-- set-up of the second recursive call ("//backward:"): rectangle `sa..old_cor[1]` x `sb..old_cor[3]`, a fresh
one-hot state into `f[0]`, `input_states[3..5]` into `b[0]` -/
def alnBwd (K : Kernels φ α) (m : Mem φ α) (inB : States α) (inBk fkind : Kind) (sa oc1 sb oc3 : Int) : Mem φ α :=
  ((m.setRect sa oc1 sb oc3).setF K fkind).restoreB K inB inBk

/-- `aln_continue` (aln_controller.c:204-437); `rec` is `aln_runner_serial` or `aln_runner`.
`oc0..oc4` = `old_cor[0..4]`, `inF/inB` = `input_states[0..2]/[3..5]` -/
def alnContinue (K : Kernels φ α) (rec : Mem φ α → Mem φ α) (m : Mem φ α)
    (inF inB : States α) (inFk inBk : Kind) (oc0 oc1 oc2 oc3 oc4 meet t : Int) : Mem φ α :=
  let fwd := fun (m : Mem φ α) (bkind : Kind) (ea eb : Int) => alnFwd K m inF inFk bkind oc0 ea oc2 eb
  let bwd := fun (m : Mem φ α) (fkind : Kind) (sa sb : Int) => alnBwd K m inB inBk fkind sa oc1 sb oc3
  if t = 1 then
    let m := (m.setPath oc4 meet).setPath (oc4 + 1) (meet + 1)
    let m := rec (fwd m .A (oc4 - 1) (meet - 1))
    rec (bwd m .A (oc4 + 1) (meet + 1))
  else if t = 2 then
    let m := m.setPath oc4 meet
    let m := rec (fwd m .A (oc4 - 1) (meet - 1))
    rec (bwd m .GA oc4 (meet + 1))
  else if t = 3 then
    let m := m.setPath oc4 meet
    let m := rec (fwd m .A (oc4 - 1) (meet - 1))
    rec (bwd m .GB (oc4 + 1) meet)
  else if t = 5 then
    let m := m.setPath (oc4 + 1) (meet + 1)
    let m := rec (fwd m .GA oc4 (meet - 1))
    rec (bwd m .A (oc4 + 1) (meet + 1))
  else if t = 6 then
    let m := rec (fwd m .GB (oc4 - 1) meet)
    rec (bwd m .GB (oc4 + 1) meet)
  else if t = 7 then
    let m := m.setPath (oc4 + 1) (meet + 1)
    let m := rec (fwd m .GB (oc4 - 1) meet)
    rec (bwd m .A (oc4 + 1) (meet + 1))
  else m

/-- the common body of `aln_runner` (after the fall-through) and `aln_runner_serial`
(aln_controller.c:35-118 / 130-201) for a rectangle with `starta < enda`, `startb < endb`.
`scoreOnly` = `m->mode == ALN_MODE_SCORE_ONLY`; the mode is never written by the controller, so it is a
parameter of the run (kalign itself only ever uses `ALN_MODE_FULL`: aln_run.c:110,151). -/
def runnerBody (K : Kernels φ α) (scoreOnly : Bool) (rec : Mem φ α → Mem φ α) (m : Mem φ α) : Mem φ α :=
  let inF := K.get0 m.f
  let inB := K.get0 m.b
  let inFk := m.fk
  let inBk := m.bk
  let mid := (m.enda - m.starta) / 2 + m.starta
  let oc0 := m.starta
  let oc1 := m.enda
  let oc2 := m.startb
  let oc3 := m.endb
  let m := { m with enda := mid, starta2 := mid, enda2 := oc1 }
  match K.step m.f m.b oc0 mid oc1 oc2 oc3 with
  | none => { m with fault := true }
  | some r =>
    let m := { m with
      f := r.f, b := r.b,
      mon := m.mon && meetupContract inFk inBk oc0 oc1 oc2 oc3 mid r.meet r.transition,
      trace := ⟨oc0, oc1, oc2, oc3, r.meet, r.transition, r.score⟩ :: m.trace }
    if scoreOnly then { m with score := some r.score }
    else alnContinue K rec m inF inB inFk inBk oc0 oc1 oc2 oc3 mid r.meet r.transition

/-- `aln_runner_serial`; the first argument is recursion fuel (`fault` when exhausted) -/
def runnerSerial (K : Kernels φ α) (scoreOnly : Bool) : Nat → Mem φ α → Mem φ α
  | 0, m => { m with fault := true }
  | n + 1, m =>
    if m.fault then m
    else if m.starta ≥ m.enda then m
    else if m.startb ≥ m.endb then m
    else runnerBody K scoreOnly (runnerSerial K scoreOnly n) m

/-- `aln_runner`: serial switch without `return`, then the same body with `aln_runner` as the recursive
call -/
def runner (K : Kernels φ α) (scoreOnly : Bool) : Nat → Mem φ α → Mem φ α
  | 0, m => { m with fault := true }
  | n + 1, m =>
    if m.fault then m
    else
      let m := if m.enda - m.starta < 500 then runnerSerial K scoreOnly (n + 1) m else m
      if m.fault then m
      else if m.starta ≥ m.enda then m
      else if m.startb ≥ m.endb then m
      else runnerBody K scoreOnly (runner K scoreOnly n) m

/-- fuel that suffices whenever every meetup result lies inside its rectangle: each recursive call
strictly decreases `(enda - starta) + (endb - startb)` -/
def Mem.fuel (m : Mem φ α) : Nat := (m.enda - m.starta).toNat + (m.endb - m.startb).toNat + 2

end

/-! ## the real kernels on functional arrays -/
section
variable {α : Type} [Score α]

/-- write `cells` to slots `at, at+1, …`; `none` if a slot does not exist -/
def blit (arr : Array (States α)) (at_ : Nat) (cells : List (States α)) : Option (Array (States α)) :=
  if at_ + cells.length ≤ arr.size then
    some ((cells.foldl (fun (p : Array (States α) × Nat) c => (p.1.set! p.2 c, p.2 + 1)) (arr, at_)).1)
  else none

def oneHotA : States α := ⟨Score.zero, Score.negInf, Score.negInf⟩
def oneHotGA : States α := ⟨Score.negInf, Score.zero, Score.negInf⟩
def oneHotGB : States α := ⟨Score.negInf, Score.negInf, Score.zero⟩

/-- forward + backward + meetup of the real kernels; requires a non-degenerate rectangle inside the
operands and state arrays with at least `endb+1` slots -/
def realStep (ap : AlnParam α) (ops : Operands α) (lenA lenB : Nat)
    (f b : Array (States α)) (sa mid ea sb eb : Int) : Option (KStep (Array (States α)) α) :=
  if 0 ≤ sa ∧ sa ≤ mid ∧ mid ≤ ea ∧ ea ≤ lenA ∧ 0 ≤ sb ∧ sb < eb ∧ eb ≤ lenB ∧ 0 < f.size ∧ 0 < b.size then
    let rF : Rect := ⟨sa.toNat, mid.toNat, sb.toNat, eb.toNat, lenB⟩
    let rB : Rect := ⟨mid.toNat, ea.toNat, sb.toNat, eb.toNat, lenB⟩
    let fs := kForward ap ops rF (f.getD 0 States.negInf)
    let bs := kBackward ap ops rB (b.getD 0 States.negInf)
    match blit f sb.toNat fs, blit b sb.toNat bs with
    | some f', some b' =>
      let r := kMeetup ap ops rF mid.toNat fs bs
      some ⟨f', b', r.meet, r.transition, r.score⟩
    | _, _ => none
  else none

def realKernels (ap : AlnParam α) (ops : Operands α) (lenA lenB : Nat) : Kernels (Array (States α)) α :=
  { get0 := fun s => s.getD 0 States.negInf
    set0 := fun s x => s.set! 0 x
    step := realStep ap ops lenA lenB
    stA := oneHotA
    stGA := oneHotGA
    stGB := oneHotGB }

/-- `alloc_aln_mem` + `init_alnmem` (aln_setup.c:13-39) for the given `len_a`, `len_b`:
`f[0] = b[0] = (0, −∞, −∞)`, full rectangle, `path[i] = -1` for `i < MAX(len_a,len_b)+2`.
The C path array has at least `len_a+len_b+2` entries but only these are initialised; the model array has exactly
the initialised part (the controller writes `path[mid]`, `path[mid+1]` with `mid+1 ≤ enda ≤ len_a`, the callers read
`path[1..len_a]`; a write outside would set `fault`).  The state arrays get `MAX(len_a,len_b)+2` slots
(`resize_aln_mem`; the C arrays may be longer, never shorter). -/
def initMem (lenA lenB : Nat) : Mem (Array (States α)) α :=
  let g := max lenA lenB + 2
  let arr : Array (States α) := (Array.replicate g States.negInf).set! 0 oneHotA
  { f := arr, b := arr, path := Array.replicate g (-1),
    starta := 0, enda := lenA, startb := 0, endb := lenB, starta2 := 0, enda2 := 0,
    score := none, fk := .A, bk := .A, mon := true, fault := false, trace := [] }

end
end Kalign
