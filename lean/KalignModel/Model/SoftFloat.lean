import KalignModel.Model.Kernel
/-!
# A software IEEE-754 binary32 (`SoftF32`) in core Lean

Lean's native `Float32` is opaque to the kernel: no theorem can mention the value of `a + b`.  `SoftF32` is the same
arithmetic written with `Nat`/`Int` only (round-to-nearest-even, subnormals, signed zeros, infinities, NaN), so that the
kernel can compute with it and theorems about score values can be stated and proved.  It is tied to the hardware by the
correspondence ops `f32` / `f32_of` (Driver/F32.lean, harness/ops_f32.c) and to the whole program by `kalign_sys_soft`.

## representation

A value is its 32-bit pattern.  `mag x` = the low 31 bits.  For a finite `x` (`mag x < 0x7f800000`) the magnitude is the
integer `magVal (mag x) = magSig · 2^magExp` **in units of 2⁻¹⁴⁹** (the smallest subnormal):
`magSig g = g` (subnormal, `g < 2²³`) or `2²³ + g mod 2²³`, `magExp g = g / 2²³ − 1` (truncated).  `magVal` is strictly increasing
in `g`; the pattern of `+∞` gets `2²⁷⁷ = 2¹²⁸` units·2¹⁴⁹, which is exactly the overflow threshold convention of IEEE 754.

Every operation decodes, computes the exact result as `m · 2^e` (or `m / 2^d`), and rounds once (`roundNat`, `roundFrac`).
Division computes a 50-bit-shifted quotient and appends a sticky bit.

## NaN

x86-64 SSE semantics: an operation with a NaN operand returns the *first* NaN operand with the quiet bit set
(`quiet`); an invalid operation (`∞ − ∞`, `0 · ∞`, `0 / 0`, `∞ / ∞`) returns the default NaN `0xffc00000` (sign bit set).
`neg` / `abs` are pure sign-bit operations (xorps / andps), also on NaN.  Comparisons with a NaN are false.
-/
namespace Kalign

structure SoftF32 where
  bits : BitVec 32
  deriving DecidableEq, Inhabited

namespace SoftF32

@[inline] def ofBits (b : UInt32) : SoftF32 := ⟨b.toBitVec⟩
@[inline] def toBits (x : SoftF32) : UInt32 := ⟨x.bits⟩
/-- the pattern `n mod 2³²` -/
@[inline] def ofRaw (n : Nat) : SoftF32 := ⟨BitVec.ofNat 32 n⟩
@[inline] def raw (x : SoftF32) : Nat := x.bits.toNat

instance : Repr SoftF32 := ⟨fun x _ => repr x.raw⟩

/-- pattern of `+∞` (as a magnitude) -/
def infMag : Nat := 0x7f800000

@[inline] def sign (x : SoftF32) : Bool := decide (0x80000000 ≤ x.raw)
@[inline] def mag (x : SoftF32) : Nat := x.raw % 0x80000000
@[inline] def pack (s : Bool) (g : Nat) : SoftF32 := ofRaw (if s then 0x80000000 + g else g)

@[inline] def isNaN (x : SoftF32) : Bool := decide (infMag < x.mag)
@[inline] def isInf (x : SoftF32) : Bool := x.mag == infMag
@[inline] def isFinite (x : SoftF32) : Bool := decide (x.mag < infMag)
@[inline] def isZero (x : SoftF32) : Bool := x.mag == 0

/-- integer significand of a magnitude pattern -/
@[inline] def magSig (g : Nat) : Nat := if g < 0x800000 then g else 0x800000 + g % 0x800000
/-- exponent of a magnitude pattern (power of two that multiplies `magSig`, in units of 2⁻¹⁴⁹) -/
@[inline] def magExp (g : Nat) : Nat := g / 0x800000 - 1
/-- magnitude in units of 2⁻¹⁴⁹ -/
def magVal (g : Nat) : Nat := magSig g * 2 ^ magExp g

@[inline] def sig (x : SoftF32) : Nat := magSig x.mag
@[inline] def ex (x : SoftF32) : Nat := magExp x.mag
/-- value of a finite `x` in units of 2⁻¹⁴⁹ -/
def toInt (x : SoftF32) : Int := if x.sign then -(magVal x.mag : Int) else (magVal x.mag : Int)

/-- set the quiet bit -/
@[inline] def quiet (x : SoftF32) : SoftF32 := ofRaw (x.raw ||| 0x00400000)
/-- the "real indefinite" QNaN of x86 -/
def defaultNaN : SoftF32 := ofRaw 0xffc00000

/-- `m / 2^k` rounded to the nearest integer, ties to even -/
@[inline] def rne (m k : Nat) : Nat :=
  let q := m >>> k
  let r := m % 2 ^ k
  if 2 ^ k < 2 * r ∨ (2 * r = 2 ^ k ∧ q % 2 = 1) then q + 1 else q

/-- pattern of `m · 2^e` units rounded to nearest-even on the grid with unbounded exponent range (the formula of a
magnitude pattern continued beyond `infMag`) -/
def roundNatU (m e : Nat) : Nat :=
  if m = 0 then 0 else
  let n := m.log2 + 1
  if n ≤ 24 then
    let s := min (24 - n) e
    (e - s) * 0x800000 + m <<< s
  else
    let k := n - 24
    (e + k) * 0x800000 + rne m k

/-- magnitude pattern of `m · 2^e` units rounded to nearest-even (`infMag` on overflow) -/
@[inline] def roundNat (m e : Nat) : Nat := min (roundNatU m e) infMag

/-- pattern of `m / 2^d` units rounded to nearest-even, unbounded exponent range -/
def roundFracU (m d : Nat) : Nat :=
  if m = 0 then 0 else
  let n := m.log2 + 1
  let k := max (n - 24) d
  (k - d) * 0x800000 + rne m k

/-- magnitude pattern of `m / 2^d` units rounded to nearest-even -/
@[inline] def roundFrac (m d : Nat) : Nat := min (roundFracU m d) infMag

/-- magnitude pattern of `m · 2^e` units, `e` an integer -/
@[inline] def roundInt (m : Nat) (e : Int) : Nat :=
  if 0 ≤ e then roundNat m e.toNat else roundFrac m (-e).toNat

/-- flip the sign bit (also of a NaN) -/
@[inline] def neg (x : SoftF32) : SoftF32 := pack (!x.sign) x.mag
/-- clear the sign bit (also of a NaN) -/
@[inline] def abs (x : SoftF32) : SoftF32 := pack false x.mag

/-- sum of two finite values -/
def addFinite (a b : SoftF32) : SoftF32 :=
  let e := min a.ex b.ex
  let A : Int := (a.sig <<< (a.ex - e) : Nat)
  let B : Int := (b.sig <<< (b.ex - e) : Nat)
  let S : Int := (if a.sign then -A else A) + (if b.sign then -B else B)
  if S = 0 then pack (a.sign && b.sign) 0
  else pack (decide (S < 0)) (roundNat S.natAbs e)

def add (a b : SoftF32) : SoftF32 :=
  if a.isNaN then a.quiet
  else if b.isNaN then b.quiet
  else if a.isInf then (if b.isInf && (a.sign != b.sign) then defaultNaN else a)
  else if b.isInf then b
  else addFinite a b

def sub (a b : SoftF32) : SoftF32 :=
  if a.isNaN then a.quiet
  else if b.isNaN then b.quiet
  else add a (neg b)

def mul (a b : SoftF32) : SoftF32 :=
  if a.isNaN then a.quiet
  else if b.isNaN then b.quiet
  else
    let s := a.sign != b.sign
    if a.isInf || b.isInf then
      (if a.isZero || b.isZero then defaultNaN else pack s infMag)
    else
      pack s (roundInt (a.sig * b.sig) ((a.ex : Int) + b.ex - 149))

def div (a b : SoftF32) : SoftF32 :=
  if a.isNaN then a.quiet
  else if b.isNaN then b.quiet
  else
    let s := a.sign != b.sign
    if a.isInf then (if b.isInf then defaultNaN else pack s infMag)
    else if b.isInf then pack s 0
    else if b.isZero then (if a.isZero then defaultNaN else pack s infMag)
    else if a.isZero then pack s 0
    else
      -- quotient of the significands with 50 extra bits (at least 27 significant bits), sticky bit appended
      let n := a.sig <<< 50
      let q := n / b.sig
      let m := 2 * q + (if n % b.sig = 0 then 0 else 1)
      pack s (roundInt m ((a.ex : Int) - b.ex + 98))

/-- order key of a non-NaN value: `−0` and `+0` coincide -/
@[inline] def key (x : SoftF32) : Int := if x.sign then -(x.mag : Int) else (x.mag : Int)

/-- C `a < b` -/
def lt (a b : SoftF32) : Bool := !a.isNaN && !b.isNaN && decide (a.key < b.key)
/-- C `a <= b` -/
def le (a b : SoftF32) : Bool := !a.isNaN && !b.isNaN && decide (a.key ≤ b.key)
/-- C `a > b` -/
@[inline] def gt (a b : SoftF32) : Bool := lt b a
/-- C `a >= b` -/
@[inline] def ge (a b : SoftF32) : Bool := le b a
/-- C `a == b` -/
def beq (a b : SoftF32) : Bool := !a.isNaN && !b.isNaN && decide (a.key = b.key)

/-- `(float)n` -/
def ofNat (n : Nat) : SoftF32 := pack false (roundNat n 149)
/-- `(float)i` -/
def ofInt (i : Int) : SoftF32 := pack (decide (i < 0)) (roundNat i.natAbs 149)

def zero : SoftF32 := ofRaw 0
def one : SoftF32 := ofRaw 0x3f800000
def two : SoftF32 := ofRaw 0x40000000
def thousand : SoftF32 := ofRaw 0x447a0000
/-- `-FLT_MAX` -/
def negMax : SoftF32 := ofRaw 0xff7fffff
/-- `FLT_MAX` -/
def fltMax : SoftF32 := ofRaw 0x7f7fffff

end SoftF32

instance : Score SoftF32 where
  add := SoftF32.add
  sub := SoftF32.sub
  mul := SoftF32.mul
  neg := SoftF32.neg
  gt := SoftF32.gt
  negInf := SoftF32.negMax
  zero := SoftF32.zero
  one := SoftF32.one
  ofNat := SoftF32.ofNat
  isNonzero := fun x => !SoftF32.beq x SoftF32.zero
  tie := fun c2 c3 i =>
    let middle := SoftF32.add (SoftF32.div (SoftF32.ofInt (c3 - c2)) SoftF32.two) (SoftF32.ofInt c2)
    SoftF32.div (SoftF32.abs (SoftF32.sub middle (SoftF32.ofInt i))) SoftF32.thousand

end Kalign
