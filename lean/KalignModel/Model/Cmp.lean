/-!
# Alignment comparison score (msa_cmp.c, msa_check.c) — executable model and specification

`comparePair` is `compare_pair` (msa_cmp.c:122-250): the four `int` tables `codes1_A, codes2_A,
codes1_B, codes2_B` and the six counters of `struct cmp_stats`.  The tables are `malloc`ed and never
cleared; a table is written at index `p1` (resp. `p2`) right after `p1++`, i.e. exactly once per
residue, in increasing index order.  The model therefore keeps a table as the `List Int` of its
initialised prefix (entry `k` = what the code stored for residue `k`); everything behind that prefix
is uninitialised memory (or beyond the allocation) and reading it is reported as a fault (`none`).

`msaCompare` is `kalign_msa_compare` for two alignments whose status is `ALN_STATUS_FINAL`
(rows are gapped strings of width `alnlen`, `len` = number of residues as `finalise_alignment`
leaves it): `kalign_check_msa(·,1)` on both, `kalign_sort_msa` on both, the `i<j` double loop, and the
final score `100.0 * a / b` in `double`, narrowed to `float`.

The *specification* (`partners`, `relPair`, `rel`, `scoreSpec`) is defined column-wise and does not
share code with the tables.
-/
namespace Kalign

abbrev Row := List Char
/-- a sequence name: the bytes of a C string (no NUL inside, see `NulFree`) -/
abbrev Name := List UInt8

/-- `isalpha((int) c)` in the C locale -/
def isRes (c : Char) : Bool := c.isAlpha

/-- number of residues of a gapped row -/
def nres (r : Row) : Nat := r.countP isRes

/-! ## strcmp -/

/-- `strcmp(a, b)` on NUL-free byte strings (only the sign is meaningful).  The end of a string is
its terminating NUL, i.e. byte 0; bytes compare as `unsigned char`. -/
def strcmp : Name → Name → Int
  | [], [] => 0
  | [], b :: _ => - (b.toNat : Int)
  | a :: _, [] => (a.toNat : Int)
  | a :: as, b :: bs => if a ≠ b then (a.toNat : Int) - (b.toNat : Int) else strcmp as bs

/-- a C string has no NUL byte inside -/
def NulFree (n : Name) : Prop := ∀ b ∈ n, b ≠ 0

instance (n : Name) : Decidable (NulFree n) := by unfold NulFree; infer_instance

/-! ## compare_pair -/

structure CmpStats where
  refAligned : Nat := 0
  refGap : Nat := 0
  identAligned : Nat := 0
  identGap : Nat := 0
  testAligned : Nat := 0
  testGap : Nat := 0
  deriving DecidableEq, Repr, Inhabited

instance : Add CmpStats where
  add a b := ⟨a.refAligned + b.refAligned, a.refGap + b.refGap, a.identAligned + b.identAligned,
    a.identGap + b.identGap, a.testAligned + b.testAligned, a.testGap + b.testGap⟩

instance : OfNat CmpStats 0 := ⟨{}⟩

/-- result of one of the two scanning loops of `compare_pair` -/
structure PairScan where
  /-- initialised prefix of `codes1_X` -/
  c1 : List Int
  /-- initialised prefix of `codes2_X` -/
  c2 : List Int
  /-- increments of `*_total_aligned_pairs` -/
  aligned : Nat
  /-- increments of `*_total_gap_pairs` -/
  gap : Nat
  deriving DecidableEq, Repr

/-- one scanning loop (msa_cmp.c:140-167 / 170-197), from a column where `n1 = p1+1` residues of
the first row and `n2 = p2+1` residues of the second row have been passed.  The two rows are read
up to the common width `len`; callers make sure both rows have that width. -/
def scanPair (n1 n2 : Nat) : Row → Row → PairScan
  | a :: as, b :: bs =>
    match isRes a, isRes b with
    | true, true =>
      let r := scanPair (n1 + 1) (n2 + 1) as bs
      { c1 := (n2 : Int) :: r.c1, c2 := (n1 : Int) :: r.c2, aligned := r.aligned + 2, gap := r.gap }
    | true, false =>
      let r := scanPair (n1 + 1) n2 as bs
      { r with c1 := (-1 : Int) :: r.c1, gap := r.gap + 1 }
    | false, true =>
      let r := scanPair n1 (n2 + 1) as bs
      { r with c2 := (-1 : Int) :: r.c2, gap := r.gap + 1 }
    | false, false => scanPair n1 n2 as bs
  | _, _ => { c1 := [], c2 := [], aligned := 0, gap := 0 }

/-- one comparison loop (msa_cmp.c:203-217 / 218-234): `for i in 0..p_B` over `codesA[i]`,
`codesB[i]`; returns (identical_aligned, identical_gaps) increments.  `codesA` shorter than
`codesB` means the loop reads `codesA` behind its initialised prefix: fault. -/
def identCount : List Int → List Int → Option (Nat × Nat)
  | _, [] => some (0, 0)
  | [], _ :: _ => none
  | a :: as, b :: bs =>
    match identCount as bs with
    | none => none
    | some (x, y) =>
      if a ≠ -1 then (if a = b then some (x + 1, y) else some (x, y))
      else (if a = b then some (x, y + 1) else some (x, y))

/-- `compare_pair` returns FAIL without touching a counter when `len_a == 0` or `len_b == 0`:
`MMALLOC(p, 0)` is an error in tldevel.h.  (`kalign_msa_compare` ignores the return value.) -/
def comparePairFails (a1 b1 : Row) : Bool := a1.length = 0 || b1.length = 0

/-- `compare_pair(seq1A, seq2A, seq1B, seq2B, len_a, len_b, stat)`: the increments of the six
counters; `none` = the code reads behind a row or behind the initialised part of a table. -/
def comparePair (a1 a2 b1 b2 : Row) : Option CmpStats :=
  if a1.length ≠ a2.length ∨ b1.length ≠ b2.length then none else
  if comparePairFails a1 b1 then some 0 else
  let sa := scanPair 0 0 a1 a2
  let sb := scanPair 0 0 b1 b2
  match identCount sa.c1 sb.c1, identCount sa.c2 sb.c2 with
  | some (x1, y1), some (x2, y2) =>
    some { refAligned := sa.aligned, refGap := sa.gap, identAligned := x1 + x2, identGap := y1 + y2,
           testAligned := sb.aligned, testGap := sb.gap }
  | _, _ => none

/-- the `j` loop of `kalign_msa_compare` for a fixed `i` (`r`, `t` = rows `i` of both alignments) -/
def cmpInner (r t : Row) : List Row → List Row → Option CmpStats
  | [], _ => some 0
  | _ :: _, [] => none
  | r' :: rs, t' :: ts =>
    match comparePair r r' t t', cmpInner r t rs ts with
    | some c, some rest => some (c + rest)
    | _, _ => none

/-- the `i<j` double loop of `kalign_msa_compare` (msa_cmp.c:60-71) over the rows of the reference
`R` and of the test alignment `T` *as they are ordered at that point*; the loop bounds come from
`R` only, rows of `T` are fetched by index (`none` = `t->sequences[j]` behind `t->numseq`). -/
def msaCompareCounts : List Row → List Row → Option CmpStats
  | [], _ => some 0
  | [_], _ => some 0
  | _ :: _ :: _, [] => none
  | r :: r' :: rs, t :: ts =>
    match cmpInner r t (r' :: rs) ts, msaCompareCounts (r' :: rs) ts with
    | some a, some b => some (a + b)
    | _, _ => none

/-- the score as an exact fraction (numerator, denominator); `0/0` when there is nothing to count -/
def scoreQ (c : CmpStats) : Nat × Nat :=
  (100 * (c.identAligned + c.identGap), c.refAligned + c.refGap)

/-- `*score = 100.0 * a / b` with `a`, `b` `double`, stored into a `float` (msa_cmp.c:112-114) -/
def scoreF32 (c : CmpStats) : Float32 :=
  let a : Float := Float.ofNat (c.identAligned + c.identGap)
  let b : Float := Float.ofNat (c.refAligned + c.refGap)
  (100.0 * a / b).toFloat32

/-! ## kalign_check_msa / kalign_sort_msa as used by kalign_msa_compare -/

/-- a sequence of an alignment with status `ALN_STATUS_FINAL` -/
structure NRow where
  name : Name
  row : Row
  deriving DecidableEq, Repr, Inhabited

/-- `GCGchecksum(seq, len)` (msa_check.c:301-310), position counter starting at `i` -/
def gcgFrom : Nat → Nat → List Char → Nat
  | _, chk, [] => chk
  | i, chk, c :: cs => gcgFrom (i + 1) ((chk + (i % 57 + 1) * c.toUpper.toNat) % 10000) cs

/-- checksum of a finalised row: `len` is still the number of residues, `seq` is the gapped row,
so the checksum covers the first `nres` characters of the row (gap characters included). -/
def NRow.chksum (x : NRow) : Nat := gcgFrom 0 0 (x.row.take (nres x.row))

/-- `sort_by_name(a,b) <= 0` (never 0) -/
def leByName (a b : NRow) : Bool := decide (strcmp a.name b.name < 0)

/-- `sort_by_both` (msa_check.c:247-263) -/
def cmpBoth (a b : NRow) : Int :=
  if strcmp a.name b.name < 0 then -1
  else if strcmp a.name b.name = 0 then (if a.chksum > b.chksum then -1 else 1)
  else 1

/-- glibc's `qsort` (merge sort for these sizes) takes the left element iff `cmp(l, r) <= 0` -/
def leBoth (a b : NRow) : Bool := decide (cmpBoth a b ≤ 0)

/-- the adjacent-duplicate scan of `kalign_check_msa` (msa_check.c:166-200) -/
def adjDup : List NRow → Bool
  | a :: b :: rest => decide (strcmp a.name b.name = 0) || adjDup (b :: rest)
  | _ => false

/-- `kalign_check_msa(msa, 1) == OK`: sort by name, fail on the first adjacent pair with equal
names (`strcmp == 0`).  (With `exit_on_error = 1` nothing is renamed.) -/
def checkMsaStrict (A : List NRow) : Bool := !adjDup (A.mergeSort leByName)

/-- `kalign_sort_msa` -/
def sortMsa (A : List NRow) : List NRow := A.mergeSort leBoth

inductive CmpResult where
  /-- `kalign_msa_compare` returns FAIL (`*score` not written) -/
  | fail
  /-- out-of-bounds / uninitialised read -/
  | fault
  | ok (c : CmpStats)
  deriving DecidableEq, Repr

/-- `kalign_msa_compare(r, t, &score)` for two finalised alignments -/
def msaCompare (R T : List NRow) : CmpResult :=
  if !checkMsaStrict R then .fail
  else if !checkMsaStrict T then .fail
  else match msaCompareCounts ((sortMsa R).map (·.row)) ((sortMsa T).map (·.row)) with
    | none => .fault
    | some c => .ok c

/-! ## Specification -/

/-- the columns of `r` that hold a residue -/
def resCols (r : Row) : List Nat :=
  r.zipIdx.filterMap fun (ch, c) => if isRes ch then some c else none

/-- what row `t` shows in column `c`: `some q` = its residue number `q` (0-based), `none` = a gap
(or nothing) -/
def partnerAt (t : Row) (c : Nat) : Option Nat :=
  match t[c]? with
  | some ch => if isRes ch then some ((t.take c).countP isRes) else none
  | none => none

/-- for every residue of `s` in order: its partner in `t` -/
def partners (s t : Row) : List (Option Nat) := (resCols s).map (partnerAt t)

/-- ((s, p), (t, partner of residue p of s in t or gap)) -/
abbrev Rel := (Name × Nat) × (Name × Option Nat)

/-- the relations of the ordered pair of rows `(s, t)` -/
def relPair (s t : NRow) : List Rel :=
  (partners s.row t.row).zipIdx.map fun (q, p) => ((s.name, p), (t.name, q))

/-- `rel A`: all (residue, partner-or-gap) relations of an alignment, over ordered pairs of
differently named rows; a duplicate-free list standing for the set when names are unique -/
def rel (A : List NRow) : List Rel :=
  A.flatMap fun s => A.flatMap fun t => if s.name ≠ t.name then relPair s t else []

/-- `100 · |rel R ∩ rel T| / |rel R|` as (numerator, denominator) -/
def scoreSpec (R T : List NRow) : Nat × Nat :=
  (100 * ((rel R).filter fun e => decide (e ∈ rel T)).length, (rel R).length)

/-- the sequence a gapped row spells -/
def residuesOf (r : Row) : List Char := r.filter isRes

/-- an alignment as a set of named sequences: what two alignments "of the same sequences" share -/
def namedSeqs (A : List NRow) : List (Name × List Char) := A.map fun x => (x.name, residuesOf x.row)

/-- delete the columns marked `true` in the mask -/
def deflate : List Bool → Row → Row
  | true :: m, _ :: r => deflate m r
  | false :: m, c :: r => c :: deflate m r
  | [], r => r
  | _ :: _, [] => []

/-- the row has a gap character in every column marked `true` -/
def gapsAt : List Bool → Row → Bool
  | true :: m, c :: r => !isRes c && gapsAt m r
  | false :: m, _ :: r => gapsAt m r
  | [], _ => true
  | _ :: _, [] => true

/-- "the same alignment up to row order and all-gap columns": after deleting some all-gap columns
from each (columns in which *every* row of that alignment has a gap character) the two alignments
consist of the same named rows, in any order -/
def SameModAllGap (R T : List NRow) : Prop :=
  ∃ mR mT : List Bool, (∀ x ∈ R, gapsAt mR x.row = true) ∧ (∀ y ∈ T, gapsAt mT y.row = true) ∧
    (R.map fun x => (x.name, deflate mR x.row)).Perm (T.map fun y => (y.name, deflate mT y.row))

def Rel.isAligned (e : Rel) : Bool := e.2.2.isSome
def Rel.isGap (e : Rel) : Bool := e.2.2.isNone

end Kalign
