/-!
# The library API as a state machine (C16)

Objects live behind handles; the library-global state is exactly

* `ompThreads`  — the OpenMP `nthreads-var` ICV, written by `omp_set_num_threads` (aln_wrap.c `kalign_run`);
* `maskInit`    — whether bpm.c `BROADCAST_MASK` (the only writable file-scope object of the library,
                  `Gen.writableGlobals`) holds its constants; written by `set_broadcast_mask`
                  (sequence_distance.c `d_estimation`, every call).

The actual computations are parameters of the model (`Params`): arbitrary functions that receive, as
explicit arguments, every global they read.  The model fixes *where* globals are written and read and
*which blocks* every call allocates and frees (the ledger), following the C text (bugs included — at
present none is known on the allocation side: the two leaks the ledger exposed, the `ERROR:` path of
`kalign_read_input` and the failing `fopen` in `read_file_stdin`, were repaired in /repo by 4036b80,
7d4bd68 and 4c3a0a7 and the model follows the repaired text).

Worlds are passed explicitly (no monad) so that each read of a global is visible as `w.g.…`.
-/
namespace Kalign.Api

structure Globals where
  ompThreads : Nat
  maskInit : Bool
  deriving Repr, DecidableEq

/-- an allocation attributable to the library: an object owned by a handle, or a temporary -/
inductive Blk where
  | obj (h : Nat)
  | tmp (tag : String)
  deriving Repr, DecidableEq

structure World where
  g : Globals
  ledger : List Blk
  deriving Repr, DecidableEq

def World.alloc (w : World) (b : Blk) : World := { w with ledger := b :: w.ledger }
def World.free (w : World) (b : Blk) : World := { w with ledger := w.ledger.erase b }
/-- `omp_set_num_threads(n)` -/
def World.setThreads (w : World) (n : Nat) : World := { w with g := { w.g with ompThreads := n } }
/-- `set_broadcast_mask()` -/
def World.setMask (w : World) : World := { w with g := { w.g with maskInit := true } }

/-- what one call `kalign_read_input(file, &msa, quiet)` (msa_io.c:80) meets -/
inductive FileResult (Msa : Type) where
  /-- a format reader and the detectors succeeded: `m` holds the sequences of this input -/
  | seqs (m : Msa)
  /-- empty input or undetectable format: returns OK, `*msa` untouched, buffer and timer freed -/
  | nothing
  /-- `read_fasta/read_msf/read_clu` failed: the reader frees the msa it was building itself, `m` stays NULL;
  `ERROR:` frees the timer and the `in_buffer` -/
  | readerFail
  /-- the reader succeeded but `detect_alphabet/detect_aligned/set_sip_nsip` failed: `ERROR:` frees the
  timer, the `in_buffer` and `m` -/
  | detectFail
  /-- `my_file_exists` fails: `ERROR:` before any buffer exists; only the timer is destroyed -/
  | missing
  /-- the file exists but `fopen` fails inside `read_file_stdin` (EACCES, EMFILE, …): the `in_buffer` it
  allocated into its local is freed on its own `ERROR:` path (`if(b && !*buffer) free_in_buffer(b)`); the
  caller's `b` stays NULL and its `ERROR:` path destroys the timer -/
  | openFail

/-- the pure computations (parameters of the model) -/
structure Params where
  Msa : Type
  File : Type
  Cfg : Type
  Fmt : Type
  Bytes : Type
  Score : Type
  Arr : Type
  Rows : Type
  DM : Type
  Tasks : Type
  Ap : Type
  parseFile : File → FileResult Msa
  /-- `merge_msa(dest, src)`: new content of `dest` and OK/FAIL (different alphabets, or a detector fails
  after the sequences were moved) -/
  mergeMsa : Msa → Msa → Msa × Bool
  /-- `check_for_sequences`: at least one sequence (`kalign_run` insists on two: part of `prepare`) -/
  nonEmpty : Msa → Bool
  /-- requested thread count -/
  threads : Cfg → Nat
  /-- `kalign_essential_input_check`, `dealign_msa`, `msa_sort_len_name`, `convert_msa_to_internal`
  (in place; `false` = FAIL) -/
  prepare : Msa → Msa × Bool
  /-- `pick_anchor` + `d_estimation(…,0)`; receives the mask flag and team size it reads -/
  distances : Msa → (mask : Bool) → (threads : Nat) → DM
  /-- `bisecting_kmeans` (whose leaves call `d_estimation(…,1)`), `label_internal`, `create_tasks` -/
  kmeans : Msa → DM → (mask : Bool) → (threads : Nat) → Tasks
  /-- `convert_msa_to_internal(msa, ALPHA_ambigiousPROTEIN)` for proteins -/
  fullAlphabet : Msa → Msa
  /-- `aln_param_init`; `none` = FAIL (type does not fit the detected alphabet) -/
  paramInit : Msa → Cfg → Option Ap
  /-- `create_msa_tree`, `finalise_alignment`, `msa_sort_rank`; receives the team size -/
  alignAll : Msa → Tasks → Ap → (threads : Nat) → Msa
  /-- `kalign_write_msa` (may finalise the msa in place) -/
  render : Msa → Fmt → Option Bytes × Msa
  /-- `kalign_msa_compare` (finalises and sorts both in place) -/
  compare : Msa → Msa → Option Score × Msa × Msa
  /-- `kalign_msa_compare(m, m, …)` -/
  compareSelf : Msa → Option Score × Msa
  /-- `kalign_arr_to_msa` -/
  arrToMsa : Arr → Option Msa
  /-- `kalign_msa_to_arr` -/
  msaToArr : Msa → Option Rows

variable (P : Params)

/-! ## `kalign_run` -/

/-- `d_estimation` prologue: the mask is re-initialised, then read -/
def dEstimation0 (m : P.Msa) (w : World) : P.DM × World :=
  let w := w.setMask
  (P.distances m w.g.maskInit w.g.ompThreads, w.alloc (.tmp "dm"))

/-- `build_tree_kmeans` -/
def buildTree (m : P.Msa) (w : World) : P.Tasks × World :=
  let w := w.alloc (.tmp "anchors")
  let (dm, w) := dEstimation0 P m w
  let w := w.free (.tmp "anchors")
  let w := w.alloc (.tmp "samples")
  -- every leaf of the k-means recursion runs `d_estimation(…,1)`: `set_broadcast_mask` again
  let w := w.setMask
  let t := P.kmeans m dm w.g.maskInit w.g.ompThreads
  let w := w.free (.tmp "samples")
  let w := w.free (.tmp "dm")
  (t, w)

/-- `kalign_run(msa, n_threads, type, gpo, gpe, tgpe)`; returns the new content of the object and OK/FAIL -/
def kalignRun (m : P.Msa) (cfg : P.Cfg) (w : World) : (P.Msa × Bool) × World :=
  let (m1, ok) := P.prepare m
  if !ok then ((m1, false), w) else
  let w := w.alloc (.tmp "tasks")
  let w := w.setThreads (P.threads cfg)
  let (tasks, w) := buildTree P m1 w
  let m2 := P.fullAlphabet m1
  match P.paramInit m2 cfg with
  | none =>
    -- aln_param_init frees its own partial `ap`; ERROR: free_tasks
    let w := (w.alloc (.tmp "ap")).free (.tmp "ap")
    ((m2, false), w.free (.tmp "tasks"))
  | some ap =>
    let w := w.alloc (.tmp "ap")
    let w := w.alloc (.tmp "active")
    let m3 := P.alignAll m2 tasks ap w.g.ompThreads
    let w := w.free (.tmp "active")
    let w := w.free (.tmp "ap")
    ((m3, true), w.free (.tmp "tasks"))

/-- what `kalign_run` computes, written without any global: the reference of `globals_overwritten` -/
def runPure (m : P.Msa) (cfg : P.Cfg) : P.Msa × Bool :=
  let (m1, ok) := P.prepare m
  if !ok then (m1, false) else
  let n := P.threads cfg
  let tasks := P.kmeans m1 (P.distances m1 true n) true n
  let m2 := P.fullAlphabet m1
  match P.paramInit m2 cfg with
  | none => (m2, false)
  | some ap => (P.alignAll m2 tasks ap n, true)

/-! ## objects, operations, outputs -/

inductive Obj where
  | msa (m : P.Msa)
  /-- the `char**` returned by `kalign()`; freed by the caller -/
  | rows (r : P.Rows)

inductive Op where
  /-- `kalign_read_input` for each file in turn into one msa -/
  | read (files : List P.File)
  | run (h : Nat) (cfg : P.Cfg)
  | write (h : Nat) (fmt : P.Fmt)
  | compare (h1 h2 : Nat)
  | free (h : Nat)
  /-- the array API `kalign(seq, len, numseq, n_threads, type, gpo, gpe, tgpe, &aligned, &len)` -/
  | kalign (arr : P.Arr) (cfg : P.Cfg)

inductive Out where
  | handle (h : Nat)
  | ok
  | fail
  | noInput
  | bytes (b : P.Bytes)
  | score (x : P.Score)
  | aligned (h : Nat) (r : P.Rows)
  /-- the handle is not live or of the wrong kind: a caller error, outside the property -/
  | badHandle

/-- the handle an output hands to the caller -/
def Out.created {P : Params} : Out P → Option Nat
  | .handle h => some h
  | .aligned h _ => some h
  | _ => none

structure State where
  w : World
  heap : List (Nat × Obj P)
  next : Nat

def State.lookup {P : Params} (s : State P) (h : Nat) : Option (Obj P) := s.heap.lookup h

def State.handles {P : Params} (s : State P) : List Nat := s.heap.map (·.1)

/-- replace the content of a live handle -/
def setObj (heap : List (Nat × Obj P)) (h : Nat) (o : Obj P) : List (Nat × Obj P) :=
  heap.map fun e => if e.1 = h then (h, o) else e

def dropObj (heap : List (Nat × Obj P)) (h : Nat) : List (Nat × Obj P) :=
  heap.filter fun e => e.1 ≠ h

/-- a fresh process: `g0` is whatever the loader and the OpenMP runtime start with -/
def State.init (g0 : Globals) : State P := { w := { g := g0, ledger := [] }, heap := [], next := 0 }

/-- handles an operation names -/
def Op.handles {P : Params} : Op P → List Nat
  | .read _ => []
  | .run h _ => [h]
  | .write h _ => [h]
  | .compare h1 h2 => [h1, h2]
  | .free h => [h]
  | .kalign _ _ => []

/-! ## `read` -/

inductive ReadOutcome where
  | done (acc : Option P.Msa)
  | failed

/-- one call `kalign_read_input(f, &msa, quiet)` where `*msa` is `cur`, held under handle `h`.
Returns OK/FAIL and the new `*msa`.  Blocks: the stopwatch, the line buffer, the msa `m` of this input
(which *becomes* the object when `*msa` was NULL). -/
def readInput (h : Nat) (f : P.File) (cur : Option P.Msa) (w : World) : (Bool × Option P.Msa) × World :=
  let w := w.alloc (.tmp "timer")                                    -- DECLARE_TIMER
  match P.parseFile f with
  | .missing => ((false, cur), w.free (.tmp "timer"))                 -- ERROR: b = NULL, m = NULL
  | .openFail =>
    -- read_file_stdin: alloc_in_buffer(&b), fopen fails, ERROR: free_in_buffer(b) (not yet handed over)
    let w := (w.alloc (.tmp "in_buffer")).free (.tmp "in_buffer")
    ((false, cur), w.free (.tmp "timer"))                             -- caller's ERROR: b = NULL, m = NULL
  | .nothing =>
    let w := w.alloc (.tmp "in_buffer")
    ((true, cur), (w.free (.tmp "timer")).free (.tmp "in_buffer"))   -- `return OK`, *msa untouched
  | .readerFail =>
    let w := w.alloc (.tmp "in_buffer")
    let w := (w.alloc (.tmp "m")).free (.tmp "m")                     -- the reader frees its own msa
    ((false, cur), (w.free (.tmp "timer")).free (.tmp "in_buffer"))  -- ERROR: b freed, m = NULL
  | .detectFail =>
    let w := (w.alloc (.tmp "in_buffer")).alloc (.tmp "m")
    ((false, cur), ((w.free (.tmp "timer")).free (.tmp "in_buffer")).free (.tmp "m"))  -- ERROR: b and m freed
  | .seqs m =>
    match cur with
    | none =>
      -- `*msa = m`
      let w := ((w.alloc (.tmp "in_buffer")).alloc (.obj h)).free (.tmp "in_buffer")
      if P.nonEmpty m then ((true, some m), w.free (.tmp "timer"))
      else ((false, none), (w.free (.tmp "timer")).free (.obj h))     -- ERROR: *msa == m: *msa = NULL, m freed
    | some a =>
      let w := ((w.alloc (.tmp "in_buffer")).alloc (.tmp "m")).free (.tmp "in_buffer")
      let (a', ok) := P.mergeMsa a m
      if !ok then ((false, some a'), (w.free (.tmp "timer")).free (.tmp "m"))   -- ERROR: m freed, *msa stays
      else
        let w := w.free (.tmp "m")                                    -- kalign_free_msa(m); m = NULL
        if P.nonEmpty a' then ((true, some a'), w.free (.tmp "timer"))
        else ((false, some a'), w.free (.tmp "timer"))                -- ERROR: m = NULL, *msa stays

/-- the caller's loop `for each file: rc = kalign_read_input(file, &msa, quiet)` (run_kalign.c, harness
`h_read`); on FAIL it stops and frees what it holds -/
def readFiles (h : Nat) : List P.File → Option P.Msa → World → ReadOutcome P × World
  | [], cur, w => (.done cur, w)
  | f :: fs, cur, w =>
    match readInput P h f cur w with
    | ((true, cur'), w) => readFiles h fs cur' w
    | ((false, cur'), w) => (.failed, match cur' with | some _ => w.free (.obj h) | none => w)

/-! ## one step -/

def step (s : State P) : Op P → Out P × State P
  | .read files =>
    match readFiles P s.next files none s.w with
    | (.done (some m), w) => (.handle s.next, { w := w, heap := (s.next, .msa m) :: s.heap, next := s.next + 1 })
    | (.done none, w) => (.noInput, { s with w := w })
    | (.failed, w) => (.fail, { s with w := w })
  | .run h cfg =>
    match s.lookup h with
    | some (.msa m) =>
      let ((m', ok), w) := kalignRun P m cfg s.w
      (if ok then .ok else .fail, { s with w := w, heap := setObj P s.heap h (.msa m') })
    | _ => (.badHandle, s)
  | .write h fmt =>
    match s.lookup h with
    | some (.msa m) =>
      let w := (s.w.alloc (.tmp "out_buffer")).free (.tmp "out_buffer")
      let (b, m') := P.render m fmt
      ((match b with | some b => .bytes b | none => .fail), { s with w := w, heap := setObj P s.heap h (.msa m') })
    | _ => (.badHandle, s)
  | .compare h1 h2 =>
    match s.lookup h1, s.lookup h2 with
    | some (.msa r), some (.msa t) =>
      if h1 = h2 then
        let (x, r') := P.compareSelf r
        let w := match x with
          | some _ => (s.w.alloc (.tmp "cmp_stats")).free (.tmp "cmp_stats")
          | none => s.w
        ((match x with | some x => .score x | none => .fail), { s with w := w, heap := setObj P s.heap h1 (.msa r') })
      else
        let (x, r', t') := P.compare r t
        let w := match x with
          | some _ => (s.w.alloc (.tmp "cmp_stats")).free (.tmp "cmp_stats")
          | none => s.w
        ((match x with | some x => .score x | none => .fail),
          { s with w := w, heap := setObj P (setObj P s.heap h1 (.msa r')) h2 (.msa t') })
    | _, _ => (.badHandle, s)
  | .free h =>
    match s.lookup h with
    | some _ => (.ok, { s with w := s.w.free (.obj h), heap := dropObj P s.heap h })
    | none => (.badHandle, s)
  | .kalign arr cfg =>
    let w := s.w.alloc (.tmp "msa")
    match P.arrToMsa arr with
    | none => (.fail, { s with w := w.free (.tmp "msa") })
    | some m =>
      -- `if(n_threads < 1) n_threads = 1` is part of `P.threads`
      let ((m', ok), w) := kalignRun P m cfg w
      if !ok then (.fail, { s with w := w.free (.tmp "msa") }) else
      match P.msaToArr m' with
      | none => (.fail, { s with w := w.free (.tmp "msa") })
      | some r =>
        let w := (w.alloc (.obj s.next)).free (.tmp "msa")
        (.aligned s.next r, { w := w, heap := (s.next, .rows r) :: s.heap, next := s.next + 1 })

/-- run a history, collecting the outputs -/
def run (s : State P) : List (Op P) → List (Out P) × State P
  | [] => ([], s)
  | op :: ops =>
    let (o, s') := step P s op
    let (os, s'') := run s' ops
    (o :: os, s'')

/-- the state after a history -/
def after (s : State P) (ops : List (Op P)) : State P := (run P s ops).2

/-- a fresh process that holds the same argument objects (under the same handle names) and nothing else -/
def freshWith (g0 : Globals) (s : State P) (hs : List Nat) : State P :=
  { w := { g := g0, ledger := [] }
    heap := s.heap.filter fun e => hs.contains e.1
    next := s.next }

end Kalign.Api
