import KalignModel.Model.Bpm
/-!
# Pairwise distances (lib/src/sequence_distance.c, `pair = 1` branch of `d_estimation`)

`calc_distance` runs `BPM = bpm_block` with the longer sequence as text (on equal length `seq_b` is the text).
`d_estimation(..., pair=1)` fills `dm[i][j]` *and* `dm[j][i]` in every iteration `(i,j)` of a full double
loop; the value that survives in both `dm[x][y]` and `dm[y][x]` (x ≤ y) is the one written last, in
iteration `(i,j) = (y,x)`, i.e. `calc_distance(seq_y, seq_x)`.
-/
namespace Kalign

/-- `uint32_t dist = BPM(...)` -/
def calcDistanceRaw (a b : List Nat) : Option Nat :=
  (if a.length > b.length then bpmBlock a b else bpmBlock b a).map fun k => (k % 4294967296).toNat

/-- `calc_distance(seq_a, seq_b, len_a, len_b)` -/
def calcDistance (a b : List Nat) : Option Float32 :=
  (calcDistanceRaw a b).map Float32.ofNat

/-- `float add = MACRO_MIN(10000.0, s) / 10000.0` with `int s = (len_a + len_b) / 2`: double arithmetic, then rounded to float -/
def lenTerm (la lb : Nat) : Float32 :=
  let s : Float := Float.ofNat ((la + lb) / 2)
  let mn : Float := if (10000.0 : Float) < s then 10000.0 else s
  (mn / 10000.0).toFloat32

/-- `dist = calc_distance(a,b); dist += add;` -/
def distEntry (a b : List Nat) : Option Float32 :=
  (calcDistance a b).map fun d => d + lenTerm a.length b.length

/-- the matrix left behind by the `pair = 1` loop of `d_estimation`; `none` if any call faults -/
def distMatrix (seqs : List (List Nat)) : Option (List (List Float32)) :=
  let n := seqs.length
  (List.range n).mapM fun x => (List.range n).mapM fun y =>
    distEntry (seqs.getD (max x y) []) (seqs.getD (min x y) [])

end Kalign
