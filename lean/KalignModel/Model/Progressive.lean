import KalignModel.Model.Weave
import KalignModel.Model.Path
/-!
# Progressive alignment over an arbitrary guide tree (aln_run.c `recursive_aln` / `do_align`)

The pairwise aligner is a parameter (`Aligner`): it receives the two groups and returns the column
codes that `add_gap_info_to_path_n` hands to `make_seq`.  The theorems of C01/C10 hold for *every*
aligner whose output is a valid column list for the two profile lengths; that the real
Hirschberg/expansion code is such an aligner is the separate obligation **H** (Props/C07, monitored
on the implementation at every merge by the step-level correspondence).
-/
namespace Kalign
variable {α : Type}

/-- guide tree over input indices -/
inductive Tree where
  | leaf : Nat → Tree
  | node : Tree → Tree → Tree
  deriving Repr, Inhabited

def Tree.leaves : Tree → List Nat
  | .leaf i => [i]
  | .node l r => l.leaves ++ r.leaves

/-- sub-tree relation (reflexive) -/
inductive Tree.Sub : Tree → Tree → Prop
  | refl (t) : Tree.Sub t t
  | left {v l r} : Tree.Sub v l → Tree.Sub v (.node l r)
  | right {v l r} : Tree.Sub v r → Tree.Sub v (.node l r)

/-- a member of a group: input index + residues + gap vector -/
structure Member (α : Type) where
  idx : Nat
  seq : GSeq α

abbrev Group (α : Type) := List (Member α)

/-- profile length of a group = row length of its first member (all equal by the invariant) -/
def Group.plen (g : Group α) : Nat :=
  match g with
  | [] => 0
  | m :: _ => m.seq.row.length

abbrev Aligner (α : Type) := Group α → Group α → List Nat

/-- column list is valid for profile lengths `la`, `lb` -/
def ValidCols (cs : List Col) (la lb : Nat) : Prop :=
  Col.skip ∉ cs ∧ consA cs = la ∧ consB cs = lb

def Aligner.Valid (al : Aligner α) : Prop :=
  ∀ A B : Group α, ValidCols ((al A B).map Col.ofCode) A.plen B.plen

/-- `make_seq` + member-list concatenation of `do_align` (aln_run.c:255-272) -/
def mergeGroups (codes : List Nat) (A B : Group α) : Group α :=
  let cs := codes.map Col.ofCode
  let ga := gapVecA cs
  let gb := gapVecB cs
  (A.reverse.map fun m => { m with seq := { m.seq with gaps := updateGaps m.seq.gaps ga } }) ++
  (B.reverse.map fun m => { m with seq := { m.seq with gaps := updateGaps m.seq.gaps gb } })

/-- the group a node holds when it completes -/
def alignTree (seqs : Nat → List α) (al : Aligner α) : Tree → Group α
  | .leaf i => [{ idx := i, seq := { res := seqs i, gaps := List.replicate ((seqs i).length + 1) 0 } }]
  | .node l r =>
    let A := alignTree seqs al l
    let B := alignTree seqs al r
    mergeGroups (al A B) A B

/-- final row of input `i` (finalise_alignment + msa_sort_rank): look the member up by index -/
def finalRow (g : Group α) (i : Nat) : Option (List (Option α)) :=
  (g.find? (·.idx = i)).map (·.seq.row)

/-- `Option (Option α)` flattening used for out-of-range column reads -/
def cell (r : List (Option α)) (k : Nat) : Option α :=
  match r[k]? with
  | some c => c
  | none => none

/-- column `k` holds only gaps -/
def colAllGap (rows : List (List (Option α))) (k : Nat) : Bool :=
  rows.all fun r => (cell r k).isNone

/-- delete the columns that are gaps in all `rows` (rows of common length `L`) -/
def dropAllGapCols (rows : List (List (Option α))) (L : Nat) : List (List (Option α)) :=
  let keep := (List.range L).filter fun k => !colAllGap rows k
  rows.map fun r => keep.map fun k => cell r k

def NoAllGapCol (rows : List (List (Option α))) (L : Nat) : Prop :=
  ∀ k, k < L → colAllGap rows k = false

end Kalign
