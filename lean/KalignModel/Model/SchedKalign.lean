import KalignModel.Model.Sched
import KalignModel.Model.Progressive
import KalignModel.Gen.Omp
/-!
# kalign's four parallel regions as fork-join programs with declared footprints

* `treeProg`          aln_run.c `recursive_aln` (one task per internal child, `taskwait`, `do_align`)
* `hirschProg`        aln_controller.c `aln_runner` (forward ‖ backward, `taskwait`, meetup)
* `kmeansRoundProg`   bisectingKmeans.c `bisecting_kmeans` (4 × `split2` ‖, `taskwait`, reduction j=0..3)
* `distProg`          sequence_distance.c `d_estimation` pair=0 (`parallel for collapse(2)`, one writer per cell)
* `progOfDirs`        the computed map from the ordered pragma list of a function (Gen/Omp.lean,
                      regenerated from the C text on every run) to the `Prog` shape.

Footprints are *declared* here (over-approximated on the write side: e.g. `merge c` is given write
access to `sip/nsip/plen[a]`, which it only reads); they are validated against the running code by the
trace / TSan checks of DESIGN §4 C02.
-/
namespace Kalign.Sched
open Kalign

/-! ## guide tree with node ids -/

/-- guide tree whose internal nodes carry the id given by `label_internal` (bisectingKmeans.c:971):
leaves are input indices `0 … numseq-1`, internal nodes `numseq …` in post-order; both index the same
arrays (`profile[]`, `sip[]`, `nsip[]`, `plen[]`, `active[]`). -/
inductive LTree where
  | leaf : Nat → LTree
  | node : Nat → LTree → LTree → LTree
  deriving Repr, Inhabited, DecidableEq

def LTree.id : LTree → Nat
  | .leaf i => i
  | .node c _ _ => c

def LTree.leaves : LTree → List Nat
  | .leaf i => [i]
  | .node _ l r => l.leaves ++ r.leaves

/-- all node ids (leaves and internal nodes), post-order -/
def LTree.ids : LTree → List Nat
  | .leaf i => [i]
  | .node c l r => l.ids ++ r.ids ++ [c]

def LTree.erase : LTree → Tree
  | .leaf i => .leaf i
  | .node _ l r => .node l.erase r.erase

inductive LTree.Sub : LTree → LTree → Prop
  | refl (t) : LTree.Sub t t
  | left {v c l r} : LTree.Sub v l → LTree.Sub v (.node c l r)
  | right {v c l r} : LTree.Sub v r → LTree.Sub v (.node c l r)

/-- `label_internal(n, label)`: post-order numbering, returns the next free label -/
def labelFrom : Tree → Nat → LTree × Nat
  | .leaf i, n => (.leaf i, n)
  | .node l r, n =>
    let a := labelFrom l n
    let b := labelFrom r a.2
    (.node b.2 a.1 b.1, b.2 + 1)

/-- `label_internal(root, numseq)` -/
def label (T : Tree) (numseq : Nat) : LTree := (labelFrom T numseq).1

/-! ## stage 6: progressive alignment (`recursive_aln`) -/

/-- `do_align` of task `c` with children `a`, `b`; `members` = `sip[a] ∪ sip[b]`, the leaves under `c` -/
structure MergeAtom where
  c : Nat
  a : Nat
  b : Nat
  members : List Nat
  deriving Repr, DecidableEq

inductive KLoc where
  /-- everything that is only read during stage 6: residues, lengths, `ap`, the task list -/
  | input
  | gaps (i : Nat)
  | profile (k : Nat)
  | sip (k : Nat)
  | nsip (k : Nat)
  | plen (k : Nat)
  | active (k : Nat)
  deriving Repr, DecidableEq

/-- the mutable locations `merge c` may touch (its `aln_mem` is private, hence not a shared location) -/
def MergeAtom.owns (m : MergeAtom) : KLoc → Bool
  | .input => false
  | .gaps i => m.members.contains i
  | .profile k => k == m.a || k == m.b || k == m.c
  | .sip k => k == m.a || k == m.b || k == m.c
  | .nsip k => k == m.a || k == m.b || k == m.c
  | .plen k => k == m.a || k == m.b || k == m.c
  | .active k => k == m.a || k == m.b || k == m.c

def mergeRd (m : MergeAtom) (x : KLoc) : Bool := x == .input || m.owns x
def mergeWr (m : MergeAtom) (x : KLoc) : Bool := m.owns x

def mergeFp (m : MergeAtom) : Footprint KLoc :=
  { rd := fun x => mergeRd m x = true, wr := fun x => mergeWr m x = true }

def LTree.mergeAtom (c : Nat) (l r : LTree) : MergeAtom :=
  { c := c, a := l.id, b := r.id, members := l.leaves ++ r.leaves }

/-- `recursive_aln(c)`: a task for each child that is an internal node, `taskwait`, then `do_align(c)` -/
def treeProg : LTree → Prog MergeAtom
  | .leaf _ => .skip
  | .node c l r => .seq (.par (treeProg l) (treeProg r)) (.atom (LTree.mergeAtom c l r))

/-- the order of merges in the build without OpenMP (pragmas elided: left subtree, right subtree, node) -/
def LTree.serialMerges : LTree → List MergeAtom
  | .leaf _ => []
  | .node c l r => l.serialMerges ++ r.serialMerges ++ [LTree.mergeAtom c l r]

/-! ## stage 6 inner: one Hirschberg step (`aln_runner`) -/

inductive HAtom where
  | fwd | bwd | meetup
  deriving Repr, DecidableEq

inductive HLoc where
  /-- `seq1/seq2/prof1/prof2/ap` -/
  | input
  /-- `starta/enda/startb/endb/len_a/len_b/sip` of this step (set before the step, not written in it) -/
  | bounds
  /-- `m->f[]` including the start state `f[0]` -/
  | f
  /-- `m->b[]` including the start state `b[0]` -/
  | b
  /-- `meet/transition/score` (locals of `aln_runner`) -/
  | meet
  deriving Repr, DecidableEq

def hirschRd : HAtom → HLoc → Bool
  | .fwd, x => x == .input || x == .bounds || x == .f
  | .bwd, x => x == .input || x == .bounds || x == .b
  | .meetup, x => x == .input || x == .bounds || x == .f || x == .b

def hirschWr : HAtom → HLoc → Bool
  | .fwd, x => x == .f
  | .bwd, x => x == .b
  | .meetup, x => x == .meet

def hirschFp (a : HAtom) : Footprint HLoc :=
  { rd := fun x => hirschRd a x = true, wr := fun x => hirschWr a x = true }

def hirschProg : Prog HAtom := .seq (.par (.atom .fwd) (.atom .bwd)) (.atom .meetup)

/-- the whole divide-and-conquer of `aln_runner`/`aln_continue`: a step, then (sequentially, by plain
recursive calls) the two sub-rectangles; steps are tagged with their path in the recursion -/
inductive HTree where
  | stop : HTree
  | step : HTree → HTree → HTree
  deriving Repr

def hirschRecProg : HTree → List Bool → Prog (List Bool × HAtom)
  | .stop, _ => .skip
  | .step l r, path =>
    .seq (.seq (.par (.atom (path, .fwd)) (.atom (path, .bwd))) (.atom (path, .meetup)))
         (.seq (hirschRecProg l (false :: path)) (hirschRecProg r (true :: path)))

/-! ## stage 4: one k-means round (`bisecting_kmeans`) -/

inductive KmAtom where
  | split (k : Nat)
  | reduce
  deriving Repr, DecidableEq

inductive KmLoc where
  /-- `dm, samples, num_anchors, num_samples, i, step` (shared, not written during the round) -/
  | input
  | res (k : Nat)
  | best
  | change
  deriving Repr, DecidableEq

def kmRd : KmAtom → KmLoc → Bool
  | .split k, x => x == .input || x == .res k
  | .reduce, x => x != .input

def kmWr : KmAtom → KmLoc → Bool
  | .split k, x => x == .res k
  | .reduce, x => x != .input

def kmFp (a : KmAtom) : Footprint KmLoc :=
  { rd := fun x => kmRd a x = true, wr := fun x => kmWr a x = true }

def kmeansRoundProg : Prog KmAtom :=
  .seq (parAll [.atom (.split 0), .atom (.split 1), .atom (.split 2), .atom (.split 3)]) (.atom .reduce)

/-! ## stage 4: the recursion of `bisecting_kmeans`

Each call either is *small* (`num_samples < 100`: `d_estimation(…,1)` — which begins with
`set_broadcast_mask()`, a store to the file-scope `BROADCAST_MASK` — then `upgma`) or runs the k-means
rounds, hands the two sample arrays to two child tasks, waits, and links the results.  Two small
siblings therefore both **write `BROADCAST_MASK` concurrently** (with the same constants). -/

inductive KTree where
  | small (id : Nat) : KTree
  | big (id : Nat) (l r : KTree) : KTree
  deriving Repr, DecidableEq

def KTree.id : KTree → Nat
  | .small i => i
  | .big i _ _ => i

def KTree.ids : KTree → List Nat
  | .small i => [i]
  | .big i l r => l.ids ++ r.ids ++ [i]

inductive KRAtom where
  /-- small call `id`: set mask, pairwise distances (private matrix), `upgma`, `*ret_n = n`, free `samples` -/
  | upgma (id : Nat)
  /-- big call `id`: the k-means rounds; produces the sample arrays of the children `l`, `r` -/
  | rounds (id l r : Nat)
  /-- big call `id` after the `taskwait`: `*ret_n = n` with `n->left/right` from the children -/
  | join (id l r : Nat)
  deriving Repr, DecidableEq

inductive KRLoc where
  /-- `msa`, `dm` (anchor distances): read-only here -/
  | input
  /-- bpm.c `BROADCAST_MASK` -/
  | mask
  /-- the `samples` array handed to call `id` (freed by it) -/
  | samples (id : Nat)
  /-- the subtree returned by call `id` -/
  | node (id : Nat)
  deriving Repr, DecidableEq

def krRd : KRAtom → KRLoc → Bool
  | .upgma id, x => x == .input || x == .samples id
  | .rounds id _ _, x => x == .input || x == .samples id
  | .join _ l r, x => x == .node l || x == .node r

/-- write sets without the mask -/
def krWr0 : KRAtom → KRLoc → Bool
  | .upgma id, x => x == .samples id || x == .node id
  | .rounds id l r, x => x == .samples id || x == .samples l || x == .samples r
  | .join id _ _, x => x == .node id

/-- the honest write sets: a small call also stores to the mask -/
def krWr : KRAtom → KRLoc → Bool
  | .upgma id, x => x == .mask || krWr0 (.upgma id) x
  | a, x => krWr0 a x

def krFp0 (a : KRAtom) : Footprint KRLoc := { rd := fun x => krRd a x = true, wr := fun x => krWr0 a x = true }
def krFp (a : KRAtom) : Footprint KRLoc := { rd := fun x => krRd a x = true, wr := fun x => krWr a x = true }

def KRAtom.setsMask : KRAtom → Bool
  | .upgma _ => true
  | _ => false

def kmeansRecProg : KTree → Prog KRAtom
  | .small i => .atom (.upgma i)
  | .big i l r => .seq (.atom (.rounds i l.id r.id)) (.seq (.par (kmeansRecProg l) (kmeansRecProg r)) (.atom (.join i l.id r.id)))

/-! ## stage 4: distance matrix (`d_estimation`, pair = 0) -/

inductive DAtom where
  | setMask
  | cell (i j : Nat)
  deriving Repr, DecidableEq

inductive DLoc where
  /-- sequences, lengths, `samples[]` -/
  | input
  /-- bpm.c `BROADCAST_MASK` -/
  | mask
  | dm (i j : Nat)
  deriving Repr, DecidableEq

def dRd : DAtom → DLoc → Bool
  | .setMask, _ => false
  | .cell i j, x => x == .input || x == .mask || x == .dm i j

def dWr : DAtom → DLoc → Bool
  | .setMask, x => x == .mask
  | .cell i j, x => x == .dm i j

def dFp (a : DAtom) : Footprint DLoc :=
  { rd := fun x => dRd a x = true, wr := fun x => dWr a x = true }

/-- `#pragma omp parallel for collapse(2)`: every iteration `(i,j)` is a branch.  `schedule(static)`
(each thread runs a block of iterations in order) is one particular family of linearisations. -/
def distProg (n m : Nat) : Prog DAtom :=
  parAll ((List.range n).map fun i => parAll ((List.range m).map fun j => .atom (.cell i j)))

/-- `set_broadcast_mask()` then the loop nest -/
def dEstimationProg (n m : Nat) : Prog DAtom := .seq (.atom .setMask) (distProg n m)

/-! ## from the pragma list to the program shape -/

open Kalign.Gen in
/-- names of the holes of a shape: the `n`-th task of the function (with its callee), the code that
follows the `n`-th `taskwait`, the `n`-th work-sharing loop -/
inductive Slot where
  | task (callee : String) (n : Nat)
  | after (n : Nat)
  | loop (n : Nat)
  deriving Repr, DecidableEq

open Kalign.Gen in
/-- Tasks created since the last `taskwait` form a `par` group; what follows the `taskwait` is sequenced
after the group.  Tasks still pending at the end of the list are joined by the closing barrier of the
enclosing region.  `parallel` / `single nowait` only open the region and create no ordering. -/
def segsOfDirs : List Dir → List (Prog Slot) → Nat → Nat → Nat → List (Prog Slot)
  | [], pending, _, _, _ => if pending.isEmpty then [] else [parAll pending.reverse]
  | .task callee _ _ _ :: ds, pending, nt, nw, nl => segsOfDirs ds (.atom (.task callee nt) :: pending) (nt + 1) nw nl
  | .taskwait :: ds, pending, nt, nw, nl =>
    .seq (parAll pending.reverse) (.atom (.after nw)) :: segsOfDirs ds [] nt (nw + 1) nl
  | .pfor _ :: ds, pending, nt, nw, nl =>
    (if pending.isEmpty then [] else [parAll pending.reverse]) ++ .atom (.loop nl) :: segsOfDirs ds [] nt nw (nl + 1)
  | _ :: ds, pending, nt, nw, nl => segsOfDirs ds pending nt nw nl

open Kalign.Gen in
def progOfDirs (ds : List Dir) : Prog Slot := seqAll (segsOfDirs ds [] 0 0 0)

open Kalign.Gen in
/-- the segments (one per `taskwait`) of function `fn` in a skeleton table -/
def segsOfSkeleton (sk : List (String × List Dir)) (fn : String) : List (Prog Slot) :=
  match sk.lookup fn with
  | some ds => segsOfDirs ds [] 0 0 0
  | none => []

open Kalign.Gen in
def progOfSkeleton (sk : List (String × List Dir)) (fn : String) : Prog Slot :=
  seqAll (segsOfSkeleton sk fn)

end Kalign.Sched
