import KalignModel.Model.SchedKalign
/-!
# The guide tree for ≥ 100 sequences: bisecting k-means (bisectingKmeans.c, euclidean_dist.c, pick_anchor.c)

Executable, bit-exact model (binary32 arithmetic in the operation order of the C code) of

* `edist_256` (the AVX2 path: 8 lane sums, `hsum256_ps_avx`/`hsum_ps_sse3`, `sqrtf`) and `edist_serial`;
* `split2` (centre initialisation from `samples[seed_pick]`, 500-iteration cap, `cmp_floats` with
  `epsilon = 1e-6f`, the `i & 1` alternation on ties, the "one side empty → cut the list in half" fallback);
* the rounds of `bisecting_kmeans` (`for(i = 0; i < tries; i += 4)`, four restarts per round, the reduction
  `best->score > res[j]->score` in the fixed order j = 0..3, the early exit `if(!change) break`) and its recursion;
* `pick_anchor` (glibc `qsort` = top-down merge sort with the non-strict comparator `sort_by_len`);
* `label_internal` (re-used from Model/SchedKalign.lean: `labelFrom`), `create_tasks`, `sort_tasks(TASK_ORDER_TREE)`.

What is a PARAMETER here: the tree built for a sample set of fewer than 100 samples
(`d_estimation(…,1)` + `upgma`: modelled by another slice) — `small : List Nat → Tree` — and the anchor distance
matrix `dm` (`d_estimation(…,0)`: rows padded with zeros to a multiple of 8 floats).

Faults: where the C code would index outside `samples[]`/`dm[]` (or dereference the NULL result of
`alloc_kmeans_result(0)`) the model returns `none` / `KmErr.fault`.  After the up-front checks the inner
loops use `[i]!` (which panics loudly, never reached).
-/
namespace Kalign.Kmeans
open Kalign Kalign.Sched

/-- `if(num_samples < 100)` -/
def kmSmall : Nat := 100
/-- `int tries = 40;` -/
def kmTries : Nat := 40
/-- `for(int stop = 0; stop < 500; stop++)` -/
def kmMaxIter : Nat := 500

/-- `num_var`: `num_anchors` rounded up to a multiple of 8 -/
def numVarOf (n : Nat) : Nat := (n / 8 + (if n % 8 = 0 then 0 else 1)) * 8

/-- `const float epsilon = 1e-6;` -/
def eps : Float32 := Float32.ofBits 0x358637bd

/-- `cmp_floats` -/
def cmpFloats (a b : Float32) : Int :=
  if Float32.abs (a - b) < eps then 0 else if a > b then 1 else -1

/-! ## euclidean_dist.c -/

/-- lane `k` of the accumulator `r` of `edist_256` after `n` more blocks starting at block `blk` -/
def laneGo (a b : Array Float32) (k : Nat) : Nat → Nat → Float32 → Float32
  | 0, _, r => r
  | n + 1, blk, r =>
    let t := a[8 * blk + k]! - b[8 * blk + k]!
    laneGo a b k n (blk + 1) (r + t * t)

/-- `edist_256(a, b, len, &ret)`: reads `8 * ⌈len/8⌉` floats of both arrays.
`hsum256_ps_avx`: `v[k] = r[k] + r[k+4]`; `hsum_ps_sse3`: `(v0 + v1) + (v2 + v3)`. -/
def edist256 (a b : Array Float32) (len : Nat) : Float32 :=
  let nblk := (len + 7) / 8
  let r := fun k => laneGo a b k nblk 0 0
  let v0 := r 0 + r 4
  let v1 := r 1 + r 5
  let v2 := r 2 + r 6
  let v3 := r 3 + r 7
  Float32.sqrt ((v0 + v1) + (v2 + v3))

def serialGo (a b : Array Float32) : Nat → Nat → Float32 → Float32
  | 0, _, d => d
  | n + 1, i, d =>
    let t := a[i]! - b[i]!
    serialGo a b n (i + 1) (d + t * t)

/-- `edist_serial(a, b, len, &ret)` -/
def edistSerial (a b : Array Float32) (len : Nat) : Float32 :=
  Float32.sqrt (serialGo a b len 0 0)

/-- bounds-checked versions (`none` = the C code reads past the end of an array) -/
def edist256? (a b : Array Float32) (len : Nat) : Option Float32 :=
  let need := 8 * ((len + 7) / 8)
  if a.size < need ∨ b.size < need then none else some (edist256 a b len)

def edistSerial? (a b : Array Float32) (len : Nat) : Option Float32 :=
  if a.size < len ∨ b.size < len then none else some (edistSerial a b len)

/-- the distance function compiled into `split2`: `#ifdef HAVE_AVX2` -/
def edist (avx : Bool) (a b : Array Float32) (len : Nat) : Float32 :=
  if avx then edist256 a b len else edistSerial a b len

/-! ## split2 -/

structure Split where
  sl : List Nat
  sr : List Nat
  score : Float32
  deriving Inhabited

/-- `dm[s]` when it exists and holds at least `nv` floats -/
def rowAt (dm : Array (Array Float32)) (nv : Nat) (s : Nat) : Option (Array Float32) :=
  match dm[s]? with
  | some r => if r.size < nv then none else some r
  | none => none

/-- rows `dm[s]` for the samples in order; `none` when a sample does not index a row of at least
`nv` floats (`split2` reads every `dm[samples[i]]` in its first loop) -/
def rowsOf (dm : Array (Array Float32)) (nv : Nat) (samples : List Nat) : Option (Array (Array Float32)) :=
  (samples.mapM (rowAt dm nv)).map List.toArray

/-- `Σ_i rows[i][j]` in sample order, restricted to the rows with `flags[i] = side` when `flags` is given -/
def colSumGo (rows : Array (Array Float32)) (sel : Option (Array Bool × Bool)) (j : Nat) :
    Nat → Nat → Float32 → Float32
  | 0, _, acc => acc
  | n + 1, i, acc =>
    let take := match sel with
      | none => true
      | some (flags, side) => flags[i]! == side
    colSumGo rows sel j n (i + 1) (if take then acc + rows[i]![j]! else acc)

def colSum (rows : Array (Array Float32)) (sel : Option (Array Bool × Bool)) (j : Nat) : Float32 :=
  colSumGo rows sel j rows.size 0 0

/-- a `num_var`-sized buffer whose first `na` entries are `f j` and whose padding is `0.0F` -/
def mkVec (nv na : Nat) (f : Nat → Float32) : Array Float32 :=
  Array.ofFn (n := nv) fun j => if j.val < na then f j.val else 0

/-- distribute the samples: `true` = `sl`.  Flags that run out send the rest left (never happens:
the flags always have the length of the sample list). -/
def splitBy : List Bool → List Nat → List Nat × List Nat
  | _, [] => ([], [])
  | [], xs => (xs, [])
  | b :: bs, x :: xs =>
    let p := splitBy bs xs
    if b then (x :: p.1, p.2) else (p.1, x :: p.2)

/-- the assignment loop of one iteration: side of every sample and `score` -/
def assignGo (avx : Bool) (rows : Array (Array Float32)) (cl cr : Array Float32) (na : Nat) :
    Nat → Nat → Float32 → Array Bool → Array Bool × Float32
  | 0, _, sc, fl => (fl, sc)
  | n + 1, i, sc, fl =>
    let row := rows[i]!
    let dl := edist avx row cl na
    let dr := edist avx row cr na
    let sc := sc + (if dl < dr then dl else dr)
    let c := cmpFloats dr dl
    let left := if c == -1 then false else if c == 1 then true else i % 2 == 0
    assignGo avx rows cl cr na n (i + 1) sc (fl.push left)

/-- `for(j…){ cmp_floats(wl[j],cl[j]) != 0 || cmp_floats(wr[j],cr[j]) != 0 → s = 1; break; }` -/
def centresMoved (wl wr cl cr : Array Float32) (na : Nat) : Bool :=
  (List.range na).any fun j => cmpFloats wl[j]! cl[j]! != 0 || cmpFloats wr[j]! cr[j]! != 0

/-- the "one side empty" fallback: `score = 0`, first `n/2` samples left, the rest right -/
def fallback (samples : List Nat) : Split :=
  { sl := samples.take (samples.length / 2), sr := samples.drop (samples.length / 2), score := 0 }

/-- one pass of the `for(stop…)` body: the result if the loop ended here and, when the centres moved, the
new centres -/
def iterStep (avx : Bool) (rows : Array (Array Float32)) (samples : List Nat) (na nv : Nat)
    (cl cr : Array Float32) : Split × Option (Array Float32 × Array Float32) :=
  let (flags, score) := assignGo avx rows cl cr na rows.size 0 0 (Array.mkEmpty rows.size)
  let p := splitBy flags.toList samples
  if p.1.isEmpty || p.2.isEmpty then (fallback samples, none)
  else
    let nl := Float32.ofNat p.1.length
    let nr := Float32.ofNat p.2.length
    let wl := mkVec nv na fun j => colSum rows (some (flags, true)) j / nl
    let wr := mkVec nv na fun j => colSum rows (some (flags, false)) j / nr
    let cur : Split := { sl := p.1, sr := p.2, score := score }
    if centresMoved wl wr cl cr na then (cur, some (wl, wr)) else (cur, none)

/-- `k + 1` iterations at most -/
def split2Iter (avx : Bool) (rows : Array (Array Float32)) (samples : List Nat) (na nv : Nat) :
    Nat → Array Float32 → Array Float32 → Split
  | 0, cl, cr => (iterStep avx rows samples na nv cl cr).1
  | k + 1, cl, cr =>
    match iterStep avx rows samples na nv cl cr with
    | (r, none) => r
    | (_, some (cl', cr')) => split2Iter avx rows samples na nv k cl' cr'

/-- `split2` with the iteration cap as a parameter (`maxIter ≥ 1`; the C code has 500) -/
def split2With (maxIter : Nat) (avx : Bool) (dm : Array (Array Float32)) (samples : List Nat) (na seedPick : Nat) :
    Option Split :=
  let n := samples.length
  let nv := numVarOf na
  if n = 0 then none else
  match rowsOf dm nv samples with
  | none => none
  | some rows =>
    if seedPick < n then
      let fn := Float32.ofNat n
      let w := mkVec nv na fun j => colSum rows none j / fn
      let seed := rows[seedPick]!
      let cl := mkVec nv na fun j => seed[j]!
      let cr := mkVec nv na fun j => w[j]! - (cl[j]! - w[j]!)
      some (split2Iter avx rows samples na nv (maxIter - 1) cl cr)
    else none

/-- `split2(dm, samples, num_anchors, num_samples, seed_pick, &res)`.
`none`: `num_samples = 0` (`alloc_kmeans_result` fails, `res` stays NULL), a sample that is not a row of `dm`
(or a row shorter than `num_var`), or `seed_pick ≥ num_samples`. -/
def split2 (avx : Bool) (dm : Array (Array Float32)) (samples : List Nat) (na seedPick : Nat) : Option Split :=
  split2With kmMaxIter avx dm samples na seedPick

/-! ## the rounds of `bisecting_kmeans` -/

/-- the reduction `for(j = 0; j < 4; j++)`: new `best` and `change` -/
def reduceRes : Option Split × Nat → List Split → Option Split × Nat
  | bc, [] => bc
  | (none, ch), r :: rs => reduceRes (some r, ch + 1) rs
  | (some b, ch), r :: rs =>
    if b.score > r.score then reduceRes (some r, ch + 1) rs else reduceRes (some b, ch) rs

/-- the four restarts of the round that starts at `i` (`none` = one of them faults) -/
def roundRes (sp : Nat → Option Split) (step i : Nat) : Option (List Split) :=
  [sp (i * step), sp ((i + 1) * step), sp ((i + 2) * step), sp ((i + 3) * step)].mapM id

/-- `for(i = 0; i < tries; i += 4)` with `rem` rounds to go.  Outer `none` = fault. -/
def roundsGo (sp : Nat → Option Split) (step : Nat) : Nat → Nat → Option Split → Option (Option Split)
  | 0, _, best => some best
  | rem + 1, i, best =>
    match roundRes sp step i with
    | none => none
    | some rs =>
      let (best', change) := reduceRes (best, 0) rs
      if change = 0 then some best' else roundsGo sp step rem (i + 4) best'

/-- the best split of a sample set: `tries = MIN(40, n)`, `step = n / tries` -/
def bestSplit (avx : Bool) (dm : Array (Array Float32)) (na : Nat) (samples : List Nat) : Option Split :=
  let n := samples.length
  let tries := if kmTries < n then kmTries else n
  if tries = 0 then none        -- `step = n / 0`
  else
    let step := n / tries
    match roundsGo (split2 avx dm samples na) step ((tries + 3) / 4) 0 none with
    | some (some b) => some b
    | _ => none

inductive KmErr where
  /-- out-of-bounds read / NULL dereference in the C code -/
  | fault
  /-- the recursion budget of the model ran out (proved impossible: `C03Kmeans.bisectingKmeans_fuel`) -/
  | fuel
  deriving Repr, DecidableEq

/-- `bisecting_kmeans` with a recursion budget -/
def bisect (avx : Bool) (dm : Array (Array Float32)) (na : Nat) (small : List Nat → Tree) :
    Nat → List Nat → Except KmErr Tree
  | fuel, samples =>
    if samples.length < kmSmall then .ok (small samples)
    else match fuel with
      | 0 => .error .fuel
      | fuel + 1 =>
        match bestSplit avx dm na samples with
        | none => .error .fault
        | some b =>
          match bisect avx dm na small fuel b.sl, bisect avx dm na small fuel b.sr with
          | .ok l, .ok r => .ok (.node l r)
          | .error e, _ => .error e
          | _, .error e => .error e

/-- `bisecting_kmeans(msa, &root, dm, samples, num_samples)`; `na = MIN(32, msa->numseq)` -/
def bisectingKmeans (avx : Bool) (dm : Array (Array Float32)) (na : Nat) (small : List Nat → Tree)
    (samples : List Nat) : Except KmErr Tree :=
  bisect avx dm na small samples.length samples

/-! ## glibc qsort (2.36: `msort_with_tmp`) with kalign's never-zero comparators -/

/-- merge step: `if (cmp(b1, b2) <= 0) take b1 else take b2` -/
def mergeBy {α : Type} (takeLeft : α → α → Bool) : List α → List α → List α
  | [], r => r
  | l, [] => l
  | a :: l, b :: r =>
    if takeLeft a b then a :: mergeBy takeLeft l (b :: r) else b :: mergeBy takeLeft (a :: l) r

/-- `msort_with_tmp`: `n1 = n / 2`, sort both halves, merge -/
def msortBy {α : Type} (takeLeft : α → α → Bool) (l : List α) : List α :=
  if h : l.length ≤ 1 then l
  else
    mergeBy takeLeft (msortBy takeLeft (l.take (l.length / 2))) (msortBy takeLeft (l.drop (l.length / 2)))
termination_by l.length
decreasing_by
  · simp only [List.length_take]; omega
  · simp only [List.length_drop]; omega

/-! ## pick_anchor.c -/

/-- `sort_by_len(one, two) = -1` iff `one->len > two->len`, else `1` (never `0`): the left element is
taken only when strictly longer -/
def lenTakeLeft (a b : Nat × Nat) : Bool := decide (a.1 > b.1)

/-- `pick_anchor`: `(len, id)` sorted, every `stride`-th id.  `none`: `numseq = 0` (`stride = 0 / 0`). -/
def pickAnchors (lens : List Nat) : Option (List Nat) :=
  let n := lens.length
  let na := if 32 < n then 32 else n
  if na = 0 then none else
  let sorted := (msortBy lenTakeLeft lens.zipIdx).toArray
  let stride := n / na
  (List.range na).mapM fun i => (sorted[i * stride]?).map (·.2)

/-! ## label_internal / create_tasks / sort_tasks -/

/-- `create_tasks`: pre-order, `(a, b, c) = (left id, right id, node id)` -/
def createTasks : LTree → List (Nat × Nat × Nat)
  | .leaf _ => []
  | .node c l r => (l.id, r.id, c) :: (createTasks l ++ createTasks r)

/-- `sort_tasks_by_c(one, two) = 1` iff `one->c >= two->c`, else `-1` -/
def taskTakeLeft (a b : Nat × Nat × Nat) : Bool := decide (a.2.2 < b.2.2)

/-- `sort_tasks(t, TASK_ORDER_TREE)` -/
def sortTasks (ts : List (Nat × Nat × Nat)) : List (Nat × Nat × Nat) := msortBy taskTakeLeft ts

/-- `label_internal(root, numseq); create_tasks(root, t)` -/
def treeTasks (t : Tree) (numseq : Nat) : List (Nat × Nat × Nat) := createTasks (label t numseq)

/-- the whole of `build_tree_kmeans` after `d_estimation`: samples `0 … numseq-1` -/
def buildTreeTasks (avx : Bool) (dm : Array (Array Float32)) (na : Nat) (small : List Nat → Tree)
    (numseq : Nat) : Except KmErr (List (Nat × Nat × Nat)) :=
  match bisectingKmeans avx dm na small (List.range numseq) with
  | .ok t => .ok (treeTasks t numseq)
  | .error e => .error e

/-- deterministic stand-in for the `< 100` branch used by the correspondence ops: left-deep caterpillar over
the samples in the order received (what the real `upgma` builds from the matrix `dm[i][j] = max(i,j)`) -/
def caterpillar : List Nat → Tree
  | [] => .leaf 0
  | s :: rest => rest.foldl (fun t x => .node t (.leaf x)) (.leaf s)

end Kalign.Kmeans
