/-!
# Bit-parallel edit distance (lib/src/bpm.c)

* `lev`, `substrings`, `levSub` : specification (Levenshtein distance, minimum over the substrings of the text).
* `sellers`                     : plain column dynamic program with free start in the text (Sellers).
* `bpmBlock`                    : model of `bpm_block` (Myers/Hyyrö block algorithm, 64-bit words, Ukkonen band).
* `bpm64`                       : model of `bpm` (one 64-bit word).
* `bpm256`                      : model of `bpm_256` (AVX2; 4×64-bit lanes, `add256`, `bitShiftLeft256ymm`).
* `dyn256`                      : model of `dyn_256` (byte DP used as reference in kalign's own tests).

Texts and patterns are lists of symbol codes (`Nat`, the C `uint8_t`).  The functions return
`none` where the C code would index one of its 13-entry tables out of bounds (a symbol `≥ 13`)
or executes an undefined shift (`m = 0` in `bpm`).  No proofs in this file.
-/
namespace Kalign

/-! ## specification -/

/-- Levenshtein distance (unit costs). -/
def lev {α : Type} [DecidableEq α] : List α → List α → Nat
  | [], b => b.length
  | x :: a, [] => (x :: a).length
  | x :: a, y :: b =>
    min (min (lev a (y :: b) + 1) (lev (x :: a) b + 1)) (lev a b + if x = y then 0 else 1)
termination_by a b => a.length + b.length

def suffixes {α : Type} : List α → List (List α)
  | [] => [[]]
  | x :: l => (x :: l) :: suffixes l

def prefixes {α : Type} : List α → List (List α)
  | [] => [[]]
  | x :: l => [] :: (prefixes l).map (x :: ·)

/-- all contiguous substrings (every prefix of every suffix) -/
def substrings {α : Type} (t : List α) : List (List α) := (suffixes t).flatMap prefixes

/-- minimum over all substrings `s` of `t` of `lev p s` (the empty substring gives `p.length`) -/
def levSub {α : Type} [DecidableEq α] (p t : List α) : Nat :=
  ((substrings t).map (lev p)).foldl min p.length

/-! ## Sellers' column DP

column `j` holds `D(i,j)` for `i = 0..m`: `D(i,0) = i`, `D(0,j) = 0`,
`D(i,j) = min (D(i-1,j)+1) (D(i,j-1)+1) (D(i-1,j-1) + [p_i ≠ t_j])`. -/

def min3 (a b c : Nat) : Nat := min (min a b) c

/-- rows `1..` of the next column: `diag = D(i-1,j-1)`, `left = D(i-1,j)` (already new), `up :: _ = D(i,j-1)…` -/
def sellersColAux {α : Type} [DecidableEq α] (c : α) : List α → Nat → Nat → List Nat → List Nat
  | x :: p, diag, left, up :: rest =>
    let v := min3 (left + 1) (up + 1) (diag + if x = c then 0 else 1)
    v :: sellersColAux c p up v rest
  | _, _, _, _ => []

def sellersStep {α : Type} [DecidableEq α] (p : List α) (c : α) : List Nat → List Nat
  | [] => []
  | d0 :: rest => d0 :: sellersColAux c p d0 d0 rest

/-- all columns `0..n` -/
def sellersCols {α : Type} [DecidableEq α] (p : List α) : List α → List Nat → List (List Nat)
  | [], col => [col]
  | c :: t, col => col :: sellersCols p t (sellersStep p c col)

/-- minimum over the columns of the last row -/
def sellers {α : Type} [DecidableEq α] (p t : List α) : Nat :=
  ((sellersCols p t (List.range (p.length + 1))).map fun col => col.getLastD 0).foldl min p.length

/-! ## `bpm_block` -/

def SIGMA : Nat := 13

/-- C macro `DIV_CEIL(a,b)` (note the value 1 at `a = 0`) -/
def divCeil (a b : Nat) : Nat := if a = 0 then 1 else a / b + (if a % b = 0 then 0 else 1)

/-- the word whose bit `i` (for `i < n ≤ 64`) is `f i` -/
def bitsToBV (w : Nat) (f : Nat → Bool) : Nat → BitVec w
  | 0 => 0#w
  | n + 1 => bitsToBV w f n ||| (if f n then (1#w <<< n) else 0#w)

/-- `Peq[c][block]`: bit `i` is set iff position `64*block+i` is past the pattern (wildcard padding) or carries `c` -/
def peqWord (p : List Nat) (m : Nat) (c : Nat) (block : Nat) : BitVec 64 :=
  bitsToBV 64 (fun i => decide (m ≤ block * 64 + i) || (p.getD (block * 64 + i) 0 == c)) 64

structure BlockSt where
  P : BitVec 64
  M : BitVec 64
  score : Int
deriving Repr, BEq

/-- the body of the block loop (edlib's `calculateBlock`), identical text appears twice in `bpm_block`;
stated for any word width (`w = 64` in the C code: `HIGH_BIT = 1 << 63`) -/
def advanceBlock {w : Nat} (Pv Mv Eq : BitVec w) (hIn : Int) : BitVec w × BitVec w × Int :=
  let Xv := Eq ||| Mv
  let Eq := if hIn < 0 then Eq ||| 1#w else Eq
  let Xh := (((Eq &&& Pv) + Pv) ^^^ Pv) ||| Eq
  let Ph := Mv ||| ~~~(Xh ||| Pv)
  let Mh := Pv &&& Xh
  let hOut : Int := (if Ph.getLsbD (w - 1) then 1 else 0) - (if Mh.getLsbD (w - 1) then 1 else 0)
  let Ph := Ph <<< 1
  let Mh := Mh <<< 1
  let Mh := if hIn < 0 then Mh ||| 1#w else Mh
  let Ph := if hIn < 0 then Ph else if hIn > 0 then Ph ||| 1#w else Ph
  let Pv := Mh ||| ~~~(Xv ||| Ph)
  let Mv := Ph &&& Xv
  (Pv, Mv, hOut)

/-- blocks `b .. b+cnt-1` of one text column, carry passed upwards; the remaining blocks are untouched -/
def colBlocks (peq : Nat → BitVec 64) : Nat → Nat → Int → List BlockSt → List BlockSt × Int
  | _, 0, carry, bs => (bs, carry)
  | _, _ + 1, carry, [] => ([], carry)
  | b, cnt + 1, carry, s :: bs =>
    let r := advanceBlock s.P s.M (peq b) carry
    let rest := colBlocks peq (b + 1) cnt r.2.2 bs
    ({ P := r.1, M := r.2.1, score := s.score + r.2.2 } :: rest.1, rest.2)

def blkScore (bs : List BlockSt) (b : Nat) : Int := (bs.getD b ⟨0, 0, 0⟩).score

/-- `while (score[y] >= maxd + w) { if (y == 0) break; y -= 1; }` -/
def bandShrink (bs : List BlockSt) (lim : Int) : Nat → Nat
  | 0 => 0
  | y + 1 => if blkScore bs (y + 1) ≥ lim then bandShrink bs lim y else y + 1

structure BpmSt where
  blocks : List BlockSt
  y : Nat
  k : Int

/-- one text column `c` -/
def bpmBlockCol (peq : Nat → Nat → BitVec 64) (bmax : Nat) (maxd : Int) (st : BpmSt) (c : Nat) : BpmSt :=
  let r := colBlocks (peq c) 0 (st.y + 1) 0 st.blocks
  let bs := r.1
  let carry := r.2
  let y := st.y
  if blkScore bs y - carry ≤ maxd ∧ y + 1 < bmax ∧ ((peq c (y + 1)).getLsbD 0 ∨ carry < 0) then
    let y1 := y + 1
    let a := advanceBlock (BitVec.allOnes 64) 0#64 (peq c y1) carry
    let sc := blkScore bs y + 64 - carry + a.2.2
    let bs := bs.set y1 { P := a.1, M := a.2.1, score := sc }
    { blocks := bs, y := y1, k := if sc < st.k then sc else st.k }
  else
    let y2 := bandShrink bs (maxd + 64) y
    let sc := blkScore bs y2
    { blocks := bs, y := y2, k := if sc < st.k then sc else st.k }

/-- `bpm_block(t,p,n,m)` with `n = t.length`, `m = p.length`; `none`: a text symbol `≥ 13` indexes `Peq` out of bounds -/
def bpmBlock (t p : List Nat) : Option Int :=
  if t.any (fun c => decide (SIGMA ≤ c)) then none else
  let m := min p.length 1024
  let bmax := divCeil m 64
  let W := 64 * bmax - m
  let tab : Array (Array (BitVec 64)) :=
    ((List.range SIGMA).map fun c => ((List.range bmax).map fun b => peqWord p m c b).toArray).toArray
  let peq : Nat → Nat → BitVec 64 := fun c b => (tab.getD c #[]).getD b 0#64
  -- C: blocks 0..y initialised, the remaining array entries are zero
  let y := divCeil m 64 - 1
  let blocks : List BlockSt := (List.range bmax).map fun b =>
    if b ≤ y then { P := BitVec.allOnes 64, M := 0#64, score := ((b + 1) * 64 : Nat) } else ⟨0#64, 0#64, 0⟩
  let st0 : BpmSt := { blocks := blocks, y := y, k := m }
  let st := (t ++ List.replicate W 0).foldl (bpmBlockCol peq bmax m) st0
  some st.k

/-! ## `bpm` (single 64-bit word) -/

/-- C conversion to `int8_t` -/
def toInt8 (x : Int) : Int := (x + 128) % 256 - 128
/-- C conversion to `uint8_t` -/
def toUInt8 (x : Int) : Nat := (x % 256).toNat

structure Bpm64St where
  VP : BitVec 64
  VN : BitVec 64
  diff : Int
  k : Int

/-- the word operations of one text character in `bpm` (and, on 256 bits, `bpm_256`): returns `(VP', VN', HP, HN)` -/
def bpmCore {w : Nat} (Bc VP VN : BitVec w) : BitVec w × BitVec w × BitVec w × BitVec w :=
  let X := Bc ||| VN
  let D0 := ((VP + (X &&& VP)) ^^^ VP) ||| X
  let HN := VP &&& D0
  let HP := VN ||| ~~~(VP ||| D0)
  let X := HP <<< 1
  let VN' := X &&& D0
  let VP' := (HN <<< 1) ||| ~~~(X ||| D0)
  (VP', VN', HP, HN)

def bpm64Step (B : Nat → BitVec 64) (mask : BitVec 64) (s : Bpm64St) (c : Nat) : Bpm64St :=
  let r := bpmCore (B c) s.VP s.VN
  let HP := r.2.2.1
  let HN := r.2.2.2
  let diff := s.diff + (if HP &&& mask ≠ 0#64 then 1 else 0) - (if HN &&& mask ≠ 0#64 then 1 else 0)
  { VP := r.1, VN := r.2.1, diff := diff, k := if diff < s.k then toInt8 diff else s.k }

/-- `B[c]`: bit `i < m` set iff `p[i] = c` -/
def bpmB (w : Nat) (p : List Nat) (m : Nat) (c : Nat) : BitVec w :=
  bitsToBV w (fun i => p.getD i 0 == c) m

/-- `bpm(t,p,n,m)`; `none`: symbol `≥ 13` (table `B[13]`), or `m = 0` (`1ul << -1`) -/
def bpm64 (t p : List Nat) : Option Nat :=
  let m := min p.length 63
  if m = 0 then none
  else if (p.take m).any (fun c => decide (SIGMA ≤ c)) || t.any (fun c => decide (SIGMA ≤ c)) then none
  else
    let tab : Array (BitVec 64) := ((List.range SIGMA).map fun c => bpmB 64 p m c).toArray
    let B : Nat → BitVec 64 := fun c => tab.getD c 0#64
    let st0 : Bpm64St := { VP := (1#64 <<< m) - 1#64, VN := 0#64, diff := m, k := m }
    let st := t.foldl (bpm64Step B (1#64 <<< (m - 1))) st0
    some (toUInt8 st.k)

/-! ## `bpm_256` (AVX2): four 64-bit lanes, lane 0 least significant -/

structure V256 where
  l0 : BitVec 64
  l1 : BitVec 64
  l2 : BitVec 64
  l3 : BitVec 64
deriving BEq

namespace V256
def map2 (f : BitVec 64 → BitVec 64 → BitVec 64) (a b : V256) : V256 :=
  ⟨f a.l0 b.l0, f a.l1 b.l1, f a.l2 b.l2, f a.l3 b.l3⟩
def map (f : BitVec 64 → BitVec 64) (a : V256) : V256 := ⟨f a.l0, f a.l1, f a.l2, f a.l3⟩
/-- `_mm256_and_si256` -/
def and (a b : V256) : V256 := map2 (· &&& ·) a b
/-- `_mm256_or_si256` -/
def or (a b : V256) : V256 := map2 (· ||| ·) a b
/-- `_mm256_xor_si256` -/
def xor (a b : V256) : V256 := map2 (· ^^^ ·) a b
/-- `_mm256_andnot_si256(a,b)` = `~a & b` -/
def andnot (a b : V256) : V256 := map2 (fun x y => ~~~x &&& y) a b
/-- `_mm256_add_epi64` -/
def add64 (a b : V256) : V256 := map2 (· + ·) a b
def set1 (x : BitVec 64) : V256 := ⟨x, x, x, x⟩
def zero : V256 := set1 0#64
/-- `_mm256_testz_si256(a,b)`: 1 iff `a & b` is all zero -/
def testz (a b : V256) : Bool :=
  a.l0 &&& b.l0 == 0#64 && a.l1 &&& b.l1 == 0#64 && a.l2 &&& b.l2 == 0#64 && a.l3 &&& b.l3 == 0#64
/-- `_mm256_movemask_pd`: sign bits of the four lanes -/
def movemask (a : V256) : Nat :=
  (if a.l0.msb then 1 else 0) + (if a.l1.msb then 2 else 0) + (if a.l2.msb then 4 else 0) + (if a.l3.msb then 8 else 0)
def ones64 : BitVec 64 := BitVec.allOnes 64
/-- `_mm256_cmpgt_epi64` (signed) -/
def cmpgt (a b : V256) : V256 := map2 (fun x y => if BitVec.slt y x then ones64 else 0#64) a b
/-- `_mm256_cmpeq_epi64` -/
def cmpeq (a b : V256) : V256 := map2 (fun x y => if x == y then ones64 else 0#64) a b
/-- `BROADCAST_MASK[m]` as filled in by `set_broadcast_mask` -/
def broadcastMask (m : Nat) : V256 :=
  let f := fun (i : Nat) => 0x8000000000000000#64 + (if m.testBit i then 1#64 else 0#64)
  ⟨f 0, f 1, f 2, f 3⟩
/-- the 256-bit number held in the lanes -/
def toBV (a : V256) : BitVec 256 := a.l3 ++ a.l2 ++ a.l1 ++ a.l0
def ofBV (x : BitVec 256) : V256 :=
  ⟨x.extractLsb' 0 64, x.extractLsb' 64 64, x.extractLsb' 128 64, x.extractLsb' 192 64⟩
end V256

/-- `add256(carry, A, B)` (Kogge–Stone style carry resolution of A. Yee), `BROADCAST_MASK` initialised -/
def add256 (carry : Nat) (A B : V256) : V256 :=
  let A := V256.xor A (V256.set1 0x8000000000000000#64)
  let s := V256.add64 A B
  let cv := V256.cmpgt A s
  let mv := V256.cmpeq s (V256.set1 0x7fffffffffffffff#64)
  let c := V256.movemask cv
  let m := V256.movemask mv
  let c := m + 2 * c
  let carry := carry + c
  let m := (m ^^^ carry) % 16
  V256.add64 s (V256.broadcastMask m)

/-- `bitShiftLeft256ymm(&data, count)` for `0 ≤ count ≤ 64` (lane shifts by `≥ 64` give 0, as `vpsllq/vpsrlq` do) -/
def shl256 (d : V256) (count : Nat) : V256 :=
  let ic := V256.map (· >>> (64 - count)) d               -- _mm256_srli_epi64(data, 64-count)
  let rot : V256 := ⟨ic.l3, ic.l0, ic.l1, ic.l2⟩           -- _mm256_permute4x64_epi64(.., 0x93)
  let ic : V256 := ⟨0#64, rot.l1, rot.l2, rot.l3⟩          -- _mm256_blend_epi32(zero, rotate, 0xFC)
  V256.or (V256.map (· <<< count) d) ic

structure Bpm256St where
  VP : V256
  VN : V256
  diff : Int
  k : Int

def bpm256Step (B : Nat → V256) (mask : V256) (s : Bpm256St) (c : Nat) : Bpm256St :=
  let NOTONE := V256.set1 V256.ones64
  let X := V256.or (B c) s.VN
  let xmm1 := V256.and X s.VP
  let xmm2 := add256 0 s.VP xmm1
  let xmm1 := V256.xor xmm2 s.VP
  let D0 := V256.or xmm1 X
  let HN := V256.and s.VP D0
  let xmm1 := V256.or s.VP D0
  let xmm2 := V256.andnot xmm1 NOTONE
  let HP := V256.or s.VN xmm2
  let X := shl256 HP 1
  let VN := V256.and X D0
  let xmm1 := shl256 HN 1
  let xmm2 := V256.or X D0
  let xmm2 := V256.andnot xmm2 NOTONE
  let VP := V256.or xmm1 xmm2
  let diff := s.diff + (1 - (if V256.testz HP mask then 1 else 0)) - (1 - (if V256.testz HN mask then 1 else 0))
  { VP := VP, VN := VN, diff := diff, k := if diff < s.k then diff else s.k }

/-- the table `f[13][8]` of 32-bit words loaded as four 64-bit lanes -/
def bpm256B (p : List Nat) (m : Nat) (c : Nat) : V256 :=
  let lane := fun (l : Nat) => bitsToBV 64 (fun i => decide (l * 64 + i < m) && (p.getD (l * 64 + i) 0 == c)) 64
  ⟨lane 0, lane 1, lane 2, lane 3⟩

/-- `f[p[i]][i/32] |= (1 << (i % 32))` (bpm.c:201) evaluates the signed shift `1 << 31`, undefined in C11, as soon
as the (clipped) pattern has 32 symbols; compilers produce the expected bit, which is what `bpm256B` models -/
def bpm256ShiftUB (p : List Nat) : Bool := decide (32 ≤ min p.length 255)

/-- `MASK`: 1 shifted left by 64 `(m-1)/64` times, then by `(m-1)%64`; for `m = 0` the C code shifts by `-1`,
which the lane shifts turn into 0 -/
def bpm256Mask (m : Nat) : V256 :=
  if m = 0 then V256.zero else
  let one : V256 := ⟨1#64, 0#64, 0#64, 0#64⟩
  let a := (List.range ((m - 1) / 64)).foldl (fun x _ => shl256 x 64) one
  shl256 a ((m - 1) % 64)

/-- `bpm_256(t,p,n,m)` after `set_broadcast_mask()`; `none`: symbol `≥ 13` -/
def bpm256 (t p : List Nat) : Option Nat :=
  let m := min p.length 255
  if (p.take m).any (fun c => decide (SIGMA ≤ c)) || t.any (fun c => decide (SIGMA ≤ c)) then none
  else
    let tab : Array V256 := ((List.range SIGMA).map fun c => bpm256B p m c).toArray
    let B : Nat → V256 := fun c => tab.getD c V256.zero
    let st0 : Bpm256St := { VP := V256.set1 V256.ones64, VN := V256.zero, diff := m, k := m }
    let st := t.foldl (bpm256Step B (bpm256Mask m)) st0
    some (toUInt8 st.k)

/-! ## `dyn_256` (byte arithmetic) -/

/-- rows `1..m-1` then the last row of a new column; `left = cur[j-1]`, `diag = prev[j-1]`;
the last row takes `prev[m]` without `+1` (it carries the running minimum) -/
def dyn256ColAux (c : Nat) : List Nat → Nat → Nat → List Nat → List Nat
  | [x], diag, left, [up] =>
    let v := (diag + if c = x then 0 else 1) % 256
    let v := min v up
    [min v (left + 1)]
  | x :: p, diag, left, up :: rest =>
    let v := (diag + if c = x then 0 else 1) % 256
    let v := min v (up + 1)
    let v := min v (left + 1)
    v :: dyn256ColAux c p up v rest
  | _, _, _, _ => []

/-- `dyn_256(t,p,n,m)`; `none`: `m = 0` and `n > 0` (reads `p[-1]`, `prev[-1]`) -/
def dyn256 (t p : List Nat) : Option Nat :=
  let m := min p.length 255
  if m = 0 then (if t.isEmpty then some 0 else none) else
  let p := p.take m
  let col0 := (List.range (m + 1)).map (· % 256)
  let col := t.foldl (fun col c => match col with
    | [] => []
    | d0 :: rest => d0 :: dyn256ColAux c p d0 d0 rest) col0
  some (col.getLastD 0)

end Kalign
