/-!
# Weave model  (weave_alignment.c, msa_op.c:533-585)

Rows are `List (Option α)` (`none` = gap character).  A sequence is kept by kalign as its
residues `s` plus a gap vector `g` with `g.length = s.length + 1` (`g[i]` gaps before residue `i`,
`g[len]` trailing gaps).  All functions are total; the C preconditions are stated as hypotheses of
the theorems in `Lemmas/Weave.lean`.
-/
namespace Kalign

variable {α : Type}

/-- `make_linear_sequence` (msa_op.c:561-585). -/
def makeLinear : List α → List Nat → List (Option α)
  | [], g :: _ => List.replicate g none
  | [], [] => []
  | x :: xs, g :: gs => List.replicate g none ++ some x :: makeLinear xs gs
  | x :: xs, [] => (x :: xs).map some

/-- insert `ng[k]` all-gap columns before old column `k`, and `ng[len]` at the end. -/
def insertCols : List (Option α) → List Nat → List (Option α)
  | [], n :: _ => List.replicate n none
  | [], [] => []
  | c :: cs, n :: ns => List.replicate n none ++ c :: insertCols cs ns
  | c :: cs, [] => c :: cs

/-- `update_gaps` (weave_alignment.c:117-133): the prefix walk that distributes a new gap vector
(indexed by the *columns* of the old row) over the old gap counts. -/
def updateGaps : List Nat → List Nat → List Nat
  | [], _ => []
  | g :: gs, ng => (g + (ng.take (g+1)).sum) :: updateGaps gs (ng.drop (g+1))

/-- remove gap characters -/
def degap (r : List (Option α)) : List α := r.filterMap id

/-- How `make_seq` (weave_alignment.c:62-115) reads one path code. -/
inductive Col where
  | both | gapA | gapB | skip
  deriving DecidableEq, Repr, Inhabited

/-- `if(!c) both  else if (c & 1) gap in a  else if (c & 2) gap in b` -/
def Col.ofCode (c : Nat) : Col :=
  if c = 0 then .both else if c % 2 = 1 then .gapA else if (c / 2) % 2 = 1 then .gapB else .skip

def bump : List Nat → List Nat
  | [] => [1]
  | g :: gs => (g + 1) :: gs

/-- gap vector for side a produced by `make_seq`: entry `k` = number of gap-in-a columns directly
before the `k`-th a-consuming column; last entry = trailing ones. -/
def gapVecA : List Col → List Nat
  | [] => [0]
  | .gapA :: cs => bump (gapVecA cs)
  | .both :: cs => 0 :: gapVecA cs
  | .gapB :: cs => 0 :: gapVecA cs
  | .skip :: cs => gapVecA cs

def gapVecB : List Col → List Nat
  | [] => [0]
  | .gapB :: cs => bump (gapVecB cs)
  | .both :: cs => 0 :: gapVecB cs
  | .gapA :: cs => 0 :: gapVecB cs
  | .skip :: cs => gapVecB cs

/-- number of columns that consume a column of side a / side b -/
def consA (cs : List Col) : Nat := (cs.filter (fun c => c == .both || c == .gapB)).length
def consB (cs : List Col) : Nat := (cs.filter (fun c => c == .both || c == .gapA)).length

/-- column-wise view of the same insertion: place the old row into the new columns -/
def weaveA : List Col → List (Option α) → List (Option α)
  | [], r => r
  | .gapA :: cs, r => none :: weaveA cs r
  | .skip :: cs, r => weaveA cs r
  | _ :: cs, x :: r => x :: weaveA cs r
  | _ :: cs, [] => weaveA cs []

def weaveB : List Col → List (Option α) → List (Option α)
  | [], r => r
  | .gapB :: cs, r => none :: weaveB cs r
  | .skip :: cs, r => weaveB cs r
  | _ :: cs, x :: r => x :: weaveB cs r
  | _ :: cs, [] => weaveB cs []

/-- a sequence as the library keeps it between merges -/
structure GSeq (α : Type) where
  res  : List α
  gaps : List Nat
  deriving Repr

def GSeq.row (s : GSeq α) : List (Option α) := makeLinear s.res s.gaps
def GSeq.WF (s : GSeq α) : Prop := s.gaps.length = s.res.length + 1

/-- `make_seq`: the same `gap_a` goes to every member of side a, the same `gap_b` to every member
of side b; the merged group is the concatenation (the C code reverses each list, see aln_run.c:262-271). -/
def mergeStep (codes : List Nat) (A B : List (GSeq α)) : List (GSeq α) :=
  let cs := codes.map Col.ofCode
  let ga := gapVecA cs
  let gb := gapVecB cs
  (A.reverse.map fun s => { s with gaps := updateGaps s.gaps ga }) ++
  (B.reverse.map fun s => { s with gaps := updateGaps s.gaps gb })

end Kalign
