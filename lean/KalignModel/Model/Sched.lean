/-!
# Fork-join task programs, their linearisations, and footprint-declared atoms

Generic model of the OpenMP constructs kalign uses:

* `#pragma omp task` … `#pragma omp task` … `#pragma omp taskwait` ; `rest`
  is `seq (par t₁ t₂ …) rest` — a task may run at any time between its creation and the
  `taskwait` of its parent, in any interleaving with its siblings (and their descendants);
* `#pragma omp parallel for` over independent iterations is an n-ary `par`;
* the build without OpenMP (all pragmas elided) executes `Prog.atoms` in order: the *serial elision*.

A *schedule* (any number of threads, any runtime decisions) of a program whose atoms are executed
atomically w.r.t. each other is a linearisation `Lin p l`.  (That non-conflicting atoms may be treated
as atomic is the usual data-race-free argument; the OpenMP runtime and the memory model are trusted
for it — see DESIGN §8.)

The state is a total map `Loc → Val`.  Every atom declares a footprint (read set, write set); its
action has to (a) leave everything outside the write set unchanged and (b) depend only on the values
at read ∪ write set (`Sem.WellFormed`).
-/
namespace Kalign.Sched
variable {A B Loc Val : Type}

inductive Prog (A : Type) where
  | skip : Prog A
  | atom : A → Prog A
  | seq : Prog A → Prog A → Prog A
  | par : Prog A → Prog A → Prog A
  deriving Repr, DecidableEq

/-- all interleavings of two lists -/
inductive Shuffle : List A → List A → List A → Prop where
  | nil : Shuffle [] [] []
  | left {a l1 l2 l} : Shuffle l1 l2 l → Shuffle (a :: l1) l2 (a :: l)
  | right {b l1 l2 l} : Shuffle l1 l2 l → Shuffle l1 (b :: l2) (b :: l)

/-- `Lin p l`: `l` is a linearisation (an admissible schedule) of `p` -/
inductive Lin : Prog A → List A → Prop where
  | skip : Lin .skip []
  | atom {a} : Lin (.atom a) [a]
  | seq {p q l1 l2} : Lin p l1 → Lin q l2 → Lin (.seq p q) (l1 ++ l2)
  | par {p q l1 l2 l} : Lin p l1 → Lin q l2 → Shuffle l1 l2 l → Lin (.par p q) l

/-- serial elision: the order in which the program runs when every pragma is ignored -/
def Prog.atoms : Prog A → List A
  | .skip => []
  | .atom a => [a]
  | .seq p q => p.atoms ++ q.atoms
  | .par p q => p.atoms ++ q.atoms

/-- reflexive sub-program relation -/
inductive Prog.Sub : Prog A → Prog A → Prop where
  | refl (p) : Prog.Sub p p
  | seqL {s p q} : Prog.Sub s p → Prog.Sub s (.seq p q)
  | seqR {s p q} : Prog.Sub s q → Prog.Sub s (.seq p q)
  | parL {s p q} : Prog.Sub s p → Prog.Sub s (.par p q)
  | parR {s p q} : Prog.Sub s q → Prog.Sub s (.par p q)

/-- substitution of programs for atoms (used to instantiate a directive skeleton) -/
def Prog.bind : Prog A → (A → Prog B) → Prog B
  | .skip, _ => .skip
  | .atom a, f => f a
  | .seq p q, f => .seq (p.bind f) (q.bind f)
  | .par p q, f => .par (p.bind f) (q.bind f)

/-- n-ary fork: right-nested `par` (no unit padding, so that shapes compare by `rfl`) -/
def parAll : List (Prog A) → Prog A
  | [] => .skip
  | [p] => p
  | p :: q :: ps => .par p (parAll (q :: ps))

/-- n-ary sequence -/
def seqAll : List (Prog A) → Prog A
  | [] => .skip
  | [p] => p
  | p :: q :: ps => .seq p (seqAll (q :: ps))

/-- run a schedule -/
def exec {σ : Type} (f : A → σ → σ) (l : List A) (s : σ) : σ := l.foldl (fun s a => f a s) s

/-- `a` occurs before `b` in `l` (for duplicate-free `l`: the unique `a` precedes the unique `b`) -/
def Before (l : List A) (a b : A) : Prop := List.Sublist [a, b] l

/-! ## footprints -/

structure Footprint (Loc : Type) where
  rd : Loc → Prop
  wr : Loc → Prop

def Footprint.touches (F : Footprint Loc) (x : Loc) : Prop := F.rd x ∨ F.wr x

/-- `W₁ ∩ (R₂ ∪ W₂) = ∅` and `W₂ ∩ (R₁ ∪ W₁) = ∅` (Bernstein's conditions) -/
def Footprint.Disjoint (F G : Footprint Loc) : Prop :=
  ∀ x, (F.wr x → ¬ G.touches x) ∧ (G.wr x → ¬ F.touches x)

/-- atoms with a declared footprint and an action on `Loc → Val` -/
structure Sem (A Loc Val : Type) where
  fp : A → Footprint Loc
  act : A → (Loc → Val) → (Loc → Val)

/-- (a) locations outside the write set are unchanged -/
def Sem.Frame (S : Sem A Loc Val) : Prop :=
  ∀ a s x, ¬ (S.fp a).wr x → S.act a s x = s x

/-- (b) what is written depends only on the values at read ∪ write set -/
def Sem.Local (S : Sem A Loc Val) : Prop :=
  ∀ a s s', (∀ x, (S.fp a).touches x → s x = s' x) → ∀ x, (S.fp a).wr x → S.act a s x = S.act a s' x

structure Sem.WellFormed (S : Sem A Loc Val) : Prop where
  frame : S.Frame
  loc : S.Local

/-- two atoms commute -/
def Indep {σ : Type} (f : A → σ → σ) (a b : A) : Prop := ∀ s, f a (f b s) = f b (f a s)

/-- semantic safety: atoms of different `par` branches commute -/
def SafeI {σ : Type} (f : A → σ → σ) : Prog A → Prop
  | .skip => True
  | .atom _ => True
  | .seq p q => SafeI f p ∧ SafeI f q
  | .par p q => SafeI f p ∧ SafeI f q ∧ ∀ a ∈ p.atoms, ∀ b ∈ q.atoms, Indep f a b

/-- footprint safety: in every `par`, atoms of different branches have `W ∩ (R ∪ W) = ∅` both ways -/
def Safe (fp : A → Footprint Loc) : Prog A → Prop
  | .skip => True
  | .atom _ => True
  | .seq p q => Safe fp p ∧ Safe fp q
  | .par p q => Safe fp p ∧ Safe fp q ∧ ∀ a ∈ p.atoms, ∀ b ∈ q.atoms, (fp a).Disjoint (fp b)

/-- A canonical way to build a well-formed semantics from *decidable* footprints and an arbitrary
"kernel" `g`: the kernel sees the state masked to the footprint and its result is used on the write set
only.  Every well-formed action arises this way (take `g := act`), so this loses no generality; it is
used for the executable non-vacuity examples. -/
def Sem.ofKernel [Inhabited Val] (rd wr : A → Loc → Bool) (g : A → (Loc → Val) → Loc → Val) : Sem A Loc Val where
  fp a := { rd := fun x => rd a x = true, wr := fun x => wr a x = true }
  act a s x := if wr a x then g a (fun y => if rd a y || wr a y then s y else default) x else s x

/-- point update of a state -/
def upd [DecidableEq Loc] (s : Loc → Val) (c : Loc) (v : Val) : Loc → Val := fun x => if x = c then v else s x

/-- `act` followed, for the atoms selected by `setter`, by a store of the constant `K` to `c`
(bpm.c `set_broadcast_mask`: every caller stores the same sixteen constants) -/
def withStore [DecidableEq Loc] (act : A → (Loc → Val) → (Loc → Val)) (setter : A → Bool) (c : Loc) (K : Val) :
    A → (Loc → Val) → (Loc → Val) :=
  fun a s => if setter a then upd (act a s) c K else act a s

end Kalign.Sched
