import KalignModel.Model.PipelineSoft
/-!
# The `< 100` guide-tree path on the software binary32, and the pipeline that uses it (`kalignRunSoft2`)

`Model/Dist.lean` (`distEntry`, `distMatrix`) and `Model/Tree.lean` (`upgma`) compute on `Float32` (and `lenTerm` on `Float`), which
the Lean kernel cannot evaluate.  This file repeats them on `SoftF32` (Model/SoftFloat.lean), statement for statement:

| `Float32` model                 | `SoftF32` twin                                                                                   |
|---------------------------------|--------------------------------------------------------------------------------------------------|
| `calcDistance`                  | `calcDistanceS`: `(float)(uint32_t)BPM(...)` = `SoftF32.ofNat`                                     |
| `lenTerm` (double, then float)  | `lenTermS`: `(float)min(10000,s) / (float)10000` in binary32 — the same value: a binary64 quotient of two integers below 2²⁴ rounded to binary32 equals the binary32 quotient (53 ≥ 2·24+2); checked for **every** `s` by the op `f32_lenterm` |
| `distEntry`, `distMatrix`       | `distEntryS`, `distMatrixS`                                                                      |
| `FMat`, `Scan`, `scanMin`       | `FMatS`, `ScanS`, `scanMinS` (`<` = `SoftF32.lt`, start value `FLT_MAX`)                           |
| `UpgmaSt`, `upgmaRound`, `upgma`| `UpgmaStS`, `upgmaRoundS`, `upgmaS` (`(a + b) * 0.5F + 0.001F`)                                    |
| `guideTasks`                    | `guideTasksS`                                                                                    |
| `Pipeline.smallTree`            | `Pipeline.smallTreeS`                                                                            |
| `Pipeline.buildTasks`           | `Pipeline.buildTasks2` (= `buildTasks` with `smallTreeS` as the `< 100` branch of `bisecting_kmeans`) |

Correspondence ops (Driver/TreeSoft.lean): `dist_matrix_soft`, `upgma_soft`, `tree_soft` (harness side = the `dist_matrix`, `upgma`,
`tree` ops, i.e. the real `d_estimation`, `upgma`, `build_tree_kmeans`), `f32_lenterm`, and `kalign_sys_soft2` for the whole program.

`coreCB`, `stagesCB`, `kalignRunWithCB` are `coreC`, `stagesC`, `kalignRunWithC` (Model/PipelineSoft.lean) with the task-table builder as
a parameter.  **`kalignRunSoft2`** = `kalignRunSoft` with `buildTasks2`: for fewer than 100 sequences no `Float32` value influences
the result (the anchor matrix `d_estimation(…,0)` is still computed, as in C, but only bisecting k-means reads it); for 100 sequences
and more the k-means splits (`bestSplit`: `sqrtf`, AVX2 lanes) stay on `Float32` and every part below 100 samples goes through
`smallTreeS`.
-/
namespace Kalign
open SoftF32

/-! ## distances -/

/-- `calc_distance(seq_a, seq_b, len_a, len_b)`: `(float)dist` of a `uint32_t` -/
def calcDistanceS (a b : List Nat) : Option SoftF32 :=
  (calcDistanceRaw a b).map SoftF32.ofNat

/-- `float add = MACRO_MIN(10000.0, s) / 10000.0` with `int s = (len_a + len_b) / 2` -/
def lenTermS (la lb : Nat) : SoftF32 :=
  SoftF32.div (SoftF32.ofNat (min 10000 ((la + lb) / 2))) (SoftF32.ofNat 10000)

/-- `dist = calc_distance(a,b); dist += add;` -/
def distEntryS (a b : List Nat) : Option SoftF32 :=
  (calcDistanceS a b).map fun d => SoftF32.add d (lenTermS a.length b.length)

/-- the matrix left behind by the `pair = 1` loop of `d_estimation` (see `distMatrix`) -/
def distMatrixS (seqs : List (List Nat)) : Option (List (List SoftF32)) :=
  let n := seqs.length
  (List.range n).mapM fun x => (List.range n).mapM fun y =>
    distEntryS (seqs.getD (max x y) []) (seqs.getD (min x y) [])

/-! ## UPGMA -/

/-- `0.5F` -/
def sHalf : SoftF32 := SoftF32.ofRaw 0x3f000000
/-- `0.001F` -/
def sMilli : SoftF32 := SoftF32.ofRaw 0x3a83126f

abbrev FMatS := Array (Array SoftF32)
def FMatS.get (dm : FMatS) (i j : Nat) : SoftF32 := (dm.getD i #[]).getD j SoftF32.zero
def FMatS.set (dm : FMatS) (i j : Nat) (v : SoftF32) : FMatS := dm.setIfInBounds i ((dm.getD i #[]).setIfInBounds j v)

structure ScanS where
  mx : SoftF32
  a : Nat
  b : Nat
  found : Bool

/-- the double loop looking for the first strict minimum among the active pairs `i < j` -/
def scanMinS (n : Nat) (dm : FMatS) (act : Array Bool) : ScanS :=
  (List.range (n - 1)).foldl (fun s i =>
    if act.getD i false then
      (List.range' (i + 1) (n - (i + 1))).foldl (fun s j =>
        if act.getD j false then
          if SoftF32.lt (dm.get i j) s.mx then { mx := dm.get i j, a := i, b := j, found := true } else s
        else s) s
    else s) { mx := SoftF32.fltMax, a := 0, b := 0, found := false }

structure UpgmaStS where
  dm : FMatS
  act : Array Bool
  tree : Array (Option GTree)
  last : Nat

/-- one round of the `while (cnode != numprofiles)` loop (see `upgmaRound`) -/
def upgmaRoundS (n : Nat) (s : UpgmaStS) : Option UpgmaStS :=
  let sc := scanMinS n s.dm s.act
  if !sc.found then none else
  match s.tree.getD sc.a none, s.tree.getD sc.b none with
  | some ta, some tb =>
    let a := sc.a
    let b := sc.b
    let tree := (s.tree.setIfInBounds a (some (.node ta tb))).setIfInBounds b none
    let act := s.act.setIfInBounds b false
    -- for (j = numseq; j--;) if (j != node_b) dm[a][j] = (dm[a][j] + dm[b][j])*0.5F + 0.001F;
    let dm := (List.range n).foldr (fun j dm =>
      if j ≠ b then dm.set a j (SoftF32.add (SoftF32.mul (SoftF32.add (dm.get a j) (dm.get b j)) sHalf) sMilli) else dm) s.dm
    let dm := dm.set a a SoftF32.zero
    -- for (j = numseq; j--;) dm[j][a] = dm[a][j];
    let dm := (List.range n).foldr (fun j dm => dm.set j a (dm.get a j)) dm
    some { dm := dm, act := act, tree := tree, last := a }
  | _, _ => none

/-- `upgma(dm, samples, numseq)` on `SoftF32` -/
def upgmaS (dm : List (List SoftF32)) (samples : List Nat) : Option GTree :=
  let n := samples.length
  if n = 0 then none else
  let st0 : UpgmaStS := { dm := (dm.map List.toArray).toArray, act := Array.replicate n true,
                          tree := (samples.map fun i => some (GTree.leaf i)).toArray, last := 0 }
  (iterOpt (upgmaRoundS n) (n - 1) st0).bind fun st => st.tree.getD st.last none

def guideTreeS (seqs : List (List Nat)) : Option GTree :=
  (distMatrixS seqs).bind fun dm => upgmaS dm (List.range seqs.length)

def guideTasksS (seqs : List (List Nat)) : Option (List Task) :=
  (guideTreeS seqs).map fun t => tasksOf t seqs.length

namespace Pipeline
open Kalign.Kmeans

/-- the `num_samples < 100` branch of `bisecting_kmeans` on `SoftF32` -/
def smallTreeS (codes : Array (List Nat)) (samples : List Nat) : Option Tree :=
  (distMatrixS (samples.map fun s => codes.getD s [])).bind fun dm =>
    (upgmaS dm samples).map GTree.toTree

/-- `buildTasks` with the `< 100` branch on `SoftF32` -/
def buildTasks2 (avx : Bool) (codes : Array (List Nat)) : Except PipeErr (Array (Nat × Nat × Nat)) :=
  let n := codes.size
  match pickAnchors (codes.toList.map List.length) with
  | none => .error .tree
  | some anchors =>
    match anchorMatrix codes anchors with
    | none => .error .tree
    | some dm =>
      match bisectO avx dm anchors.length (smallTreeS codes) n (List.range n) with
      | .error .fault => .error .tree
      | .error .fuel => .error .fuel
      | .ok t => .ok (Kmeans.sortTasks (treeTasks t n)).toArray

section
variable {α : Type} [Score α]

/-- `coreC` with the task-table builder as a parameter -/
def coreCB (build : Array (List Nat) → Except PipeErr (Array (Nat × Nat × Nat))) (pm : Option (AlnParam α))
    (c1 c2 : List (List Nat)) : Except PipeErr (List (List Nat)) :=
  let n := c2.length
  if n < 2 then .error .tooFew else
  match build c1.toArray with
  | .error e => .error e
  | .ok tasks =>
    match pm with
    | none => .error .param
    | some ap =>
      match recAlnC ap tasks c2.toArray n tasks.size (tasks.size - 1) with
      | .error e => .error e
      | .ok root =>
        match (List.range n).mapM (finalGaps root.group) with
        | none => .error .fault
        | some gaps => .ok gaps

def stagesCB (build : Array (List Nat) → Except PipeErr (Array (Nat × Nat × Nat))) (bio : Bio)
    (pm : Bio → Option (AlnParam α)) (V : List (Name × List Char)) : Except PipeErr (List GRow) :=
  match bio with
  | .unknown => .error .alphabet
  | _ =>
    let bytes := V.map fun x => bytesOf x.2
    match coreCB build (pm bio) (bytes.map (convertN (treeAlphabet bio))) (bytes.map (convertN (alnAlphabet bio))) with
    | .error e => .error e
    | .ok gaps => .ok (List.zipWith makeLinear (V.map (·.2)) gaps)

def kalignRunWithCB (det : List Nat → Bio) (build : Array (List Nat) → Except PipeErr (Array (Nat × Nat × Nat)))
    (pm : Bio → Option (AlnParam α)) (inp : List InSeq) : Except PipeErr (List (Name × GRow)) :=
  if hasBadByte inp then .error .badByte else
  let bio := bioOf det inp
  match canon inp with
  | none => .error .tooFew
  | some c =>
    match stagesCB build bio pm (view c) with
    | .error e => .error e
    | .ok rows => .ok (finish c rows)

end

/-- **`kalign_run` with all DP scores and the `upgma` guide tree in the software binary32** -/
def kalignRunSoft2 (inp : List InSeq) (type : Int) (gpo gpe tgpe : SoftF32) : Except PipeErr (List (Name × Row)) :=
  (kalignRunWithCB detectF (buildTasks2 true) (fun bio => paramOfTableS bio.code type gpo gpe tgpe) inp).map
    fun out => out.map fun x => (x.1, render x.2)

/-- `kalign(seq, len, numseq, …)` on `kalignRunSoft2` -/
def kalignArrSoft2 (seqs : List (List Char)) (type : Int) (gpo gpe tgpe : SoftF32) : Except PipeErr (List Row) :=
  (kalignRunSoft2 (seqs.zipIdx.map fun (s, i) => { name := arrName i, seq := s }) type gpo gpe tgpe).map
    fun out => out.map (·.2)

end Pipeline
end Kalign
