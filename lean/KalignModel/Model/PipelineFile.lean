import KalignModel.Model.Pipeline
import KalignModel.Model.IO.Read
import KalignModel.Model.IO.Write
/-!
# The file-to-file pipeline: `run_kalign()` (src/run_kalign.c)

```
for every input file:  kalign_read_input(file, &msa, quiet)      -- msa_io.c, accumulating into one msa (merge_msa)
kalign_run(msa, nthreads, type, gpo, gpe, tgpe)                   -- aln_wrap.c
kalign_write_msa(msa, outfile, format)                            -- msa_io.c
```

`kalignFile ver base date files type gpo gpe tgpe fmt` is that function on byte strings:

| C                                                              | model                                                        |
|----------------------------------------------------------------|--------------------------------------------------------------|
| the loop over `param->infile[]`; a file that does not exist    | `readFiles` = `IO.readInputs` on the files before the first missing one; a missing file = FAIL |
| `kalign_run(NULL, …)` (nothing was read from any input)        | `FileErr.noInput` (`ASSERT(msa != NULL)` of `kalign_essential_input_check`) |
| `kalign_essential_input_check`, `msa_sort_len_name`            | `canon` inside `Pipeline.kalignRunWith`                      |
| `if(msa->aligned != ALN_STATUS_UNALIGNED) dealign_msa(msa)`    | `dealignStep`                                                |
| `msa->biotype` (set by the readers: `detect_alphabet` on `letter_freq`, carried through `merge_msa`) | the detection function handed to `kalignRunWith` is the constant `bioOfCode m.biotype` |
| conversion, guide tree, `aln_param_init`, `create_msa_tree`, `finalise_alignment`, `msa_sort_rank` | `Pipeline.kalignRunWith` (`stagesG`, `core`, `finish`): nothing is duplicated here |
| `msa->L` after the run (5 for DNA, 23 for protein), `msa->alnlen` | `alnAlphabet bio`, length of the first row                  |
| `kalign_write_msa(msa, outfile, format)`                       | `IO.writeMsa ver date fmt` on `alignmentOf …` (`base` = `tlfilename(outfile)`) |

Differences between this path and the array path `kalign()` (`Pipeline.kalignArr`), all visible above:
names come from the files (any bytes without control characters; they decide the canonical order through `strcmp`);
residues are the `isalpha` bytes the readers kept (so no byte ≥ 128 and `hasBadByte` is always false);
the kind of the input is the reader's `biotype` — for several files it is carried from file to file and a tie of the
two likelihoods keeps the previous value — instead of one `detect_alphabet` over all residues;
the gap vectors the readers produced are cleared by `dealign_msa` unless the status is UNALIGNED (then they are zero
already).  The stage models start from zero gap vectors (`Pipeline.leafNode`); `runMsa` checks that this is what the msa
holds after `dealignStep` and reports `PipeErr.fault` otherwise (unreachable for an msa produced by the readers:
Lemmas/PipelineFile.lean `gapsClear_of_read`).

`msa->alnlen` is computed by `finalise_alignment` from the first sequence in canonical order; the model takes the
length of the first row in output order (all rows have one length: `Pipeline.kalignRunWith_integrity`).

`ver` is `KALIGN_PACKAGE_VERSION` (Clustal title line), `date` the `strftime` text of the MSF header.
-/
namespace Kalign.PipelineFile
open Kalign Kalign.IO Kalign.Pipeline

inductive FileErr where
  /-- a reader model reported undefined behaviour (no such case is known; kept for `ReadResult.fault`) -/
  | readFault
  /-- `kalign_read_input` returned FAIL: file missing, reader error (a sequence before its name, more MSF rows than
  names), no sequence in a recognised file, or "Input alignments have different alphabets" -/
  | read
  /-- every input was empty or of no recognised format: `kalign_run(NULL, …)` fails with "No alignment" -/
  | noInput
  /-- `kalign_run` failed (`PipeErr.tooFew`, `.alphabet`, `.param`, …) -/
  | run (e : PipeErr)
  /-- `parse_format_argument`: "Format … not recognized." (reached after the alignment has been computed) -/
  | format
  /-- a row shorter than `alnlen` would be read out of bounds by the writer (unreachable) -/
  | writeFault
  deriving Repr, DecidableEq, Inhabited

/-! ## reading -/

/-- the `kalign_read_input` loop of `run_kalign`; `none` = a path that does not exist ("File: … does not exist.").
The files in front of the first missing one are read first: a FAIL among them is the same FAIL. -/
def readFiles (files : List (Option Bytes)) : ReadResult :=
  match readInputs none ((files.takeWhile Option.isSome).filterMap id) with
  | .fault => .fault
  | .fail => .fail
  | r => if files.all Option.isSome then r else .fail

/-! ## `kalign_run` on an msa that came from the readers -/

/-- `ALN_BIOTYPE_PROTEIN = 0`, `ALN_BIOTYPE_DNA = 1`, `ALN_BIOTYPE_UNDEF = 2` -/
def bioOfCode : Nat → Bio
  | 0 => .protein
  | 1 => .dna
  | _ => .unknown

def byteChar (b : UInt8) : Char := Char.ofNat b.toNat
def charByte (c : Char) : UInt8 := UInt8.ofNat c.toNat

/-- `if(msa->aligned != ALN_STATUS_UNALIGNED) dealign_msa(msa)`: all `gaps[0..len]` zero, status UNALIGNED -/
def dealignStep (m : Msa) : Msa :=
  if m.aligned ≠ 1 then
    { m with seqs := m.seqs.map fun s => { s with gaps := List.replicate (s.res.length + 1) 0 }, aligned := 1 }
  else m

/-- every `seq->gaps[j]` is zero -/
def gapsClear (m : Msa) : Bool := m.seqs.all fun s => s.gaps.all (· == 0)

/-- a sequence of the msa as the stages see it: name and residue characters -/
def toInSeq (s : SeqRec) : InSeq := { name := s.name, seq := s.res.map byteChar }

/-- `kalign_run(msa, …)`: one `(name, gapped row)` per non-empty sequence, in input order.  The msa enters only through
`dealignStep m` (names, residues, `biotype`). -/
def runMsa (m : Msa) (type : Int) (gpo gpe tgpe : Float32) : Except PipeErr (List (Name × GRow)) :=
  let m' := dealignStep m
  if !gapsClear m' then .error .fault else
  kalignRunWith (fun _ => bioOfCode m'.biotype) true (m'.seqs.map toInSeq) type gpo gpe tgpe

/-! ## writing -/

/-- `seq->seq` after `make_linear_sequence`: `'-'` (45) for a gap -/
def renderB (r : GRow) : Bytes := r.map fun | some c => charByte c | none => 45

/-- the msa as `kalign_write_msa` sees it after a successful run -/
def alignmentOf (out : List (Name × GRow)) (biotype : Nat) (base : Bytes) : Alignment :=
  { rows := out.map fun x => ⟨x.1, renderB x.2⟩
    alnlen := (out.head?.map fun x => x.2.length).getD 0
    biotype := biotype
    L := alnAlphabet (bioOfCode biotype)
    basename := base }

def fmtBytes (fmt : Option String) : Option Bytes := fmt.map fun s => s.toUTF8.toList

/-! ## `run_kalign` -/

/-- **`run_kalign`**: `files` = the contents of `param->infile[]` in order (`none` = no such file), `fmt` =
`param->format` (`none` = no `--format` option), `type`/`gpo`/`gpe`/`tgpe` as handed to `kalign_run`;
`base` = base name of `param->outfile`.  The result is the content of the output file. -/
def kalignFile (ver base date : Bytes) (files : List (Option Bytes)) (type : Int) (gpo gpe tgpe : Float32)
    (fmt : Option String) : Except FileErr Bytes :=
  match readFiles files with
  | .fault => .error .readFault
  | .fail => .error .read
  | .null => .error .noInput
  | .ok m =>
    match runMsa m type gpo gpe tgpe with
    | .error e => .error (.run e)
    | .ok out =>
      match writeMsa ver date (fmtBytes fmt) (alignmentOf out (dealignStep m).biotype base) with
      | .fail => .error .format
      | .fault => .error .writeFault
      | .ok b => .ok b

/-- `check_msa_format_string` (src/parameters.c), run by `main` before `run_kalign`: the same words as
`parse_format_argument` (`Gen.formatCheckChain`); `true` = accepted -/
def checkFormatString (fmt : Option String) : Bool :=
  match fmtBytes fmt with
  | none => true
  | some f => Gen.formatCheckChain.any fun w => hasSub (ascii w) f

/-! ## masking of the run-dependent header fields (used by the correspondence op on both sides) -/

/-- index of the first occurrence of `needle` in `hay` at or after `from` -/
def findFrom (needle hay : Bytes) (start : Nat) : Option Nat :=
  (findSub needle (hay.drop start)).map fun suf => hay.length - suf.length

/-- third line of an MSF file: `" <base>  MSF: <n>  Type: <c>  <date>  Check: <k>  .."` becomes
`" FILE  MSF: <n>  Type: <c>  DATE  Check: <k>  .."`; first line of a Clustal file written by kalign:
`"Kalign (<version>) multiple sequence alignment"` becomes `"Kalign (VER) multiple sequence alignment"`.
Anything else is returned unchanged.  The C twin is `mask_out` in harness/ops_pipefile.c. -/
def maskOut (b : Bytes) : Bytes :=
  if (ascii "Kalign (").isPrefixOf b then
    match findFrom (ascii ") multiple sequence alignment") b 8 with
    | some p => if (b.take p).contains 10 then b else ascii "Kalign (VER" ++ b.drop p
    | none => b
  else if (ascii "!!AA_MULTIPLE_ALIGNMENT").isPrefixOf b || (ascii "!!NA_MULTIPLE_ALIGNMENT").isPrefixOf b then
    match findFrom [10] b 0 with
    | none => b
    | some n1 =>
      match findFrom [10] b (n1 + 1) with
      | none => b
      | some n2 =>
        let s := n2 + 1
        match findFrom [10] b s with
        | none => b
        | some e =>
          let line := (b.take e).drop s
          match findFrom (ascii "  MSF: ") line 0 with
          | none => b
          | some p1 =>
            match findFrom (ascii "  Type: ") line p1 with
            | none => b
            | some t =>
              match findFrom (ascii "  Check: ") line (t + 11) with
              | none => b
              | some c =>
                if line.head? != some 32 || p1 < 2 then b else
                b.take s ++ ascii " FILE" ++ (line.take (t + 11)).drop p1 ++ ascii "DATE" ++ line.drop c ++ b.drop e
  else b

end Kalign.PipelineFile
