import KalignModel.Props.PipelineFile
import KalignModel.Lemmas.C10Tree
/-!
# C10 at pipeline level — `recursive_aln` of the composed model never re-aligns a completed node

Props/PipelineFile.lean (e) proved the literal form of C10 (`finalRow`: rows looked up by input index) only under the
hypothesis `hnd` that the member indices of the final node are pairwise distinct.  Here that hypothesis is discharged for
the task tables the pipeline really uses:

* `buildTasks_tree` (Lemmas/C10Tree.lean): every table `Pipeline.buildTasks` returns is `sortTasks (treeTasks T n)` for a
  tree `T` whose leaf list is a permutation of `0 … n-1` (k-means: the two parts of a split are a permutation of the
  samples; UPGMA: the active slots hold trees over pairwise disjoint sets of samples);
* `nodeVal_members`: on such a table entry `c - n` is the task of the node numbered `c`, so the members of the node
  `recursive_aln` completes for a labelled sub-tree are exactly the leaves below it — every leaf is visited once.

Theorems:

* `recAln_members_nodup`, **`recAln_subalignment_finalRow`** — the full form of `recAln_subalignment_finalRow_partial`
  (no `hnd`; only hypothesis besides the successful calls: the table comes from `buildTasks`);
  `recAln_subalignment_finalRow_tree` — the same for the sorted table of any tree over `0 … n-1` (no binary32 value involved);
* `kalignRunWith_run`, `kalignRun_run` — a successful run of the pipeline model *is* a `Run`: canonical sequences, task
  table, parameters, root node, gap vectors, output;
* `kalignRun_root_members`, **`kalignRun_subalignment_finalRow`** — C10 for every node completed during a successful run;
  `kalignRun_finalRow_output` ties `finalRow` of the root to the rows the run returns (same gap pattern);
* (a) `recAln_members_partition`, `kalignRun_members_partition`; (b) `kalignRun_column_mates_stay`.
-/
namespace Kalign.PipelineFile
open Kalign Kalign.Pipeline

/-! ## the task table of `buildTasks`: every leaf is visited once -/

/-- the members of every node completed on a task table returned by `buildTasks` are pairwise distinct sequences -/
theorem recAln_members_nodup {avx : Bool} {codes1 : Array (List Nat)} {tasks : Array (Nat × Nat × Nat)}
    (hb : buildTasks avx codes1 = .ok tasks) (ap : AlnParam Float32) (codes : Array (List Nat))
    (hsz : codes.size = codes1.size) {fuel x : Nat} {N : Node}
    (h : nodeVal ap tasks codes codes.size fuel x = .ok N) : (N.group.map (·.idx)).Nodup :=
  nodeVal_idx_nodup hb ap codes hsz h

/-- **`recAln_subalignment_finalRow`** (the statement left open in Props/PipelineFile.lean): let `tasks` be a table returned
by `buildTasks` (for as many sequences as `codes` holds), `R` the value of node `x` and `V` a node completed during the
evaluation of `R`.  The rows of `V`'s members in `R` — looked up by input index — with the columns that are gaps in all
of them removed are exactly the rows `V` had when it was completed. -/
theorem recAln_subalignment_finalRow {avx : Bool} {codes1 : Array (List Nat)} {tasks : Array (Nat × Nat × Nat)}
    (hb : buildTasks avx codes1 = .ok tasks) (ap : AlnParam Float32) (codes : Array (List Nat))
    (hsz : codes.size = codes1.size) {fuel x fuel' x' : Nat} (hc : Calls tasks codes.size (fuel, x) (fuel', x'))
    (R V : Node) (hR : nodeVal ap tasks codes codes.size fuel x = .ok R)
    (hV : nodeVal ap tasks codes codes.size fuel' x' = .ok V) :
    dropAllGapCols (V.group.map fun m => (finalRow R.group m.idx).getD []) R.group.plen = V.group.map (·.seq.row) :=
  recAln_subalignment_finalRow_partial ap tasks codes codes.size hc R V hR hV (nodeVal_idx_nodup hb ap codes hsz hR)

/-- the same for the sorted task table of any guide tree whose leaves are `0 … n-1`, each once -/
theorem recAln_subalignment_finalRow_tree (ap : AlnParam Float32) (T : Tree) (codes : Array (List Nat))
    (hperm : T.leaves.Perm (List.range codes.size)) {fuel x fuel' x' : Nat}
    (hc : Calls (Kmeans.sortTasks (Kmeans.treeTasks T codes.size)).toArray codes.size (fuel, x) (fuel', x'))
    (R V : Node)
    (hR : nodeVal ap (Kmeans.sortTasks (Kmeans.treeTasks T codes.size)).toArray codes codes.size fuel x = .ok R)
    (hV : nodeVal ap (Kmeans.sortTasks (Kmeans.treeTasks T codes.size)).toArray codes codes.size fuel' x' = .ok V) :
    (V.group.map (·.idx)).Nodup ∧
    dropAllGapCols (V.group.map fun m => (finalRow R.group m.idx).getD []) R.group.plen = V.group.map (·.seq.row) :=
  ⟨nodeVal_idx_nodup_tree ap T codes hperm hV,
   recAln_subalignment_finalRow_partial ap _ codes codes.size hc R V hR hV (nodeVal_idx_nodup_tree ap T codes hperm hR)⟩

/-- **(a) `recAln_members_partition`**: every merge `recursive_aln` performs on a table of `buildTasks` joins two nodes with
disjoint member lists, and the member list of the result is the two lists one after the other (each reversed, as
`do_align` copies `sip[a]`, `sip[b]` back to front) — a permutation of their concatenation -/
theorem recAln_members_partition {avx : Bool} {codes1 : Array (List Nat)} {tasks : Array (Nat × Nat × Nat)}
    (hb : buildTasks avx codes1 = .ok tasks) (ap : AlnParam Float32) (codes : Array (List Nat))
    (hsz : codes.size = codes1.size) {fuel x a b c : Nat} {N : Node} (hx : x ≥ codes.size)
    (ht : tasks[x - codes.size]? = some (a, b, c))
    (h : nodeVal ap tasks codes codes.size (fuel + 1) x = .ok N) :
    ∃ A B, nodeVal ap tasks codes codes.size fuel a = .ok A ∧ nodeVal ap tasks codes codes.size fuel b = .ok B ∧
      (∀ i ∈ A.group.map (·.idx), i ∉ B.group.map (·.idx)) ∧
      N.group.map (·.idx) = (A.group.map (·.idx)).reverse ++ (B.group.map (·.idx)).reverse ∧
      (N.group.map (·.idx)).Perm (A.group.map (·.idx) ++ B.group.map (·.idx)) := by
  obtain ⟨A, B, hA, hB, hm⟩ := nodeVal_succ hx ht h
  have hidx := mergeNodes_idx hm
  have hnd := nodeVal_idx_nodup hb ap codes hsz h
  rw [hidx] at hnd
  refine ⟨A, B, hA, hB, ?_, hidx, ?_⟩
  · intro i hi hi'
    exact (List.nodup_append.1 hnd).2.2 i (List.mem_reverse.2 hi) i (List.mem_reverse.2 hi') rfl
  · rw [hidx]
    exact (List.reverse_perm _).append (List.reverse_perm _)

/-! ## a successful run of the pipeline -/

/-- internal codes of the canonical sequences in the guide-tree alphabet (`stagesG`) -/
def runTreeCodes (bio : Bio) (c : List RSeq) : List (List Nat) :=
  ((view c).map fun x => bytesOf x.2).map (convertN (treeAlphabet bio))
/-- internal codes of the canonical sequences in the alignment alphabet -/
def runAlnCodes (bio : Bio) (c : List RSeq) : List (List Nat) :=
  ((view c).map fun x => bytesOf x.2).map (convertN (alnAlphabet bio))

/-- everything a successful `kalignRunWith det avx inp type gpo gpe tgpe = .ok out` went through: the canonical sequences
`c`, the task table, the parameters, the root node `recursive_aln(n_tasks-1)` returned, the gap vectors read off it and
the output assembled from them -/
structure Run (det : List Nat → Bio) (avx : Bool) (inp : List InSeq) (type : Int) (gpo gpe tgpe : Float32)
    (out : List (Name × GRow)) (c : List RSeq) (tasks : Array (Nat × Nat × Nat)) (ap : AlnParam Float32) (root : Node)
    (gaps : List (List Nat)) : Prop where
  hcanon : canon inp = some c
  htwo : 2 ≤ c.length
  htasks : buildTasks avx (runTreeCodes (bioOf det inp) c).toArray = .ok tasks
  hparam : paramOfTable (bioOf det inp).code type gpo gpe tgpe = some ap
  hroot : recAln ap tasks (runAlnCodes (bioOf det inp) c).toArray (runAlnCodes (bioOf det inp) c).toArray.size tasks.size
    (tasks.size - 1) = .ok root
  hgaps : (List.range c.length).mapM (finalGaps root.group) = some gaps
  hout : out = finish c (List.zipWith makeLinear (c.map (·.seq)) gaps)

theorem size_runAlnCodes (bio : Bio) (c : List RSeq) : (runAlnCodes bio c).toArray.size = c.length := by
  simp [runAlnCodes, view]
theorem size_runTreeCodes (bio : Bio) (c : List RSeq) : (runTreeCodes bio c).toArray.size = c.length := by
  simp [runTreeCodes, view]

/-- **every successful run is a `Run`** -/
theorem kalignRunWith_run {det : List Nat → Bio} {avx : Bool} {inp : List InSeq} {type : Int} {gpo gpe tgpe : Float32}
    {out : List (Name × GRow)} (h : kalignRunWith det avx inp type gpo gpe tgpe = .ok out) :
    ∃ c tasks ap root gaps, Run det avx inp type gpo gpe tgpe out c tasks ap root gaps := by
  unfold kalignRunWith at h
  split at h
  · cases h
  · simp only at h
    split at h
    · cases h
    · rename_i c hcanon
      split at h
      · cases h
      · rename_i rows hst
        simp only [Except.ok.injEq] at h
        unfold stagesG at hst
        split at hst
        · cases hst
        · simp only at hst
          split at hst
          · cases hst
          · rename_i gaps hcore
            simp only [Except.ok.injEq] at hst
            change core avx (bioOf det inp) (runTreeCodes (bioOf det inp) c) (runAlnCodes (bioOf det inp) c)
              type gpo gpe tgpe = .ok gaps at hcore
            unfold core at hcore
            simp only at hcore
            split at hcore
            · cases hcore
            · rename_i hn
              split at hcore
              · cases hcore
              · rename_i tasks htasks
                split at hcore
                · cases hcore
                · rename_i ap hap
                  split at hcore
                  · cases hcore
                  · rename_i root hroot
                    split at hcore
                    · cases hcore
                    · rename_i gp hgp
                      simp only [Except.ok.injEq] at hcore
                      subst hcore
                      have hl : (runAlnCodes (bioOf det inp) c).length = c.length := by simp [runAlnCodes, view]
                      refine ⟨c, tasks, ap, root, gp, hcanon, by omega, htasks, hap, hroot, ?_, ?_⟩
                      · rw [← hl]; exact hgp
                      · rw [← h, ← hst]
                        simp only [view, List.map_map]
                        rfl

/-- the same for `kalign_run` as compiled (`detectF`, AVX2), whose rows carry `'-'` for the gap character -/
theorem kalignRun_run {inp : List InSeq} {type : Int} {gpo gpe tgpe : Float32} {out : List (Name × Row)}
    (h : kalignRun inp type gpo gpe tgpe = .ok out) :
    ∃ outG c tasks ap root gaps, Run detectF true inp type gpo gpe tgpe outG c tasks ap root gaps ∧
      out = outG.map fun x => (x.1, render x.2) := by
  unfold kalignRun kalignRunG at h
  cases hr : kalignRunWith detectF true inp type gpo gpe tgpe with
  | error e => rw [hr] at h; cases h
  | ok outG =>
    rw [hr] at h
    simp only [Except.map, Except.ok.injEq] at h
    obtain ⟨c, tasks, ap, root, gaps, r⟩ := kalignRunWith_run hr
    exact ⟨outG, c, tasks, ap, root, gaps, r, h.symm⟩

/-- `V` is a node completed during `recursive_aln(n_tasks-1)` — a leaf or the result of a merge: the value of a call in the
call tree below the root call -/
def Completed (ap : AlnParam Float32) (tasks : Array (Nat × Nat × Nat)) (codes : Array (List Nat)) (V : Node) : Prop :=
  ∃ fuel x, Calls tasks codes.size (tasks.size, tasks.size - 1 + codes.size) (fuel, x) ∧
    nodeVal ap tasks codes codes.size fuel x = .ok V

section run
variable {det : List Nat → Bio} {avx : Bool} {inp : List InSeq} {type : Int} {gpo gpe tgpe : Float32}
  {out : List (Name × GRow)} {c : List RSeq} {tasks : Array (Nat × Nat × Nat)} {ap : AlnParam Float32} {root : Node}
  {gaps : List (List Nat)}

theorem Run.sizes (_r : Run det avx inp type gpo gpe tgpe out c tasks ap root gaps) :
    (runAlnCodes (bioOf det inp) c).toArray.size = (runTreeCodes (bioOf det inp) c).toArray.size := by
  rw [size_runAlnCodes, size_runTreeCodes]

theorem Run.rootVal (r : Run det avx inp type gpo gpe tgpe out c tasks ap root gaps) :
    nodeVal ap tasks (runAlnCodes (bioOf det inp) c).toArray (runAlnCodes (bioOf det inp) c).toArray.size tasks.size
      (tasks.size - 1 + (runAlnCodes (bioOf det inp) c).toArray.size) = .ok root := by
  rw [← recAln_eq_nodeVal]; exact r.hroot

/-- the root is a completed node -/
theorem Run.root_completed (r : Run det avx inp type gpo gpe tgpe out c tasks ap root gaps) :
    Completed ap tasks (runAlnCodes (bioOf det inp) c).toArray root :=
  ⟨_, _, .refl _, r.rootVal⟩

/-- **the root of a successful run holds every canonical sequence exactly once** -/
theorem kalignRun_root_members (r : Run det avx inp type gpo gpe tgpe out c tasks ap root gaps) :
    (root.group.map (·.idx)).Perm (List.range c.length) := by
  have := root_members_perm r.htasks ap (runAlnCodes (bioOf det inp) c).toArray r.sizes
    (by rw [size_runAlnCodes]; exact r.htwo) r.hroot
  rwa [size_runAlnCodes] at this

/-- **`kalignRun_subalignment_finalRow`** (C10 for the composed pipeline): in every successful run, for every node `V`
completed during the progressive alignment (leaf, inner node or the root itself): the members of `V` are pairwise distinct
canonical sequences, and their rows in the final alignment — looked up by sequence index — with the columns that hold
gaps in all of them removed are exactly the rows of `V`'s alignment at the moment `V` was completed. -/
theorem kalignRun_subalignment_finalRow (r : Run det avx inp type gpo gpe tgpe out c tasks ap root gaps) {V : Node}
    (hV : Completed ap tasks (runAlnCodes (bioOf det inp) c).toArray V) :
    (V.group.map (·.idx)).Nodup ∧ (∀ m ∈ V.group, m.idx < c.length) ∧
    dropAllGapCols (V.group.map fun m => (finalRow root.group m.idx).getD []) root.group.plen =
      V.group.map (·.seq.row) := by
  obtain ⟨fuel, x, hc, hv⟩ := hV
  refine ⟨nodeVal_idx_nodup r.htasks ap _ r.sizes hv, ?_,
    recAln_subalignment_finalRow r.htasks ap _ r.sizes hc root V r.rootVal hv⟩
  intro m hm
  obtain ⟨f, w⟩ := recAln_members_woven ap tasks _ _ hc root V r.rootVal hv
  have hmem : (f m).idx ∈ root.group.map (·.idx) := List.mem_map_of_mem (w.mem m hm)
  rw [w.idx m hm, (kalignRun_root_members r).mem_iff, List.mem_range] at hmem
  exact hmem

/-- **(a) `kalignRun_members_partition`**: every merge of a successful run — task `x - n = (a, b, ·)` evaluated with budget
`fuel + 1` — joins two completed nodes whose member lists are disjoint, and the member list of the result is their union
(the two lists one after the other, each reversed) -/
theorem kalignRun_members_partition (r : Run det avx inp type gpo gpe tgpe out c tasks ap root gaps)
    {fuel x a b c' : Nat} {N : Node} (hx : x ≥ (runAlnCodes (bioOf det inp) c).toArray.size)
    (ht : tasks[x - (runAlnCodes (bioOf det inp) c).toArray.size]? = some (a, b, c'))
    (h : nodeVal ap tasks (runAlnCodes (bioOf det inp) c).toArray (runAlnCodes (bioOf det inp) c).toArray.size
      (fuel + 1) x = .ok N) :
    ∃ A B,
      nodeVal ap tasks (runAlnCodes (bioOf det inp) c).toArray (runAlnCodes (bioOf det inp) c).toArray.size fuel a = .ok A ∧
      nodeVal ap tasks (runAlnCodes (bioOf det inp) c).toArray (runAlnCodes (bioOf det inp) c).toArray.size fuel b = .ok B ∧
      (∀ i ∈ A.group.map (·.idx), i ∉ B.group.map (·.idx)) ∧
      N.group.map (·.idx) = (A.group.map (·.idx)).reverse ++ (B.group.map (·.idx)).reverse ∧
      (N.group.map (·.idx)).Perm (A.group.map (·.idx) ++ B.group.map (·.idx)) :=
  recAln_members_partition r.htasks ap _ r.sizes hx ht h

/-- the operands of a merge of a completed node are completed nodes -/
theorem Completed.children (_r : Run det avx inp type gpo gpe tgpe out c tasks ap root gaps)
    {fuel x a b c' : Nat} {N : Node}
    (hcl : Calls tasks (runAlnCodes (bioOf det inp) c).toArray.size
      (tasks.size, tasks.size - 1 + (runAlnCodes (bioOf det inp) c).toArray.size) (fuel + 1, x))
    (hx : x ≥ (runAlnCodes (bioOf det inp) c).toArray.size)
    (ht : tasks[x - (runAlnCodes (bioOf det inp) c).toArray.size]? = some (a, b, c'))
    (h : nodeVal ap tasks (runAlnCodes (bioOf det inp) c).toArray (runAlnCodes (bioOf det inp) c).toArray.size
      (fuel + 1) x = .ok N) :
    ∃ A B, Completed ap tasks (runAlnCodes (bioOf det inp) c).toArray A ∧
      Completed ap tasks (runAlnCodes (bioOf det inp) c).toArray B ∧
      mergeNodes .parallel ap A B (x - (runAlnCodes (bioOf det inp) c).toArray.size + 1 == tasks.size) = .ok N := by
  obtain ⟨A, B, hA, hB, hm⟩ := nodeVal_succ hx ht h
  have trans : ∀ {p q s : Nat × Nat}, Calls tasks (runAlnCodes (bioOf det inp) c).toArray.size p q →
      Calls tasks (runAlnCodes (bioOf det inp) c).toArray.size q s →
      Calls tasks (runAlnCodes (bioOf det inp) c).toArray.size p s := by
    intro p q s h1 h2
    induction h1 with
    | refl => exact h2
    | left h3 h4 _ ih => exact .left h3 h4 (ih h2)
    | right h3 h4 _ ih => exact .right h3 h4 (ih h2)
  exact ⟨A, B, ⟨fuel, a, trans hcl (.left hx ht (.refl _)), hA⟩, ⟨fuel, b, trans hcl (.right hx ht (.refl _)), hB⟩, hm⟩

/-- **(b) `kalignRun_column_mates_stay`** (second half of C10, `C10_column_mates_stay`, for the composed pipeline): two
residues of members of a completed node `V` that share column `k` when `V` completes share a column of the final
alignment -/
theorem kalignRun_column_mates_stay (r : Run det avx inp type gpo gpe tgpe out c tasks ap root gaps) {V : Node}
    (hV : Completed ap tasks (runAlnCodes (bioOf det inp) c).toArray V)
    (m₁ m₂ : Member Nat) (h₁ : m₁ ∈ V.group) (h₂ : m₂ ∈ V.group) (k x y : Nat)
    (hx : cell m₁.seq.row k = some x) (hy : cell m₂.seq.row k = some y) :
    ∃ k', cell ((finalRow root.group m₁.idx).getD []) k' = some x ∧
          cell ((finalRow root.group m₂.idx).getD []) k' = some y := by
  have h := (kalignRun_subalignment_finalRow r hV).2.2
  unfold dropAllGapCols at h
  rw [List.map_map] at h
  have h' := List.map_inj_left.1 h
  have e1 := h' m₁ h₁
  have e2 := h' m₂ h₂
  simp only [Function.comp_apply] at e1 e2
  rw [← e1] at hx
  rw [← e2] at hy
  obtain ⟨k1, hk1, hl1⟩ := cell_map_cell _ _ _ _ hx
  obtain ⟨k2, hk2, hl2⟩ := cell_map_cell _ _ _ _ hy
  rw [hl1] at hl2
  cases hl2
  exact ⟨k1, hk1, hk2⟩

/-- **the rows the run returns are the final rows `finalRow` speaks about**: for canonical sequence `i`, `finalRow` of the
root is the sequence's internal codes woven with the gap vector `gaps[i]`, and the returned row (before `msa_sort_rank`
puts the rows back into input order, `Run.hout`) is the sequence's letters woven with the same gap vector — same length,
gaps in the same columns -/
theorem kalignRun_finalRow_output (r : Run det avx inp type gpo gpe tgpe out c tasks ap root gaps) (i : Nat)
    (hi : i < c.length) :
    ∃ (s : RSeq) (g : List Nat), c[i]? = some s ∧ gaps[i]? = some g ∧
      finalRow root.group i = some (makeLinear (convertN (alnAlphabet (bioOf det inp)) (bytesOf s.seq)) g) ∧
      (List.zipWith makeLinear (c.map (·.seq)) gaps)[i]? = some (makeLinear s.seq g) ∧
      (makeLinear s.seq g).map Option.isSome =
        (makeLinear (convertN (alnAlphabet (bioOf det inp)) (bytesOf s.seq)) g).map Option.isSome := by
  obtain ⟨hl, hg⟩ := mapM_option_get _ _ _ r.hgaps
  rw [List.length_range] at hl
  have hig : i < gaps.length := by omega
  have hgi := hg i (by simpa using hi) hig
  simp only [List.getElem_range] at hgi
  have hok := recAln_ok ap tasks _ _ _ _ root r.hroot
  obtain ⟨m, hm, hidx, hgaps⟩ := finalGaps_some hgi
  have hfind : root.group.find? (·.idx = i) = some m := by
    have hnd : (root.group.map (·.idx)).Nodup := (kalignRun_root_members r).nodup_iff.2 List.nodup_range
    rw [← hidx]
    exact find?_idx_of_nodup root.group hnd m hm
  have hres := hok.1.res m hm
  simp only [hidx] at hres
  have hcode : (runAlnCodes (bioOf det inp) c).toArray.getD i [] =
      convertN (alnAlphabet (bioOf det inp)) (bytesOf c[i].seq) := by
    simp [runAlnCodes, view, hi]
  rw [hcode] at hres
  refine ⟨c[i], gaps[i], List.getElem?_eq_getElem hi, List.getElem?_eq_getElem hig, ?_, ?_, ?_⟩
  · simp only [finalRow, hfind, Option.map_some, GSeq.row, hres, hgaps]
  · simp [List.getElem?_zipWith, hi, hig]
  · exact isSome_makeLinear c[i].seq (convertN (alnAlphabet (bioOf det inp)) (bytesOf c[i].seq)) gaps[i]
      (by rw [length_convertN]; simp [bytesOf])

end run

/-! ## non-vacuity

`buildTasks … = .ok tasks` and `kalignRunWith … = .ok out` involve binary32 arithmetic, which the kernel cannot evaluate:
`#eval kalignRun [⟨"a".toUTF8.toList, "ACGT".toList⟩, ⟨"b".toUTF8.toList, "AGTT".toList⟩, ⟨"c".toUTF8.toList, "ACGTT".toList⟩] (-1) (-1) (-1) (-1)`
returns `.ok` with three rows, so by `kalignRun_run` that run is a `Run`.  The hypotheses that do not involve binary32
values are checked below on the task table of the three-sequence tree `((0 1) 2)`. -/

/-- the guide tree `((0 1) 2)` -/
def exTree : Tree := .node (.node (.leaf 0) (.leaf 1)) (.leaf 2)

/-- its sorted task table: node 3 = merge of the leaves 0 and 1, node 4 (the root) = merge of node 3 and leaf 2 -/
theorem exTable : (Kmeans.sortTasks (Kmeans.treeTasks exTree 3)).toArray = #[(0, 1, 3), (3, 2, 4)] := by
  have e : Kmeans.treeTasks exTree 3 = [(3, 2, 4), (0, 1, 3)] := by decide
  rw [e]
  unfold Kmeans.sortTasks
  rw [Kmeans.msortBy]
  simp [Kmeans.msortBy, Kmeans.mergeBy, Kmeans.taskTakeLeft]

/-- on that table the hypotheses of `recAln_subalignment_finalRow_tree` besides the two successful calls hold: the leaves
of the tree are `0, 1, 2`, and the evaluation of the root (node 4, budget 2) evaluates node 3 (budget 1); so for every
parameter set and every three sequences, *if* `recursive_aln` completes, the rows of sequences 0 and 1 in the result
restrict to the alignment node 3 had -/
example (ap : AlnParam Float32) (s0 s1 s2 : List Nat) (R V : Node)
    (hR : nodeVal ap #[(0, 1, 3), (3, 2, 4)] #[s0, s1, s2] 3 2 4 = .ok R)
    (hV : nodeVal ap #[(0, 1, 3), (3, 2, 4)] #[s0, s1, s2] 3 1 3 = .ok V) :
    (V.group.map (·.idx)).Nodup ∧
    dropAllGapCols (V.group.map fun m => (finalRow R.group m.idx).getD []) R.group.plen = V.group.map (·.seq.row) := by
  have hc : Calls #[(0, 1, 3), (3, 2, 4)] 3 (2, 4) (1, 3) :=
    .left (a := 3) (b := 2) (c := 4) (by decide) (by decide) (.refl _)
  rw [← exTable] at hR hV hc
  exact recAln_subalignment_finalRow_tree ap exTree #[s0, s1, s2] (show exTree.leaves.Perm (List.range 3) by decide)
    hc R V hR hV

/-- the leaves are completed nodes of that table (no arithmetic needed), with one member each -/
example (ap : AlnParam Float32) :
    nodeVal ap (Kmeans.sortTasks (Kmeans.treeTasks exTree 3)).toArray #[[0, 1], [1], [2, 2]] 3 1 2 =
      .ok (leafNode #[[0, 1], [1], [2, 2]] 2) := rfl

/-- a tree that repeats a leaf is *not* covered: its leaf list is not a permutation of `0 … n-1` — the hypothesis
`hperm` (for `buildTasks`: the theorem `buildTasks_tree`) is what excludes it -/
example : ¬ (Tree.node (.node (.leaf 0) (.leaf 0)) (.leaf 2)).leaves.Perm (List.range 3) := by decide

end Kalign.PipelineFile
