import KalignModel.Model.Param
import KalignModel.Props.C09Ref
/-!
# C09 — the scoring parameters used are exactly the ones the caller selected

All statements are about `alnParamInit` / `setAlnType` (Model/Param.lean), whose data part is regenerated from the
C sources on every run: the default table by executing `aln_param_init`, the override guards and the `--type` word
chain by parsing.  A change of the C code that breaks the property changes that data and one of the theorems below
stops checking.
-/
namespace Kalign
open Gen

/-- (b) an override replaces exactly its own field — for the guard list of the *current* source, any value
carrier and any values -/
theorem C09_override_exact {V : Type} (nonneg : V → Bool) (p : PSet V) (gpo gpe tgpe : V) :
    let q := applyGuards nonneg Gen.overrideGuardsT p gpo gpe tgpe
    q.gpo = (if nonneg gpo then gpo else p.gpo) ∧
    q.gpe = (if nonneg gpe then gpe else p.gpe) ∧
    q.tgpe = (if nonneg tgpe then tgpe else p.tgpe) ∧
    q.mat = p.mat := by
  simp only [applyGuards, Gen.overrideGuardsT, List.foldl, argVal]
  cases nonneg gpo <;> cases nonneg gpe <;> cases nonneg tgpe <;> simp [PSet.set]

/-- every accepted (biotype, type) has non-negative defaults, so "negative = not given" loses no default -/
theorem C09_defaults_nonneg : ∀ r ∈ Gen.paramTable, r.ok = true → 0 ≤ r.gpo ∧ 0 ≤ r.gpe ∧ 0 ≤ r.tgpe := by
  decide

/-- (c) passing a type's defaults explicitly changes nothing -/
theorem alnParamInitCore_eq (bt : Nat) (t : Int) (g e x : Int) :
    alnParamInitCore bt t g e x =
      match lookupRow bt t with
      | some r => if r.ok then some
          { gpo := if 0 ≤ g then g else r.gpo, gpe := if 0 ≤ e then e else r.gpe,
            tgpe := if 0 ≤ x then x else r.tgpe, mat := r.mat }
        else none
      | none => none := by
  unfold alnParamInitCore
  cases hr : lookupRow bt t with
  | none => rfl
  | some r =>
    by_cases hok : r.ok = true
    case neg => simp [hok]
    case pos =>
      simp only [hok, if_true]
      have := C09_override_exact (fun v : Int => decide (0 ≤ v))
        { gpo := r.gpo, gpe := r.gpe, tgpe := r.tgpe, mat := r.mat } g e x
      simp only [decide_eq_true_eq] at this
      obtain ⟨h1, h2, h3, h4⟩ := this
      congr 1
      cases hq : applyGuards (fun v : Int => decide (0 ≤ v)) Gen.overrideGuardsT
        { gpo := r.gpo, gpe := r.gpe, tgpe := r.tgpe, mat := r.mat } g e x with
      | mk a b c d =>
        rw [hq] at h1 h2 h3 h4
        simp only at h1 h2 h3 h4
        simp [h1, h2, h3, h4]

theorem lookupRow_mem {bt : Nat} {t : Int} {r : Gen.ParamRow} (h : lookupRow bt t = some r) :
    r ∈ Gen.paramTable := by
  unfold lookupRow at h
  exact List.mem_of_find?_eq_some h

/-- the bound `aln_param_init` puts on the penalties in use (x1000); regenerated from the source -/
def capK : Int := 1000000 * 1000

theorem capOK_iff (p : PSet Int) :
    capOK (fun v c => decide (v ≤ (c : Int) * 1000)) p = true ↔ p.gpo ≤ capK ∧ p.gpe ≤ capK ∧ p.tgpe ≤ capK := by
  simp [capOK, Gen.penaltyCaps, capK, and_assoc]

/-- every default passes the bound, so the bound only ever rejects explicit overrides -/
theorem C09_defaults_within_cap : ∀ r ∈ Gen.paramTable, r.ok = true → r.gpo ≤ capK ∧ r.gpe ≤ capK ∧ r.tgpe ≤ capK := by
  decide

/-- closed form of the whole function -/
theorem alnParamInit_eq (bt : Nat) (t : Int) (g e x : Int) :
    alnParamInit bt t g e x =
      match lookupRow bt t with
      | some r => if r.ok then
          (let p : PSet Int := { gpo := if 0 ≤ g then g else r.gpo, gpe := if 0 ≤ e then e else r.gpe,
                                 tgpe := if 0 ≤ x then x else r.tgpe, mat := r.mat }
           if p.gpo ≤ capK ∧ p.gpe ≤ capK ∧ p.tgpe ≤ capK then some p else none)
        else none
      | none => none := by
  unfold alnParamInit
  rw [alnParamInitCore_eq]
  cases hr : lookupRow bt t with
  | none => rfl
  | some r =>
    by_cases hok : r.ok = true
    case neg => simp [hok]
    case pos =>
      simp only [hok, if_true, Option.bind_some]
      by_cases hc : capOK (fun v c => decide (v ≤ (c : Int) * 1000))
          ({ gpo := if 0 ≤ g then g else r.gpo, gpe := if 0 ≤ e then e else r.gpe,
             tgpe := if 0 ≤ x then x else r.tgpe, mat := r.mat } : PSet Int) = true
      · have := (capOK_iff _).1 hc
        simp [hc, this]
      · have hn : ¬ _ := fun h => hc ((capOK_iff _).2 h)
        simp only [Bool.not_eq_true] at hc
        simp [hc, hn]

theorem C09_explicit_default_noop (bt : Nat) (t : Int) (p : PSet Int)
    (h : alnParamInit bt t (-1) (-1) (-1) = some p) :
    alnParamInit bt t p.gpo p.gpe p.tgpe = some p := by
  rw [alnParamInit_eq] at h ⊢
  cases hr : lookupRow bt t with
  | none => simp [hr] at h
  | some r =>
    simp only [hr] at h ⊢
    by_cases hok : r.ok = true
    case neg => simp [hok] at h
    case pos =>
      have hnn := C09_defaults_nonneg r (lookupRow_mem hr) hok
      have hcap := C09_defaults_within_cap r (lookupRow_mem hr) hok
      have hp : p = { gpo := r.gpo, gpe := r.gpe, tgpe := r.tgpe, mat := r.mat } := by
        simp [hok, hcap] at h
        exact h.symm
      subst hp
      simp [hok, hnn, hcap]

/-- (b') each of the three can be set on its own, end to end (any value between 0 and the bound) -/
theorem C09_single_override (bt : Nat) (t : Int) (p : PSet Int) (v : Int) (hv : 0 ≤ v) (hc : v ≤ capK)
    (h : alnParamInit bt t (-1) (-1) (-1) = some p) :
    alnParamInit bt t v (-1) (-1) = some { p with gpo := v } ∧
    alnParamInit bt t (-1) v (-1) = some { p with gpe := v } ∧
    alnParamInit bt t (-1) (-1) v = some { p with tgpe := v } := by
  rw [alnParamInit_eq] at h
  simp only [alnParamInit_eq]
  cases hr : lookupRow bt t with
  | none => simp [hr] at h
  | some r =>
    simp only [hr] at h ⊢
    by_cases hok : r.ok = true
    case neg => simp [hok] at h
    case pos =>
      have hcap := C09_defaults_within_cap r (lookupRow_mem hr) hok
      have hp : p = { gpo := r.gpo, gpe := r.gpe, tgpe := r.tgpe, mat := r.mat } := by
        simp [hok, hcap] at h
        exact h.symm
      subst hp
      simp [hok, hv, hc, hcap]

/-- acceptance does not depend on overrides that respect the bound -/
theorem C09_accept_indep (bt : Nat) (t : Int) (g e x : Int) (hg : g ≤ capK) (he : e ≤ capK) (hx : x ≤ capK) :
    (alnParamInit bt t g e x).isSome = (alnParamInit bt t (-1) (-1) (-1)).isSome := by
  simp only [alnParamInit_eq]
  cases hr : lookupRow bt t with
  | none => rfl
  | some r =>
    by_cases hok : r.ok = true
    case neg => simp [hok]
    case pos =>
      have hcap := C09_defaults_within_cap r (lookupRow_mem hr) hok
      have h1 : (if 0 ≤ g then g else r.gpo) ≤ capK := by split <;> simp_all
      have h2 : (if 0 ≤ e then e else r.gpe) ≤ capK := by split <;> simp_all
      have h3 : (if 0 ≤ x then x else r.tgpe) ≤ capK := by split <;> simp_all
      simp [hok, hcap, h1, h2, h3]

/-- an override above the bound is rejected (the overflow guard of the DP's -FLT_MAX sentinel) -/
theorem C09_over_cap_rejected (bt : Nat) (t : Int) (g e x : Int) (h : capK < g ∨ capK < e ∨ capK < x) :
    alnParamInit bt t g e x = none := by
  rw [alnParamInit_eq]
  cases hr : lookupRow bt t with
  | none => rfl
  | some r =>
    by_cases hok : r.ok = true
    case neg => simp [hok]
    case pos =>
      have hk : (0 : Int) ≤ capK := by decide
      rcases h with h | h | h
      · have : 0 ≤ g := by omega
        simp [hok, this]; intro; omega
      · have : 0 ≤ e := by omega
        simp [hok, this]; intro _ _; omega
      · have : 0 ≤ x := by omega
        simp [hok, this]; intro _ _; omega

def matOf (bt : Nat) (t : Int) : Option (List (List Int)) :=
  (alnParamInit bt t (-1) (-1) (-1)).bind fun p => Gen.matrices[p.mat]?

def pensOf (bt : Nat) (t : Int) : Option (Int × Int × Int) :=
  (alnParamInit bt t (-1) (-1) (-1)).map fun p => (p.gpo, p.gpe, p.tgpe)

/-- the nucleotide alphabet has five internal symbols (A, C, G, T/U and N, which stands for every ambiguity code): the documented
5 match / -4 mismatch holds for every pair of them, N included (N against N is a match, N against a base a mismatch) -/
def nucMatrixOK (m : List (List Int)) : Bool :=
  (List.range 5).all fun i => (List.range 5).all fun j =>
    (m.getD i []).getD j 0 == (if i == j then 5000 else -4000)

/-- (a) README: `dna` = match 5, mismatch -4, gap open 8, extension 6, terminal 0 -/
theorem C09_defaults_dna :
    pensOf 1 Gen.KALIGN_TYPE_DNA = some (8000, 6000, 0) ∧
    (matOf 1 Gen.KALIGN_TYPE_DNA).map nucMatrixOK = some true := by decide

/-- (a) README: `internal` = same as dna but terminal gaps 8 -/
theorem C09_defaults_internal :
    pensOf 1 Gen.KALIGN_TYPE_DNA_INTERNAL = some (8000, 6000, 8000) ∧
    matOf 1 Gen.KALIGN_TYPE_DNA_INTERNAL = matOf 1 Gen.KALIGN_TYPE_DNA := by decide

/-- (a) README: `protein` uses CorBLOSUM66_13plus and is the default for protein input;
`divergent` uses Gonnet 250 -/
theorem C09_defaults_protein :
    matOf 0 Gen.KALIGN_TYPE_PROTEIN = some (Ref.corBlosum66_13plus.map (·.map (· * 1000))) ∧
    matOf 0 Gen.KALIGN_TYPE_UNDEFINED = matOf 0 Gen.KALIGN_TYPE_PROTEIN ∧
    pensOf 0 Gen.KALIGN_TYPE_UNDEFINED = pensOf 0 Gen.KALIGN_TYPE_PROTEIN := by decide

theorem C09_defaults_divergent :
    matOf 0 Gen.KALIGN_TYPE_PROTEIN_DIVERGENT = some (Ref.gonnet250.map (·.map (· * 1000))) := by decide

/-- (a) `rna` is the default for nucleotide input and is a parameter set of its own -/
theorem C09_defaults_rna :
    pensOf 1 Gen.KALIGN_TYPE_UNDEFINED = pensOf 1 Gen.KALIGN_TYPE_RNA ∧
    matOf 1 Gen.KALIGN_TYPE_UNDEFINED = matOf 1 Gen.KALIGN_TYPE_RNA ∧
    matOf 1 Gen.KALIGN_TYPE_RNA ≠ matOf 1 Gen.KALIGN_TYPE_DNA ∧ (pensOf 1 Gen.KALIGN_TYPE_RNA).isSome := by decide

/-- every substitution matrix in use is symmetric -/
theorem C09_matrices_symmetric : ∀ m ∈ Gen.matrices, ∀ i ∈ List.range 23, ∀ j ∈ List.range 23,
    (m.getD i []).getD j 0 = (m.getD j []).getD i 0 := by decide

/-- (d) every documented `--type` word selects the type of that name; no option = undefined -/
theorem C09_type_words :
    setAlnType (some [100, 110, 97]) = some Gen.KALIGN_TYPE_DNA ∧                                   -- "dna"
    setAlnType (some [114, 110, 97]) = some Gen.KALIGN_TYPE_RNA ∧                                   -- "rna"
    setAlnType (some [105, 110, 116, 101, 114, 110, 97, 108]) = some Gen.KALIGN_TYPE_DNA_INTERNAL ∧ -- "internal"
    setAlnType (some [112, 114, 111, 116, 101, 105, 110]) = some Gen.KALIGN_TYPE_PROTEIN ∧          -- "protein"
    setAlnType (some [100, 105, 118, 101, 114, 103, 101, 110, 116]) = some Gen.KALIGN_TYPE_PROTEIN_DIVERGENT ∧ -- "divergent"
    setAlnType none = some Gen.KALIGN_TYPE_UNDEFINED ∧
    setAlnType (some [102, 111, 111]) = none := by decide

/-- (e) a type that does not fit the detected kind of sequence is rejected; fitting ones are accepted -/
theorem C09_mismatch_rejected :
    (∀ t ∈ [Gen.KALIGN_TYPE_PROTEIN, Gen.KALIGN_TYPE_PROTEIN_DIVERGENT], (alnParamInit 1 t (-1) (-1) (-1)).isNone) ∧
    (∀ t ∈ [Gen.KALIGN_TYPE_DNA, Gen.KALIGN_TYPE_DNA_INTERNAL, Gen.KALIGN_TYPE_RNA], (alnParamInit 0 t (-1) (-1) (-1)).isNone) ∧
    (∀ t ∈ [Gen.KALIGN_TYPE_DNA, Gen.KALIGN_TYPE_DNA_INTERNAL, Gen.KALIGN_TYPE_RNA, Gen.KALIGN_TYPE_UNDEFINED], (alnParamInit 1 t (-1) (-1) (-1)).isSome) ∧
    (∀ t ∈ [Gen.KALIGN_TYPE_PROTEIN, Gen.KALIGN_TYPE_PROTEIN_DIVERGENT, Gen.KALIGN_TYPE_UNDEFINED], (alnParamInit 0 t (-1) (-1) (-1)).isSome) ∧
    (∀ t, (alnParamInit 2 t (-1) (-1) (-1)).isNone) := by
  refine ⟨by decide, by decide, by decide, by decide, ?_⟩
  intro t
  have h6 : ∀ u ∈ [(0 : Int), 1, 2, 3, 4, 5], (alnParamInit 2 u (-1) (-1) (-1)).isNone := by decide
  have hn : alnParamInit 2 t (-1) (-1) (-1) = alnParamInit 2 (normType t) (-1) (-1) (-1) := by
    have : normType (normType t) = normType t := by
      unfold normType; split <;> simp_all
    simp only [alnParamInit, alnParamInitCore, lookupRow, this]
  rw [hn]
  apply h6
  unfold normType
  split
  · have : t = 0 ∨ t = 1 ∨ t = 2 ∨ t = 3 ∨ t = 4 := by omega
    rcases this with h | h | h | h | h <;> simp [h]
  · simp

/-- all out-of-range type values executed by the translator take the same (`default:`) branch -/
theorem C09_default_branch_uniform : ∀ bt ∈ [0, 1, 2], ∀ t ∈ [(-1 : Int), 6, 99],
    (Gen.paramTable.find? fun r => r.biotype == bt && r.type == t).map (fun r => (r.ok, r.gpo, r.gpe, r.tgpe, r.mat)) =
    (Gen.paramTable.find? fun r => r.biotype == bt && r.type == 5).map (fun r => (r.ok, r.gpo, r.gpe, r.tgpe, r.mat)) := by
  decide

end Kalign
