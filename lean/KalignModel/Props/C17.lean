import KalignModel.Lemmas.CmpGap
import KalignModel.Lemmas.CmpBound
/-!
# C17 — the comparison score is exact

"kalign_msa_compare returns 100 times the fraction of (residue, partner-or-gap) relations of the
reference alignment that the test alignment reproduces, counted over all sequence pairs: it is 100
when the two alignments are the same up to row order and all-gap columns, it always lies between 0
and 100, and it does not depend on the order of the rows in either file."
Quantifier: all pairs of alignments of the same uniquely named sequences.

Model (Model/Cmp.lean): `comparePair` (tables + six counters of `compare_pair`), `msaCompare`
(`kalign_check_msa(·,1)`, `kalign_sort_msa`, the `i<j` loop), `scoreQ` (exact fraction), `scoreF32`
(the `double` → `float` value the code returns; tied to the code by the correspondence runs only).
Specification: `partners`, `relPair`, `rel`, `scoreSpec` (column-wise, no tables).

Hypotheses and what they stand for:
* `NamesOK R` — "uniquely named": the names are pairwise distinct (the code compares full names
  with `strcmp`) and are C strings (no NUL byte inside);
* `(namedSeqs R).Perm (namedSeqs T)` — the two alignments hold the same named sequences;
* `∀ x ∈ R, x.row.length = wR` — an alignment is rectangular (`alnlen`).
The score is the pair `scoreQ c = (100·identical, total)`; `total = 0` (fewer than two rows, or no
residue at all) is where the code computes `0.0/0.0`.
-/
namespace Kalign
open List

/-- **the six counters of `compare_pair` are the cardinalities of the specification's relations
restricted to that pair of rows** (rows named `s ≠ t`; `a1 a2` from the reference, `b1 b2` from the
test alignment, holding the same two sequences). -/
theorem compare_pair_counts (s t : Name) (hst : s ≠ t) (a1 a2 b1 b2 : Row)
    (hA : a1.length = a2.length) (hB : b1.length = b2.length)
    (h1 : residuesOf b1 = residuesOf a1) (h2 : residuesOf b2 = residuesOf a2) :
    comparePair a1 a2 b1 b2 = some
      (let RA := relPair ⟨s, a1⟩ ⟨t, a2⟩ ++ relPair ⟨t, a2⟩ ⟨s, a1⟩
       let RB := relPair ⟨s, b1⟩ ⟨t, b2⟩ ++ relPair ⟨t, b2⟩ ⟨s, b1⟩
       { refAligned := (RA.filter (·.isAligned)).length
         refGap := (RA.filter (·.isGap)).length
         identAligned := (RA.filter fun e => decide (e ∈ RB) && e.isAligned).length
         identGap := (RA.filter fun e => decide (e ∈ RB) && e.isGap).length
         testAligned := (RB.filter (·.isAligned)).length
         testGap := (RB.filter (·.isGap)).length }) :=
  comparePair_spec s t hst a1 a2 b1 b2 hA hB
    (by rw [nres_eq_length_residuesOf, nres_eq_length_residuesOf, h1])
    (by rw [nres_eq_length_residuesOf, nres_eq_length_residuesOf, h2])

/-- exchanging the roles of the two rows changes no counter -/
theorem compare_pair_symm (a1 a2 b1 b2 : Row) : comparePair a2 a1 b2 b1 = comparePair a1 a2 b1 b2 :=
  comparePair_symm a1 a2 b1 b2

/-- **the score is the specification**: `100·|rel R ∩ rel T| / |rel R|`, numerator and
denominator separately. -/
theorem score_eq_spec (R T : List NRow) (wR wT : Nat) (hok : NamesOK R)
    (hsame : (namedSeqs R).Perm (namedSeqs T))
    (hrR : ∀ x ∈ R, x.row.length = wR) (hrT : ∀ x ∈ T, x.row.length = wT) :
    ∃ c, msaCompare R T = .ok c ∧ scoreQ c = scoreSpec R T := by
  obtain ⟨Z, _, _, _, h1, h2⟩ := msaCompare_spec R T wR wT hok hsame hrR hrT
  exact ⟨_, h1, h2⟩

/-- **0 ≤ score ≤ 100** on the exact fraction `num/den` (`0 ≤ num` holds in `Nat`;
`num ≤ 100·den`). -/
theorem score_bounds (R T : List NRow) (wR wT : Nat) (hok : NamesOK R)
    (hsame : (namedSeqs R).Perm (namedSeqs T))
    (hrR : ∀ x ∈ R, x.row.length = wR) (hrT : ∀ x ∈ T, x.row.length = wT) :
    ∃ c, msaCompare R T = .ok c ∧ 0 ≤ (scoreQ c).1 ∧ (scoreQ c).1 ≤ 100 * (scoreQ c).2 := by
  obtain ⟨c, h1, h2⟩ := score_eq_spec R T wR wT hok hsame hrR hrT
  refine ⟨c, h1, Nat.zero_le _, ?_⟩
  rw [h2]
  unfold scoreSpec
  exact Nat.mul_le_mul_left _ (length_filter_le _ _)

/-- the upper bound needs no hypothesis at all: whenever the model of `kalign_msa_compare` returns
a score (no failure, no out-of-bounds/uninitialised read), identical ≤ total -/
theorem score_bounds_unconditional (R T : List NRow) (c : CmpStats) (h : msaCompare R T = .ok c) :
    0 ≤ (scoreQ c).1 ∧ (scoreQ c).1 ≤ 100 * (scoreQ c).2 :=
  ⟨Nat.zero_le _, msaCompare_bound R T c h⟩

/-- **100 when the alignments are the same up to row order and all-gap columns**: numerator =
100 · denominator. -/
theorem score_100_of_same_mod_allgap (R T : List NRow) (wR wT : Nat) (hok : NamesOK R)
    (hrR : ∀ x ∈ R, x.row.length = wR) (hrT : ∀ x ∈ T, x.row.length = wT)
    (h : SameModAllGap R T) :
    ∃ c, msaCompare R T = .ok c ∧ (scoreQ c).1 = 100 * (scoreQ c).2 := by
  have hsame := namedSeqs_perm_of_sameModAllGap h
  obtain ⟨Z, z1, z2, hZ, h1, _⟩ := msaCompare_spec R T wR wT hok hsame hrR hrT
  refine ⟨_, h1, ?_⟩
  have := identTot_eq_refTot_of_sameModAllGap R T wR wT hok h Z z1 z2 hZ
  unfold identTot refTot at this
  unfold scoreQ
  simp only
  rw [this]

/-- **the score does not depend on the order of the rows in either alignment** (nothing else is
assumed about the two alignments: equal results include `fail` and `fault`). -/
theorem row_order_invariant {R R' T T' : List NRow} (hR : R'.Perm R) (hT : T'.Perm T)
    (hokR : NamesOK R) (hokT : NamesOK T) : msaCompare R' T' = msaCompare R T := by
  unfold msaCompare
  rw [checkMsaStrict_perm hR.symm hokR, checkMsaStrict_perm hT.symm hokT,
    sortMsa_perm hR.symm hokR, sortMsa_perm hT.symm hokT]

/-- the value the C function returns is a function of the exact fraction, hence inherits
`row_order_invariant` -/
theorem scoreF32_row_order_invariant {R R' T T' : List NRow} (hR : R'.Perm R) (hT : T'.Perm T)
    (hokR : NamesOK R) (hokT : NamesOK T) :
    (match msaCompare R' T' with | .ok c => some (scoreF32 c).toBits | _ => none) =
    (match msaCompare R T with | .ok c => some (scoreF32 c).toBits | _ => none) := by
  rw [row_order_invariant hR hT hokR hokT]

/-! ### the hypotheses are satisfiable (non-vacuity) -/

def exR : List NRow := [⟨[0x62], "AC-G-".toList⟩, ⟨[0x61], "A-CGT".toList⟩, ⟨[0x63, 0x31], "--CGT".toList⟩]
/-- the same three sequences, other row order, an all-gap column inserted -/
def exT : List NRow := [⟨[0x61], "A.-CGT".toList⟩, ⟨[0x63, 0x31], "-.-CGT".toList⟩, ⟨[0x62], "A.C-G-".toList⟩]
/-- the same sequences aligned differently -/
def exU : List NRow := [⟨[0x61], "ACGT--".toList⟩, ⟨[0x63, 0x31], "-C-G-T".toList⟩, ⟨[0x62], "A-C-G-".toList⟩]

example : NamesOK exR := ⟨by decide, by decide⟩
example : (namedSeqs exR).Perm (namedSeqs exU) := by decide
example : (∀ x ∈ exR, x.row.length = 5) ∧ (∀ x ∈ exT, x.row.length = 6) ∧ (∀ x ∈ exU, x.row.length = 6) := by decide
example : SameModAllGap exR exT :=
  ⟨[], [false, true], by decide, by decide, by decide⟩
example : (⟨[0x62], "AC-G-".toList⟩ : NRow).name ≠ (⟨[0x61], "A-CGT".toList⟩ : NRow).name := by decide

/-- the defect repaired by commit 0022995: two names that differ only after byte 256 are "uniquely
named" (before, `kalign_check_msa` saw duplicates and `kalign_msa_compare` returned FAIL) -/
def exLate : List NRow :=
  [⟨replicate 256 0x41 ++ [0x42], "AC-G".toList⟩, ⟨replicate 256 0x41 ++ [0x43], "A-CG".toList⟩]

theorem late_names_ok : NamesOK exLate ∧ checkMsaStrict exLate = true := by
  have h : NamesOK exLate := by
    constructor
    · show ([replicate 256 0x41 ++ [0x42], replicate 256 0x41 ++ [0x43]] : List Name).Nodup
      rw [nodup_cons]
      refine ⟨?_, Pairwise.cons (fun _ h => by cases h) Pairwise.nil⟩
      intro hm
      rw [mem_singleton] at hm
      have := append_cancel_left hm
      exact absurd this (by decide)
    · intro x hx
      simp only [exLate, mem_cons, not_mem_nil, or_false] at hx
      rcases hx with rfl | rfl <;>
      · intro b hb
        simp only [mem_append, mem_replicate, mem_singleton] at hb
        rcases hb with ⟨_, rfl⟩ | rfl <;> decide
  exact ⟨h, checkMsaStrict_of_namesOK h⟩

/-! ### exactness in the other direction: 100 is reported only for a fully reproduced reference -/

/-- **exactness, converse direction**: the code returns numerator = 100·denominator *only if* every
(residue, partner-or-gap) relation of the reference is reproduced by the test alignment — 100 is
never reported for an alignment that loses a relation. -/
theorem score_100_only_if_all_reproduced (R T : List NRow) (wR wT : Nat) (hok : NamesOK R)
    (hsame : (namedSeqs R).Perm (namedSeqs T))
    (hrR : ∀ x ∈ R, x.row.length = wR) (hrT : ∀ x ∈ T, x.row.length = wT) :
    ∃ c, msaCompare R T = .ok c ∧
      ((scoreQ c).1 = 100 * (scoreQ c).2 ↔ ∀ e ∈ rel R, e ∈ rel T) := by
  obtain ⟨c, h1, h2⟩ := score_eq_spec R T wR wT hok hsame hrR hrT
  refine ⟨c, h1, ?_⟩
  rw [h2]
  unfold scoreSpec
  simp only
  rw [Nat.mul_left_cancel_iff (by decide), length_filter_eq_iff']
  simp

/-- a lost relation costs at least one count: the score is strictly below 100 -/
theorem score_lt_100_of_lost_relation (R T : List NRow) (wR wT : Nat) (hok : NamesOK R)
    (hsame : (namedSeqs R).Perm (namedSeqs T))
    (hrR : ∀ x ∈ R, x.row.length = wR) (hrT : ∀ x ∈ T, x.row.length = wT)
    (e : Rel) (heR : e ∈ rel R) (heT : e ∉ rel T) :
    ∃ c, msaCompare R T = .ok c ∧ (scoreQ c).1 < 100 * (scoreQ c).2 := by
  obtain ⟨c, h1, hiff⟩ := score_100_only_if_all_reproduced R T wR wT hok hsame hrR hrT
  refine ⟨c, h1, ?_⟩
  have hle := (score_bounds_unconditional R T c h1).2
  have hne : (scoreQ c).1 ≠ 100 * (scoreQ c).2 := fun h => heT (hiff.1 h e heR)
  omega

example : ∃ e ∈ rel exR, e ∉ rel exU := by decide
end Kalign
