import KalignModel.Lemmas.Hirschberg
import KalignModel.Model.DoAlign
import KalignModel.Props.C01
/-!
# C07 — the Hirschberg controller (aln_controller.c)

* `C07_runner_eq_serial`, `C07_runner_small_eq_serial`: the model of `aln_runner` — which calls
  `aln_runner_serial(m)` *without* `return` when `enda - starta < 500` and then falls through into the same
  code again — is the same function as `aln_runner_serial`, for every memory, every fuel and every kernel
  whose meetup delivers one of the six transitions {1,2,3,5,6,7}.  `C07_runner_eq_serial_of_mon` is the
  run-time form: it needs the six transitions only on the calls the serial run actually makes (`mon`).
  `C07_fallthrough_not_harmless` shows the hypothesis is needed: if a meetup returns transition −1 on a
  rectangle with `enda - starta ≥ 2`, the fall-through re-runs the body on the upper half of the rectangle.
* `C07_hirschberg_path_ok` (H1): if every meetup result of a serial run satisfies `meetupContract`, the path
  written for `len_a ≥ 1`, `len_b ≥ 1` satisfies `pathOK len_b` (partners strictly increasing within
  `1..len_b`, no gap-in-a run adjacent to a gap-in-b run).  With `C01_expandPath_valid` this is obligation **H**
  of C01/C10 (`C07_columns_valid`).
-/
namespace Kalign
variable {φ α : Type}

/-- the missing `return` in `aln_runner` is harmless: same function as `aln_runner_serial` -/
theorem C07_runner_eq_serial (K : Kernels φ α) (hK : K.ValidTrans) (n : Nat) (m : Mem φ α) :
    runner K false n m = runnerSerial K false n m :=
  runner_eq_runnerSerial K hK n m

/-- in particular below the switch (`enda - starta < 500`), where `aln_runner` really executes
`aln_runner_serial(m)` first and then continues -/
theorem C07_runner_small_eq_serial (K : Kernels φ α) (hK : K.ValidTrans) (n : Nat) (m : Mem φ α)
    (_hsmall : m.enda - m.starta < 500) :
    (runner K false n m).path = (runnerSerial K false n m).path := by
  rw [runner_eq_runnerSerial K hK n m]

/-! ### non-vacuity / necessity of the hypothesis: a kernel that answers −1 once -/

/-- toy kernel: transition −1 on rectangles with `enda = 4`, otherwise "aligned/aligned at `startb`" -/
def toyKernels : Kernels Unit Int :=
  { get0 := fun _ => ⟨0, 0, 0⟩, set0 := fun _ _ => (), stA := ⟨0, 0, 0⟩, stGA := ⟨0, 0, 0⟩, stGB := ⟨0, 0, 0⟩
    step := fun _ _ _ _ ea sb _ => some ⟨(), (), sb, if ea = 4 then -1 else 1, 0⟩ }

def toyMem : Mem Unit Int :=
  { f := (), b := (), path := Array.replicate 6 (-1), starta := 0, enda := 4, startb := 0, endb := 4,
    starta2 := 0, enda2 := 0, score := none, fk := .A, bk := .A, mon := true, fault := false, trace := [] }

/-- with a transition −1 the fall-through is **not** harmless: `aln_runner_serial` leaves the path untouched,
`aln_runner` re-runs on rows 0..2 and writes entries -/
theorem C07_fallthrough_not_harmless :
    (runnerSerial toyKernels false 10 toyMem).path.toList = [-1, -1, -1, -1, -1, -1] ∧
    (runner toyKernels false 10 toyMem).path.toList = [-1, 0, 1, -1, -1, -1] := by
  decide

/-! ### H1 -/

/-- the automaton over `p (i+1) .. p (i+n)` agrees with `pathOKAux` on the list of these entries -/
theorem pathOKAux_of_segOKf (p : Int → Int) (lenB : Nat) (n : Nat) (i : Nat) (last : Int) (k : Kind)
    (hk : k ≠ .GA) (h : segOKf p (lenB : Int) .A n (i : Int) last k = true) :
    pathOKAux lenB last (k == .GB) ((List.range' (i + 1) n).map fun (j : Nat) => p (j : Int)) = true := by
  induction n generalizing i last k with
  | zero =>
    simp only [segOKf, segRun] at h
    rw [segEnd_true] at h
    simp only [List.range'_zero, List.map_nil, pathOKAux]
    rcases h with ⟨h1, _⟩ | ⟨h1, h2, _⟩
    · cases k <;> simp_all
    · cases k <;> simp_all <;> omega
  | succ n ih =>
    simp only [segOKf, segRun] at h
    cases hs : segStep (lenB : Int) last k (p ((i : Int) + 1)) with
    | none => simp [hs] at h
    | some x =>
      simp only [hs] at h
      have hcast : ((i + 1 : Nat) : Int) = (i : Int) + 1 := by omega
      rw [List.range'_succ, List.map_cons, hcast]
      unfold pathOKAux
      rw [segStep_some] at hs
      have ih' := fun (l : Int) (k' : Kind) (hk' : k' ≠ .GA) hh => ih (i + 1) l k' hk' (by rw [hcast]; exact hh)
      rcases hs with ⟨h1, _, h3⟩ | ⟨h1, h2, h3, h4⟩ | ⟨h1, h2, h3, h4, h5⟩
      · subst h3
        simp only [h1, beq_self_eq_true, if_true]
        exact ih' last .GB (by decide) h
      · subst h4
        have hne : (p ((i : Int) + 1) == -1) = false := by simpa using h1
        simp only [hne, Bool.false_eq_true, if_false, Bool.and_eq_true, decide_eq_true_eq]
        refine ⟨⟨?_, h3⟩, ih' _ .A (by decide) h⟩
        cases k <;> simp_all <;> omega
      · subst h5
        have hne : (p ((i : Int) + 1) == -1) = false := by simpa using h1
        simp only [hne, Bool.false_eq_true, if_false, Bool.and_eq_true, decide_eq_true_eq]
        refine ⟨⟨?_, h4⟩, ih' _ .A (by decide) h⟩
        cases k <;> simp_all <;> omega

/-- **H1.** Serial controller, any kernels.  Start: the memory `init_alnmem` produces (full rectangle
`0..len_a × 0..len_b`, both start kinds `A`, path entries −1), `len_a, len_b ≥ 1`.  If the run did not fault and every
meetup result satisfied `meetupContract` (`mon`), the path `path[1..len_a]` is well-shaped. -/
theorem C07_hirschberg_path_ok (K : Kernels φ α) (n : Nat) (m : Mem φ α) (lenA lenB : Nat)
    (hsa : m.starta = 0) (hea : m.enda = lenA) (hsb : m.startb = 0) (heb : m.endb = lenB)
    (hfk : m.fk = .A) (hbk : m.bk = .A)
    (hA : 1 ≤ lenA) (hB : 1 ≤ lenB)
    (hpath : ∀ i : Int, 0 < i → i ≤ lenA → m.pe i = -1)
    (hfault : (runnerSerial K false n m).fault = false)
    (hmon : (runnerSerial K false n m).mon = true) :
    pathOK lenB ((runnerSerial K false n m).pathEntries lenA) = true := by
  obtain ⟨_, _, _, hpost⟩ := runnerSerial_recOK K n m hfault hmon
  have post := hpost (by omega) (by omega) (fun i h1 h2 => hpath i (by omega) (by omega))
  have hseg := post.seg (by omega) (by omega)
  rw [hsa, hea, hsb, heb, hfk, hbk] at hseg
  have := pathOKAux_of_segOKf (runnerSerial K false n m).pe lenB lenA 0 0 .A (by decide)
    (by simpa using hseg)
  have hkb : (Kind.A == Kind.GB) = false := by decide
  rw [hkb] at this
  simpa [pathOK, Mem.pathEntries, Mem.pe] using this

/-- run-time form of `C07_runner_eq_serial`: needs the six transitions only on the calls the serial run makes -/
theorem C07_runner_eq_serial_of_mon (K : Kernels φ α) (n : Nat) (m : Mem φ α)
    (hfault : (runnerSerial K false n m).fault = false) (hmon : (runnerSerial K false n m).mon = true) :
    runner K false n m = runnerSerial K false n m :=
  runner_eq_runnerSerial_of_mon K n m hfault hmon

/-- H1 for `aln_runner` (what `do_align` calls) -/
theorem C07_hirschberg_path_ok_runner (K : Kernels φ α) (n : Nat) (m : Mem φ α) (lenA lenB : Nat)
    (hsa : m.starta = 0) (hea : m.enda = lenA) (hsb : m.startb = 0) (heb : m.endb = lenB)
    (hfk : m.fk = .A) (hbk : m.bk = .A)
    (hA : 1 ≤ lenA) (hB : 1 ≤ lenB)
    (hpath : ∀ i : Int, 0 < i → i ≤ lenA → m.pe i = -1)
    (hfault : (runnerSerial K false n m).fault = false)
    (hmon : (runnerSerial K false n m).mon = true) :
    pathOK lenB ((runner K false n m).pathEntries lenA) = true := by
  rw [runner_eq_runnerSerial_of_mon K n m hfault hmon]
  exact C07_hirschberg_path_ok K n m lenA lenB hsa hea hsb heb hfk hbk hA hB hpath hfault hmon

section real
variable {β : Type} [Score β]

theorem initMem_pe (lenA lenB : Nat) (i : Int) : (initMem lenA lenB : Mem (Array (States β)) β).pe i = -1 := by
  simp only [Mem.pe, initMem, Array.getD_eq_getD_getElem?, Array.getElem?_replicate]
  split <;> rfl

/-- H1 for the real kernels (any score carrier), either entry point, from the memory `init_alnmem` sets up:
if the serial run passes the monitor, the path is well-shaped, and `add_gap_info_to_path_n` turns it into a valid
column list for `make_seq` (obligation **H** of C01/C10). -/
theorem C07_columns_valid (entry : Entry) (ap : AlnParam β) (ops : Operands β) (lenA lenB : Nat)
    (hA : 1 ≤ lenA) (hB : 1 ≤ lenB)
    (hfault : (alnRun .serial ap ops lenA lenB (initMem lenA lenB)).fault = false)
    (hmon : (alnRun .serial ap ops lenA lenB (initMem lenA lenB)).mon = true) :
    let path := (alnRun entry ap ops lenA lenB (initMem lenA lenB)).pathEntries lenA
    pathOK lenB path = true ∧
    ∃ codes, expandPath lenB path = some codes ∧ ValidCols (codes.map Col.ofCode) lenA lenB := by
  intro path
  have hp : pathOK lenB path = true := by
    cases entry with
    | serial =>
      exact C07_hirschberg_path_ok _ _ _ lenA lenB rfl rfl rfl rfl rfl rfl hA hB
        (fun i _ _ => initMem_pe lenA lenB i) hfault hmon
    | parallel =>
      exact C07_hirschberg_path_ok_runner _ _ _ lenA lenB rfl rfl rfl rfl rfl rfl hA hB
        (fun i _ _ => initMem_pe lenA lenB i) hfault hmon
  refine ⟨hp, ?_⟩
  have hlen : path.length = lenA := by simp [path, Mem.pathEntries]
  have hne : path ≠ [] := by
    intro h; rw [h] at hlen; simp at hlen; omega
  obtain ⟨codes, h1, h2⟩ := C01_expandPath_valid lenB path hB hne hp
  exact ⟨codes, h1, by rw [← hlen]; exact h2⟩

end real

/-! ### non-vacuity: the real kernels on the exact carrier pass the monitor -/

/-- DNA-like parameters on the exact carrier (units of 1/2000): match 5, mismatch −4, gpo 8, gpe 6, tgpe 0 -/
def exParam : AlnParam ExactScore :=
  { subm := (Array.range 5).map fun i => (Array.range 5).map fun j => if i = j then some 10000 else some (-8000)
    gpo := some 16000, gpe := some 12000, tgpe := some 0 }

def exRun (entry : Entry) (s1 s2 : Array Nat) : Mem (Array (States ExactScore)) ExactScore :=
  alnRun entry exParam (.seqseq s1 s2) s1.size s2.size (initMem s1.size s2.size)

example : (exRun .serial #[0, 1, 2, 3] #[0, 2, 3, 3, 1]).fault = false := by decide +kernel
example : (exRun .serial #[0, 1, 2, 3] #[0, 2, 3, 3, 1]).mon = true := by decide +kernel
example : (exRun .serial #[0, 1, 2, 3] #[0, 2, 3, 3, 1]).pathEntries 4 = [1, 2, 3, 4] := by decide +kernel
example : (exRun .parallel #[0, 1, 2, 3] #[0, 2, 3, 3, 1]).pathEntries 4 = [1, 2, 3, 4] := by decide +kernel
/-- a run that uses transition 6 at `endb` (gap-in-b run at the end of b) -/
example : (exRun .serial #[0, 1, 2, 3, 0, 0, 1] #[0, 2, 3, 3, 1, 2, 0, 1]).mon = true := by decide +kernel
example : (exRun .serial #[0, 1, 2, 3, 0, 0, 1] #[0, 2, 3, 3, 1, 2, 0, 1]).pathEntries 7 = [7, 8, -1, -1, -1, -1, -1] := by
  decide +kernel
example : ((exRun .serial #[0, 1, 2, 3, 0, 0, 1] #[0, 2, 3, 3, 1, 2, 0, 1]).trace.reverse.map (·.transition)) = [6, 1] := by
  decide +kernel
/-- the toy kernel violates the hypothesis of `C07_runner_eq_serial`, as it must -/
example : toyKernels.ValidTrans → False := fun h => by
  have := h () () 0 2 4 0 4 _ rfl
  revert this; decide

end Kalign
