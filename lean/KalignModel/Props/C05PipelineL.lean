import KalignModel.Lemmas.NoFaultRecL
import KalignModel.Props.C05PipelineC
/-!
# C05 (pipeline, generic carrier) with the monitor hypothesis restricted to the pairs of operands of the guide tree

`coreC_casesL`, `stagesC_casesL`, `kalignRunWithC_casesL` = the primed theorems of Props/C05PipelineC.lean in which the
hypothesis of the third conjunct (no `.fault`, no `.monitor`) is `MonHypL ap codes T.leaves` for the guide tree `T` that
`buildTasks` returned (the hypothesis may use that `T` is that tree and that its leaves are exactly `0 … n-1`): the monitor
is only asked for pairs `A`, `B` of `ReachL` nodes whose leaf lists `la ++ lb` form a sublist of `T.leaves`, so that
`A.nsip + B.nsip ≤ n` (`ReachL.nsip`) and `A.len + B.len ≤` the total length of those leaf sequences (`ReachL.len_le`).
-/
namespace Kalign.Pipeline
open Kalign Kalign.Kmeans Kalign.Sched

variable {α : Type} [Score α]

theorem coreC_casesL (avx : Bool) (pm : Option (AlnParam α)) (c1 c2 : List (List Nat))
    (hlen : c1.length = c2.length) (h13 : ∀ s ∈ c1, ∀ c ∈ s, c < 13)
    (h23 : ∀ s ∈ c2, s ≠ [] ∧ ∀ c ∈ s, c < 23) :
    coreC avx pm c1 c2 ≠ .error .fuel ∧
    (UpgmaHyp c1.toArray → coreC avx pm c1 c2 ≠ .error .tree) ∧
    ((∀ ap T, pm = some ap →
        buildTasks avx c1.toArray = .ok (Kmeans.sortTasks (treeTasks T c1.toArray.size)).toArray →
        (∀ x, x ∈ T.leaves ↔ x < c1.toArray.size) → MonHypL ap c2.toArray T.leaves) →
      coreC avx pm c1 c2 ≠ .error .fault ∧ coreC avx pm c1 c2 ≠ .error .monitor) := by
  refine ⟨(coreC_cases' avx pm c1 c2 hlen h13 h23).1, (coreC_cases' avx pm c1 c2 hlen h13 h23).2.1, ?_⟩
  intro hM
  unfold coreC
  simp only
  by_cases hn : c2.length < 2
  · simp [hn]
  rw [if_neg hn]
  have hsz1 : c1.toArray.size = c2.length := by simp [hlen]
  rcases buildTasks_cases avx c1.toArray (by rw [hsz1]; omega) (by simpa using h13) with ⟨T, hT, hleaves0⟩ | ⟨hE, hnU⟩
  · rw [hT]
    simp only
    have hleaves : ∀ x, x ∈ T.leaves ↔ x < c2.length := by rw [← hsz1]; exact hleaves0
    rw [hsz1]
    cases hp : pm with
    | none => simp
    | some ap =>
      simp only
      have hML : MonHypL ap c2.toArray T.leaves := hM ap T hp hT hleaves0
      obtain ⟨l, r, hlr⟩ := tree_is_node T c2.length (by omega) hleaves
      obtain ⟨L, R, hroot⟩ := label_node l r c2.length
      rw [← hlr] at hroot
      have hsize : (Kmeans.sortTasks (treeTasks T c2.length)).toArray.size = Kmeans.Tree.nint T := by
        simp [length_sortTasks]
      have hpos : 1 ≤ Kmeans.Tree.nint T := by rw [hlr]; simp [Kmeans.Tree.nint]
      have hcsz : c2.toArray.size = c2.length := by simp
      have hchild : recAlnC ap (Kmeans.sortTasks (treeTasks T c2.length)).toArray c2.toArray c2.length
          (Kmeans.sortTasks (treeTasks T c2.length)).toArray.size
          ((Kmeans.sortTasks (treeTasks T c2.length)).toArray.size - 1) =
          childOfC ap (Kmeans.sortTasks (treeTasks T c2.toArray.size)).toArray c2.toArray c2.toArray.size
            (Kmeans.Tree.nint T) (label T c2.toArray.size).id := by
        rw [hcsz, hroot, hsize]
        show _ = childOfC _ _ _ _ _ (c2.length + Kmeans.Tree.nint T - 1)
        unfold childOfC
        rw [if_pos (by omega)]
        congr 1
        omega
      rw [hchild]
      have hleaves' : ∀ i ∈ T.leaves, i < c2.toArray.size := by
        intro i hi; rw [hcsz]; exact (hleaves i).1 hi
      have hnint : Kmeans.LTree.nint (label T c2.toArray.size) ≤ Kmeans.Tree.nint T := by
        unfold label; rw [(labelFrom_iids T c2.toArray.size).2.2]; exact Nat.le_refl _
      have hne : ∀ i, i < c2.toArray.size → c2.toArray.getD i [] ≠ [] ∧ ∀ c ∈ c2.toArray.getD i [], c < 23 := by
        intro i hi
        rw [hcsz] at hi
        have : c2.toArray.getD i [] = c2[i] := by simp [Array.getD, hi]
        rw [this]
        exact h23 _ (List.getElem_mem hi)
      obtain ⟨N, hN, hmem, _⟩ := recAlnC_treeL ap T c2.toArray hleaves' hne hML _ (.refl _)
        (Kmeans.Tree.nint T) hnint
      rw [hN]
      simp only
      have hall : ∀ i ∈ List.range c2.length, ∃ g, finalGaps N.group i = some g ∧ True := by
        intro i hi
        have hi' : i ∈ (label T c2.toArray.size).leaves := by
          unfold label
          rw [(labelFrom_spec T c2.toArray.size).2.1]
          exact (hleaves i).2 (List.mem_range.1 hi)
        obtain ⟨g, hg⟩ := find_membersC N _ hmem i hi'
        exact ⟨g, hg, trivial⟩
      obtain ⟨gs, hgs, _⟩ := mapM_option_spec (finalGaps N.group) (fun _ => True) (List.range c2.length) hall
      rw [hgs]
      simp
  · rw [hE]
    simp

theorem stagesC_casesL (avx : Bool) (bio : Bio) (pm : Bio → Option (AlnParam α)) (V : List (Name × List Char))
    (hV : ∀ x ∈ V, x.2 ≠ []) :
    stagesC avx bio pm V ≠ .error .fuel ∧
    (UpgmaHyp ((V.map fun x => bytesOf x.2).map (convertN (treeAlphabet bio))).toArray →
      stagesC avx bio pm V ≠ .error .tree) ∧
    ((∀ ap T, pm bio = some ap →
        buildTasks avx ((V.map fun x => bytesOf x.2).map (convertN (treeAlphabet bio))).toArray =
          .ok (Kmeans.sortTasks (treeTasks T
            ((V.map fun x => bytesOf x.2).map (convertN (treeAlphabet bio))).toArray.size)).toArray →
        (∀ x, x ∈ T.leaves ↔ x < ((V.map fun x => bytesOf x.2).map (convertN (treeAlphabet bio))).toArray.size) →
        MonHypL ap ((V.map fun x => bytesOf x.2).map (convertN (alnAlphabet bio))).toArray T.leaves) →
      stagesC avx bio pm V ≠ .error .fault ∧ stagesC avx bio pm V ≠ .error .monitor) := by
  refine ⟨(stagesC_cases' avx bio pm V hV).1, (stagesC_cases' avx bio pm V hV).2.1, ?_⟩
  have hcore := coreC_casesL avx (pm bio) ((V.map fun x => bytesOf x.2).map (convertN (treeAlphabet bio)))
    ((V.map fun x => bytesOf x.2).map (convertN (alnAlphabet bio))) (by simp)
    (by
      intro s hs
      simp only [List.map_map, List.mem_map, Function.comp_apply] at hs
      obtain ⟨x, _, rfl⟩ := hs
      intro c hc
      rcases treeAlphabet_cases bio with h | h
      · have := convertN_lt 5 (Or.inl rfl) (bytesOf x.2) c (by rw [← h]; exact hc); omega
      · exact convertN_lt 13 (Or.inr (Or.inl rfl)) (bytesOf x.2) c (by rw [← h]; exact hc))
    (by
      intro s hs
      simp only [List.map_map, List.mem_map, Function.comp_apply] at hs
      obtain ⟨x, hx, rfl⟩ := hs
      refine ⟨?_, ?_⟩
      · intro h0
        have := congrArg List.length h0
        rw [length_convertN] at this
        simp only [bytesOf, List.length_map, List.length_nil] at this
        exact hV x hx (List.length_eq_zero_iff.1 this)
      · intro c hc
        rcases alnAlphabet_cases bio with h | h
        · have := convertN_lt 5 (Or.inl rfl) (bytesOf x.2) c (by rw [← h]; exact hc); omega
        · exact convertN_lt 23 (Or.inr (Or.inr rfl)) (bytesOf x.2) c (by rw [← h]; exact hc))
  have c3 := hcore.2.2
  clear hcore
  intro hM
  unfold stagesC
  cases bio with
  | unknown => exact ⟨by simp, by simp⟩
  | protein =>
    simp only
    cases hc : coreC avx (pm Bio.protein)
        (List.map (convertN (treeAlphabet Bio.protein)) (List.map (fun x => bytesOf x.2) V))
        (List.map (convertN (alnAlphabet Bio.protein)) (List.map (fun x => bytesOf x.2) V)) with
    | ok g => exact ⟨by simp, by simp⟩
    | error e =>
      have c3' := c3 hM
      rw [hc] at c3'
      simp only [ne_eq, Except.error.injEq] at c3' ⊢
      exact c3'
  | dna =>
    simp only
    cases hc : coreC avx (pm Bio.dna)
        (List.map (convertN (treeAlphabet Bio.dna)) (List.map (fun x => bytesOf x.2) V))
        (List.map (convertN (alnAlphabet Bio.dna)) (List.map (fun x => bytesOf x.2) V)) with
    | ok g => exact ⟨by simp, by simp⟩
    | error e =>
      have c3' := c3 hM
      rw [hc] at c3'
      simp only [ne_eq, Except.error.injEq] at c3' ⊢
      exact c3'

theorem kalignRunWithC_casesL (pm : Bio → Option (AlnParam α)) (inp : List InSeq) :
    kalignRunWithC detectF true pm inp ≠ .error .fuel ∧
    (PipelineUpgmaHyp inp → kalignRunWithC detectF true pm inp ≠ .error .tree) ∧
    ((∀ c ap T, canon inp = some c → pm (bioOf detectF inp) = some ap →
        buildTasks true (treeCodes (bioOf detectF inp) c) =
          .ok (Kmeans.sortTasks (treeTasks T (treeCodes (bioOf detectF inp) c).size)).toArray →
        (∀ x, x ∈ T.leaves ↔ x < (treeCodes (bioOf detectF inp) c).size) →
        MonHypL ap (alnCodes (bioOf detectF inp) c) T.leaves) →
      kalignRunWithC detectF true pm inp ≠ .error .fault ∧ kalignRunWithC detectF true pm inp ≠ .error .monitor) := by
  refine ⟨(kalignRunWithC_cases' pm inp).1, (kalignRunWithC_cases' pm inp).2.1, ?_⟩
  intro hM
  unfold kalignRunWithC
  by_cases hb : hasBadByte inp = true
  · simp [hb]
  simp only [hb, Bool.false_eq_true, if_false]
  cases hc : canon inp with
  | none => simp
  | some c =>
    simp only
    have s3 := (stagesC_casesL true (bioOf detectF inp) pm (view c) (canon_nonempty inp c hc)).2.2
      (fun ap T hp hb hl => hM c ap T hc hp hb hl)
    cases hs : stagesC true (bioOf detectF inp) pm (view c) with
    | ok rows => simp
    | error e =>
      rw [hs] at s3
      simp only [ne_eq, Except.error.injEq] at s3 ⊢
      exact s3

end Kalign.Pipeline
