import KalignModel.Lemmas.DiagDirectS3
import KalignModel.Props.C07Soft
import KalignModel.Props.C08Direct
/-!
# C08, direct proof, on binary32 (`SoftF32`) for dyadic parameter rows

The direct argument of `Props/C08Direct.lean` transferred to the binary32 kernels through the robust-argmax lemma of slice Z
(`ssMeet_robust`): the `SoftF32` meetup returns a candidate whose exact value is within `n + 1000` units (1/2000) of every other
admissible candidate (the slack pays for the rounded tie-break term `fabsf(...)/1000`).  Every candidate of a square rectangle
of the diagonal other than the diagonal's own has at least two gap columns, each losing at least `(s x x + 2·min(gpo,gpe,tgpe))/2`
against the self-scores, so the diagonal's candidate is the only robust maximum as soon as

    |seq| + 1000 < s x x + 2·min(gpo, gpe, tgpe)        for every residue x of seq.

For the plain DNA row (`tgpe = 0`, match 5.0 = 10000 units) this is `|seq| < 9000` — a row on which the margin-based
`C08Soft_identical_pair_diag_dna` is silent for every sequence.
-/
namespace Kalign
open SoftF32 Pipeline

/-- **C08 on binary32, direct**: both entry points of the controller on the `SoftF32` kernels return the diagonal -/
theorem C08Soft_identical_pair_diag_direct (entry : Entry) (U : Nat) (ap : AlnParam SoftF32) (apE : AlnParam ExactScore)
    (hd : DyadicParam U ap apE) (gpo gpe tgpe : Int) (s : Nat → Nat → Int)
    (hap : ApOK apE gpo gpe tgpe s) (hgpo : 0 ≤ gpo) (hgpe : 0 ≤ gpe) (htgpe : 0 ≤ tgpe)
    (seq : Array Nat) (h1 : 1 ≤ seq.size)
    (hsize : U * (seq.size + seq.size + 1) + seq.size / 1000 + 1 < 16777216) (hlenB : seq.size < 4194304)
    (hself : ∀ x ∈ seq.toList, (seq.size : Int) + 1000 < s x x + 2 * min gpo (min gpe tgpe))
    (hdom : ∀ x ∈ seq.toList, ∀ y ∈ seq.toList, 2 * s x y ≤ s x x + s y y) :
    let r := alnRun entry ap (.seqseq seq seq) seq.size seq.size (initMem seq.size seq.size)
    r.fault = false ∧
      ∃ codes, expandPath seq.size (r.pathEntries seq.size) = some codes ∧
        codes.map Col.ofCode = List.replicate seq.size .both := by
  have H : CutHypS U ap apE gpo gpe tgpe s seq seq seq.size seq.size (diagCols seq.size) :=
    soft_diag_cutHyp hd gpo gpe tgpe s hap seq hgpo hgpe htgpe hsize hlenB hself hdom
  have hser : (runnerSerial (realKernels ap (.seqseq seq seq) seq.size seq.size) false
        (initMem seq.size seq.size : MemS).fuel (initMem seq.size seq.size)).fault = false ∧
      ∃ codes, expandPath seq.size
        ((runnerSerial (realKernels ap (.seqseq seq seq) seq.size seq.size) false
          (initMem seq.size seq.size : MemS).fuel (initMem seq.size seq.size)).pathEntries seq.size) = some codes ∧
        codes.map Col.ofCode = List.replicate seq.size .both := by
    obtain ⟨hf, hpath⟩ := runner_path_cutS U ap apE gpo gpe tgpe s seq seq seq.size seq.size (diagCols seq.size) H
      (initMem seq.size seq.size : MemS).fuel (by
        show seq.size + seq.size + 1 ≤ ((seq.size : Int) - 0).toNat + ((seq.size : Int) - 0).toNat + 2
        omega)
    refine ⟨hf, ?_⟩
    rw [hpath]
    have hboth : Col.both ∈ diagCols seq.size := by
      unfold diagCols
      exact List.mem_replicate.2 ⟨by omega, rfl⟩
    exact expandPath_pathFrom seq.size (diagCols seq.size) (adjOK_diag _ _) (consB_diag _)
      (by rw [consA_diag]; exact h1) hboth
  cases entry with
  | serial => exact hser
  | parallel =>
    have hPre : PreS (diagCols seq.size) seq.size seq.size (initMem seq.size seq.size : MemS) := by
      refine ⟨rfl, fun i _ _ => Or.inl (initMemS_pe _ _ i), ?_, by show (0 : Int) ≤ 0; omega, Or.inr ?_⟩
      · refine ⟨?_, ?_, ?_⟩ <;> simp [initMem] <;> omega
      · refine ⟨0, seq.size, 0, seq.size, rfl, rfl, rfl, rfl, ?_, ?_, ?_⟩
        · exact ⟨[], diagCols seq.size, [], by simp, rfl, rfl, by simpa using consA_diag _,
            by simpa using consB_diag _, rfl, rfl, Or.inl (by simp), Or.inl (by simp)⟩
        · show ((Array.replicate (max seq.size seq.size + 2) States.negInf).set! 0 oneHotA).getD 0 States.negInf
            = hotS .A
          simp [Array.getD]; rfl
        · show ((Array.replicate (max seq.size seq.size + 2) States.negInf).set! 0 oneHotA).getD 0 States.negInf
            = hotS .A
          simp [Array.getD]; rfl
    have heq := runner_eq_serial_cutS U ap apE gpo gpe tgpe s seq seq seq.size seq.size (diagCols seq.size) H
      (initMem seq.size seq.size : MemS).fuel _ hPre (by
        show ((seq.size : Int) - 0).toNat + ((seq.size : Int) - 0).toNat + 1 ≤
          ((seq.size : Int) - 0).toNat + ((seq.size : Int) - 0).toNat + 2
        omega)
    show (runner _ false _ _).fault = false ∧ ∃ codes, expandPath seq.size
      ((runner _ false _ _).pathEntries seq.size) = some codes ∧ _
    rw [heq]
    exact hser

/-! ## the generated tables -/

/-- the per-residue condition with the binary32 slack for sequences of at most `n` residues over the codes `< L` (table values ×1000) -/
def diagCondDS (m : List (List Int)) (gpo gpe tgpe : Int) (L n : Nat) : Bool :=
  decide (0 ≤ gpo) && decide (0 ≤ gpe) && decide (0 ≤ tgpe) &&
  (List.range L).all fun x =>
    decide ((n : Int) + 1000 < exactSub m x x + 2 * min (2 * gpo) (min (2 * gpe) (2 * tgpe))) &&
    (List.range L).all fun y => decide (2 * exactSub m x y ≤ exactSub m x x + exactSub m y y)

/-- **for a dyadic row of the generated table** -/
theorem C08Soft_identical_pair_diag_direct_table (entry : Entry) (U : Nat) (ap : AlnParam SoftF32) (m : List (List Int))
    (gpo gpe tgpe : Int) (hd : DyadicParam U ap (exactParam m gpo gpe tgpe)) (L n : Nat)
    (hc : diagCondDS m gpo gpe tgpe L n = true) (seq : Array Nat) (h1 : 1 ≤ seq.size) (hn : seq.size ≤ n)
    (hL : ∀ x ∈ seq.toList, x < L)
    (hsize : U * (seq.size + seq.size + 1) + seq.size / 1000 + 1 < 16777216) (hlenB : seq.size < 4194304) :
    let r := alnRun entry ap (.seqseq seq seq) seq.size seq.size (initMem seq.size seq.size)
    r.fault = false ∧
      ∃ codes, expandPath seq.size (r.pathEntries seq.size) = some codes ∧
        codes.map Col.ofCode = List.replicate seq.size .both := by
  unfold diagCondDS at hc
  simp only [List.all_eq_true, Bool.and_eq_true, decide_eq_true_eq, List.mem_range] at hc
  obtain ⟨⟨⟨h0, h2⟩, h3⟩, h4⟩ := hc
  refine C08Soft_identical_pair_diag_direct entry U ap _ hd (2 * gpo) (2 * gpe) (2 * tgpe) (exactSub m)
    (exactParam_ok m gpo gpe tgpe) (by omega) (by omega) (by omega) seq h1 hsize hlenB ?_
    (fun x hx y hy => (h4 x (hL x hx)).2 y (hL y hy))
  intro x hx
  have := (h4 x (hL x hx)).1
  omega

/-- **plain DNA parameters in binary32** (`type 0`: match 5, mismatch −4, gpo 8, gpe 6, tgpe 0), all five nucleotide codes,
sequences of fewer than 9000 residues -/
theorem C08Soft_identical_pair_diag_dna0 (entry : Entry) (seq : Array Nat) (h1 : 1 ≤ seq.size) (hlen : seq.size < 9000)
    (hL : ∀ x ∈ seq.toList, x < 5) :
    let r := alnRun entry (softParamOf 1 0) (.seqseq seq seq) seq.size seq.size (initMem seq.size seq.size)
    r.fault = false ∧
      ∃ codes, expandPath seq.size (r.pathEntries seq.size) = some codes ∧
        codes.map Col.ofCode = List.replicate seq.size .both :=
  C08Soft_identical_pair_diag_direct_table entry 32 _ Gen.mat3 8000 6000 0 C07Soft_dyadic_dna 5 8999 (by decide +kernel) seq h1
    (by omega) hL (by omega) (by omega)

/-- **DNA-internal parameters in binary32** (`type 1`: tgpe 8), fewer than 33000 residues -/
theorem C08Soft_identical_pair_diag_dna1 (entry : Entry) (seq : Array Nat) (h1 : 1 ≤ seq.size) (hlen : seq.size < 33000)
    (hL : ∀ x ∈ seq.toList, x < 5) :
    let r := alnRun entry (softParamOf 1 1) (.seqseq seq seq) seq.size seq.size (initMem seq.size seq.size)
    r.fault = false ∧
      ∃ codes, expandPath seq.size (r.pathEntries seq.size) = some codes ∧
        codes.map Col.ofCode = List.replicate seq.size .both :=
  C08Soft_identical_pair_diag_direct_table entry 32 _ Gen.mat3 8000 6000 8000 C07Soft_dyadic_dna_internal 5 32999
    (by decide +kernel) seq h1 (by omega) hL (by omega) (by omega)

/-- **protein defaults in binary32** (type 3 or undefined) over **all 23 codes** including the wildcard `X` (self-score −1):
fewer than 1000 residues (the wildcard leaves `−2000 + 2·2000 = 2000` units per gap column) -/
theorem C08Soft_identical_pair_diag_protein_all (entry : Entry) (t : Int) (ht : t = 3 ∨ ¬ (0 ≤ t ∧ t ≤ 4))
    (seq : Array Nat) (h1 : 1 ≤ seq.size) (hlen : seq.size < 1000) (hL : ∀ x ∈ seq.toList, x < 23) :
    let r := alnRun entry (softParamOf 0 t) (.seqseq seq seq) seq.size seq.size (initMem seq.size seq.size)
    r.fault = false ∧
      ∃ codes, expandPath seq.size (r.pathEntries seq.size) = some codes ∧
        codes.map Col.ofCode = List.replicate seq.size .both := by
  have hd : DyadicParam 32 (softParamOf 0 t) (exactParam Gen.mat0 5500 2000 1000) := by
    rcases ht with rfl | ht
    · exact C07Soft_dyadic_protein
    · exact C07Soft_dyadic_protein_undefined t ht
  exact C08Soft_identical_pair_diag_direct_table entry 32 _ Gen.mat0 5500 2000 1000 hd 23 999 (by decide +kernel) seq h1
    (by omega) hL (by omega) (by omega)

/-- **protein defaults in binary32** over the codes `0..21` (everything but `X`): fewer than 11000 residues -/
theorem C08Soft_identical_pair_diag_protein_noX (entry : Entry) (t : Int) (ht : t = 3 ∨ ¬ (0 ≤ t ∧ t ≤ 4))
    (seq : Array Nat) (h1 : 1 ≤ seq.size) (hlen : seq.size < 11000) (hL : ∀ x ∈ seq.toList, x < 22) :
    let r := alnRun entry (softParamOf 0 t) (.seqseq seq seq) seq.size seq.size (initMem seq.size seq.size)
    r.fault = false ∧
      ∃ codes, expandPath seq.size (r.pathEntries seq.size) = some codes ∧
        codes.map Col.ofCode = List.replicate seq.size .both := by
  have hd : DyadicParam 32 (softParamOf 0 t) (exactParam Gen.mat0 5500 2000 1000) := by
    rcases ht with rfl | ht
    · exact C07Soft_dyadic_protein
    · exact C07Soft_dyadic_protein_undefined t ht
  exact C08Soft_identical_pair_diag_direct_table entry 32 _ Gen.mat0 5500 2000 1000 hd 22 10999 (by decide +kernel) seq h1
    (by omega) hL (by omega) (by omega)

/-- **divergent-protein parameters in binary32** (`type 4`) over all 23 codes: fewer than 15000 residues -/
theorem C08Soft_identical_pair_diag_protein_divergent (entry : Entry)
    (seq : Array Nat) (h1 : 1 ≤ seq.size) (hlen : seq.size < 15000) (hL : ∀ x ∈ seq.toList, x < 23) :
    let r := alnRun entry (softParamOf 0 4) (.seqseq seq seq) seq.size seq.size (initMem seq.size seq.size)
    r.fault = false ∧
      ∃ codes, expandPath seq.size (r.pathEntries seq.size) = some codes ∧
        codes.map Col.ofCode = List.replicate seq.size .both :=
  C08Soft_identical_pair_diag_direct_table entry 512 _ Gen.mat1 55000 8000 4000 C07Soft_dyadic_protein_divergent 23 14999
    (by decide +kernel) seq h1 (by omega) hL (by omega) (by omega)

/-! ## non-vacuity -/

/-- the plain DNA row: the margin-based binary32 check fails for every sequence, the direct one holds up to 8999 residues -/
example : diagCondS Gen.mat3 8000 6000 0 [0] = false ∧ diagCondDS Gen.mat3 8000 6000 0 5 8999 = true := by decide +kernel

/-- a DNA sequence with `N` under the plain DNA parameters, computed in binary32 by the model: the diagonal -/
example :
    let r := alnRun .parallel (softParamOf 1 0) (.seqseq #[0, 1, 4, 3, 3, 2] #[0, 1, 4, 3, 3, 2]) 6 6 (initMem 6 6)
    r.fault = false ∧ (expandPath 6 (r.pathEntries 6)).map (·.map Col.ofCode) = some (List.replicate 6 .both) := by
  decide +kernel

/-- a protein sequence with the wildcard `X`, binary32 -/
example :
    let r := alnRun .serial (softParamOf 0 3) (.seqseq #[0, 22, 22, 7] #[0, 22, 22, 7]) 4 4 (initMem 4 4)
    r.fault = false ∧ (expandPath 4 (r.pathEntries 4)).map (·.map Col.ofCode) = some (List.replicate 4 .both) := by
  decide +kernel

end Kalign
