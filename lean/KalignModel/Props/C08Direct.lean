import KalignModel.Lemmas.DiagDirect4
import KalignModel.Props.C08Opt
/-!
# C08, direct proof — a sequence aligned with itself comes back as the gap-free diagonal

`Props/C08Opt.lean` derives the diagonal from the general optimality theorem `C07_hirschberg_seqseq_opt`, whose safe margin
`max(0, tgpe−gpe, tgpe−gpo) + max(0, gpe−tgpe) + len/2000` is too coarse for the plain DNA row (`tgpe = 0`: `gpe − tgpe = 6 > 5`)
and for the wildcard `X` (self-score −1), and bounds the length for every row (for the RNA row `tgpe − gpe = 253.2` is charged
against the self-scores 283..383).  Here the diagonal is proved **directly by induction on the
Hirschberg recursion** for the input `(seq, seq)`: every rectangle of the recursion is a square on the diagonal with one-hot
start states of kind "aligned"; every walk of a kernel satisfies `2·value + #gap columns ≤ Σ self-scores of what it consumes`
(`walk_le_diag`), so any pair (forward walk, backward walk) meeting in the middle row other than the diagonal pair reads
strictly less than the diagonal; the tie-break term `|endb + startb − 2i|` is minimal in the diagonal's cell.  Hence the
meetup returns the middle cell with transition "aligned" (`diag_meet`), on every level.

Hypothesis (per residue, exact carrier, units 1/2000): penalties non-negative and for all residues `x`, `y` of `seq`

    0 < s x x + 2·min(gpo, gpe, tgpe)           2·s x y ≤ s x x + s y y.

No relation between the penalties is needed (terminal gaps may be free).  The check `diagCondD` passes for **every** generated
default row over all codes that can occur (proteins: codes 0..22 including `X`; nucleotides: codes 0..4 including `N`).
-/
namespace Kalign

/-- **C08 (sequence – sequence, exact carrier, direct)**: both entry points of the controller return the diagonal -/
theorem C08_identical_pair_diag_direct (entry : Entry) (ap : AlnParam ExactScore) (gpo gpe tgpe : Int)
    (s : Nat → Nat → Int) (hap : ApOK ap gpo gpe tgpe s) (hgpo : 0 ≤ gpo) (hgpe : 0 ≤ gpe) (htgpe : 0 ≤ tgpe)
    (seq : Array Nat) (h1 : 1 ≤ seq.size)
    (hself : ∀ x ∈ seq.toList, 0 < s x x + 2 * min gpo (min gpe tgpe))
    (hdom : ∀ x ∈ seq.toList, ∀ y ∈ seq.toList, 2 * s x y ≤ s x x + s y y) :
    let r := alnRun entry ap (.seqseq seq seq) seq.size seq.size (initMem seq.size seq.size)
    r.fault = false ∧
      ∃ codes, expandPath seq.size (r.pathEntries seq.size) = some codes ∧
        codes.map Col.ofCode = List.replicate seq.size .both := by
  have hrun := diag_runOK entry ap gpo gpe tgpe s hap seq ⟨hgpo, hgpe, htgpe, hself, hdom⟩
  refine ⟨hrun.1, ?_⟩
  show ∃ codes, expandPath seq.size
    ((alnRun entry ap (.seqseq seq seq) seq.size seq.size (initMem seq.size seq.size)).pathEntries seq.size) = some codes ∧ _
  rw [hrun.2]
  have hboth : Col.both ∈ diagCols seq.size := by
    unfold diagCols
    exact List.mem_replicate.2 ⟨by omega, rfl⟩
  exact expandPath_pathFrom seq.size (diagCols seq.size) (adjOK_diag _ _) (consB_diag _)
    (by rw [consA_diag]; exact h1) hboth

/-! ## the generated tables -/

/-- the per-residue condition for a table row (values ×1000) over the codes `< L`, as a decidable check -/
def diagCondD (m : List (List Int)) (gpo gpe tgpe : Int) (L : Nat) : Bool :=
  decide (0 ≤ gpo) && decide (0 ≤ gpe) && decide (0 ≤ tgpe) &&
  (List.range L).all fun x =>
    decide (0 < exactSub m x x + 2 * min (2 * gpo) (min (2 * gpe) (2 * tgpe))) &&
    (List.range L).all fun y => decide (2 * exactSub m x y ≤ exactSub m x x + exactSub m y y)

/-- **for a row of the generated table**: if `diagCondD` passes for the codes `< L`, every non-empty sequence over these codes
aligned with itself under the exact parameters of that row comes back as the diagonal -/
theorem C08_identical_pair_diag_direct_table (entry : Entry) (m : List (List Int)) (gpo gpe tgpe : Int) (L : Nat)
    (hc : diagCondD m gpo gpe tgpe L = true) (seq : Array Nat) (h1 : 1 ≤ seq.size) (hL : ∀ x ∈ seq.toList, x < L) :
    let r := alnRun entry (exactParam m gpo gpe tgpe) (.seqseq seq seq) seq.size seq.size (initMem seq.size seq.size)
    r.fault = false ∧
      ∃ codes, expandPath seq.size (r.pathEntries seq.size) = some codes ∧
        codes.map Col.ofCode = List.replicate seq.size .both := by
  unfold diagCondD at hc
  simp only [List.all_eq_true, Bool.and_eq_true, decide_eq_true_eq, List.mem_range] at hc
  obtain ⟨⟨⟨h0, h2⟩, h3⟩, h4⟩ := hc
  exact C08_identical_pair_diag_direct entry _ (2 * gpo) (2 * gpe) (2 * tgpe) (exactSub m) (exactParam_ok m gpo gpe tgpe)
    (by omega) (by omega) (by omega) seq h1 (fun x hx => (h4 x (hL x hx)).1)
    (fun x hx y hy => (h4 x (hL x hx)).2 y (hL y hy))

/-- the check passes for **every admissible default row** of the generated table: nucleotide rows over codes `< 5`
(`A C G T/U N`), protein rows over codes `< 23` (including `B Z X`) -/
theorem C08_diagCondD_tables : ∀ r ∈ Gen.paramTable, r.ok = true →
    diagCondD (Gen.matrices.getD r.mat []) r.gpo r.gpe r.tgpe (if r.biotype = 1 then 5 else 23) = true := by
  decide +kernel

/-- which codes fail: none that can occur.  Only the plain DNA row (`tgpe = 0`) fails, and only for the codes `5..22`, which the
nucleotide alphabet never produces (their matrix entries are 0) -/
theorem C08_diagCondD_dna0_codes :
    (List.range 23).filter (fun x =>
      !(decide (0 < exactSub Gen.mat3 x x + 2 * min (2 * 8000) (min (2 * 6000) (2 * 0))))) =
      [5, 6, 7, 8, 9, 10, 11, 12, 13, 14, 15, 16, 17, 18, 19, 20, 21, 22] := by
  decide +kernel

/-- **plain DNA parameters** (`type 0`: match 5, mismatch −4, gpo 8, gpe 6, tgpe 0) -/
theorem C08_identical_pair_diag_dna0 (entry : Entry) (seq : Array Nat) (h1 : 1 ≤ seq.size)
    (hL : ∀ x ∈ seq.toList, x < 5) :
    let r := alnRun entry (exactParam Gen.mat3 8000 6000 0) (.seqseq seq seq) seq.size seq.size (initMem seq.size seq.size)
    r.fault = false ∧
      ∃ codes, expandPath seq.size (r.pathEntries seq.size) = some codes ∧
        codes.map Col.ofCode = List.replicate seq.size .both :=
  C08_identical_pair_diag_direct_table entry Gen.mat3 8000 6000 0 5 (by decide +kernel) seq h1 hL

/-- **DNA-internal parameters** (`type 1`: tgpe 8) -/
theorem C08_identical_pair_diag_dna1 (entry : Entry) (seq : Array Nat) (h1 : 1 ≤ seq.size)
    (hL : ∀ x ∈ seq.toList, x < 5) :
    let r := alnRun entry (exactParam Gen.mat3 8000 6000 8000) (.seqseq seq seq) seq.size seq.size
      (initMem seq.size seq.size)
    r.fault = false ∧
      ∃ codes, expandPath seq.size (r.pathEntries seq.size) = some codes ∧
        codes.map Col.ofCode = List.replicate seq.size .both :=
  C08_identical_pair_diag_direct_table entry Gen.mat3 8000 6000 8000 5 (by decide +kernel) seq h1 hL

/-- **RNA parameters** (`type 2`, and the default of nucleotide input with an undefined type: matrix 2, gpo 217, gpe 39.4,
tgpe 292.6), on the exact carrier (39.4 and 292.6 are exact there; they are not binary32 values) -/
theorem C08_identical_pair_diag_rna (entry : Entry) (seq : Array Nat) (h1 : 1 ≤ seq.size)
    (hL : ∀ x ∈ seq.toList, x < 5) :
    let r := alnRun entry (exactParam Gen.mat2 217000 39400 292600) (.seqseq seq seq) seq.size seq.size
      (initMem seq.size seq.size)
    r.fault = false ∧
      ∃ codes, expandPath seq.size (r.pathEntries seq.size) = some codes ∧
        codes.map Col.ofCode = List.replicate seq.size .both :=
  C08_identical_pair_diag_direct_table entry Gen.mat2 217000 39400 292600 5 (by decide +kernel) seq h1 hL

/-- **protein defaults** (matrix 0, gpo 5.5, gpe 2, tgpe 1) over **all 23 codes**, the wildcard `X` (code 22, self-score −1)
included, sequences of any length -/
theorem C08_identical_pair_diag_protein (entry : Entry) (seq : Array Nat) (h1 : 1 ≤ seq.size)
    (hL : ∀ x ∈ seq.toList, x < 23) :
    let r := alnRun entry (exactParam Gen.mat0 5500 2000 1000) (.seqseq seq seq) seq.size seq.size
      (initMem seq.size seq.size)
    r.fault = false ∧
      ∃ codes, expandPath seq.size (r.pathEntries seq.size) = some codes ∧
        codes.map Col.ofCode = List.replicate seq.size .both :=
  C08_identical_pair_diag_direct_table entry Gen.mat0 5500 2000 1000 23 (by decide +kernel) seq h1 hL

/-- **divergent-protein parameters** (`type 4`: matrix 1, gpo 55, gpe 8, tgpe 4) over all 23 codes -/
theorem C08_identical_pair_diag_protein_divergent (entry : Entry) (seq : Array Nat) (h1 : 1 ≤ seq.size)
    (hL : ∀ x ∈ seq.toList, x < 23) :
    let r := alnRun entry (exactParam Gen.mat1 55000 8000 4000) (.seqseq seq seq) seq.size seq.size
      (initMem seq.size seq.size)
    r.fault = false ∧
      ∃ codes, expandPath seq.size (r.pathEntries seq.size) = some codes ∧
        codes.map Col.ofCode = List.replicate seq.size .both :=
  C08_identical_pair_diag_direct_table entry Gen.mat1 55000 8000 4000 23 (by decide +kernel) seq h1 hL

/-! ## groups of identical copies (`k` copies against `m` copies of the same sequence), as `do_align` runs them -/

/-- **`k` copies against `m` copies of the same sequence** (profile – profile; equal lengths, so `do_align` exchanges the
operands and mirrors the path): the result is the gap-free diagonal, under the per-residue condition alone -/
theorem C08_identical_groups_diag_direct (entry : Entry) (ap : AlnParam ExactScore) (gpo gpe tgpe : Int)
    (s : Nat → Nat → Int) (hap : ApOK ap gpo gpe tgpe s) (hgpo : 0 ≤ gpo) (hgpe : 0 ≤ gpe) (htgpe : 0 ≤ tgpe)
    (hsym : ∀ x y, s x y = s y x) (seq : Array Nat) (h23 : ∀ i, seq.getD i 0 < 23) (h1 : 1 ≤ seq.size)
    (pa pb : Array ExactScore) (k m : Nat) (hk : 1 ≤ k) (hm : 1 ≤ m) (hpa : Built ap seq pa k) (hpb : Built ap seq pb m)
    (hself : ∀ x ∈ seq.toList, 0 < s x x + 2 * min gpo (min gpe tgpe))
    (hdom : ∀ x ∈ seq.toList, ∀ y ∈ seq.toList, 2 * s x y ≤ s x x + s y y) :
    ∃ codes, dpCodes entry ap (.profprof (setGapPenalties pb k) (setGapPenalties pa m)) true seq.size seq.size
        seq.size seq.size = some codes ∧ codes.map Col.ofCode = List.replicate seq.size .both := by
  have hPa := built_profOK ap gpo gpe tgpe s hap seq h23 pa k m hpa
  have hPb := built_profOK ap gpo gpe tgpe s hap seq h23 pb m k hpb
  have hrun := diag_runOK_pp entry ap gpo gpe tgpe s hap hsym seq h23 ⟨hgpo, hgpe, htgpe, hself, hdom⟩ _ _ m k hm hk hPb hPa
  exact dp_swapped entry ap _ seq.size seq.size (diagCols seq.size) (by rw [diagCols_swap]; exact hrun)
    (validCols_diag _) (adjOK_diag _ _) h1 h1

/-- **one sequence against `k` copies of itself** (sequence – profile, group on side `b`) -/
theorem C08_identical_seq_group_diag_direct (entry : Entry) (ap : AlnParam ExactScore) (gpo gpe tgpe : Int)
    (s : Nat → Nat → Int) (hap : ApOK ap gpo gpe tgpe s) (hgpo : 0 ≤ gpo) (hgpe : 0 ≤ gpe) (htgpe : 0 ≤ tgpe)
    (seq : Array Nat) (h23 : ∀ i, seq.getD i 0 < 23) (h1 : 1 ≤ seq.size)
    (pb : Array ExactScore) (k : Nat) (hk : 1 ≤ k) (hpb : Built ap seq pb k)
    (hself : ∀ x ∈ seq.toList, 0 < s x x + 2 * min gpo (min gpe tgpe))
    (hdom : ∀ x ∈ seq.toList, ∀ y ∈ seq.toList, 2 * s x y ≤ s x x + s y y) :
    ∃ codes, dpCodes entry ap (.seqprof (setGapPenalties pb 1) seq k) true seq.size seq.size seq.size seq.size =
        some codes ∧ codes.map Col.ofCode = List.replicate seq.size .both := by
  have hPb := built_profOK ap gpo gpe tgpe s hap seq h23 pb k 1 hpb
  have hrun := diag_runOK_sp entry ap gpo gpe tgpe s hap seq h23 ⟨hgpo, hgpe, htgpe, hself, hdom⟩ _ k hk hPb
  exact dp_swapped entry ap _ seq.size seq.size (diagCols seq.size) (by rw [diagCols_swap]; exact hrun)
    (validCols_diag _) (adjOK_diag _ _) h1 h1

/-- **`k` copies against one sequence** (group on side `a`) -/
theorem C08_identical_group_seq_diag_direct (entry : Entry) (ap : AlnParam ExactScore) (gpo gpe tgpe : Int)
    (s : Nat → Nat → Int) (hap : ApOK ap gpo gpe tgpe s) (hgpo : 0 ≤ gpo) (hgpe : 0 ≤ gpe) (htgpe : 0 ≤ tgpe)
    (seq : Array Nat) (h23 : ∀ i, seq.getD i 0 < 23) (h1 : 1 ≤ seq.size)
    (pa : Array ExactScore) (k : Nat) (hk : 1 ≤ k) (hpa : Built ap seq pa k)
    (hself : ∀ x ∈ seq.toList, 0 < s x x + 2 * min gpo (min gpe tgpe))
    (hdom : ∀ x ∈ seq.toList, ∀ y ∈ seq.toList, 2 * s x y ≤ s x x + s y y) :
    ∃ codes, dpCodes entry ap (.seqprof (setGapPenalties pa 1) seq k) false seq.size seq.size seq.size seq.size =
        some codes ∧ codes.map Col.ofCode = List.replicate seq.size .both := by
  have hPa := built_profOK ap gpo gpe tgpe s hap seq h23 pa k 1 hpa
  have hrun := diag_runOK_sp entry ap gpo gpe tgpe s hap seq h23 ⟨hgpo, hgpe, htgpe, hself, hdom⟩ _ k hk hPa
  exact dp_unswapped entry ap _ seq.size seq.size (diagCols seq.size) hrun (validCols_diag _) (adjOK_diag _ _) h1 h1

/-- the per-residue condition of a table row over the codes `< L` gives the hypotheses of the group theorems for every
sequence over these codes -/
theorem diagCondD_spec (m : List (List Int)) (gpo gpe tgpe : Int) (L : Nat) (hc : diagCondD m gpo gpe tgpe L = true)
    (seq : Array Nat) (hL : ∀ x ∈ seq.toList, x < L) :
    0 ≤ 2 * gpo ∧ 0 ≤ 2 * gpe ∧ 0 ≤ 2 * tgpe ∧
    (∀ x ∈ seq.toList, 0 < exactSub m x x + 2 * min (2 * gpo) (min (2 * gpe) (2 * tgpe))) ∧
    (∀ x ∈ seq.toList, ∀ y ∈ seq.toList, 2 * exactSub m x y ≤ exactSub m x x + exactSub m y y) := by
  unfold diagCondD at hc
  simp only [List.all_eq_true, Bool.and_eq_true, decide_eq_true_eq, List.mem_range] at hc
  obtain ⟨⟨⟨h0, h2⟩, h3⟩, h4⟩ := hc
  exact ⟨by omega, by omega, by omega, fun x hx => (h4 x (hL x hx)).1, fun x hx y hy => (h4 x (hL x hx)).2 y (hL y hy)⟩

/-- the DNA matrix of the table is symmetric -/
theorem mat3_symm : ∀ x y, exactSub Gen.mat3 x y = exactSub Gen.mat3 y x :=
  exactSub_symm Gen.mat3 (by decide +kernel)

/-- **plain DNA parameters, `k` copies against `m` copies** of a sequence over the five nucleotide codes -/
theorem C08_identical_groups_diag_dna0 (entry : Entry) (seq : Array Nat) (h1 : 1 ≤ seq.size) (hL : ∀ x ∈ seq.toList, x < 5)
    (h23 : ∀ i, seq.getD i 0 < 23) (pa pb : Array ExactScore) (k m : Nat) (hk : 1 ≤ k) (hm : 1 ≤ m)
    (hpa : Built (exactParam Gen.mat3 8000 6000 0) seq pa k) (hpb : Built (exactParam Gen.mat3 8000 6000 0) seq pb m) :
    ∃ codes, dpCodes entry (exactParam Gen.mat3 8000 6000 0) (.profprof (setGapPenalties pb k) (setGapPenalties pa m)) true
        seq.size seq.size seq.size seq.size = some codes ∧ codes.map Col.ofCode = List.replicate seq.size .both := by
  obtain ⟨a1, a2, a3, a4, a5⟩ := diagCondD_spec Gen.mat3 8000 6000 0 5 (by decide +kernel) seq hL
  exact C08_identical_groups_diag_direct entry _ _ _ _ (exactSub Gen.mat3) (exactParam_ok Gen.mat3 8000 6000 0) a1 a2 a3
    mat3_symm seq h23 h1 pa pb k m hk hm hpa hpb a4 a5

/-! ## non-vacuity -/

/-- the hypotheses of `C08_identical_pair_diag_direct` hold for a DNA sequence containing `N` (code 4) under the plain DNA
parameters (units 1/2000: gpo 16000, gpe 12000, tgpe 0, match 10000) … -/
example : (∀ x ∈ (#[0, 1, 4, 3, 3, 2] : Array Nat).toList,
      0 < exactSub Gen.mat3 x x + 2 * min (2 * 8000) (min (2 * 6000) (2 * 0))) ∧
    (∀ x ∈ (#[0, 1, 4, 3, 3, 2] : Array Nat).toList, ∀ y ∈ (#[0, 1, 4, 3, 3, 2] : Array Nat).toList,
      2 * exactSub Gen.mat3 x y ≤ exactSub Gen.mat3 x x + exactSub Gen.mat3 y y) := by decide +kernel

/-- … where the margin-based check of `Props/C08Opt.lean` fails … -/
example : diagCond Gen.mat3 8000 6000 0 [0, 1, 4, 3, 3, 2] = false := by decide +kernel

/-- … and the conclusion is what the model computes (both entry points) -/
example :
    let r := alnRun .parallel (exactParam Gen.mat3 8000 6000 0) (.seqseq #[0, 1, 4, 3, 3, 2] #[0, 1, 4, 3, 3, 2]) 6 6
      (initMem 6 6)
    r.fault = false ∧ (expandPath 6 (r.pathEntries 6)).map (·.map Col.ofCode) = some (List.replicate 6 .both) := by
  decide +kernel

/-- a protein sequence with the wildcard `X` (code 22, self-score −1.0): the direct condition holds, the margin-based one
fails, the model returns the diagonal -/
example : diagCond Gen.mat0 5500 2000 1000 [0, 22, 22, 7] = false ∧ exactSub Gen.mat0 22 22 = -2000 ∧
    (let r := alnRun .serial (exactParam Gen.mat0 5500 2000 1000) (.seqseq #[0, 22, 22, 7] #[0, 22, 22, 7]) 4 4 (initMem 4 4)
     r.fault = false ∧ (expandPath 4 (r.pathEntries 4)).map (·.map Col.ofCode) = some (List.replicate 4 .both)) := by
  decide +kernel

/-- the RNA row: the direct check holds for all five nucleotide codes (no length bound; the margin-based check of
`Props/C08Opt.lean` charges `max(0, tgpe − gpe) = 253.2` plus `len/2000` against the self-score and so bounds the length) -/
example : diagCondD Gen.mat2 217000 39400 292600 5 = true ∧
    (let r := alnRun .parallel (exactParam Gen.mat2 217000 39400 292600) (.seqseq #[4, 0, 3, 3] #[4, 0, 3, 3]) 4 4 (initMem 4 4)
     r.fault = false ∧ (expandPath 4 (r.pathEntries 4)).map (·.map Col.ofCode) = some (List.replicate 4 .both)) := by
  decide +kernel

/-- the condition is a genuine restriction: with a self-score of −20 and free terminal gaps (`tgpe = 0`) it fails, and the
model indeed does **not** return the diagonal (a hypothetical parameter row, not one of kalign's; for zero or mildly negative
self-scores the diagonal still wins, because an aligned column after a terminal gap run is charged `gpo`) -/
example : diagCondD [[-20000]] 8000 6000 0 1 = false ∧
    (let r := alnRun .serial (exactParam [[-20000]] 8000 6000 0) (.seqseq #[0, 0] #[0, 0]) 2 2 (initMem 2 2)
     r.pathEntries 2 = [-1, 1] ∧
     (expandPath 2 (r.pathEntries 2)).map (·.map Col.ofCode) = some [.gapB, .both, .gapA]) := by
  decide +kernel

/-- two copies of the DNA sequence (A,C,N,T) under the plain DNA parameters, built by one diagonal `update_n` -/
def exGroupD : Array ExactScore :=
  (updateN (exactParam Gen.mat3 8000 6000 0) (makeProfile (exactParam Gen.mat3 8000 6000 0) #[0, 1, 4, 3])
    (makeProfile (exactParam Gen.mat3 8000 6000 0) #[0, 1, 4, 3]) [0, 0, 0, 0] 1 1).getD #[]

theorem exGroupD_built : Built (exactParam Gen.mat3 8000 6000 0) #[0, 1, 4, 3] exGroupD 2 := by
  obtain ⟨p, hp, hb⟩ := built_merge_exists (exactParam Gen.mat3 8000 6000 0) _ _ _ _
    (exactParam_ok Gen.mat3 8000 6000 0) #[0, 1, 4, 3] (getD_lt_of_all _ (by decide +kernel)) _ _ 1 1 1 1
    Built.leaf Built.leaf
  have : exGroupD = p := by
    unfold exGroupD
    have h3 : (List.replicate (#[0, 1, 4, 3] : Array Nat).size 0) = [0, 0, 0, 0] := rfl
    rw [h3] at hp
    rw [hp]; rfl
  rw [this]; exact hb

/-- the hypotheses of `C08_identical_groups_diag_dna0` hold for two copies against two copies … -/
example : ∃ codes, dpCodes .parallel (exactParam Gen.mat3 8000 6000 0)
      (.profprof (setGapPenalties exGroupD 2) (setGapPenalties exGroupD 2)) true 4 4 4 4 = some codes ∧
    codes.map Col.ofCode = List.replicate 4 .both :=
  C08_identical_groups_diag_dna0 .parallel #[0, 1, 4, 3] (by decide) (by decide) (getD_lt_of_all _ (by decide +kernel))
    exGroupD exGroupD 2 2 (by decide) (by decide) exGroupD_built exGroupD_built

/-- … and the model computes the diagonal -/
example : dpCodes .parallel (exactParam Gen.mat3 8000 6000 0)
    (.profprof (setGapPenalties exGroupD 2) (setGapPenalties exGroupD 2)) true 4 4 4 4 = some [0, 0, 0, 0] := by
  decide +kernel

end Kalign
