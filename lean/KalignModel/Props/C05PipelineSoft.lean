import KalignModel.Props.C05PipelineC
import KalignModel.Props.SoftFloat
import KalignModel.Lemmas.SoftProfMon
import KalignModel.Lemmas.SoftProfBnd
/-!
# C05 (pipeline) on the software binary32 carrier: `kalignRunSoft`

`kalignRunSoft` (Model/PipelineSoft.lean) is `kalignRun` with every DP score in `SoftF32` (tied to the real `kalign()` by the op
`kalign_sys_soft`).  `Props/C05Pipeline.lean` leaves two hypotheses about binary32 values: `PipelineUpgmaHyp` (guide tree, still on
`Float32` here) and `PipelineMonHyp` (every Hirschberg run passes the meetup monitor).  On the `SoftF32` carrier values can be
reasoned about, and the sequence–sequence part of the monitor hypothesis is **proved** (`Props/SoftFloat.lean`
`C07Soft_seqseq_mon`).  What remains open is the same statement for merges with at least one profile operand
(`MonHypProfS`); the goal is

    theorem kalignRunSoft_never_fault_monitor (inp) (type) (gpo gpe tgpe : SoftF32) (hlen : ∀ x ∈ inp, x.seq.length < 2²¹) :
        kalignRunSoft inp type gpo gpe tgpe ≠ .error .fault ∧ kalignRunSoft inp type gpo gpe tgpe ≠ .error .monitor

## what is proved

* `kalignRunSoft_never_fuel` — full.
* `kalignRunSoft_never_tree_partial` — under `PipelineUpgmaHyp` (unchanged: the guide tree is computed on `Float32`).
* `monHypInvC_of_prof` — `MonHypInvC` (the monitor hypothesis of the generic pipeline theorem) follows from its restriction
  `MonHypProfS` to merges that are not sequence–sequence, for every admitted parameter set and leaves with
  `len_i + len_j < 2²²`.
* `kalignRunSoft_never_fault_monitor_partial` — the goal under `PipelineMonHypProfSoft`.

* `mergeRunC_mon` — **one merge, any operand kinds** (sequence–sequence, sequence–profile, profile–profile): the Hirschberg run of
  the merge of two nodes passes the monitor as soon as the entries of the prepared profiles of the profile operands are finite and
  bounded (`EntBnd`) and a unit `2^u`, `20 ≤ u ≤ 79`, dominates the gap-penalty entries, the products `count · score` and the scaled
  penalties, and `len_a + len_b < 2¹⁹`.  This is `MonHyp`'s statement for one merge with the hypothesis about *meetup contracts*
  replaced by a hypothesis about *profile entries*; it rests on `Lemmas/SoftProfMon.lean` (`sp_alnRun_mon`, `pp_alnRun_mon`: all
  kernel families, `family_alnRun_mon`), `Lemmas/SoftMul.lean` (`mul_absLe`) and the unit-parametrised class theory
  (`Lemmas/SoftClassU.lean`, `SoftKernelU.lean`, `SoftMeetU.lean`).

* `monHyp_bounded` — **the monitor hypothesis for all operands of bounded size, no hypothesis about values**: two reachable nodes
  (`ReachC`, `NodeInvC`) with at most 2¹⁷ members each and `len_a + len_b < 2¹⁹` pass the monitor, whatever their kinds.  It combines
  `mergeRunC_mon` with `Lemmas/SoftProfBnd.lean`: the stored profile of a node with `nsip = k` is entry-wise bounded by `4·k·2²⁰` outside
  the slots 27..29 (`reachC_profInv`: induction over `make_profile_n` / `update_n` with `add_absLe`, `sub_absLe`, `mul_absLe`), and
  `set_gap_penalties_n(·, k')` bounds the slots 27..29 by `4·k·k'·2²⁰` (`nodeProfC_entBnd`).

**What is still missing** for `kalignRunSoft_never_fault_monitor` without `hM`: `ReachC` over-approximates the operands (it allows a node
to be merged with itself), so `MonHypInvC` as stated quantifies over operands with unbounded `nsip`/`len`, for which binary32 does
overflow; `monHyp_bounded` covers exactly the operands of bounded size.  Needed: the variant of `recAlnC_tree'` that tracks the leaf
list of every node the recursion forms (`nsip = number of leaves`, `len ≤ Σ leaf lengths`) — see `Props/C05PipelineSoftL.lean` if
present — together with the fact that the leaves of the guide tree are pairwise distinct (`buildTasks_cases` only states the leaf
*set*), a structural statement about `bisecting_kmeans` / `upgma` that involves no DP score.
-/
set_option exponentiation.threshold 512
namespace Kalign.Pipeline
open Kalign Kalign.Kmeans Kalign.SoftF32

section generic
variable {α : Type} [Score α]

theorem mergeNodesC_nsip {entry : Entry} {ap : AlnParam α} {A B N : NodeC α} {isLast : Bool}
    (h : mergeNodesC entry ap A B isLast = .ok N) : N.nsip = A.nsip + B.nsip := by
  unfold mergeNodesC at h
  simp only at h
  split at h
  · cases h
  · split at h
    · cases h
    · split at h
      · cases h
      · simp only [Except.ok.injEq] at h
        rw [← h]

theorem reachC_nsip_pos {ap : AlnParam α} {codes : Array (List Nat)} {N : NodeC α} (h : ReachC ap codes N) :
    1 ≤ N.nsip := by
  induction h with
  | leaf i _ => simp [leafNodeC]
  | merge A B N _ _ hm ihA ihB => rw [mergeNodesC_nsip hm]; omega

/-- a reachable node with a single member is a leaf -/
theorem reachC_leaf_of_nsip_one {ap : AlnParam α} {codes : Array (List Nat)} {N : NodeC α} (h : ReachC ap codes N)
    (h1 : N.nsip = 1) : ∃ i, i < codes.size ∧ N = leafNodeC codes i := by
  cases h with
  | leaf i hi => exact ⟨i, hi, rfl⟩
  | merge A B N rA rB hm =>
    have := mergeNodesC_nsip hm
    have := reachC_nsip_pos rA
    have := reachC_nsip_pos rB
    omega

end generic

/-- **what is still open on the `SoftF32` carrier**: the monitor for merges with at least one profile operand -/
def MonHypProfS (ap : AlnParam SoftF32) (codes : Array (List Nat)) : Prop :=
  ∀ A B : NodeC SoftF32, ReachC ap codes A → ReachC ap codes B → NodeInvC A → NodeInvC B →
    ¬ (A.nsip = 1 ∧ B.nsip = 1) → (mergeRunC .serial ap A B).mon = true

theorem orientRun_seqseq {β : Type} [Score β] (entry : Entry) (ap : AlnParam β) (la lb : Nat) (sa sb : Array Nat)
    (pa pb : Array β) :
    orientRun entry ap 1 1 la lb sa sb pa pb =
      if la < lb then alnRun entry ap (.seqseq sa sb) la lb (initMem la lb)
      else alnRun entry ap (.seqseq sb sa) lb la (initMem lb la) := by
  unfold orientRun orient
  by_cases h : la < lb
  · simp [h]
  · simp [h]

theorem mergeRunC_leaves_mon {bt : Nat} {t : Int} {gpo gpe tgpe : SoftF32} {ap : AlnParam SoftF32}
    (hp : paramOfTableS bt t gpo gpe tgpe = some ap) (codes : Array (List Nat)) (i j : Nat)
    (hA : 1 ≤ (codes.getD i []).length) (hB : 1 ≤ (codes.getD j []).length)
    (hl : (codes.getD i []).length + (codes.getD j []).length < 4194304) :
    (mergeRunC .serial ap (leafNodeC codes i) (leafNodeC codes j)).mon = true := by
  have e : mergeRunC .serial ap (leafNodeC codes i) (leafNodeC codes j) =
      orientRun .serial ap 1 1 (codes.getD i []).length (codes.getD j []).length (codes.getD i []).toArray
        (codes.getD j []).toArray (nodeProfC ap (leafNodeC codes i) 1) (nodeProfC ap (leafNodeC codes j) 1) := rfl
  rw [e, orientRun_seqseq]
  generalize (codes.getD i []).length = la at *
  generalize (codes.getD j []).length = lb at *
  generalize (codes.getD i []).toArray = sa
  generalize (codes.getD j []).toArray = sb
  split
  · exact C07Soft_seqseq_mon hp sa sb la lb hA hB hl
  · exact C07Soft_seqseq_mon hp sb sa lb la hB hA (by omega)

/-- the sequence–sequence merges pass the monitor (`C07Soft_seqseq_mon`), so the monitor hypothesis reduces to `MonHypProfS` -/
theorem monHypInvC_of_prof {bt : Nat} {t : Int} {gpo gpe tgpe : SoftF32} {ap : AlnParam SoftF32}
    (hp : paramOfTableS bt t gpo gpe tgpe = some ap) (codes : Array (List Nat))
    (hlen : ∀ i j, i < codes.size → j < codes.size → (codes.getD i []).length + (codes.getD j []).length < 4194304)
    (h : MonHypProfS ap codes) : MonHypInvC ap codes := by
  intro A B rA rB iA iB
  by_cases hs : A.nsip = 1 ∧ B.nsip = 1
  · obtain ⟨i, hi, rfl⟩ := reachC_leaf_of_nsip_one rA hs.1
    obtain ⟨j, hj, rfl⟩ := reachC_leaf_of_nsip_one rB hs.2
    have hA : 1 ≤ (codes.getD i []).length := iA.len
    have hB : 1 ≤ (codes.getD j []).length := iB.len
    have hl := hlen i j hi hj
    exact mergeRunC_leaves_mon hp codes i j hA hB hl
  · exact h A B rA rB iA iB hs

theorem spBnd_of {u Nc Ng : Nat} {ap : AlnParam SoftF32} (hap : ApBnd ap) {prof1 : Array SoftF32} {sip : Nat}
    (hu : u ≤ 79) (hent : EntBnd Nc Ng prof1) (hNc : Nc ≤ 2 ^ u) (hNg : Ng ≤ 2 ^ u) (hsip : sip < 16777216)
    (hpen : 1048576 * sip ≤ 2 ^ u) : SpBnd u Nc Ng ap prof1 sip := by
  have hs : absLe (SoftF32.ofNat sip) sip := ofNat_absLe hsip
  have hm : ∀ x : SoftF32, absLe x 1048576 → absLe (Score.mul x (Score.ofNat sip : SoftF32)) (1 * 2 ^ u) := by
    intro x hx
    exact mul_absLe hx hs (by rw [Nat.one_mul]; exact hpen) (by decide) (by omega)
  exact ⟨hu, hent, hNc, hNg, hm _ hap.gpo, hm _ hap.gpe, hm _ hap.tgpe⟩

theorem orientRun_cases {β : Type} [Score β] (entry : Entry) (ap : AlnParam β) (na nb la lb : Nat) (sa sb : Array Nat)
    (pa pb : Array β) :
    orientRun entry ap na nb la lb sa sb pa pb =
      if na = 1 then
        if nb = 1 then
          if la < lb then alnRun entry ap (.seqseq sa sb) la lb (initMem la lb)
          else alnRun entry ap (.seqseq sb sa) lb la (initMem lb la)
        else alnRun entry ap (.seqprof pb sa nb) lb la (initMem lb la)
      else
        if nb = 1 then alnRun entry ap (.seqprof pa sb na) la lb (initMem la lb)
        else if la < lb then alnRun entry ap (.profprof pa pb) la lb (initMem la lb)
        else alnRun entry ap (.profprof pb pa) lb la (initMem lb la) := by
  unfold orientRun orient
  by_cases h1 : na = 1 <;> by_cases h2 : nb = 1 <;> by_cases h3 : la < lb <;> simp [h1, h2, h3]

/-- **one merge, any operand kinds**: the Hirschberg run of the merge of two nodes passes the monitor when the entries of the
prepared profiles (of the operands that are profiles) are bounded and the unit `2^u` dominates them, their products
`count · score`, and the scaled penalties -/
theorem mergeRunC_mon {bt : Nat} {t : Int} {gpo gpe tgpe : SoftF32} {ap : AlnParam SoftF32}
    (hp : paramOfTableS bt t gpo gpe tgpe = some ap) (A B : NodeC SoftF32) (iA : NodeInvC A) (iB : NodeInvC B)
    (u NcA NgA NcB NgB : Nat) (hu : u ≤ 79) (hu20 : 20 ≤ u)
    (hA : A.nsip ≠ 1 → EntBnd NcA NgA (nodeProfC ap A B.nsip))
    (hB : B.nsip ≠ 1 → EntBnd NcB NgB (nodeProfC ap B A.nsip))
    (hNcA : NcA ≤ 2 ^ u) (hNgA : NgA ≤ 2 ^ u) (hNcB : NcB ≤ 2 ^ u) (hNgB : NgB ≤ 2 ^ u) (hprod : NcA * NcB ≤ 2 ^ u)
    (hsA : A.nsip < 16777216) (hsB : B.nsip < 16777216)
    (hpA : 1048576 * A.nsip ≤ 2 ^ u) (hpB : 1048576 * B.nsip ≤ 2 ^ u)
    (hlen : A.len + B.len < 524288) :
    (mergeRunC .serial ap A B).mon = true := by
  have hap := paramOfTableS_bnd hp
  have lA := iA.len
  have lB := iB.len
  unfold mergeRunC
  rw [orientRun_cases]
  by_cases h1 : A.nsip = 1
  · by_cases h2 : B.nsip = 1
    · simp only [h1, h2, if_true]
      split
      · exact C07Soft_seqseq_mon hp _ _ _ _ lA lB (by omega)
      · exact C07Soft_seqseq_mon hp _ _ _ _ lB lA (by omega)
    · simp only [h1, h2, if_true, if_false]
      exact sp_alnRun_mon (spBnd_of hap hu (by have := hB h2; rwa [h1] at this) hNcB hNgB hsB hpB) hu20 _ _ _ lB lA
        (by omega) (by omega)
  · by_cases h2 : B.nsip = 1
    · simp only [h1, h2, if_true, if_false]
      exact sp_alnRun_mon (spBnd_of hap hu (by have := hA h1; rwa [h2] at this) hNcA hNgA hsA hpA) hu20 _ _ _ lA lB
        (by omega) (by omega)
    · simp only [h1, h2, if_false]
      split
      · exact pp_alnRun_mon (ap := ap) ⟨hu, hA h1, hB h2, hNgA, hNgB, hprod⟩ hu20 _ _ lA lB (by omega) (by omega)
      · exact pp_alnRun_mon (ap := ap) ⟨hu, hB h2, hA h1, hNgB, hNgA, by rw [Nat.mul_comm]; exact hprod⟩ hu20 _ _ lB lA
          (by omega) (by omega)


/-- **the monitor hypothesis for all operands of bounded size**: two reachable nodes with at most 2¹⁷ members each and
`len_a + len_b < 2¹⁹` — whatever their kinds (sequences or profiles) — pass the monitor.  No hypothesis about score values. -/
theorem monHyp_bounded {bt : Nat} {t : Int} {gpo gpe tgpe : SoftF32} {ap : AlnParam SoftF32}
    (hp : paramOfTableS bt t gpo gpe tgpe = some ap) (codes : Array (List Nat)) (A B : NodeC SoftF32)
    (rA : ReachC ap codes A) (rB : ReachC ap codes B) (iA : NodeInvC A) (iB : NodeInvC B)
    (hsA : A.nsip ≤ 131072) (hsB : B.nsip ≤ 131072) (hlen : A.len + B.len < 524288) :
    (mergeRunC .serial ap A B).mon = true := by
  have hap := paramOfTableS_bnd hp
  have h56 : (4 * 131072 * 1048576 * 131072 : Nat) = 1 * 2 ^ 56 := by decide
  have hbA : 4 * A.nsip * 1048576 * B.nsip ≤ 1 * 2 ^ 56 := by
    rw [← h56]
    exact Nat.mul_le_mul (Nat.mul_le_mul_right _ (Nat.mul_le_mul_left _ hsA)) hsB
  have hbB : 4 * B.nsip * 1048576 * A.nsip ≤ 1 * 2 ^ 56 := by
    rw [← h56]
    exact Nat.mul_le_mul (Nat.mul_le_mul_right _ (Nat.mul_le_mul_left _ hsB)) hsA
  have hNc : ∀ k, k ≤ 131072 → 4 * k * 1048576 ≤ 2 ^ 39 := by
    intro k hk
    have : 4 * k * 1048576 ≤ 4 * 131072 * 1048576 := Nat.mul_le_mul_right _ (Nat.mul_le_mul_left _ hk)
    have e : (4 * 131072 * 1048576 : Nat) = 2 ^ 39 := by decide
    omega
  have h3978 : (2 : Nat) ^ 39 ≤ 2 ^ 78 := Nat.pow_le_pow_right (by decide) (by decide)
  have h5678 : (1 : Nat) * 2 ^ 56 ≤ 2 ^ 78 := by
    rw [Nat.one_mul]; exact Nat.pow_le_pow_right (by decide) (by decide)
  refine mergeRunC_mon hp A B iA iB 78 (4 * A.nsip * 1048576) (1 * 2 ^ 56) (4 * B.nsip * 1048576) (1 * 2 ^ 56)
    (by decide) (by decide)
    (fun h1 => nodeProfC_entBnd ap hap codes A rA h1 B.nsip (by omega) (by omega) 1 56 (by decide) (by decide) hbA)
    (fun h2 => nodeProfC_entBnd ap hap codes B rB h2 A.nsip (by omega) (by omega) 1 56 (by decide) (by decide) hbB)
    (Nat.le_trans (hNc _ hsA) h3978) h5678 (Nat.le_trans (hNc _ hsB) h3978) h5678 ?_ (by omega) (by omega) ?_ ?_ hlen
  · have h1 := hNc _ hsA
    have h2 := hNc _ hsB
    have : 4 * A.nsip * 1048576 * (4 * B.nsip * 1048576) ≤ 2 ^ 39 * 2 ^ 39 := Nat.mul_le_mul h1 h2
    have e : (2 : Nat) ^ 39 * 2 ^ 39 = 2 ^ 78 := by rw [← Nat.pow_add]
    omega
  · have : 1048576 * A.nsip ≤ 1048576 * 131072 := Nat.mul_le_mul_left _ hsA
    have e : (1048576 * 131072 : Nat) = 2 ^ 37 := by decide
    have : (2 : Nat) ^ 37 ≤ 2 ^ 78 := Nat.pow_le_pow_right (by decide) (by decide)
    omega
  · have : 1048576 * B.nsip ≤ 1048576 * 131072 := Nat.mul_le_mul_left _ hsB
    have e : (1048576 * 131072 : Nat) = 2 ^ 37 := by decide
    have : (2 : Nat) ^ 37 ≤ 2 ^ 78 := Nat.pow_le_pow_right (by decide) (by decide)
    omega


/-- `PipelineMonHyp` on the `SoftF32` carrier, restricted to the merges that are not sequence–sequence -/
def PipelineMonHypProfSoft (inp : List InSeq) (type : Int) (gpo gpe tgpe : SoftF32) : Prop :=
  ∀ c ap, canon inp = some c → paramOfTableS (bioOf detectF inp).code type gpo gpe tgpe = some ap →
    MonHypProfS ap (alnCodes (bioOf detectF inp) c)

/-- the canonical sequences are input sequences -/
theorem canon_mem (inp : List InSeq) (c : List RSeq) (h : canon inp = some c) :
    ∀ x ∈ view c, ∃ y ∈ inp, y.seq = x.2 := by
  unfold canon at h
  cases he : essentialInputCheck inp with
  | none => rw [he] at h; cases h
  | some l =>
    rw [he] at h
    simp only [Option.map_some, Option.some.injEq] at h
    subst h
    have hv := essentialInputCheck_view inp l he
    have hperm : (view (sortLenName l)).Perm (view l) := (List.mergeSort_perm l leLenName).map _
    intro x hx
    have hx' := hperm.mem_iff.1 hx
    rw [hv] at hx'
    unfold keptView at hx'
    simp only [List.mem_map, List.mem_filter] at hx'
    obtain ⟨y, ⟨hy, _⟩, rfl⟩ := hx'
    exact ⟨y, hy, rfl⟩

theorem alnCodes_length (bio : Bio) (c : List RSeq) (i : Nat) (hi : i < (alnCodes bio c).size) :
    ∃ x ∈ view c, ((alnCodes bio c).getD i []).length = x.2.length := by
  unfold alnCodes at hi ⊢
  simp only [List.size_toArray, List.length_map] at hi
  have hiv : i < (view c).length := by simpa using hi
  refine ⟨(view c)[i], List.getElem_mem hiv, ?_⟩
  simp [Array.getD, hi, length_convertN, bytesOf]

/-- **stage "fuel" (full)** -/
theorem kalignRunSoft_never_fuel (inp : List InSeq) (type : Int) (gpo gpe tgpe : SoftF32) :
    kalignRunSoft inp type gpo gpe tgpe ≠ .error .fuel := by
  have h := (kalignRunWithC_cases' (fun bio => paramOfTableS bio.code type gpo gpe tgpe) inp).1
  unfold kalignRunSoft
  cases hr : kalignRunWithC detectF true (fun bio => paramOfTableS bio.code type gpo gpe tgpe) inp with
  | ok v => simp [Except.map]
  | error e =>
    rw [hr] at h
    simp only [Except.map, ne_eq, Except.error.injEq] at h ⊢
    exact h

/-- **stage "tree"** under `PipelineUpgmaHyp` (the guide tree is computed on `Float32` in `kalignRunSoft` too) -/
theorem kalignRunSoft_never_tree_partial (inp : List InSeq) (type : Int) (gpo gpe tgpe : SoftF32)
    (hU : PipelineUpgmaHyp inp) : kalignRunSoft inp type gpo gpe tgpe ≠ .error .tree := by
  have h := (kalignRunWithC_cases' (fun bio => paramOfTableS bio.code type gpo gpe tgpe) inp).2.1 hU
  unfold kalignRunSoft
  cases hr : kalignRunWithC detectF true (fun bio => paramOfTableS bio.code type gpo gpe tgpe) inp with
  | ok v => simp [Except.map]
  | error e =>
    rw [hr] at h
    simp only [Except.map, ne_eq, Except.error.injEq] at h ⊢
    exact h

/-- **stages "fault" and "monitor"** on the `SoftF32` carrier: input sequences shorter than 2²¹; missing fact =
`PipelineMonHypProfSoft` (the monitor for merges with at least one *profile* operand; the sequence–sequence merges are proved).
Full statement: the same without `hM`. -/
theorem kalignRunSoft_never_fault_monitor_partial (inp : List InSeq) (type : Int) (gpo gpe tgpe : SoftF32)
    (hlen : ∀ x ∈ inp, x.seq.length < 2097152) (hM : PipelineMonHypProfSoft inp type gpo gpe tgpe) :
    kalignRunSoft inp type gpo gpe tgpe ≠ .error .fault ∧ kalignRunSoft inp type gpo gpe tgpe ≠ .error .monitor := by
  have h := (kalignRunWithC_cases' (fun bio => paramOfTableS bio.code type gpo gpe tgpe) inp).2.2 (by
    intro c ap hc hp
    refine monHypInvC_of_prof hp _ ?_ (hM c ap hc hp)
    intro i j hi hj
    obtain ⟨x, hx, ex⟩ := alnCodes_length _ c i hi
    obtain ⟨y, hy, ey⟩ := alnCodes_length _ c j hj
    obtain ⟨x', hx', ex'⟩ := canon_mem inp c hc x hx
    obtain ⟨y', hy', ey'⟩ := canon_mem inp c hc y hy
    have := hlen x' hx'
    have := hlen y' hy'
    rw [ex, ey, ← ex', ← ey']
    omega)
  unfold kalignRunSoft
  cases hr : kalignRunWithC detectF true (fun bio => paramOfTableS bio.code type gpo gpe tgpe) inp with
  | ok v => simp [Except.map]
  | error e =>
    rw [hr] at h
    simp only [Except.map, ne_eq, Except.error.injEq] at h ⊢
    exact h

/-- the goal under the two remaining hypotheses -/
theorem kalignRunSoft_never_faults_partial (inp : List InSeq) (type : Int) (gpo gpe tgpe : SoftF32)
    (hlen : ∀ x ∈ inp, x.seq.length < 2097152) (hU : PipelineUpgmaHyp inp)
    (hM : PipelineMonHypProfSoft inp type gpo gpe tgpe) :
    kalignRunSoft inp type gpo gpe tgpe ≠ .error .fault ∧ kalignRunSoft inp type gpo gpe tgpe ≠ .error .tree ∧
    kalignRunSoft inp type gpo gpe tgpe ≠ .error .monitor ∧ kalignRunSoft inp type gpo gpe tgpe ≠ .error .fuel :=
  ⟨(kalignRunSoft_never_fault_monitor_partial inp type gpo gpe tgpe hlen hM).1,
    kalignRunSoft_never_tree_partial inp type gpo gpe tgpe hU,
    (kalignRunSoft_never_fault_monitor_partial inp type gpo gpe tgpe hlen hM).2,
    kalignRunSoft_never_fuel inp type gpo gpe tgpe⟩

end Kalign.Pipeline

/-! non-vacuity of `pp_alnRun_mon` / `mergeRunC_mon`'s profile hypotheses: two prepared profiles (default DNA parameters, partner
count 2) satisfy `EntBnd` with all bounds `2²⁰` (checked by kernel evaluation), unit `2⁴⁰` -/
namespace Kalign
open SoftF32 Pipeline

def exProf1 : Array SoftF32 := setGapPenalties (makeProfile exApS #[0, 1]) 2
def exProf2 : Array SoftF32 := setGapPenalties (makeProfile exApS #[2, 0, 1]) 2

set_option maxRecDepth 100000 in
example : (alnRun .serial exApS (.profprof exProf1 exProf2) 2 3 (initMem 2 3)).mon = true :=
  pp_alnRun_mon (u := 40) (Nc1 := 1048576) (Ng1 := 1048576) (Nc2 := 1048576) (Ng2 := 1048576)
    ⟨by decide, entBnd_of_check (by decide +kernel), entBnd_of_check (by decide +kernel), by decide, by decide, by decide⟩
    (by decide) 2 3 (by decide) (by decide) (by decide) (by decide)

end Kalign
