import KalignModel.Model.Detect
import KalignModel.Lemmas.Detect
/-!
# C13 — nucleotide and protein inputs are recognised from their residue letters

`detectExact` (Model/Detect.lean) is the exact-arithmetic reading of `detect_alphabet`: DNA iff
Π pDna(c)^n_c > Π pProt(c)^n_c over the byte histogram; the letter sets and the four probabilities are
regenerated from the C text (Gen/Consts.lean).  The executable double-precision model `detectF` is tied to the C
function bit-for-bit by correspondence and to `detectExact` by measurement (A-float).
-/
namespace Kalign
open DetectLemmas

/-- number of counted bytes in class `p` -/
def countWhere (p : Nat → Bool) (hist : List Nat) : Nat :=
  (hist.zipIdx.filter fun nc => p nc.2).foldl (fun a nc => a + nc.1) 0

def isNuc (c : Nat) : Bool := [65, 67, 71, 84, 85, 78, 97, 99, 103, 116, 117, 110].contains c   -- ACGTUN acgtun
def isProtOnly (c : Nat) : Bool := Gen.proteinLettersB.contains c && !Gen.dnaLettersB.contains c
def total (hist : List Nat) : Nat := hist.foldl (· + ·) 0

theorem countWhere_eq_sumW (p : Nat → Bool) (hist : List Nat) : countWhere p hist = sumW p hist.zipIdx := by
  unfold countWhere
  rw [foldl_filter_sum, Nat.zero_add]

theorem total_eq_sumW (hist : List Nat) : total hist = sumW (fun _ => true) hist.zipIdx := by
  unfold total
  rw [foldl_add_zipIdx hist 0 0, Nat.zero_add]

/-- the nucleotide letters of the property are letters of both sets of `detect_alphabet` -/
theorem isNuc_shared (c : Nat) (h : isNuc c = true) : (isD c && isP c) = true := by
  have hm : c ∈ [65, 67, 71, 84, 85, 78, 97, 99, 103, 116, 117, 110] := by simpa [isNuc] using h
  have hall : ∀ c ∈ [65, 67, 71, 84, 85, 78, 97, 99, 103, 116, 117, 110], (isD c && isP c) = true := by decide
  exact hall c hm

theorem isProtOnly_eq (c : Nat) : isProtOnly c = (!isD c && isP c) := by
  unfold isProtOnly isD isP
  exact Bool.and_comm _ _

/-- (P1) input whose residues are all nucleotide letters (A, C, G, T, U, N in either case) is nucleotide -/
theorem C13_p1_dna (hist : List Nat) (hlen : hist.length = 128)
    (hall : countWhere isNuc hist = total hist) (hne : 0 < total hist) :
    detectExact hist = .dna := by
  have _ := hlen
  rw [countWhere_eq_sumW, total_eq_sumW] at hall
  rw [total_eq_sumW] at hne
  have hle : sumW isNuc hist.zipIdx ≤ nS hist.zipIdx := sumW_mono isNuc_shared _
  have htot := total_eq_classes hist.zipIdx
  exact detect_dna_of_classes hist (by omega) (by omega) (by omega)

/-- (P2) input in which at least a quarter of the residues are protein-only letters is protein.
`hletters`: everything counted is an ASCII letter (the readers count letters only). -/
theorem C13_p2_protein (hist : List Nat) (hlen : hist.length = 128)
    (hletters : countWhere (fun c => (65 ≤ c && c ≤ 90) || (97 ≤ c && c ≤ 122)) hist = total hist)
    (hq : total hist ≤ 4 * countWhere isProtOnly hist) (hne : 0 < total hist) :
    detectExact hist = .protein := by
  have _ := hlen
  have _ := hletters
  rw [countWhere_eq_sumW, total_eq_sumW] at hq
  rw [total_eq_sumW] at hne
  have htot := total_eq_classes hist.zipIdx
  have hP : sumW isProtOnly hist.zipIdx = nP hist.zipIdx :=
    sumW_congr _ (fun nc _ => isProtOnly_eq nc.2)
  exact detect_protein_of_classes hist (by omega) (by omega)

/-- byte histogram of a list of sequences (as the readers build it) -/
def histOf (seqs : List (List Nat)) : List Nat :=
  (List.range 128).map fun c => (seqs.map fun s => s.count c).foldl (· + ·) 0

theorem histOf_perm {seqs seqs' : List (List Nat)} (h : seqs.Perm seqs') : histOf seqs = histOf seqs' := by
  unfold histOf
  apply List.map_congr_left
  intro c _
  rw [foldl_add_eq_sum, foldl_add_eq_sum]
  exact (h.map _).sum_nat

/-- (P3) the decision is the same for any order of the sequences (names never enter) -/
theorem C13_p3_order (seqs seqs' : List (List Nat)) (h : seqs.Perm seqs') :
    detectExact (histOf seqs) = detectExact (histOf seqs') := by
  rw [histOf_perm h]

/-- the protein-only letters of the current source are exactly D E F H I K L M P Q R S V W Y (both cases) -/
theorem C13_protein_only_letters :
    (List.range 128).filter isProtOnly =
      [68, 69, 70, 72, 73, 75, 76, 77, 80, 81, 82, 83, 86, 87, 89,
       100, 101, 102, 104, 105, 107, 108, 109, 112, 113, 114, 115, 118, 119, 121] := by decide +kernel

/-- every nucleotide letter of the property is a DNA letter of the current source -/
theorem C13_nuc_letters : ∀ c ∈ List.range 128, isNuc c = Gen.dnaLettersB.contains c := by decide +kernel

-- non-vacuity: "ACGU" x 1 is nucleotide, "UD" "UD" (a quarter protein-only … here a half) is protein
-- (byte lists written out so that the kernel can evaluate them: "ACGU" = [65,67,71,85], "UD" = [85,68])
example : detectExact (histOf [[65, 67, 71, 85]]) = .dna := by decide +kernel
example : detectExact (histOf [[85, 68], [85, 68]]) = .protein := by decide +kernel

-- the hypotheses of P1 hold for the histogram of "ACGU", "acgtn"
example : (histOf [[65, 67, 71, 85], [97, 99, 103, 116, 110]]).length = 128 ∧
    countWhere isNuc (histOf [[65, 67, 71, 85], [97, 99, 103, 116, 110]]) =
      total (histOf [[65, 67, 71, 85], [97, 99, 103, 116, 110]]) ∧
    0 < total (histOf [[65, 67, 71, 85], [97, 99, 103, 116, 110]]) := by decide +kernel

-- the hypotheses of P2 hold together: "ACGD" (exactly a quarter protein-only: the boundary case) and
-- "MKVLAAGIX" + "mkwlsagn" (letters of all three classes, both cases; X is in neither set)
example : (histOf [[65, 67, 71, 68]]).length = 128 ∧
    countWhere (fun c => (65 ≤ c && c ≤ 90) || (97 ≤ c && c ≤ 122)) (histOf [[65, 67, 71, 68]]) =
      total (histOf [[65, 67, 71, 68]]) ∧
    total (histOf [[65, 67, 71, 68]]) ≤ 4 * countWhere isProtOnly (histOf [[65, 67, 71, 68]]) ∧
    0 < total (histOf [[65, 67, 71, 68]]) ∧ total (histOf [[65, 67, 71, 68]]) = 4 ∧
    detectExact (histOf [[65, 67, 71, 68]]) = .protein := by decide +kernel

example :
    let h := histOf [[77, 75, 86, 76, 65, 65, 71, 73, 88], [109, 107, 119, 108, 115, 97, 103, 110]]
    h.length = 128 ∧
    countWhere (fun c => (65 ≤ c && c ≤ 90) || (97 ≤ c && c ≤ 122)) h = total h ∧
    total h ≤ 4 * countWhere isProtOnly h ∧ 0 < total h ∧ total h = 17 ∧ countWhere isProtOnly h = 10 := by
  decide +kernel

-- the two theorems applied to such instances
example : detectExact (histOf [[65, 67, 71, 85], [97, 99, 103, 116, 110]]) = .dna :=
  C13_p1_dna _ (by decide +kernel) (by decide +kernel) (by decide +kernel)
example : detectExact (histOf [[65, 67, 71, 68]]) = .protein :=
  C13_p2_protein _ (by decide +kernel) (by decide +kernel) (by decide +kernel) (by decide +kernel)

-- P2's quarter is a sufficient, not a sharp threshold; the hypothesis `0 < total` is needed (empty input is undecided)
example : detectExact (histOf [[65, 67, 71, 84, 68]]) = .protein := by decide +kernel
example : detectExact (histOf []) = .unknown := by decide +kernel

end Kalign
