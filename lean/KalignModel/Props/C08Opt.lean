import KalignModel.Props.C07Opt
import KalignModel.Props.C08
import KalignModel.Lemmas.DiagOpt
import KalignModel.Props.C07Prof
/-!
# C08 on top of C07 — a sequence aligned with itself comes back as the gap-free diagonal

`C08_identical_pair_diag`: exact carrier, finite non-negative parameters, a non-empty sequence `seq` such that for all its
residues `x`, `y`

    sub x x + 2·c  >  max(0, tgpe−gpe, tgpe−gpo) + max(0, gpe−tgpe) + |seq|        (c = min(2·gpo, gpe, tgpe))
    2·sub x y ≤ sub x x + sub y y

(all in units of 1/2000; `|seq|` bounds the tie-break term of one meetup).  Then the controller on `(seq, seq)` returns
exactly `|seq|` aligned columns.  `c` is what the reference score charges at least per gap column: an internal run of `L`
columns costs `2·gpo + (L−1)·gpe ≥ L·min(2·gpo, gpe)`; it is `min(gpe, tgpe)` whenever `gpe ≤ 2·gpo`
(`C08_identical_pair_diag'`), which holds for every generated default.
-/
namespace Kalign

theorem C08_identical_pair_diag (entry : Entry) (ap : AlnParam ExactScore) (gpo gpe tgpe : Int) (s : Nat → Nat → Int)
    (hap : ApOK ap gpo gpe tgpe s) (hgpo : 0 ≤ gpo) (hgpe : 0 ≤ gpe) (htgpe : 0 ≤ tgpe)
    (seq : Array Nat) (h1 : 1 ≤ seq.size)
    (hd : ∀ x ∈ seq.toList,
      max 0 (max (tgpe - gpe) (tgpe - gpo)) + max 0 (gpe - tgpe) + (seq.size : Int) <
        s x x + 2 * min (min (2 * gpo) gpe) tgpe)
    (h2 : ∀ x ∈ seq.toList, ∀ y ∈ seq.toList, 2 * s x y ≤ s x x + s y y) :
    let r := alnRun entry ap (.seqseq seq seq) seq.size seq.size (initMem seq.size seq.size)
    r.fault = false ∧
      ∃ codes, expandPath seq.size (r.pathEntries seq.size) = some codes ∧
        codes.map Col.ofCode = List.replicate seq.size .both := by
  have hlen : seq.toList.length = seq.size := by simp
  have hV : ValidCols (diagCols seq.size) seq.size seq.size := validCols_diag _
  refine C07_alnRun_opt entry ap gpo gpe tgpe s hap hgpo hgpe htgpe seq seq h1 h1 (diagCols seq.size) hV
    (adjOK_diag _ _) ?_
  intro Q hQ hQadj hne
  have hM : (0 : Int) ≤ max 0 (max (tgpe - gpe) (tgpe - gpo)) + max 0 (gpe - tgpe) + (seq.size : Int) := by omega
  have := diag_margin s gpo gpe tgpe (min (min (2 * gpo) gpe) tgpe)
    (max 0 (max (tgpe - gpe) (tgpe - gpo)) + max 0 (gpe - tgpe) + (seq.size : Int)) hgpe
    (by omega) (by omega) (by omega) hM seq.toList hd h2 Q (by rw [hlen]; exact hQ) hQadj (by rw [hlen]; exact hne)
  rw [hlen] at this
  rw [nterm_diag]
  omega

/-- the same with `c = min(gpe, tgpe)`, when `gpe ≤ 2·gpo` -/
theorem C08_identical_pair_diag' (entry : Entry) (ap : AlnParam ExactScore) (gpo gpe tgpe : Int) (s : Nat → Nat → Int)
    (hap : ApOK ap gpo gpe tgpe s) (hgpo : 0 ≤ gpo) (hgpe : 0 ≤ gpe) (htgpe : 0 ≤ tgpe) (hge : gpe ≤ 2 * gpo)
    (seq : Array Nat) (h1 : 1 ≤ seq.size)
    (hd : ∀ x ∈ seq.toList,
      max 0 (max (tgpe - gpe) (tgpe - gpo)) + max 0 (gpe - tgpe) + (seq.size : Int) < s x x + 2 * min gpe tgpe)
    (h2 : ∀ x ∈ seq.toList, ∀ y ∈ seq.toList, 2 * s x y ≤ s x x + s y y) :
    let r := alnRun entry ap (.seqseq seq seq) seq.size seq.size (initMem seq.size seq.size)
    r.fault = false ∧
      ∃ codes, expandPath seq.size (r.pathEntries seq.size) = some codes ∧
        codes.map Col.ofCode = List.replicate seq.size .both := by
  refine C08_identical_pair_diag entry ap gpo gpe tgpe s hap hgpo hgpe htgpe seq h1 ?_ h2
  intro x hx
  have := hd x hx
  have e : min (min (2 * gpo) gpe) tgpe = min gpe tgpe := by omega
  rw [e]; exact this

/-! ## parameters of the generated tables on the exact carrier (table values are ×1000, the carrier counts 1/2000) -/

def exactSub (m : List (List Int)) (x y : Nat) : Int := if x < 23 ∧ y < 23 then 2 * subOf m x y else 0

def exactParam (m : List (List Int)) (gpo gpe tgpe : Int) : AlnParam ExactScore :=
  { subm := (Array.range 23).map fun i => (Array.range 23).map fun j => some (exactSub m i j)
    gpo := some (2 * gpo), gpe := some (2 * gpe), tgpe := some (2 * tgpe) }

theorem exactParam_ok (m : List (List Int)) (gpo gpe tgpe : Int) :
    ApOK (exactParam m gpo gpe tgpe) (2 * gpo) (2 * gpe) (2 * tgpe) (exactSub m) := by
  refine ⟨rfl, rfl, rfl, ?_⟩
  intro i j
  unfold AlnParam.sub exactParam
  by_cases hi : i < 23
  · by_cases hj : j < 23
    · simp [hi, hj, Array.getD]
    · simp [hi, hj, Array.getD, exactSub]; rfl
  · simp [hi, Array.getD, exactSub]; rfl

/-- the margin condition as a decidable check over the residues of a sequence -/
def diagCond (m : List (List Int)) (gpo gpe tgpe : Int) (seq : List Nat) : Bool :=
  seq.all fun x =>
    decide (max 0 (max (2 * tgpe - 2 * gpe) (2 * tgpe - 2 * gpo)) + max 0 (2 * gpe - 2 * tgpe) + (seq.length : Int) <
      exactSub m x x + 2 * min (2 * gpe) (2 * tgpe)) &&
    seq.all fun y => decide (2 * exactSub m x y ≤ exactSub m x x + exactSub m y y)

/-- **for a row of the generated table**: if the check `diagCond` passes for the sequence, the controller with the exact
parameters of that row returns the diagonal -/
theorem C08_identical_pair_diag_table (entry : Entry) (m : List (List Int)) (gpo gpe tgpe : Int)
    (hgpo : 0 ≤ gpo) (hgpe : 0 ≤ gpe) (htgpe : 0 ≤ tgpe) (hge : gpe ≤ 2 * gpo)
    (seq : Array Nat) (h1 : 1 ≤ seq.size) (hc : diagCond m gpo gpe tgpe seq.toList = true) :
    let r := alnRun entry (exactParam m gpo gpe tgpe) (.seqseq seq seq) seq.size seq.size (initMem seq.size seq.size)
    r.fault = false ∧
      ∃ codes, expandPath seq.size (r.pathEntries seq.size) = some codes ∧
        codes.map Col.ofCode = List.replicate seq.size .both := by
  unfold diagCond at hc
  simp only [List.all_eq_true, Bool.and_eq_true, decide_eq_true_eq, Array.length_toList] at hc
  exact C08_identical_pair_diag' entry _ (2 * gpo) (2 * gpe) (2 * tgpe) (exactSub m) (exactParam_ok m gpo gpe tgpe)
    (by omega) (by omega) (by omega) (by omega) seq h1 (fun x hx => (hc x hx).1) (fun x hx y hy => (hc x hx).2 y hy)

/-! ## non-vacuity -/

/-- protein defaults (`Gen.paramTable`, biotype 0, type −1: matrix 0, gpo 5.5, gpe 2.0, tgpe 1.0) -/
example : ∃ r ∈ Gen.paramTable, r.ok = true ∧ r.biotype = 0 ∧ r.gpo = 5500 ∧ r.gpe = 2000 ∧ r.tgpe = 1000 ∧
    Gen.matrices.getD r.mat [] = Gen.mat0 :=
  ⟨_, List.mem_cons_self, rfl, rfl, rfl, rfl, rfl, rfl⟩

/-- the check passes for a sequence over the twenty amino-acid codes … -/
example : diagCond Gen.mat0 5500 2000 1000 [0, 4, 7, 17, 19, 3, 3, 12] = true := by decide +kernel
/-- … so the theorem applies, and this is what the model computes -/
example :
    let r := alnRun .parallel (exactParam Gen.mat0 5500 2000 1000) (.seqseq #[0, 4, 7, 17, 19, 3, 3, 12]
      #[0, 4, 7, 17, 19, 3, 3, 12]) 8 8 (initMem 8 8)
    r.fault = false ∧ (expandPath 8 (r.pathEntries 8)).map (·.map Col.ofCode) = some (List.replicate 8 .both) := by
  decide +kernel

/-- every standard residue code (0..19) of the protein defaults leaves a margin of 10000 − |seq| (units 1/2000):
sequences of up to 9999 standard residues are covered -/
example : (List.range 20).all (fun x =>
    decide (max 0 (max (2 * 1000 - 2 * 2000) (2 * 1000 - 2 * 5500)) + max 0 (2 * 2000 - 2 * 1000) + 9999 <
      exactSub Gen.mat0 x x + 2 * min (2 * 2000) (2 * 1000)) &&
    (List.range 20).all fun y => decide (2 * exactSub Gen.mat0 x y ≤ exactSub Gen.mat0 x x + exactSub Gen.mat0 y y)) = true := by
  decide +kernel

/-- the wildcard code 22 has self-score −1.0: the safe margin is 0 and the hypothesis fails for every sequence that
contains it (the theorem is silent there, it does not say the diagonal is lost) -/
example : diagCond Gen.mat0 5500 2000 1000 [0, 22] = false := by decide +kernel
example : exactSub Gen.mat0 22 22 = -2000 := by decide +kernel

/-! ## groups of identical copies (`k` copies against `m` copies of the same sequence) -/

/-- the diagonal has the safe margin for every scale `K ≥ 1` and tie bound `T`, under the residue-wise condition with `T` -/
theorem diag_marginK (gpo gpe tgpe : Int) (s : Nat → Nat → Int) (hgpe : 0 ≤ gpe) (seq : Array Nat) (K T : Nat) (hK : 1 ≤ K)
    (hd : ∀ x ∈ seq.toList,
      max 0 (max (tgpe - gpe) (tgpe - gpo)) + max 0 (gpe - tgpe) + (T : Int) <
        s x x + 2 * min (min (2 * gpo) gpe) tgpe)
    (h2 : ∀ x ∈ seq.toList, ∀ y ∈ seq.toList, 2 * s x y ≤ s x x + s y y) :
    MarginK s gpo gpe tgpe seq seq (diagCols seq.size) K T := by
  intro Q hQ hQadj hne
  have hlen : seq.toList.length = seq.size := by simp
  have := diag_margin s gpo gpe tgpe (min (min (2 * gpo) gpe) tgpe)
    (max 0 (max (tgpe - gpe) (tgpe - gpo)) + max 0 (gpe - tgpe) + (T : Int)) hgpe
    (by omega) (by omega) (by omega) (by omega) seq.toList hd h2 Q (by rw [hlen]; exact hQ) hQadj (by rw [hlen]; exact hne)
  rw [hlen] at this
  rw [nterm_diag]
  have hK' : (1 : Int) ≤ (K : Int) := by omega
  have hT : (0 : Int) ≤ (T : Int) := Int.natCast_nonneg T
  generalize scoreST s gpo gpe tgpe Q seq.toList seq.toList = x at this ⊢
  generalize scoreST s gpo gpe tgpe (diagCols seq.size) seq.toList seq.toList = y at this ⊢
  generalize max 0 (max (tgpe - gpe) (tgpe - gpo)) + max 0 (gpe - tgpe) = sl at this ⊢
  have h3 : x + sl + (T : Int) + 1 ≤ y := by omega
  have h4 : (K : Int) * (x + sl + (T : Int) + 1) ≤ (K : Int) * y := Int.mul_le_mul_of_nonneg_left h3 (by omega)
  have h5 : (T : Int) ≤ (K : Int) * (T : Int) := by
    have := Int.mul_le_mul_of_nonneg_right hK' hT
    simpa using this
  simp only [Int.mul_add, Int.mul_sub, Int.mul_one, Int.mul_zero, Int.sub_zero] at h4 ⊢
  omega

/-- **`k` copies against `m` copies of the same sequence** (profile – profile; equal lengths, so `do_align` exchanges the
operands and mirrors the path): the result is the gap-free diagonal -/
theorem C08_identical_groups_diag (entry : Entry) (ap : AlnParam ExactScore) (gpo gpe tgpe : Int) (s : Nat → Nat → Int)
    (hap : ApOK ap gpo gpe tgpe s) (hgpo : 0 ≤ gpo) (hgpe : 0 ≤ gpe) (htgpe : 0 ≤ tgpe) (hsym : ∀ x y, s x y = s y x)
    (seq : Array Nat) (h23 : ∀ i, seq.getD i 0 < 23) (h1 : 1 ≤ seq.size)
    (pa pb : Array ExactScore) (k m : Nat) (hk : 1 ≤ k) (hm : 1 ≤ m) (hpa : Built ap seq pa k) (hpb : Built ap seq pb m)
    (hd : ∀ x ∈ seq.toList,
      max 0 (max (tgpe - gpe) (tgpe - gpo)) + max 0 (gpe - tgpe) + (seq.size : Int) <
        s x x + 2 * min (min (2 * gpo) gpe) tgpe)
    (h2 : ∀ x ∈ seq.toList, ∀ y ∈ seq.toList, 2 * s x y ≤ s x x + s y y) :
    ∃ codes, dpCodes entry ap (.profprof (setGapPenalties pb k) (setGapPenalties pa m)) true seq.size seq.size
        seq.size seq.size = some codes ∧ codes.map Col.ofCode = List.replicate seq.size .both := by
  have hmarg : MarginK s gpo gpe tgpe seq seq (diagCols seq.size) (k * m) (max seq.size seq.size) := by
    rw [Nat.max_self]
    exact diag_marginK gpo gpe tgpe s hgpe seq (k * m) seq.size (Nat.mul_pos hk hm) hd h2
  have := C07_doAlign_profile_profile_opt entry ap gpo gpe tgpe s hap hgpo hgpe htgpe hsym seq seq h23 h23 h1 h1 pa pb
    k m hk hm hpa hpb (diagCols seq.size) (validCols_diag _) (adjOK_diag _ _) hmarg
  rw [if_neg (Nat.lt_irrefl _)] at this
  exact this

/-- **one sequence against `k` copies of itself** (sequence – profile, group on side `b`) -/
theorem C08_identical_seq_group_diag (entry : Entry) (ap : AlnParam ExactScore) (gpo gpe tgpe : Int) (s : Nat → Nat → Int)
    (hap : ApOK ap gpo gpe tgpe s) (hgpo : 0 ≤ gpo) (hgpe : 0 ≤ gpe) (htgpe : 0 ≤ tgpe) (hsym : ∀ x y, s x y = s y x)
    (seq : Array Nat) (h23 : ∀ i, seq.getD i 0 < 23) (h1 : 1 ≤ seq.size)
    (pb : Array ExactScore) (k : Nat) (hk : 1 ≤ k) (hpb : Built ap seq pb k)
    (hd : ∀ x ∈ seq.toList,
      max 0 (max (tgpe - gpe) (tgpe - gpo)) + max 0 (gpe - tgpe) + (seq.size : Int) <
        s x x + 2 * min (min (2 * gpo) gpe) tgpe)
    (h2 : ∀ x ∈ seq.toList, ∀ y ∈ seq.toList, 2 * s x y ≤ s x x + s y y) :
    ∃ codes, dpCodes entry ap (.seqprof (setGapPenalties pb 1) seq k) true seq.size seq.size seq.size seq.size =
        some codes ∧ codes.map Col.ofCode = List.replicate seq.size .both :=
  C07_doAlign_seq_profile_opt entry ap gpo gpe tgpe s hap hgpo hgpe htgpe hsym seq seq h23 h23 h1 h1 pb k hpb
    (diagCols seq.size) (validCols_diag _) (adjOK_diag _ _)
    (diag_marginK gpo gpe tgpe s hgpe seq k seq.size hk hd h2)

/-- **`k` copies against one sequence** (group on side `a`) -/
theorem C08_identical_group_seq_diag (entry : Entry) (ap : AlnParam ExactScore) (gpo gpe tgpe : Int) (s : Nat → Nat → Int)
    (hap : ApOK ap gpo gpe tgpe s) (hgpo : 0 ≤ gpo) (hgpe : 0 ≤ gpe) (htgpe : 0 ≤ tgpe)
    (seq : Array Nat) (h23 : ∀ i, seq.getD i 0 < 23) (h1 : 1 ≤ seq.size)
    (pa : Array ExactScore) (k : Nat) (hk : 1 ≤ k) (hpa : Built ap seq pa k)
    (hd : ∀ x ∈ seq.toList,
      max 0 (max (tgpe - gpe) (tgpe - gpo)) + max 0 (gpe - tgpe) + (seq.size : Int) <
        s x x + 2 * min (min (2 * gpo) gpe) tgpe)
    (h2 : ∀ x ∈ seq.toList, ∀ y ∈ seq.toList, 2 * s x y ≤ s x x + s y y) :
    ∃ codes, dpCodes entry ap (.seqprof (setGapPenalties pa 1) seq k) false seq.size seq.size seq.size seq.size =
        some codes ∧ codes.map Col.ofCode = List.replicate seq.size .both :=
  C07_doAlign_profile_seq_opt entry ap gpo gpe tgpe s hap hgpo hgpe htgpe seq seq h23 h23 h1 h1 pa k hpa
    (diagCols seq.size) (validCols_diag _) (adjOK_diag _ _)
    (diag_marginK gpo gpe tgpe s hgpe seq k seq.size hk hd h2)

/-! ### non-vacuity for groups, with the protein defaults of `Gen.paramTable` -/

theorem exactSub_symm (m : List (List Int)) (h : ∀ x, x < 23 → ∀ y, y < 23 → subOf m x y = subOf m y x) :
    ∀ x y, exactSub m x y = exactSub m y x := by
  intro x y
  unfold exactSub
  by_cases hx : x < 23
  · by_cases hy : y < 23
    · simp [hx, hy, h x hx y hy]
    · simp [hx, hy]
  · simp [hx]

/-- the protein matrix of the table is symmetric -/
theorem mat0_symm : ∀ x y, exactSub Gen.mat0 x y = exactSub Gen.mat0 y x :=
  exactSub_symm Gen.mat0 (by decide +kernel)

/-- two copies of the sequence (0,4,7,17) under the protein defaults, built by one diagonal `update_n` -/
def exGroup2 : Array ExactScore :=
  (updateN (exactParam Gen.mat0 5500 2000 1000) (makeProfile (exactParam Gen.mat0 5500 2000 1000) #[0, 4, 7, 17])
    (makeProfile (exactParam Gen.mat0 5500 2000 1000) #[0, 4, 7, 17]) [0, 0, 0, 0] 1 1).getD #[]

theorem exGroup2_built : Built (exactParam Gen.mat0 5500 2000 1000) #[0, 4, 7, 17] exGroup2 2 := by
  obtain ⟨p, hp, hb⟩ := built_merge_exists (exactParam Gen.mat0 5500 2000 1000) _ _ _ _
    (exactParam_ok Gen.mat0 5500 2000 1000) #[0, 4, 7, 17] (getD_lt_of_all _ (by decide +kernel)) _ _ 1 1 1 1
    Built.leaf Built.leaf
  have : exGroup2 = p := by
    unfold exGroup2
    have h3 : (List.replicate (#[0, 4, 7, 17] : Array Nat).size 0) = [0, 0, 0, 0] := rfl
    rw [h3] at hp
    rw [hp]; rfl
  rw [this]; exact hb

/-- the hypotheses of `C08_identical_groups_diag` hold for two copies against two copies … -/
example : ∃ codes, dpCodes .parallel (exactParam Gen.mat0 5500 2000 1000)
      (.profprof (setGapPenalties exGroup2 2) (setGapPenalties exGroup2 2)) true 4 4 4 4 = some codes ∧
    codes.map Col.ofCode = List.replicate 4 .both :=
  C08_identical_groups_diag .parallel _ _ _ _ (exactSub Gen.mat0) (exactParam_ok Gen.mat0 5500 2000 1000)
    (by decide) (by decide) (by decide) mat0_symm #[0, 4, 7, 17] (getD_lt_of_all _ (by decide +kernel)) (by decide)
    exGroup2 exGroup2 2 2 (by decide) (by decide) exGroup2_built exGroup2_built (by decide +kernel) (by decide +kernel)

/-- … and the model computes the diagonal -/
example : dpCodes .parallel (exactParam Gen.mat0 5500 2000 1000)
    (.profprof (setGapPenalties exGroup2 2) (setGapPenalties exGroup2 2)) true 4 4 4 4 = some [0, 0, 0, 0] := by
  decide +kernel

end Kalign
