import KalignModel.Props.C05PipelineSoftL
import KalignModel.Lemmas.TaskLeaves
/-!
# C05 (pipeline) on the software binary32 carrier: stages "fault" and "monitor", no hypothesis left

`Props/C05PipelineSoftL.lean` proves `kalignRunSoft_never_fault_monitor_of_distinct` under the structural hypothesis
`GuideTreeDistinct` (the leaves of every tree whose sorted task table `buildTasks` returned are pairwise distinct).
`Lemmas/C10Tree.lean` (`buildTasks_tree`) shows that every table `buildTasks` returns is the sorted table of *some* tree whose leaf
list is a permutation of `0 … n-1`; `Lemmas/TaskLeaves.lean` (`table_leaves_nodup`) shows that the sorted table determines the
leaf list up to order.  Together: `guideTreeDistinct` — `GuideTreeDistinct inp` holds for every input — and

* `kalignRunSoft_never_fault_monitor` — **for every input with at most 2¹⁷ sequences of at most `M` residues, `numseq · M < 2¹⁹`,
  every `type` and all penalties, the `SoftF32` pipeline never ends in `.fault` or `.monitor`.**  No hypothesis about values, none
  about the guide tree.
* `kalignRunSoft_never_faults_upgma_partial` — all four stages; the only hypothesis left is `PipelineUpgmaHyp` (binary32 values in
  `upgma`, computed on `Float32` in `kalignRunSoft`).  `Props/C05PipelineSoft2.lean` removes it for the pipeline whose `upgma`
  runs on `SoftF32` (`kalignRunSoft2`).
-/
namespace Kalign.Pipeline
open Kalign Kalign.Kmeans Kalign.SoftF32

/-- **`GuideTreeDistinct` holds for every input** -/
theorem guideTreeDistinct (inp : List InSeq) : GuideTreeDistinct inp :=
  fun _ T _ hb => buildTasks_leaves_nodup true _ T hb

/-- **stages "fault" and "monitor" of the `SoftF32` pipeline: never reached** for inputs with at most 2¹⁷ sequences of at most `M`
residues with `numseq · M < 2¹⁹` — every `type`, every penalty triple, no other hypothesis -/
theorem kalignRunSoft_never_fault_monitor (inp : List InSeq) (type : Int) (gpo gpe tgpe : SoftF32) (M : Nat)
    (hn : inp.length ≤ 131072) (hlen : ∀ x ∈ inp, x.seq.length ≤ M) (hprod : inp.length * M < 524288) :
    kalignRunSoft inp type gpo gpe tgpe ≠ .error .fault ∧ kalignRunSoft inp type gpo gpe tgpe ≠ .error .monitor :=
  kalignRunSoft_never_fault_monitor_of_distinct inp type gpo gpe tgpe M hn hlen hprod (guideTreeDistinct inp)

/-- all four stages; missing fact = `PipelineUpgmaHyp` (the `Float32` values in `upgma` stay below `FLT_MAX`).
Full statement: the same without `hU` (proved for `kalignRunSoft2`, whose `upgma` runs on `SoftF32`: Props/C05PipelineSoft2.lean) -/
theorem kalignRunSoft_never_faults_upgma_partial (inp : List InSeq) (type : Int) (gpo gpe tgpe : SoftF32) (M : Nat)
    (hn : inp.length ≤ 131072) (hlen : ∀ x ∈ inp, x.seq.length ≤ M) (hprod : inp.length * M < 524288)
    (hU : PipelineUpgmaHyp inp) :
    kalignRunSoft inp type gpo gpe tgpe ≠ .error .fault ∧ kalignRunSoft inp type gpo gpe tgpe ≠ .error .tree ∧
    kalignRunSoft inp type gpo gpe tgpe ≠ .error .monitor ∧ kalignRunSoft inp type gpo gpe tgpe ≠ .error .fuel :=
  kalignRunSoft_never_faults_of_distinct inp type gpo gpe tgpe M hn hlen hprod hU (guideTreeDistinct inp)

/-! non-vacuity: three DNA sequences of at most 8 residues satisfy the size hypotheses (`3 · 8 < 2¹⁹`), and the run is a proper
alignment (kernel evaluation of the whole `SoftF32` pipeline is in Props/C05PipelineSoft2.lean) -/
def exInp : List InSeq :=
  [{ name := [65], seq := "ACGTACGT".toList }, { name := [66], seq := "ACGTCGT".toList }, { name := [67], seq := "AGTACG".toList }]

example : kalignRunSoft exInp (-1) (ofRaw 0xbf800000) (ofRaw 0xbf800000) (ofRaw 0xbf800000) ≠ .error .fault ∧
    kalignRunSoft exInp (-1) (ofRaw 0xbf800000) (ofRaw 0xbf800000) (ofRaw 0xbf800000) ≠ .error .monitor :=
  kalignRunSoft_never_fault_monitor exInp (-1) _ _ _ 8 (by decide) (by decide) (by decide)

end Kalign.Pipeline
