import KalignModel.Lemmas.IO.Fasta
import KalignModel.Lemmas.IO.Sniff
import KalignModel.Lemmas.IO.Clu
import KalignModel.Lemmas.IO.Asa
/-!
# C06 — an alignment written by kalign and read back by kalign is the same alignment

`S : List SeqRec` are the aligned sequences as kalign holds them (name, residues, gap vector); `finalise S` is the
alignment handed to `kalign_write_msa` (rows = `make_linear_sequence`).  `AlnWF S` (Lemmas/IO/Spec.lean, decidable):
at least one row, all rows of one width ≥ 1, residues are letters, names are 1..200 bytes over
`[A-Za-z0-9_.|-]`.  Each theorem says that reading the written file returns exactly `S`: same number of rows, same order,
same names, same residues, same gap vectors.
-/
namespace Kalign.IO
open List

theorem finalise_rows_length' (S : List SeqRec) (wf : AlnWF S) (bio L : Nat) (base : Bytes) :
    ∀ r ∈ (finalise S bio L base).rows, r.row.length = (finalise S bio L base).alnlen := by
  intro r hr
  simp only [finalise, mem_map] at hr
  obtain ⟨s, hs, rfl⟩ := hr
  simp only [finalise]
  rw [linRow_length _ _ (wf.gaps s hs), wf.width s hs]

theorem finalise_name_plain (S : List SeqRec) (wf : AlnWF S) (bio L : Nat) (base : Bytes) :
    ∀ r ∈ (finalise S bio L base).rows, ∀ b ∈ r.name, plainChar b = true := by
  intro r hr b hb
  simp only [finalise, mem_map] at hr
  obtain ⟨s, hs, rfl⟩ := hr
  exact nameChar_plain b ((wf.names s hs).2.2 b hb)

theorem finalise_row_plain (S : List SeqRec) (wf : AlnWF S) (bio L : Nat) (base : Bytes) :
    ∀ r ∈ (finalise S bio L base).rows, ∀ b ∈ r.row, plainChar b = true := by
  intro r hr b hb
  simp only [finalise, mem_map] at hr
  obtain ⟨s, hs, rfl⟩ := hr
  exact rowChar_plain b (linRow_rowChar _ _ (wf.res s hs) b hb)

/-- non-vacuity of `AlnWF`: 3 rows of width 61 (two blocks), lower-case residues, names `-`, `a|b`, digits only -/
example : AlnWF [⟨ascii "-", replicate 59 65 ++ [99], replicate 60 0 ++ [1]⟩,
    ⟨ascii "a|b", replicate 61 71, 0 :: replicate 61 0⟩, ⟨ascii "12", replicate 30 84, 31 :: replicate 30 0⟩] := by decide

/-- scanning the rows of a finalised alignment gives back the sequences -/
theorem scan_finalise (S : List SeqRec) (wf : AlnWF S) (bio L : Nat) (base : Bytes) :
    (finalise S bio L base).rows.map (scanRow (finalise S bio L base).alnlen) = S := by
  simp only [finalise, map_map]
  conv => rhs; rw [← map_id S]
  apply map_congr_left
  intro s hs
  simp only [Function.comp, scanRow, id]
  have hlen : (linRow s.res s.gaps).length = alnlenOf S := by
    rw [linRow_length _ _ (wf.gaps s hs), wf.width s hs]
  rw [← hlen, take_length]
  exact feed_linRow_new s.name s.res s.gaps (wf.res s hs) (wf.gaps s hs)

/-- **FASTA round trip** (reader on the lines of the written file) -/
theorem fasta_roundtrip (S : List SeqRec) (wf : AlnWF S) (bio L : Nat) (base : Bytes) :
    readFasta (splitLines (writeFasta (finalise S bio L base))) = some S := by
  rw [readFasta_writeFasta]
  · rw [scan_finalise S wf]
  · intro r hr b hb
    exact plain_not_cntrl b (finalise_name_plain S wf bio L base r hr b hb)
  · intro r hr b hb
    have hp := finalise_row_plain S wf bio L base r hr b hb
    exact ⟨plain_not_cntrl b hp, (plain_ne b hp).1⟩

/-- the lines of a written FASTA file -/
theorem fasta_lines (S : List SeqRec) (wf : AlnWF S) (bio L : Nat) (base : Bytes) :
    splitLines (writeFasta (finalise S bio L base)) =
      faLines (finalise S bio L base).alnlen (finalise S bio L base).rows ∧
    ∀ l ∈ faLines (finalise S bio L base).alnlen (finalise S bio L base).rows, ∀ b ∈ l, b = 62 ∨ plainChar b = true := by
  have hpl : ∀ l ∈ faLines (finalise S bio L base).alnlen (finalise S bio L base).rows,
      ∀ b ∈ l, b = 62 ∨ plainChar b = true := by
    intro l hl b hb
    simp only [faLines, mem_flatMap, mem_cons] at hl
    obtain ⟨r, hr, hl | hl⟩ := hl
    · subst hl
      simp only [mem_cons] at hb
      rcases hb with rfl | hb
      · exact Or.inl rfl
      · exact Or.inr (finalise_name_plain S wf bio L base r hr b hb)
    · exact Or.inr (finalise_row_plain S wf bio L base r hr b ((faChunks_mem _ r l hl).2 b hb))
  refine ⟨?_, hpl⟩
  rw [writeFasta_eq_emit, splitLines_emit]
  intro l hl b hb
  rcases hpl l hl b hb with rfl | h
  · decide
  · exact plain_not_cntrl b h

/-- a written FASTA file is recognised as FASTA -/
theorem sniff_written_fasta (S : List SeqRec) (wf : AlnWF S) (bio L : Nat) (base : Bytes) :
    detectFormat (splitLines (writeFasta (finalise S bio L base))) = 1 := by
  obtain ⟨hl, _⟩ := fasta_lines S wf bio L base
  rw [hl]
  match hS : S, wf.ne with
  | s :: rest, _ =>
    simp only [finalise, faLines, map_cons, flatMap_cons, cons_append]
    exact detectFormat_head _ _ _ (lineKind_fasta _ (by simp [fastaHint]))

/-- **FASTA round trip through `kalign_read_input`**: format sniffed, sequences, alphabet and alignment status -/
theorem fasta_roundtrip_input (S : List SeqRec) (wf : AlnWF S) (bio L : Nat) (base : Bytes) :
    readInput (writeFasta (finalise S bio L base)) = .ok (finishMsa S 2 255) := by
  have hsn := sniff_written_fasta S wf bio L base
  have hrt := fasta_roundtrip S wf bio L base
  obtain ⟨hl, _⟩ := fasta_lines S wf bio L base
  match hS : S, wf.ne, wf.names with
  | s :: rest, _, hn =>
    have h1 := (hn s (by simp)).1
    have hlines : splitLines (writeFasta (finalise (s :: rest) bio L base)) =
        (62 :: s.name) :: (faChunks (finalise (s :: rest) bio L base).alnlen ⟨s.name, linRow s.res s.gaps⟩ ++
          faLines (finalise (s :: rest) bio L base).alnlen (finalise rest bio L base).rows) := by
      rw [hl]; simp [finalise, faLines]
    rw [hlines] at hsn hrt
    exact readInput_ok _ _ _ 1 _ hlines (by simp only [length_cons]; omega) hsn (by decide)
      (by simpa [readAs] using hrt) (by simp)

/-! ## Clustal -/

theorem finalise_inBounds' (S : List SeqRec) (wf : AlnWF S) (bio L : Nat) (base : Bytes) :
    (finalise S bio L base).InBounds := by
  intro r hr
  rw [finalise_rows_length' S wf bio L base r hr]
  exact Nat.le_refl _

theorem finalise_nmOK (S : List SeqRec) (wf : AlnWF S) (bio L : Nat) (base : Bytes) :
    ∀ r ∈ rowsC (finalise S bio L base), NmOK (maxNameLen (finalise S bio L base)) r.1 := by
  intro r hr
  simp only [rowsC, mem_map] at hr
  obtain ⟨r0, h0, rfl⟩ := hr
  have hmx := maxNameLen_ge (finalise S bio L base) r0 h0
  have hpl := finalise_name_plain S wf bio L base r0 h0
  simp only [finalise, mem_map] at h0
  obtain ⟨s, hs, rfl⟩ := h0
  obtain ⟨h1, h2, _⟩ := wf.names s hs
  refine ⟨?_, h2, fun b hb => plain_not_space b (hpl b hb), ?_⟩
  · intro h; simp only at h; rw [h] at h1; simp at h1
  · have : nameCut s.name = s.name := take_of_length_le (by omega)
    rw [this] at hmx; exact hmx

theorem numBlocks_pos (n : Nat) : ∃ k, numBlocks n = k + 1 := ⟨numBlocks n - 1, by unfold numBlocks; omega⟩

theorem rowsC_final (A : Alignment) :
    ((rowsC A).map fun r => feed (SeqAcc.new r.1) r.2.flatten).map SeqAcc.finish = A.rows.map (scanRow A.alnlen) := by
  simp only [rowsC, map_map]
  apply map_congr_left
  intro r _
  simp [Function.comp, scanRow, blocks_flatten]

def cluTitle (ver : Bytes) : Bytes := ascii "Kalign (" ++ ver ++ ascii ") multiple sequence alignment"

/-- the lines of a written Clustal file -/
theorem clu_lines (S : List SeqRec) (wf : AlnWF S) (bio L : Nat) (base ver : Bytes)
    (hver : ∀ b ∈ ver, isCntrl b = false) :
    splitLines (writeClu ver (finalise S bio L base)) =
      cluTitle ver :: [] :: majorLines (maxNameLen (finalise S bio L base))
        (numBlocks (finalise S bio L base).alnlen) (rowsC (finalise S bio L base)) := by
  rw [writeClu_eq ver _ (finalise_inBounds' S wf bio L base), splitLines_emit]
  · rfl
  · intro l hl b hb
    simp only [cons_append, nil_append, mem_cons] at hl
    rcases hl with rfl | rfl | hl
    · simp only [mem_append] at hb
      rcases hb with (hb | hb) | hb
      · revert b; decide
      · exact hver b hb
      · revert b; decide
    · simp at hb
    · refine majorLines_bytes (fun b => isCntrl b = false) (by decide) _ _ _ ?_ l hl b hb
      intro r hr
      simp only [rowsC, mem_map] at hr
      obtain ⟨r0, h0, rfl⟩ := hr
      refine ⟨fun b hb => plain_not_cntrl b (finalise_name_plain S wf bio L base r0 h0 b hb), ?_⟩
      intro c hc b hb
      have : b ∈ (blocks (r0.row.take (finalise S bio L base).alnlen)).flatten := mem_flatten.mpr ⟨c, hc, hb⟩
      rw [blocks_flatten] at this
      exact plain_not_cntrl b (finalise_row_plain S wf bio L base r0 h0 b (mem_of_mem_take this))

/-- **Clustal round trip** (reader on the lines of the written file); `ver` is the version string of the title line -/
theorem clu_roundtrip (S : List SeqRec) (wf : AlnWF S) (bio L : Nat) (base ver : Bytes)
    (hver : ∀ b ∈ ver, isCntrl b = false) :
    readClu (splitLines (writeClu ver (finalise S bio L base))) = S := by
  rw [clu_lines S wf bio L base ver hver]
  obtain ⟨k, hk⟩ := numBlocks_pos (finalise S bio L base).alnlen
  have hne : rowsC (finalise S bio L base) ≠ [] := by
    have := wf.ne
    simp only [rowsC, finalise, ne_eq, map_eq_nil_iff]; exact this
  have hlen : ∀ r ∈ rowsC (finalise S bio L base), r.2.length = k + 1 := by
    intro r hr
    simp only [rowsC, mem_map] at hr
    obtain ⟨r0, h0, rfl⟩ := hr
    rw [← hk]
    exact rowsC_blocks _ (finalise_inBounds' S wf bio L base) r0 h0
  simp only [readClu, drop_succ_cons, drop_zero, foldl_cons]
  have h0 : cluLine ⟨[], []⟩ [] = ⟨[], []⟩ := rfl
  rw [h0, hk, clu_all _ k _ hne hlen (finalise_nmOK S wf bio L base)]
  simp only [Blk.seqs, reverse_nil, nil_append]
  rw [rowsC_final, scan_finalise S wf]

/-- a written Clustal file is recognised as Clustal -/
theorem sniff_written_clu (S : List SeqRec) (wf : AlnWF S) (bio L : Nat) (base ver : Bytes)
    (hver : ∀ b ∈ ver, isCntrl b = false) :
    detectFormat (splitLines (writeClu ver (finalise S bio L base))) = 3 := by
  rw [clu_lines S wf bio L base ver hver]
  apply detectFormat_head
  apply lineKind_clu
  · simp [fastaHint, cluTitle, ascii]
  have h : hasSub (ascii "multiple sequence alignment") (cluTitle ver) = true := by
    have := hasSub_append (ascii "multiple sequence alignment") (ascii "Kalign (" ++ ver ++ ascii ") ") []
    have e : ascii "Kalign (" ++ ver ++ ascii ") " ++ ascii "multiple sequence alignment" ++ [] = cluTitle ver := by
      simp only [cluTitle, append_nil, append_assoc]
      congr 2
    rwa [e] at this
  simp [countHints, cluHints, h]

/-- **Clustal round trip through `kalign_read_input`** -/
theorem clu_roundtrip_input (S : List SeqRec) (wf : AlnWF S) (bio L : Nat) (base ver : Bytes)
    (hver : ∀ b ∈ ver, isCntrl b = false) :
    readInput (writeClu ver (finalise S bio L base)) = .ok (finishMsa S 2 255) := by
  have hsn := sniff_written_clu S wf bio L base ver hver
  have hrt := clu_roundtrip S wf bio L base ver hver
  have hl := clu_lines S wf bio L base ver hver
  rw [hl] at hsn hrt
  refine readInput_ok _ _ _ 3 _ hl ?_ hsn (by decide) (by simp [readAs, hrt]) wf.ne
  have : (ascii "Kalign (").length = 8 := by decide
  simp only [cluTitle, length_append, this]; omega

/-! ## MSF -/

/-- requirements on the parameters that are not part of the alignment: the version string of the Clustal title line,
the base name of the output file and the `strftime` text of the MSF header.  Decidable; satisfied by every version
string / date without control characters, `/`, `n:` or "letter, blank, letter" (e.g. `September 27, 2026 12:00`). -/
structure FileOK (ver base date : Bytes) : Prop where
  ver : ∀ b ∈ ver, isCntrl b = false
  hdr : HdrOK base date
  dateAsa : asaFrom 0 date = false

instance (ver base date : Bytes) : Decidable (FileOK ver base date) :=
  if h : (∀ b ∈ ver, isCntrl b = false) ∧ HdrOK base date ∧ asaFrom 0 date = false
  then isTrue ⟨h.1, h.2.1, h.2.2⟩ else isFalse fun w => h ⟨w.ver, w.hdr, w.dateAsa⟩

example : FileOK (ascii "3.4.1") (ascii "out.msf") (ascii "September 27, 2026 12:00") := by decide

theorem finalise_hn (S : List SeqRec) (wf : AlnWF S) (bio L : Nat) (base : Bytes) :
    ∀ r ∈ (finalise S bio L base).rows,
      NmOK (maxNameLen (finalise S bio L base)) r.name ∧ ∀ b ∈ r.name, plainChar b = true := by
  intro r hr
  refine ⟨?_, finalise_name_plain S wf bio L base r hr⟩
  exact finalise_nmOK S wf bio L base (r.name, blocks (r.row.take (finalise S bio L base).alnlen))
    (by simp only [rowsC, mem_map]; exact ⟨r, hr, rfl⟩)

/-- the lines of a written MSF file -/
theorem msf_lines (S : List SeqRec) (wf : AlnWF S) (bio L : Nat) (base date : Bytes) (h : HdrOK base date) :
    splitLines (writeMsf date (finalise S bio L base)) =
      msfHeaderLines date (finalise S bio L base) ++ majorLines (maxNameLen (finalise S bio L base))
        (numBlocks (finalise S bio L base).alnlen) (rowsC (finalise S bio L base)) := by
  rw [writeMsf_eq date _ (finalise_inBounds' S wf bio L base), splitLines_emit]
  intro l hl b hb
  rcases mem_append.mp hl with hl | hl
  · simp only [msfHeaderLines, cons_append, nil_append, mem_cons, mem_append, mem_map] at hl
    rcases hl with rfl | rfl | rfl | rfl | ⟨r, hr, rfl⟩ | rfl | rfl | rfl | hl
    · exact (msfMagic_skip _).2.2.not_cntrl b hb
    · simp at hb
    · exact (msfInfoLine_ok date _ h).not_cntrl b hb
    · simp at hb
    · have := finalise_hn S wf bio L base r hr
      exact (msfNameLine_ok _ _ r this.1 this.2).not_cntrl b hb
    · simp at hb
    · revert b; decide
    · simp at hb
    · simp at hl
  · refine majorLines_bytes (fun b => isCntrl b = false) (by decide) _ _ _ ?_ l hl b hb
    intro r hr
    simp only [rowsC, mem_map] at hr
    obtain ⟨r0, h0, rfl⟩ := hr
    refine ⟨fun b hb => plain_not_cntrl b (finalise_name_plain S wf bio L base r0 h0 b hb), ?_⟩
    intro c hc b hb
    have : b ∈ (blocks (r0.row.take (finalise S bio L base).alnlen)).flatten := mem_flatten.mpr ⟨c, hc, hb⟩
    rw [blocks_flatten] at this
    exact plain_not_cntrl b (finalise_row_plain S wf bio L base r0 h0 b (mem_of_mem_take this))

/-- **MSF round trip** (reader on the lines of the written file) -/
theorem msf_roundtrip (S : List SeqRec) (wf : AlnWF S) (bio L : Nat) (base date : Bytes) (h : HdrOK base date) :
    readMsf (splitLines (writeMsf date (finalise S bio L base))) = some S := by
  rw [msf_lines S wf bio L base date h]
  have hne : (finalise S bio L base).rows ≠ [] := by
    have := wf.ne
    simp only [finalise, ne_eq, map_eq_nil_iff]; exact this
  rw [readMsf_layout date _ h hne (finalise_hn S wf bio L base) _
    (fun r hr => by
      simp only [rowsC, mem_map] at hr
      obtain ⟨r0, h0, rfl⟩ := hr
      exact rowsC_blocks _ (finalise_inBounds' S wf bio L base) r0 h0)]
  rw [scan_finalise S wf]

theorem msfMagic_fastaHint (A : Alignment) : fastaHint (msfMagic A) = 0 := by
  unfold msfMagic
  split
  · decide
  · split <;> decide

/-- a written MSF file is recognised as MSF (its first line is the `!!AA/NA_MULTIPLE_ALIGNMENT` line, which carries no Clustal hint) -/
theorem sniff_written_msf (S : List SeqRec) (wf : AlnWF S) (bio L : Nat) (base date : Bytes) (h : HdrOK base date)
    (hd : asaFrom 0 date = false) :
    detectFormat (splitLines (writeMsf date (finalise S bio L base))) = 2 := by
  rw [msf_lines S wf bio L base date h]
  simp only [msfHeaderLines, cons_append]
  apply detectFormat_head
  apply lineKind_msf
  · exact msfMagic_fastaHint _
  · exact noCluHints _ (msfMagic_asa _).1
  · exact (msfMagic_asa _).2

/-- **MSF round trip through `kalign_read_input`** -/
theorem msf_roundtrip_input (S : List SeqRec) (wf : AlnWF S) (bio L : Nat) (base date : Bytes) (h : HdrOK base date)
    (hd : asaFrom 0 date = false) :
    readInput (writeMsf date (finalise S bio L base)) = .ok (finishMsa S 2 255) := by
  have hsn := sniff_written_msf S wf bio L base date h hd
  have hrt := msf_roundtrip S wf bio L base date h
  have hl := msf_lines S wf bio L base date h
  rw [hl] at hsn hrt
  have e : msfHeaderLines date (finalise S bio L base) ++ majorLines (maxNameLen (finalise S bio L base))
        (numBlocks (finalise S bio L base).alnlen) (rowsC (finalise S bio L base)) =
      msfMagic (finalise S bio L base) :: (([] :: msfInfoLine date (finalise S bio L base) :: [] ::
        ((finalise S bio L base).rows.map (msfNameLine (maxNameLen (finalise S bio L base)) (finalise S bio L base).alnlen) ++
          [[], ascii "//", []])) ++ majorLines (maxNameLen (finalise S bio L base))
        (numBlocks (finalise S bio L base).alnlen) (rowsC (finalise S bio L base))) := by
    simp [msfHeaderLines]
  rw [e] at hl hsn hrt
  have hra : ∀ l, readAs 2 l = readMsf l := by intro l; simp [readAs]
  refine readInput_ok _ _ _ 2 _ hl ?_ hsn (by decide) (by rw [hra]; exact hrt) wf.ne
  unfold msfMagic; split
  · decide
  · split <;> decide

/-! ## all ordered pairs of formats -/

/-- the three writers, by format id (1 = FASTA, 2 = MSF, 3 = Clustal) -/
def writeAs (ver date : Bytes) (fmt : Nat) (A : Alignment) : Bytes :=
  if fmt = 1 then writeFasta A else if fmt = 2 then writeMsf date A else writeClu ver A

/-- reading any of the three written files gives the same result: the sequences `S` with their gap vectors -/
theorem roundtrip_any (S : List SeqRec) (wf : AlnWF S) (bio L : Nat) (ver base date : Bytes)
    (ok : FileOK ver base date) (fmt : Nat) :
    readInput (writeAs ver date fmt (finalise S bio L base)) = .ok (finishMsa S 2 255) := by
  unfold writeAs
  split
  · exact fasta_roundtrip_input S wf bio L base
  · split
    · exact msf_roundtrip_input S wf bio L base date ok.hdr ok.dateAsa
    · exact clu_roundtrip_input S wf bio L base ver ok.ver

/-- **converting between the formats through kalign loses nothing**: write in format `f1`, read, finalise what was
read (gap vectors → rows), write in format `f2`, read again: the same sequences, names and gaps as at the start -/
theorem cross_format (S : List SeqRec) (wf : AlnWF S) (bio L bio' L' : Nat) (ver base base' date date' : Bytes)
    (ok : FileOK ver base date) (ok' : FileOK ver base' date') (f1 f2 : Nat) :
    ∃ m, readInput (writeAs ver date f1 (finalise S bio L base)) = .ok m ∧
      readInput (writeAs ver date' f2 (finalise m.seqs bio' L' base')) = .ok (finishMsa S 2 255) ∧ m.seqs = S := by
  refine ⟨finishMsa S 2 255, roundtrip_any S wf bio L ver base date ok f1, ?_, finishMsa_seqs S 2 255⟩
  rw [finishMsa_seqs]
  exact roundtrip_any S wf bio' L' ver base' date' ok' f2

end Kalign.IO
